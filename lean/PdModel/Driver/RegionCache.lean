import PdModel.Driver.Common
import PdModel.Driver.RegionText
import PdModel.Model.RegionCache
import PdModel.Spec.C06
/-!
Driver for area `regioncache` (property C06).

model side   – `RegionCache.heartbeat` on the `RegionsInfo` model; the served set and the stored metas are
               re-computed after every heartbeat and compared with what the implementation reports (DIFF);
monitor side – `Spec.C06.StepOk` / `ConcOk` (decidable) applied to the heartbeat, the implementation's answer,
               and the served / stored sets the implementation reported before and after.  The monitor keeps
               only what the implementation reported (`S`, `M`, the last served version per id); it never
               reads the model state.
-/
namespace PdModel.Driver.RegionCache
open PdModel.RegionTree PdModel.RegionCache PdModel.Driver PdModel.Driver.RegionText PdModel.Spec

structure Mon where
  H : C06.History := []
  S : List Region := []
  M : List (Nat × Meta) := []

structure DState where
  model : Cluster := {}
  mon : Mon := {}
  /-- after a batch of concurrent heartbeats the model has no single successor state: it follows the
      implementation's report (the monitor judges the batch) -/
  desync : Bool := false

/-- the fields the trace shows (what the monitor compares) -/
def norm (r : Region) : Region := { r with down := [], keys := 0, written := 0, read := 0, repl := (0, 0) }

def sortMetas (l : List (Nat × Meta)) : List (Nat × Meta) :=
  l.foldr (fun e acc =>
    let rec ins (e : Nat × Meta) : List (Nat × Meta) → List (Nat × Meta)
      | [] => [e]
      | x :: xs => if e.1 < x.1 then e :: x :: xs else x :: ins e xs
    ins e acc) []

def renderState (c : Cluster) : String :=
  s!"S={renderRegionList (served c)} M={renderMetaList (sortMetas c.storage)}"

/-- `<verdicts> S=<..> M=<..>` -/
def parseObs (impl : String) : String × List Region × List (Nat × Meta) :=
  match words impl with
  | [v, s, m] => (v, parseRegionList (s.drop 2).toString, parseMetaList (m.drop 2).toString)
  | _ => ("?", [], [])

def verdictOf : String → Option C06.Verdict
  | "ok" => some .ok
  | "stale" => some .stale
  | _ => none

def vstr : Verdict → String
  | .ok => "ok"
  | .stale => "stale"

/-- explain a failed `StepOk` with a stable signature -/
def explainStep (m : Mon) (r : Region) (v : C06.Verdict) (S' : List Region) (M' : List (Nat × Meta)) : List String :=
  let f1 := if decide (C06.NoOverlap S') then [] else [s!"sig=C06.served-regions-overlap after-region={r.id}"]
  let f2 := S'.filterMap (fun y =>
    match C06.lastServed m.H y.id with
    | some o =>
      if decide (C06.NotBehind o y) then none
      else if m.S.any (fun z => z.id = y.id) then
        some s!"sig=C06.served-epoch-regressed id={y.id} from={o.version}.{o.confVer}.{o.term} to={y.version}.{y.confVer}.{y.term}"
      else
        some s!"sig=C06.served-epoch-regressed-after-displacement id={y.id} from={o.version}.{o.confVer}.{o.term} to={y.version}.{y.confVer}.{y.term}"
    | none => none)
  let f3 := if decide (C06.MustReject m.S r) && v != .stale then
      [s!"sig=C06.stale-heartbeat-accepted region={r.id} epoch={r.version}.{r.confVer}.{r.term}"] else []
  let f4 := if v == .stale && (S' != m.S || M' != m.M) then
      [s!"sig=C06.rejected-heartbeat-changed-state region={r.id}"] else []
  let f5 := if v == .ok then
      if S' = m.S then
        (if decide (C06.StoredOk m.M M' r []) then [] else [s!"sig=C06.storage-changed-without-cache-change region={r.id}"])
      else if S' = C07.put m.S r then
        (if decide (C06.StoredOk m.M M' r (C07.displaced m.S r)) then []
         else [s!"sig=C06.displaced-region-left-in-storage region={r.id} displaced={renderIds (C07.displaced m.S r)}"])
      else [s!"sig=C06.served-set-is-not-old-set-with-region-put region={r.id}"]
    else []
  f1 ++ f2 ++ f3 ++ f4 ++ f5

def splitBar (ws : List String) : List (List String) :=
  let r := ws.foldl (fun (acc : List (List String) × List String) w =>
    if w = "|" then (acc.1 ++ [acc.2], []) else (acc.1, acc.2 ++ [w])) ([], [])
  r.1 ++ [r.2]

def step (d : DState) (opLine : String) (impl : String) : DState × StepOut :=
  match words opLine with
  | ["reset"] => ({}, { model := "ok" })
  | "hb" :: spec =>
    match parseHeartbeatX spec with
    | none => (d, { model := "bad-op" })
    | some hb =>
      let r := regionFromHeartbeat hb
      let (c', v) := heartbeat d.model r
      let (vi, S', M') := parseObs impl
      -- monitor
      let (fails, mon') :=
        match verdictOf vi with
        | some v' =>
          let ok := decide (C06.StepOk d.mon.H d.mon.S d.mon.M (norm r) v' S' M')
          let fs := if ok then [] else
            let e := explainStep d.mon (norm r) v' S' M'
            if e.isEmpty then [s!"sig=C06.step-not-ok region={r.id}"] else e
          (fs, { H := C06.record d.mon.H S', S := S', M := M' })
        | none => ([s!"sig=C06.unexpected-answer answer={vi}"], d.mon)
      let out := if d.desync then impl else s!"{vstr v} {renderState c'}"
      ({ d with model := c', mon := mon' }, { model := out, fails := fails })
  | "conc" :: rest =>
    let specs := splitBar rest
    let hbs := specs.filterMap parseHeartbeatX
    let (vs, S', M') := parseObs impl
    let vl := (vs.splitOn ",").filterMap verdictOf
    if hbs.length ≠ specs.length || vl.length ≠ hbs.length then
      (d, { model := "bad-op", fails := [s!"sig=C06.unexpected-answer answer={vs}"] })
    else
      let batch := (hbs.map (fun hb => norm (regionFromHeartbeat hb))).zip vl
      let ok := decide (C06.ConcOk d.mon.H d.mon.S batch S')
      let fails := if ok then [] else
        let f1 := if decide (C06.NoOverlap S') then [] else ["sig=C06.served-regions-overlap after-batch"]
        let seq := decide (S' ∈ C06.reachable batch.length d.mon.S batch)
        -- when the batch is explained by handling the heartbeats one at a time, every accepted heartbeat was
        -- not behind the region of its id served at that moment: a regression can only be across a displacement
        let f2 := S'.filterMap (fun y =>
          match C06.lastServed d.mon.H y.id with
          | some o =>
            if decide (C06.NotBehind o y) then none
            else if seq then
              some s!"sig=C06.served-epoch-regressed-after-displacement id={y.id} from={o.version}.{o.confVer}.{o.term} to={y.version}.{y.confVer}.{y.term} (in a concurrent batch)"
            else some s!"sig=C06.served-epoch-regressed-in-batch id={y.id}"
          | none => none)
        let f3 := if seq then [] else ["sig=C06.concurrent-result-not-sequential"]
        f1 ++ f2 ++ f3
      -- the model cannot know the schedule: it adopts the reported state (served set only; the storage of
      -- the model is no longer compared until the next reset)
      ({ d with mon := { H := C06.record d.mon.H S', S := S', M := M' }, desync := true },
        { model := impl, fails := fails })
  | ["get", id] =>
    (d, { model := if d.desync then impl else renderOpt ((getRegionC d.model (natArg id)).map norm) })
  | ["bykey", k] =>
    (d, { model := if d.desync then impl else renderOpt ((getRegionByKey d.model (parseKey k)).map norm) })
  | ["load", id] =>
    (d, { model := if d.desync then impl else
      match loadRegion d.model (natArg id) with
      | some m => renderMeta m
      | none => "nil" })
  | _ => (d, { model := "bad-op" })

def main : IO UInt32 := runDriver ({} : DState) step

end PdModel.Driver.RegionCache
