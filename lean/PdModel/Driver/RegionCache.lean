import PdModel.Driver.Common
import PdModel.Driver.RegionText
import PdModel.Model.RegionCache
import PdModel.Spec.C06
/-!
Driver for area `regioncache` (property C06).

model side   – `RegionCache.heartbeat` on the `RegionsInfo` model; the served set and the stored metas are
               re-computed after every heartbeat and compared with what the implementation reports (DIFF);
monitor side – `Spec.C06.StepOk` / `ConcOk` (decidable) applied to the heartbeat, the implementation's answer,
               and the served / stored sets the implementation reported before and after.  The monitor keeps
               only what the implementation reported (`S`, `M`, the last served version per id); it never
               reads the model state.
-/
namespace PdModel.Driver.RegionCache
open PdModel.RegionTree PdModel.RegionCache PdModel.Driver PdModel.Driver.RegionText PdModel.Spec

structure Mon where
  H : C06.History := []
  S : List Region := []
  M : List (Nat × Meta) := []
  /-- the heartbeats that are held at their first storage write (from the op lines) -/
  held : List (Nat × Region) := []

structure DState where
  model : Cluster := {}
  mon : Mon := {}
  /-- after a batch of concurrent heartbeats the model has no single successor state: it follows the
      implementation's report (the monitor judges the batch) -/
  desync : Bool := false
  /-- after a `scanrace` op (several hundred regions rebuilt, served set not reported) nothing is compared or
      judged until the next reset -/
  blind : Bool := false
  /-- `reset leveldb`: the region storage with its write batch (`M` = what is on disk) -/
  rs : Option RegionStorage := none
  /-- model side of the held heartbeats: (stream, region, saveKV, displaced regions) -/
  held : List (Nat × Region × Bool × List Region) := []

/-- the fields the trace shows (what the monitor compares) -/
def norm (r : Region) : Region := { r with down := [], keys := 0, written := 0, read := 0, repl := (0, 0) }

def sortMetas (l : List (Nat × Meta)) : List (Nat × Meta) :=
  l.foldr (fun e acc =>
    let rec ins (e : Nat × Meta) : List (Nat × Meta) → List (Nat × Meta)
      | [] => [e]
      | x :: xs => if e.1 < x.1 then e :: x :: xs else x :: ins e xs
    ins e acc) []

def renderState (c : Cluster) : String :=
  s!"S={renderRegionList (served c)} M={renderMetaList (sortMetas c.storage)}"

/-- what `LoadRegions` / `LoadRegion` read: the disk of the region storage when there is one -/
def diskOf (d : DState) : List (Nat × Meta) :=
  match d.rs with
  | some rs => rs.disk
  | none => d.model.storage

def renderStateD (d : DState) : String :=
  s!"S={renderRegionList (served d.model)} M={renderMetaList (sortMetas (diskOf d))}"

/-- served-set complaints shared by all kinds of steps -/
def explainServed (m : Mon) (r : Region) (S' : List Region) : List String :=
  let f1 := if decide (C06.NoOverlap S') then [] else [s!"sig=C06.served-regions-overlap after-region={r.id}"]
  let f2 := S'.filterMap (fun y =>
    match C06.lastServed m.H y.id with
    | some o =>
      if decide (C06.NotBehind o y) then none
      else if m.S.any (fun z => z.id = y.id) then
        some s!"sig=C06.served-epoch-regressed id={y.id} from={o.version}.{o.confVer}.{o.term} to={y.version}.{y.confVer}.{y.term}"
      else
        some s!"sig=C06.served-epoch-regressed-after-displacement id={y.id} from={o.version}.{o.confVer}.{o.term} to={y.version}.{y.confVer}.{y.term}"
    | none => none)
  f1 ++ f2

/-- explain a failed `StepOkBatched` -/
def explainBatched (m : Mon) (r : Region) (v : C06.Verdict) (S' : List Region) (M' : List (Nat × Meta)) : List String :=
  let f3 := if decide (C06.MustReject m.S r) && v != .stale then
      [s!"sig=C06.stale-heartbeat-accepted region={r.id} epoch={r.version}.{r.confVer}.{r.term}"] else []
  let f4 := if v == .stale && (S' != m.S || M' != m.M) then
      [s!"sig=C06.rejected-heartbeat-changed-state region={r.id}"] else []
  let bad := fun (gone : List Region) =>
    if !decide (∀ y ∈ gone, C06.lookup M' y.id = none) then
      [s!"sig=C06.displaced-region-left-in-storage region={r.id} displaced={renderIds gone} (region storage with write batch)"]
    else if decide (C06.StoredOkBatched S' m.M M' gone) then []
    else [s!"sig=C06.disk-changed-for-a-region-not-served region={r.id}"]
  let f5 := if v == .ok then
      if S' = m.S then bad []
      else if S' = C07.put m.S r then bad (C07.displaced m.S r)
      else [s!"sig=C06.served-set-is-not-old-set-with-region-put region={r.id}"]
    else []
  explainServed m r S' ++ f3 ++ f4 ++ f5

def gateOutOf : String → Option C06.GateOut
  | "parked" => some .parked
  | "ok" => some (.done .ok)
  | "stale" => some (.done .stale)
  | _ => none

/-- `<verdicts> S=<..> M=<..>` -/
def parseObs (impl : String) : String × List Region × List (Nat × Meta) :=
  match words impl with
  | [v, s, m] => (v, parseRegionList (s.drop 2).toString, parseMetaList (m.drop 2).toString)
  | _ => ("?", [], [])

def verdictOf : String → Option C06.Verdict
  | "ok" => some .ok
  | "stale" => some .stale
  | _ => none

def vstr : Verdict → String
  | .ok => "ok"
  | .stale => "stale"

/-- explain a failed `StepOk` with a stable signature -/
def explainStep (m : Mon) (r : Region) (v : C06.Verdict) (S' : List Region) (M' : List (Nat × Meta)) : List String :=
  let f1 := if decide (C06.NoOverlap S') then [] else [s!"sig=C06.served-regions-overlap after-region={r.id}"]
  let f2 := S'.filterMap (fun y =>
    match C06.lastServed m.H y.id with
    | some o =>
      if decide (C06.NotBehind o y) then none
      else if m.S.any (fun z => z.id = y.id) then
        some s!"sig=C06.served-epoch-regressed id={y.id} from={o.version}.{o.confVer}.{o.term} to={y.version}.{y.confVer}.{y.term}"
      else
        some s!"sig=C06.served-epoch-regressed-after-displacement id={y.id} from={o.version}.{o.confVer}.{o.term} to={y.version}.{y.confVer}.{y.term}"
    | none => none)
  let f3 := if decide (C06.MustReject m.S r) && v != .stale then
      [s!"sig=C06.stale-heartbeat-accepted region={r.id} epoch={r.version}.{r.confVer}.{r.term}"] else []
  let f4 := if v == .stale && (S' != m.S || M' != m.M) then
      [s!"sig=C06.rejected-heartbeat-changed-state region={r.id}"] else []
  let f5 := if v == .ok then
      if S' = m.S then
        (if decide (C06.StoredOk m.M M' r []) then [] else [s!"sig=C06.storage-changed-without-cache-change region={r.id}"])
      else if S' = C07.put m.S r then
        (if decide (C06.StoredOk m.M M' r (C07.displaced m.S r)) then []
         else [s!"sig=C06.displaced-region-left-in-storage region={r.id} displaced={renderIds (C07.displaced m.S r)}"])
      else [s!"sig=C06.served-set-is-not-old-set-with-region-put region={r.id}"]
    else []
  f1 ++ f2 ++ f3 ++ f4 ++ f5

def splitBar (ws : List String) : List (List String) :=
  let r := ws.foldl (fun (acc : List (List String) × List String) w =>
    if w = "|" then (acc.1 ++ [acc.2], []) else (acc.1, acc.2 ++ [w])) ([], [])
  r.1 ++ [r.2]

def step (d : DState) (opLine : String) (impl : String) : DState × StepOut :=
  if impl = "skipped-after-panic" then (d, { model := impl })
  else if d.blind && (words opLine).headD "" != "reset" then (d, { model := impl })
  else if impl = "panic" || (((words impl).headD "").splitOn ",").any (fun t => t = "panic") then
    -- the implementation panicked while handling this op: never acceptable on this path
    ({ d with desync := true }, { model := "no-panic", fails := [s!"sig=C06.heartbeat-path-panicked op={(words opLine).headD ""}"] })
  else
  match words opLine with
  | ["reset"] => ({}, { model := "ok" })
  | ["reset", "leveldb"] => ({ rs := some {} }, { model := "ok" })
  | ["reset", "grpc"] =>
    -- an in-process server, bootstrapped with store 1 and region 2 = the whole key space, peer 3 on store 1,
    -- as LoadRegions hands it to the cache (no leader, no size)
    let boot : Region := { id := 2, version := 1, confVer := 1, peers := [{ id := 3, store := 1 }] }
    let c : Cluster := { ri := (setRegion {} boot).1 }
    let S0 := match words impl with
      | [_, s] => parseRegionList (s.drop 2).toString
      | _ => []
    ({ model := c, mon := { S := S0, H := C06.record [] S0 } }, { model := s!"ok S={renderRegionList (served c)}" })
  | "race" :: rounds :: k :: spec =>
    match parseHeartbeatX spec with
    | none => (d, { model := "bad-op" })
    | some hb =>
      let base := regionFromHeartbeat hb
      let rmax := { base with version := base.version + natArg rounds * natArg k }
      -- model: the highest version is what remains (the others are refused or overwritten by it); which of the
      -- accepted ones wrote storage last is not determined: the model side stops comparing until the next reset
      let (c', _) := heartbeat d.model rmax
      let mfinal := match getRegionC c' rmax.id with
        | some x => toString x.version
        | none => "nil"
      let mout := s!"bad=- final={mfinal} S={renderRegionList (served c')}"
      match words impl with
      | [b, _, s] =>
        let back : Option (Nat × Nat) :=
          match ((b.drop 4).toString).splitOn ">" with
          | [x, y] => some (natArg x, natArg y)
          | _ => none
        let S' := parseRegionList (s.drop 2).toString
        let fails := if decide (C06.RaceOk d.mon.H d.mon.S (norm rmax) back S') then [] else
          let e0 := match back with
            | some (x, y) => [s!"sig=C06.served-version-went-back-under-concurrent-heartbeats id={rmax.id} from={x} to={y}"]
            | none => []
          let e1 := explainServed d.mon (norm rmax) S'
          let e2 := if S' != (if decide (C06.MustReject d.mon.S (norm rmax)) then d.mon.S else C07.put d.mon.S (norm rmax)) then
              [s!"sig=C06.highest-version-not-served-after-concurrent-heartbeats id={rmax.id} expected-version={rmax.version}"] else []
          if (e0 ++ e1 ++ e2).isEmpty then [s!"sig=C06.race-step-not-ok region={rmax.id}"] else e0 ++ e1 ++ e2
        ({ d with model := c', desync := true, mon := { d.mon with H := C06.record d.mon.H S', S := S' } },
          { model := if d.desync then impl else mout, fails := fails })
      | _ => ({ d with desync := true }, { model := mout, fails := [s!"sig=C06.unexpected-answer answer={impl}"] })
  | ["scanrace", _, _] =>
    -- the answer excerpt the harness picked out (two neighbouring entries of one ScanRegions answer, or nothing)
    let ex := if impl.startsWith "bad=" then (impl.drop 4).toString else "?"
    let answer := if ex = "-" then [] else parseRegionList ex
    let fails :=
      if ex = "?" then [s!"sig=C06.unexpected-answer answer={impl}"]
      else if decide (C06.ScanAnswerOk answer) then []
      else [s!"sig=C06.scan-answer-overlaps regions={renderIds answer} answer-excerpt={ex}"]
    ({ d with desync := true, blind := true }, { model := "bad=-", fails := fails })
  | ["sopen", _] => (d, { model := "ok" })
  | ["sclose", _] => (d, { model := "ok" })
  | "ssend" :: sender :: spec =>
    match parseHeartbeatX spec with
    | none => (d, { model := "bad-op" })
    | some hb =>
      let r := regionFromHeartbeat hb
      let (c', v) := heartbeat d.model r
      let mout := s!"err={if v == Verdict.stale then sender else "-"} S={renderRegionList (served c')}"
      match words impl with
      | [e, s] =>
        let errOn := if (e.drop 4).toString = "-" then [] else (e.drop 4).toString.splitOn ","
        let S' := parseRegionList (s.drop 2).toString
        let fails := if decide (C06.StreamOk d.mon.H d.mon.S (norm r) sender errOn S') then [] else
          let e1 := explainServed d.mon (norm r) S'
          let e2 := if decide (C06.MustReject d.mon.S (norm r)) && errOn != [sender] then
              [s!"sig=C06.stale-heartbeat-not-answered-with-an-error-on-its-stream region={r.id} stream={sender} errors-on={errOn}"]
            else if errOn != [] && errOn != [sender] then [s!"sig=C06.error-answer-on-another-stream stream={sender} errors-on={errOn}"]
            else if errOn != [] && S' != d.mon.S then [s!"sig=C06.rejected-heartbeat-changed-state region={r.id}"]
            else if errOn == [] && S' != d.mon.S && S' != C07.put d.mon.S (norm r) then
              [s!"sig=C06.served-set-is-not-old-set-with-region-put region={r.id}"]
            else []
          if (e1 ++ e2).isEmpty then [s!"sig=C06.stream-step-not-ok region={r.id}"] else e1 ++ e2
        ({ d with model := c', mon := { d.mon with H := C06.record d.mon.H S', S := S' } },
          { model := mout, fails := fails })
      | _ => ({ d with model := c' }, { model := mout, fails := [s!"sig=C06.unexpected-answer answer={impl}"] })
  | "hbf" :: spec =>
    -- the heartbeat's SaveRegion fails: the pinned code only logs that; cache and storage deletes happen as usual
    match parseHeartbeatX spec with
    | none => (d, { model := "bad-op" })
    | some hb =>
      let r := regionFromHeartbeat hb
      let w := heartbeatWrites d.model r
      let (c0, v) := heartbeat d.model r
      let c' : Cluster := if w.1 then { c0 with storage := (store { c0 with storage := d.model.storage } r false w.2).storage } else c0
      let (vi, S', M') := parseObs impl
      let (fails, mon') :=
        match verdictOf vi with
        | some v' =>
          let fs := if decide (C06.StepOk d.mon.H d.mon.S d.mon.M (norm r) v' S' M') then [] else
            let e := explainStep d.mon (norm r) v' S' M'
            if e.isEmpty then [s!"sig=C06.step-not-ok region={r.id}"] else e
          (fs, { d.mon with H := C06.record d.mon.H S', S := S', M := M' })
        | none => ([s!"sig=C06.unexpected-answer answer={vi}"], d.mon)
      let d' := { d with model := c', mon := mon' }
      (d', { model := if d.desync then impl else s!"{vstr v} {renderStateD d'}", fails := fails })
  | "hb" :: spec =>
    match parseHeartbeatX spec with
    | none => (d, { model := "bad-op" })
    | some hb =>
      let r := regionFromHeartbeat hb
      let w := heartbeatWrites d.model r
      let (c', v) := heartbeat d.model r
      let rs' := d.rs.map (fun rs => rs.apply r w)
      let (vi, S', M') := parseObs impl
      -- monitor
      let (fails, mon') :=
        match verdictOf vi with
        | some v' =>
          let fs :=
            if d.rs.isSome then
              if decide (C06.StepOkBatched d.mon.H d.mon.S d.mon.M (norm r) v' S' M') then [] else
                let e := explainBatched d.mon (norm r) v' S' M'
                if e.isEmpty then [s!"sig=C06.step-not-ok region={r.id}"] else e
            else if decide (C06.StepOk d.mon.H d.mon.S d.mon.M (norm r) v' S' M') then [] else
              let e := explainStep d.mon (norm r) v' S' M'
              if e.isEmpty then [s!"sig=C06.step-not-ok region={r.id}"] else e
          (fs, { d.mon with H := C06.record d.mon.H S', S := S', M := M' })
        | none => ([s!"sig=C06.unexpected-answer answer={vi}"], d.mon)
      let d' := { d with model := c', rs := rs', mon := mon' }
      let out := if d.desync then impl else s!"{vstr v} {renderStateD d'}"
      (d', { model := out, fails := fails })
  | ["flush"] =>
    let d' := { d with rs := d.rs.map (·.flush) }
    match words impl with
    | ["ok", m] =>
      let M' := parseMetaList (m.drop 2).toString
      let fails := if decide (C06.FlushOk d.mon.S d.mon.M M') then [] else
        ["sig=C06.flush-deleted-or-wrote-a-region-not-served"]
      ({ d' with mon := { d.mon with M := M' } },
        { model := if d.desync then impl else s!"ok M={renderMetaList (sortMetas (diskOf d'))}", fails := fails })
    | _ => (d', { model := "ok", fails := [s!"sig=C06.unexpected-answer answer={impl}"] })
  | ["reload"] =>
    (d, { model := if d.desync then impl else
      s!"R={renderIds ((scanRange (reload (sortMetas (diskOf d))) [] [] 0).filterMap id)}" })
  | "ghb" :: i :: spec =>
    match parseHeartbeatX spec with
    | none => (d, { model := "bad-op" })
    | some hb =>
      let r := regionFromHeartbeat hb
      -- model: run up to the first storage write
      let w := heartbeatWrites d.model r
      let (pre, v0) := (preCheckPutRegion d.model.ri r)
      let f := computeFlags pre r
      let ignored := !f.saveKV && !f.saveCache && !f.isNew
      let (c1, mout, held') : Cluster × String × List (Nat × Region × Bool × List Region) :=
        match v0 with
        | Verdict.stale => (d.model, "stale", d.held)
        | Verdict.ok =>
          if ignored then (d.model, "ok", d.held)
          else
            let cm : Cluster × Verdict × List Region :=
              if f.saveCache then commit d.model r else (d.model, Verdict.ok, [])
            let c1 := cm.1
            match cm.2.1 with
            | Verdict.stale => (c1, "stale", d.held)
            | Verdict.ok =>
              if w.1 || !w.2.isEmpty then (c1, "parked", (natArg i, r, w.1, w.2) :: d.held)
              else (c1, "ok", d.held)
      let (oi, S', M') := parseObs impl
      let (fails, mon') :=
        match gateOutOf oi with
        | some o =>
          let fs := if decide (C06.GateOk d.mon.H d.mon.S d.mon.M (norm r) o S' M') then [] else
            let e := explainServed d.mon (norm r) S' ++
              (if M' != d.mon.M then [s!"sig=C06.held-heartbeat-wrote-storage region={r.id}"] else []) ++
              (if decide (C06.MustReject d.mon.S (norm r)) && o != .done .stale then
                [s!"sig=C06.stale-heartbeat-accepted region={r.id} epoch={r.version}.{r.confVer}.{r.term}"] else []) ++
              (if o == .done .stale && S' != d.mon.S then [s!"sig=C06.rejected-heartbeat-changed-state region={r.id}"] else []) ++
              (if o != .done .stale && S' != d.mon.S && S' != C07.put d.mon.S (norm r) then
                [s!"sig=C06.served-set-is-not-old-set-with-region-put region={r.id}"] else [])
            if e.isEmpty then [s!"sig=C06.gate-step-not-ok region={r.id}"] else e
          (fs, { d.mon with H := C06.record d.mon.H S', S := S', M := M',
                            held := if o == .parked then (natArg i, norm r) :: d.mon.held else d.mon.held })
        | none => ([s!"sig=C06.unexpected-answer answer={oi}"], d.mon)
      let d' := { d with model := c1, held := held', mon := mon' }
      (d', { model := if d.desync then impl else s!"{mout} {renderStateD d'}", fails := fails })
  | ["release", i] =>
    let (vi, S', M') := parseObs impl
    -- monitor (the held region comes from the earlier op line)
    let (fails, mon') :=
      match d.mon.held.find? (fun (e : Nat × Region) => e.1 = natArg i), verdictOf vi with
      | some (_, r), some v' =>
        let fs := if decide (C06.ReleaseOk d.mon.H d.mon.S d.mon.M r v' S' M') then [] else
          let e := explainServed d.mon r S' ++
            (if v' == .stale && (S' != d.mon.S || M' != d.mon.M) then
              [s!"sig=C06.rejected-heartbeat-changed-state region={r.id} (held at its first storage write, answered with an error after it)"] else []) ++
            (if v' == .ok && S' != d.mon.S && S' != C07.put d.mon.S r then
              [s!"sig=C06.served-set-is-not-old-set-with-region-put region={r.id}"] else [])
          if e.isEmpty then [s!"sig=C06.release-step-not-ok region={r.id}"] else e
        (fs, { d.mon with H := C06.record d.mon.H S', S := S', M := M',
                          held := d.mon.held.filter (fun (e : Nat × Region) => e.1 ≠ natArg i) })
      | _, _ => ([s!"sig=C06.unexpected-answer answer={vi}"], d.mon)
    match d.held.find? (fun (e : Nat × Region × Bool × List Region) => e.1 = natArg i) with
    | some (_, r, saveKV, ov) =>
      let c' := store d.model r saveKV ov
      let d' := { d with model := c', held := d.held.filter (fun (e : Nat × Region × Bool × List Region) => e.1 ≠ natArg i), mon := mon' }
      (d', { model := if d.desync then impl else s!"ok {renderStateD d'}", fails := fails })
    | none => ({ d with mon := mon' }, { model := if d.desync then impl else "bad-op", fails := fails })
  | "conc" :: rest =>
    let specs := splitBar rest
    let hbs := specs.filterMap parseHeartbeatX
    let (vs, S', M') := parseObs impl
    let vl := (vs.splitOn ",").filterMap verdictOf
    if hbs.length ≠ specs.length || vl.length ≠ hbs.length then
      (d, { model := "bad-op", fails := [s!"sig=C06.unexpected-answer answer={vs}"] })
    else
      let batch := (hbs.map (fun hb => norm (regionFromHeartbeat hb))).zip vl
      let ok := decide (C06.ConcOk d.mon.H d.mon.S batch S')
      let fails := if ok then [] else
        let f1 := if decide (C06.NoOverlap S') then [] else ["sig=C06.served-regions-overlap after-batch"]
        let seq := decide (S' ∈ C06.reachable batch.length d.mon.S batch)
        -- when the batch is explained by handling the heartbeats one at a time, every accepted heartbeat was
        -- not behind the region of its id served at that moment: a regression can only be across a displacement
        let f2 := S'.filterMap (fun y =>
          match C06.lastServed d.mon.H y.id with
          | some o =>
            if decide (C06.NotBehind o y) then none
            else if seq then
              some s!"sig=C06.served-epoch-regressed-after-displacement id={y.id} from={o.version}.{o.confVer}.{o.term} to={y.version}.{y.confVer}.{y.term} (in a concurrent batch)"
            else some s!"sig=C06.served-epoch-regressed-in-batch id={y.id}"
          | none => none)
        let f3 := if seq then [] else ["sig=C06.concurrent-result-not-sequential"]
        f1 ++ f2 ++ f3
      -- the model cannot know the schedule: it adopts the reported state (served set only; the storage of
      -- the model is no longer compared until the next reset)
      ({ d with mon := { d.mon with H := C06.record d.mon.H S', S := S', M := M' }, desync := true },
        { model := impl, fails := fails })
  | ["get", id] =>
    (d, { model := if d.desync then impl else renderOpt ((getRegionC d.model (natArg id)).map norm) })
  | ["bykey", k] =>
    (d, { model := if d.desync then impl else renderOpt ((getRegionByKey d.model (parseKey k)).map norm) })
  | ["load", id] =>
    (d, { model := if d.desync then impl else
      match mapGet (diskOf d) (natArg id) with
      | some m => renderMeta m
      | none => "nil" })
  | _ => (d, { model := "bad-op" })

def main : IO UInt32 := runDriver ({} : DState) step

end PdModel.Driver.RegionCache
