import PdModel.Driver.Common
import PdModel.Model.Bootstrap
import PdModel.Spec.C20
/-!
Driver for area `bootstrap` (property C20).

Trace line: `<op> => <out> | recs=<meta>:<stores>:<regions>:<time> run=<bits>`.
The model side recomputes the whole observation; the monitor side turns what the implementation reported
into the events of `Spec.C20` and judges them with the proved checker `Spec.C20.check`.
-/
namespace PdModel.Driver.Bootstrap
open PdModel.Bootstrap PdModel.Driver PdModel.Spec

/-- the cluster id of the model (the harness maps `own` to the real one) -/
def cidM : Nat := 1

structure Mon where
  evs     : List C20.Ev := []
  aux     : Nat := 1000            -- request ids of ungated requests
  flagged : List String := []      -- signatures already reported in this sequence
  idGiven : List Nat := []         -- classes of the cluster id values handed out since `idnew`

structure DState where
  s      : St
  ids    : IdSt := {}
  idReqs : List Bool := []         -- cluster-id racers: still parked?
  rids   : List Nat := []          -- gated request number (as in the op lines) ↦ request index of the model
  mon    : Mon := {}

def fresh (leader : Nat) : DState := { s := init cidM 2 leader }

/-! ### parsing -/

def parsePeers (s : String) : Option (List (Nat × Nat)) :=
  if s = "" then some []
  else (s.splitOn "+").mapM fun p =>
    match p.splitOn "@" with
    | [a, b] => match a.toNat?, b.toNat? with
      | some a, some b => some (a, b)
      | _, _ => none
    | _ => none

/-- `S<id|->,R<id|->,K<a><b>,P<pid>@<sid>+…` -/
def parsePayload (tok : String) : Option Payload :=
  match tok.splitOn "," with
  | [s, r, k, p] =>
    if !(s.startsWith "S" && r.startsWith "R" && k.startsWith "K" && p.startsWith "P" && k.length = 3) then none
    else
      let sv := (s.drop 1).toString
      let rv := (r.drop 1).toString
      let kc := k.toList
      let store : Option (Bool × Nat) := if sv = "-" then some (false, 0) else sv.toNat?.map fun n => (true, n)
      let region : Option (Bool × Nat) := if rv = "-" then some (false, 0) else rv.toNat?.map fun n => (true, n)
      match store, region, parsePeers (p.drop 1).toString with
      | some (hs, sid), some (hr, rid), some peers =>
        -- without a region there are no keys and no peers
        some { hasStore := hs, storeId := sid, hasRegion := hr, regionId := rid,
               startLen := if hr && kc.getD 1 '0' != '0' then 1 else 0,
               endLen := if hr && kc.getD 2 '0' != '0' then 1 else 0,
               peers := if hr then peers else [] }
      | _, _, _ => none
  | _ => none

def parseHdr : String → Option Nat
  | "own" => some cidM
  | "other" => some (cidM + 1)
  | "zero" => some 0
  | _ => none

def parseFault : String → Fault
  | "before" => .before
  | "after" => .after
  | _ => .none

def memberArg (s : String) : Option Nat :=
  match s.toNat? with
  | some m => if m < 2 then some m else none
  | none => none

/-! ### printing -/

def badOut : Bad → String
  | .missingStore => "missing-store" | .zeroStore => "zero-store" | .missingRegion => "missing-region"
  | .keyRange => "key-range" | .zeroRegion => "zero-region" | .peerCount => "peer-count"
  | .peerStore => "peer-store" | .zeroPeer => "zero-peer"

def outStr : Out → String
  | .ok => "ok" | .notLeader => "err-not-leader" | .mismatch => "err-cluster-id" | .already => "already"
  | .malformed b => "malformed:" ++ badOut b | .conflict => "err-conflict" | .txnErr => "err-txn"

def listOut (l : List Nat) : String := if l.isEmpty then "-" else ",".intercalate (l.map toString)

def recsOut (s : St) : String :=
  let mt := match s.etcd.root with | none => "none" | some (c, _) => if c = s.cid then "own" else "other"
  let tm := if s.etcd.bootTime.isSome then "1" else "0"
  let run := String.join (s.members.map fun m => if m.running then "1" else "0")
  s!"recs={mt}:{listOut (s.etcd.stores.map (·.1))}:{listOut (s.etcd.regions.map (·.1))}:{tm} run={run}"

def obs (d : DState) (out : String) : String := s!"{out} | {recsOut d.s}"

/-! ### the model side -/

/-- a whole Bootstrap call with nothing interleaved -/
def bootNow (s : St) (m hdr : Nat) (p : Payload) : St × String :=
  let r := s.reqs.length
  match step s (.boot m hdr p) with
  | (s1, .parked) =>
    match step s1 (.commit r .none) with
    | (s2, .done) =>
      match step s2 (.start r) with
      | (s3, .resp o) => (s3, outStr o)
      | (s3, _) => (s3, "bad-op")
    | (s2, .resp o) => (s2, outStr o)
    | (s2, _) => (s2, "bad-op")
  | (s1, .resp o) => (s1, outStr o)
  | (s1, _) => (s1, "bad-op")

def canonBurst (o : String) : String := if o = "ok" || o = "err-txn" then o else "refused"

def stepModel (d : DState) (ws : List String) (implOut : List String) : DState × String :=
  let bad := (d, obs d "bad-op")
  match ws with
  | ["boot", r, m, hdr, p] =>
    match r.toNat?, memberArg m, parseHdr hdr, parsePayload p with
    | some r, some m, some hdr, some p =>
      if r ≠ d.rids.length then bad
      else
        let (s, o) := step d.s (.boot m hdr p)
        let d := { d with s := s, rids := d.rids ++ [d.s.reqs.length] }
        (d, obs d (match o with | .parked => "parked" | .resp o => outStr o | _ => "bad-op"))
    | _, _, _, _ => bad
  | "commit" :: r :: rest =>
    match r.toNat?.bind (fun r => d.rids[r]?), decide (rest.length ≤ 1) with
    | some r, true =>
      match (d.s.reqs[r]?).map (·.phase) with
      | some Phase.atTxn =>
        -- a transaction whose own timeout ran out while it was parked did not execute (reported by the harness)
        let timedOut := implOut.head? = some "err-timeout"
        let (s, o) := step d.s (.commit r (if timedOut then .before else parseFault (rest.headD "none")))
        let outStr := fun (o : Out) => if timedOut ∧ o = .txnErr then "err-timeout" else outStr o
        match o with
        | .done =>
          let (s, o2) := step s (.start r)
          let d := { d with s := s }
          (d, obs d (match o2 with | .resp o => outStr o | _ => "bad-op"))
        | .resp o => let d := { d with s := s }; (d, obs d (outStr o))
        | _ => bad
      | _ => bad
    | _, _ => bad
  | ["bootnow", m, hdr, p] =>
    match memberArg m, parseHdr hdr, parsePayload p with
    | some m, some hdr, some p =>
      let (s, o) := bootNow d.s m hdr p
      let d := { d with s := s }
      (d, obs d o)
    | _, _, _ => bad
  | "burst" :: m :: toks =>
    match memberArg m, toks.mapM parsePayload with
    | some m, some ps =>
      if ps.isEmpty then bad
      else
        -- the request the implementation accepted (if any) goes first, the others follow in order
        let n := ps.length
        let winner : Option Nat := (List.range n).find? fun i => (implOut.drop 1).getD i "" = "ok"
        let order := match winner with
          | some w => w :: (List.range n).filter (· ≠ w)
          | none => List.range n
        let (s, res) := order.foldl (fun (acc : St × List (Nat × String)) i =>
          let (s, o) := bootNow acc.1 m cidM (ps.getD i default)
          (s, acc.2 ++ [(i, canonBurst o)])) (d.s, [])
        let outs := (List.range n).map fun i => ((res.find? (·.1 = i)).map (·.2)).getD "?"
        let d := { d with s := s }
        (d, obs d ("outs " ++ " ".intercalate outs))
    | _, _ => bad
  | ["chk", p] =>
    match parsePayload p with
    | some p => (d, obs d (match checkReq p with | none => "ok" | some b => "malformed:" ++ badOut b))
    | none => bad
  | ["lead", m] =>
    match memberArg m with
    | some m =>
      -- asking for the member that leads already changes nothing (no resignation takes place)
      if ((d.s.members[m]?).map (·.leader)).getD false then (d, obs d "ok")
      else let d := { d with s := (step d.s (.lead m)).1 }; (d, obs d "ok")
    | none => bad
  | ["isboot", m, hdr] =>
    match memberArg m, parseHdr hdr with
    | some m, some hdr =>
      (d, obs d (match (step d.s (.isBoot m hdr)).2 with
        | .resp o => outStr o | .isBoot b => toString b | _ => "bad-op"))
    | _, _ => bad
  | ["regfault", m, onoff] =>
    -- a write fault of a member's local region storage: the bootstrap records live in etcd, nothing changes
    match memberArg m with
    | some _ => if onoff = "on" ∨ onoff = "off" then (d, obs d "ok") else bad
    | none => bad
  | ["putconfig", m, hdr, body] =>
    match memberArg m, parseHdr hdr, parseHdr body with
    | some m, some hdr, some body =>
      (d, obs d (match (step d.s (.putConfig m hdr body)).2 with
        | .resp o => outStr o
        | .cfg .ok => "ok" | .cfg .notBootstrapped => "not-bootstrapped" | .cfg .bodyMismatch => "err-body-cluster-id"
        | _ => "bad-op"))
    | _, _, _ => bad
  | ["getconfig", m] =>
    match memberArg m with
    | some m =>
      (d, obs d (match (step d.s (.isBoot m cidM)).2 with
        | .resp o => outStr o
        | .isBoot true => "cluster=own"
        | .isBoot false => "not-bootstrapped"
        | _ => "bad-op"))
    | none => bad
  | "tso" :: m :: hs =>
    match memberArg m, hs.mapM parseHdr with
    | some m, some hdrs =>
      if hdrs.isEmpty || hdrs.length > 16 then bad
      else
        (d, obs d (match (step d.s (.tso m hdrs)).2 with
          | .tso l => "tso " ++ " ".intercalate (l.map fun a => match a with
              | .ts => "ts" | .mismatch => "err-cluster-id" | .tsoErr => "err-tso" | .closed => "closed")
          | _ => "bad-op"))
    | _, _ => bad
  | ["probe", m, hdr] =>
    match memberArg m, parseHdr hdr with
    | some m, some hdr =>
      (d, obs d (match (step d.s (.isBoot m hdr)).2 with
        | .resp o => outStr o | .isBoot _ => "pass" | _ => "bad-op"))
    | _, _ => bad
  | ["view", m] =>
    match memberArg m with
    | some m =>
      (d, obs d (match (step d.s (.isBoot m cidM)).2 with
        | .resp o => outStr o
        | .isBoot true => s!"stores={listOut (d.s.etcd.stores.map (·.1))} region={listOut (d.s.etcd.regions.map (·.1))}"
        | .isBoot false => "not-bootstrapped"
        | _ => "bad-op"))
    | none => bad
  | ["idnew"] => let d := { d with ids := {}, idReqs := [] }; (d, obs d "ok")
  | ["idstart", r] =>
    match r.toNat? with
    | some r =>
      if r ≠ d.idReqs.length then bad
      else let d := { d with idReqs := d.idReqs ++ [true] }; (d, obs d "parked")
    | none => bad
  | "idcommit" :: r :: rest =>
    match r.toNat?, decide (rest.length ≤ 1) with
    | some r, true =>
      if d.idReqs.getD r false then
        let timedOut := implOut.head? = some "err-timeout"
        let (ids, v) := initId d.ids (100 + r) (if timedOut then .before else parseFault (rest.headD "none"))
        let d := { d with ids := ids, idReqs := d.idReqs.set r false }
        (d, obs d (match v with | some _ => "v0" | none => if timedOut then "err-timeout" else "err"))
      else bad
    | _, _ => bad
  | ["idburst", n] =>
    match n.toNat? with
    | some n =>
      if n < 1 ∨ n > 16 then bad
      else
        let ids := (List.range n).foldl (fun s i => (initId s (200 + i) .none).1) d.ids
        let d := { d with ids := ids }
        (d, obs d ("vals " ++ " ".intercalate ((List.range n).map fun _ => "v0")))
    | none => bad
  | ["idkey"] => (d, obs d (if d.ids.key.isSome then "v0" else "none"))
  | _ => bad

/-! ### the monitor side -/

structure Impl where
  out  : List String
  recs : Option C20.Recs

def parseIds (s : String) : List Nat :=
  if s = "-" then [] else (s.splitOn ",").map fun x =>
    if x.startsWith "!" then 1000000 + natArg (x.drop 1).toString else (x.toNat?).getD 999999

def parseImpl (impl : String) : Impl :=
  match impl.splitOn " | " with
  | [a, b] =>
    let out := words a
    let rc := ((words b).find? (·.startsWith "recs=")).bind fun w =>
      match ((w.drop 5).toString).splitOn ":" with
      | [m, s, g, t] =>
        let cl : Option Nat := match m with
          | "none" => none | "own" => some cidM | "other" => some (cidM + 1) | _ => some 999
        some ({ cluster := cl, stores := parseIds s, regions := parseIds g, time := t = "1" } : C20.Recs)
      | _ => none
    { out := out, recs := rc }
  | _ => { out := words impl, recs := none }

def infoOfTok (hdr p : String) : Option C20.Info :=
  (parsePayload p).map fun pl =>
    { store := if pl.hasStore then some pl.storeId else none,
      region := if pl.hasRegion then some pl.regionId else none,
      keysEmpty := pl.startLen = 0 ∧ pl.endLen = 0, peers := pl.peers, foreign := hdr ≠ "own" }

def kindOf (o : String) : Option C20.Kind :=
  if o = "parked" || o = "bad-op" then none
  else if o = "ok" then some .accepted
  else if o = "err-txn" || o = "err-timeout" then some .unknown
  else some .refused

def monitor (m : Mon) (ws : List String) (impl : String) : Mon × List String :=
  let im := parseImpl impl
  let o := im.out.headD ""
  let (m, evs) : Mon × List C20.Ev :=
    match ws with
    | ["boot", r, _, hdr, p] =>
      if o = "bad-op" then (m, [])
      else
        let id := natArg r
        (m, (match infoOfTok hdr p with | some i => [C20.Ev.req id i] | none => []) ++
            (match kindOf o with | some k => [C20.Ev.resp id k] | none => []))
    | "commit" :: r :: _ =>
      (m, match kindOf o with | some k => [C20.Ev.resp (natArg r) k] | none => [])
    | ["bootnow", _, hdr, p] =>
      if o = "bad-op" then (m, [])
      else
        ({ m with aux := m.aux + 1 },
         (match infoOfTok hdr p with | some i => [C20.Ev.req m.aux i] | none => []) ++
         (match kindOf o with | some k => [C20.Ev.resp m.aux k] | none => []))
    | "burst" :: _ :: toks =>
      if o ≠ "outs" then (m, [])
      else
        let n := toks.length
        let reqs := (List.range n).filterMap fun i => (infoOfTok "own" (toks.getD i "")).map fun inf => C20.Ev.req (m.aux + i) inf
        let resps := (List.range n).filterMap fun i => (kindOf ((im.out.drop 1).getD i "bad-op")).map fun k => C20.Ev.resp (m.aux + i) k
        ({ m with aux := m.aux + n }, reqs ++ resps)
    | _ => (m, [])
  let evs := evs ++ (match im.recs with | some x => [C20.Ev.recs x] | none => [])
  let all := m.evs ++ evs
  let report (m : Mon) (sig : String) (detail : String) : Mon × List String :=
    if m.flagged.contains sig then (m, []) else ({ m with flagged := sig :: m.flagged }, [s!"sig={sig} {detail}"])
  let m := { m with evs := all }
  let d := s!"op={" ".intercalate ws} out={" ".intercalate im.out}"
  -- the four conjuncts of Spec.C20.Holds, reported separately
  let (m, f1) := if decide (C20.AtMostOneAccepted all) then (m, []) else report m "C20.more-than-one-accepted" d
  let (m, f2) := if decide (C20.AcceptedIsSource cidM all) then (m, [])
                 else report m "C20.accepted-request-not-the-source-of-the-records" d
  let (m, f3) := if decide (C20.RecordsStable all) then (m, []) else report m "C20.records-changed-after-bootstrap" d
  let (m, f4) := if decide (C20.RecordsFromOneRequest cidM all) then (m, [])
                 else report m "C20.records-not-from-one-unrefused-wellformed-request" d
  let (m, f5) : Mon × List String :=
    match im.recs with
    | none => report m "C20.records-unreadable" d
    | some _ => (m, [])
  -- identity: foreign cluster ids are refused by every handler; what is served is what is stored
  let (m, f6) : Mon × List String :=
    match ws with
    | ["isboot", _, hdr] | ["probe", _, hdr] =>
      if hdr ≠ "own" ∧ !(o = "err-cluster-id" || o = "err-not-leader" || o = "bad-op") then
        report m "C20.foreign-cluster-id-accepted" d
      else if ws.head? = some "isboot" ∧ o = "true" ∧ (im.recs.map (·.cluster)).getD none = none then
        report m "C20.reports-bootstrapped-without-records" d
      else (m, [])
    | ["boot", _, _, hdr, _] | ["bootnow", _, hdr, _] =>
      if hdr ≠ "own" ∧ !(o = "err-cluster-id" || o = "err-not-leader" || o = "bad-op") then
        report m "C20.foreign-cluster-id-accepted" d
      else (m, [])
    | ["putconfig", _, hdr, body] =>
      -- a config update naming another cluster, in its header or in the cluster meta to be stored
      if (hdr ≠ "own" ∨ body ≠ "own") ∧ o = "ok" then report m "C20.foreign-cluster-id-accepted" d else (m, [])
    | ["getconfig", _] =>
      if o.startsWith "cluster=" ∧ o ≠ "cluster=own" then report m "C20.served-cluster-id-is-not-the-clusters" d
      else (m, [])
    | "tso" :: _ :: hs =>
      -- every request of the stream that names another cluster must go without a timestamp
      if (hs.zip (im.out.drop 1)).any (fun (h, a) => h ≠ "own" && a = "ts") then
        report m "C20.foreign-cluster-id-accepted" d
      else (m, [])
    | ["chk", p] =>
      -- the specification's own notion of a well-formed payload
      match infoOfTok "own" p with
      | some inf => if o = "ok" ∧ !inf.wellFormed then report m "C20.malformed-payload-passes-the-check" d else (m, [])
      | none => (m, [])
    | ["view", _] =>
      match im.recs, im.out with
      | some x, [st, rg] =>
        if st.startsWith "stores=" ∧ rg.startsWith "region=" ∧
            (parseIds (st.drop 7).toString ≠ x.stores ∨ parseIds (rg.drop 7).toString ≠ x.regions) then
          report m "C20.served-differs-from-stored" d
        else (m, [])
      | _, _ => (m, [])
    | _ => (m, [])
  -- cluster id agreement
  let classOf (v : String) : Option Nat :=
    if v.startsWith "v" then (v.drop 1).toNat? else if v = "zero" then some 999 else none
  let given : List Nat :=
    match ws with
    | "idstart" :: _ | "idcommit" :: _ | ["idkey"] => (classOf o).toList
    | "idburst" :: _ => (im.out.drop 1).filterMap classOf
    | _ => []
  let m := match ws with | ["idnew"] => { m with idGiven := [] } | _ => { m with idGiven := m.idGiven ++ given }
  let (m, f7) := if C20.idCheck m.idGiven then (m, []) else report m "C20.cluster-id-disagreement" d
  (m, f1 ++ f2 ++ f3 ++ f4 ++ f5 ++ f6 ++ f7)

def step (d : DState) (opLine : String) (impl : String) : DState × StepOut :=
  let ws := words opLine
  match ws with
  | ["reset", l] =>
    match memberArg l with
    | some l =>
      let d' := fresh l
      let (mon', fails) := monitor {} ws impl
      let fails := fails ++ (if (parseImpl impl).out = ["members-disagree-on-cluster-id"] then
        ["sig=C20.cluster-id-disagreement the members of one cluster started with different cluster ids"] else [])
      ({ d' with mon := mon' }, { model := obs d' "ok", fails := fails })
    | none => (d, { model := obs d "bad-op" })
  | _ =>
    let im := parseImpl impl
    let (d', o) := stepModel d ws im.out
    let (mon', fails) := monitor d.mon ws impl
    ({ d' with mon := mon' }, { model := o, fails := fails })

def main : IO UInt32 := runDriver (fresh 0) step

end PdModel.Driver.Bootstrap
