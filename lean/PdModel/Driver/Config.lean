import PdModel.Driver.Common
import PdModel.Model.Config
import PdModel.Spec.C18
import PdModel.Generated.Config
/-!
Driver for area `config` (property C18).

Trace line: `<op> => <res> ; served: <cfg> rule=<count>/<labels> ; reloaded: <cfg> ; writes: <w>*`
  <cfg> = sch=<tol>/<low>/<high>/<rate>/<dis bits>/<en bits>/<other>/<limits>/<schedulers>
          rep=<max>/<loc +>/<strict>/<rules>/<iso>  pd=<dash>/<trace>/<digit>/<other>
          lp=<type>:<k=v +>,…  cv=<a.b.c>  rm=<mode>/<label key>/<other>
  write = c+ c! (the configuration value)  r+ r! (the replication status)
The model recomputes the whole observation; the monitor judges the implementation's observations only.
-/
namespace PdModel.Driver.Config
open PdModel.Config PdModel.Driver PdModel.Spec PdModel.Spec.C18

def defaults : List String := PdModel.Generated.Config.defaultSchedulers
def registered : List String := PdModel.Generated.Config.registeredSchedulers

/-! ### parsing -/

def undash (s : String) : String := if s == "-" then "" else s
def dash (s : String) : String := if s == "" then "-" else s

def parseFix (s : String) : Fix :=
  if s == "nan" then .nan else if s == "+inf" then .pinf else if s == "-inf" then .ninf
  else .fin (s.toInt?.getD 0)

def fixStr : Fix → String
  | .fin v => toString v
  | .nan => "nan"
  | .pinf => "+inf"
  | .ninf => "-inf"

def parseBits (s : String) : List Bool := s.toList.map (· == '1')
def bitsStr (l : List Bool) : String := String.ofList (l.map (fun b => if b then '1' else '0'))
def b01 (b : Bool) : String := if b then "1" else "0"

def splitList (s : String) (sep : String) : List String := if s == "-" || s == "" then [] else s.splitOn sep

def parseSched (s : String) : Option Sched :=
  match s.splitOn "/" with
  | [tol, low, high, rate, dis, en, opq, sl, schd] =>
    some { tolerant := parseFix tol, low := parseFix low, high := parseFix high, rate := parseFix rate,
           disable := parseBits dis, enable := parseBits en, other := opq,
           limits := (splitList sl ",").map (fun e =>
             match e.splitOn ":" with
             | [id, a, r] => ⟨natArg id, parseFix a, parseFix r⟩
             | _ => ⟨0, .nan, .nan⟩),
           schedulers := (splitList schd ",").map (fun e =>
             match e.splitOn ":" with
             | [t, a, d] => ⟨undash t, a, d == "1"⟩
             | _ => ⟨"?", "?", false⟩) }
  | _ => none

def schedStr (c : Sched) : String :=
  let sl := c.limits.map (fun l => s!"{l.store}:{fixStr l.add}:{fixStr l.remove}")
  let sd := c.schedulers.map (fun x => s!"{dash x.type}:{x.args}:{b01 x.disable}")
  "/".intercalate [fixStr c.tolerant, fixStr c.low, fixStr c.high, fixStr c.rate, bitsStr c.disable, bitsStr c.enable,
    c.other, dash (",".intercalate sl), dash (",".intercalate sd)]

def parseRepl (s : String) : Option Repl :=
  match s.splitOn "/" with
  | [mx, loc, strict, pr, iso] =>
    some { maxReplicas := natArg mx, location := splitList loc "+", strict := strict == "1", rules := pr == "1",
           isolation := undash iso }
  | _ => none

def replStr (c : Repl) : String :=
  s!"{c.maxReplicas}/{dash ("+".intercalate c.location)}/{b01 c.strict}/{b01 c.rules}/{dash c.isolation}"

def parsePd (s : String) : Option PdSrv :=
  match s.splitOn "/" with
  | [d, tr, digit, opq] => some { dashboard := d, trace := tr == "1", digit := intArg digit, other := opq }
  | _ => none

def pdStr (c : PdSrv) : String := s!"{c.dashboard}/{b01 c.trace}/{c.digit}/{c.other}"

def parseRMode (s : String) : Option RMode :=
  match s.splitOn "/" with
  | [m, k, opq] => some { mode := undash m, labelKey := undash k, other := opq }
  | _ => none

def rmodeStr (c : RMode) : String := s!"{dash c.mode}/{dash c.labelKey}/{c.other}"

def parseKV (e : String) : String × String :=
  match e.splitOn "=" with
  | [] => ("", "")
  | [k] => (k, "")
  | k :: rest => (k, "=".intercalate rest)

/-- label properties, sorted by type (each type once: later entries of the same type are dropped) -/
def parseLP (s : String) : List LabelProp :=
  (splitList s ",").foldl (fun acc p =>
    match p.splitOn ":" with
    | t :: rest =>
      if acc.any (fun x => x.type == t) then acc
      else lpInsert acc ⟨t, (splitList (":".intercalate rest) "+").map parseKV⟩
    | [] => acc) []

def lpStr (m : List LabelProp) : String :=
  dash (",".intercalate (m.map (fun p =>
    p.type ++ ":" ++ dash ("+".intercalate (p.labels.map (fun l => l.1 ++ "=" ++ l.2))))))

def verTriple (s : String) : Nat × Nat × Nat :=
  match s.splitOn "." with
  | [a, b, c] => (natArg a, natArg b, natArg c)
  | _ => (0, 0, 0)

/-- `versioninfo.ParseVersion`: empty = 1.0.0, an optional leading v, dotted-tri with optional
    pre-release / build suffix (the suffix is not part of the canonical form) -/
def parseVersion (s : String) : Option (Nat × Nat × Nat) :=
  if s == "" then some (1, 0, 0) else
  let s := if s.startsWith "v" then (s.drop 1).toString else s
  let core := match (s.splitOn "+") with | c :: _ => c | [] => s
  let core := match (core.splitOn "-") with | c :: _ => c | [] => core
  match core.splitOn "." with
  | [a, b, c] =>
    match a.toNat?, b.toNat?, c.toNat? with
    | some x, some y, some z => some (x, y, z)
    | _, _, _ => none
  | _ => none

def verStr (v : Nat × Nat × Nat) : String := s!"{v.1}.{v.2.1}.{v.2.2}"

def cfgStr (c : Cfg) : String :=
  s!"sch={schedStr c.sched} rep={replStr c.repl} pd={pdStr c.pd} lp={lpStr c.labels} cv={verStr c.version} rm={rmodeStr c.rmode}"

def field (ws : List String) (key : String) : Option String :=
  (ws.find? (fun w => w.startsWith (key ++ "="))).map (fun w => (w.drop (key.length + 1)).toString)

def parseCfg (s : String) : Option Cfg :=
  let ws := words s
  match field ws "sch", field ws "rep", field ws "pd", field ws "lp", field ws "cv", field ws "rm" with
  | some a, some b, some c, some d, some e, some f =>
    match parseSched a, parseRepl b, parsePd c, parseRMode f with
    | some sch, some rep, some pd, some rm =>
      some { sched := sch, repl := rep, pd := pd, labels := parseLP d, version := verTriple e, rmode := rm }
    | _, _, _, _ => none
  | _, _, _, _, _, _ => none

def parseRule (s : String) : Option Rule :=
  match field (words s) "rule" with
  | some r =>
    match r.splitOn "/" with
    | [c, ls] => some ⟨natArg c, splitList ls "+"⟩
    | _ => none
  | none => none

def ruleStr : Option Rule → String
  | some r => s!"{r.count}/{dash ("+".intercalate r.labels)}"
  | none => "-"

def parseOp (ws : List String) : Option Op :=
  match ws with
  | ["sched", c, mask] => (parseSched c).map (fun c => .sched c (natArg mask))
  | ["repl", c, mask] => (parseRepl c).map (fun c => .repl c (natArg mask))
  | ["pdsrv", c, mask] => (parsePd c).map (fun c => .pd c (natArg mask))
  | ["lpset", t, k, v, mask] => some (.lpset t k (undash v) (natArg mask))
  | ["lpdel", t, k, v, mask] => some (.lpdel t k (undash v) (natArg mask))
  | ["lpcfg", c, mask] => some (.lpcfg (parseLP c) (natArg mask))
  | ["cver", v, mask] => some (.cver (parseVersion (undash v)) (natArg mask))
  | ["rmode", c, mask] => (parseRMode c).map (fun c => .rmode c (natArg mask))
  | ["foreign", "sched", c] => (parseSched c).map (fun c => .foreign (.sched c))
  | ["foreign", "repl", c] => (parseRepl c).map (fun c => .foreign (.repl c))
  | ["foreign", "pdsrv", c] => (parsePd c).map (fun c => .foreign (.pd c))
  | ["foreign", "lpcfg", c] => some (.foreign (.labels (parseLP c)))
  | ["foreign", "cver", v] => (parseVersion (undash v)).map (fun v => .foreign (.version v))
  | ["foreign", "rmode", c] => (parseRMode c).map (fun c => .foreign (.rmode c))
  | ["reload"] => some .reload
  | _ => none

def resStr : Res → String
  | .ok => "ok" | .kverr => "kverr" | .json => "json" | .tolerant => "tolerant" | .lowrange => "lowrange"
  | .highrange => "highrange" | .lowhigh => "lowhigh" | .scheduler => "scheduler" | .deprecated => "deprecated"
  | .label => "label" | .isolation => "isolation" | .rule => "rule" | .rulecontent => "rulecontent"
  | .dashboard => "dashboard" | .digit => "digit" | .version => "version" | .mode => "mode"

def writeStr (w : Write) : String :=
  (match w.kind with | .config => "c" | .status => "r") ++ (if w.failed then "!" else "+")

def dump (s : St) (ws : List Write) : String :=
  let rl := match reload defaults s with | some c => cfgStr c | none => "nothing-stored"
  let wl := if ws.isEmpty then "-" else " ".intercalate (ws.map writeStr)
  s!"served: {cfgStr s.served} rule={ruleStr s.rule} ; reloaded: {rl} ; writes: {wl}"

/-! ### the implementation's observation -/

structure Impl where
  res : String := ""
  obs : Option Obs := none

def section_ (parts : List String) (name : String) : Option String :=
  (parts.find? (fun p => p.startsWith (name ++ ": "))).map (fun p => (p.drop (name.length + 2)).toString)

def parseImpl (impl : String) : Impl :=
  match impl.splitOn " ; " with
  | res :: rest =>
    match section_ rest "served", section_ rest "reloaded" with
    | some sv, some rl =>
      match parseCfg sv with
      | some c => { res := res, obs := some { served := c, reloaded := parseCfg rl } }
      | none => { res := res }
    | _, _ => { res := res }
  | [] => {}

structure DState where
  model : Option St := none
  pre   : Option Obs := none

def monitor (pre : Option Obs) (kind : Kind) (opLine : String) (i : Impl) : List String :=
  match pre, i.obs with
  | some p, some q =>
    let st : Step := { kind := kind, pre := p, post := q, ok := i.res == "ok", crashed := i.res == "panic" }
    (violated defaults registered st).map (fun v => s!"sig=C18.{v} res={i.res} op={opLine}")
  | _, _ => if i.res == "panic" then [s!"sig=C18.operation-panicked op={opLine}"] else []

def step (d : DState) (opLine : String) (impl : String) : DState × StepOut :=
  let ws := words opLine
  let i := parseImpl impl
  match ws with
  | "reset" :: _ =>
    -- the state after a reset is what the implementation serves (defaults of the server under test)
    match i.obs, section_ (impl.splitOn " ; ") "served" with
    | some o, some sv =>
      let s0 : St := { served := o.served, stored := some o.served, rule := parseRule sv }
      let s : St := { s0 with registered := registered, defaults := defaults }
      ({ model := some s, pre := some o }, { model := "ok ; " ++ dump s [] })
    | _, _ => ({}, { model := "bad-reset" })
  | _ =>
    match d.model, parseOp ws with
    | some s, some op =>
      let o := PdModel.Config.step s op
      ({ model := some o.st, pre := if i.obs.isSome then i.obs else d.pre },
       { model := resStr o.res ++ " ; " ++ dump o.st o.writes, fails := monitor d.pre (kindOf op) opLine i })
    | _, _ => (d, { model := "bad-op" })

def main : IO UInt32 := runDriver ({} : DState) step

end PdModel.Driver.Config
