import PdModel.Model.DrAutoSync
import PdModel.Lemmas.DrAutoSync
import PdModel.Spec.C19
import PdModel.Generated.DrAutoSync
set_option linter.unusedSimpArgs false
set_option linter.unusedVariables false
/-!
C19 – property theorems (nothing but the theorems and the definitions they need to be stated).

Quantifiers: every history of operations (manager starts/restarts on the same storage, configuration
updates between majority and dr-auto-sync incl. label-key changes, ticks, store up/down/tombstone
events with any labels, region reports in any order with any range, state and state id, region removals,
time-out inputs, scan sizes), every AllocID result and every failure flag of the file replication and of
the storage write at every switch.  No bound on the length of the history or on the number of regions.
The only hypothesis, where state ids matter, is that the id allocator never returns an id twice
(property C04, proved separately): `(allIds ops).Nodup`.
-/
namespace PdModel.DrAutoSync
open PdModel.Spec

/-! ### what is observed of a history -/

def observe : St → List Op → List C19.Obs
  | _, [] => []
  | s, op :: ops =>
    { cause := causeOf s op, reports := (step s op).1.log.map toReport, before := toSpec (startOf s op),
      evs := specEvs (step s op).2.evs, after := toSpec (step s op).1.served } :: observe (step s op).1 ops

/-- all ids handed out by the id allocator during a history, in order -/
def allIds (ops : List Op) : List Nat := ops.flatMap opIds

theorem idsOf_specEvs (evs : List Ev) : C19.idsOf (specEvs evs) = allocIds evs := by
  induction evs with
  | nil => rfl
  | cons e evs ih => cases e <;> simp [specEvs, specEv, C19.idsOf, allocIds] at ih ⊢ <;> exact ih

theorem holds_from (s : St) (hinv : Inv s) (ops : List Op) (used : List Nat)
    (hf : Fresh (allIds ops) used) : C19.Holds used (observe s ops) := by
  induction ops generalizing s used with
  | nil => trivial
  | cons op ops ih =>
    simp only [observe, C19.Holds]
    obtain ⟨rest, hrest⟩ := step_ids s op
    have hall : allIds (op :: ops) = (allocIds (step s op).2.evs ++ rest) ++ allIds ops := by
      simp [allIds, hrest]
    rw [hall] at hf
    have hf1 : Fresh (allocIds (step s op).2.evs) used := hf.prefix.prefix
    refine ⟨sw_to_run (opOk_allowed s op hinv) (step_sw s op) used hf1, ?_⟩
    apply ih _ (inv_step s op hinv)
    rw [idsOf_specEvs]
    obtain ⟨hnd, hnot⟩ := hf
    rw [List.nodup_append] at hnd
    refine ⟨hnd.2.1, fun i hi => ?_⟩
    simp only [List.mem_append, not_or]
    refine ⟨fun h => ?_, hnot i (by simp [hi])⟩
    exact hnd.2.2 i (by simp [h]) i hi rfl

/-- **C19.**  For every history of the model in which the id allocator never repeats an id, what is
    observed satisfies the specification `Spec.C19.Holds`: every change of the served replication state is
    a switch  *obtain a fresh id ; offer the new status to all members ; persist it – all while the old
    state is still served –* and only then serve it; a failed id allocation or persist leaves the served
    state unchanged; a switch to `async` happens only in a tick whose facts say that one data centre has
    lost as many stores as it has replicas while a majority of the replicas can still be up and the wait
    time-out has passed (or on a change of the label key); `async → sync_recover` only in a tick in which
    both data centres have fewer failed stores than replicas (or when dr-auto-sync is switched on); and
    `sync_recover → sync` only when every key of the key space lies in a region that has reported integrity
    under the state id of that `sync_recover` state (or at the very first start). -/
theorem C19_holds (batch minSample : Nat) (ops : List Op) (hfresh : (allIds ops).Nodup) :
    C19.Holds [] (observe (init batch minSample) ops) :=
  holds_from _ (inv_init _ _) ops [] ⟨hfresh, fun _ _ => by simp⟩

/-- instantiated with the scan sizes extracted from `/repo/server/replication/replication_mode.go` -/
theorem C19_holds_extracted (ops : List Op) (hfresh : (allIds ops).Nodup) :
    C19.Holds [] (observe (init Generated.DrAutoSync.regionScanBatchSize Generated.DrAutoSync.regionMinSampleSize) ops) :=
  C19_holds _ _ ops hfresh

/-! ### the clauses of the property, in terms of the model -/

/-- **persist before publish.**  The events of every operation from every state form a sequence of
    attempted switches `alloc ; file ; save [; publish]` in which the file replication and the save of
    each switch happen while the previous state is still in memory, a publish follows exactly the
    successful saves, and the state served in the end is the last published one (or the initial one). -/
theorem persist_before_publish (s : St) (op : Op) :
    Sw (OpOk s op) (startOf s op) (step s op).2.evs (step s op).1.served := step_sw s op

/-- whenever a new state is published, the events of that operation contain, immediately before the
    publish and in this order: the allocation of its id, its replication to all members, its successful
    save; the last two saw the same in-memory state -/
theorem publish_preceded_by_offer_and_persist (s : St) (op : Op) (st : DrState) (id : Nat)
    (h : Ev.publish st id ∈ (step s op).2.evs) :
    ∃ pre post okf seen, (step s op).2.evs =
      pre ++ [.alloc id, .file st id okf seen, .save st id true seen, .publish st id] ++ post :=
  (step_sw s op).publish_after_persist st id h

/-- **a failed persist leaves the served state unchanged**: an operation without a successful save
    (AllocID failed, or every SaveReplicationStatus failed – with or without having written) serves
    afterwards what was served before -/
theorem failed_persist_served_unchanged (s : St) (op : Op)
    (h : ∀ st id seen, Ev.save st id true seen ∉ (step s op).2.evs) :
    (step s op).1.served = startOf s op := (step_sw s op).unchanged h

/-- **to async only if**: a switch to `async` is made only by a tick in dr-auto-sync mode that finds
    ¬canSync ∧ hasMajority ∧ time-out passed in a state other than `async`, or by a configuration update
    that changes the label key -/
theorem to_async_only_if (s : St) (op : Op) (id : Nat) (h : Ev.publish .async id ∈ (step s op).2.evs) :
    (∃ xs, op = .tick xs ∧ s.mgr = true ∧ s.cfg.dr = true ∧ ¬ (factsOf s).canSync ∧ (factsOf s).hasMajority ∧
        timeoutPassed s = true ∧ s.dr.state ≠ .async) ∨
    (∃ c x, op = .cfg c x ∧ s.cfg.dr = true ∧ c.dr = true ∧ s.cfg.labelKey ≠ c.labelKey) := by
  obtain ⟨cur, hok⟩ := (step_sw s op).publish_sat .async id h
  cases op <;> simp only [OpOk] at hok
  · exact absurd hok.1 (by simp)
  · next c x =>
    obtain ⟨_, _, hc⟩ := hok
    rcases hc with ⟨hc, _⟩ | ⟨_, h1, h2, h3⟩
    · simp at hc
    · exact Or.inr ⟨c, x, rfl, h1, h2, h3⟩
  · next xs =>
    obtain ⟨hm, hdr, ht⟩ := hok
    simp only [TickOk] at ht
    have := (asyncCond_iff s).1 ht.1
    exact Or.inl ⟨xs, rfl, hm, hdr, this.1, this.2.1, this.2.2.1, this.2.2.2⟩

/-- **to sync_recover only if**: a switch to `sync_recover` is made only by a tick in dr-auto-sync mode
    that starts in `async` and finds both data centres with fewer failed stores than replicas, or by a
    configuration update that switches from majority to dr-auto-sync -/
theorem to_sync_recover_only_if (s : St) (op : Op) (id : Nat)
    (h : Ev.publish .syncRecover id ∈ (step s op).2.evs) :
    (∃ xs, op = .tick xs ∧ s.mgr = true ∧ s.cfg.dr = true ∧ (factsOf s).canSync ∧ s.dr.state = .async) ∨
    (∃ c x, op = .cfg c x ∧ s.cfg.dr = false ∧ c.dr = true) := by
  obtain ⟨cur, hok⟩ := (step_sw s op).publish_sat .syncRecover id h
  cases op <;> simp only [OpOk] at hok
  · exact absurd hok.1 (by simp)
  · next c x =>
    obtain ⟨_, _, hc⟩ := hok
    rcases hc with ⟨_, h1, h2⟩ | ⟨hc, _⟩
    · exact Or.inr ⟨c, x, rfl, h1, h2⟩
    · simp at hc
  · next xs =>
    obtain ⟨hm, hdr, ht⟩ := hok
    simp only [TickOk] at ht
    obtain ⟨h1, h2, rfl⟩ := ht
    exact Or.inl ⟨xs, rfl, hm, hdr, (canSyncNow_iff s).1 h1, h2⟩

/-- the cursor invariant holds in every reachable state: the regions passed by the recovery cursor form a
    contiguous chain from the empty key to the cursor, their number is the recovery count, while the state
    is `sync_recover` each of them reported integrity under the current state id, and each was reported -/
theorem inv_reachable (batch minSample : Nat) (ops : List Op) : Inv (run (init batch minSample) ops) :=
  inv_run _ ops (inv_init _ _)

/-- **to sync only if all regions, contiguous over the whole key space, reported integrity under the
    current state id.**  In every reachable state, if an operation declares `sync` then either it is the
    first start in dr-auto-sync mode with nothing persisted, or it is a tick and, on the state `d` the tick
    decided on: the state is `sync_recover`; the regions passed by the cursor are a non-empty contiguous
    chain from the empty start key to the open end; every one of them reported integrity under the id of
    that `sync_recover` state and is in the log of reports; hence every key is covered. -/
theorem to_sync_only_if_all_regions_contiguous_integrity (batch minSample : Nat) (ops : List Op) (op : Op)
    (id : Nat) (h : Ev.publish .sync id ∈ (step (run (init batch minSample) ops) op).2.evs) :
    let s := run (init batch minSample) ops
    (∃ c x, op = .new c x ∧ c.dr = true ∧ s.stored = none) ∨
    (∃ xs, op = .tick xs ∧ s.cfg.dr = true ∧
      (decision s xs).dr.state = .syncRecover ∧ (decision s xs).dr = (beforeScan s xs).dr ∧
      (decision s xs).passed ≠ [] ∧ Chain 0 (decision s xs).passed 0 ∧
      (∀ r ∈ (decision s xs).passed, r.st = .integrity ∧ r.sid = (decision s xs).dr.id ∧ r ∈ s.log) ∧
      C19.Covered (s.log.map toReport) (decision s xs).dr.id) := by
  intro s
  have hinv : Inv s := inv_reachable batch minSample ops
  obtain ⟨cur, hok⟩ := (step_sw s op).publish_sat .sync id h
  cases op <;> simp only [OpOk] at hok
  · next c x => exact Or.inl ⟨c, x, rfl, hok.2.1, hok.2.2.1⟩
  · obtain ⟨_, _, hc⟩ := hok
    rcases hc with ⟨hc, _⟩ | ⟨hc, _⟩ <;> simp at hc
  · next xs =>
    obtain ⟨_, hdr, ht⟩ := hok
    simp only [TickOk] at ht
    obtain ⟨hsr, hfin, rfl⟩ := ht
    obtain ⟨d1, _, d3, d4⟩ := decision_spec s xs
    have hst : (decision s xs).dr.state = .syncRecover := hsr
    obtain ⟨c1, c2, c3, c4⟩ := inv_finished_covered _ (d1 hinv) hfin hst
    refine Or.inr ⟨xs, rfl, hdr, hst, d4, c1, c2, ?_, ?_⟩
    · intro r hr; obtain ⟨a, b, c⟩ := c3 r hr; exact ⟨a, b, by rw [← d3]; exact c⟩
    · rw [← d3]; exact c4

/-- the cursor only moves over regions that are in the region cache at that tick and report integrity
    under the state id that is current at that moment ("… under the current state id when it was passed") -/
theorem cursor_passes_only_cached_integrity_regions (s : St) :
    ∀ r ∈ (scanned s).passed, r ∈ s.passed ∨ (r ∈ s.regions ∧ r.st = .integrity ∧ r.sid = s.dr.id) :=
  scanned_passed s

/-! ### fresh state ids -/

def publishIds (evs : List Ev) : List Nat :=
  evs.filterMap (fun e => match e with | .publish _ id => some id | _ => none)

/-- the state ids served during a history, in order -/
def servedIds : St → List Op → List Nat
  | _, [] => []
  | s, op :: ops => publishIds (step s op).2.evs ++ servedIds (step s op).1 ops

theorem sw_publishIds_sublist {P} {a b : Served} {e : List Ev} (h : Sw P a e b) :
    (publishIds e).Sublist (allocIds e) := by
  induction h with
  | done cur => exact List.Sublist.refl _
  | scan cur k l n evs fin _ ih => exact ih
  | count cur n evs fin _ ih => exact ih
  | allocFail cur evs fin _ ih => exact ih
  | failed cur st id okf evs fin _ ih => exact List.Sublist.cons _ ih
  | switched cur st id okf evs fin _ _ ih => exact List.Sublist.cons_cons _ ih

theorem servedIds_sublist (s : St) (ops : List Op) : (servedIds s ops).Sublist (allIds ops) := by
  induction ops generalizing s with
  | nil => exact List.Sublist.refl _
  | cons op ops ih =>
    simp only [servedIds, allIds, List.flatMap_cons]
    refine List.Sublist.append ?_ (ih _)
    obtain ⟨rest, hrest⟩ := step_ids s op
    rw [← hrest]
    exact (sw_publishIds_sublist (step_sw s op)).trans (List.sublist_append_left _ _)

/-- **every transition carries a fresh state id**: if the id allocator never returns an id twice
    (C04), no state id is ever served by two different switches of a history -/
theorem state_id_fresh (s : St) (ops : List Op) (hfresh : (allIds ops).Nodup) : (servedIds s ops).Nodup :=
  (servedIds_sublist s ops).nodup hfresh

/-! ### progress -/

/-- the exact value of the progress estimate is 1 exactly when the cursor is at the end of the key
    space with at least one region passed; otherwise it is a proper fraction below 1 -/
theorem exact_progress_eq_one_iff (s : St) :
    0 < (exactProgress s).2 ∧ (exactProgress s).1 ≤ (exactProgress s).2 ∧
    ((exactProgress s).1 = (exactProgress s).2 ↔ (s.recKey = 0 ∧ 0 < s.recCount)) := by
  unfold exactProgress
  split
  · next hf =>
    simp only [finished, Bool.and_eq_true, beq_iff_eq, decide_eq_true_eq] at hf
    simp [hf]
  · next hf =>
    simp only [finished, Bool.and_eq_true, beq_iff_eq, decide_eq_true_eq] at hf
    simp only [estimateInputs]
    generalize hst : (if s.sampleTotal ≤ s.sampleRec then s.sampleRec + 1 else s.sampleTotal) = st
    have hlt : s.sampleRec < st := by rw [← hst]; split <;> omega
    generalize htu : (if s.total < s.recCount + st then st else s.total - s.recCount) = tu
    have hge : st ≤ tu := by rw [← htu]; split <;> omega
    have h1 : tu * s.sampleRec < tu * st := (Nat.mul_lt_mul_left (by omega : 0 < tu)).2 hlt
    have h2 : st * (s.recCount + tu) = s.recCount * st + tu * st := by
      rw [Nat.mul_add, Nat.mul_comm st s.recCount, Nat.mul_comm st tu]
    have h3 : 0 < tu * st := Nat.mul_pos (by omega) (by omega)
    refine ⟨by omega, by omega, ?_⟩
    constructor
    · intro h; omega
    · intro h; exact absurd h hf

/-- in majority mode a tick does nothing -/
theorem majority_mode_tick_noop (s : St) (xs : List SwitchIn) (h : s.cfg.dr = false) : tick s xs = (s, []) := by
  unfold tick; simp [h]

/-! ### the model's scan loop is the code's loop (no truncation by the fuel) -/

/-- in every history whose region reports have non-empty ranges the region cache of the model stays
    ordered and non-overlapping, and the fuel-bounded loop that models `updateProgress` is never cut
    short: the model's scan is the code's scan for every number of regions and every batch size -/
theorem scan_loop_never_truncated (batch minSample : Nat) (ops : List Op) (hops : ∀ op ∈ ops, op.wf) :
    CacheOk (run (init batch minSample) ops).regions ∧ (run (init batch minSample) ops).exhausted = false := by
  have := good_run (init batch minSample) ops hops ⟨⟨by simp [init], by simp [init]⟩, rfl⟩
  exact ⟨this.cache, this.fuel⟩

/-- **the recovery does complete** (the converse direction, for every number of regions and every batch
    size): in `sync_recover` with the cursor at the start, if the cached regions cover the whole key space
    contiguously and all report integrity under the current state id, the recovery part of one tick scans
    to the end and – the id allocation and the save succeeding – declares `sync` under the new id -/
theorem complete_reports_declare_sync (s : St) (x : SwitchIn) (xs : List SwitchIn) (id : Nat)
    (hst : s.dr.state = .syncRecover) (hc : CacheOk s.regions) (hne : s.regions ≠ [])
    (hcur : s.recKey = 0 ∧ s.recCount = 0) (hch : Chain 0 s.regions 0)
    (hall : ∀ r ∈ s.regions, r.st = .integrity ∧ r.sid = s.dr.id) (hb : 0 < s.batch)
    (hx : x.id = some id) (hsave : x.save = 0) :
    finished (scanned s) = true ∧ (recoverPhase s (x :: xs)).1.served = (.sync, id) := by
  have hfin : finished (updateProgress s).1 = true := by
    unfold updateProgress
    exact loop_completes _ s [] s.regions (by simp) hc hne (by rw [hcur.1]; exact hch) hall (Or.inr hcur.2) hb (by omega)
  have hsc : scanned s = (updateProgress s).1 := by
    unfold scanned estimate; simp [hfin]
  have hfin' : finished (scanned s) = true := by rw [hsc]; exact hfin
  refine ⟨hfin', ?_⟩
  rw [recoverPhase_eq]
  simp only [hst, beq_self_eq_true, if_true, hfin']
  unfold attempt
  simp only [List.headD_cons]
  rcases switchTo_cases (scanned s) .sync x with ⟨hno, _⟩ | ⟨id', hid, _, _, hserved, _⟩
  · exfalso
    unfold switchTo at hno
    simp [hx, hsave, switched] at hno
  · rw [hx] at hid; cases hid; exact hserved

/-! ### F9: the float32 estimate (the decision of the unrepaired code) -/

/-- the decision of tickDR before the repair: `progress == 1.0` on the float32 estimate -/
def unrepairedDecision (s : St) : Bool := (estimateF32 s).bits == F32.one.bits

/-- 2^24 regions passed, the cursor in the middle of the key space, one region outstanding -/
def f9Witness : St :=
  { recKey := 10, recCount := 16777216, sampleRec := 0, sampleTotal := 1, total := 16777217 }

/-- F9: on the witness the float32 estimate is exactly 1.0 (so the unrepaired code declared `sync`) although
    the scan is not finished and the exact estimate is 16777216/16777217; one region fewer and the float
    is below 1 -/
theorem f9_float32_estimate_rounds_to_one :
    unrepairedDecision f9Witness = true ∧ finished f9Witness = false ∧
    exactProgress f9Witness = (16777216, 16777217) ∧
    unrepairedDecision { f9Witness with recCount := 16777215, total := 16777216 } = false := by decide

/-! ### non-vacuity: a concrete history through all three states, with a failed persist, scan batches of
    two regions and regions that reported the id before the cluster reached it -/

def demoCfg : Config := { dr := true, pRep := 2, dRep := 1 }

def demoOps : List Op :=
  [.store ⟨1, 1, false, false⟩, .store ⟨2, 1, false, false⟩, .store ⟨3, 2, false, false⟩,
   .new demoCfg { id := some 1 },
   .store ⟨3, 2, true, false⟩,
   .tick [{ id := some 2 }, { id := some 3 }],                      -- sync → async
   .store ⟨3, 2, false, false⟩,
   .fill 5 .integrity 4,
   .region ⟨4, 30, 40, .majority, 4⟩,
   .tick [{ id := some 4, fileOk := false }, { id := some 5 }],     -- async → sync_recover, scan stops at region 4
   .region ⟨4, 30, 40, .integrity, 4⟩,
   .tick [{ id := some 6, save := 1 }, { id := some 7 }],           -- scan completes, the save fails
   .tick [{ id := some 8 }, { id := some 9 }]]                      -- sync_recover → sync

example : servedIds (init 2 2) demoOps = [1, 2, 4, 8] ∧ (run (init 2 2) demoOps).served = (.sync, 8) ∧
    (run (init 2 2) (demoOps.take 10)).recKey = 30 ∧ (allIds demoOps).Nodup := by decide

/-! ### structure of the source -/

/-- structure obligations re-checked against the facts regenerated from the Go source on every run:
    every state switch is `AllocID ; drPersistStatus ; SaveReplicationStatus ; m.drAutoSync = dr` in this
    order at the top level of its function, a failed save returns before the assignment, the recovery
    cursor is reset only after the save, the switches and UpdateConfig hold the manager's lock for their
    whole body, and tickDR scans before it decides. -/
theorem persist_before_publish_in_source :
    Generated.DrAutoSync.toAsyncPersistBeforePublish = true ∧
    Generated.DrAutoSync.toSyncRecoverPersistBeforePublish = true ∧
    Generated.DrAutoSync.toSyncPersistBeforePublish = true ∧
    Generated.DrAutoSync.toSyncRecoverResetsCursorAfterPublish = true ∧
    Generated.DrAutoSync.toSyncLocked = true ∧ Generated.DrAutoSync.toAsyncLocked = true ∧
    Generated.DrAutoSync.toSyncRecoverLocked = true ∧ Generated.DrAutoSync.updateConfigLocked = true ∧
    Generated.DrAutoSync.tickScansBeforeDeciding = true ∧
    Generated.DrAutoSync.tickRecoverSwitchBeforeScan = true ∧
    Generated.DrAutoSync.tickAsyncPhaseFirst = true := by decide

end PdModel.DrAutoSync
