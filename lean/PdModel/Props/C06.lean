import PdModel.Model.RegionCache
import PdModel.Model.TikvSim
import PdModel.Spec.C06
import PdModel.Lemmas.RegionCache
import PdModel.Lemmas.TikvSim
import PdModel.Generated.RegionCache
set_option linter.unusedSimpArgs false
set_option linter.unusedVariables false
/-!
C06 – property theorems about the heartbeat path (`Model/RegionCache.lean`) over the RegionsInfo model.
`abs c.ri` is the list of regions PD serves.  Heartbeats are well-formed regions (`Spec.C07.WF`: a real key
range, one peer per store, pending peers on peer stores) – see docs/C06.md for what a heartbeat with an
inverted range does to the real code.
-/
namespace PdModel.RegionCache
open PdModel.RegionTree PdModel.Spec
open PdModel.Spec.C07 (WF Overlap)

/-- heartbeats handled one at a time -/
def run (c : Cluster) (hbs : List Region) : Cluster := hbs.foldl (fun c r => (heartbeat c r).1) c

theorem run_inv (hbs : List Region) (hwf : ∀ r ∈ hbs, WF r) (c : Cluster) (h : Inv c.ri) : Inv (run c hbs).ri := by
  induction hbs generalizing c with
  | nil => exact h
  | cons r hbs ih =>
    simp only [run, List.foldl_cons]
    exact ih (fun r' hr' => hwf r' (by simp [hr'])) _ (heartbeat_inv h (hwf r (by simp)))

/-- **no two served regions overlap**, after any sequence of heartbeats (it is an invariant of SetRegion:
    it does not depend on the pre-check) -/
theorem no_overlap_inv (hbs : List Region) (hwf : ∀ r ∈ hbs, WF r) :
    C06.NoOverlap (abs (run {} hbs).ri) :=
  no_overlap_of_inv (run_inv hbs hwf {} inv_init)

theorem notBehind_refl (o : Region) : C06.NotBehind o o := ⟨Nat.le_refl _, Nat.le_refl _, fun _ => Nat.le_refl _⟩

/-- **per id, what is served does not go back** while the id stays cached: version, conf-version, and the
    term when the newer heartbeat reports one -/
theorem per_id_monotone (c : Cluster) (r : Region) (h : Inv c.ri) (hr : WF r) (id : Nat) (o n : Region)
    (ho : getRegionC c id = some o) (hn : getRegionC (heartbeat c r).1 id = some n) : C06.NotBehind o n := by
  unfold getRegionC at ho hn
  rcases heartbeat_spec h hr with ⟨_, e, _⟩ | ⟨_, hnm, e | ⟨hinv, habs, _⟩⟩
  · rw [e, ho] at hn; cases hn; exact notBehind_refl _
  · rw [e, ho] at hn; cases hn; exact notBehind_refl _
  · rw [getRegion_eq h] at ho
    rw [getRegion_eq hinv, habs] at hn
    obtain ⟨ho1, ho2⟩ := (get_some_iff h).1 ho
    have hn1 : n ∈ C07.put (abs c.ri) r := List.mem_of_find?_eq_some hn
    have hn2 : n.id = id := by simpa using List.find?_some hn
    rcases mem_put.1 hn1 with rfl | ⟨hm, _, _⟩
    · -- the heartbeat itself: it passed the check against the cached region of its id
      by_cases hb : C06.NotBehind o n
      · exact hb
      · exact absurd (Or.inl ⟨o, ho1, by rw [ho2, hn2], hb⟩) hnm
    · rw [abs_id_unique h hm ho1 (by rw [hn2, ho2])]; exact notBehind_refl _

/-- **a stale heartbeat is answered with an error and changes nothing** (cache and storage) -/
theorem stale_rejected_unchanged (c : Cluster) (r : Region) (h : Inv c.ri) (hr : WF r) (o : Region)
    (ho : getRegionC c r.id = some o) (hstale : ¬ C06.NotBehind o r) :
    (heartbeat c r).2 = .stale ∧ (heartbeat c r).1 = c := by
  unfold getRegionC at ho
  rw [getRegion_eq h] at ho
  obtain ⟨ho1, ho2⟩ := (get_some_iff h).1 ho
  rcases heartbeat_spec h hr with ⟨e1, e2, _⟩ | ⟨_, hnm, _⟩
  · exact ⟨e1, e2⟩
  · exact absurd (Or.inl ⟨o, ho1, ho2, hstale⟩) hnm

/-- **a heartbeat older in version than a cached region it overlaps is answered with an error and changes
    nothing** -/
theorem older_than_overlap_rejected_unchanged (c : Cluster) (r : Region) (h : Inv c.ri) (hr : WF r) (y : Region)
    (hy : y ∈ abs c.ri) (hov : Overlap y r) (hver : r.version < y.version) :
    (heartbeat c r).2 = .stale ∧ (heartbeat c r).1 = c := by
  rcases heartbeat_spec h hr with ⟨e1, e2, _⟩ | ⟨_, hnm, _⟩
  · exact ⟨e1, e2⟩
  · exact absurd (Or.inr ⟨y, hy, hov, hver⟩) hnm

/-- an error is only ever given for one of these two reasons, and it never changes anything -/
theorem error_iff_must_reject (c : Cluster) (r : Region) (h : Inv c.ri) (hr : WF r) :
    ((heartbeat c r).2 = .stale ↔ C06.MustReject (abs c.ri) r) ∧
    ((heartbeat c r).2 = .stale → (heartbeat c r).1 = c) := by
  rcases heartbeat_spec h hr with ⟨e1, e2, e3⟩ | ⟨e1, hnm, _⟩
  · exact ⟨⟨fun _ => e3, fun _ => e1⟩, fun _ => e2⟩
  · refine ⟨⟨fun hs => ?_, fun hm => absurd hm hnm⟩, fun hs => ?_⟩ <;> (rw [e1] at hs; cases hs)

/-- the served set after a heartbeat is the old one, or the old one with the region put -/
theorem served_after (c : Cluster) (r : Region) (h : Inv c.ri) (hr : WF r) :
    abs (heartbeat c r).1.ri = abs c.ri ∨ abs (heartbeat c r).1.ri = C07.put (abs c.ri) r := by
  rcases heartbeat_spec h hr with ⟨_, e, _⟩ | ⟨_, _, e | ⟨_, e, _⟩⟩
  · rw [e]; exact Or.inl rfl
  · rw [e]; exact Or.inl rfl
  · exact Or.inr e

/-- **displaced regions disappear from the cache at once**: when a heartbeat is put, nothing that intersects
    it (other than an older version of itself, which is replaced) is served any more -/
theorem displaced_removed_cache (c : Cluster) (r : Region) (h : Inv c.ri) (hr : WF r)
    (hput : abs (heartbeat c r).1.ri = C07.put (abs c.ri) r) :
    r ∈ abs (heartbeat c r).1.ri ∧
    (∀ y ∈ abs (heartbeat c r).1.ri, y ≠ r → ¬ Overlap y r) ∧
    (∀ y ∈ C07.displaced (abs c.ri) r, y ∉ abs (heartbeat c r).1.ri) := by
  rw [hput]
  refine ⟨mem_put.2 (Or.inl rfl), ?_, ?_⟩
  · intro y hy hne
    rcases mem_put.1 hy with e | ⟨_, hno, _⟩
    · exact absurd e hne
    · exact hno
  · intro y hy hmem
    obtain ⟨_, hov, hid⟩ := mem_displaced.1 hy
    rcases mem_put.1 hmem with e | ⟨_, hno, _⟩
    · exact hid (by rw [e])
    · exact hno hov

/-- **… and from storage as well, when heartbeats are handled one at a time** -/
theorem displaced_removed_storage (c : Cluster) (r : Region) (h : Inv c.ri) (hr : WF r)
    (hne : (heartbeat c r).1 ≠ c) (y : Region) (hy : y ∈ C07.displaced (abs c.ri) r) :
    loadRegion (heartbeat c r).1 y.id = none := by
  rcases heartbeat_spec h hr with ⟨_, e, _⟩ | ⟨_, _, e | ⟨_, _, saveKV, est⟩⟩
  · exact absurd e hne
  · exact absurd e hne
  · unfold loadRegion
    rw [est]
    unfold store
    simp only
    have hyid : y.id ≠ r.id := (mem_displaced.1 hy).2.2
    have hdel : mapGet ((C07.displaced (abs c.ri) r).foldl (fun st item => mapDel st item.id) c.storage) y.id = none := by
      rw [lookup_foldl_mapDel]
      simp only [List.mem_map, ite_eq_left_iff, not_exists, not_and]
      intro hno
      exact absurd rfl (hno y hy)
    split
    · rw [mapGet_mapSet]; simp [hyid, hdel]
    · exact hdel

/-! ### concurrent streams -/

def runConc (s : Conc) (steps : List Step) : Conc := steps.foldl (fun s st => (stepConc s st).1) s

/-- the heartbeats in the order in which they take effect: a heartbeat that is answered without entering
    the locked section counts where its check ran, one that enters the locked section counts there -/
def linearize : Conc → List Step → List (Region × C06.Verdict)
  | _, [] => []
  | s, st :: rest =>
    let here : List (Region × C06.Verdict) :=
      match st with
      | .check i r =>
        (match (stepConc s st).2 with
          | .stale => [(r, .stale)]
          | .ok => [(r, .ok)]
          | _ => [])
      | .commit i =>
        (match s.streams[i]? with
          | some (.checked r f) =>
            (match (stepConc s st).2 with
              | .stale => [(r, .stale)]
              | .pending => [(r, .ok)]
              | _ => [])
          | _ => [])
      | .store _ => []
    here ++ linearize (stepConc s st).1 rest

/-- served sets along a list of heartbeats handled one at a time (`Spec.C06.SeqStep`) -/
inductive SeqChain : List Region → List (Region × C06.Verdict) → List Region → Prop
  | nil (S : List Region) : SeqChain S [] S
  | cons {S S1 S2 : List Region} {r : Region} {v : C06.Verdict} {rest : List (Region × C06.Verdict)} :
      C06.SeqStep S r v S1 → SeqChain S1 rest S2 → SeqChain S ((r, v) :: rest) S2

/-- what the streams hold: well-formed heartbeats, and a stream waiting for the lock has saveCache set
    (`saveKV` and `isNew` are never set without `saveCache`) -/
def PhasesOk (s : Conc) : Prop :=
  ∀ p ∈ s.streams, match p with
    | .idle => True
    | .checked r f => WF r ∧ f.saveCache = true
    | .committed r _ _ => WF r

theorem phasesOk_set {s : Conc} {i : Nat} {p : Phase} (h : PhasesOk s)
    (hp : match p with
      | .idle => True
      | .checked r f => WF r ∧ f.saveCache = true
      | .committed r _ _ => WF r) (c' : Cluster) : PhasesOk (setPhase { s with c := c' } i p) := by
  intro q hq
  simp only [setPhase] at hq
  rcases List.mem_or_eq_of_mem_set hq with hq | rfl
  · exact h q hq
  · exact hp

theorem getElem?_mem' {α : Type} {l : List α} {i : Nat} {a : α} (h : l[i]? = some a) : a ∈ l :=
  List.mem_of_getElem? h

/-- one step of any interleaving keeps the invariant and is, for the served set, nothing or one `SeqStep` -/
theorem stepConc_ok (s : Conc) (st : Step) (h : Inv s.c.ri) (hp : PhasesOk s)
    (hwf : ∀ i r, st = .check i r → WF r) :
    Inv (stepConc s st).1.c.ri ∧ PhasesOk (stepConc s st).1 ∧
    SeqChain (abs s.c.ri) (linearize s [st]) (abs (stepConc s st).1.c.ri) := by
  cases st with
  | check i r =>
    have hr := hwf i r rfl
    simp only [linearize, List.append_nil]
    generalize hres : stepConc s (.check i r) = res
    simp only [stepConc] at hres
    cases hi : s.streams[i]? with
    | none => rw [hi] at hres; subst hres; exact ⟨h, hp, SeqChain.nil _⟩
    | some p =>
      rw [hi] at hres
      cases p with
      | idle =>
        simp only at hres
        rcases preCheck_cases s.c.ri r with hv | hv
        · have hnm : ¬ C06.MustReject (abs s.c.ri) r := fun hm => by
            have := (preCheck_stale_iff h r).2 hm; rw [hv] at this; cases this
          have hpair : preCheckPutRegion s.c.ri r = ((preCheckPutRegion s.c.ri r).1, .ok) := by rw [← hv]
          rw [hpair] at hres
          simp only at hres
          cases hfl : (!(computeFlags (preCheckPutRegion s.c.ri r).1 r).saveKV &&
              !(computeFlags (preCheckPutRegion s.c.ri r).1 r).saveCache &&
              !(computeFlags (preCheckPutRegion s.c.ri r).1 r).isNew) with
          | true =>
            rw [hfl] at hres; simp only [if_true] at hres; subst hres
            exact ⟨h, hp, SeqChain.cons (Or.inr ⟨rfl, hnm, Or.inl rfl⟩) (SeqChain.nil _)⟩
          | false =>
            rw [hfl] at hres; simp only [Bool.false_eq_true, if_false] at hres; subst hres
            exact ⟨h, phasesOk_set (p := Phase.checked r _) hp (And.intro hr (flags_saveCache _ r hfl)) s.c, SeqChain.nil _⟩
        · have hpair : preCheckPutRegion s.c.ri r = ((preCheckPutRegion s.c.ri r).1, .stale) := by rw [← hv]
          rw [hpair] at hres
          simp only at hres; subst hres
          exact ⟨h, hp, SeqChain.cons (Or.inl ⟨rfl, rfl⟩) (SeqChain.nil _)⟩
      | checked r' f => simp only at hres; subst hres; exact ⟨h, hp, SeqChain.nil _⟩
      | committed r' f ov => simp only at hres; subst hres; exact ⟨h, hp, SeqChain.nil _⟩
  | commit i =>
    simp only [linearize, List.append_nil]
    generalize hres : stepConc s (.commit i) = res
    simp only [stepConc] at hres
    cases hi : s.streams[i]? with
    | none => rw [hi] at hres; subst hres; exact ⟨h, hp, SeqChain.nil _⟩
    | some p =>
      rw [hi] at hres
      cases p with
      | idle => simp only at hres; subst hres; exact ⟨h, hp, SeqChain.nil _⟩
      | committed r' f ov => simp only at hres; subst hres; exact ⟨h, hp, SeqChain.nil _⟩
      | checked r f =>
        have hpr := hp _ (getElem?_mem' hi)
        simp only at hpr
        obtain ⟨hr, hsc⟩ := hpr
        simp only [hsc, if_true] at hres
        rcases commit_spec h hr with ⟨c1, c2, c3, hm⟩ | ⟨c1, hnm, c3, c4, c5, c6⟩
        · rw [c1, c2] at hres; simp only at hres; subst hres
          exact ⟨h, phasesOk_set (p := Phase.idle) hp trivial s.c, SeqChain.cons (Or.inl ⟨rfl, rfl⟩) (SeqChain.nil _)⟩
        · rw [c1] at hres; simp only at hres; subst hres
          exact ⟨c3, phasesOk_set (p := Phase.committed r f _) hp hr _,
            SeqChain.cons (Or.inr ⟨rfl, hnm, Or.inr c4⟩) (SeqChain.nil _)⟩
  | store i =>
    simp only [linearize, List.append_nil]
    generalize hres : stepConc s (.store i) = res
    simp only [stepConc] at hres
    cases hi : s.streams[i]? with
    | none => rw [hi] at hres; subst hres; exact ⟨h, hp, SeqChain.nil _⟩
    | some p =>
      rw [hi] at hres
      cases p with
      | idle => simp only at hres; subst hres; exact ⟨h, hp, SeqChain.nil _⟩
      | checked r' f => simp only at hres; subst hres; exact ⟨h, hp, SeqChain.nil _⟩
      | committed r f ov =>
        simp only at hres; subst hres
        exact ⟨h, phasesOk_set (p := Phase.idle) hp trivial _, SeqChain.nil _⟩

theorem SeqChain.append {S S1 S2 : List Region} {l1 l2 : List (Region × C06.Verdict)}
    (h1 : SeqChain S l1 S1) (h2 : SeqChain S1 l2 S2) : SeqChain S (l1 ++ l2) S2 := by
  induction h1 with
  | nil => exact h2
  | cons hs _ ih => exact SeqChain.cons hs (ih h2)

theorem linearize_cons (s : Conc) (st : Step) (rest : List Step) :
    linearize s (st :: rest) = linearize s [st] ++ linearize (stepConc s st).1 rest := by
  simp [linearize]

/-- **concurrent heartbeats are handled as if one at a time**: for every number of streams and every
    interleaving of their check / locked-section / storage steps, the served set is the one obtained by
    handling the heartbeats one at a time in the order `linearize` gives (each answered the same way), and
    it never holds overlapping regions.  The locked re-check is what makes this true; that the real code has
    it inside the lock is the extracted fact `recheckAndPutIsOneSection`. -/
theorem concurrent_is_sequential (n : Nat) (steps : List Step)
    (hwf : ∀ i r, Step.check i r ∈ steps → WF r) :
    let s0 : Conc := { c := {}, streams := List.replicate n .idle }
    SeqChain [] (linearize s0 steps) (abs (runConc s0 steps).c.ri) ∧
    C06.NoOverlap (abs (runConc s0 steps).c.ri) := by
  intro s0
  have key : ∀ (steps : List Step) (s : Conc), Inv s.c.ri → PhasesOk s →
      (∀ i r, Step.check i r ∈ steps → WF r) →
      SeqChain (abs s.c.ri) (linearize s steps) (abs (runConc s steps).c.ri) ∧ Inv (runConc s steps).c.ri := by
    intro steps
    induction steps with
    | nil => intro s h _ _; exact ⟨SeqChain.nil _, h⟩
    | cons st rest ih =>
      intro s h hp hwf
      obtain ⟨h1, h2, h3⟩ := stepConc_ok s st h hp (fun i r e => hwf i r (by simp [e]))
      obtain ⟨i1, i2⟩ := ih _ h1 h2 (fun i r hm => hwf i r (by simp [hm]))
      rw [linearize_cons]
      exact ⟨h3.append i1, i2⟩
  have hp0 : PhasesOk s0 := by
    intro p hp
    rw [List.eq_of_mem_replicate hp]
    trivial
  obtain ⟨k1, k2⟩ := key steps s0 inv_init hp0 hwf
  exact ⟨k1, no_overlap_of_inv k2⟩

theorem contains_overlap {a b : Region} {k : Key} (ha : Contains a k) (hb : Contains b k) : Overlap a b := by
  unfold Contains Overlap at *; grind

/-- **per key, the served version never decreases while the key stays covered** – for arbitrary heartbeat
    streams (this is what the overlap check of PreCheckPutRegion buys; a regression needs a hole, see F18) -/
theorem per_key_version_monotone (c : Cluster) (r : Region) (h : Inv c.ri) (hr : WF r) (k : Key) (y y' : Region)
    (hy : getRegionByKey c k = some y) (hy' : getRegionByKey (heartbeat c r).1 k = some y') :
    y.version ≤ y'.version := by
  have hinv' := heartbeat_inv h hr
  unfold getRegionByKey at hy hy'
  rw [search_eq_aux h] at hy
  rw [search_eq_aux hinv'] at hy'
  unfold C07.search at hy hy'
  have hy1 := List.mem_of_find?_eq_some hy
  have hy2 : Contains y k := by simpa using List.find?_some hy
  have hy1' := List.mem_of_find?_eq_some hy'
  have hy2' : Contains y' k := by simpa using List.find?_some hy'
  have same : ∀ z ∈ abs c.ri, Contains z k → z = y := by
    intro z hz hzk
    by_cases e : z = y
    · exact e
    · exact absurd (contains_overlap hzk hy2) (abs_no_overlap h hz hy1 e)
  rcases heartbeat_spec h hr with ⟨_, e, _⟩ | ⟨_, hnm, e | ⟨_, e, _⟩⟩
  · rw [e] at hy1'; rw [same y' hy1' hy2']; exact Nat.le_refl _
  · rw [e] at hy1'; rw [same y' hy1' hy2']; exact Nat.le_refl _
  · rw [e] at hy1'
    rcases mem_put.1 hy1' with rfl | ⟨hm, _, _⟩
    · by_cases hlt : y'.version < y.version
      · exact absurd (Or.inr ⟨y, hy1, contains_overlap hy2 hy2', hlt⟩) hnm
      · omega
    · rw [same y' hm hy2']; exact Nat.le_refl _

/-! ### the monitor's step predicate holds for the model -/

def specVerdict : Verdict → C06.Verdict
  | .ok => .ok
  | .stale => .stale

theorem lookup_eq_mapGet (M : List (Nat × Meta)) (id : Nat) : C06.lookup M id = mapGet M id := by
  unfold C06.lookup
  induction M with
  | nil => rfl
  | cons e M ih =>
    obtain ⟨k, v⟩ := e
    simp only [List.find?_cons, mapGet]
    by_cases hk : k = id
    · simp [hk]
    · simp only [hk, decide_false, if_false]; exact ih

theorem storedOk_same (M : List (Nat × Meta)) (r : Region) : C06.StoredOk M M r [] :=
  ⟨by simp, Or.inl rfl, fun _ _ _ _ => rfl⟩

theorem storedOk_store (c : Cluster) (r : Region) (saveKV : Bool) (gone : List Region)
    (hg : ∀ y ∈ gone, y.id ≠ r.id) : C06.StoredOk c.storage (store c r saveKV gone).storage r gone := by
  unfold store
  simp only
  refine ⟨?_, ?_, ?_⟩
  · intro y hy
    rw [lookup_eq_mapGet]
    have hdel : mapGet (gone.foldl (fun st item => mapDel st item.id) c.storage) y.id = none := by
      rw [lookup_foldl_mapDel]
      simp only [List.mem_map, ite_eq_left_iff, not_exists, not_and]
      intro hno; exact absurd rfl (hno y hy)
    split
    · rw [mapGet_mapSet]; simp [hg y hy, hdel]
    · exact hdel
  · rw [lookup_eq_mapGet, lookup_eq_mapGet]
    have hnot : r.id ∉ gone.map (·.id) := by
      intro hm; obtain ⟨y, hy, e⟩ := List.mem_map.1 hm; exact hg y hy e
    split
    · right; rw [mapGet_mapSet]; simp
    · left; rw [lookup_foldl_mapDel]; simp [hnot]
  · intro e _ hne hgone
    rw [lookup_eq_mapGet, lookup_eq_mapGet]
    have hnot : e.1 ∉ gone.map (·.id) := by
      intro hm; obtain ⟨y, hy, e'⟩ := List.mem_map.1 hm; exact hgone y hy e'
    split
    · rw [mapGet_mapSet, lookup_foldl_mapDel]; simp [hne, hnot]
    · rw [lookup_foldl_mapDel]; simp [hnot]

/-- **the step predicate of the specification (`Spec.C06.StepOk`, what the monitor evaluates on the
    implementation's reports) holds for every heartbeat the model handles – partial**: all conjuncts are
    proved, except that for an id that is *not served at the moment* and comes back, "not behind its last
    served version" is assumed (`hex`).  That case is finding F18. -/
theorem step_ok_partial (c : Cluster) (r : Region) (h : Inv c.ri) (hr : WF r) (H : C06.History)
    (hH : ∀ y ∈ abs c.ri, C06.lastServed H y.id = some y)
    (hex : ∀ y ∈ abs (heartbeat c r).1.ri, (∀ z ∈ abs c.ri, z.id ≠ y.id) →
      C06.NotBehindOpt (C06.lastServed H y.id) y) :
    C06.StepOk H (abs c.ri) c.storage r (specVerdict (heartbeat c r).2)
      (abs (heartbeat c r).1.ri) (heartbeat c r).1.storage := by
  have hinv' := heartbeat_inv h hr
  have hsp := heartbeat_spec h hr
  refine ⟨no_overlap_of_inv hinv', ?_, ?_, ?_, ?_⟩
  · -- NoRegress
    intro y hy
    by_cases hz : ∃ z ∈ abs c.ri, z.id = y.id
    · obtain ⟨z, hz1, hz2⟩ := hz
      rw [← hz2, hH z hz1]
      show C06.NotBehind z y
      rcases hsp with ⟨_, e, _⟩ | ⟨_, hnm, e | ⟨_, e, _⟩⟩
      · rw [e] at hy; rw [abs_id_unique h hz1 hy hz2]; exact notBehind_refl _
      · rw [e] at hy; rw [abs_id_unique h hz1 hy hz2]; exact notBehind_refl _
      · rw [e] at hy
        rcases mem_put.1 hy with rfl | ⟨hm, _, _⟩
        · by_cases hb : C06.NotBehind z y
          · exact hb
          · exact absurd (Or.inl ⟨z, hz1, hz2, hb⟩) hnm
        · rw [abs_id_unique h hz1 hm hz2]; exact notBehind_refl _
    · exact hex y hy (fun z hz1 hz2 => hz ⟨z, hz1, hz2⟩)
  · intro hm
    rcases hsp with ⟨e, _, _⟩ | ⟨_, hnm, _⟩
    · rw [e]; rfl
    · exact absurd hm hnm
  · intro hv
    rcases hsp with ⟨_, e, _⟩ | ⟨e, _, _⟩
    · rw [e]; exact ⟨rfl, rfl⟩
    · rw [e] at hv; cases hv
  · intro _
    rcases hsp with ⟨_, e, _⟩ | ⟨_, _, e | ⟨_, e, saveKV, est⟩⟩
    · rw [e]; exact Or.inl ⟨rfl, storedOk_same _ _⟩
    · rw [e]; exact Or.inl ⟨rfl, storedOk_same _ _⟩
    · right
      refine ⟨e, ?_⟩
      rw [est]
      exact storedOk_store c r saveKV _ (fun y hy => (mem_displaced.1 hy).2.2)

/-! ### legitimate histories -/

theorem run_append (c : Cluster) (l1 l2 : List Region) : run c (l1 ++ l2) = run (run c l1) l2 := by
  simp [run, List.foldl_append]

/-- whatever is served was delivered: a served region is one of the heartbeats (or was there before) -/
theorem served_subset_delivered (hbs : List Region) (hwf : ∀ r ∈ hbs, WF r) (c : Cluster) (h : Inv c.ri) :
    ∀ y ∈ abs (run c hbs).ri, y ∈ abs c.ri ∨ y ∈ hbs := by
  induction hbs generalizing c with
  | nil => intro y hy; exact Or.inl hy
  | cons r hbs ih =>
    intro y hy
    simp only [run, List.foldl_cons] at hy
    have hr := hwf r (by simp)
    rcases ih (fun r' hr' => hwf r' (by simp [hr'])) _ (heartbeat_inv h hr) y hy with h1 | h1
    · rcases served_after c r h hr with e | e
      · rw [e] at h1; exact Or.inl h1
      · rw [e] at h1
        rcases mem_put.1 h1 with e' | ⟨h2, _, _⟩
        · exact Or.inr (by simp [e'])
        · exact Or.inl h2
    · exact Or.inr (by simp [h1])

/-- **legitimate histories never regress – partial.**  In a legitimate history the epoch of one region id only
    grows (split/merge: version+1, conf change: conf-version+1, leader change: term+1), so if the heartbeats
    of each region id are delivered in the order in which they were produced – arbitrary interleaving between
    different ids, duplicates, arbitrary delays that do not reorder one id (this is the hypothesis `hord`) –
    the epoch PD serves for an id never goes back, even across a displacement of that id.
    Without `hord` the statement is false on the pinned code: `legit_history_regress_counterexample`. -/
theorem legit_history_never_regresses_partial (l1 l2 : List Region) (hwf : ∀ r ∈ l1 ++ l2, WF r)
    (hord : ∀ a ∈ l1, ∀ b ∈ l2, a.id = b.id → C06.NotBehind a b)
    (id : Nat) (o n : Region)
    (ho : getRegionC (run {} l1) id = some o) (hn : getRegionC (run {} (l1 ++ l2)) id = some n) :
    C06.NotBehind o n := by
  have hwf1 : ∀ r ∈ l1, WF r := fun r hr => hwf r (by simp [hr])
  have hwf2 : ∀ r ∈ l2, WF r := fun r hr => hwf r (by simp [hr])
  have hinv1 := run_inv l1 hwf1 {} inv_init
  have hinv2 := run_inv l2 hwf2 _ hinv1
  unfold getRegionC at ho hn
  rw [run_append] at hn
  rw [getRegion_eq hinv1] at ho
  rw [getRegion_eq hinv2] at hn
  obtain ⟨ho1, ho2⟩ := (get_some_iff hinv1).1 ho
  obtain ⟨hn1, hn2⟩ := (get_some_iff hinv2).1 hn
  have ho3 : o ∈ l1 := by
    rcases served_subset_delivered l1 hwf1 {} inv_init o ho1 with h' | h'
    · simp [abs] at h'
    · exact h'
  rcases served_subset_delivered l2 hwf2 _ hinv1 n hn1 with h' | h'
  · rw [abs_id_unique hinv1 h' ho1 (by rw [hn2, ho2])]; exact notBehind_refl _
  · exact hord o ho3 n h' (by rw [ho2, hn2])

/-- the same, with the hypothesis discharged for the TiKV simulator: take any legitimate history (`TikvSim`,
    ids unique and below the allocator's counter at the start) and deliver, for every region id, that id's
    heartbeats in the order in which they were produced (`TikvSim.Delivered` of the id's sub-stream; the streams
    of different ids may be interleaved arbitrarily, heartbeats may be repeated and delayed).  Then what PD
    serves for an id never goes back. -/
theorem legit_inorder_never_regresses (sim : TikvSim.Sim) (es : List TikvSim.Ev) (hg : TikvSim.Good sim)
    (l1 l2 : List Region) (hwf : ∀ r ∈ l1 ++ l2, WF r)
    (hdel : ∀ id, TikvSim.Delivered sim es ((l1 ++ l2).filter (fun r => r.id = id)))
    (id : Nat) (o n : Region)
    (ho : getRegionC (run {} l1) id = some o) (hn : getRegionC (run {} (l1 ++ l2)) id = some n) :
    C06.NotBehind o n := by
  apply legit_history_never_regresses_partial l1 l2 hwf _ id o n ho hn
  intro a ha b hb e
  have hp := TikvSim.delivered_ordered (hdel a.id) hg
  rw [List.filter_append, List.pairwise_append] at hp
  have ha' : a ∈ l1.filter (fun r => decide (r.id = a.id)) := List.mem_filter.2 ⟨ha, by simp⟩
  have hb' : b ∈ l2.filter (fun r => decide (r.id = a.id)) := List.mem_filter.2 ⟨hb, by simp [e]⟩
  exact (hp.2.2 a ha' b hb' e).notBehind

/-! The pinned code does regress for legitimate histories whose heartbeats are reordered (finding F18).
    The witness: region 1 = [_,_) splits at 05 (2 = [05,_)); conf change on 1; 1 splits at 03 (3 = [03,05));
    3 is merged into 2 (2 = [03,_)); 2 splits at 05 (4 = [05,_)).  Delivered: 1 after the first split (h1),
    1 after the conf change (h2), 3, 2 after the merge, 4, and then h1 once more (a delayed duplicate). -/
namespace F18
open PdModel.TikvSim

def boot : Region :=
  { id := 1, startKey := [], endKey := [], version := 1, confVer := 1, term := 5, leader := 1, size := 20,
    peers := [⟨1, 1, false⟩, ⟨2, 2, false⟩, ⟨3, 3, false⟩] }

def events : List Ev :=
  [ .split 1 [5] [⟨4, 1, false⟩, ⟨5, 2, false⟩, ⟨6, 3, false⟩] 4 false,
    .confChange 1 [⟨1, 1, false⟩, ⟨2, 2, false⟩, ⟨3, 3, false⟩, ⟨7, 4, true⟩],
    .split 1 [3] [⟨8, 1, false⟩, ⟨9, 2, false⟩, ⟨10, 3, false⟩, ⟨11, 4, true⟩] 8 false,
    .merge 3 2,
    .split 2 [5] [⟨12, 1, false⟩, ⟨13, 2, false⟩, ⟨14, 3, false⟩] 12 false ]

def h1 : Region := { boot with endKey := [5], version := 2 }
def h2 : Region := { h1 with confVer := 2, peers := [⟨1, 1, false⟩, ⟨2, 2, false⟩, ⟨3, 3, false⟩, ⟨7, 4, true⟩] }
def h3 : Region :=
  { h2 with id := 3, startKey := [3], version := 3, term := 5, leader := 8,
            peers := [⟨8, 1, false⟩, ⟨9, 2, false⟩, ⟨10, 3, false⟩, ⟨11, 4, true⟩] }
def h4 : Region :=
  { boot with id := 2, startKey := [3], endKey := [], version := 4, leader := 4, size := 40,
              peers := [⟨4, 1, false⟩, ⟨5, 2, false⟩, ⟨6, 3, false⟩] }
def h5 : Region :=
  { h4 with id := 4, startKey := [5], version := 5, leader := 12,
            peers := [⟨12, 1, false⟩, ⟨13, 2, false⟩, ⟨14, 3, false⟩] }

def delivered : List Region := [h1, h2, h3, h4, h5, h1]

end F18

/-- **counterexample (F18)**: every delivered heartbeat is well-formed and is a state of some region in a
    legitimate history; region 1 is served with conf-version 2 and later – after it was displaced and its
    key range became uncovered – with conf-version 1. -/
theorem legit_history_regress_counterexample :
    (∀ hb ∈ F18.delivered, WF hb ∧ TikvSim.Reportable ⟨[F18.boot], 2⟩ F18.events hb) ∧
    getRegionC (run {} (F18.delivered.take 2)) 1 = some F18.h2 ∧
    getRegionC (run {} (F18.delivered.take 5)) 1 = none ∧
    getRegionC (run {} F18.delivered) 1 = some F18.h1 ∧
    ¬ C06.NotBehind F18.h2 F18.h1 := by decide

/-- structure obligations extracted from the Go source on every run: the re-check and PutRegion are inside
    one `c.Lock()` … `c.Unlock()` section of processRegionHeartbeat, the cache is updated before the storage
    deletes, the deletes come before the save, BasicCluster.PutRegion / getRelevantRegions hold the
    BasicCluster lock for their whole body -/
theorem heartbeat_sections :
    PdModel.Generated.RegionCache.recheckAndPutIsOneSection = true ∧
    PdModel.Generated.RegionCache.cacheBeforeStorageDelete = true ∧
    PdModel.Generated.RegionCache.deleteBeforeSave = true ∧
    PdModel.Generated.RegionCache.putRegionIsOneSection = true ∧
    PdModel.Generated.RegionCache.relevantRegionsIsOneSection = true := by decide

/-- structure obligation for "answered with an error": in `Server.RegionHeartbeat` the stream a request came on is
    bound to its store (`hbStreams.BindStream`) before the request is handled and before any `SendErr`, so the error
    answer of a refused heartbeat – also the first message of a new stream – goes back on that stream -/
theorem error_answer_goes_to_the_sender :
    PdModel.Generated.RegionCache.bindStreamBeforeSendErr = true ∧
    PdModel.Generated.RegionCache.bindStreamBeforeHandle = true := by decide

end PdModel.RegionCache
