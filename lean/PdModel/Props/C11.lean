import PdModel.Model.Scatter
import PdModel.Lemmas.Scatter
import PdModel.Lemmas.CheckersSites
import PdModel.Spec.C11
import PdModel.Generated.Scatter
set_option linter.unusedSimpArgs false
set_option linter.unusedVariables false
/-!
C11 – property theorems.

Region scatter (`plan true` = the repaired `scatterRegion`): for every history of the counters, every
store order, every Go map iteration order of the peer loops and of the leader loop, every verdict of the
placement safeguard and every cluster.  Well-formedness assumed: one peer per store in the region; the
iteration orders visit every peer exactly once.
Schedulers: one theorem per kind of call site, instantiated by the list of call sites and guarding
filters extracted from the source (`scheduler_sites_guarded`).
-/
namespace PdModel.Scatter
open PdModel.Spec.C10 PdModel.Filters PdModel.Spec

/-! ### region scatter -/

/-- the iteration orders visit every peer of the region exactly once -/
def OrdersOK (r : Region) (ch : Choices) : Prop :=
  (ch.order.filterMap r.storePeer ++ ch.sorder.filterMap r.storePeer).Perm r.peers

theorem plan_inv (o : Opts) (stores : List Store) (s : State) (r : Region) (group : String) (ch : Choices)
    (hr : r.stores.Nodup) (hord : OrdersOK r ch) :
    let q := (plan true o stores s r group ch).1
    Inv r q.targets (scatterGroup true o (ch.storeOrder.filterMap (findStore stores)) r group
        ((if (ch.sorder.filterMap r.storePeer).isEmpty then s else { s with tiflash := some (s.tiflash.getD {}) }).tiflash.getD {})
        true ch.guard (ch.sorder.filterMap r.storePeer)
        (scatterGroup true o (ch.storeOrder.filterMap (findStore stores)) r group s.ordinary false ch.guard
          (ch.order.filterMap r.storePeer) ([], []))).2 [] ∧
    q.targets.map (·.2.role) = (ch.order.filterMap r.storePeer ++ ch.sorder.filterMap r.storePeer).map (·.role) ∧
    (∀ e ∈ q.targets, EntryOK o (ch.storeOrder.filterMap (findStore stores)) r e) := by
  intro q
  have hnd : ((ch.order.filterMap r.storePeer ++ ch.sorder.filterMap r.storePeer).map (fun p : Peer => p.store)).Nodup :=
    ((hord.map _).nodup_iff).2 hr
  have hsub : ∀ p ∈ ch.order.filterMap r.storePeer ++ ch.sorder.filterMap r.storePeer, p ∈ r.peers :=
    fun p hp => hord.subset hp
  have inv0 : Inv r [] [] (ch.order.filterMap r.storePeer ++ ch.sorder.filterMap r.storePeer) :=
    ⟨by simp, by simp, by simp, by simp⟩
  obtain ⟨i1, r1, k1⟩ := scatterGroup_inv o (ch.storeOrder.filterMap (findStore stores)) r group s.ordinary false
    ch.guard (ch.order.filterMap r.storePeer) (ch.sorder.filterMap r.storePeer) [] [] hnd hsub inv0 (by simp)
  have hnd2 : ((ch.sorder.filterMap r.storePeer ++ []).map (fun p : Peer => p.store)).Nodup := by
    rw [List.map_append, List.nodup_append] at hnd
    simpa using hnd.2.1
  have hsub2 : ∀ p ∈ ch.sorder.filterMap r.storePeer ++ [], p ∈ r.peers :=
    fun p hp => hsub p (by rw [List.append_nil] at hp; exact List.mem_append_right _ hp)
  obtain ⟨i2, r2, k2⟩ := scatterGroup_inv o (ch.storeOrder.filterMap (findStore stores)) r group
    ((if (ch.sorder.filterMap r.storePeer).isEmpty then s else { s with tiflash := some (s.tiflash.getD {}) }).tiflash.getD {})
    true ch.guard (ch.sorder.filterMap r.storePeer) [] _ _ hnd2 hsub2 (by simpa using i1) k1
  refine ⟨i2, ?_, k2⟩
  show (scatterGroup _ _ _ _ _ _ _ _ _ _).1.map _ = _
  rw [r2, r1]; simp

/-- **scatter_preserves_counts.**  The placement region scatter asks for has exactly one entry per
    peer of the region, on pairwise different stores, with the same roles: the same number of peers of
    each role, at most one per store. -/
theorem scatter_preserves_counts (o : Opts) (stores : List Store) (s : State) (r : Region) (group : String)
    (ch : Choices) (hr : r.stores.Nodup) (hord : OrdersOK r ch) :
    let q := (plan true o stores s r group ch).1
    (q.targets.map (·.1)).Nodup ∧ (∀ e ∈ q.targets, e.2.store = e.1) ∧
    (q.targets.map (·.2.role)).Perm (r.peers.map (·.role)) ∧
    (q.targets.filter (fun e => !e.2.isLearner)).length = r.voters.length ∧
    (q.targets.filter (fun e => e.2.isLearner)).length = r.learners.length := by
  intro q
  obtain ⟨inv, hroles, _⟩ := plan_inv o stores s r group ch hr hord
  have hperm : (q.targets.map (·.2.role)).Perm (r.peers.map (·.role)) := by
    rw [hroles]; exact hord.map _
  have hcount : ∀ k : Nat, ((q.targets.map (·.2.role)).filter (· == k)).length = ((r.peers.map (·.role)).filter (· == k)).length :=
    fun k => (hperm.filter _).length_eq
  refine ⟨inv.nodup, inv.keyed, hperm, ?_, ?_⟩
  · have h1 : ∀ l : List Nat, (l.filter (fun x => !(x == 1))).length + (l.filter (· == 1)).length = l.length := by
      intro l; induction l with
      | nil => rfl
      | cons a t ih => by_cases h : a = 1 <;> simp [List.filter_cons, h] <;> omega
    have ha := h1 (q.targets.map (·.2.role))
    have hb := h1 (r.peers.map (·.role))
    have hl := hperm.length_eq
    have hk := hcount 1
    simp only [List.filter_map, List.length_map, Function.comp_def] at ha hb hk hl
    simp only [Region.voters, Peer.isLearner]
    omega
  · have hk := hcount 1
    simp only [List.filter_map, List.length_map, Function.comp_def] at hk
    simpa [Region.learners, Peer.isLearner] using hk

/-- **scatter_targets_good.**  Every entry of the requested placement is a peer that stays where it is,
    or a new peer on a store that holds no peer of the region and is up, not down, connected and not
    busy (the scatter state filter, read off the extracted condition table). -/
theorem scatter_targets_good (o : Opts) (stores : List Store) (s : State) (r : Region) (group : String)
    (ch : Choices) (hr : r.stores.Nodup) (hord : OrdersOK r ch) :
    ∀ e ∈ (plan true o stores s r group ch).1.targets,
      e.2 ∈ r.peers ∨
      (e.1 ∉ r.stores ∧ ∃ st ∈ stores, st.id = e.1 ∧ st.state = 0 ∧ st.downSecs < o.conf.maxDownSecs ∧
        st.downSecs < o.conf.disconnectSecs ∧ st.busy = false) := by
  intro e he
  obtain ⟨_, _, hok⟩ := plan_inv o stores s r group ch hr hord
  rcases hok e he with h | ⟨hout, _, st, hst, hid, hssf⟩
  · exact Or.inl h
  · right
    refine ⟨hout, st, ?_, hid, ?_⟩
    · simp only [List.mem_filterMap] at hst
      obtain ⟨i, _, hf⟩ := hst
      exact (PdModel.Checkers.findStore_id hf).2
    · simp [scatterSSF, SSF.target, anyCond, PdModel.Generated.Checkers.condTable, condHolds] at hssf
      obtain ⟨h0, h2, h1, h4, h5⟩ := hssf
      exact ⟨by omega, by omega, by omega, h5⟩

/-- **scatter_leader_ok.**  When an operator is built, the requested leader is a voter of the requested
    placement. -/
theorem scatter_leader_voter (r : Region) (q : Request) (h : requestValid r q = true) :
    ∃ e ∈ q.targets, e.1 = q.leader ∧ e.2.isLearner = false := by
  unfold requestValid at h
  simp only [Bool.and_eq_true] at h
  obtain ⟨h1, _⟩ := h
  split at h1
  · next e he =>
    refine ⟨e, List.mem_of_find?_eq_some he, ?_, by simpa using h1⟩
    simpa using List.find?_some he
  · cases h1

/-! The defect F4 on the unrepaired code (`excludeOthers = false`): stores 1, 2, 3 hold the region,
    stores 3 and 4 are offline.  The peer on the offline store 3 is visited first and is sent to store 1
    (which still holds a peer); the peer on store 1 then goes to store 2 (which still holds a peer); the
    peer on store 2 finds no candidate and stays – its entry overwrites the one of the peer that was
    sent there: the request has two entries for three peers and the operator only removes a replica. -/
def f4Stores : List Store :=
  [{ id := 1 }, { id := 2 }, { id := 3, state := 1 }, { id := 4, state := 1 }]

def f4Region : Region :=
  { peers := [{ id := 101, store := 1 }, { id := 102, store := 2 }, { id := 103, store := 3 }], leader := 101 }

def f4Choices : Choices :=
  { storeOrder := [1, 2, 3, 4], guard := fun _ _ => true, order := [3, 1, 2], sorder := [], lorder := [1, 2] }

/-- on the pinned code two peers are sent to one store and the request forgets a replica … -/
theorem scatter_counterexample :
    ((plan false {} f4Stores {} f4Region "g" f4Choices).1.targets.map (·.1)) = [1, 2] := by decide

/-- … which the repaired code does not do on the same input -/
example : ((plan true {} f4Stores {} f4Region "g" f4Choices).1.targets.map (·.1)).length = 3 := by decide

/-! The defect F24 (open): `selectAvailableLeaderStores` looks at the leader counters only – not at the
    store state, the pause flag or the reject-leader property – and the forced target leader gets past the
    builder's own check.  Witness: nobody can move (every store holds a peer), store 3 does not take leaders
    and is visited first by the leader loop. -/
def f24Stores : List Store := [{ id := 1 }, { id := 2 }, { id := 3, pauseLeader := true }]

def f24Choices : Choices :=
  { storeOrder := [1, 2, 3], guard := fun _ _ => true, order := [1, 2, 3], sorder := [], lorder := [3, 1, 2] }

/-- region scatter asks for – and, forced, gets – a leader on a store that does not accept leaders -/
theorem scatter_leader_counterexample :
    requestValid f4Region (plan true {} f24Stores {} f4Region "g" f24Choices).1 = true ∧
    (plan true {} f24Stores {} f4Region "g" f24Choices).1.leader = 3 ∧
    C11.acceptsLeader { conf := {}, stores := f24Stores, region := f4Region } 3 = false := by decide

/-- non-vacuity: the hypotheses of the scatter theorems hold on the witness (one peer per store, the
    visiting order is a permutation of the peers) -/
example : f4Region.stores.Nodup ∧ OrdersOK f4Region f4Choices := by
  constructor
  · decide
  · unfold OrdersOK; decide

/-! ### schedulers: one theorem per kind of call site -/

theorem count_split (P : Peer → Bool) (l : List Peer) (old : Nat) (p0 : Peer)
    (hnd : (l.map (·.store)).Nodup) (hp : p0 ∈ l) (hs : p0.store = old) :
    (l.filter P).length = ((l.filter (fun p => p.store != old)).filter P).length + (if P p0 then 1 else 0) := by
  induction l with
  | nil => cases hp
  | cons a t ih =>
    simp only [List.map_cons, List.nodup_cons] at hnd
    rcases List.mem_cons.1 hp with rfl | hp'
    · have hrest : t.filter (fun p => p.store != old) = t := by
        apply List.filter_eq_self.2
        intro p hpm
        have : p.store ≠ p0.store := fun he => hnd.1 (List.mem_map.2 ⟨p, hpm, he⟩)
        simpa [hs] using this
      simp only [List.filter_cons, hs, bne_self_eq_false, Bool.false_eq_true, if_false, hrest]
      split <;> simp
    · have hne : a.store ≠ old := by
        intro he; exact hnd.1 (List.mem_map.2 ⟨p0, hp', by rw [hs, he]⟩)
      have := ih hnd.2 hp'
      have hb : (a.store != old) = true := by simpa using hne
      simp only [List.filter_cons, hb, if_true]
      split <;> simp [this] <;> omega

/-- **move_peer_preserves / source_ne_target (peers).**  Replacing the peer on `old` by a new peer of
    the same role on a store that passed `ExcludedFilter(region stores)` and the *strict*
    `StoreState{MoveRegion}` (no `AllowTemporaryStates`: the target is also connected)
    – the filters present at every move-peer call site – satisfies C11. -/
theorem move_peer_preserves (x : C11.Input) (o : Opts) (old : Nat) (p0 : Peer) (t : Store)
    (hconf : x.conf = o.conf) (hnd : (x.stores.map (·.id)).Nodup) (hrn : x.region.stores.Nodup)
    (hp0 : p0 ∈ x.region.peers) (hold : p0.store = old) (hm : t ∈ x.stores)
    (hex : excludedTarget x.region.stores t = true)
    (hssf : ({ moveRegion := true } : SSF).target o t = true) :
    C11.Holds x [.add t.id (if p0.isLearner then 1 else 0), .remove old] := by
  obtain ⟨h0, h1, h2, _⟩ := PdModel.Checkers.regionTarget_strict o t hssf
  have hout : t.id ∉ x.region.stores := by simpa [excludedTarget] using hex
  have holdm : old ∈ x.region.stores := hold ▸ List.mem_map.2 ⟨p0, hp0, rfl⟩
  have hne : t.id ≠ old := fun he => hout (he ▸ holdm)
  have hno : (t.id != old) = true := by simpa using hne
  have e1 : applySteps x.region [.add t.id (if p0.isLearner then 1 else 0), .remove old]
      = applyStep (applyStep x.region (.add t.id (if p0.isLearner then 1 else 0))) (.remove old) := rfl
  have hpeers : (applySteps x.region [.add t.id (if p0.isLearner then 1 else 0), .remove old]).peers
      = x.region.peers.filter (fun p => p.store != old) ++ [x.region.newPeer t.id (if p0.isLearner then 1 else 0)] := by
    rw [e1, PdModel.Checkers.peers_remove, PdModel.Checkers.peers_add]
    simp [List.filter_append, Region.newPeer, hno]
  refine ⟨?_, ?_, ?_, ?_, ?_⟩
  · have := count_split (fun p => !p.isLearner) x.region.peers old p0 hrn hp0 hold
    simp only [Region.voters, hpeers, List.filter_append, List.length_append]
    rw [this]
    cases hl : p0.isLearner <;> simp [Region.newPeer, Peer.isLearner, hl]
  · have := count_split (fun p => p.isLearner) x.region.peers old p0 hrn hp0 hold
    simp only [Region.learners, hpeers, List.filter_append, List.length_append]
    rw [this]
    cases hl : p0.isLearner <;> simp [Region.newPeer, Peer.isLearner, hl]
  · intro _
    simp only [Region.stores, hpeers, List.map_append, List.map_cons, List.map_nil]
    rw [List.nodup_append]
    refine ⟨(List.filter_sublist.map _).nodup hrn, by simp, ?_⟩
    intro a ha b hb
    simp [Region.newPeer] at hb; subst hb
    intro he; subst he
    obtain ⟨p, hp, hps⟩ := List.mem_map.1 ha
    exact hout (hps ▸ List.mem_map.2 ⟨p, (List.mem_filter.1 hp).1, rfl⟩)
  · intro t' ht'
    simp only [addedStores, List.filterMap_cons, List.filterMap_nil, List.mem_singleton] at ht'
    subst ht'
    refine ⟨?_, by simpa using hout, by simpa [removedStores] using hne⟩
    simp [C11.upStore, PdModel.Checkers.findStore_of_mem hnd hm, Store.isUp, Store.notDown, Store.connected, h0, hconf, h1, h2]
  · simp [C11.transfersOK]

/-- **transfer_leader_to_voter / source_ne_target (leaders).**  Handing the leadership to the voter on a
    store other than the leader's that passed `StoreState{TransferLeader}` – the filter at every
    unforced transfer-leader call site – satisfies C11. -/
theorem transfer_leader_to_voter (x : C11.Input) (o : Opts) (p : Peer) (t : Store)
    (hconf : x.conf = o.conf) (hrej : x.rejectLeader = o.rejectLeader) (hforced : x.forced = false)
    (hnd : (x.stores.map (·.id)).Nodup) (hm : t ∈ x.stores)
    (hp : x.region.storePeer t.id = some p) (hvoter : p.isLearner = false) (hne : x.region.leaderStore ≠ t.id)
    (hssf : ({ transferLeader := true } : SSF).target o t = true) :
    C11.Holds x [.transfer t.id] := by
  have e : applySteps x.region [.transfer t.id] = applyStep x.region (.transfer t.id) := rfl
  obtain ⟨c1, c2, c3⟩ := PdModel.Checkers.same_counts_transfer x.region t.id
  simp [SSF.target, anyCond, PdModel.Generated.Checkers.condTable, condHolds] at hssf
  obtain ⟨h0, h2, h1, h3, h4, h5, h10⟩ := hssf
  refine ⟨?_, ?_, ?_, ?_, ?_⟩
  · simp [Region.voters, e, c1]
  · simp [Region.learners, e, c1]
  · intro h; rw [e, c3]; exact h
  · intro t' ht'; simp [addedStores] at ht'
  · simp only [C11.transfersOK, C11.transferOK, hp, hvoter, Bool.not_false, Bool.true_and, Bool.and_true,
      Bool.and_eq_true, bne_iff_ne, ne_eq]
    refine ⟨?_, hne⟩
    simp only [C11.acceptsLeader, PdModel.Checkers.findStore_of_mem hnd hm, hforced, Bool.false_eq_true, if_false,
      Store.isUp, Store.notDown, hconf, hrej, Bool.and_eq_true, beq_iff_eq, decide_eq_true_eq, Bool.not_eq_true']
    refine ⟨⟨⟨by omega, by omega⟩, h3⟩, ?_⟩
    simp only [List.any_eq_false]
    intro kv hkv; simpa using h10 kv.1 kv.2 hkv

/-- the forced variant (grant-leader only): the target is the follower on the store the administrator
    configured; it is accepted as soon as that store exists and is no tombstone -/
theorem forced_transfer_ok (x : C11.Input) (p : Peer) (t : Store) (hforced : x.forced = true)
    (hnd : (x.stores.map (·.id)).Nodup) (hm : t ∈ x.stores) (hst : t.state < 2)
    (hp : x.region.storePeer t.id = some p) (hvoter : p.isLearner = false) (hne : x.region.leaderStore ≠ t.id) :
    C11.Holds x [.transfer t.id] := by
  have e : applySteps x.region [.transfer t.id] = applyStep x.region (.transfer t.id) := rfl
  obtain ⟨c1, c2, c3⟩ := PdModel.Checkers.same_counts_transfer x.region t.id
  refine ⟨?_, ?_, ?_, ?_, ?_⟩
  · simp [Region.voters, e, c1]
  · simp [Region.learners, e, c1]
  · intro h; rw [e, c3]; exact h
  · intro t' ht'; simp [addedStores] at ht'
  · simp [C11.transfersOK, C11.transferOK, hp, hvoter, C11.acceptsLeader,
      PdModel.Checkers.findStore_of_mem hnd hm, hforced, hst, hne]

/-! ### the extracted call sites -/

def movePeerCreators : List String := ["CreateMovePeerOperator", "CreateMoveLeaderOperator"]

/-- every scheduler call site that moves a peer has `ExcludedFilter(region stores)` and
    `StoreState{MoveRegion}` in front of its target (hypotheses of `move_peer_preserves`); every unforced
    transfer-leader site has `StoreState{TransferLeader}` (`transfer_leader_to_voter`); grant-leader is the
    only forced one; region scatter carries the F4 repair; and the sites are exactly these -/
theorem scheduler_sites_guarded :
    (PdModel.Generated.Scatter.schedulerSites.all (fun cs =>
      (!(movePeerCreators.contains cs.2.1) ||
        (cs.2.2.contains "ExcludedFilter(regionStores)" && cs.2.2.contains "StoreState{MoveRegion}")) &&
      (!(cs.2.1 == "CreateTransferLeaderOperator") || cs.2.2.contains "StoreState{TransferLeader}") &&
      (!(cs.2.1 == "CreateForceTransferLeaderOperator") ||
        cs.1 == "server/schedulers/grant_leader.go:grantLeaderScheduler.Schedule") &&
      (!(cs.2.1 == "CreateScatterRegionOperator") ||
        (cs.2.2.contains "ExcludedFilter(selectedStores)" && cs.2.2.contains "ExcludedFilter(otherStores)" &&
         cs.2.2.contains "StoreState{MoveRegion,ScatterRegion}")))) = true ∧
    PdModel.Generated.Scatter.schedulerSites.map (fun cs => (cs.1, cs.2.1)) =
      [("server/schedule/region_scatterer.go:RegionScatterer.scatterRegion", "CreateScatterRegionOperator"),
       ("server/schedule/region_splitter.go:splitRegionsHandler.SplitRegionByKeys", "CreateSplitRegionOperator"),
       ("server/schedulers/balance_leader.go:balanceLeaderScheduler.createOperator", "CreateTransferLeaderOperator"),
       ("server/schedulers/balance_region.go:balanceRegionScheduler.transferPeer", "CreateMovePeerOperator"),
       ("server/schedulers/evict_leader.go:evictLeaderScheduler.scheduleOnce", "CreateTransferLeaderOperator"),
       ("server/schedulers/grant_leader.go:grantLeaderScheduler.Schedule", "CreateForceTransferLeaderOperator"),
       ("server/schedulers/hot_region.go:balanceSolver.buildOperator", "CreateMoveLeaderOperator"),
       ("server/schedulers/hot_region.go:balanceSolver.buildOperator", "CreateMovePeerOperator"),
       ("server/schedulers/hot_region.go:balanceSolver.buildOperator", "CreateTransferLeaderOperator"),
       ("server/schedulers/label.go:labelScheduler.Schedule", "CreateTransferLeaderOperator"),
       ("server/schedulers/random_merge.go:randomMergeScheduler.Schedule", "CreateMergeRegionOperator"),
       ("server/schedulers/shuffle_hot_region.go:shuffleHotRegionScheduler.randomSchedule", "CreateMoveLeaderOperator"),
       ("server/schedulers/shuffle_leader.go:shuffleLeaderScheduler.Schedule", "CreateTransferLeaderOperator"),
       ("server/schedulers/shuffle_region.go:shuffleRegionScheduler.Schedule", "CreateMovePeerOperator")] := by
  decide

/-- the set excluded by the F4 repair is built from *all* peers of the region (`region.GetPeers()`),
    as `candidates` models it – not only from the voters -/
theorem scatter_excludes_every_other_peer :
    PdModel.Generated.Scatter.scatterExcludesEveryOtherPeer = true := by decide

end PdModel.Scatter
