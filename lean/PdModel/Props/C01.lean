import PdModel.Model.Tso
import PdModel.Lemmas.Tso
import PdModel.Lemmas.TsoObs
import PdModel.Props.C02
import PdModel.Spec.C01
import PdModel.Generated.Tso
set_option linter.unusedSimpArgs false
set_option linter.unusedVariables false
/-!
C01 – property theorems (single allocator; the global allocator with dc-locations is C05).
Quantifiers as in C02.  The order of the history is the lock order of `generateTSO`, which extends
real time; the theorem shows the granted ranges strictly increase along it.
-/
namespace PdModel.Tso
open PdModel.Spec

/-- the grant observed at position `i` of the history (start = finish = i: steps are atomic) -/
def evOf (bits : Nat) (i : Nat) (op : Op) (o : Out) : Option C01.Ev :=
  match op, o with
  | .getTS _ count, .ts ms l => some ⟨i, i, ms, l / 2 ^ bits - count, l / 2 ^ bits, l⟩
  | .tryTS _ count, .ts ms l => some ⟨i, i, ms, l / 2 ^ bits - count, l / 2 ^ bits, l⟩
  | _, _ => none

def events : Nat → St → List Op → List C01.Ev
  | _, _, [] => []
  | i, s, op :: ops => (evOf s.cfg.bits i op (step s op).2).toList ++ events (i + 1) (step s op).1 ops

def grantEv (c : Cfg) (g : Grant) : Nat × Nat × Nat × Nat := (g.ms, g.lo, g.hi, g.hi * 2 ^ c.bits + c.suffix)
def evKey (e : C01.Ev) : Nat × Nat × Nat × Nat := (e.ms, e.lo, e.hi, e.ret)

theorem undiff (c : Cfg) (h : c.suffix < 2 ^ c.bits) (l : Nat) : (l * 2 ^ c.bits + c.suffix) / 2 ^ c.bits = l := by
  have hpos : 0 < 2 ^ c.bits := Nat.pos_of_ne_zero (by intro h0; rw [h0] at h; omega)
  rw [Nat.mul_comm, Nat.mul_add_div hpos, Nat.div_eq_of_lt h]; rfl

/-- the observed grants are exactly the ghost log -/
theorem events_eq_grants (i : Nat) (s : St) (hsfx : s.cfg.suffix < 2 ^ s.cfg.bits) (ops : List Op) :
    ((run s ops).grants.map (grantEv s.cfg)).reverse
      = (s.grants.map (grantEv s.cfg)).reverse ++ (events i s ops).map evKey := by
  induction ops generalizing i s with
  | nil => simp [run, events]
  | cons op ops ih =>
    simp only [run, List.foldl_cons, events, List.map_append]
    have hcfg := step_cfg s op
    have := ih (i + 1) (step s op).1 (by rw [hcfg]; exact hsfx)
    simp only [run] at this
    rw [hcfg] at this
    rw [this]
    rcases step_obs s op with ⟨m, count, p, l, hop, hout, hgr, hcl, _, _⟩ | ⟨hnot, hgr⟩
    · rw [hgr, hout]
      rcases hop with rfl | rfl
      all_goals
        simp only [evOf, undiff s.cfg hsfx l, Option.toList_some, List.map_cons, List.map_nil,
          List.reverse_cons, List.append_assoc, List.singleton_append]
        congr 1
    · rw [hgr]
      have : evOf s.cfg.bits i op (step s op).2 = none := by
        unfold evOf
        generalize (step s op).2 = o at hnot
        cases o <;> simp_all [Out.isTs]
        all_goals (cases op <;> rfl)
      rw [this]; simp

theorem events_index (i : Nat) (s : St) (ops : List Op) :
    ∀ e ∈ events i s ops, e.start = e.finish ∧ i ≤ e.start := by
  induction ops generalizing i s with
  | nil => intro e he; cases he
  | cons op ops ih =>
    have h2 := ih (i + 1) (step s op).1
    intro e he
    simp only [events, List.mem_append] at he
    rcases he with he | he
    · unfold evOf at he
      split at he
      · simp only [Option.toList_some, List.mem_singleton] at he; subst he; exact ⟨rfl, Nat.le_refl _⟩
      · simp only [Option.toList_some, List.mem_singleton] at he; subst he; exact ⟨rfl, Nat.le_refl _⟩
      · simp at he
    · have := h2 e he; exact ⟨this.1, by omega⟩

theorem events_sorted (i : Nat) (s : St) (ops : List Op) :
    (events i s ops).Pairwise (fun a b => a.start < b.start) := by
  induction ops generalizing i s with
  | nil => exact List.Pairwise.nil
  | cons op ops ih =>
    simp only [events]
    rw [List.pairwise_append]
    refine ⟨?_, ih (i + 1) _, ?_⟩
    · cases evOf s.cfg.bits i op (step s op).2 <;> simp
    · intro a ha b hb
      have hb' := events_index (i + 1) (step s op).1 ops b hb
      unfold evOf at ha
      split at ha
      · simp only [Option.toList_some, List.mem_singleton] at ha; subst ha; simp only; omega
      · simp only [Option.toList_some, List.mem_singleton] at ha; subst ha; simp only; omega
      · simp at ha

/-- **C01 (one allocator: the global allocator without dc-locations, or one local allocator with its
    suffix).**  For every history: the granted ranges are pairwise disjoint, strictly increase along the
    history (hence in real-time order: a request that completed before another began comes earlier), and
    the logical part *as returned* (raw value shifted by the suffix bits, plus the suffix) fits 18 bits. -/
theorem C01_holds (c : Cfg) (hc : CfgOk c) (hml : c.maxLogical = 2 ^ 18) (ops : List Op)
    (hf : ∀ op ∈ ops, op.faithful) : C01.Holds 18 (events 0 (init c) ops) := by
  obtain ⟨hinv, hcfg⟩ := inv_run c hc ops hf
  have heq := events_eq_grants 0 (init c) hc.sfx_lt ops
  simp only [init, List.map_nil, List.reverse_nil, List.nil_append] at heq
  have heq' : (events 0 (init c) ops).map evKey = ((run (init c) ops).grants.map (grantEv c)).reverse := by
    simp only [init]; exact heq.symm
  have hkeys : ∀ e ∈ events 0 (init c) ops, ∃ g ∈ (run (init c) ops).grants, grantEv c g = evKey e := by
    intro e he
    have : evKey e ∈ (events 0 (init c) ops).map evKey := List.mem_map_of_mem he
    rw [heq'] at this
    simp only [List.mem_reverse, List.mem_map] at this
    exact this
  apply C01.holds_of_linearisation
  · have ho := hinv.gr.o
    have hrev : (((run (init c) ops).grants.map (grantEv c)).reverse).Pairwise
        (fun a b => a.1 < b.1 ∨ (a.1 = b.1 ∧ a.2.2.1 ≤ b.2.1)) := by
      rw [List.pairwise_reverse, List.pairwise_map]
      exact ho.imp (fun h => by simpa [grantEv] using h)
    rw [← heq', List.pairwise_map] at hrev
    exact hrev.imp (fun h => by simpa [evKey, C01.valuesLt] using h)
  · apply List.Pairwise.imp_of_mem _ (events_sorted 0 (init c) ops)
    intro a b ha hb hab
    have h1 := (events_index 0 (init c) ops b hb).1
    omega
  · intro e he
    obtain ⟨g, hg, hk⟩ := hkeys e he
    obtain ⟨h1, h2, _, _⟩ := hinv.gr.g g hg
    have hse := (events_index 0 (init c) ops e he).1
    simp only [grantEv, evKey, Prod.mk.injEq] at hk
    refine ⟨by omega, ?_, by omega⟩
    rw [hcfg, hml] at h2; omega

/-- the configuration with the constants extracted from the Go source; the save interval, the reset gap
    and the suffix assignment are run-time configuration -/
def extractedCfg (si gapMs bits suffix : Nat) : Cfg where
  guard := PdModel.Generated.Tso.updateTimestampGuard
  saveInterval := si
  maxLogical := PdModel.Generated.Tso.maxLogical
  maxResetGapMs := gapMs
  maxRetry := PdModel.Generated.Tso.maxRetryCount
  bits := bits
  suffix := suffix

theorem extractedCfg_ok (si gapMs bits suffix : Nat) (hsi : PdModel.Generated.Tso.updateTimestampGuard < si)
    (hsfx : suffix < 2 ^ bits) : CfgOk (extractedCfg si gapMs bits suffix) :=
  ⟨(by decide : 1000000 ≤ PdModel.Generated.Tso.updateTimestampGuard), hsi, hsfx⟩

/-- instantiated with the constants extracted from the Go source -/
theorem C01_holds_extracted (si gapMs bits suffix : Nat) (hsi : PdModel.Generated.Tso.updateTimestampGuard < si)
    (hsfx : suffix < 2 ^ bits) (ops : List Op) (hf : ∀ op ∈ ops, op.faithful) :
    C01.Holds 18 (events 0 (init (extractedCfg si gapMs bits suffix)) ops) :=
  C01_holds _ (extractedCfg_ok si gapMs bits suffix hsi hsfx)
    (by decide : PdModel.Generated.Tso.maxLogical = 2 ^ 18) ops hf

theorem C02_holds_extracted (si gapMs bits suffix : Nat) (hsi : PdModel.Generated.Tso.updateTimestampGuard < si)
    (hsfx : suffix < 2 ^ bits) (ops : List Op) (hf : ∀ op ∈ ops, op.faithful) :
    C02.Holds (trace (init (extractedCfg si gapMs bits suffix)) ops) :=
  C02_holds _ (extractedCfg_ok si gapMs bits suffix hsi hsfx) ops hf

/-- structure obligations re-checked against the regenerated facts: the three window writers hold
    the window mutex for their whole body, and the logical field is 18 bits wide on both sides -/
theorem tso_structure_facts :
    PdModel.Generated.Tso.syncHoldsWindowMux = true ∧
    PdModel.Generated.Tso.updateHoldsWindowMux = true ∧
    PdModel.Generated.Tso.resetHoldsWindowMux = true ∧
    PdModel.Generated.Tso.resetHoldsTsoMux = true ∧
    PdModel.Generated.Tso.resetMemHoldsTsoMux = true ∧
    PdModel.Generated.Tso.generateHoldsTsoMux = true ∧
    PdModel.Generated.Tso.setPhysicalHoldsTsoMux = true ∧
    -- persist before publish (U2;U3, S2;S3), load before save (S1;S2), the lease re-check after generating,
    -- the window write guarded by the leader record, the leadership pre-check of both GenerateTSO
    PdModel.Generated.Tso.updateSavesBeforePublish = true ∧
    PdModel.Generated.Tso.syncSavesBeforePublish = true ∧
    PdModel.Generated.Tso.syncLoadsBeforeSave = true ∧
    PdModel.Generated.Tso.getTSRechecksLease = true ∧
    PdModel.Generated.Tso.saveUsesLeaderTxn = true ∧
    PdModel.Generated.Tso.globalGenerateChecksLease = true ∧
    PdModel.Generated.Tso.localGenerateChecksLease = true ∧
    PdModel.Generated.Tso.maxLogical = 2 ^ PdModel.Generated.Tso.physicalShiftBits := by decide

/-! ### client side -/

/-- **the client hands out exactly the owned set**: for a response with count `count` whose logical part
    is `raw << bits | suffix` (the highest value), the values the client distributes are the `count`
    consecutive raw values ending at `raw`, each carrying the same suffix – for every width and suffix. -/
theorem client_batch_exact (raw count bits suffix : Nat) (hr : count ≤ raw) :
    clientSplit (raw * 2 ^ bits + suffix) count bits
      = (List.range count).map (fun i => (raw - count + 1 + i) * 2 ^ bits + suffix) := by
  unfold clientSplit
  apply List.map_congr_left
  intro i hi
  have hi' : i < count := List.mem_range.1 hi
  unfold addLogical
  have hsub : ((raw - count : Nat) : Int) = (raw : Int) - count := by omega
  have : ((raw * 2 ^ bits + suffix : Nat) : Int) + (-(count : Int) + 1) * 2 ^ bits + (i : Int) * 2 ^ bits
       = (((raw - count + 1 + i) * 2 ^ bits + suffix : Nat) : Int) := by
    push_cast
    rw [hsub]
    generalize (2 : Int) ^ bits = P
    grind
  rw [this]; exact Int.toNat_natCast _

/-- the fallback detector is the lexicographic "≤" -/
theorem tsLessEqual_iff (p l tp tl : Nat) :
    tsLessEqual p l tp tl = true ↔ (p < tp ∨ (p = tp ∧ l ≤ tl)) := by
  unfold tsLessEqual; split <;> simp_all <;> omega

end PdModel.Tso
