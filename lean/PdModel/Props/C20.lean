import PdModel.Model.Bootstrap
import PdModel.Lemmas.Bootstrap
import PdModel.Lemmas.BootstrapEvents
import PdModel.Spec.C20
import PdModel.Generated.Bootstrap
set_option linter.unusedSimpArgs false
set_option linter.unusedVariables false
/-!
C20 – property theorems.  Quantifiers: every number of members, every number of bootstrap requests with
arbitrary (also malformed, also foreign-cluster) payloads sent to any member, every interleaving of their
validation, transaction and raft-cluster start steps with leader changes, every transaction fault (error
with or without effect); every number of members initialising the cluster id with arbitrary candidate values.
No bound on the length of a history.
-/
namespace PdModel.Bootstrap
open PdModel.Spec

theorem inv_reachable (cid n l : Nat) (ops : List Op) : Inv (run (init cid n l) ops) := by
  suffices h : ∀ s, Inv s → Inv (run s ops) from h _ (inv_init cid n l)
  induction ops with
  | nil => intro s h; exact h
  | cons op ops ih => intro s h; simp only [run, List.foldl_cons]; exact ih _ (inv_step s h op)

theorem step_cid (s : St) (op : Op) : (step s op).1.cid = s.cid := by
  cases op <;> simp only [step] <;> repeat' split
  all_goals simp [setReq]

theorem run_cid (s : St) (ops : List Op) : (run s ops).cid = s.cid := by
  induction ops generalizing s with
  | nil => rfl
  | cons op ops ih => simp only [run, List.foldl_cons]; rw [← step_cid s op]; exact ih _

/-- **bootstrap_exactly_once.**  In every reachable state: at most one transaction has ever succeeded; while
    none has, nothing is stored and no request has been accepted; once request `r`'s has, the stored cluster
    meta (with the cluster's id), the one store and the one region are exactly those of `r`'s – well-formed –
    payload, and `r` is the only request that is (or is about to be) answered `ok`. -/
theorem bootstrap_exactly_once (cid n l : Nat) (ops : List Op) :
    let s := run (init cid n l) ops
    s.wins.length ≤ 1 ∧
    (s.wins = [] → s.etcd = {} ∧
        ∀ (r : Nat) (x : Req), s.reqs[r]? = some x → x.phase ≠ .done .ok ∧ x.phase ≠ .committed) ∧
    (∀ r, s.wins = [r] → ∃ x : Req, s.reqs[r]? = some x ∧ checkReq x.payload = none ∧
        s.etcd = full cid r x.payload ∧
        ∀ (r' : Nat) (x' : Req), s.reqs[r']? = some x' → (x'.phase = .done .ok ∨ x'.phase = .committed) → r' = r) := by
  intro s
  have hi : Inv s := inv_reachable cid n l ops
  have hc : s.cid = cid := by simp only [s]; rw [run_cid]; rfl
  refine ⟨hi.winsLe, ?_, ?_⟩
  · intro hw
    refine ⟨hi.empty hw, ?_⟩
    intro r x hx
    constructor
    · intro hp; have := hi.okIn r x hx (Or.inr hp); rw [hw] at this; cases this
    · intro hp; have := hi.okIn r x hx (Or.inl hp); rw [hw] at this; cases this
  · intro r hw
    obtain ⟨x, hx, h1, h2, _⟩ := hi.won r hw
    refine ⟨x, hx, h1, by rw [← hc]; exact h2, ?_⟩
    intro r' x' hx' hp
    have := hi.okIn r' x' hx' (by rcases hp with h | h; exact Or.inr h; exact Or.inl h)
    rw [hw] at this
    exact (by simpa using this : r = r').symm

/-- the answers a history produces, oldest first -/
def outputs : St → List Op → List StepOut
  | _, [] => []
  | s, op :: ops => (step s op).2 :: outputs (step s op).1 ops

def isOkOut : StepOut → Bool
  | .resp .ok => true
  | _ => false

theorem step_oks (s : St) (op : Op) :
    (step s op).1.oks.length = s.oks.length + (isOkOut (step s op).2).toNat := by
  cases op with
  | boot m hdr p =>
    simp only [step]
    split
    · simp [isOkOut]
    · rename_i mem hm
      split
      · rename_i o ho
        rcases validate_ne_ok s mem hdr o ho with rfl | rfl <;> simp [isOkOut]
      · split
        · simp [isOkOut]
        · split <;> simp [isOkOut]
  | commit r f =>
    simp only [step]
    split
    · simp [isOkOut]
    · split
      · split
        · simp [setReq, isOkOut]
        · split
          · split <;> simp [setReq, isOkOut]
          · split <;> simp [setReq, isOkOut]
      · simp [isOkOut]
  | start r =>
    simp only [step]
    split
    · simp [isOkOut]
    · split
      · split <;> simp [setReq, isOkOut]
      · simp [isOkOut]
  | lead m => simp only [step]; split <;> simp [isOkOut]
  | isBoot m hdr =>
    simp only [step]
    split
    · simp [isOkOut]
    · rename_i mem hm
      split
      · rename_i o ho
        rcases validate_ne_ok s mem hdr o ho with rfl | rfl <;> simp [isOkOut]
      · simp [isOkOut]
  | putConfig m hdr body =>
    rw [step_readonly s _ (Or.inr (Or.inl ⟨m, hdr, body, rfl⟩))]
    simp only [step]
    split
    · simp [isOkOut]
    · rename_i mem hm
      split
      · rename_i o ho
        rcases validate_ne_ok s mem hdr o ho with rfl | rfl <;> simp [isOkOut]
      · repeat' split
        all_goals simp [isOkOut]
  | tso m hdrs =>
    rw [step_readonly s _ (Or.inr (Or.inr ⟨m, hdrs, rfl⟩))]
    simp only [step]; split <;> simp [isOkOut]

/-- **at most one request is ever answered `ok`** – over the answers of any history (any members, requests,
    interleaving, leader changes, transaction faults). -/
theorem at_most_one_ok_answer (cid n l : Nat) (ops : List Op) :
    ((outputs (init cid n l) ops).filter isOkOut).length ≤ 1 := by
  have key : ∀ (ops : List Op) (s : St),
      ((outputs s ops).filter isOkOut).length + s.oks.length = (run s ops).oks.length := by
    intro ops
    induction ops with
    | nil => intro s; simp [outputs, run]
    | cons op ops ih =>
      intro s
      simp only [outputs, run, List.foldl_cons]
      have h1 := ih (step s op).1
      simp only [run] at h1
      have h2 := step_oks s op
      cases ho : isOkOut (step s op).2 with
      | true =>
        rw [ho] at h2
        rw [List.filter_cons_of_pos ho]
        simp only [List.length_cons, Bool.toNat_true] at h2 ⊢
        omega
      | false =>
        rw [ho] at h2
        rw [List.filter_cons_of_neg (by simp [ho])]
        simp only [Bool.toNat_false] at h2
        omega
  have h := key ops (init cid n l)
  have hle := (inv_reachable cid n l ops).oksLe
  have h0 : (init cid n l).oks.length = 0 := rfl
  omega

/-- **losers change nothing.**  A step of a reachable state leaves the stored records untouched unless it is
    the first successful transaction (on an empty store), which then is the single winner. -/
theorem loser_changes_nothing (cid n l : Nat) (ops : List Op) (op : Op) :
    let s := run (init cid n l) ops
    (step s op).1.etcd = s.etcd ∨
    (s.etcd = {} ∧ ∃ r f, op = .commit r f ∧ (step s op).1.wins = [r]) := by
  intro s
  have hi : Inv s := inv_reachable cid n l ops
  cases op with
  | boot m hdr p => left; simp only [step]; repeat' split
                    all_goals rfl
  | start r => left; simp only [step]; repeat' split
               all_goals simp [setReq]
  | lead m => left; simp only [step]; split <;> rfl
  | isBoot m hdr => left; simp only [step]; repeat' split
                    all_goals rfl
  | putConfig m hdr body => left; rw [step_readonly s _ (Or.inr (Or.inl ⟨m, hdr, body, rfl⟩))]
  | tso m hdrs => left; rw [step_readonly s _ (Or.inr (Or.inr ⟨m, hdrs, rfl⟩))]
  | commit r f =>
    simp only [step]
    split
    · left; rfl
    · next x hx =>
      split
      · split
        · left; simp [setReq]
        · split
          · next hroot =>
            right
            have hw : s.wins = [] := by
              cases hs : s.wins with
              | nil => rfl
              | cons a t =>
                have hl := hi.winsLe
                rw [hs] at hl
                have : t = [] := by cases t with | nil => rfl | cons _ _ => simp at hl
                subst this
                obtain ⟨y, _, _, h2, _⟩ := hi.won a hs
                rw [h2] at hroot; simp [full] at hroot
            refine ⟨hi.empty hw, r, f, rfl, ?_⟩
            split <;> simp [setReq, hw]
          · left; simp [setReq]
      · left; rfl

/-- **malformed_payload_rejected** (1): a request whose payload fails the check is answered at once – not
    leader, cluster id mismatch, already bootstrapped or malformed – it never reaches the transaction and
    the stored records and the members are untouched. -/
theorem malformed_payload_rejected (s : St) (m hdr : Nat) (p : Payload) (b : Bad) (hb : checkReq p = some b) :
    (step s (.boot m hdr p)).1.etcd = s.etcd ∧ (step s (.boot m hdr p)).1.members = s.members ∧
    (step s (.boot m hdr p)).1.wins = s.wins ∧
    ((step s (.boot m hdr p)).2 = .bad ∨ (step s (.boot m hdr p)).2 = .resp .notLeader ∨
     (step s (.boot m hdr p)).2 = .resp .mismatch ∨ (step s (.boot m hdr p)).2 = .resp .already ∨
     (step s (.boot m hdr p)).2 = .resp (.malformed b)) := by
  simp only [step]
  split
  · simp
  · next mem hm =>
    split
    · next o ho => rcases validate_ne_ok s mem hdr o ho with rfl | rfl <;> simp
    · split
      · simp
      · simp [hb]

/-- **malformed_payload_rejected** (2): in every reachable state, a request that is accepted (or whose
    transaction was issued) carries a payload that passes the check. -/
theorem accepted_is_well_formed (cid n l : Nat) (ops : List Op) (r : Nat) (x : Req)
    (hx : (run (init cid n l) ops).reqs[r]? = some x)
    (hp : x.phase = .atTxn ∨ x.phase = .committed ∨ x.phase = .done .ok) : checkReq x.payload = none :=
  (inv_reachable cid n l ops).valid r x hx hp

/-- **foreign_cluster_id_refused**: a Bootstrap or IsBootstrapped request naming another cluster id is
    refused (as "not leader" by a follower, as a cluster id mismatch by the leader) and changes neither the
    stored records nor any member. -/
theorem foreign_cluster_id_refused (s : St) (m hdr : Nat) (p : Payload) (hf : hdr ≠ s.cid) :
    ((step s (.boot m hdr p)).1.etcd = s.etcd ∧ (step s (.boot m hdr p)).1.members = s.members ∧
      (step s (.boot m hdr p)).1.wins = s.wins ∧
      ((step s (.boot m hdr p)).2 = .bad ∨ (step s (.boot m hdr p)).2 = .resp .notLeader ∨
       (step s (.boot m hdr p)).2 = .resp .mismatch)) ∧
    ((step s (.isBoot m hdr)).1 = s ∧
      ((step s (.isBoot m hdr)).2 = .bad ∨ (step s (.isBoot m hdr)).2 = .resp .notLeader ∨
       (step s (.isBoot m hdr)).2 = .resp .mismatch)) := by
  have hv : ∀ mem : Member, validate s mem hdr = some .notLeader ∨ validate s mem hdr = some .mismatch := by
    intro mem; unfold validate; split
    · left; rfl
    · right; simp [hf]
  constructor
  · simp only [step]
    split
    · simp
    · next mem hm => rcases hv mem with h | h <;> simp [h]
  · simp only [step]
    split
    · simp
    · next mem hm => rcases hv mem with h | h <;> simp [h]

/-- **foreign_cluster_id_refused, the other handlers.**  PutClusterConfig: a foreign cluster id in the header is
    refused like everywhere else, and a foreign cluster id in the BODY (the metapb.Cluster to be stored) is never
    accepted either; in every case the state – in particular the stored cluster meta – is untouched.  Tso: on one
    stream EVERY request is compared, a request naming another cluster is never answered with a timestamp
    whatever was accepted before it on the same stream. -/
theorem foreign_cluster_id_refused_config (s : St) (m hdr body : Nat) (hf : hdr ≠ s.cid ∨ body ≠ s.cid) :
    (step s (.putConfig m hdr body)).1 = s ∧ (step s (.putConfig m hdr body)).2 ≠ .cfg .ok := by
  refine ⟨step_readonly s _ (Or.inr (Or.inl ⟨m, hdr, body, rfl⟩)), ?_⟩
  simp only [step]
  split
  · simp
  · rename_i mem hm
    split
    · simp
    · rename_i hv
      have hh : hdr = s.cid := by
        unfold validate at hv
        split at hv
        · simp at hv
        · split at hv
          · simp at hv
          · rename_i h2; simpa using h2
      have hb : body ≠ s.cid := by
        rcases hf with h | h
        · exact absurd hh h
        · exact h
      split
      · simp
      · simp [hb]

theorem tsoRun_foreign (cid : Nat) (leader : Bool) (hdrs : List Nat) :
    ∀ (i h : Nat), hdrs[i]? = some h → h ≠ cid → ∃ a, (tsoRun cid leader hdrs)[i]? = some a ∧ a ≠ .ts := by
  induction hdrs with
  | nil => intro i h hi; simp at hi
  | cons x xs ih =>
    intro i h hi hne
    unfold tsoRun
    by_cases hx : x ≠ cid
    · rw [if_pos hx]
      cases i with
      | zero => exact ⟨.mismatch, by simp, by simp⟩
      | succ j =>
        simp only [List.getElem?_cons_succ] at hi ⊢
        have hj : j < xs.length := lt_len _ _ _ hi
        exact ⟨.closed, by simp [hj], by simp⟩
    · rw [if_neg hx]
      cases hl : leader with
      | false =>
        simp only [Bool.not_false, if_true]
        cases i with
        | zero => simp at hi; exact absurd hi.symm (fun e => hx (e ▸ hne))
        | succ j =>
          simp only [List.getElem?_cons_succ] at hi ⊢
          have hj : j < xs.length := lt_len _ _ _ hi
          exact ⟨.closed, by simp [hj], by simp⟩
      | true =>
        simp only [Bool.not_true, Bool.false_eq_true, if_false]
        cases i with
        | zero => simp at hi; exact absurd hi.symm (fun e => hx (e ▸ hne))
        | succ j =>
          simp only [List.getElem?_cons_succ] at hi ⊢
          rw [← hl]; exact ih j h hi hne

theorem foreign_cluster_id_refused_tso (s : St) (m : Nat) (mem : Member) (hdrs : List Nat)
    (hm : s.members[m]? = some mem) :
    step s (.tso m hdrs) = (s, .tso (tsoRun s.cid mem.leader hdrs)) ∧
    ∀ (i h : Nat), hdrs[i]? = some h → h ≠ s.cid →
      ∃ a, (tsoRun s.cid mem.leader hdrs)[i]? = some a ∧ a ≠ .ts :=
  ⟨by simp [step, hm], tsoRun_foreign s.cid mem.leader hdrs⟩

/-- **some request does succeed**: a well-formed request for this cluster that reaches a leader whose raft
    cluster is not running, while nothing is stored yet, is accepted when its three steps run (whatever other
    requests are parked meanwhile) – so "at most one" is "exactly one" as soon as such a request completes. -/
theorem uncontended_bootstrap_succeeds (s : St) (m : Nat) (mem : Member) (p : Payload)
    (hm : s.members[m]? = some mem) (hl : mem.leader = true) (hr : mem.running = false)
    (hroot : s.etcd.root = none) (hp : checkReq p = none) :
    let r := s.reqs.length
    let s1 := (step s (.boot m s.cid p)).1
    let s2 := (step s1 (.commit r .none)).1
    (step s (.boot m s.cid p)).2 = .parked ∧ (step s1 (.commit r .none)).2 = .done ∧
    (step s2 (.start r)).2 = .resp .ok ∧ s2.etcd = full s.cid r p := by
  have hv : validate s mem s.cid = none := by simp [validate, hl]
  have e1 : step s (.boot m s.cid p) =
      ({ s with reqs := s.reqs ++ [{ member := m, payload := p, phase := .atTxn }] }, .parked) := by
    simp [step, hm, hv, hr, hp]
  simp only [e1]
  have e2 : step { s with reqs := s.reqs ++ [{ member := m, payload := p, phase := .atTxn }] }
      (.commit s.reqs.length .none) =
      (setReq { s with reqs := s.reqs ++ [{ member := m, payload := p, phase := .atTxn }],
                       etcd := full s.cid s.reqs.length p, wins := s.wins ++ [s.reqs.length] }
        s.reqs.length { member := m, payload := p, phase := .committed }, .done) := by
    simp [step, hroot, full]
  simp only [e2]
  refine ⟨trivial, trivial, ?_, by simp [setReq]⟩
  simp [step, setReq, hm]

/-! ### cluster id -/

structure IdInv (s : IdSt) : Prop where
  same : ∀ v ∈ s.given, s.key = some v

theorem idInv_step (s : IdSt) (h : IdInv s) (mine : Nat) (f : Fault) : IdInv (initId s mine f).1 := by
  unfold initId
  cases f with
  | before => exact h
  | none =>
    cases hk : s.key with
    | none =>
      refine ⟨fun v hv => ?_⟩
      simp at hv
      rcases hv with hv | rfl
      · have := h.same v hv; rw [hk] at this; cases this
      · rfl
    | some w =>
      refine ⟨fun v hv => ?_⟩
      simp at hv
      rcases hv with hv | rfl
      · have := h.same v hv; simpa [hk] using this
      · simp [hk]
  | after =>
    cases hk : s.key with
    | none =>
      refine ⟨fun v hv => ?_⟩
      simp at hv
      have := h.same v hv; rw [hk] at this; cases this
    | some w => simpa [hk] using h

/-- **cluster_id_agreement.**  For every number of members racing through `initOrGetClusterID` with arbitrary
    candidates and every transaction fault: all values handed out are equal to the stored key, hence to each
    other; and once the key is set no further call changes it. -/
theorem cluster_id_agreement (ops : List (Nat × Fault)) :
    C20.IdAgree (idRun {} ops).given ∧ (∀ v ∈ (idRun {} ops).given, (idRun {} ops).key = some v) ∧
    ∀ (v mine : Nat) (f : Fault), (idRun {} ops).key = some v → (initId (idRun {} ops) mine f).1.key = some v := by
  have hinv : IdInv (idRun {} ops) := by
    suffices h : ∀ s, IdInv s → IdInv (idRun s ops) from h _ ⟨by simp⟩
    induction ops with
    | nil => intro s h; exact h
    | cons o ops ih => intro s h; simp only [idRun, List.foldl_cons]; exact ih _ (idInv_step s h o.1 o.2)
  refine ⟨?_, hinv.same, ?_⟩
  · intro a ha b hb
    have h1 := hinv.same a ha
    have h2 := hinv.same b hb
    rw [h1] at h2; simpa using h2
  · intro v mine f hk
    unfold initId
    cases f <;> simp [hk]

/-! ### the observable specification holds of every model history -/

theorem einv_run (ops : List Op) : ∀ (s : St) (evs : List C20.Ev), Inv s → EInv s evs →
    Inv (run s ops) ∧ EInv (run s ops) (evs ++ events s ops) := by
  induction ops with
  | nil => intro s evs hi h; simpa [run, events] using ⟨hi, h⟩
  | cons op ops ih =>
    intro s evs hi h
    have h1 := inv_step s hi op
    have h2 := einv_step s evs op hi h
    have := ih _ _ h1 h2
    simpa [run, events, List.append_assoc] using this

theorem refuses_req (a : C20.Ev) (r : Nat) (i : C20.Info) (h : C20.refuses a (.req r i) = true) :
    a = .resp r .refused := by
  cases a with
  | req _ _ => simp [C20.refuses] at h
  | recs _ => simp [C20.refuses] at h
  | resp r' k => cases k <;> simp [C20.refuses] at h ⊢; exact h

/-- the event invariant gives the specification -/
theorem holds_of_einv (s : St) (evs : List C20.Ev) (hi : Inv s) (h : EInv s evs) : C20.Holds s.cid evs := by
  refine ⟨?_, ?_, ?_, ?_⟩
  · intro i hi' j hj ha hb; exact h.accU i j hi' hj ha hb
  · intro k hk ha
    obtain ⟨r, p, j, hw, _, hp, hgk, hjk, hgj, hall⟩ := h.acc k hk ha
    obtain ⟨hc, _⟩ := payloadOf_won s hi r p hw hp
    have hwf := (checkReq_iff_wellFormed p false).1 hc
    have hfg : (infoOf p false).foreign = false := rfl
    refine ⟨j, hjk, ?_, fun l hl hkl => hall l hkl hl⟩
    rw [hgj, hgk]
    simp [C20.issuesGood, hwf, hfg]
  · intro i hi' j hj hij hc; exact h.stable i j hij hj hc
  · intro j hj hc
    obtain ⟨hgj, r, p, i, hw, hp, hij, hgi⟩ := h.compl j hj hc
    obtain ⟨hck, he⟩ := payloadOf_won s hi r p hw hp
    refine ⟨i, hij, ?_, ?_, ?_⟩
    · have hwf := (checkReq_iff_wellFormed p false).1 hck
      have hfg : (infoOf p false).foreign = false := rfl
      rw [hgi]; simp [C20.isGoodReq, hwf, hfg]
    · rw [hgi, hgj]; exact recordsOf_full s.cid r p hck s he
    · intro l hl
      rw [hgi]
      cases hr : C20.refuses (C20.getEv evs l) (.req r (infoOf p false)) with
      | false => rfl
      | true => exact absurd (refuses_req _ _ _ hr) (h.noRef r hw l hl)

/-- **C20, observable form.**  For every history of the model – any number of members and requests with
    arbitrary payloads and cluster ids, any interleaving of their validation, transaction and start steps with
    leader changes, any transaction fault – the events a client and an observer of the stored records see
    (requests issued, answers, records after every step) satisfy `Spec.C20.Holds`: at most one request is
    accepted; it was well-formed and for this cluster and from then on the records are exactly its own;
    records never change once present; they come from one well-formed request that is never refused. -/
theorem C20_holds (cid n l : Nat) (ops : List Op) : C20.Holds cid (events (init cid n l) ops) := by
  obtain ⟨hi, he⟩ := einv_run ops (init cid n l) [] (inv_init cid n l) (einv_nil _ rfl)
  have := holds_of_einv _ _ hi he
  rw [run_cid] at this
  simpa [init] using this

/-! ### structure obligations (regenerated from the Go source on every run) -/

/-- the bootstrap transaction and the cluster-id transaction are both guarded by "key was never created";
    the payload is checked before the transaction is built; the request is validated (leader, cluster id)
    before bootstrapCluster is entered -/
theorem bootstrap_structure :
    PdModel.Generated.Bootstrap.bootstrapTxnGuardedByRootAbsent = true ∧
    PdModel.Generated.Bootstrap.clusterIdTxnGuardedByKeyAbsent = true ∧
    PdModel.Generated.Bootstrap.payloadCheckedBeforeTxn = true ∧
    PdModel.Generated.Bootstrap.requestValidatedBeforeBootstrap = true := by decide

/-- every gRPC handler of `Server` calls validateRequest, except the five that are documented not to
    (member discovery, the TSO stream – which compares the cluster id itself – and PD-to-PD streams) -/
theorem handlers_validate_requests :
    PdModel.Generated.Bootstrap.handlersWithoutValidate =
      ["GetDCLocationInfo", "GetMembers", "SyncMaxTS", "SyncRegions", "Tso"] := by decide

/-! Non-vacuity: two members, a malformed and a foreign request, two racing well-formed requests, a leader
    change between the winner's transaction and its raft-cluster start, a late request at the new leader. -/
def pA : Payload := { storeId := 1, regionId := 2, peers := [(3, 1)] }
def pB : Payload := { storeId := 4, regionId := 5, peers := [(6, 4)] }
def pBad : Payload := { storeId := 1, regionId := 2, peers := [(3, 9)] }

def demoOps : List Op :=
  [.boot 0 7 pBad, .boot 0 8 pA, .boot 1 7 pA, .boot 0 7 pA, .boot 0 7 pB, .commit 4 .none, .lead 1,
   .commit 3 .none, .boot 1 7 pA, .start 4, .isBoot 1 7, .isBoot 0 7]

example : (run (init 7 2 0) demoOps).wins = [4] ∧
    (run (init 7 2 0) demoOps).etcd = full 7 4 pB ∧
    (run (init 7 2 0) demoOps).reqs.map (·.phase) =
      [.done (.malformed .peerStore), .done .mismatch, .done .notLeader, .done .conflict, .done .ok,
       .done .already] := by decide

/-- what the observer sees of a race: two requests parked, the second wins, the first is refused, a late one
    is told "already" -/
example : events (init 7 2 0) [.boot 0 7 pA, .boot 0 7 pB, .commit 1 .none, .start 1, .commit 0 .none, .boot 0 7 pA] =
    [.req 0 (infoOf pA false), .recs {}, .req 1 (infoOf pB false), .recs {},
     .recs ⟨some 7, [4], [5], true⟩, .resp 1 .accepted, .recs ⟨some 7, [4], [5], true⟩,
     .resp 0 .refused, .recs ⟨some 7, [4], [5], true⟩,
     .req 2 (infoOf pA false), .resp 2 .refused, .recs ⟨some 7, [4], [5], true⟩] := by decide

example : C20.Holds 7 (events (init 7 2 0) demoOps) := C20_holds 7 2 0 demoOps

end PdModel.Bootstrap
