import PdModel.Model.OpCtl
import PdModel.Model.StoreSim
import PdModel.Spec.C09
import PdModel.Lemmas.OpCtl
import PdModel.Lemmas.OpCtlInv
import PdModel.Lemmas.OpCtlRecords
import PdModel.Lemmas.OpCtlRecRun
import PdModel.Generated.OpCtl
set_option linter.unusedSimpArgs false
set_option linter.unusedVariables false
/-!
C09 – property theorems about the controller model (`Model/OpCtl.lean`).
-/
namespace PdModel.OpCtl
open PdModel.Steps PdModel.Spec

/-! ### the status matrix -/

/-- the matrix extracted from operator/status.go is exactly the one the property states:
    created → {started, canceled, expired}, started → {success, canceled, replaced, timeout} -/
theorem validTrans_is_the_stated_matrix :
    PdModel.Generated.OpCtl.statusNames =
      ["CREATED", "STARTED", "SUCCESS", "CANCELED", "REPLACED", "EXPIRED", "TIMEOUT"] ∧
    ∀ a b : Status, canMove a b = C09.allowed a b := by
  refine ⟨by decide, ?_⟩
  intro a b
  cases a <;> cases b <;> decide

/-- structure obligation of the status-matrix theorems: the model's `Op.to` is one atomic step
    "check `validTrans`, then move".  That is what the code does only if `OpStatusTracker.To`,
    `CheckExpired` and `CheckTimeout` hold the tracker's write lock for their whole body, decide inside
    it (through `toLocked`) and nothing but `toLocked` assigns the status.  Re-checked against the facts
    extracted from status_tracker.go on every run. -/
theorem status_moves_are_atomic_sections :
    PdModel.Generated.OpCtl.trackerToLocked = true ∧
    PdModel.Generated.OpCtl.trackerCheckExpiredLocked = true ∧
    PdModel.Generated.OpCtl.trackerCheckTimeoutLocked = true ∧
    PdModel.Generated.OpCtl.trackerToChecksUnderLock = true ∧
    PdModel.Generated.OpCtl.trackerExpireChecksUnderLock = true ∧
    PdModel.Generated.OpCtl.trackerTimeoutChecksUnderLock = true ∧
    PdModel.Generated.OpCtl.statusAssigners = ["toLocked"] := by decide

/-- a single `To` of the status tracker either leaves the status or moves along `validTrans` -/
theorem to_moves_along_validTrans (o : Op) (dst : Status) :
    (o.to dst).1.status = o.status ∨ C09.allowed o.status (o.to dst).1.status = true := by
  unfold Op.to
  split
  · next h => right; rw [← validTrans_is_the_stated_matrix.2]; exact h
  · left; rfl

/-- end statuses are final: no `To` leaves them -/
theorem end_status_is_final (o : Op) (dst : Status) (h : o.status.isEnd = true) :
    (o.to dst).1 = o := by
  unfold Op.to
  have : canMove o.status dst = false := by
    rw [validTrans_is_the_stated_matrix.2]
    cases hs : o.status <;> simp [hs, Status.isEnd, Status.idx] at h <;> cases dst <;> rfl
  simp [this]

/-! ### all runs -/

/-- one event: every operator that exists keeps its identity (region, epoch, priority, steps) and its
    status moves along `validTrans` only -/
theorem stepEv_rel (c : Ctl) (e : Ev) (k : Nat) (o : Op) (h : c.getOp k = some o) :
    ∃ o', (stepEv c e).1.getOp k = some o' ∧ Rel o o' := by
  have ofLe : ∀ c', Le c c' → ∃ o', c'.getOp k = some o' ∧ Rel o o' := fun c' hl => hl.some k o h
  cases e with
  | putRegion v => exact ⟨o, h, Rel.refl o⟩
  | delRegion r => exact ⟨o, h, Rel.refl o⟩
  | newOp n =>
    simp only [stepEv]
    split
    · exact ⟨o, h, Rel.refl o⟩
    · refine ⟨o, ?_, Rel.refl o⟩
      unfold Ctl.getOp at h ⊢
      simp only [List.find?_append, h, Option.some_or]
  | add ids => exact ofLe _ (le_addOperator c ids)
  | addWaiting ids rs => exact ofLe _ (le_addWaiting c ids rs)
  | promote rs => exact ofLe _ (le_promote c rs)
  | heartbeat v rs =>
    have g : (putView c v).getOp k = some o := h
    exact (le_dispatch (putView c v) v true rs).some k o g
  | push rs => exact ofLe _ (le_pushOperators c rs)
  | remove id => exact ofLe _ (le_removeOperator c id)
  | expire id =>
    simp only [stepEv]
    split
    · next x hx =>
      exact (le_setOp' c id x { x with createdOld := true } hx
        ⟨rfl, rfl, rfl, rfl, rfl, rfl, rfl, rfl, rfl, Reach.refl _⟩).some k o h
    · exact ⟨o, h, Rel.refl o⟩
  | markTimeout id =>
    simp only [stepEv]
    split
    · next x hx =>
      split
      · exact (le_setOp' c id x { x with startedOld := true } hx
          ⟨rfl, rfl, rfl, rfl, rfl, rfl, rfl, rfl, rfl, Reach.refl _⟩).some k o h
      · exact ⟨o, h, Rel.refl o⟩
    · exact ⟨o, h, Rel.refl o⟩
  | sleep ms => exact ⟨o, h, Rel.refl o⟩
  | influence => exact ofLe _ (le_touchRunning c)

/-- **status_moves_only_along_validTrans** (and operators are immutable otherwise): in every run
    of the controller, from any state, every operator keeps its region, epoch, priority and steps, and
    its status at the end is reachable from its status at the beginning through the transitions
    created → {started, canceled, expired}, started → {success, canceled, replaced, timeout} only. -/
theorem status_moves_only_along_validTrans (c : Ctl) (evs : List Ev) (k : Nat) (o : Op)
    (h : c.getOp k = some o) : ∃ o', (runEv c evs).getOp k = some o' ∧ Rel o o' := by
  induction evs generalizing c o with
  | nil => exact ⟨o, h, Rel.refl o⟩
  | cons e rest ih =>
    obtain ⟨o1, g1, r1⟩ := stepEv_rel c e k o h
    obtain ⟨o2, g2, r2⟩ := ih (stepEv c e).1 o1 g1
    exact ⟨o2, g2, Rel.trans r1 r2⟩

/-- what `Reach` allows, spelled out: an operator that has ended never changes status again, a started
    one never goes back to created -/
theorem no_move_from_end (a m : Status) (ha : a.isEnd = true) : C09.allowed a m = false := by
  cases a <;> cases m <;> first | rfl | (exfalso; revert ha; decide)

theorem reach_from_end {a b : Status} (h : Reach a b) (ha : a.isEnd = true) : b = a := by
  cases h with
  | refl => rfl
  | step hs _ => rw [no_move_from_end _ _ ha] at hs; cases hs

theorem reach_from_started {b : Status} (h : Reach .started b) : b = .started ∨ b.isEnd = true := by
  cases h with
  | refl => left; rfl
  | step hs r =>
    right
    rename_i m
    have hm : m.isEnd = true := by cases m <;> simp [C09.allowed] at hs <;> rfl
    rw [reach_from_end r hm]; exact hm

/-! ### competing end transitions -/

theorem race_after_end (o : Op) (ks : List RaceKind) (h : o.status.isEnd = true)
    (hk : ∀ k ∈ ks, k = .cancel ∨ k = .replace) :
    (raceRun o ks).1 = o ∧ ∀ b ∈ (raceRun o ks).2, b = false := by
  induction ks with
  | nil => simp [raceRun]
  | cons k rest ih =>
    have hstep : raceStep o k = (o, false) := by
      have hno : ∀ dst, o.to dst = (o, false) := by
        intro dst
        unfold Op.to
        have : canMove o.status dst = false := by
          rw [validTrans_is_the_stated_matrix.2]; exact no_move_from_end _ _ h
        simp [this]
      rcases hk k (List.mem_cons_self ..) with e | e <;> subst e <;> exact hno _
    obtain ⟨i1, i2⟩ := ih (fun k hk' => hk k (List.mem_cons_of_mem _ hk'))
    simp only [raceRun, hstep]
    exact ⟨i1, fun b hb => by
      rcases List.mem_cons.1 hb with e | e
      · exact e
      · exact i2 b e⟩

/-- **racing_end_transitions_one_winner**: when `Cancel` / `Replace` calls compete for one STARTED operator
    and each `To` is an atomic section (`status_moves_are_atomic_sections`), then in every order in which they
    get through exactly the first one reports success, and the operator ends in that call's status. -/
theorem racing_end_transitions_one_winner (o : Op) (k : RaceKind) (ks : List RaceKind) (hs : o.status = .started)
    (hk : ∀ x ∈ k :: ks, x = .cancel ∨ x = .replace) :
    (raceRun o (k :: ks)).2.head? = some true ∧ (∀ b ∈ (raceRun o (k :: ks)).2.tail, b = false) ∧
    (raceRun o (k :: ks)).1.status = (if k = .cancel then .canceled else .replaced) := by
  have hfirst : (raceStep o k).2 = true ∧ (raceStep o k).1.status = (if k = .cancel then .canceled else .replaced) := by
    rcases hk k (List.mem_cons_self ..) with e | e <;> subst e <;>
      simp [raceStep, Op.to, hs, canMove_eq_allowed, C09.allowed]
  have hend : (raceStep o k).1.status.isEnd = true := by
    rw [hfirst.2]; split <;> rfl
  obtain ⟨i1, i2⟩ := race_after_end (raceStep o k).1 ks hend (fun x hx => hk x (List.mem_cons_of_mem _ hx))
  simp only [raceRun, List.head?_cons, List.tail_cons]
  exact ⟨by rw [hfirst.1], i2, by rw [i1]; exact hfirst.2⟩

/-! ### one operator per region -/

/-- **one_operator_per_region**: in every run from the empty controller, two STARTED operators never
    share a region – a STARTED operator is the one registered in the running map of its region
    (`Inv`, preserved by every event). -/
theorem one_operator_per_region (evs : List Ev) (k1 k2 : Nat) (o1 o2 : Op)
    (h1 : (runEv {} evs).getOp k1 = some o1) (h2 : (runEv {} evs).getOp k2 = some o2)
    (s1 : o1.status = .started) (s2 : o2.status = .started) (hr : o1.region = o2.region) : k1 = k2 := by
  have hi := inv_runEv {} evs inv_init
  have a := hi k1 o1 h1 s1
  have b := hi k2 o2 h2 s2
  rw [hr, b] at a
  exact (Option.some.inj a).symm

/-- **leaving_running_set_is_ended**: if an operator that has been started is registered as running on
    its region and an event takes it out of the running map, then after the event it is in an end
    status (and, by `status_moves_only_along_validTrans`, stays there). -/
theorem leaving_running_set_is_ended (c : Ctl) (hi : Inv c) (e : Ev) (k : Nat) (o : Op)
    (ho : c.getOp k = some o) (hst : o.status ≠ .created)
    (hleft : (stepEv c e).1.runningOn o.region ≠ some k) :
    ∃ o', (stepEv c e).1.getOp k = some o' ∧ o'.status.isEnd = true := by
  obtain ⟨o', ho', hrel⟩ := stepEv_rel c e k o ho
  refine ⟨o', ho', ?_⟩
  have hi' := inv_stepEv c e hi
  cases hs : o.status with
  | created => exact absurd hs hst
  | started =>
    have hreach := hrel.status
    rw [hs] at hreach
    rcases reach_from_started hreach with h | h
    · exfalso
      apply hleft
      rw [← hrel.region]
      exact hi' k o' ho' h
    · exact h
  | success => have := reach_from_end hrel.status (by rw [hs]; rfl); rw [this, hs]; rfl
  | canceled => have := reach_from_end hrel.status (by rw [hs]; rfl); rw [this, hs]; rfl
  | replaced => have := reach_from_end hrel.status (by rw [hs]; rfl); rw [this, hs]; rfl
  | expired => have := reach_from_end hrel.status (by rw [hs]; rfl); rw [this, hs]; rfl
  | timeout => have := reach_from_end hrel.status (by rw [hs]; rfl); rw [this, hs]; rfl

/-! ### "... and recorded" – proved at the sites, not yet as a run invariant -/

/-- **leaving_running_set_is_recorded_at_sites_partial**: the "and recorded" half of the clause, proved
    for the code shape shared by *every* place of the controller model that removes an operator from the
    running map (`removeOperatorLocked` succeeded → status move → `buryOperator`): whatever end move is
    attempted, afterwards the operator is ended, it is the record of its region, and nothing runs on the
    region.  `_partial`: the statement is per site; that a whole event leaves no other way out of the
    running map is checked by the monitor (`C09.left-running-set-not-recorded`), not proved. -/
theorem leaving_running_set_is_recorded_at_sites_partial (c : Ctl) (o : Op) (dst : Status)
    (hg : c.getOp o.id = some o) (hrm : (removeLocked c o).2 = true) :
    ∃ o', (bury ((removeLocked c o).1.setOp (o.to dst).1) o.id).getOp o.id = some o' ∧
      o'.status.isEnd = true ∧ o'.region = o.region ∧
      (bury ((removeLocked c o).1.setOp (o.to dst).1) o.id).recordOn o.region = some o.id ∧
      (bury ((removeLocked c o).1.setOp (o.to dst).1) o.id).runningOn o.region = none :=
  leave_site_recorded c o dst hg hrm

/-- `RemoveOperator` (admin removal, success, timeout and stale branches all call it): success means
    ended + recorded + region free. -/
theorem remove_operator_ends_and_records (c : Ctl) (id : Nat) (o : Op) (h : c.getOp id = some o)
    (hr : (removeOperator c id).2 = true) :
    ∃ o', (removeOperator c id).1.getOp id = some o' ∧ o'.status.isEnd = true ∧ o'.region = o.region ∧
      (removeOperator c id).1.recordOn o.region = some id ∧
      (removeOperator c id).1.runningOn o.region = none :=
  removeOperator_recorded c id o h hr

/-- the `remove` event (admin `RemoveOperator` on the operator registered for its region), whole event: the
    operator is ended, it is the record of its region and the region is free afterwards. -/
theorem remove_event_ends_and_records (c : Ctl) (id : Nat) (o : Op) (h : c.getOp id = some o)
    (hrun : c.runningOn o.region = some id) :
    ∃ o', (stepEv c (.remove id)).1.getOp id = some o' ∧ o'.status.isEnd = true ∧ o'.region = o.region ∧
      (stepEv c (.remove id)).1.recordOn o.region = some id ∧
      (stepEv c (.remove id)).1.runningOn o.region = none := by
  have hid : o.id = id := getOp_some h
  have hr : (removeOperator c id).2 = true := by
    rw [removeOperator_eq_run c id o h (by rw [hid]; exact hrun)]
  exact removeOperator_recorded c id o h hr

/-- the operator displaced by a higher-priority one is ended and recorded before the new one starts -/
theorem replaced_operator_ends_and_is_recorded (c : Ctl) (region oldId : Nat) (old : Op)
    (hrun : c.runningOn region = some oldId) (hg : c.getOp oldId = some old) (hreg : old.region = region) :
    ∃ o', (replaceOld c region).getOp oldId = some o' ∧ o'.status.isEnd = true ∧ o'.region = region ∧
      (replaceOld c region).recordOn region = some oldId ∧
      (replaceOld c region).runningOn region = none :=
  replaceOld_recorded c region oldId old hrun hg hreg

/-- records only ever name ended operators of the right region: kept by `buryOperator` (the only writer
    of `records`) and by every step that leaves `records` alone (statuses only move along the matrix, and an
    ended operator cannot move). -/
theorem records_name_ended_operators (c : Ctl) (hi : RecInv c) :
    (∀ id, RecInv (bury c id)) ∧
    (∀ c', Le c c' → c'.records = c.records → RecInv c') :=
  ⟨fun id => recInv_bury c id hi, fun c' hle hrec => recInv_of_le c c' hle hrec hi⟩

/-- **records_always_name_ended_operators**: in every run of the controller (any event list, from the empty
    controller or from any state whose records are sound) every record `region ↦ operator` names an existing
    operator of that region which is in an end status – so what `GetRecords` / `GetOperatorStatus` report about
    a finished operator is final.  Proved by replaying the `le_*` lemmas for the stronger relation
    `K = Le ∧ keeps RecInv` through all controller functions (`Lemmas/OpCtlRecRun.lean`). -/
theorem records_always_name_ended_operators (evs : List Ev) (r id : Nat)
    (h : (r, id) ∈ (runEv {} evs).records) :
    ∃ o, (runEv {} evs).getOp id = some o ∧ o.region = r ∧ o.status.isEnd = true :=
  recInv_runEv {} evs recInv_empty r id h

theorem records_sound_from_any_state (c : Ctl) (hi : RecInv c) (evs : List Ev) : RecInv (runEv c evs) :=
  recInv_runEv c evs hi

/-- **recorded_region_stays_recorded**: once a region has a record (e.g. after any of the sites above), then after
    any further events it still has one, and that record names an existing operator of the region in an end
    status.  (The model has no TTL: PD's record cache forgets an entry after ten minutes.) -/
theorem recorded_region_stays_recorded (c : Ctl) (hi : RecInv c) (r : Nat) (h : HasRec c r) (evs : List Ev) :
    ∃ id o, (r, id) ∈ (runEv c evs).records ∧ (runEv c evs).getOp id = some o ∧ o.region = r ∧
      o.status.isEnd = true := by
  have h1 := hasRec_runEv c evs r h
  have h2 := recInv_runEv c evs hi
  unfold HasRec at h1
  rw [List.any_eq_true] at h1
  obtain ⟨x, hx, hxr⟩ := h1
  have hx1 : x.1 = r := by simpa using hxr
  have hmem : (r, x.2) ∈ (runEv c evs).records := by rw [← hx1]; exact hx
  obtain ⟨o, g, hr, he⟩ := h2 r x.2 hmem
  exact ⟨x.2, o, hmem, g, hr, he⟩

theorem hasRec_of_recordOn {c : Ctl} {r id : Nat} (h : c.recordOn r = some id) : HasRec c r := by
  unfold Ctl.recordOn at h
  unfold HasRec
  cases hf : c.records.find? (fun x => x.1 == r) with
  | none => rw [hf] at h; cases h
  | some x =>
    rw [List.any_eq_true]
    have hp := List.find?_some hf
    exact ⟨x, List.mem_of_find?_eq_some hf, hp⟩

/-- **removed_operator_stays_accounted_for**: an operator removed from the running map by `RemoveOperator`
    is ended and recorded at once, and after any further events its region still has a record naming an ended
    operator of that region – the full "ended and recorded" clause for this way out of the running set, over
    whole histories. -/
theorem removed_operator_stays_accounted_for (c : Ctl) (hi : RecInv c) (id : Nat) (o : Op)
    (h : c.getOp id = some o) (hrun : c.runningOn o.region = some id) (evs : List Ev) :
    ∃ k x, (o.region, k) ∈ (runEv c (.remove id :: evs)).records ∧
      (runEv c (.remove id :: evs)).getOp k = some x ∧ x.region = o.region ∧ x.status.isEnd = true := by
  obtain ⟨_, _, _, _, hrec, _⟩ := remove_event_ends_and_records c id o h hrun
  have hi' := recInv_stepEv c (.remove id) hi
  exact recorded_region_stays_recorded _ hi' o.region (hasRec_of_recordOn hrec) evs

/-- non-vacuity: a running operator, removed -/
example :
    let o : Op := { (default : Op) with id := 7, region := 3, status := .started }
    let c : Ctl := { ops := [o], running := [(3, 7)] }
    (removeOperator c 7).2 = true ∧ (removeOperator c 7).1.recordOn 3 = some 7 ∧
      ((removeOperator c 7).1.getOp 7).map (·.status) = some .canceled := by decide

/-! ### admission -/

/-- **admit_only_equal_epoch**: when `checkAddOperator` lets operators through, each of them is in
    status CREATED, its region is cached, and its recorded epoch equals the cached region's epoch;
    an operator already running on the region has strictly lower priority. -/
theorem admit_only_equal_epoch (c : Ctl) (ids : List Nat) (h : (checkAdd c ids).2 = true) :
    ∀ id ∈ ids, ∃ o v, c.getOp id = some o ∧ c.view o.region = some v ∧
      v.confVer = o.confVer ∧ v.version = o.version ∧ o.status = .created ∧
      (∀ oldId old, c.runningOn o.region = some oldId → c.getOp oldId = some old → old.level < o.level) := by
  intro id hid
  unfold checkAdd at h
  split at h
  · cases h
  · next hall =>
    have hall' : ids.all (admissible c) = true := by simpa using hall
    have := List.all_eq_true.1 hall' id hid
    unfold admissible at this
    cases ho : c.getOp id with
    | none => simp [ho] at this
    | some o =>
      cases hv : c.view o.region with
      | none => simp [ho, hv] at this
      | some v =>
        simp only [ho, hv, Bool.and_eq_true, beq_iff_eq, decide_eq_true_eq] at this
        obtain ⟨⟨⟨⟨hver, hcv⟩, hold⟩, hst⟩, _⟩ := this
        refine ⟨o, v, rfl, hv, hcv, hver, hst, ?_⟩
        intro oldId old hr hg
        simp only [hr, hg, decide_eq_true_eq] at hold
        exact hold

/-! ### commands -/

/-- **command_addressed_to_current_leader_with_current_epoch**: every command `SendScheduleCommand`
    produces for a region view is addressed to that view's leader and carries that view's epoch. -/
theorem command_addressed_to_current_leader_with_current_epoch (v : View) (s : Step) :
    ∀ m ∈ sendCommand v s, m.region = v.id ∧ m.target = v.region.leader ∧ m.confVer = v.confVer ∧
      m.version = v.version ∧ v.region.leader ≠ 0 := by
  intro m hm
  unfold sendCommand at hm
  simp only at hm
  split at hm
  · cases hm
  · split at hm
    · cases hm
    · next hl =>
      simp only [List.mem_singleton] at hm
      subst hm
      exact ⟨rfl, rfl, rfl, rfl, by simpa using hl⟩

/-! ### stale operators -/

/-- **failed_precondition_cancelled** / **foreign_change_cancelled_next_heartbeat**: at a heartbeat,
    if the operator running on the region is still STARTED after `Check`, has a current step, and either
    that step's `CheckSafety` fails on the reported region or the region's conf version has advanced
    by more than the finished and current steps account for (or has gone backwards), then after the
    heartbeat the operator is CANCELED (for every waiting queue and every random choice). -/
theorem stale_operator_cancelled_at_heartbeat (c : Ctl) (v : View) (rs : List Nat) (id : Nat) (o : Op) (s : Step)
    (hrun : c.runningOn v.id = some id) (hop : c.getOp id = some o) (hreg : o.region = v.id)
    (hst : (o.check v).1.status = .started) (hstep : (o.check v).2 = some s)
    (hbad : checkSafety v.region s = false ∨ v.confVer < o.confVer ∨
            v.confVer - o.confVer > (o.check v).1.confVerChanged v.region) :
    ∃ o', (dispatch c v true rs).1.getOp id = some o' ∧ o'.status = .canceled := by
  -- after the stale check the operator is cancelled; everything that follows keeps end statuses
  have hid : o.id = id := getOp_some hop
  have hrel := rel_check o v
  generalize hch : o.check v = ch at hst hstep hbad hrel
  obtain ⟨o1, step⟩ := ch
  simp only at hst hstep hbad hrel
  subst hstep
  have hg1 : (c.setOp o1).getOp id = some o1 := by
    rw [getOp_setOp, hop]; simp [hrel.id, hid]
  have hrun1 : (c.setOp o1).runningOn v.id = some id := hrun
  -- removeOperator cancels it
  have hcancel : ∃ o2, (removeOperator (c.setOp o1) o1.id).1.getOp id = some o2 ∧ o2.status = .canceled := by
    have e1 : o1.id = id := by rw [hrel.id, hid]
    unfold removeOperator
    rw [e1, hg1]
    simp only
    have hrl : removeLocked (c.setOp o1) o1 =
        ({ c.setOp o1 with running := (c.setOp o1).running.filter (fun x => x.1 != o1.region) }, true) := by
      unfold removeLocked
      have : (c.setOp o1).runningOn o1.region = some o1.id := by rw [hrel.region, hreg, e1]; exact hrun1
      simp [this]
    rw [hrl]
    simp only [if_true]
    -- the cancelled operator
    have hto : ((o1.to .canceled).1).status = .canceled := by
      unfold Op.to
      have : canMove o1.status .canceled = true := by rw [hst]; decide
      simp [this]
    have hidto : (o1.to .canceled).1.id = o1.id := (rel_to o1 .canceled).id
    generalize hc2 : (({ c.setOp o1 with running := (c.setOp o1).running.filter (fun x => x.1 != o1.region) } : Ctl).setOp
      (o1.to .canceled).1) = c2
    have hg2 : c2.getOp id = some (o1.to .canceled).1 := by
      rw [← hc2, getOp_setOp]
      have : ({ c.setOp o1 with running := (c.setOp o1).running.filter (fun x => x.1 != o1.region) } : Ctl).getOp id
          = some o1 := hg1
      rw [this]; simp [hidto]
    -- bury keeps an ended operator as it is
    unfold bury
    rw [hg2]
    simp only [hto, Status.isEnd, Status.idx]
    refine ⟨(o1.to .canceled).1, ?_, hto⟩
    show (c2.setOp (o1.to .canceled).1).getOp id = some (o1.to .canceled).1
    rw [getOp_setOp, hg2]; simp
  obtain ⟨o2, hg2, hs2⟩ := hcancel
  -- now follow dispatch
  have keep : ∀ c3, Le (removeOperator (c.setOp o1) o1.id).1 c3 → ∃ o', c3.getOp id = some o' ∧ o'.status = .canceled := by
    intro c3 hl
    obtain ⟨o3, g3, r3⟩ := hl.some id o2 hg2
    refine ⟨o3, g3, ?_⟩
    have := reach_from_end r3.status (by rw [hs2]; rfl)
    rw [this, hs2]
  unfold dispatch
  rw [hrun]
  simp only [hop, hch, hst]
  unfold checkStale
  rcases hbad with hb | hb
  · simp only [hb, Bool.not_false, if_true]
    generalize hq : promote (removeOperator (c.setOp o1) o1.id).1 rs = q
    obtain ⟨c3, m⟩ := q
    have := le_promote (removeOperator (c.setOp o1) o1.id).1 rs
    rw [hq] at this
    exact keep c3 this
  · cases hcs : checkSafety v.region s with
    | false =>
      simp only [Bool.not_false, if_true]
      generalize hq : promote (removeOperator (c.setOp o1) o1.id).1 rs = q
      obtain ⟨c3, m⟩ := q
      have := le_promote (removeOperator (c.setOp o1) o1.id).1 rs
      rw [hq] at this
      exact keep c3 this
    | true =>
      have hcond : (decide (v.confVer < o1.confVer) || decide (v.confVer - o1.confVer > o1.confVerChanged v.region)) = true := by
        rw [hrel.confVer]
        rcases hb with h | h <;> simp [h]
      simp only [Bool.not_true, Bool.false_eq_true, if_false, hcond, if_true]
      generalize hq : promote (removeOperator (c.setOp o1) o1.id).1 rs = q
      obtain ⟨c3, m⟩ := q
      have := le_promote (removeOperator (c.setOp o1) o1.id).1 rs
      rw [hq] at this
      exact keep c3 this

/-! ### F21: an operator that undoes its own earlier step is judged stale -/

open PdModel.StoreSim in
/-- promote learner 5, remove peer 5, add learner 6 – executed step by step by the store -/
def f14Op : Op :=
  { id := 8, desc := 0, region := 2, confVer := 9, version := 8, level := 1, kindRegion := true, kindMerge := false,
    range0 := 0, steps := [.promoteLearner 5 205, .removePeer 5 205, .addLightLearner 6 506] }

def f14Sim0 : PdModel.StoreSim.Sim :=
  { id := 2, region := ⟨[⟨8, 208, .voter⟩, ⟨5, 205, .learner⟩], 8⟩, confVer := 9, version := 8 }

/-- the history: AddOperator, the store executes the command, heartbeat, the store executes the
    next command, heartbeat – only the operator's own commands change the region -/
def f14Run : Ctl × PdModel.StoreSim.Sim :=
  let c0 : Ctl := (stepEv (stepEv {} (.putRegion f14Sim0.view)).1 (.newOp f14Op)).1
  let (c1, m1) := stepEv c0 (.add [8])
  let s1 := m1.foldl PdModel.StoreSim.exec f14Sim0
  let (c2, m2) := stepEv c1 (.heartbeat s1.view [])
  let s2 := m2.foldl PdModel.StoreSim.exec s1
  let (c3, _) := stepEv c2 (.heartbeat s2.view [])
  (c3, s2)

/-- **own_steps_stale_counterexample** (F21): the region changed only through the operator's own
    commands (conf version 9 → 11), yet at the second heartbeat the operator is CANCELED: the finished
    promote step no longer counts because its peer is gone. -/
theorem own_steps_stale_counterexample :
    f14Run.2.confVer = 11 ∧ f14Run.2.region.peers = [⟨8, 208, .voter⟩] ∧
    (f14Run.1.getOp 8).map (·.status) = some .canceled ∧ f14Run.1.runningOn 2 = none := by decide

/-! non-vacuity of `stale_operator_cancelled_at_heartbeat`: a foreign peer appears -/
example :
    let c0 : Ctl := (stepEv (stepEv {} (.putRegion f14Sim0.view)).1 (.newOp f14Op)).1
    let c1 := (stepEv c0 (.add [8])).1
    let v : View := { f14Sim0.view with region := ⟨f14Sim0.region.peers ++ [⟨3, 303, .learner⟩], 8⟩, confVer := 10 }
    ((stepEv c1 (.heartbeat v [])).1.getOp 8).map (·.status) = some .canceled := by decide

end PdModel.OpCtl
