import PdModel.Model.Builder
import PdModel.Spec.C08
import PdModel.Lemmas.BuilderJoint2
import PdModel.Lemmas.BuilderCalls
import PdModel.Lemmas.BuilderLeave
import PdModel.Lemmas.BuilderSingle
import PdModel.Generated.Builder
set_option linter.unusedSimpArgs false
set_option linter.unusedVariables false
/-!
C08 – property theorems.
-/
namespace PdModel.Builder
open PdModel.Steps PdModel.Spec

/-- the order of planners, preference functions and leader-target conditions the model follows is
    the one extracted from the Go source on this run -/
theorem builder_structure_as_modelled :
    PdModel.Generated.Builder.peerPlanOrder =
      ["planReplace", "planPromotePeer", "planDemotePeer", "planRemovePeer", "planAddPeer"] ∧
    PdModel.Generated.Builder.planPreferOrder =
      ["planPreferReplaceByNearest", "planPreferUpStoreAsLeader", "planPreferOldPeerAsLeader",
       "planPreferAddOrPromoteTargetLeader", "planPreferTargetLeader", "planPreferLessLeaderTransfer"] ∧
    PdModel.Generated.Builder.leaderPreferOrder =
      ["preferLeaderRoleAsLeader", "preferUpStoreAsLeader", "preferCurrentLeader",
       "preferKeepVoterAsLeader", "preferOldPeerAsLeader"] ∧
    PdModel.Generated.Builder.leaderTargetConditions =
      ["isTombstone", "isOffline", "isDown", "pauseLeaderTransfer", "isDisconnected", "isBusy",
       "hasRejectLeaderProperty"] := by decide

/-! ### the joint-consensus builder -/

/-- the placement a recorded request asks for -/
def requestedTarget (b0 : B) : C08.Target := targetOfPeers b0.targetPeers (reqLeader b0)

theorem votersOf_target (T : List Peer) (tl : Nat) (h : plainRoles T) :
    C08.targetVoters (targetOfPeers T tl) = votersOf T := by
  simp only [C08.targetVoters, targetOfPeers, votersOf, List.countP_map]
  apply List.countP_congr
  intro p hp
  rcases h p hp with e | e <;> simp [e]

/-- **C08, joint consensus.**  For every recorded request on a well-formed region (`Recorded`): if
    `prepareBuild` succeeds, decides for joint consensus and `buildStepsWithJointConsensus` returns
    steps, these steps are a safe plan that reaches the requested peers, roles and leader.
    No bound on the number of stores or peers; store states, labels, rules, flags are arbitrary. -/
theorem build_joint_safe (b0 b1 b2 : B) (nid : Nat) (rec : Recorded b0)
    (h1 : prepareBuild b0 nid = .ok b1) (hj : b1.useJoint = true) (h2 : buildJoint b1 = .ok b2) :
    C08.SafePlan ⟨b0.originPeers, b0.originLeader⟩ (requestedTarget b0) b2.steps := by
  obtain ⟨k, hs, hcur, hR, hP, hD, hA, had, huj, htl⟩ := prepareBuild_spec b0 b1 nid h1
  have hd : b0.allowDemote = true := rec.demote (huj hj)
  -- the loops
  obtain ⟨ka, a0, a1, a2, a3, a4, a5⟩ := addLoop_spec (pmSorted b1.toAdd) b1
  generalize hba : (pmSorted b1.toAdd).foldl jointAddBody b1 = ba at ka a0 a1 a2 a3 a4 a5
  obtain ⟨kb, s1, s2, s3, s4, s5, s6⟩ := setTarget_spec ba
  generalize hbb : setTargetLeaderIfNotExist ba = bb at kb s1 s2 s3 s4 s5 s6
  unfold buildJoint at h2
  simp only [hba, hbb] at h2
  by_cases ht0 : (bb.targetLeader == 0) = true
  · rw [if_pos ht0] at h2; cases h2
  rw [if_neg ht0] at h2
  have ht0' : bb.targetLeader ≠ 0 := by simpa using ht0
  obtain ⟨kc, c0, c1, c2, c3, c4, c5⟩ := demoteLoop_spec (pmSorted bb.toRemove) bb
  generalize hbc : (pmSorted bb.toRemove).foldl jointDemoteBody bb = bc at kc c0 c1 c2 c3 c4 c5 h2
  -- names
  have hA' := hA
  have ctx := jd_ctx b0 rec hd nid b1.toAdd hA
  have hRS := jd_R_stores b0 rec hd nid b1.toAdd hA
  obtain ⟨hA1, hA2, hA3⟩ := jd_A_facts b0 rec hd nid b1.toAdd hA
  have eR : pmSorted bb.toRemove = jdR b0 := by rw [s4, a4, hR]; rfl
  have eP : bc.toPromote = jdPm b0 b1.toAdd := by rw [c2, s2, a2, hP]; rfl
  have eD : bc.toDemote = jdDm b0 := by rw [c5, s3, a5, hD, eR]; rfl
  have eO : bc.originPeers = b0.originPeers := by
    rw [kc.originPeers, kb.originPeers, ka.originPeers, k.originPeers]
  have eT : bc.targetPeers = b0.targetPeers := by
    rw [kc.targetPeers, kb.targetPeers, ka.targetPeers, k.targetPeers]
  have eL : bc.originLeader = b0.originLeader := by
    rw [kc.originLeader, kb.originLeader, ka.originLeader, k.originLeader]
  have eCur : bc.cur.leader = bc.originLeader := by
    rw [c3, s5, a3, hcur, eL]
  -- the target leader
  have htv : ∃ p, pmGet b0.targetPeers bb.targetLeader = some p ∧ p.role = .voter := by
    rcases s6 with ⟨hne, he⟩ | ⟨_, h0 | ⟨p, hp, hps, hr1, hr2⟩⟩
    · rw [he, a0, htl]
      rw [a0, htl] at hne
      unfold reqLeader at hne ⊢
      cases hg : pmGet b0.targetPeers b0.targetLeader with
      | none => simp [hg] at hne
      | some p =>
        simp only [hg] at hne ⊢
        cases hl : isLearner p
        · simp only [hl, Bool.false_eq_true, if_false]
          refine ⟨p, hg, ?_⟩
          rcases rec.plainT p (pmGet_some hg).1 with e | e
          · exact e
          · simp [isLearner, e] at hl
        · simp [hl] at hne
    · exact absurd h0 ht0'
    · rw [ka.targetPeers, k.targetPeers] at hp
      refine ⟨p, hps ▸ pmGet_of_mem rec.nodupT hp, ?_⟩
      rcases rec.plainT p hp with e | e
      · exact e
      · exact absurd e hr1
  have hreq : reqLeader b0 = 0 ∨ bb.targetLeader = reqLeader b0 := by
    rcases s6 with ⟨hne, he⟩ | ⟨h0, _⟩
    · right; rw [he, a0, htl]
    · left; rw [← htl, ← a0]; exact h0
  obtain ⟨pt, hpt, hptr⟩ := htv
  have htT : bb.targetLeader ∈ stores b0.targetPeers :=
    mem_stores.2 ⟨pt, (pmGet_some hpt).1, (pmGet_some hpt).2⟩
  have hfT : finV b0.targetPeers bb.targetLeader = true :=
    finV_iff.2 ⟨pt, (pmGet_some hpt).1, (pmGet_some hpt).2, hptr⟩
  -- the middle part
  obtain ⟨pl, hplO, hpls, hplr⟩ := rec.leader
  have hOS : ∀ p ∈ b0.originPeers, p ∈ jdS b0 b1.toAdd := fun p hp =>
    (jd_mem_S b0 rec hd nid b1.toAdd hA p).2 (Or.inl hp)
  obtain ⟨mid, m1, m2, m3⟩ := jointMid_spec bc (jdS b0 b1.toAdd) eCur
    (by rw [eL, ← hpls]; exact rec.store0 pl hplO)
    (by rw [eO]; exact hOS) (by rw [eO]; exact rec.plainO) (by rw [eT]; exact rec.plainT)
    (by rw [eT, c0]; exact ⟨pt, hpt, hptr⟩)
  rw [eT, eP, eD, eL, c0] at m3
  simp only [Except.ok.injEq] at h2
  have hsteps : b2.steps = (jdA b1.toAdd).map (addStep b1.lightWeight) ++ (mid ++ (jdR b0).map rmStep) := by
    rw [← h2, removeLoop_steps, m1, m2, c4, eR, c1, s1, a1, hs, rec.noSteps]
    simp [jdA, List.append_assoc]
  -- safety
  have hplain : C08.voterCount ⟨b0.originPeers, b0.originLeader⟩ = votersOf b0.originPeers :=
    plain_voterCount rec.plainO _
  have hvS : votersOf (jdS b0 b1.toAdd) = votersOf b0.originPeers := by
    simp [votersOf, jdS, List.countP_append, List.countP_map, asLearner, Function.comp_def]
  have hm : C08.minVoters ⟨b0.originPeers, b0.originLeader⟩ (requestedTarget b0) ≤
      min (votersOf (jdS b0 b1.toAdd)) (votersOf b0.targetPeers) := by
    unfold C08.minVoters requestedTarget
    rw [hplain, votersOf_target _ _ rec.plainT, hvS]
    exact Nat.le_refl _
  obtain ⟨sa, ra⟩ := adds_safe (C08.minVoters ⟨b0.originPeers, b0.originLeader⟩ (requestedTarget b0))
    b1.lightWeight (jdA b1.toAdd) ⟨b0.originPeers, b0.originLeader⟩ rec.nodupO hA1
    (fun a ha => (hA2 a ha).1) (by rw [hplain]; unfold C08.minVoters; rw [hplain]; exact Nat.min_le_left _ _)
  have hlS : b0.originLeader ∈ stores (jdS b0 b1.toAdd) :=
    mem_stores.2 ⟨pl, hOS pl hplO, hpls⟩
  obtain ⟨sc, fc⟩ := joint_core_safe ctx (jdR b0) hRS b0.originLeader bb.targetLeader (reqLeader b0)
    (C08.minVoters ⟨b0.originPeers, b0.originLeader⟩ (requestedTarget b0)) hlS htT hfT hreq hm mid m3
  unfold C08.SafePlan
  rw [hsteps]
  refine ⟨(C08.stepsSafe_append _ _ _ _).2 ⟨sa, ?_⟩, ?_⟩
  · rw [ra]; exact sc
  · have : run ⟨b0.originPeers, b0.originLeader⟩
        ((jdA b1.toAdd).map (addStep b1.lightWeight) ++ (mid ++ (jdR b0).map rmStep)) =
        run (run ⟨b0.originPeers, b0.originLeader⟩ ((jdA b1.toAdd).map (addStep b1.lightWeight)))
          (mid ++ (jdR b0).map rmStep) := by simp [run, List.foldl_append]
    rw [this, ra]
    exact fc

/-- **C08 through the entry point.**  `NewBuilder(cluster, region).<any recording calls>.Build()` on a
    well-formed region that is not in a joint state: whenever the build takes the joint-consensus path and
    returns an operator, its steps are a safe plan for the placement the calls asked for. -/
theorem buildWith_joint_safe (c : Cluster) (origin : Region) (uh : List Nat) (skip : Bool)
    (calls : List Call) (nid : Nat) (b2 : B) (hg : GoodOrigin origin)
    (h : buildWith c origin uh skip calls nid = .ok b2) :
    ∃ b0, (∃ bn, newBuilder c origin uh skip = .ok bn ∧ applyCalls bn calls = .ok b0) ∧
      ∀ b1, prepareBuild b0 nid = .ok b1 → b1.useJoint = true →
        C08.SafePlan origin (requestedTarget b0) b2.steps := by
  unfold buildWith at h
  split at h; · cases h
  next bn hn =>
  split at h; · cases h
  next b0 hc =>
  refine ⟨b0, ⟨bn, hn, hc⟩, ?_⟩
  intro b1 hp hj
  obtain ⟨rec, e1, e2⟩ := recorded_of_calls c origin uh skip calls bn b0 hg hn hc
  unfold build at h
  rw [hp] at h
  simp only [hj, if_true] at h
  have := build_joint_safe b0 b1 b2 nid rec hp hj h
  rw [e1, e2] at this
  exact this

/-! ### leaving a joint state -/

theorem execChangePeerV2_leave_steps (b : B) :
    (execChangePeerV2 b false true).steps =
      b.steps ++ (if b.originLeader != b.targetLeader then [.transferLeader b.cur.leader b.targetLeader] else []) ++
      [.leave (toItems (pmSorted b.toPromote)) (toItems (pmSorted b.toDemote))] ∧
    (execChangePeerV2 b false true).targetLeader = b.targetLeader := by
  cases hc : (b.originLeader != b.targetLeader) <;>
    simp [execChangePeerV2, hc, execTransferLeader, List.append_assoc]

/-- **C08, leave joint.**  `CreateLeaveJointStateOperator` on a well-formed region in a joint state: if a
    target leader was found (`targetLeader ≠ 0`; it always is when some voter of the incoming configuration
    sits on a store the cluster knows), the steps – an optional leader transfer and the `Leave` – are a safe
    plan that ends with incoming → voter, demoting → learner. -/
theorem build_leave_joint_safe (c : Cluster) (origin : Region) (uh : List Nat) (b : B)
    (hwf : C08.WellFormed origin) (h : createLeaveJoint c origin uh = .ok b) (ht : b.targetLeader ≠ 0) :
    C08.SafePlan origin ⟨origin.peers.map (fun p => (p.store, leaveRole p.role)), 0⟩ b.steps := by
  have hn : (stores origin.peers).Nodup := hwf.1
  have hO : origin.peers.foldl pmSet [] = origin.peers := by
    simpa using foldl_pmSet_fresh [] origin.peers (by simp [stores]) hn
  unfold createLeaveJoint at h
  split at h; · cases h
  next bn hbn =>
  split at h; · cases h
  -- the fields NewBuilder sets
  have hf : bn.originPeers = origin.peers ∧ bn.originLeader = origin.leader ∧ bn.targetPeers = bn.originPeers ∧
      bn.steps = [] := by
    unfold newBuilder at hbn
    split at hbn; · cases hbn
    simp only at hbn
    split at hbn; · cases hbn
    split at hbn; · cases hbn
    split at hbn; · cases hbn
    cases hbn
    exact ⟨hO, rfl, rfl, rfl⟩
  obtain ⟨f1, f2, f3, f4⟩ := hf
  simp only [Except.ok.injEq] at h
  generalize hb0 : ({ bn with toPromote := bn.originPeers.filter (fun o => o.role == .incoming),
                              toDemote := bn.originPeers.filter (fun o => o.role == .demoting) } : B) = b0 at h
  have g0 : b0.steps = [] ∧ b0.toPromote = origin.peers.filter (fun o => o.role == .incoming) ∧
      b0.toDemote = origin.peers.filter (fun o => o.role == .demoting) ∧ b0.originLeader = origin.leader ∧
      b0.originPeers = origin.peers ∧ b0.targetPeers = b0.originPeers := by
    subst hb0; simp [f1, f2, f3, f4]
  obtain ⟨g1, g2, g3, g4, g5, g6⟩ := g0
  obtain ⟨l1, l2, l3, l4, l5, l6, l7⟩ := leaveJointLeader_spec b0 g6
  generalize hbL : leaveJointLeader b0 = bL at h l1 l2 l3 l4 l5 l6 l7
  -- the target leader of the result is the one chosen here
  have htL : bL.targetLeader ≠ 0 := by
    intro e
    apply ht
    rw [← h]
    simp only [e, beq_self_eq_true, if_true]
    rw [(execChangePeerV2_leave_steps _).2]
  have e0 : (bL.targetLeader == 0) = false := by simpa using htL
  simp only [e0, Bool.false_eq_true, if_false] at h
  generalize hb4 : (if (bL.originLeader != bL.targetLeader) = true then ({ bL with kindLeader := true } : B) else bL) = b4 at h
  have q : b4.steps = bL.steps ∧ b4.toPromote = bL.toPromote ∧ b4.toDemote = bL.toDemote ∧
      b4.originLeader = bL.originLeader ∧ b4.targetLeader = bL.targetLeader ∧ b4.cur = bL.cur := by
    subst hb4; split <;> exact ⟨rfl, rfl, rfl, rfl, rfl, rfl⟩
  obtain ⟨q1, q2, q3, q4, q5, q6⟩ := q
  have hsteps := (execChangePeerV2_leave_steps b4).1
  rw [h] at hsteps
  rw [q1, l1, g1, q2, l2, g2, q3, l3, g3, q4, l4, g4, q5, q6, l6, g5, g4] at hsteps
  simp only [List.nil_append] at hsteps
  -- facts about the chosen leader
  rcases l7 with e | ⟨pt, hpt, hpts, hr1, hr2⟩
  · exact absurd e htL
  rw [g5] at hpt
  have hfull : pt.role = .voter ∨ pt.role = .incoming := by
    cases hr : pt.role <;> simp_all
  have hgt : pmGet origin.peers bL.targetLeader = some pt := hpts ▸ pmGet_of_mem hn hpt
  obtain ⟨pl, hpl, hplr⟩ := hwf.2.2
  have hm0 : C08.minVoters origin ⟨origin.peers.map (fun p => (p.store, leaveRole p.role)), 0⟩ ≤ C08.voterCount origin :=
    Nat.min_le_left _ _
  obtain ⟨s1, s2⟩ := leave_step_safe origin.peers bL.targetLeader _ hn ⟨pt, hpt, hpts, hfull⟩
    (by rw [voterCount_leader origin.peers bL.targetLeader origin.leader]; exact hm0)
  unfold C08.SafePlan
  rw [hsteps]
  by_cases e : origin.leader = bL.targetLeader
  · have e' : (origin.leader != bL.targetLeader) = false := by simp [e]
    simp only [e', Bool.false_eq_true, if_false, List.nil_append, C08.StepsSafe, run, List.foldl_cons,
      List.foldl_nil, and_true]
    have : origin = ⟨origin.peers, bL.targetLeader⟩ := by cases origin; simp_all
    rw [this]
    exact ⟨s1, s2⟩
  · have e' : (origin.leader != bL.targetLeader) = true := by simpa using e
    simp only [e', if_true, List.cons_append, List.nil_append, C08.StepsSafe, run, List.foldl_cons,
      List.foldl_nil, and_true]
    have hap : apply origin (.transferLeader origin.leader bL.targetLeader) = ⟨origin.peers, bL.targetLeader⟩ := rfl
    rw [hap]
    refine ⟨⟨?_, s1⟩, s2⟩
    apply transfer_ok
    · simp only [C08.isFullVoter, storePeer_eq_pmGet, hgt]
      rcases hfull with hh | hh <;> simp [hh]
    · exact hn
    · exact hm0

/-! ### the non-joint builder with at most one pending change -/

theorem buildNoJoint_eq (b : B) :
    buildNoJoint b = (match planLoop (pendingCount b) b with
      | .error e => .error e
      | .ok b' => if (finishNoJoint b').steps.length == 0 then .error .noStep else .ok (finishNoJoint b')) := rfl

/-- **C08, single change** (the only way `buildStepsWithoutJointConsensus` runs while joint consensus is
    on, and every `Create{Add,Remove,Promote}…Operator` / leader transfer): for every recorded request on
    a well-formed region whose peer ids are distinct, if `prepareBuild` leaves at most one pending peer
    change and the greedy loop returns steps, they are a safe plan for the requested placement.  This
    goes through `peerPlan` (its planners, `comparePlan`, the leader candidates) and the final transfer. -/
theorem build_single_change_safe (b0 b1 b2 : B) (nid : Nat) (rec : Recorded b0)
    (hids : (b0.originPeers.map (·.id)).Nodup)
    (h1 : prepareBuild b0 nid = .ok b1) (hpc : pendingCount b1 ≤ 1) (h2 : buildNoJoint b1 = .ok b2) :
    C08.SafePlan ⟨b0.originPeers, b0.originLeader⟩ (requestedTarget b0) b2.steps := by
  have hp := prepared_of b0 b1 nid rec h1
  -- one round (or none) of the loop
  have hround : ∃ b', planLoop (pendingCount b1) b1 = .ok b' ∧ RoundOk b0 b' ∧
      b'.targetPeers = b0.targetPeers ∧ b'.targetLeader = reqLeader b0 := by
    rw [buildNoJoint_eq] at h2
    cases hl : planLoop (pendingCount b1) b1 with
    | error e => rw [hl] at h2; cases h2
    | ok b' =>
      refine ⟨b', rfl, ?_⟩
      unfold pendingCount at hpc hl
      -- which map is non-empty
      cases hA : b1.toAdd with
      | nil =>
        cases hR : b1.toRemove with
        | nil =>
          cases hP : b1.toPromote with
          | nil =>
            cases hD : b1.toDemote with
            | nil =>
              simp only [hA, hR, hP, hD, List.length_nil, planLoop, pendingCount] at hl
              simp at hl
              subst hl
              exact ⟨⟨sinv_start b0 b1 nid rec hp, by rw [hp.cur]; exact matches_none b0 b1 nid rec hp hA hR hP hD⟩,
                hp.keeps.targetPeers, hp.leader⟩
            | cons d ds =>
              have hds : ds = [] := by
                simp only [hA, hR, hP, hD, List.length_nil, List.length_cons] at hpc
                exact List.length_eq_zero_iff.1 (by omega)
              subst hds
              simp only [hA, hR, hP, hD, List.length_nil, List.length_cons, planLoop, pendingCount] at hl
              simp only [Nat.zero_add, Nat.add_eq_zero_iff, List.length_eq_zero_iff, beq_iff_eq, reduceCtorEq,
                and_false, if_false] at hl
              split at hl; · cases hl
              next hne =>
              split at hl
              · cases hl
                exact ⟨round_demote b0 b1 nid rec hp d hids hA hR hP hD (by simpa using hne),
                  by rw [(execPlan_keeps _ _).1, hp.keeps.targetPeers], by rw [(execPlan_keeps _ _).2, hp.leader]⟩
              · cases hl
          | cons n ns =>
            have hns : ns = [] ∧ b1.toDemote = [] := by
              simp only [hA, hR, hP, List.length_nil, List.length_cons] at hpc
              exact ⟨List.length_eq_zero_iff.1 (by omega), List.length_eq_zero_iff.1 (by omega)⟩
            obtain ⟨hns1, hD⟩ := hns
            subst hns1
            simp only [hA, hR, hP, hD, List.length_nil, List.length_cons, planLoop, pendingCount] at hl
            simp only [Nat.zero_add, Nat.add_eq_zero_iff, List.length_eq_zero_iff, beq_iff_eq, reduceCtorEq,
              and_false, false_and, if_false] at hl
            split at hl; · cases hl
            split at hl
            · cases hl
              exact ⟨round_promote b0 b1 nid rec hp n hA hR hP hD,
                by rw [(execPlan_keeps _ _).1, hp.keeps.targetPeers], by rw [(execPlan_keeps _ _).2, hp.leader]⟩
            · cases hl
        | cons x xs =>
          have hxs : xs = [] ∧ b1.toPromote = [] ∧ b1.toDemote = [] := by
            simp only [hA, hR, List.length_nil, List.length_cons] at hpc
            exact ⟨List.length_eq_zero_iff.1 (by omega), List.length_eq_zero_iff.1 (by omega),
              List.length_eq_zero_iff.1 (by omega)⟩
          obtain ⟨hxs1, hP, hD⟩ := hxs
          subst hxs1
          simp only [hA, hR, hP, hD, List.length_nil, List.length_cons, planLoop, pendingCount] at hl
          simp only [Nat.zero_add, Nat.add_eq_zero_iff, List.length_eq_zero_iff, beq_iff_eq, reduceCtorEq,
            and_false, false_and, if_false] at hl
          split at hl; · cases hl
          next hne =>
          split at hl
          · cases hl
            exact ⟨round_remove b0 b1 nid rec hp x hA hR hP hD (by simpa using hne),
              by rw [(execPlan_keeps _ _).1, hp.keeps.targetPeers], by rw [(execPlan_keeps _ _).2, hp.leader]⟩
          · cases hl
      | cons a as =>
        have has : as = [] ∧ b1.toRemove = [] ∧ b1.toPromote = [] ∧ b1.toDemote = [] := by
          simp only [hA, List.length_cons] at hpc
          exact ⟨List.length_eq_zero_iff.1 (by omega), List.length_eq_zero_iff.1 (by omega),
            List.length_eq_zero_iff.1 (by omega), List.length_eq_zero_iff.1 (by omega)⟩
        obtain ⟨has1, hR, hP, hD⟩ := has
        subst has1
        simp only [hA, hR, hP, hD, List.length_nil, List.length_cons, planLoop, pendingCount] at hl
        simp only [Nat.zero_add, Nat.add_eq_zero_iff, List.length_eq_zero_iff, beq_iff_eq, reduceCtorEq,
          and_false, false_and, if_false] at hl
        split at hl; · cases hl
        next hne =>
        split at hl
        · cases hl
          exact ⟨round_add b0 b1 nid rec hp a hA hR hP hD (by simpa using hne),
            by rw [(execPlan_keeps _ _).1, hp.keeps.targetPeers], by rw [(execPlan_keeps _ _).2, hp.leader]⟩
        · cases hl
  obtain ⟨b', hl, hr, hT, hL⟩ := hround
  rw [buildNoJoint_eq, hl] at h2
  simp only at h2
  split at h2; · cases h2
  cases h2
  obtain ⟨fs, ff⟩ := finish_safe (reqLeader b0) hr.inv hT rec.nodupT hr.matches_ hL (reqLeader_voter b0 rec)
  exact ⟨fs, ff⟩

/-- the same through the entry point `NewBuilder(region).<any recording calls>.Build()` -/
theorem buildWith_single_change_safe (c : Cluster) (origin : Region) (uh : List Nat) (skip : Bool)
    (calls : List Call) (nid : Nat) (b2 : B) (hg : GoodOrigin origin)
    (hids : (origin.peers.map (·.id)).Nodup)
    (h : buildWith c origin uh skip calls nid = .ok b2) :
    ∃ b0, (∃ bn, newBuilder c origin uh skip = .ok bn ∧ applyCalls bn calls = .ok b0) ∧
      ∀ b1, prepareBuild b0 nid = .ok b1 → b1.useJoint = false → pendingCount b1 ≤ 1 →
        C08.SafePlan origin (requestedTarget b0) b2.steps := by
  unfold buildWith at h
  split at h; · cases h
  next bn hn =>
  split at h; · cases h
  next b0 hc =>
  refine ⟨b0, ⟨bn, hn, hc⟩, ?_⟩
  intro b1 hp hj hpc
  obtain ⟨rec, e1, e2⟩ := recorded_of_calls c origin uh skip calls bn b0 hg hn hc
  unfold build at h
  rw [hp] at h
  simp only [hj, Bool.false_eq_true, if_false] at h
  have := build_single_change_safe b0 b1 b2 nid rec (by rw [e1]; exact hids) hp hpc h
  rw [e1, e2] at this
  exact this

/-! ### the two input classes on which the pinned builder is unsafe -/

def stepsOf (r : Except Err B) : List Step :=
  match r with
  | .ok b => b.steps
  | .error _ => []

def threeStores (sj oj : Bool) : Cluster :=
  { stores := [{ id := 1 }, { id := 2 }, { id := 3 }], supportJoint := sj, optJoint := oj }

def originF5a : Region := ⟨[⟨1, 11, .learner⟩, ⟨2, 12, .voter⟩, ⟨3, 13, .voter⟩], 3⟩
def targetF5a : C08.Target := ⟨[(2, .learner), (3, .voter)], 0⟩
def stepsF5a : List Step :=
  stepsOf (buildWith (threeStores false false) originF5a [] false
    [.setPeers [⟨2, 0, .learner⟩, ⟨3, 0, .voter⟩]] 100)

/-- F5a: without joint-consensus support a voter→learner change in place makes the builder add the
    learner on the store whose voter is still there -/
theorem build_nojoint_counterexample_occupied :
    stepsF5a = [.addLearner 2 100, .removePeer 1 11, .removePeer 2 12] ∧
    ¬ C08.SafePlan originF5a targetF5a stepsF5a ∧
    C08.firstViolation originF5a targetF5a stepsF5a = some (0, .precondition) := by
  refine ⟨by decide, ?_, by decide⟩
  rw [← C08.checkSafePlan_iff]; decide

def originF5b : Region := ⟨[⟨1, 11, .voter⟩, ⟨2, 12, .voter⟩], 1⟩
def targetF5b : C08.Target := ⟨[(1, .learner), (2, .voter), (3, .voter)], 0⟩
def stepsF5b : List Step :=
  stepsOf (buildWith (threeStores true false) originF5b [] false
    [.setPeers [⟨1, 0, .learner⟩, ⟨2, 0, .voter⟩, ⟨3, 0, .voter⟩]] 100)

/-- F5b: demotion allowed but joint consensus switched off: the voter is demoted before the new
    voter is added, one voter is left although origin and target have two -/
theorem build_nojoint_counterexample_voters :
    stepsF5b = [.transferLeader 1 2, .demoteFollower 1 11, .addLearner 3 100, .promoteLearner 3 100] ∧
    ¬ C08.SafePlan originF5b targetF5b stepsF5b ∧
    C08.firstViolation originF5b targetF5b stepsF5b = some (1, .votersBelowMin) := by
  refine ⟨by decide, ?_, by decide⟩
  rw [← C08.checkSafePlan_iff]; decide

end PdModel.Builder
