import PdModel.Model.RegionTree
import PdModel.Spec.C07
import PdModel.Lemmas.RegionTreeQuery
import PdModel.Generated.RegionTree
set_option linter.unusedSimpArgs false
set_option linter.unusedVariables false
/-!
C07 – property theorems.  `abs s` is the list of current regions of a `RegionsInfo` state (its main tree read
through the shared items), `Inv s` the invariant (Lemmas/RegionTreeRefine.lean): ordered non-overlapping
tree with exact size counter, tree = id map, every per-store sub-tree = the matching filter of the tree.

Quantifiers: every history of puts of well-formed regions (`Spec.C07.WF`, decidable) and removals of cached
regions, of any length, over arbitrary byte-string keys; every query argument; every choice a random pick
can make.  `pkg/btree` enters only through the ordered-list abstraction of the model.
-/
namespace PdModel.RegionTree
open PdModel.Spec

/-! ### refinement -/

/-- SetRegion = `put` on the current regions; it reports exactly the displaced regions; the invariant
    is kept. -/
theorem put_refines (s : RegionsInfo) (r : Region) (h : Inv s) (hr : C07.WF r) :
    Inv (setRegion s r).1 ∧ abs (setRegion s r).1 = C07.put (abs s) r ∧
      (setRegion s r).2 = C07.displaced (abs s) r :=
  let p := setRegion_refines h hr; ⟨p.inv, p.abs_eq, p.out_eq⟩

/-- RemoveRegion (of the cached region of an id) = `remove` on the current regions. -/
theorem remove_refines (s : RegionsInfo) (r : Region) (h : Inv s) (hr : getRegion s r.id = some r) :
    Inv (removeRegion s r) ∧ abs (removeRegion s r) = C07.remove (abs s) r.id :=
  removeRegion_refines h hr

/-- RemoveRegion with an OLDER RegionInfo of a cached id (RaftCluster.DropCacheRegion reads the region and removes
    it under two lock acquisitions; a heartbeat that moves the leader or changes roles / pending peers can land in
    between): if the old object still has the start key and size of the cached region and a peer (one per store) on
    every store where the cached region is indexed, the id leaves the map, the main tree and every sub-tree, and
    all counters stay exact. -/
theorem remove_stale_refines (s : RegionsInfo) (g c : Region) (h : Inv s)
    (hc : getRegion s g.id = some c) (h1 : g.startKey = c.startKey) (h3 : g.size = c.size)
    (hnd : (g.peers.map (·.store)).Nodup)
    (hcover : ∀ role st, C07.OnStore role st c → st ∈ g.peers.map (·.store)) :
    Inv (removeRegion s g) ∧ abs (removeRegion s g) = C07.remove (abs s) g.id :=
  removeRegion_stale_refines h hc h1 h3 hnd hcover

/-- one step of a history: put a region, or drop the cached region of an id (RaftCluster.DropCacheRegion) -/
inductive Mut where
  | put (r : Region)
  | drop (id : Nat)

def applyMut (s : RegionsInfo) : Mut → RegionsInfo
  | .put r => (setRegion s r).1
  | .drop id => match getRegion s id with
    | some g => removeRegion s g
    | none => s

def specMut (L : List Region) : Mut → List Region
  | .put r => C07.put L r
  | .drop id => C07.remove L id

def Mut.WF : Mut → Prop
  | .put r => C07.WF r
  | .drop _ => True

theorem get_none_remove {L : List Region} {id : Nat} (h : C07.get L id = none) : C07.remove L id = L := by
  unfold C07.remove
  rw [List.filter_eq_self]
  intro y hy
  unfold C07.get at h
  rw [List.find?_eq_none] at h
  simpa using h y hy

theorem applyMut_refines (s : RegionsInfo) (m : Mut) (h : Inv s) (hm : m.WF) :
    Inv (applyMut s m) ∧ abs (applyMut s m) = specMut (abs s) m := by
  cases m with
  | put r => exact ⟨(put_refines s r h hm).1, (put_refines s r h hm).2.1⟩
  | drop id =>
    simp only [applyMut, specMut]
    cases hg : getRegion s id with
    | none =>
      refine ⟨h, ?_⟩
      rw [get_none_remove]; rw [← getRegion_eq h]; exact hg
    | some g =>
      have hid : g.id = id := by
        obtain ⟨x, hx, rfl⟩ := getRegion_some hg
        exact (h.map.bwd _ _ hx).2
      have := remove_refines s g h (by rw [hid]; exact hg)
      rw [hid] at this
      exact this

/-- **the invariant ("sorted, pairwise non-overlapping, tree = id map, sub-trees = filters, counters exact")
    holds after every history, and the state is the specification's region list** -/
theorem history_refines (ms : List Mut) (hms : ∀ m ∈ ms, m.WF) :
    Inv (ms.foldl applyMut {}) ∧ abs (ms.foldl applyMut {}) = ms.foldl specMut [] := by
  suffices H : ∀ (s : RegionsInfo) (L : List Region), Inv s → abs s = L →
      Inv (ms.foldl applyMut s) ∧ abs (ms.foldl applyMut s) = ms.foldl specMut L from H {} [] inv_init rfl
  induction ms with
  | nil => intro s L h e; exact ⟨h, e⟩
  | cons m ms ih =>
    intro s L h e
    simp only [List.foldl_cons]
    have := applyMut_refines s m h (hms m (by simp))
    exact ih (fun m' hm' => hms m' (by simp [hm'])) _ _ this.1 (by rw [this.2, e])

/-! ### queries = linear scans over the current regions -/

theorem get_eq (s : RegionsInfo) (h : Inv s) (id : Nat) : getRegion s id = C07.get (abs s) id := getRegion_eq h id

theorem search_eq (s : RegionsInfo) (h : Inv s) (k : Key) : searchRegion s k = C07.search (abs s) k := search_eq_aux h k

theorem searchPrev_eq (s : RegionsInfo) (h : Inv s) (k : Key) :
    searchPrevRegion s k = C07.searchPrev (abs s) k := searchPrev_eq_aux h k

theorem scanRange_eq (s : RegionsInfo) (h : Inv s) (sk ek : Key) (limit : Int) :
    scanRange s sk ek limit = (C07.scan (abs s) sk ek limit).map some := scanRange_eq_aux h sk ek limit

theorem overlaps_eq (s : RegionsInfo) (h : Inv s) (q : Region) : getOverlaps s q = C07.overlaps (abs s) q :=
  overlaps_eq_aux h q

theorem adjacent_eq (s : RegionsInfo) (h : Inv s) (q : Region) :
    getAdjacentRegions s q = C07.adjacent (abs s) q := adjacent_eq_aux h q

/-- for a cached region the next neighbour is simply "the region that starts where it ends" -/
theorem adjacent_of_cached (s : RegionsInfo) (h : Inv s) (q : Region) (hq : q ∈ abs s) :
    (getAdjacentRegions s q).2 = (abs s).find? (fun n => decide (q.endKey ≠ [] ∧ n.startKey = q.endKey)) := by
  rw [adjacent_eq_aux h]
  unfold C07.adjacent
  simp only
  have hord : Ordered id (abs s) := ⟨List.pairwise_map.2 h.ord.1, by
    intro y hy; obtain ⟨b, hb, rfl⟩ := List.mem_map.1 hy; exact h.ord.2 b hb⟩
  have hwq : C07.WFRange q := hord.2 q hq
  by_cases hex : ∃ n ∈ abs s, q.endKey ≠ [] ∧ n.startKey = q.endKey
  · obtain ⟨n, hn, hne, hns⟩ := hex
    have hR : (abs s).find? (fun n => decide (q.endKey ≠ [] ∧ n.startKey = q.endKey)) = some n := by
      apply find?_eq_some_of_unique hn (by simp [hne, hns])
      intro c hc hp
      simp only [decide_eq_true_eq] at hp
      exact (hord.asc id).eq_of_key id hc hn (by simp only [id]; rw [hp.2, hns])
    have hL : (abs s).find? (fun m => decide (q.startKey < m.startKey)) = some n := by
      obtain ⟨l1, l2, hl, h1, h2⟩ := (hord.asc id).split id hn
      rw [List.find?_eq_some_iff_append]
      refine ⟨by simp only [decide_eq_true_eq]; unfold C07.WFRange at hwq; grind, l1, l2, hl, ?_⟩
      intro b hb
      have hbm : b ∈ abs s := hl ▸ (by simp [hb])
      have hlt := h1 b hb
      simp only [id] at hlt
      simp only [Bool.not_eq_eq_eq_not, Bool.not_true, decide_eq_false_iff_not]
      intro hqb
      rcases hord.tri id hq hbm with e | hb2 | hb2
      · subst e; exact absurd hqb (by grind)
      · simp only [id] at hb2; unfold Before at hb2; grind
      · simp only [id] at hb2; have := hord.2 b hbm; simp only [id] at this
        unfold Before C07.WFRange at *; grind
    rw [hL, hR]; simp [hns]
  · have hR : (abs s).find? (fun n => decide (q.endKey ≠ [] ∧ n.startKey = q.endKey)) = none := by
      rw [List.find?_eq_none]
      intro c hc
      simp only [decide_eq_true_eq]
      intro hp; exact hex ⟨c, hc, hp⟩
    rw [hR]
    cases hL : (abs s).find? (fun m => decide (q.startKey < m.startKey)) with
    | none => rfl
    | some n =>
      simp only
      have hnm := List.mem_of_find?_eq_some hL
      have hlt := List.find?_some hL
      simp only [decide_eq_true_eq] at hlt
      by_cases e : n.startKey = q.endKey
      · exact absurd ⟨n, hnm, by grind, e⟩ hex
      · simp [e]

theorem tree_len_eq_map_len (s : RegionsInfo) (h : Inv s) : treeLen s = regionCount s ∧ regionCount s = (abs s).length :=
  ⟨tree_len_eq_map_len_aux h, regionCount_eq h⟩

/-! ### per-store counters and sizes -/

theorem leaderCount_eq (s : RegionsInfo) (h : Inv s) (st : Nat) :
    storeCount s .leader st = C07.storeCount (abs s) .leader st := storeCount_eq h _ st
theorem followerCount_eq (s : RegionsInfo) (h : Inv s) (st : Nat) :
    storeCount s .follower st = C07.storeCount (abs s) .follower st := storeCount_eq h _ st
theorem learnerCount_eq (s : RegionsInfo) (h : Inv s) (st : Nat) :
    storeCount s .learner st = C07.storeCount (abs s) .learner st := storeCount_eq h _ st
theorem pendingCount_eq (s : RegionsInfo) (h : Inv s) (st : Nat) :
    storeCount s .pending st = C07.storeCount (abs s) .pending st := storeCount_eq h _ st
theorem leaderSize_eq (s : RegionsInfo) (h : Inv s) (st : Nat) :
    storeSize s .leader st = C07.storeSize (abs s) .leader st := storeSize_eq h _ st
theorem followerSize_eq (s : RegionsInfo) (h : Inv s) (st : Nat) :
    storeSize s .follower st = C07.storeSize (abs s) .follower st := storeSize_eq h _ st
theorem learnerSize_eq (s : RegionsInfo) (h : Inv s) (st : Nat) :
    storeSize s .learner st = C07.storeSize (abs s) .learner st := storeSize_eq h _ st
theorem pendingSize_eq (s : RegionsInfo) (h : Inv s) (st : Nat) :
    storeSize s .pending st = C07.storeSize (abs s) .pending st := storeSize_eq h _ st
theorem totalSize_eq (s : RegionsInfo) (h : Inv s) : totalSize s = C07.sumSize (abs s) := totalSize_eq_aux h
theorem storeRegions_eq (s : RegionsInfo) (h : Inv s) (st : Nat) :
    storeRegions s st = C07.storeRegions (abs s) .leader st ++ C07.storeRegions (abs s) .follower st ++
      C07.storeRegions (abs s) .learner st := storeRegions_eq_aux h st
theorem storeRegionCount_eq (s : RegionsInfo) (h : Inv s) (st : Nat) :
    storeRegionCount s st = C07.storeCount (abs s) .leader st + C07.storeCount (abs s) .follower st +
      C07.storeCount (abs s) .learner st := by
  unfold storeRegionCount; rw [storeCount_eq h, storeCount_eq h, storeCount_eq h]

/-! ### random picks -/

/-- whatever index the rank computation chooses in whichever of the ranges, a returned region is a region
    of that store and kind lying fully inside one of the ranges -/
theorem random_pick_sound (s : RegionsInfo) (h : Inv s) (role : Role) (st : Nat) (ranges : List (Key × Key))
    (p : Region) (hp : p ∈ randRegionCands s role st ranges) :
    p ∈ abs s ∧ C07.OnStore role st p ∧ ∃ rg ∈ C07.normRanges ranges, Involved p rg.1 rg.2 := by
  rw [randRegionCands_eq h] at hp
  unfold C07.randCands C07.storeRegions at hp
  simp only [List.mem_flatMap, List.mem_filter, decide_eq_true_eq] at hp
  obtain ⟨rg, hrg, ⟨h1, h2⟩, h3⟩ := hp
  exact ⟨h1, h2, rg, hrg, h3⟩

/-- every region of that store and kind lying fully inside one of the ranges can be returned -/
theorem random_pick_complete (s : RegionsInfo) (h : Inv s) (role : Role) (st : Nat) (ranges : List (Key × Key))
    (p : Region) (hp : p ∈ abs s) (ho : C07.OnStore role st p)
    (hr : ∃ rg ∈ C07.normRanges ranges, Involved p rg.1 rg.2) :
    p ∈ randRegionCands s role st ranges := by
  rw [randRegionCands_eq h]
  unfold C07.randCands C07.storeRegions
  simp only [List.mem_flatMap, List.mem_filter, decide_eq_true_eq]
  obtain ⟨rg, hrg, h3⟩ := hr
  exact ⟨rg, hrg, ⟨hp, ho⟩, h3⟩

/-! ### the property over whole traces -/

inductive Cmd where
  | put (r : Region)
  | drop (id : Nat)
  | ask (q : C07.Query)
  /-- a random pick that returned `p` -/
  | pick (role : Role) (store : Nat) (ranges : List (Key × Key)) (p : Region)

/-- the model's answer to a query -/
def answerOf (s : RegionsInfo) : C07.Query → C07.Obs
  | .get id => .region (getRegion s id)
  | .search k => .region (searchRegion s k)
  | .searchPrev k => .region (searchPrevRegion s k)
  | .scan a b l => .regions ((scanRange s a b l).filterMap id)
  | .overlaps q => .regions (getOverlaps s q)
  | .adjacent q => .pair (getAdjacentRegions s q).1 (getAdjacentRegions s q).2
  | .count => .nat (treeLen s)
  | .totalSize => .int (totalSize s)
  | .storeCount role st => .nat (storeCount s role st)
  | .storeSize role st => .int (storeSize s role st)
  | .storeRegions role st => .regions ((s.sub role st).items.map s.acc)

/-- what an observer of the model sees (a pick event is recorded when the model can return that region) -/
def observe : RegionsInfo → List Cmd → List C07.Ev
  | _, [] => []
  | s, .put r :: cs => .put r (setRegion s r).2 :: observe (setRegion s r).1 cs
  | s, .drop id :: cs => .remove id :: observe (applyMut s (.drop id)) cs
  | s, .ask q :: cs => .ask q (answerOf s q) :: observe s cs
  | s, .pick role st rg p :: cs =>
    if p ∈ randRegionCands s role st rg then .pick role st rg (some p) :: observe s cs else observe s cs

theorem answerOf_eq (s : RegionsInfo) (h : Inv s) (q : C07.Query) : answerOf s q = C07.expected (abs s) q := by
  cases q with
  | get id => simp [answerOf, C07.expected, getRegion_eq h]
  | search k => simp [answerOf, C07.expected, search_eq_aux h]
  | searchPrev k => simp [answerOf, C07.expected, searchPrev_eq_aux h]
  | scan a b l =>
    simp only [answerOf, C07.expected, scanRange_eq_aux h, C07.Obs.regions.injEq]
    rw [List.filterMap_map]
    simp
  | overlaps q => simp [answerOf, C07.expected, overlaps_eq_aux h]
  | adjacent q => simp [answerOf, C07.expected, adjacent_eq_aux h]
  | count => simp [answerOf, C07.expected, tree_len_eq_map_len_aux h, regionCount_eq h]
  | totalSize => simp [answerOf, C07.expected, totalSize_eq_aux h]
  | storeCount role st => simp [answerOf, C07.expected, storeCount_eq h]
  | storeSize role st => simp [answerOf, C07.expected, storeSize_eq h]
  | storeRegions role st => simp [answerOf, C07.expected, storeItems_eq h]

/-- **C07.** In every history of the model – any number of puts (the claim covers the history up to the
    first malformed region, as the property does) and drops, any queries in between – every answer is the
    linear-scan answer over the current regions, and every region a random pick returns is a legitimate
    candidate. -/
theorem C07_holds (cs : List Cmd) : C07.Holds [] (observe {} cs) := by
  suffices H : ∀ (s : RegionsInfo), Inv s → C07.Holds (abs s) (observe s cs) from H {} inv_init
  induction cs with
  | nil => intro s _; trivial
  | cons c cs ih =>
    intro s h
    cases c with
    | put r =>
      simp only [observe, C07.Holds]
      intro hr
      obtain ⟨h1, h2, h3⟩ := put_refines s r h hr
      exact ⟨h3, h2 ▸ ih _ h1⟩
    | drop id =>
      simp only [observe, C07.Holds]
      obtain ⟨h1, h2⟩ := applyMut_refines s (.drop id) h trivial
      simp only [specMut] at h2
      exact h2 ▸ ih _ h1
    | ask q =>
      simp only [observe, C07.Holds]
      exact ⟨answerOf_eq s h q, ih s h⟩
    | pick role st rg p =>
      simp only [observe]
      split
      · next hp =>
        simp only [C07.Holds, C07.PickOk]
        exact ⟨by rw [← randRegionCands_eq h]; exact hp, ih s h⟩
      · exact ih s h

/-! Non-vacuity: a concrete history (two regions, a split whose right half is reported first, a merge
    that swallows a neighbour, peers/leader/pending changes, a drop) – the observed trace is accepted by the
    executable checker and the final region set is the expected one. -/
def demoRegion (id : Nat) (a b : Key) (sz : Int) (peers : List Peer) (leader : Nat) (pend : List Peer := []) : Region :=
  { id := id, startKey := a, endKey := b, size := sz, peers := peers, leader := leader, pending := pend }

def demo : List Cmd :=
  [ .put (demoRegion 1 [] [5] 10 [⟨1, 1, false⟩, ⟨2, 2, false⟩, ⟨3, 3, true⟩] 1),
    .put (demoRegion 2 [5] [] 20 [⟨4, 1, false⟩, ⟨5, 2, false⟩] 5 [⟨4, 1, false⟩]),
    .ask (.search [5]), .ask (.searchPrev [7]), .ask (.storeCount .leader 1), .ask (.storeSize .follower 1),
    .put (demoRegion 3 [8] [] 7 [⟨6, 1, false⟩, ⟨7, 3, false⟩] 6),
    .ask (.get 2), .ask (.count),
    .put (demoRegion 2 [5] [8] 9 [⟨4, 1, false⟩, ⟨5, 2, false⟩] 4),
    .put (demoRegion 1 [] [8] 30 [⟨1, 1, false⟩, ⟨2, 2, false⟩, ⟨3, 3, true⟩] 2),
    .ask (.scan [] [] 0), .ask (.totalSize), .ask (.storeSize .leader 2), .ask (.adjacent (demoRegion 0 [] [8] 0 [] 0)),
    .pick .leader 1 [([8], [])] (demoRegion 3 [8] [] 7 [⟨6, 1, false⟩, ⟨7, 3, false⟩] 6),
    .drop 3, .ask (.count) ]

example : (observe {} demo).length = 18 ∧ C07.check [] (observe {} demo) = true := by decide
example : (abs (setRegion (setRegion {} (demoRegion 1 [] [5] 10 [⟨1, 1, false⟩] 1)).1
    (demoRegion 2 [3] [] 20 [⟨4, 1, false⟩] 4)).1).map (·.id) = [2] := by decide
/-- the decidable well-formedness predicate accepts ordinary regions and rejects an inverted range -/
example : C07.WF (demoRegion 1 [] [5] 10 [⟨1, 1, false⟩, ⟨2, 2, false⟩] 1 [⟨2, 2, false⟩]) ∧
    ¬ C07.WF (demoRegion 1 [7] [3] 10 [⟨1, 1, false⟩] 1) := by decide

/-- structure obligation: the BasicCluster mutators and readers used by the harness each hold the
    cluster lock for their whole body, so a query sees the region set between two mutations. -/
theorem basic_cluster_sections_locked :
    PdModel.Generated.RegionTree.putRegionIsOneSection = true ∧
    PdModel.Generated.RegionTree.removeRegionIsOneSection = true ∧
    PdModel.Generated.RegionTree.searchRegionIsOneSection = true ∧
    PdModel.Generated.RegionTree.searchPrevRegionIsOneSection = true ∧
    PdModel.Generated.RegionTree.scanRangeIsOneSection = true ∧
    PdModel.Generated.RegionTree.getOverlapsIsOneSection = true ∧
    PdModel.Generated.RegionTree.getAdjacentRegionsIsOneSection = true := by decide

/-- structure obligation: every per-store / global counter of BasicCluster is computed inside ONE read-lock
    section (`bc.RLock(); defer bc.RUnlock()` are its first two statements), so a sum of sub-tree counters
    (`GetStoreRegionCount` = leaders + followers + learners, `GetStoreRegionSize`) is taken from one state of the
    region set – which is what `storeRegionCount_eq` / `storeCount_eq` / `storeSize_eq` speak about. -/
theorem basic_cluster_counters_locked :
    PdModel.Generated.RegionTree.storeRegionCountIsOneSection = true ∧
    PdModel.Generated.RegionTree.storeRegionSizeIsOneSection = true ∧
    PdModel.Generated.RegionTree.storeLeaderCountIsOneSection = true ∧
    PdModel.Generated.RegionTree.storeFollowerCountIsOneSection = true ∧
    PdModel.Generated.RegionTree.storePendingPeerCountIsOneSection = true ∧
    PdModel.Generated.RegionTree.storeLeaderRegionSizeIsOneSection = true ∧
    PdModel.Generated.RegionTree.regionCountIsOneSection = true ∧
    PdModel.Generated.RegionTree.averageRegionSizeIsOneSection = true ∧
    PdModel.Generated.RegionTree.storeRegionsIsOneSection = true ∧
    PdModel.Generated.RegionTree.getRegionIsOneSection = true := by decide

/-- glue: a region built from a heartbeat has the (extracted) minimum size, so every size is positive -/
theorem regionFromHeartbeat_size_pos (hb : Heartbeat) : 1 ≤ (regionFromHeartbeat hb).size := by
  unfold regionFromHeartbeat
  simp only
  split
  · decide
  · next h => simp only [emptyRegionApproximateSize, PdModel.Generated.RegionTree.emptyRegionApproximateSize] at h ⊢; omega

end PdModel.RegionTree
