import PdModel.Model.StoreFsm
import PdModel.Lemmas.StoreFsm
import PdModel.Spec.C14
import PdModel.Generated.StoreFsm
set_option linter.unusedSimpArgs false
set_option linter.unusedVariables false
/-!
C14 – property theorems.  Quantifiers: every sequence of put-store (RaftCluster and gRPC), store heartbeat,
label update, remove (with/without physically-destroyed), up, direct bury, checkStores, weight update,
tombstone clean-up and region placement; every failure mask (any subset of the store writes of every
operation fails); every iteration order of the two loops over the store map; every replication
configuration and initial cluster version.  No bound on the length of the history or the number of stores.
-/
namespace PdModel.StoreFsm
open PdModel.AMap PdModel.Spec

/-- what an observer sees of a model state -/
def obsOf (s : St) : C14.Obs :=
  { served := mapVal (fun id sv => { rec_ := recOf sv.md, lw := sv.lw, rw := sv.rw, regions := treeCount s.regions id }) s.served,
    stored := mapVal (fun id m => { rec_ := recOf m, lw := get s.storedLW id, rw := get s.storedRW id }) s.stored }

def kindOf : Op → C14.Kind
  | .gput r _ => .rpcPut r.id
  | .ghb id _ => .rpcHeartbeat id
  | .weight id _ _ _ => .weight id
  | .rmtomb _ _ => .sweep
  | .bury _ _ => .directBury
  | _ => .other

/-- the observation of one operation of the model -/
def stepOf (s : St) (op : Op) : C14.Step :=
  { kind := kindOf op, pre := obsOf s, post := obsOf (step s op).st,
    ok := decide ((step s op).res = .ok), refused := decide ((step s op).res = .tombstone),
    failed := (((step s op).writes).filter (·.failed)).map (·.id) }

/-- the observations of a history -/
def steps : St → List Op → List C14.Step
  | _, [] => []
  | s, op :: ops => stepOf s op :: steps (step s op).st ops

theorem get_obs_served (s : St) (id : Nat) :
    get (obsOf s).served id =
      (get s.served id).map (fun sv => { rec_ := recOf sv.md, lw := sv.lw, rw := sv.rw, regions := treeCount s.regions id }) := by
  unfold obsOf; simp only [get_mapVal]

theorem get_obs_stored (s : St) (id : Nat) :
    get (obsOf s).stored id =
      (get s.stored id).map (fun m => { rec_ := recOf m, lw := get s.storedLW id, rw := get s.storedRW id }) := by
  unfold obsOf; simp only [get_mapVal]

theorem served_of_obs (s : St) (id : Nat) (a' : C14.SRec) (h : get (obsOf s).served id = some a') :
    ∃ a, get s.served id = some a ∧ a'.rec_ = recOf a.md ∧ a'.lw = a.lw ∧ a'.rw = a.rw ∧
      a'.regions = treeCount s.regions id := by
  rw [get_obs_served] at h
  cases ha : get s.served id with
  | none => rw [ha] at h; cases h
  | some a => rw [ha] at h; cases h; exact ⟨a, rfl, rfl, rfl, rfl, rfl⟩

theorem sameServed_of_sameSv (s s' : St) (id : Nat) (h : sameSv (get s.served id) (get s'.served id)) :
    C14.sameServed (get (obsOf s).served id) (get (obsOf s').served id) = true := by
  rw [get_obs_served, get_obs_served]
  unfold sameSv at h
  cases ha : get s.served id with
  | none =>
    rw [ha] at h
    cases hb : get s'.served id with
    | none => rfl
    | some b => rw [hb] at h; cases h
  | some a =>
    rw [ha] at h
    cases hb : get s'.served id with
    | none => rw [hb] at h; cases h
    | some b =>
      rw [hb] at h
      simp only [Option.map_some, Option.some.injEq, core, Prod.mk.injEq] at h
      simp [C14.sameServed, h.1, h.2.1, h.2.2]

def isDirect : Op → Bool
  | .bury _ _ => true
  | _ => false

def isSweep : Op → Bool
  | .rmtomb _ _ => true
  | _ => false

theorem good_step' (s : St) (op : Op) (hinv : Inv s.served s.stored) :
    Good s (step s op) (isDirect op) (isSweep op) := by
  have := good_step s op hinv
  cases op <;> exact this

/-- **state_moves_only_forward.** Across any operation a served store's state changes only
    Up→Offline, Offline→Up (never once declared destroyed), Offline→Tombstone; the destroyed
    declaration is never withdrawn; a record vanishes only as a tombstone. -/
theorem state_moves_only_forward (s : St) (op : Op) (hinv : Inv s.served s.stored) :
    C14.Forward (stepOf s op) := by
  intro id a' ha'
  obtain ⟨a, ha, hrec, _⟩ := served_of_obs s id a' ha'
  have h := (good_step' s op hinv).fwd id a ha
  show match get (obsOf (step s op).st).served id with
    | some b => C14.fwd a'.rec_ b.rec_ = true
    | none => a'.rec_.state = .tombstone
  rw [get_obs_served]
  cases hb : get (step s op).st.served id with
  | none =>
    rw [hb] at h
    simp only [Option.map_none, hrec, recOf]
    exact (lifeOf_tomb _).2 h
  | some b =>
    rw [hb] at h
    simp only [Option.map_some, hrec]
    exact h

theorem stored_of_obs (s : St) (id : Nat) (a' : C14.DRec) (h : get (obsOf s).stored id = some a') :
    ∃ m, get s.stored id = some m ∧ a'.rec_ = recOf m := by
  rw [get_obs_stored] at h
  cases hm : get s.stored id with
  | none => rw [hm] at h; cases h
  | some m => rw [hm] at h; cases h; exact ⟨m, rfl, rfl⟩

/-- **stored_moves_only_forward.** The stored record of a store changes across any operation (a restart
    included) only as the served one may: a stored tombstone is never overwritten by another state and a
    stored record is deleted only as a tombstone – so a new leader, which serves what is stored, cannot
    bring a tombstone back. -/
theorem stored_moves_only_forward (s : St) (op : Op) (hinv : Inv s.served s.stored) :
    C14.StoredForward (stepOf s op) := by
  intro id a' ha'
  obtain ⟨m, hm, hrec⟩ := stored_of_obs s id a' ha'
  have hg := good_step' s op hinv
  rw [hinv.durable id] at hm
  cases ha : get s.served id with
  | none => rw [ha] at hm; cases hm
  | some a =>
    rw [ha] at hm
    have hma : a.md = m := by simpa using hm
    have h := hg.fwd id a ha
    show match get (obsOf (step s op).st).stored id with
      | some b => C14.fwd a'.rec_ b.rec_ = true
      | none => a'.rec_.state = .tombstone
    rw [get_obs_stored, hg.inv.durable id]
    cases hb : get (step s op).st.served id with
    | none =>
      rw [hb] at h
      simp only [Option.map_none, hrec, ← hma, recOf]
      exact (lifeOf_tomb _).2 h
    | some b =>
      rw [hb] at h
      simp only [Option.map_some, hrec, ← hma]
      exact h

/-- **tombstone_refused_at_rpc.** A gRPC PutStore or StoreHeartbeat for a store that is served as
    tombstone is answered with the tombstone error and changes neither the served nor the stored state. -/
theorem tombstone_refused_at_rpc (s : St) (op : Op) : C14.TombstoneRefused (stepOf s op) := by
  intro id a' hk ha' hst
  obtain ⟨a, ha, hrec, _⟩ := served_of_obs s id a' ha'
  have hts : a.md.state = .tombstone := by
    rw [hrec] at hst; exact (lifeOf_tomb _).1 hst
  cases op with
  | gput r mask =>
    simp only [stepOf, kindOf, C14.targetOf, Option.some.injEq] at hk
    subst hk
    have : step s (.gput r mask) = reject s .tombstone := by
      simp [step, grpcPut, ha, hts]
    simp [stepOf, this, reject]
  | ghb id' mask =>
    simp only [stepOf, kindOf, C14.targetOf, Option.some.injEq] at hk
    subst hk
    have : step s (.ghb id' mask) = reject s .tombstone := by
      simp [step, grpcHeartbeat, ha, hts]
    simp [stepOf, this, reject]
  | put r mask => simp [stepOf, kindOf, C14.targetOf] at hk
  | labels i ls f mask => simp [stepOf, kindOf, C14.targetOf] at hk
  | remove i d mask => simp [stepOf, kindOf, C14.targetOf] at hk
  | up i mask => simp [stepOf, kindOf, C14.targetOf] at hk
  | bury i mask => simp [stepOf, kindOf, C14.targetOf] at hk
  | check o mask => simp [stepOf, kindOf, C14.targetOf] at hk
  | weight i l r mask => simp [stepOf, kindOf, C14.targetOf] at hk
  | rmtomb o mask => simp [stepOf, kindOf, C14.targetOf] at hk
  | region r st => simp [stepOf, kindOf, C14.targetOf] at hk
  | labelsFrom r f mask => simp [stepOf, kindOf, C14.targetOf] at hk
  | checkOnly o mask => simp [stepOf, kindOf, C14.targetOf] at hk
  | restart => simp [stepOf, kindOf, C14.targetOf] at hk

/-- **bury_only_empty.** Whenever an operation other than the direct call of `buryStore` turns a
    store into a tombstone, the store held no region peer when the operation started. -/
theorem bury_only_empty (s : St) (op : Op) (hinv : Inv s.served s.stored) : C14.BuryOnlyEmpty (stepOf s op) := by
  intro hk id a' b' ha' hb' h3 h4
  obtain ⟨a, ha, hreca, _, _, hreg⟩ := served_of_obs s id a' ha'
  obtain ⟨b, hb, hrecb, _⟩ := served_of_obs (step s op).st id b' hb'
  have hd : isDirect op = false := by
    cases op <;> simp [isDirect] <;> simp [stepOf, kindOf] at hk
  rw [hreg]
  apply (good_step' s op hinv).bury hd id a b ha hb
  · intro h; apply h3; rw [hreca]; exact (lifeOf_tomb _).2 h
  · rw [hrecb] at h4; exact (lifeOf_tomb _).1 h4

theorem addresses_of_inv (s : St) (hinv : Inv s.served s.stored) : C14.AddressesUnique (obsOf s) := by
  intro i j a' b' ha' hb' hij la lb
  obtain ⟨a, ha, hreca, _⟩ := served_of_obs s i a' ha'
  obtain ⟨b, hb, hrecb, _⟩ := served_of_obs s j b' hb'
  rw [hreca, liveRec_recOf] at la
  rw [hrecb, liveRec_recOf] at lb
  rw [hreca, hrecb]
  exact hinv.addr i j a b ha hb hij la lb

/-- **live_addresses_unique.** After any operation, two served stores that are neither tombstone
    nor physically destroyed have different addresses. -/
theorem live_addresses_unique (s : St) (op : Op) (hinv : Inv s.served s.stored) :
    C14.AddressesUnique (stepOf s op).post :=
  addresses_of_inv _ (good_step' s op hinv).inv

theorem setWeight_ok (s : St) (id lw rw mask : Nat) (h : (setWeight s id lw rw mask).res = .ok) :
    ∃ sv, get (setWeight s id lw rw mask).st.served id = some sv ∧ sv.lw = lw ∧ sv.rw = rw ∧
      get (setWeight s id lw rw mask).st.storedLW id = some lw ∧
      get (setWeight s id lw rw mask).st.storedRW id = some rw := by
  unfold setWeight at h ⊢
  cases hsv : get s.served id with
  | none => simp [hsv, reject] at h
  | some sv =>
    simp only [hsv] at h ⊢
    cases h0 : failBit mask 0 with
    | true => simp [h0] at h
    | false =>
      cases h1 : failBit mask 1 with
      | true => simp [h0, h1] at h
      | false =>
        cases h2 : failBit mask 2 with
        | true => simp [h0, h1, h2, commit] at h
        | false =>
          simp only [h0, h1, h2, commit, Bool.false_eq_true, if_false]
          exact ⟨_, get_put_eq _ _ _, rfl, rfl, get_put_eq _ _ _, get_put_eq _ _ _⟩

/-- **success_stored_eq_served.** After an operation that reports success, every stored record
    equals the served one (no extra and no missing records), and after a successful weight update the
    stored weight keys equal the served weights. -/
theorem success_stored_eq_served (s : St) (op : Op) (hinv : Inv s.served s.stored) :
    C14.Durable (stepOf s op) := by
  intro hok
  have hinv' := (good_step' s op hinv).inv
  refine ⟨?_, ?_⟩
  · intro id
    show (get (obsOf (step s op).st).stored id).map (·.rec_) = (get (obsOf (step s op).st).served id).map (·.rec_)
    rw [get_obs_stored, get_obs_served, hinv'.durable id]
    cases get (step s op).st.served id <;> rfl
  · intro id hk a' ha'
    cases op with
    | weight i lw rw mask =>
      simp only [stepOf, kindOf, C14.Kind.weight.injEq] at hk
      subst hk
      have hres : (setWeight s i lw rw mask).res = .ok := by
        have : decide ((step s (.weight i lw rw mask)).res = .ok) = true := hok
        exact of_decide_eq_true this
      obtain ⟨sv, hsv, h1, h2, h3, h4⟩ := setWeight_ok s i lw rw mask hres
      obtain ⟨a, ha, _, hlw, hrw, _⟩ := served_of_obs _ i a' ha'
      have ha2 : get (setWeight s i lw rw mask).st.served i = some a := ha
      rw [hsv] at ha2; cases ha2
      have hst := hinv'.durable i
      have hst2 : get (setWeight s i lw rw mask).st.stored i = some sv.md := by
        have := hst; simp only [step] at this; rw [this, hsv]; rfl
      refine ⟨{ rec_ := recOf sv.md, lw := some lw, rw := some rw }, ?_, ?_, ?_⟩
      · show get (obsOf (step s (.weight i lw rw mask)).st).stored i = _
        rw [get_obs_stored]
        simp only [step, hst2, Option.map_some, h3, h4]
      · simp [hlw, h1]
      · simp [hrw, h2]
    | put r mask => simp [stepOf, kindOf] at hk
    | gput r mask => simp [stepOf, kindOf] at hk
    | ghb i mask => simp [stepOf, kindOf] at hk
    | labels i ls f mask => simp [stepOf, kindOf] at hk
    | remove i d mask => simp [stepOf, kindOf] at hk
    | up i mask => simp [stepOf, kindOf] at hk
    | bury i mask => simp [stepOf, kindOf] at hk
    | check o mask => simp [stepOf, kindOf] at hk
    | rmtomb o mask => simp [stepOf, kindOf] at hk
    | region r st => simp [stepOf, kindOf] at hk
    | labelsFrom r f mask => simp [stepOf, kindOf] at hk
    | checkOnly o mask => simp [stepOf, kindOf] at hk
    | restart => simp [stepOf, kindOf] at hk

/-- **failed_write_served_unchanged.** The served record and weights of a store whose write the
    storage refused are what they were before the operation; and an operation (other than the
    multi-store tombstone clean-up) that reports failure leaves every served record as it was. -/
theorem failed_write_served_unchanged (s : St) (op : Op) (hinv : Inv s.served s.stored) :
    C14.FailedUnchanged (stepOf s op) := by
  have hg := good_step' s op hinv
  refine ⟨?_, ?_⟩
  · intro id hid
    simp only [stepOf, List.mem_map, List.mem_filter] at hid
    obtain ⟨w, ⟨hw, hf⟩, rfl⟩ := hid
    exact sameServed_of_sameSv s _ w.id (hg.failed w hw hf)
  · intro hok hk id
    have hsw : isSweep op = false := by
      cases op <;> simp [isSweep] <;> simp [stepOf, kindOf] at hk
    have hres : (step s op).res ≠ .ok := by
      simpa [stepOf] using hok
    exact sameServed_of_sameSv s _ id (hg.err hres hsw id)

/-- **offline_can_return_to_up.** `UpStore` of an offline store that was not declared destroyed succeeds
    (when its write does) and serves the store as Up again. -/
theorem offline_can_return_to_up (s : St) (id mask : Nat) (sv : Served) (h : get s.served id = some sv)
    (ho : sv.md.state = .offline) (hd : sv.md.destroyed = false) (hm : failBit mask 0 = false) :
    (step s (.up id mask)).res = .ok ∧
    ∃ sv', get (step s (.up id mask)).st.served id = some sv' ∧ sv'.md.state = .up ∧ sv'.md.addr = sv.md.addr := by
  simp only [step, upStore, h, ho, hd, hm, commit]
  refine ⟨by simp, ?_⟩
  simp [get_put_eq]

/-- **destroyed_never_returns.** `UpStore` of a store declared physically destroyed is refused and changes
    nothing, whatever its state. -/
theorem destroyed_never_returns (s : St) (id mask : Nat) (sv : Served) (h : get s.served id = some sv)
    (hd : sv.md.destroyed = true) :
    (step s (.up id mask)).res ≠ .ok ∧ (step s (.up id mask)).st = s := by
  simp only [step, upStore, h, hd]
  by_cases ht : sv.md.state = .tombstone <;> simp [ht, reject]

/-- one operation from a state satisfying the invariant is observed as the property demands -/
theorem C14_step (s : St) (op : Op) (hinv : Inv s.served s.stored) : C14.StepOk (stepOf s op) :=
  ⟨rfl, state_moves_only_forward s op hinv, stored_moves_only_forward s op hinv, tombstone_refused_at_rpc s op, bury_only_empty s op hinv,
   live_addresses_unique s op hinv, success_stored_eq_served s op hinv, failed_write_served_unchanged s op hinv⟩

/-- the invariant (stored = served, live addresses unique) holds in every reachable state -/
theorem inv_reachable (cfg : Config) (cv : Ver) (ops : List Op) :
    Inv (run (init cfg cv) ops).served (run (init cfg cv) ops).stored := by
  suffices h : ∀ s, Inv s.served s.stored → Inv (run s ops).served (run s ops).stored from h _ inv_init
  induction ops with
  | nil => intro s h; exact h
  | cons op ops ih =>
    intro s h
    simp only [run, List.foldl_cons]
    exact ih _ (good_step' s op h).inv

/-- **C14.** Every history of the model, from the empty cluster, is observed as the property demands. -/
theorem C14_holds (cfg : Config) (cv : Ver) (ops : List Op) : C14.Holds (steps (init cfg cv) ops) := by
  suffices h : ∀ s, Inv s.served s.stored → C14.Holds (steps s ops) from h _ inv_init
  induction ops with
  | nil => intro s _ x hx; simp [steps] at hx
  | cons op ops ih =>
    intro s h x hx
    simp only [steps, List.mem_cons] at hx
    rcases hx with rfl | hx
    · exact C14_step s op h
    · exact ih _ (good_step' s op h).inv x hx

/-! Non-vacuity: a concrete history with a duplicate address, a failing save, a store emptied of its
    regions and buried (after one failing attempt), a refused re-registration through the RPC, a weight
    update whose second write fails, and the tombstone clean-up. -/
def demoOps : List Op :=
  [.put { id := 1, addr := "a1", ver := some ⟨4, 0, 0⟩, start := 0, labels := [("zone", "z1")] } 0,
   .put { id := 2, addr := "a1", ver := some ⟨4, 0, 0⟩, start := 0, labels := [] } 0,
   .put { id := 2, addr := "a2", ver := some ⟨4, 0, 0⟩, start := 0, labels := [] } 0,
   .put { id := 1, addr := "a1", ver := some ⟨4, 0, 0⟩, start := 1, labels := [("zone", "z2")] } 1,
   .region 1 [1, 2],
   .remove 1 false 0,
   .check [] 0,
   .region 1 [2],
   .check [1] 1,
   .check [] 0,
   .gput { id := 1, addr := "a1", ver := some ⟨4, 0, 0⟩, start := 0, labels := [] } 0,
   .weight 2 2000000 500000 2,
   .rmtomb [] 0]

example : (steps (init {} ⟨2, 0, 0⟩) demoOps).map (fun st => (st.ok, st.refused, st.failed)) =
    [(true, false, []), (false, false, []), (true, false, []), (false, false, [1]), (true, false, []),
     (true, false, []), (true, false, []), (true, false, []), (true, false, [1]), (true, false, []),
     (false, true, []), (false, false, [2]), (true, false, [])] := by decide

example : (get (run (init {} ⟨2, 0, 0⟩) (demoOps.take 10)).served 1).map (·.md.state) = some .tombstone := by decide

example : keys (run (init {} ⟨2, 0, 0⟩) demoOps).served = [2] := by decide

example : C14.check (steps (init {} ⟨2, 0, 0⟩) demoOps) = true := by decide

/-- structure obligations, re-checked against the facts regenerated from the Go source: every
    modelled operation is one critical section of the cluster mutex, records are saved (deleted)
    before they are published, the labels are checked before the save, the weight keys are written
    before the record, the RPC handlers test for tombstone before they touch the cluster, and a store
    record is re-saved by heartbeats at most every `storePersistInterval` (> 0). -/
theorem store_code_structure_as_modelled :
    PdModel.Generated.StoreFsm.putStoreImplIsOneSection = true ∧
    PdModel.Generated.StoreFsm.removeStoreIsOneSection = true ∧
    PdModel.Generated.StoreFsm.buryStoreIsOneSection = true ∧
    PdModel.Generated.StoreFsm.upStoreIsOneSection = true ∧
    PdModel.Generated.StoreFsm.setStoreWeightIsOneSection = true ∧
    PdModel.Generated.StoreFsm.removeTombStoneRecordsIsOneSection = true ∧
    PdModel.Generated.StoreFsm.handleStoreHeartbeatIsOneSection = true ∧
    PdModel.Generated.StoreFsm.putStoreSavesBeforePublishing = true ∧
    PdModel.Generated.StoreFsm.deleteStoreRemovesBeforePublishing = true ∧
    PdModel.Generated.StoreFsm.weightSavedBeforeRecord = true ∧
    PdModel.Generated.StoreFsm.labelsCheckedBeforeSave = true ∧
    PdModel.Generated.StoreFsm.rpcPutChecksTombstoneFirst = true ∧
    PdModel.Generated.StoreFsm.rpcHeartbeatChecksTombstoneFirst = true ∧
    0 < PdModel.Generated.StoreFsm.storePersistIntervalNs := by decide

end PdModel.StoreFsm
