import PdModel.Model.Tso
import PdModel.Lemmas.Tso
import PdModel.Lemmas.TsoObs
import PdModel.Spec.C02
set_option linter.unusedSimpArgs false
set_option linter.unusedVariables false
/-!
C02 – property theorems.  Quantifiers: any number of members, any interleaving of getTS / the three
micro-steps of UpdateTimestamp and SyncTimestamp / SetTSO / memory resets / leadership changes, any clock
reading at every step, any transaction fault (except the one named in `Op.faithful`), any history length.
-/
namespace PdModel.Tso
open PdModel.Spec

def storedLe (s s' : St) : Prop := C02.optLe s.stored s'.stored

theorem inv_run (c : Cfg) (hc : CfgOk c) (ops : List Op) (hf : ∀ op ∈ ops, op.faithful) :
    Inv (run (init c) ops) ∧ (run (init c) ops).cfg = c := by
  suffices h : ∀ s, Inv s → CfgOk s.cfg → Inv (run s ops) ∧ (run s ops).cfg = s.cfg from
    h _ (inv_init c) hc
  induction ops with
  | nil => intro s h _; exact ⟨h, rfl⟩
  | cons op ops ih =>
    intro s h hcs
    simp only [run, List.foldl_cons]
    have h1 := inv_step s h hcs op (hf op (List.mem_cons_self ..))
    have h2 := step_cfg s op
    have := ih (fun o ho => hf o (List.mem_cons_of_mem _ ho)) (step s op).1 h1 (by rw [h2]; exact hcs)
    simp only [run] at this
    exact ⟨this.1, by rw [this.2, h2]⟩

/-- **granted below the stored window**: in every reachable state every grant ever made had its
    physical time (ns) more than `guard` below the window bound that was durably stored at that moment -/
theorem granted_below_stored (c : Cfg) (hc : CfgOk c) (ops : List Op) (hf : ∀ op ∈ ops, op.faithful) :
    ∀ g ∈ (run (init c) ops).grants, ∃ B, g.bound = some B ∧ g.ns + c.guard < B ∧ g.ms = msOf g.ns := by
  obtain ⟨hinv, hcfg⟩ := inv_run c hc ops hf
  intro g hg
  obtain ⟨_, _, hms, B, hB, hlt⟩ := hinv.gr.g g hg
  exact ⟨B, hB, by rw [hcfg] at hlt; exact hlt, hms⟩

/-! ### the stored bound never decreases -/

theorem saveTxn_storedLe (s : St) (m sv : Nat) (f : Fault)
    (h : s.leader = m → m ≠ 0 → ∀ S, s.stored = some S → S ≤ sv) : storedLe s (saveTxn s m sv f).1 := by
  unfold saveTxn storedLe
  cases f with
  | errBefore => exact C02.optLe_refl _
  | none =>
    simp only
    split
    · next hc =>
      show C02.optLe s.stored (some sv)
      cases hs : s.stored with
      | none => trivial
      | some S => simp only [C02.optLe]; exact h hc.1 hc.2 S hs
    · exact C02.optLe_refl _
  | errAfter =>
    simp only
    split
    · next hc =>
      cases hs : s.stored with
      | none => trivial
      | some S => simp only [C02.optLe]; exact h hc.1 hc.2 S hs
    · exact C02.optLe_refl _

theorem storedLe_of_eq {s s' : St} (h : s'.stored = s.stored) : storedLe s s' := by
  unfold storedLe; rw [h]; exact C02.optLe_refl _

theorem updFinish_storedLe (s : St) (hc : CfgOk s.cfg) (m next : Nat) (save : Option Nat) (f : Fault)
    (hu : UpdOk s m next save) : storedLe s (updFinish s m next save f).1 := by
  unfold updFinish
  cases save with
  | none => exact storedLe_of_eq rfl
  | some sv =>
    simp only
    obtain ⟨hv, hle⟩ := hu.u2 sv rfl
    have hsg := hc.save_gt
    have h1 := saveTxn_storedLe s m sv f (by
      intro hl h0 S hS
      have := hu.u5 hl h0; rw [hS] at this
      have := hle S this; omega)
    generalize saveTxn s m sv f = r at h1
    obtain ⟨s1, b, o⟩ := r
    simp only at h1 ⊢
    split
    · exact C02.optLe_trans h1 (storedLe_of_eq rfl)
    · exact C02.optLe_trans h1 (storedLe_of_eq (by simp [stepDown]))

theorem syncFinish_storedLe (s : St) (hc : CfgOk s.cfg) (m : Nat) (last : Option Nat) (now : Nat) (f : Fault)
    (hlast : s.leader = m → m ≠ 0 → coversStored s.stored last) : storedLe s (syncFinish s m last now f).1 := by
  unfold syncFinish
  simp only
  have h1 := saveTxn_storedLe s m (syncNext s.cfg last now + s.cfg.saveInterval) f (by
    intro hl h0 S hS
    obtain ⟨L, hL, hSL⟩ := hlast hl h0 S hS
    subst hL
    have := syncNext_ge s.cfg L now; omega)
  generalize saveTxn s m (syncNext s.cfg last now + s.cfg.saveInterval) f = r at h1
  obtain ⟨s1, b, o⟩ := r
  simp only at h1 ⊢
  split
  · exact C02.optLe_trans h1 (storedLe_of_eq rfl)
  · exact C02.optLe_trans h1 (storedLe_of_eq (by simp [stepDown]))

theorem resetUser_storedLe (s : St) (h : Inv s) (hc : CfgOk s.cfg) (m tms tlog : Nat) (ig : Bool) (f : Fault) :
    storedLe s (resetUser s m tms tlog ig f).1 := by
  unfold resetUser
  simp only
  split
  · exact storedLe_of_eq rfl
  · split
    · exact storedLe_of_eq rfl
    · next p hp =>
      split
      · exact storedLe_of_eq rfl
      · split
        · exact storedLe_of_eq rfl
        · split
          · exact storedLe_of_eq rfl
          · split
            · next hns =>
              have hsg := hc.save_gt
              have hC : s.leader = m → m ≠ 0 → (s.mems m).lastSaved = s.stored :=
                fun hl h0 => (h.mem m).c hl h0 (Or.inl (by rw [hp]; simp))
              have h1 := saveTxn_storedLe s m (tms * 1000000 + s.cfg.saveInterval) f (by
                intro hl h0 S hS
                have := hC hl h0; rw [hS] at this
                have := needSave_true hns S this; omega)
              generalize saveTxn s m (tms * 1000000 + s.cfg.saveInterval) f = r at h1
              obtain ⟨s1, b, o⟩ := r
              simp only at h1 ⊢
              split
              · exact C02.optLe_trans h1 (storedLe_of_eq rfl)
              · exact h1
            · exact storedLe_of_eq rfl

theorem getTSLoop_stored (s : St) (m count fuel : Nat) : (getTSLoop s m count fuel).1.stored = s.stored := by
  induction fuel generalizing s with
  | zero => rfl
  | succ fuel ih =>
    unfold getTSLoop
    simp only
    split
    · split
      · exact ih s
      · rfl
    · split
      · rw [ih]; rfl
      · split <;> rfl

/-- **the stored bound never decreases**, whatever step is taken from a reachable state -/
theorem stored_monotone_step (s : St) (h : Inv s) (hc : CfgOk s.cfg) (op : Op) :
    storedLe s (step s op).1 := by
  cases op with
  | lead m => simp only [step]; split <;> exact storedLe_of_eq rfl
  | expire m => exact storedLe_of_eq rfl
  | resign => exact storedLe_of_eq rfl
  | extWin v => exact storedLe_of_eq rfl
  | dropKey => exact storedLe_of_eq rfl
  | getTS m count =>
    simp only [step, getTS]
    split
    · exact storedLe_of_eq rfl
    · split
      · exact storedLe_of_eq rfl
      · exact storedLe_of_eq (getTSLoop_stored _ _ _ _)
  | tryTS m count =>
    simp only [step]
    split
    · exact storedLe_of_eq rfl
    · exact storedLe_of_eq (getTSLoop_stored _ _ _ _)
  | update m now f =>
    simp only [step]
    split
    · exact storedLe_of_eq rfl
    split
    · exact storedLe_of_eq rfl
    split
    · exact storedLe_of_eq rfl
    · split
      · exact storedLe_of_eq rfl
      · next next save hd => exact updFinish_storedLe s hc m next save f (updOk_of_decide s h hc m now next save hd)
  | gupdate m now =>
    simp only [step]
    split
    · exact storedLe_of_eq rfl
    split
    · exact storedLe_of_eq rfl
    split
    · exact storedLe_of_eq rfl
    · split
      · exact storedLe_of_eq rfl
      · next next hd => exact updFinish_storedLe s hc m next none .none (updOk_of_decide s h hc m now next none hd)
      · exact storedLe_of_eq rfl
  | sync m now f =>
    simp only [step]
    split
    · exact storedLe_of_eq rfl
    · exact syncFinish_storedLe s hc m _ now f (fun _ _ => coversStored_optMax _ _)
  | gsync m now => simp only [step]; split <;> exact storedLe_of_eq rfl
  | finish m f =>
    simp only [step]
    split
    · exact storedLe_of_eq rfl
    · next next save hp => exact updFinish_storedLe s hc m next save f (updOk_of_pend s h m next save hp)
    · next last now hp => exact syncFinish_storedLe s hc m last now f (fun hl h0 => (h.mem m).d hl h0 last now hp)
  | setTS m ms logical ig f =>
    simp only [step]
    split
    · exact storedLe_of_eq rfl
    · exact resetUser_storedLe s h hc m ms logical ig f
  | resetMem m => exact storedLe_of_eq rfl

/-! ### the observable statement -/

/-- what is observed of one step: the stored bound afterwards and the physical part of a granted
    timestamp, if one was granted -/
def obsOf (r : St × Out) : C02.Obs :=
  ⟨r.1.stored, match r.2 with | .ts ms _ => some ms | _ => none⟩

def trace : St → List Op → List C02.Obs
  | _, [] => []
  | s, op :: ops => obsOf (step s op) :: trace (step s op).1 ops

theorem trace_stored_ge (s : St) (h : Inv s) (hc : CfgOk s.cfg) (ops : List Op) (hf : ∀ op ∈ ops, op.faithful) :
    ∀ o ∈ trace s ops, C02.optLe s.stored o.stored := by
  induction ops generalizing s with
  | nil => intro o ho; cases ho
  | cons op ops ih =>
    intro o ho
    simp only [trace, List.mem_cons] at ho
    have hstep := stored_monotone_step s h hc op
    rcases ho with rfl | ho
    · exact hstep
    · have h1 := inv_step s h hc op (hf op (List.mem_cons_self ..))
      have := ih (step s op).1 h1 (by rw [step_cfg]; exact hc)
        (fun o ho => hf o (List.mem_cons_of_mem _ ho)) o ho
      exact C02.optLe_trans hstep this

theorem grant_obs_ok (s : St) (h : Inv s) (hc : CfgOk s.cfg) (op : Op) (hf : op.faithful) :
    C02.grantOk (obsOf (step s op)) := by
  intro ms hms
  have h1 := inv_step s h hc op hf
  rcases step_obs s op with ⟨m, count, p, l, _, hout, hgr, _, _, hst⟩ | ⟨hnot, _⟩
  · simp only [obsOf, hout, Option.some.injEq] at hms
    subst hms
    obtain ⟨_, _, _, B, hB, hlt⟩ := h1.gr.g ⟨m, msOf p, l - count, l, p, s.stored⟩ (by rw [hgr]; exact List.mem_cons_self ..)
    simp only at hB hlt
    refine ⟨B, by simp only [obsOf]; rw [hst]; exact hB, ?_⟩
    have : msOf p * 1000000 ≤ p := by unfold msOf; omega
    omega
  · simp only [obsOf] at hms
    generalize (step s op).2 = o at hnot hms
    cases o <;> simp_all [Out.isTs]

/-- what `loadTimestamp` returns covers the other allocators' windows too -/
theorem optMax_ge_right (a : Option Nat) (E : Nat) : ∃ L, optMax a (some E) = some L ∧ E ≤ L := by
  cases a with
  | none => exact ⟨E, rfl, Nat.le_refl _⟩
  | some x => exact ⟨max x E, rfl, Nat.le_max_right _ _⟩

/-- **A (re)initialised global allocator starts above every window persisted under its root**, also the
    dc-location allocators' ones (`loadTimestamp` takes the maximum over all of them): after a successful
    synchronisation of a reset allocator its physical time is at least `guard` above such a window. -/
theorem sync_above_other_windows (s : St) (m now : Nat) (f : Fault) (E : Nat) (hE : s.ext = some E)
    (hp : (s.mems m).phys = none) (hpend : (s.mems m).pend = none)
    (hok : (step s (.sync m now f)).2 = .ok) :
    ∃ p, ((step s (.sync m now f)).1.mems m).phys = some p ∧ E + s.cfg.guard ≤ p := by
  obtain ⟨L, hL, hEL⟩ := optMax_ge_right s.stored E
  have hge := syncNext_ge s.cfg L now
  simp only [step, hpend, Option.isSome_none, Bool.false_eq_true, if_false, hE, hL] at hok ⊢
  unfold syncFinish at hok ⊢
  simp only at hok ⊢
  have hspec := saveTxn_spec s m (syncNext s.cfg (some L) now + s.cfg.saveInterval) f
  generalize saveTxn s m (syncNext s.cfg (some L) now + s.cfg.saveInterval) f = r at hspec hok ⊢
  obtain ⟨s1, b, o⟩ := r
  simp only at hspec hok ⊢
  rcases hspec with ⟨ho, hl, h0, hst, hld, hcfg, hgr, hrec, hoth⟩ | ⟨ho, hl, h0, rfl, _⟩ | ⟨ho, rfl⟩
  · subst ho
    simp only [if_pos]
    refine ⟨syncNext s.cfg (some L) now, ?_, by omega⟩
    simp [hrec, setPhys, hp]
  · rw [if_neg ho] at hok; exact absurd hok ho
  · rw [if_neg ho] at hok; exact absurd hok ho

/-- **C02.** For every history: the durably stored window bound never decreases, and every granted
    timestamp's physical part is strictly below the bound stored at the moment of the grant. -/
theorem C02_holds (c : Cfg) (hc : CfgOk c) (ops : List Op) (hf : ∀ op ∈ ops, op.faithful) :
    C02.Holds (trace (init c) ops) := by
  suffices h : ∀ s, Inv s → CfgOk s.cfg → C02.Holds (trace s ops) from h _ (inv_init c) hc
  induction ops with
  | nil => intro s _ _; exact ⟨List.Pairwise.nil, fun o ho => by cases ho⟩
  | cons op ops ih =>
    intro s h hcs
    have hfo := hf op (List.mem_cons_self ..)
    have hfr : ∀ o ∈ ops, o.faithful := fun o ho => hf o (List.mem_cons_of_mem _ ho)
    have h1 := inv_step s h hcs op hfo
    have hc1 : CfgOk (step s op).1.cfg := by rw [step_cfg]; exact hcs
    obtain ⟨ihp, ihg⟩ := ih hfr (step s op).1 h1 hc1
    refine ⟨?_, ?_⟩
    · simp only [trace, List.pairwise_cons]
      exact ⟨fun o ho => trace_stored_ge (step s op).1 h1 hc1 ops hfr o ho, ihp⟩
    · intro o ho
      simp only [trace, List.mem_cons] at ho
      rcases ho with rfl | ho
      · exact grant_obs_ok s h hcs op hfo
      · exact ihg o ho

/-- **a failed or rejected window save leaves the in-memory time where it was (or clears it)**:
    whenever an update, sync or SetTSO step reports an error, the member's in-memory physical time is
    unchanged or reset to "uninitialised" – it is never advanced. -/
theorem failed_save_keeps_memory (s : St) (m next : Nat) (save : Option Nat) (f : Fault)
    (herr : (updFinish s m next save f).2 ≠ .ok) :
    ((updFinish s m next save f).1.mems m).phys = (s.mems m).phys ∨
    ((updFinish s m next save f).1.mems m).phys = none := by
  unfold updFinish at herr ⊢
  cases save with
  | none => simp at herr
  | some sv =>
    simp only at herr ⊢
    generalize saveTxn s m sv f = r at herr ⊢
    obtain ⟨s1, b, o⟩ := r
    simp only at herr ⊢
    split
    · next ho => simp [ho] at herr
    · right; simp [stepDown]

/-! ### why the window mutex (fix F1) is needed, and the fault pattern excluded by `Op.faithful` -/

def demoCfg : Cfg := { guard := 1000000, saveInterval := 3000000000, maxLogical := 262144,
                       maxResetGapMs := 86400000, maxRetry := 10 }

theorem demoCfg_ok : CfgOk demoCfg := ⟨by decide, by decide, by decide⟩

/-- On the un-serialised code (pinned tree before the fix) SetTSO may run between the decision and the
    save of a parked UpdateTimestamp.  Replaying that schedule on the model by bypassing the `blocked`
    guard: the stale save lowers the stored bound from T+10h+3s to now+3s, and the next grant
    (physical T+10h) is above the stored bound.  (Concrete witness, evaluated by `decide`.) -/
def f1Schedule : St :=
  let s0 := run (init demoCfg) [.lead 1, .sync 1 1000000000000 .none, .gupdate 1 1003000000000]
  -- SetTSO(+10h) slips in although an update is pending (no window mutex):
  let s1 := (resetUser s0 1 (1003000 + 36000000) 0 false .none).1
  -- the parked update now commits its stale window and publishes
  (step s1 (.finish 1 .none)).1

theorem window_counterexample_unserialised :
    f1Schedule.stored = some 1006000000000 ∧ (f1Schedule.mems 1).phys = some 37003000000000 := by
  decide

/-- The fault excluded by `Op.faithful`: a SetTSO whose save is applied but reported as failed leaves the
    cached bound stale; a later update (clock behind the reset target) lowers the stored window. -/
def errAfterSchedule : List Op :=
  [.lead 1, .sync 1 1000000000000 .none, .setTS 1 (1000000 + 36000000) 0 false .errAfter,
   .update 1 1003100000000 .none]

theorem stored_window_counterexample_errAfter :
    (run (init demoCfg) (errAfterSchedule.take 3)).stored = some 37003000000000 ∧
    (run (init demoCfg) errAfterSchedule).stored = some 1006100000000 := by
  decide

/-- non-vacuity: a faithful history with a hand-over, a gated update, a reset and grants -/
def demoOps : List Op :=
  [.lead 1, .sync 1 1000000000000 .none, .getTS 1 3, .gupdate 1 1000060000000, .getTS 1 2,
   .finish 1 .none, .getTS 1 1, .setTS 1 1000100 7 false .none, .getTS 1 1, .lead 2,
   .getTS 1 1, .sync 2 999000000000 .none, .getTS 2 5]

example : (trace (init demoCfg) demoOps).filterMap (·.grantMs) = [1000000, 1000060, 1000060, 1000100, 1003001] := by
  decide

end PdModel.Tso
