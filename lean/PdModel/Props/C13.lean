import PdModel.Model.Rules
import PdModel.Lemmas.RuleIndex
import PdModel.Lemmas.RuleStore
import PdModel.Lemmas.RuleOverride
import PdModel.Lemmas.RuleSpec
import PdModel.Lemmas.RuleLoad
import PdModel.Spec.C13
import PdModel.Generated.Rules
set_option linter.unusedSimpArgs false
set_option linter.unusedVariables false
/-!
C13 – property theorems.
-/
namespace PdModel.Rules
open PdModel.Spec.C13

/-- structure obligations re-checked against the source on every run: tryCommitPatch builds the rule list
    before it trims and saves, saves before it commits (persist → publish), re-adjusts the served
    configuration on each of its error paths (repair F6b), and the update entry points hold the manager's
    mutex for their whole body (one update = one atomic step of the model). -/
theorem rules_structure_facts :
    PdModel.Generated.Rules.buildBeforeSave = true ∧
    PdModel.Generated.Rules.trimBeforeSave = true ∧
    PdModel.Generated.Rules.saveBeforeCommit = true ∧
    PdModel.Generated.Rules.errorPathsReadjust = true ∧
    PdModel.Generated.Rules.deleteRuleLocked = true ∧
    PdModel.Generated.Rules.setRulesLocked = true ∧
    PdModel.Generated.Rules.setRuleGroupLocked = true ∧
    PdModel.Generated.Rules.deleteRuleGroupLocked = true ∧
    PdModel.Generated.Rules.setAllGroupBundlesLocked = true ∧
    PdModel.Generated.Rules.setGroupBundleLocked = true ∧
    PdModel.Generated.Rules.deleteGroupBundleLocked = true ∧
    PdModel.Generated.Rules.getAllRulesLocked = true ∧
    PdModel.Generated.Rules.getRulesByKeyLocked = true ∧
    -- loadRules writes the restored rules before it removes the stale keys (a failure in between loses nothing)
    PdModel.Generated.Rules.loadRulesSaveBeforeDelete = true := by decide


/-- **the manager's mutex makes one update one atomic step**: every mutating entry point (and Initialize) takes
    `m.Lock()` with `defer m.Unlock()` before it touches the configuration, the index or the patch machinery and
    performs no other lock operation; tryCommitPatch, savePatch, beginPatch, loadRules, loadGroups and the patch /
    config helpers never lock or unlock themselves – so the lock is held from the first read of the served
    configuration until after commit (or the error return), storage writes included.  Re-extracted on every run. -/
theorem rules_lock_facts :
    PdModel.Generated.Rules.setRuleLockToEnd = true ∧
    PdModel.Generated.Rules.deleteRuleLockToEnd = true ∧
    PdModel.Generated.Rules.setRulesLockToEnd = true ∧
    PdModel.Generated.Rules.batchLockToEnd = true ∧
    PdModel.Generated.Rules.setRuleGroupLockToEnd = true ∧
    PdModel.Generated.Rules.deleteRuleGroupLockToEnd = true ∧
    PdModel.Generated.Rules.setAllGroupBundlesLockToEnd = true ∧
    PdModel.Generated.Rules.setGroupBundleLockToEnd = true ∧
    PdModel.Generated.Rules.deleteGroupBundleLockToEnd = true ∧
    PdModel.Generated.Rules.initializeLockToEnd = true ∧
    PdModel.Generated.Rules.setKeyTypeLockToEnd = true ∧
    PdModel.Generated.Rules.tryCommitNoLockOps = true ∧
    PdModel.Generated.Rules.savePatchNoLockOps = true ∧
    PdModel.Generated.Rules.beginPatchNoLockOps = true ∧
    PdModel.Generated.Rules.loadRulesNoLockOps = true ∧
    PdModel.Generated.Rules.loadGroupsNoLockOps = true ∧
    PdModel.Generated.Rules.patchCommitNoLockOps = true ∧
    PdModel.Generated.Rules.patchTrimNoLockOps = true ∧
    PdModel.Generated.Rules.configAdjustNoLockOps = true := by decide

/-! ## Part A – the key-range index (rule_list.go)

Hypotheses on the rule set handed to buildRuleList (both are invariants of the manager, Part B):
`RulesWF` – different entries have different (group, id), rules of one group point to one group
configuration; `RangeWF` – a bounded range is non-empty (adjustRule). -/

/-- the list the index holds for a key: exactly the rules whose range contains it, strictly ascending in
    the documented order -/
theorem coverList_spec (rules : List GRule) (hw : RulesWF rules) (k : Nat) :
    (∀ r, r ∈ coverList rules k ↔ (r ∈ rules ∧ covers r.rule k = true)) ∧ (coverList rules k).Pairwise RLt := by
  refine ⟨fun r => ?_, sortRules_sorted _ (hw.sublist List.filter_sublist)⟩
  unfold coverList
  rw [mem_sortRules, List.mem_filter]

/-- **rules_by_key_exact** – for every key the index returns exactly the configured rules whose range
    contains the key, in the documented order. -/
theorem rules_by_key_exact (rules : List GRule) (hw : RulesWF rules) (hr : RangeWF rules) (rl : RuleList)
    (h : buildRuleList rules = .ok rl) (k : Nat) : getRulesByKey rl k = some (coverList rules k) :=
  getRulesByKey_built (built_of_ok hw hr h) k

/-- the unstable sort: whatever order `sort.Slice` leaves among points with equal keys, the result is the same -/
theorem build_tie_order_independent (rules : List GRule) (hw : RulesWF rules) (hr : RangeWF rules)
    (P : List Point) (hperm : P.Perm (rules.flatMap pointsOf)) (hsorted : P.Pairwise (fun a b => a.key ≤ b.key)) :
    buildSorted P = buildRuleList rules := by
  rw [buildRuleList_eq hw hr]
  exact buildSorted_eq hw hr ⟨hperm, hsorted⟩

/-- the Go map: the result does not depend on the order in which the rules are iterated -/
theorem build_iteration_order_independent (r1 r2 : List GRule) (hw : RulesWF r1) (hr : RangeWF r1)
    (hp : r1.Perm r2) : buildRuleList r1 = buildRuleList r2 :=
  build_iteration_order_independent' r1 r2 hw hr hp

/-- **apply_rules_exact** (override semantics) – of the rules of a key, in apply order, exactly those remain
    that no rule applied *after* them disables: a later rule of the same group with the override flag, or a
    later rule of another group whose group configuration has the override flag. -/
theorem apply_rules_exact (rules : List GRule) (hw : RulesWF rules) (k : Nat) :
    prepareRulesForApply (coverList rules k) = applyPos (coverList rules k) ∧
    (prepareRulesForApply (coverList rules k)).Sublist (coverList rules k) ∧
    ∀ r, r ∈ prepareRulesForApply (coverList rules k) ↔
      (r ∈ coverList rules k ∧ ∀ y ∈ coverList rules k, RLt r y → ovG y r = false) := by
  have hs := (coverList_spec rules hw k).2
  have hm := (coverList_spec rules hw k).1
  have e := prepareRulesForApply_eq (coverList rules k) hs
    (fun a ha b hb => hw.grp a ((hm a).1 ha).1 b ((hm b).1 hb).1)
  refine ⟨e, by rw [e]; exact applyPos_sublist _, fun r => ?_⟩
  rw [e]; exact mem_applyPos_sorted _ hs r

/-- **region_rules_iff_single_segment** – a region [s, e) (e = 0: unbounded) gets the rules of its segment
    (those covering its start key, after override) iff no start or end key of a rule lies strictly inside
    it, and nothing otherwise. -/
theorem region_rules_iff_single_segment (rules : List GRule) (hw : RulesWF rules) (hr : RangeWF rules)
    (rl : RuleList) (h : buildRuleList rules = .ok rl) (s e : Nat) :
    getRulesForApplyRegion rl s e =
      if (bkeys rules).any (inside s e) then none else some (prepareRulesForApply (coverList rules s)) :=
  getRulesForApplyRegion_built (built_of_ok hw hr h) s e

/-- **split_keys_exact** – the split keys of (s, e) are exactly the start and end keys of rules strictly
    inside it, ascending and without repetition. -/
theorem split_keys_exact (rules : List GRule) (hw : RulesWF rules) (hr : RangeWF rules)
    (rl : RuleList) (h : buildRuleList rules = .ok rl) (s e : Nat) :
    getSplitKeys rl s e = (bkeys rules).filter (inside s e) ∧
    (getSplitKeys rl s e).Pairwise (· < ·) ∧
    ∀ b, b ∈ getSplitKeys rl s e ↔
      ((∃ r ∈ rules, b = r.rule.start ∨ (r.rule.end_ ≠ 0 ∧ b = r.rule.end_)) ∧ inside s e b = true) := by
  have e1 := getSplitKeys_built (built_of_ok hw hr h) s e
  refine ⟨e1, by rw [e1]; exact (bkeys_sorted rules).filter _, fun b => ?_⟩
  rw [e1, List.mem_filter, mem_bkeys]

/-- **interior_or_trailing_gap_rejected** (and, with repair F6a, a leading gap too): a rule set that leaves
    some key without any rule is refused. -/
theorem gap_rejected (rules : List GRule) (hw : RulesWF rules) (hr : RangeWF rules) (k : Nat)
    (hgap : ∀ r ∈ rules, covers r.rule k = false) : ∃ e, buildRuleList rules = .error e := by
  cases h : buildRuleList rules with
  | error e => exact ⟨e, rfl⟩
  | ok rl =>
    exfalso
    have := (built_key_ok (built_of_ok hw hr h) k).1
    apply this
    unfold coverList
    have : rules.filter (fun r => covers r.rule k) = [] := by
      rw [List.filter_eq_nil_iff]; intro r hr'; simp [hgap r hr']
    rw [this]; rfl

theorem interior_or_trailing_gap_rejected (rules : List GRule) (hw : RulesWF rules) (hr : RangeWF rules) (k : Nat)
    (hgap : ∀ r ∈ rules, covers r.rule k = false) : ∃ e, buildRuleList rules = .error e :=
  gap_rejected rules hw hr k hgap

/-- an accepted rule set covers every key -/
theorem accepted_covers_every_key (rules : List GRule) (hw : RulesWF rules) (hr : RangeWF rules)
    (rl : RuleList) (h : buildRuleList rules = .ok rl) (k : Nat) : ∃ r ∈ rules, covers r.rule k = true := by
  have := (built_key_ok (built_of_ok hw hr h) k).1
  cases hc : coverList rules k with
  | nil => exact absurd hc this
  | cons r _ =>
    have hm : r ∈ coverList rules k := by rw [hc]; exact List.mem_cons_self
    exact ⟨r, ((coverList_spec rules hw k).1 r).1 hm⟩

/-- **no_voter_or_two_leaders_rejected** – if the rules that apply to some key (after override) contain
    more than one leader replica, or no leader or voter replica at all, the rule set is refused … -/
theorem no_voter_or_two_leaders_rejected (rules : List GRule) (hw : RulesWF rules) (hr : RangeWF rules)
    (hcount : ∀ r ∈ rules, 0 ≤ r.rule.count) (k : Nat)
    (hbad : leaderSum (prepareRulesForApply (coverList rules k)) > 1 ∨
            leaderSum (prepareRulesForApply (coverList rules k)) +
              voterSum (prepareRulesForApply (coverList rules k)) < 1) :
    ∃ e, buildRuleList rules = .error e := by
  cases h : buildRuleList rules with
  | error e => exact ⟨e, rfl⟩
  | ok rl =>
    exfalso
    have := (built_key_ok (built_of_ok hw hr h) k).2
    have hsub : ∀ r ∈ prepareRulesForApply (coverList rules k), r ∈ rules := fun r hr' =>
      (((coverList_spec rules hw k).1 r).1 ((apply_rules_exact rules hw k).2.1.subset hr')).1
    refine checkLoop_reject _ (fun r hr' => hcount r (hsub r hr')) 0 0 (by omega) (by omega) ?_ this
    omega

/-- … and every accepted rule set gives every key at most one leader and at least one leader or voter replica -/
theorem accepted_valid_everywhere (rules : List GRule) (hw : RulesWF rules) (hr : RangeWF rules)
    (rl : RuleList) (h : buildRuleList rules = .ok rl) (k : Nat) :
    leaderSum (prepareRulesForApply (coverList rules k)) ≤ 1 ∧
    leaderSum (prepareRulesForApply (coverList rules k)) + voterSum (prepareRulesForApply (coverList rules k)) ≥ 1 :=
  checkApplyRules_ok _ (built_key_ok (built_of_ok hw hr h) k).2


/-! ## Part B – updates (rule_manager.go, config.go, storage)

One update = one `step` (the manager's mutex).  `f : Fail` is the storage-failure input of the step:
`none` – every write succeeds; `some (k, wrote)` – the (k+1)-th write of the update fails after the writes
`wrote` were done (any subset the Go map order allows). -/

/-- invariant of the manager: the served configuration is a well-formed map of validated rules and the
    served index is the index of that configuration -/
structure StWF (s : St) : Prop where
  cfg   : ConfigWF s.mgr.cfg
  index : buildRuleList s.mgr.cfg.grules = .ok s.mgr.ruleList

/-- state after a save that failed once the writes `wrote` were done -/
def failState (s : St) (p : Patch) (wrote : List (Bool × K)) : St :=
  { mgr := s.mgr,
    store := List.foldl Storage.apply s.store (List.filter (fun w => wrote.contains w.target) (p.trim s.mgr.cfg).writes) }

/-- state after an accepted update: all writes done, the patch committed, the new index published -/
def okState (s : St) (p : Patch) (rl : RuleList) : St :=
  { mgr := { cfg := (p.trim s.mgr.cfg).commit s.mgr.cfg, ruleList := rl },
    store := List.foldl Storage.apply s.store (p.trim s.mgr.cfg).writes }

/-- the possible outcomes of tryCommitPatch -/
theorem tryCommit_cases (s : St) (p : Patch) (f : Fail) :
    (tryCommitPatch s p f = (s, .rejBuild) ∧ ∃ e, buildRuleList (p.grules s.mgr.cfg) = .error e) ∨
    (tryCommitPatch s p f = (s, .bad) ∧ ∃ rl, buildRuleList (p.grules s.mgr.cfg) = .ok rl) ∨
    (∃ rl k wrote, buildRuleList (p.grules s.mgr.cfg) = .ok rl ∧ f = some (k, wrote) ∧
        k < (p.trim s.mgr.cfg).writes.length ∧ tryCommitPatch s p f = (failState s p wrote, .errStorage)) ∨
    (∃ rl, buildRuleList (p.grules s.mgr.cfg) = .ok rl ∧
        (f = none ∨ ∃ k wrote, f = some (k, wrote) ∧ (p.trim s.mgr.cfg).writes.length ≤ k) ∧
        tryCommitPatch s p f = (okState s p rl, .ok)) := by
  unfold tryCommitPatch failState okState
  dsimp only
  cases hb : buildRuleList (p.grules s.mgr.cfg) with
  | error e => left; exact ⟨rfl, e, rfl⟩
  | ok rl =>
    right
    simp only
    cases f with
    | none => right; right; exact ⟨rl, rfl, Or.inl rfl, rfl⟩
    | some kw =>
      obtain ⟨k, wrote⟩ := kw
      simp only
      by_cases hk : k < (p.trim s.mgr.cfg).writes.length
      · simp only [hk, ↓reduceIte]
        by_cases hw : wroteOK (p.trim s.mgr.cfg).writes k wrote = true
        · simp only [hw, ↓reduceIte]
          right; left; exact ⟨rl, k, wrote, rfl, rfl, hk, rfl⟩
        · simp only [hw, Bool.false_eq_true, ↓reduceIte]
          left; exact ⟨by trivial, rl, rfl⟩
      · simp only [hk, ↓reduceIte]
        right; right; exact ⟨rl, rfl, Or.inr ⟨k, wrote, rfl, by omega⟩, rfl⟩

/-- once the patch of an operation exists, the operation is tryCommitPatch of that patch -/
theorem step_of_patch (s : St) (op : Op) (f : Fail) (p : Patch) (hp : patchOf s.mgr.cfg op = some p) :
    step s op f = tryCommitPatch s p f := by
  have happly : applyOp s op f = tryCommitPatch s p f := by unfold applyOp; rw [hp]
  cases op with
  | getModSet k cnt =>
    simp only [step]
    split
    · next hn =>
      exfalso
      simp only [patchOf] at hp
      cases hg : getR k s.mgr.cfg.rules with
      | none => rw [hg] at hp; cases hp
      | some r => rw [hg] at hn; simp at hn
    · exact happly
  | setRule r => exact happly
  | deleteRule k => exact happly
  | setRules rs => exact happly
  | batch ops => exact happly
  | setGroup g => exact happly
  | deleteGroup id => exact happly
  | setBundle b => exact happly
  | setAllBundles bs ov => exact happly
  | deleteBundle ids => exact happly

theorem step_cases (s : St) (op : Op) (f : Fail) :
    step s op f = (s, .notFound) ∨ step s op f = (s, .rejContent) ∨
    ∃ p, patchOf s.mgr.cfg op = some p ∧ step s op f = tryCommitPatch s p f := by
  have happly : applyOp s op f = (s, .rejContent) ∨
      ∃ p, patchOf s.mgr.cfg op = some p ∧ applyOp s op f = tryCommitPatch s p f := by
    unfold applyOp
    cases hp : patchOf s.mgr.cfg op with
    | none => left; rfl
    | some p => right; exact ⟨p, rfl, rfl⟩
  cases op with
  | getModSet k cnt =>
    simp only [step]
    split
    · left; rfl
    · right; exact happly
  | setRule r => right; exact happly
  | deleteRule k => right; exact happly
  | setRules rs => right; exact happly
  | batch ops => right; exact happly
  | setGroup g => right; exact happly
  | deleteGroup id => right; exact happly
  | setBundle b => right; exact happly
  | setAllBundles bs ov => right; exact happly
  | deleteBundle ids => right; exact happly

/-- the invariant is kept by every update of every kind, whatever the storage does -/
theorem step_wf (s : St) (h : StWF s) (op : Op) (f : Fail) : StWF (step s op f).1 := by
  rcases step_cases s op f with e | e | ⟨p, hp, e⟩
  · rw [e]; exact h
  · rw [e]; exact h
  · rw [e]
    have hpw := patchOf_wf _ _ _ hp
    rcases tryCommit_cases s p f with ⟨e1, _⟩ | ⟨e1, _⟩ | ⟨rl, k, wrote, _, _, _, e1⟩ | ⟨rl, hb, _, e1⟩
    · rw [e1]; exact h
    · rw [e1]; exact h
    · rw [e1]; exact ⟨h.cfg, h.index⟩
    · rw [e1]
      exact ⟨commit_wf _ h.cfg p hpw, by simp only [okState]; rw [commit_build _ h.cfg p hpw, hb]⟩

/-- a history: updates with their failure inputs -/
def runOps (s : St) : List (Op × Fail) → St
  | [] => s
  | (op, f) :: rest => runOps (step s op f).1 rest

theorem run_wf (s : St) (h : StWF s) (ops : List (Op × Fail)) : StWF (runOps s ops) := by
  induction ops generalizing s with
  | nil => exact h
  | cons x xs ih => exact ih _ (step_wf s h x.1 x.2)

/-- **the served index is exact in every reachable state**: after any history of updates (accepted, rejected,
    failed) GetRulesByKey / GetRulesForApplyRegion / GetSplitKeys answer from the served configuration as
    `rules_by_key_exact`, `region_rules_iff_single_segment`, `split_keys_exact` say. -/
theorem served_index_exact (s : St) (h : StWF s) (ops : List (Op × Fail)) (k sk ek : Nat) :
    let s' := runOps s ops
    getRulesByKey s'.mgr.ruleList k = some (coverList s'.mgr.cfg.grules k) ∧
    getRulesForApplyRegion s'.mgr.ruleList sk ek =
      (if (bkeys s'.mgr.cfg.grules).any (inside sk ek) then none
       else some (prepareRulesForApply (coverList s'.mgr.cfg.grules sk))) ∧
    getSplitKeys s'.mgr.ruleList sk ek = (bkeys s'.mgr.cfg.grules).filter (inside sk ek) ∧
    (∃ r ∈ s'.mgr.cfg.grules, covers r.rule k = true) := by
  intro s'
  have h' := run_wf s h ops
  have hw := grules_wf s'.mgr.cfg.rules s'.mgr.cfg.getGroup h'.cfg.keys h'.cfg.valid
  exact ⟨rules_by_key_exact _ hw.1 hw.2 _ h'.index k,
    region_rules_iff_single_segment _ hw.1 hw.2 _ h'.index sk ek,
    (split_keys_exact _ hw.1 hw.2 _ h'.index sk ek).1,
    accepted_covers_every_key _ hw.1 hw.2 _ h'.index k⟩

/-- **all-or-nothing, rejected**: an update that is refused (content, invalid resulting rule set, missing rule)
    changes nothing – neither what is served nor what is stored. -/
theorem rejected_changes_nothing (s : St) (op : Op) (f : Fail)
    (h : (step s op f).2 = .rejContent ∨ (step s op f).2 = .rejBuild ∨ (step s op f).2 = .notFound) :
    (step s op f).1 = s := by
  rcases step_cases s op f with e | e | ⟨p, hp, e⟩
  · rw [e]
  · rw [e]
  · rw [e] at h ⊢
    rcases tryCommit_cases s p f with ⟨e1, _⟩ | ⟨e1, _⟩ | ⟨rl, k, wrote, _, _, _, e1⟩ | ⟨rl, hb, _, e1⟩
    · rw [e1]
    · rw [e1]
    · rw [e1] at h; simp at h
    · rw [e1] at h; simp at h

/-- an update is refused exactly when the configuration it would produce leaves some key without a valid
    rule set: the decision is `buildRuleList` of the patched view (`gap_rejected`,
    `no_voter_or_two_leaders_rejected`, `accepted_valid_everywhere` say what that means) -/
theorem rejBuild_iff (s : St) (p : Patch) (f : Fail) :
    (tryCommitPatch s p f).2 = .rejBuild ↔ ∃ e, buildRuleList (p.grules s.mgr.cfg) = .error e := by
  rcases tryCommit_cases s p f with ⟨e1, h⟩ | ⟨e1, rl, hb⟩ | ⟨rl, k, wrote, hb, _, _, e1⟩ | ⟨rl, hb, _, e1⟩
  · rw [e1]; exact ⟨fun _ => h, fun _ => rfl⟩
  · rw [e1, hb]; simp
  · rw [e1, hb]; simp
  · rw [e1, hb]; simp

/-- **failed_save_served_unchanged** – when a write of savePatch fails, what is served (rules, groups, index)
    is exactly what was served before. -/
theorem failed_save_served_unchanged (s : St) (op : Op) (f : Fail) (h : (step s op f).2 = .errStorage) :
    (step s op f).1.mgr = s.mgr := by
  rcases step_cases s op f with e | e | ⟨p, hp, e⟩
  · rw [e]
  · rw [e]
  · rw [e] at h ⊢
    rcases tryCommit_cases s p f with ⟨e1, _⟩ | ⟨e1, _⟩ | ⟨rl, k, wrote, _, _, _, e1⟩ | ⟨rl, hb, _, e1⟩
    · rw [e1]
    · rw [e1]
    · rw [e1]; rfl
    · rw [e1] at h; simp at h

/-- **accepted_failure_free_storage_eq_served** – if storage and served agree, an accepted update whose writes
    all succeed leaves them in agreement (so a restarted manager finds exactly the served rules and groups
    in storage, `load_serves_storage`). -/
theorem accepted_failure_free_storage_eq_served (s : St) (h : StWF s) (hsync : InSync s) (op : Op) :
    InSync (step s op none).1 := by
  rcases step_cases s op none with e | e | ⟨p, hp, e⟩
  · rw [e]; exact hsync
  · rw [e]; exact hsync
  · rw [e]
    have hpw := patchOf_wf _ _ _ hp
    rcases tryCommit_cases s p none with ⟨e1, _⟩ | ⟨e1, _⟩ | ⟨rl, k, wrote, _, hf, _, _⟩ | ⟨rl, hb, _, e1⟩
    · rw [e1]; exact hsync
    · rw [e1]; exact hsync
    · cases hf
    · rw [e1]; exact accept_sync s h.cfg hsync p hpw rl

/-- failure-free histories: storage = served after every update -/
theorem failure_free_history_in_sync (s : St) (h : StWF s) (hsync : InSync s) (ops : List Op) :
    InSync (runOps s (ops.map (fun op => (op, none)))) := by
  induction ops generalizing s with
  | nil => exact hsync
  | cons op rest ih =>
    exact ih _ (step_wf s h op none) (accepted_failure_free_storage_eq_served s h hsync op)

/-- **retry_converges** – storage and served agree; an update fails at some write (any k, any admissible set of
    completed writes); the *same* update, retried and not failing, is accepted and storage and served agree
    again. -/
theorem retry_converges (s : St) (h : StWF s) (hsync : InSync s) (op : Op) (k : Nat) (wrote : List (Bool × K))
    (hfail : (step s op (some (k, wrote))).2 = .errStorage) :
    (step (step s op (some (k, wrote))).1 op none).2 = .ok ∧
    InSync (step (step s op (some (k, wrote))).1 op none).1 := by
  rcases step_cases s op (some (k, wrote)) with e | e | ⟨p, hp, e⟩
  · rw [e] at hfail; simp at hfail
  · rw [e] at hfail; simp at hfail
  · have hpw := patchOf_wf _ _ _ hp
    rw [e] at hfail ⊢
    rcases tryCommit_cases s p (some (k, wrote)) with ⟨e1, _⟩ | ⟨e1, _⟩ | ⟨rl, k', wrote', hb, hf, hk, e1⟩ | ⟨rl, hb, _, e1⟩
    · rw [e1] at hfail; simp at hfail
    · rw [e1] at hfail; simp at hfail
    · rw [e1]
      -- the retried update sees the same served configuration, hence builds the same patch and the same index
      have hmgr : (failState s p wrote').mgr = s.mgr := rfl
      have hp2 : patchOf (failState s p wrote').mgr.cfg op = some p := by rw [hmgr]; exact hp
      rw [step_of_patch _ op none p hp2]
      have hok : tryCommitPatch (failState s p wrote') p none =
          ({ mgr := { cfg := (p.trim s.mgr.cfg).commit s.mgr.cfg, ruleList := rl },
             store := List.foldl Storage.apply (failState s p wrote').store (p.trim s.mgr.cfg).writes }, .ok) := by
        unfold tryCommitPatch
        dsimp only
        rw [hmgr, hb]
      rw [hok]
      exact ⟨rfl, retry_sync s h.cfg hsync p hpw rl _ (fun w hw => (List.mem_filter.1 hw).1)⟩
    · rw [e1] at hfail; simp at hfail


/-! ## the initial state, a concrete history, and the known finding F6d -/

/-- the parameters the harness uses: Initialize(3, ["zone","host"]), default rule pd/default -/
def ip0 : InitParams := { maxReplica := 3, lbl := 2, pdGroup := 4, defaultId := 6 }

/-- a fresh manager on an empty storage -/
def fresh : St :=
  match initMgr ip0 {} with
  | (.ok m, store) => { mgr := m, store := store }
  | (.error _, store) => { store := store }

theorem fresh_wf : StWF fresh :=
  ⟨⟨by unfold KeysNodup; decide, by decide, by unfold KeysNodup; decide⟩, by rfl⟩

theorem fresh_sync : InSync fresh := by
  constructor
  · intro k
    have : fresh.store.rules = [((4, 6), some (defaultRule 3 2 4 6))] := by decide
    have h2 : fresh.mgr.cfg.rules = [defaultRule 3 2 4 6] := by decide
    unfold storeGetR getR mapGet
    rw [this, h2]
    by_cases e : k = (4, 6)
    · subst e; decide
    · have e1 : ¬ ((4, 6) : K) = k := fun h => e h.symm
      have e2 : ¬ (defaultRule 3 2 4 6).key = k := fun h => e (by rw [← h]; decide)
      simp [List.find?_cons, e1, e2]
  · intro id
    have : fresh.store.groups = [] := by decide
    have h2 : fresh.mgr.cfg.groups = [defaultGroup 4] := by decide
    unfold getG mapGet
    rw [this, h2]
    by_cases e : id = 4
    · subst e; decide
    · have e1 : ¬ gKey (defaultGroup 4) = (id, 0) := by
        simp only [gKey, defaultGroup, Prod.mk.injEq, and_true]; exact fun h => e h.symm
      simp [List.find?_cons, e1]

/-- **every reachable state** (any history from a fresh manager, any failures) serves an exact index -/
theorem reachable_wf (ops : List (Op × Fail)) : StWF (runOps fresh ops) := run_wf fresh fresh_wf ops

/-- **every failure-free history** from a fresh manager keeps storage = served -/
theorem reachable_failure_free_in_sync (ops : List Op) :
    InSync (runOps fresh (ops.map (fun op => (op, none)))) :=
  failure_free_history_in_sync fresh fresh_wf fresh_sync ops

/-! non-vacuity: a history with nested ranges, an override, a rejected gap, a failed save and its retry -/
def rA : Rule := { group := 1, id := 1, index := 0, override := false, start := 0, end_ := 3, role := .voter, count := 1, lbl := 0 }
def rB : Rule := { group := 1, id := 2, index := 1, override := true, start := 2, end_ := 0, role := .voter, count := 2, lbl := 0 }
def demoHistory : List (Op × Fail) :=
  [(.setRule rA, none), (.setRule rB, none), (.deleteRule (4, 6), none),      -- rejected: (3, 2) … fine, (0,2) only rA
   (.batch [.add { rA with id := 3, start := 0, end_ := 0 }, .del (4, 6)], some (1, [(true, (1, 3))])),
   (.batch [.add { rA with id := 3, start := 0, end_ := 0 }, .del (4, 6)], none)]

example : (getAllRules (runOps fresh demoHistory).mgr).map (·.rule.key) = [(1, 1), (1, 3), (1, 2)] := by decide
example : (getRulesByKey (runOps fresh demoHistory).mgr.ruleList 2).map (·.map (·.rule.key)) = some [(1, 1), (1, 3), (1, 2)] := by decide
example : (getRulesForApplyRegion (runOps fresh demoHistory).mgr.ruleList 2 3).map (·.map (·.rule.key)) = some [(1, 2)] := by decide
example : getRulesForApplyRegion (runOps fresh demoHistory).mgr.ruleList 1 3 = none := by decide
example : getSplitKeys (runOps fresh demoHistory).mgr.ruleList 0 0 = [2, 3] := by decide

/-- **F6d (known finding)**: SetGroupBundle writes its rule, the group write fails (served unchanged); a
    *different* update is then accepted: the storage still holds rule g/a, which is not served – a restarted
    manager would serve it.  (`retry_converges` is the positive part: retrying the *same* update repairs it.) -/
def f6dHistory : List (Op × Fail) :=
  [(.setBundle ⟨1, 1, false, [{ rA with end_ := 0 }]⟩, some (1, [(true, (1, 1))])),
   (.setRule { rA with id := 2, end_ := 0 }, none)]

theorem failed_save_then_other_update_counterexample :
    ¬ InSync (runOps fresh f6dHistory) := by
  intro h
  have := h.rules (1, 1)
  revert this
  decide

/-- the general statement that does hold is `accepted_failure_free_storage_eq_served` (no failure since storage
    and served agreed) together with `retry_converges`; with a failed save in between, agreement after a
    *different* accepted update is not guaranteed (`failed_save_then_other_update_counterexample`). -/
theorem accepted_storage_eq_served_partial (s : St) (h : StWF s) (hsync : InSync s) (op : Op) (f : Fail)
    (hnofail : f = none) : InSync (step s op f).1 := by
  subst hnofail; exact accepted_failure_free_storage_eq_served s h hsync op


/-! ## restart -/

theorem step_storeWF (s : St) (h : StoreWF s.store) (op : Op) (f : Fail) : StoreWF (step s op f).1.store := by
  rcases step_cases s op f with e | e | ⟨p, hp, e⟩
  · rw [e]; exact h
  · rw [e]; exact h
  · rw [e]
    rcases tryCommit_cases s p f with ⟨e1, _⟩ | ⟨e1, _⟩ | ⟨rl, k, wrote, _, _, _, e1⟩ | ⟨rl, hb, _, e1⟩
    · rw [e1]; exact h
    · rw [e1]; exact h
    · rw [e1]; exact storeWF_fold _ _ h
    · rw [e1]; exact storeWF_fold _ _ h

theorem run_storeWF (s : St) (h : StoreWF s.store) (ops : List (Op × Fail)) : StoreWF (runOps s ops).store := by
  induction ops generalizing s with
  | nil => exact h
  | cons x xs ih => exact ih _ (step_storeWF s h x.1 x.2)

theorem fresh_storeWF : StoreWF fresh.store :=
  ⟨by unfold KeysNodup; decide,
   by
    have : fresh.store.rules = [((4, 6), some (defaultRule 3 2 4 6))] := by decide
    rw [this]
    intro kv hkv
    simp only [List.mem_singleton] at hkv
    exact ⟨defaultRule 3 2 4 6, by rw [hkv]; rfl⟩,
   by unfold KeysNodup; decide⟩

/-- **a restarted PD loads exactly what is being served** – whenever storage and served agree (in particular
    after every update of a failure-free history, and after a successful retry): a second manager initialised
    from the same storage has the same rules, the same group configurations and the same index, and leaves
    the storage untouched. -/
theorem restart_loads_served (ip : InitParams) (s : St) (h : StWF s) (hsync : InSync s) (hst : StoreWF s.store) :
    ∃ m', initMgr ip s.store = (.ok m', s.store) ∧ m'.ruleList = s.mgr.ruleList ∧
      (∀ k, getR k m'.cfg.rules = getR k s.mgr.cfg.rules) ∧
      (∀ id, m'.cfg.getGroup id = s.mgr.cfg.getGroup id) :=
  load_serves_storage ip s h.cfg h.index hsync hst

theorem failure_free_restart_loads_served (ip : InitParams) (ops : List Op) :
    let s := runOps fresh (ops.map (fun op => (op, none)))
    ∃ m', initMgr ip s.store = (.ok m', s.store) ∧ m'.ruleList = s.mgr.ruleList ∧
      (∀ k, getR k m'.cfg.rules = getR k s.mgr.cfg.rules) ∧
      (∀ id, m'.cfg.getGroup id = s.mgr.cfg.getGroup id) :=
  restart_loads_served ip _ (reachable_wf _) (reachable_failure_free_in_sync ops) (run_storeWF fresh fresh_storeWF _)


/-! ## the monitor's functions -/

/-- **spec_functions_agree** – in every state satisfying the invariant (hence in every reachable state) the
    functions of `Spec.C13`, evaluated on the served rules and groups (which is what the monitor does with the
    implementation's `GetAllRules` / `GetRuleGroups`), give exactly the answers of the served index, and every key
    has a valid rule set. -/
theorem spec_functions_agree (s : St) (h : StWF s) (k sk ek : Nat) :
    (getRulesByKey s.mgr.ruleList k).map (·.map (·.rule)) = some (rulesAt ⟨s.mgr.cfg.rules, s.mgr.cfg.groups⟩ k) ∧
    (getRulesForApplyRegion s.mgr.ruleList sk ek).map (·.map (·.rule)) =
      applyFor ⟨s.mgr.cfg.rules, s.mgr.cfg.groups⟩ sk ek ∧
    getSplitKeys s.mgr.ruleList sk ek = splitKeys ⟨s.mgr.cfg.rules, s.mgr.cfg.groups⟩ sk ek ∧
    keyOK ⟨s.mgr.cfg.rules, s.mgr.cfg.groups⟩ k = true := by
  have hw := grules_wf s.mgr.cfg.rules s.mgr.cfg.getGroup h.cfg.keys h.cfg.valid
  have hw1 : RulesWF s.mgr.cfg.grules := hw.1
  have hw2 : RangeWF s.mgr.cfg.grules := hw.2
  refine ⟨?_, region_applyFor _ h.cfg.keys h.cfg.valid _ h.index sk ek, ?_, keyOK_built _ h.cfg.keys h.cfg.valid _ h.index k⟩
  · rw [rules_by_key_exact _ hw1 hw2 _ h.index k]
    simp only [Option.map_some, coverList_rulesAt]
  · rw [(split_keys_exact _ hw1 hw2 _ h.index sk ek).1, bkeys_splitKeys]

theorem reachable_spec_functions_agree (ops : List (Op × Fail)) (k sk ek : Nat) :
    let s := runOps fresh ops
    (getRulesByKey s.mgr.ruleList k).map (·.map (·.rule)) = some (rulesAt ⟨s.mgr.cfg.rules, s.mgr.cfg.groups⟩ k) ∧
    (getRulesForApplyRegion s.mgr.ruleList sk ek).map (·.map (·.rule)) =
      applyFor ⟨s.mgr.cfg.rules, s.mgr.cfg.groups⟩ sk ek ∧
    getSplitKeys s.mgr.ruleList sk ek = splitKeys ⟨s.mgr.cfg.rules, s.mgr.cfg.groups⟩ sk ek ∧
    keyOK ⟨s.mgr.cfg.rules, s.mgr.cfg.groups⟩ k = true :=
  spec_functions_agree _ (reachable_wf ops) k sk ek


/-! ## start-up with a failing write (key repair of loadRules) -/

theorem initMgrF_none (ip : InitParams) (store : Storage) :
    (initMgrF ip store none).2 = (initMgr ip store).2 ∧
    ((initMgrF ip store none).1.isSome ↔ ∃ m, (initMgr ip store).1 = .ok m) := by
  unfold initMgrF
  cases h : initMgr ip store with
  | mk r st => cases r <;> simp

/-- **F6f (known finding)**: rule g2/aa is stored under the foreign key g2/a, and its own key g2/aa holds the only copy
    of the (also misplaced) rule pd/ab.  A healthy start-up serves both.  If the second write of the repair fails,
    pd/ab has already been overwritten by the restored g2/aa and is not yet re-saved: the next, healthy start-up no
    longer serves it. -/
def chainedStore : Storage :=
  { rules := [((2, 1), some { rA with group := 2, id := 2, end_ := 0 }),
              ((2, 2), some { rA with group := 4, id := 3, end_ := 0 }),
              ((4, 6), some (defaultRule 3 2 4 6))] }

theorem failed_initialize_chained_counterexample :
    (match (initMgr ip0 chainedStore).1 with
      | .ok m => (getR (4, 3) m.cfg.rules).isSome | .error _ => false) = true ∧
    (initMgrF ip0 chainedStore (some 1)).1.isNone = true ∧
    (match (initMgr ip0 (initMgrF ip0 chainedStore (some 1)).2).1 with
      | .ok m => (getR (4, 3) m.cfg.rules).isSome | .error _ => true) = false := by decide

end PdModel.Rules
