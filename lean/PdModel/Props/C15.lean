import PdModel.Model.GcSafePoint
import PdModel.Lemmas.GcSafePoint
import PdModel.Lemmas.GcService
import PdModel.Spec.C15
import PdModel.Generated.GcSafePoint
set_option linter.unusedSimpArgs false
set_option linter.unusedVariables false
/-!
C15 – property theorems.

Cluster safe point.  Quantifiers: every number of update and read requests with arbitrary values, every
interleaving of their storage accesses and mutex acquisitions (a history is an arbitrary list of
micro-steps), every storage failure (error with or without effect), no bound on the length.

Service safe points.  Quantifiers: every stored table (also tables no sequence of requests produces: legacy
records, missing or finite gc_worker), every request, every time the server may read from the TSO, every
failing storage write.
-/
namespace PdModel.GcSafePoint
open PdModel.Spec

/-! ## cluster safe point -/

theorem events_holds (ops : List COp) :
    ∀ (s : CSt) (p : List C15.Ev), Inv s → Rel s p → C15.Holds p → C15.Holds (p ++ events s ops) := by
  induction ops with
  | nil => intro s p _ _ hp; simpa [events] using hp
  | cons op ops ih =>
    intro s p hi hr hp
    obtain ⟨h1, h2, h3⟩ := step_ok s p op hi hr hp
    simp only [events]
    rw [← List.append_assoc]
    exact ih _ _ h1 h3 h2

/-- **C15, cluster safe point.**  With the load-compare-save of `UpdateGCSafePoint` inside one critical
    section: in every history the stored safe point never decreases and every response (of an update or
    of a read) is at least every value acknowledged before that request began. -/
theorem cluster_safepoint_monotone (ops : List COp) : C15.Holds (events (cinit true) ops) := by
  have := events_holds ops (cinit true) [] inv_init rel_nil C15.holds_nil
  simpa using this

/-- the handler in the tree is the atomic one (regenerated from server/grpc_service.go on every run:
    `Lock(); defer Unlock()` precede both `LoadGCSafePoint` and `SaveGCSafePoint`) -/
theorem handler_is_atomic : PdModel.Generated.GcSafePoint.updateIsAtomic = true := by decide

/-- the theorem for the handler as extracted -/
theorem cluster_safepoint_monotone_extracted (ops : List COp) :
    C15.Holds (events (cinit PdModel.Generated.GcSafePoint.updateIsAtomic) ops) := by
  rw [handler_is_atomic]; exact cluster_safepoint_monotone ops

/-- every reachable state of the atomic handler satisfies the invariant -/
theorem inv_reachable (ops : List COp) : Inv (crun (cinit true) ops) := by
  suffices h : ∀ (s : CSt) (p : List C15.Ev), Inv s → Rel s p → C15.Holds p → Inv (crun s ops) from
    h _ [] inv_init rel_nil C15.holds_nil
  induction ops with
  | nil => intro s p h _ _; exact h
  | cons op ops ih =>
    intro s p hi hr hp
    obtain ⟨h1, h2, h3⟩ := step_ok s p op hi hr hp
    simp only [crun, List.foldl_cons]
    exact ih _ _ h1 h3 h2

/-- no micro-step of a reachable state lowers the stored safe point, and nothing acknowledged exceeds it -/
theorem stored_never_decreases (ops : List COp) (op : COp) :
    (crun (cinit true) ops).stored ≤ (cstep (crun (cinit true) ops) op).1.stored ∧
    (crun (cinit true) ops).maxAck ≤ (crun (cinit true) ops).stored := by
  have hi := inv_reachable ops
  generalize crun (cinit true) ops = s at hi
  refine ⟨?_, hi.ackLe⟩
  cases op with
  | begin v => simp only [cstep]; split <;> exact Nat.le_refl _
  | acquire r => simp only [cstep]; repeat' split
                 all_goals simp [setReq]
  | get => simp [cstep]
  | load r f =>
    simp only [cstep]; repeat' split
    all_goals simp [setReq, finish]
  | save r f =>
    simp only [cstep]
    split
    · next x hx =>
      split
      · next old hph =>
        have := (hi.saved r x old hx hph)
        cases f <;> simp [finish] <;> omega
      · exact Nat.le_refl _
    · exact Nat.le_refl _

/-- the pinned handler (no critical section): two requests 10 and 20 both load 0, 20 is saved and
    acknowledged, then 10 is saved -/
def raceWitness : List COp :=
  [.begin 10, .begin 20, .load 0 .none, .load 1 .none, .save 1 .none, .save 0 .none, .get]

/-- **counterexample for the split version**: on `raceWitness` the stored value drops from 20 to 10 and the
    final read answers 10 after 20 was acknowledged -/
theorem cluster_safepoint_counterexample : ¬ C15.Holds (events (cinit false) raceWitness) := by
  rw [← C15.check_iff]
  decide

/-- the same history is harmless for the atomic handler (the second request waits for the mutex) -/
example : C15.check (events (cinit true) raceWitness) {} = true := by decide

example : events (cinit false) raceWitness =
    [.begin 0, .stored 0, .begin 2, .stored 0, .stored 0, .stored 0, .resp 2 20, .stored 20,
     .resp 0 10, .stored 10, .begin 1, .resp 1 10, .stored 10] := by decide

/-! ## service safe points -/

def toRec (e : Entry) : C15.Rec := ⟨e.id, e.sp, e.exp⟩

/-- what an observer records of one answered request -/
def obsOf (gc : String) (t : Table) (svc : String) (ttl : Int) (sp : Nat) (now : Int) (t' : Table)
    (msp : Nat) : C15.Obs :=
  { gcWorker := gc, svc := svc, ttl := ttl, sp := sp, now := now, minSp := msp,
    before := t.map toRec, after := t'.map toRec }

variable (gc : String) (t : Table) (svc : String) (ttl : Int) (sp : Nat) (now : Int) (failAt : Nat)
variable (t' : Table) (mid : String) (mttl : Int) (msp : Nat)

/-- **min_not_above_live** – whatever write fails: the reported minimum is not above the safe point of any
    record left that is live (not expired, or gc_worker's). -/
theorem min_not_above_live (hnow : now ≤ maxI64)
    (h : usp gc t svc ttl sp now failAt = (t', .ok mid mttl msp)) :
    ∀ x ∈ t', (x.id = gc ∨ now ≤ x.exp) → msp ≤ x.sp := by
  intro x hx hl
  cases usp_ok_inv gc t svc ttl sp now failAt t' mid mttl msp h with
  | removed w1 w2 m h0 hgc hv hw hl' hm =>
    have := (loadMin_ok gc now hnow _ _ _ _ _ hl').below x hx hl; omega
  | refused w2 m h0 hlt hl' hm =>
    have := (loadMin_ok gc now hnow _ _ _ _ _ hl').below x hx hl; omega
  | saved w2 t2 m h0 hge hv hgc hl' ht hm =>
    rw [ht, mem_tput] at hx
    rcases hx with rfl | ⟨hx, _⟩
    · simp only [newEntry]; omega
    · have := (loadMin_ok gc now hnow _ _ _ _ _ hl').below x hx hl; omega
  | reloaded w2 w3 w4 t2 m m' h0 hge hv hgc hl' hw hl'' hm =>
    have := (loadMin_ok gc now hnow _ _ _ _ _ hl'').below x hx hl; omega

/-- **gc_worker_always_present_infinite** – whatever write fails: after an answered request gc_worker's
    record exists and never expires. -/
theorem gc_worker_always_present_infinite (hnow : now ≤ maxI64)
    (h : usp gc t svc ttl sp now failAt = (t', .ok mid mttl msp)) :
    ∃ x ∈ t', x.id = gc ∧ x.exp = maxI64 := by
  cases usp_ok_inv gc t svc ttl sp now failAt t' mid mttl msp h with
  | removed w1 w2 m h0 hgc hv hw hl' hm => exact (loadMin_ok gc now hnow _ _ _ _ _ hl').gc
  | refused w2 m h0 hlt hl' hm => exact (loadMin_ok gc now hnow _ _ _ _ _ hl').gc
  | reloaded w2 w3 w4 t2 m m' h0 hge hv hgc hl' hw hl'' hm =>
    exact (loadMin_ok gc now hnow _ _ _ _ _ hl'').gc
  | saved w2 t2 m h0 hge hv hgc hl' ht hm =>
    obtain ⟨x, hx, hid, hex⟩ := (loadMin_ok gc now hnow _ _ _ _ _ hl').gc
    by_cases hs : svc = gc
    · exact ⟨newEntry svc ttl sp now, by rw [ht, mem_tput]; left; rfl, by simp [newEntry, hs], hgc hs⟩
    · refine ⟨x, ?_, hid, hex⟩
      rw [ht, mem_tput]; right
      exact ⟨hx, by simp only [newEntry]; rw [hid]; exact Ne.symm hs⟩

/-- **expired_or_nonpositive_ttl_gone** – (1) when no storage write fails, no expired record is left;
    (2) whatever write fails, after a request with ttl ≤ 0 the service has no record. -/
theorem expired_or_nonpositive_ttl_gone (hnow : now ≤ maxI64)
    (h : usp gc t svc ttl sp now failAt = (t', .ok mid mttl msp)) :
    (failAt = 0 → ∀ x ∈ t', now ≤ x.exp) ∧ (ttl ≤ 0 → ∀ x ∈ t', x.id ≠ svc) := by
  have hnew : 0 < ttl → now ≤ (newEntry svc ttl sp now).exp := by
    intro h0; simp only [newEntry]; split <;> omega
  cases usp_ok_inv gc t svc ttl sp now failAt t' mid mttl msp h with
  | removed w1 w2 m h0 hgc hv hw hl' hm =>
    have hk := loadMin_ok gc now hnow _ _ _ _ _ hl'
    refine ⟨fun hf => hk.pruned (by rw [hw]; exact hf), ?_⟩
    intro _ x hx
    rcases hk.frame x hx with h1 | ⟨h1, _⟩
    · exact ((mem_tremove _ _ _).1 h1).2
    · rw [h1]; exact Ne.symm hgc
  | refused w2 m h0 hlt hl' hm =>
    exact ⟨fun hf => (loadMin_ok gc now hnow _ _ _ _ _ hl').pruned (by simpa using hf), by intro; omega⟩
  | saved w2 t2 m h0 hge hv hgc hl' ht hm =>
    refine ⟨?_, by intro; omega⟩
    intro hf x hx
    rw [ht, mem_tput] at hx
    rcases hx with rfl | ⟨hx, _⟩
    · exact hnew h0
    · exact (loadMin_ok gc now hnow _ _ _ _ _ hl').pruned (by simpa using hf) x hx
  | reloaded w2 w3 w4 t2 m m' h0 hge hv hgc hl' hw hl'' hm =>
    refine ⟨?_, by intro; omega⟩
    intro hf
    have h2 := (loadMin_ok gc now hnow _ _ _ _ _ hl').wfail
    exact (loadMin_ok gc now hnow _ _ _ _ _ hl'').pruned (by rw [hw, h2]; simpa using hf)

/-- **below_min_not_recorded** – when no storage write fails: a registration below the safe points of all
    live records (and there is one) is not recorded; whatever record the service has afterwards stays above
    the refused value. -/
theorem below_min_not_recorded (hnow : now ≤ maxI64)
    (h : usp gc t svc ttl sp now 0 = (t', .ok mid mttl msp))
    (hpos : 0 < ttl) (hex : ∃ e ∈ t, e.id = gc ∨ now ≤ e.exp)
    (hall : ∀ e ∈ t, (e.id = gc ∨ now ≤ e.exp) → sp < e.sp) :
    (∀ x ∈ t', x.id = svc → sp < x.sp) ∧ sp < msp := by
  have hmin : ∀ (t2 : Table) (w2 : W) (m : Entry),
      loadMin gc now t { failAt := 0 } = (t2, w2, .ok m) → sp < m.sp := by
    intro t2 w2 m hl
    obtain ⟨e, he, hc, hs⟩ := (loadMin_ok gc now hnow _ _ _ _ _ hl).attain hex
    have := hall e he hc; omega
  cases usp_ok_inv gc t svc ttl sp now 0 t' mid mttl msp h with
  | removed w1 w2 m h0 hgc hv hw hl' hm => omega
  | refused w2 m h0 hlt hl' hm =>
    have hk := loadMin_ok gc now hnow _ _ _ _ _ hl'
    refine ⟨?_, by omega⟩
    intro x hx _
    rcases hk.frame x hx with h1 | ⟨h1, ⟨e, he, h2, h3⟩ | h2⟩
    · exact hall x h1 (Or.inr (hk.pruned rfl x hx))
    · have := hall e he (Or.inl h2); omega
    · omega
  | saved w2 t2 m h0 hge hv hgc hl' ht hm => have := hmin _ _ _ hl'; omega
  | reloaded w2 w3 w4 t2 m m' h0 hge hv hgc hl' hw hl'' hm => have := hmin _ _ _ hl'; omega

/-- **malformed service ids** – an id that does not survive `path.Join` is never recorded: the only `ok`
    answers are refusals below the minimum, and every record left is an old one or gc_worker's. -/
theorem invalid_id_never_recorded (hnow : now ≤ maxI64) (hbad : validId svc = false)
    (h : usp gc t svc ttl sp now failAt = (t', .ok mid mttl msp)) :
    (0 < ttl ∧ sp < msp) ∧ ∀ x ∈ t', x ∈ t ∨ x.id = gc := by
  cases usp_ok_inv gc t svc ttl sp now failAt t' mid mttl msp h with
  | removed w1 w2 m h0 hgc hv hw hl' hm => rw [hbad] at hv; cases hv
  | saved w2 t2 m h0 hge hv hgc hl' ht hm => rw [hbad] at hv; cases hv
  | reloaded w2 w3 w4 t2 m m' h0 hge hv hgc hl' hw hl'' hm => rw [hbad] at hv; cases hv
  | refused w2 m h0 hlt hl' hm =>
    refine ⟨⟨h0, by omega⟩, ?_⟩
    intro x hx
    rcases (loadMin_ok gc now hnow _ _ _ _ _ hl').frame x hx with h1 | ⟨h1, _⟩
    · exact Or.inl h1
    · exact Or.inr h1

/-- **C15, service safe points.**  Every answered request of the model (no failing write) satisfies the
    observable specification. -/
theorem service_safepoints_hold (hnow : now ≤ maxI64)
    (h : usp gc t svc ttl sp now 0 = (t', .ok mid mttl msp)) :
    C15.SvcHolds (obsOf gc t svc ttl sp now t' msp) := by
  have hmem : ∀ (l : Table) (r : C15.Rec), r ∈ l.map toRec ↔ ∃ x ∈ l, toRec x = r := by
    intro l r; simp [List.mem_map]
  refine ⟨?_, ?_, ?_, ?_⟩
  · intro r hr hl
    obtain ⟨x, hx, rfl⟩ := (hmem _ _).1 hr
    exact min_not_above_live gc t svc ttl sp now 0 t' mid mttl msp hnow h x hx hl
  · intro hpos hex hall r hr hid
    obtain ⟨x, hx, rfl⟩ := (hmem _ _).1 hr
    obtain ⟨r0, hr0, hl0⟩ := hex
    obtain ⟨e0, he0, rfl⟩ := (hmem _ _).1 hr0
    have := below_min_not_recorded gc t svc ttl sp now t' mid mttl msp hnow h hpos ⟨e0, he0, hl0⟩
      (fun e he hc => hall (toRec e) ((hmem _ _).2 ⟨e, he, rfl⟩) hc)
    exact this.1 x hx hid
  · obtain ⟨x, hx, h1, h2⟩ := gc_worker_always_present_infinite gc t svc ttl sp now 0 t' mid mttl msp hnow h
    exact ⟨toRec x, (hmem _ _).2 ⟨x, hx, rfl⟩, h1, h2⟩
  · obtain ⟨h1, h2⟩ := expired_or_nonpositive_ttl_gone gc t svc ttl sp now 0 t' mid mttl msp hnow h
    refine ⟨?_, ?_⟩
    · intro r hr
      obtain ⟨x, hx, rfl⟩ := (hmem _ _).1 hr
      exact h1 rfl x hx
    · intro h0 r hr
      obtain ⟨x, hx, rfl⟩ := (hmem _ _).1 hr
      exact h2 h0 x hx

/-- **gc_worker's registration is never removed** – neither by the storage-level removal that the HTTP API
    `DELETE /gc/safepoint/{service_id}` performs, nor by an answered registration request. -/
theorem del_keeps_gc_worker (gc : String) (t : Table) (svc : String) :
    C15.GcWorkerKept gc (t.map toRec) ((del gc t svc).1.map toRec) := by
  rintro ⟨r, hr, hid⟩
  obtain ⟨x, hx, rfl⟩ := List.mem_map.1 hr
  refine ⟨toRec x, List.mem_map.2 ⟨x, ?_, rfl⟩, hid⟩
  unfold del
  split
  · exact hx
  · split
    · exact hx
    · rename_i hne _
      exact (mem_tremove _ _ _).2 ⟨hx, fun e => hne (by rw [← e]; exact hid.symm ▸ rfl)⟩

theorem usp_keeps_gc_worker (hnow : now ≤ maxI64)
    (h : usp gc t svc ttl sp now failAt = (t', .ok mid mttl msp)) :
    C15.GcWorkerKept gc (t.map toRec) (t'.map toRec) := by
  intro _
  obtain ⟨x, hx, h1, _⟩ := gc_worker_always_present_infinite gc t svc ttl sp now failAt t' mid mttl msp hnow h
  exact ⟨toRec x, List.mem_map.2 ⟨x, hx, rfl⟩, h1⟩

/-- the cut of the handler at its own write (used to replay requests of different services that are in flight
    together) is the handler: with nothing in between, pre and post compose to `usp`.  Under
    `serviceSafePointLock` nothing can come in between. -/
theorem usp_split :
    usp gc t svc ttl sp now failAt =
      match uspPre gc t svc ttl sp now failAt with
      | .fin t' o => (t', o)
      | .save t2 w2 min e => uspPost gc t2 w2 min e now := by
  unfold usp uspPre
  cases hr : uspRemove gc t svc ttl { failAt := failAt } with
  | error e => rfl
  | ok p =>
    obtain ⟨t1, w1⟩ := p
    simp only [uspLoad]
    generalize loadMin gc now t1 w1 = r
    obtain ⟨t2, w2, res⟩ := r
    cases res with
    | error e => rfl
    | ok min =>
      simp only [uspSave, uspPost, okOut]
      by_cases hc : ttl > 0 ∧ sp ≥ min.sp
      · simp only [hc, and_self, if_true]
        by_cases h1 : svc = ""
        · simp [h1]
        · simp only [h1, if_false]
          by_cases h2 : svc = gc ∧ (newEntry svc ttl sp now).exp ≠ maxI64
          · rw [if_pos h2, if_pos h2]
          · rw [if_neg h2, if_neg h2]
            cases hv : validId svc <;> simp [newEntry]
      · simp [hc]

/-- structure obligation: UpdateServiceGCSafePoint holds `serviceSafePointLock` for its whole body (one
    request = one step of the model) -/
theorem service_update_is_one_section :
    PdModel.Generated.GcSafePoint.serviceUpdateIsOneSection = true := by decide

/-! Non-vacuity: a concrete history with a legacy (finite) gc_worker record, an expired record, a refused
    and an accepted registration, evaluated with the extracted gc_worker id. -/
def gcId : String := PdModel.Generated.GcSafePoint.gcWorkerId

def demoTable : Table := [⟨"a", 7, 90⟩, ⟨"b", 3, 120⟩, ⟨gcId, 5, 50⟩]

example : usp gcId demoTable "c" 10 4 100 0 =
    ([⟨"b", 3, 120⟩, ⟨"c", 4, 110⟩, ⟨gcId, 5, maxI64⟩], .ok "b" 20 3) := by decide

example : usp gcId demoTable "c" 10 2 100 0 =
    ([⟨"b", 3, 120⟩, ⟨gcId, 5, maxI64⟩], .ok "b" 20 3) := by decide

example : (usp gcId demoTable ".." 0 0 100 0).2 = .err .invalidId := by decide

end PdModel.GcSafePoint
