import PdModel.Model.StorageLoad
import PdModel.Lemmas.StorageLoad
import PdModel.Lemmas.StorageKV
import PdModel.Lemmas.StoragePrune
import PdModel.Spec.C17
import PdModel.Generated.StorageLoad
set_option linter.unusedSimpArgs false
set_option linter.unusedVariables false
/-!
C17 – property theorems (nothing but the theorems and the definitions needed to state them).

`…_partial` = proved under the spelled-out hypothesis that no id equals 2^64 − 1 (`Bounded`, ids `< maxU64`);
the pinned code loses that id (`load_max_id_counterexample`, known finding F7a).

* `padded_key_order`                      zero-padded key order = id order (every width; every uint64 id)
* `kv_history`                            after every save/delete history the kv is in key order and `Load`
                                          returns the value saved last and not deleted
* `load_stores_exact_once_partial`        LoadStores hands every stored item to its callback exactly once, in
                                          id order, for every history, every page limit ≥ 1
* `load_regions_exact_once_partial`       loadRegions does the same for every error pattern that never pushes the
                                          page size below the minimum (`Tolerable`; with the extracted limits: up
                                          to 6 failing calls anywhere), whatever the page sizes it passes through
* `prune_storage_eq_cache_partial`        with the CheckAndPutRegion callback, every stored region is still handed
                                          over exactly once while leftovers are deleted under the iteration, and
                                          afterwards storage and cache hold the same regions, pairwise compatible
* `load_regions_once_flag`                LoadRegionsOnce marks the storage as loaded exactly when the load succeeded
* `flush_makes_saved_visible`             region backend (repaired), histories may contain flushes and batch-filling
                                          saves whose leveldb write fails (`flushF`, `saveF`: nothing is dropped, the
                                          next successful flush writes the batch): after a flush `LoadRegion` returns for every id
                                          what was saved last and not deleted, for every save/delete/flush history
                                          and every batch size (automatic flushes included)
* `saved_not_deleted_exact_region_backend_partial`  and a full load returns exactly those, once each
* `stop_keeps_flushed`                    a stop of the process at any point after a flush loses nothing of what was
                                          flushed and not touched afterwards
* `delete_then_flush_unfixed_counterexample`  F7b on the pinned tree before the repair
* `weights_round_trip`
-/
namespace PdModel.StorageLoad
open PdModel.SyncRegion PdModel.PadKey PdModel.Spec

variable {V : Type}

/-! ### keys -/

/-- **Zero-padded key order = id order**, for every width `w` and all numbers below `10^w`, and in
    particular for the 20-digit keys of all uint64 ids. -/
theorem padded_key_order :
    (∀ (w a b : Nat), a < 10 ^ w → b < 10 ^ w → keyLt (digits w a) (digits w b) = decide (a < b)) ∧
    (∀ a b : Nat, a ≤ maxU64 → b ≤ maxU64 → keyLt (padKey a) (padKey b) = decide (a < b)) :=
  ⟨keyLt_digits, fun a b ha hb => keyLtId_eq a b (lt20 a ha) (lt20 b hb)⟩

/-! ### histories on the default backend -/

inductive KOp (V : Type) where
  | save (id : Nat) (v : V)
  | delete (id : Nat)

def KOp.id : KOp V → Nat
  | .save id _ => id
  | .delete id => id

def kstep (kv : KV V) : KOp V → KV V
  | .save id v => kvSave kv id v
  | .delete id => kvRemove kv id

def runKV (kv : KV V) (ops : List (KOp V)) : KV V := ops.foldl kstep kv

/-- what the client expects `Load(id)` to return: the value saved last, unless deleted since -/
def specStep (j : Nat) (acc : Option V) : KOp V → Option V
  | .save id v => if j = id then some v else acc
  | .delete id => if j = id then none else acc

def specGet (ops : List (KOp V)) (j : Nat) : Option V := ops.foldl (specStep j) none

theorem specGet_snoc (ops : List (KOp V)) (op : KOp V) (j : Nat) :
    specGet (ops ++ [op]) j =
      match op with
      | .save id v => if j = id then some v else specGet ops j
      | .delete id => if j = id then none else specGet ops j := by
  unfold specGet
  rw [List.foldl_append]
  cases op <;> rfl

/-- a value that is expected was saved by some operation of the history -/
theorem specGet_some_id (ops : List (KOp V)) (j : Nat) (v : V) (h : specGet ops j = some v) :
    ∃ op ∈ ops, op.id = j := by
  unfold specGet at h
  suffices hs : ∀ (init : Option V), ops.foldl (specStep j) init = some v → init = some v ∨ ∃ op ∈ ops, op.id = j by
    rcases hs none h with h' | h'
    · cases h'
    · exact h'
  clear h
  induction ops with
  | nil => intro init h; exact Or.inl h
  | cons op ops ih =>
    intro init h
    simp only [List.foldl_cons] at h
    rcases ih _ h with h' | ⟨o, ho, hoj⟩
    · by_cases hj : op.id = j
      · exact Or.inr ⟨op, by simp, hj⟩
      · left
        cases op with
        | save id x =>
          have : ¬ j = id := fun e => hj e.symm
          simpa [specStep, this] using h'
        | delete id =>
          have : ¬ j = id := fun e => hj e.symm
          simpa [specStep, this] using h'
    · exact Or.inr ⟨o, by simp [ho], hoj⟩

theorem kv_history_aux (ops : List (KOp V)) :
    ∀ (pre : List (KOp V)) (kv : KV V), (∀ op ∈ ops, op.id ≤ maxU64) →
      Sorted kv → (∀ e ∈ kv, e.1 ≤ maxU64) → (∀ j, kvLoad kv j = specGet pre j) →
      Sorted (runKV kv ops) ∧ (∀ e ∈ runKV kv ops, e.1 ≤ maxU64) ∧
      ∀ j, kvLoad (runKV kv ops) j = specGet (pre ++ ops) j := by
  induction ops with
  | nil => intro pre kv _ hs hb hl; exact ⟨hs, hb, by simpa [runKV] using hl⟩
  | cons op ops ih =>
    intro pre kv hid hs hb hl
    have hop : op.id ≤ maxU64 := hid op (by simp)
    have hrest : ∀ o ∈ ops, o.id ≤ maxU64 := fun o ho => hid o (by simp [ho])
    have := ih (pre ++ [op]) (kstep kv op) hrest
    simp only [runKV, List.foldl_cons]
    rw [show pre ++ op :: ops = (pre ++ [op]) ++ ops by simp]
    cases op with
    | save id v =>
      simp only [KOp.id] at hop
      apply this (sorted_kvSave kv hs hb id hop v)
      · intro e he
        rcases kvSave_mem kv id v e he with h | h
        · exact hb e h
        · rw [h]; exact hop
      · intro j
        simp only [kstep]
        rw [kvLoad_kvSave kv hb id hop v j, specGet_snoc, hl]
    | delete id =>
      apply this (sorted_kvRemove kv hs id)
      · intro e he; exact hb e (List.mem_filter.1 he).1
      · intro j
        simp only [kstep]
        rw [kvLoad_kvRemove, specGet_snoc, hl]

/-- **Save/delete histories.**  After every history of saves and deletes of uint64 ids the kv is in key
    order and `Load` returns the value saved last and not deleted since. -/
theorem kv_history (ops : List (KOp V)) (hid : ∀ op ∈ ops, op.id ≤ maxU64) :
    Sorted (runKV [] ops) ∧ (∀ e ∈ runKV [] ops, e.1 ≤ maxU64) ∧
    ∀ j, kvLoad (runKV [] ops) j = specGet ops j := by
  have := kv_history_aux ops [] [] hid List.Pairwise.nil (by simp) (by intro j; simp [kvLoad, specGet])
  simpa using this

theorem bounded_of_history (ops : List (KOp V)) (hid : ∀ op ∈ ops, op.id < maxU64) :
    Bounded (runKV [] ops) := by
  suffices h : ∀ (kv : KV V), Bounded kv → Bounded (runKV kv ops) from h [] (by intro e he; cases he)
  induction ops with
  | nil => intro kv h; exact h
  | cons op ops ih =>
    intro kv h
    simp only [runKV, List.foldl_cons]
    apply ih (fun o ho => hid o (by simp [ho]))
    have hop := hid op (by simp)
    cases op with
    | save id v =>
      intro e he
      rcases kvSave_mem kv id v e he with h' | h'
      · exact h e h'
      · rw [h']; exact hop
    | delete id => intro e he; exact h e (List.mem_filter.1 he).1

/-! ### full loads -/

/-- **LoadStores, exactly once.**  For every save/delete history in which no id is 2^64 − 1 and every
    page limit ≥ 1: LoadStores ends without error and its callback receives exactly the stored items in
    ascending id order – each item saved and not deleted once, with the value saved last, and nothing else. -/
theorem load_stores_exact_once_partial (ops : List (KOp V)) (hid : ∀ op ∈ ops, op.id < maxU64)
    (limit : Nat) (hl : 1 ≤ limit) :
    loadStores (runKV [] ops) limit [] = some (false, runKV [] ops) ∧
    (runKV [] ops).Pairwise (fun a b => a.1 < b.1) ∧
    ∀ e : Nat × V, e ∈ runKV [] ops ↔ specGet ops e.1 = some e.2 := by
  obtain ⟨hs, _, hload⟩ := kv_history ops (fun op h => Nat.le_of_lt (hid op h))
  have hb := bounded_of_history ops hid
  refine ⟨?_, hs, fun e => by rw [mem_iff_kvLoad _ hs, hload]⟩
  unfold loadStores
  rw [loadStoresLoop_spec limit hl _ hs hb _ 0 [] [] (by simp) (by decide)
    (by rw [fromId_zero]; simp)]
  simp [fromId_zero]

theorem plainCb_inv : CbInv (V := V) (fun (_ : Unit) (_ : Nat × V) => ((), ([] : List Nat)))
    (fun _ => True) (fun _ _ => True) :=
  ⟨fun _ _ _ _ _ => trivial, fun _ _ _ _ d hd => (by cases hd), fun _ _ _ _ => trivial⟩

/-- a pattern with at most `k` failing calls is tolerable when `min · 2^k ≤ limit` -/
theorem tolerable_of_count (minLimit : Nat) (errs : List Bool) :
    ∀ limit : Nat, minLimit * 2 ^ (errs.filter (fun b => b)).length ≤ limit → Tolerable minLimit limit errs := by
  induction errs with
  | nil => intro _ _; trivial
  | cons b es ih =>
    intro limit h
    cases b with
    | false => exact ih limit (by simpa using h)
    | true =>
      simp only [List.filter_cons_of_pos, List.length_cons, Nat.pow_succ] at h
      have h2 : minLimit * 2 ^ (es.filter (fun b => b)).length ≤ limit / 2 := by
        rw [Nat.le_div_iff_mul_le (by decide)]
        rw [Nat.mul_assoc]; exact h
      refine ⟨?_, ih _ h2⟩
      have : 1 ≤ 2 ^ (es.filter (fun b => b)).length := Nat.one_le_two_pow
      calc minLimit = minLimit * 1 := (Nat.mul_one _).symm
        _ ≤ minLimit * 2 ^ (es.filter (fun b => b)).length := Nat.mul_le_mul_left _ this
        _ ≤ limit / 2 := h2

/-- with the limits extracted from storage.go, up to 6 failing LoadRange calls (anywhere in the load)
    are tolerated -/
theorem tolerable_extracted (errs : List Bool) (h : (errs.filter (fun b => b)).length ≤ 6) :
    Tolerable PdModel.Generated.StorageLoad.minKVRangeLimit PdModel.Generated.StorageLoad.maxKVRangeLimit errs := by
  apply tolerable_of_count
  have : 2 ^ (errs.filter (fun b => b)).length ≤ 2 ^ 6 := Nat.pow_le_pow_right (by decide) h
  calc PdModel.Generated.StorageLoad.minKVRangeLimit * 2 ^ (errs.filter (fun b => b)).length
      ≤ PdModel.Generated.StorageLoad.minKVRangeLimit * 2 ^ 6 := Nat.mul_le_mul_left _ this
    _ ≤ PdModel.Generated.StorageLoad.maxKVRangeLimit := by decide

/-- **loadRegions, exactly once.**  For every kv in key order without the id 2^64 − 1 (see `kv_history` /
    `flush_makes_saved_visible` for where such kvs come from), every maximal and minimal page size (min ≥ 1,
    max ≥ 1), all records readable (`bad` = cannot be unmarshalled) and every tolerable error pattern: the load ends without error, the callback received exactly
    the stored items in ascending id order (each once), and the storage is unchanged. -/
theorem load_regions_exact_once_partial (kv : KV V) (hs : Sorted kv) (hb : Bounded kv)
    (bad : Nat × V → Bool) (hbad : ∀ e ∈ kv, bad e = false)
    (maxLimit minLimit : Nat) (hmin : 1 ≤ minLimit) (hmax : 1 ≤ maxLimit) (errs : List Bool)
    (ht : Tolerable minLimit maxLimit errs) :
    loadRegions (fun (_ : Unit) (_ : Nat × V) => ((), ([] : List Nat))) bad maxLimit minLimit kv () errs =
      some (false, { kv := kv, cb := (), loaded := kv }) := by
  unfold loadRegions
  rw [loadRegionsLoop_spec _ bad _ _ plainCb_inv minLimit hmin _ 0 maxLimit errs _ hs hb
    (fun e he => ⟨trivial, hbad e he⟩) trivial
    (by decide) hmax ht (by rw [fromId_zero]; simp)]
  rw [fromId_zero]
  have : ∀ (items : KV V) (s : LoadSt V Unit),
      items.foldl (pageStep (fun (_ : Unit) (_ : Nat × V) => ((), ([] : List Nat)))) s =
        { kv := s.kv, cb := (), loaded := s.loaded ++ items } := by
    intro items
    induction items with
    | nil => intro s; simp
    | cons e items ih => intro s; simp only [List.foldl_cons]; rw [ih]; simp [pageStep]
  rw [this]; simp

/-- the same for region values and the limits extracted from storage.go, after any save/delete history -/
theorem load_regions_exact_once_extracted_partial (ops : List (KOp Meta)) (hid : ∀ op ∈ ops, op.id < maxU64)
    (errs : List Bool) (h6 : (errs.filter (fun b => b)).length ≤ 6) :
    loadRegions plainCb (fun _ => false) PdModel.Generated.StorageLoad.maxKVRangeLimit
      PdModel.Generated.StorageLoad.minKVRangeLimit (runKV [] ops) () errs = some (false, { kv := runKV [] ops, cb := (), loaded := runKV [] ops }) ∧
    ∀ e : Nat × Meta, e ∈ runKV [] ops ↔ specGet ops e.1 = some e.2 := by
  obtain ⟨hs, _, hload⟩ := kv_history ops (fun op h => Nat.le_of_lt (hid op h))
  refine ⟨load_regions_exact_once_partial _ hs (bounded_of_history ops hid) _ (fun _ _ => rfl) _ _ (by decide) (by decide) errs
    (tolerable_extracted errs h6), fun e => by rw [mem_iff_kvLoad _ hs, hload]⟩

/-- **F7a (known finding).**  An item with id 2^64 − 1 is stored but neither LoadStores nor loadRegions
    returns it: the end key of the range is exclusive. -/
theorem load_max_id_counterexample :
    let kv : KV Nat := runKV [] [.save (maxU64 - 1) 1, .save maxU64 2]
    kvLoad kv maxU64 = some 2 ∧
    loadStores kv 100 [] = some (false, [(maxU64 - 1, 1)]) ∧
    (loadRegions (fun (_ : Unit) (_ : Nat × Nat) => ((), ([] : List Nat))) (fun _ => false) 10000 100 kv () []).map
      (fun r => (r.1, r.2.loaded)) = some (false, [(maxU64 - 1, 1)]) := by
  decide

/-! ### pruning while loading -/

theorem fold_loaded {σ : Type} (f : σ → Nat × V → σ × List Nat) (items : KV V) (s : LoadSt V σ) :
    (items.foldl (pageStep f) s).loaded = s.loaded ++ items := by
  induction items generalizing s with
  | nil => simp
  | cons e items ih => simp only [List.foldl_cons]; rw [ih]; simp [pageStep]

/-- **Pruning.**  Storage in key order without the id 2^64 − 1, every value stored under its own id and
    readable; the callback is `CheckAndPutRegion` on an empty cache; any page sizes and any tolerable error pattern.  The
    load ends without error; every stored region was handed to the callback exactly once, in id order,
    although stale and overlapped ones are being deleted from the storage during the iteration; afterwards
    every region left in the storage is in the cache, every cached region is in the storage (under its id),
    and the cached regions are pairwise compatible (different ids, disjoint ranges). -/
theorem prune_storage_eq_cache_partial (kv : KV Meta) (hs : Sorted kv) (hb : Bounded kv) (hw : WellKeyed kv)
    (bad : Nat × Meta → Bool) (hbad : ∀ e ∈ kv, bad e = false)
    (maxLimit minLimit : Nat) (hmin : 1 ≤ minLimit) (hmax : 1 ≤ maxLimit) (errs : List Bool)
    (ht : Tolerable minLimit maxLimit errs) :
    ∃ s : LoadSt Meta Cache,
      loadRegions pruneCb bad maxLimit minLimit kv ([] : Cache) errs = some (false, s) ∧
      s.loaded = kv ∧
      (∀ e ∈ s.kv, ({ md := e.2 } : Region) ∈ s.cb) ∧
      (∀ r ∈ s.cb, (r.md.id, r.md) ∈ s.kv) ∧
      (∀ e ∈ s.kv, e ∈ kv) ∧
      s.cb.Pairwise Compat := by
  refine ⟨kv.foldl (pageStep pruneCb) { kv := kv, cb := [], loaded := [] }, ?_, ?_, ?_⟩
  · unfold loadRegions
    rw [loadRegionsLoop_spec pruneCb bad _ _ pruneCb_inv minLimit hmin _ 0 maxLimit errs
      { kv := kv, cb := [], loaded := [] } hs hb (fun e he => ⟨hw e he, hbad e he⟩)
      (by intro r hr; cases hr) (by decide) hmax ht (by rw [fromId_zero]; simp)]
    rw [fromId_zero]
  · rw [fold_loaded]; simp
  · have h := prune_fold kv hs hw kv _ hs (prune_init kv)
    refine ⟨fun e he => ?_, fun r hr => (h.cached r hr).1, h.sub, h.cons⟩
    rcases h.stored e he with h1 | h1
    · cases h1
    · exact h1

/-- **LoadRegionsOnce.**  The "already loaded" flag is set exactly when a load has succeeded: after a load
    that failed part-way (unreadable record, too many failing calls) a retry on the same Storage loads again,
    and by `prune_storage_eq_cache_partial` a successful return leaves storage = cache; once set, later calls
    do nothing. -/
theorem load_regions_once_flag {σ : Type} (f : σ → Nat × V → σ × List Nat) (bad : Nat × V → Bool)
    (maxLimit minLimit : Nat) (kv : KV V) (init : σ) (errs : List Bool) :
    ((loadRegionsOnce f bad maxLimit minLimit false kv init errs).1 = true ↔
      ∃ s, loadRegions f bad maxLimit minLimit kv init errs = some (false, s)) ∧
    (loadRegionsOnce f bad maxLimit minLimit false kv init errs).2 =
      some (loadRegions f bad maxLimit minLimit kv init errs) ∧
    loadRegionsOnce f bad maxLimit minLimit true kv init errs = (true, none) := by
  unfold loadRegionsOnce
  refine ⟨?_, ?_, by simp⟩
  · simp only [Bool.false_eq_true, if_false]
    cases h : loadRegions f bad maxLimit minLimit kv init errs with
    | none => simp
    | some r =>
      obtain ⟨e, s⟩ := r
      cases e <;> simp
  · simp only [Bool.false_eq_true, if_false]
    cases h : loadRegions f bad maxLimit minLimit kv init errs with
    | none => rfl
    | some r =>
      obtain ⟨e, s⟩ := r
      cases e <;> rfl

/-! ### the region backend -/

inductive ROp where
  | save (m : Meta)
  | delete (id : Nat)
  | flush
  /-- `SaveRegion` while the leveldb write fails (an error is returned if this save fills the batch) -/
  | saveF (m : Meta)
  /-- a flush whose leveldb write fails -/
  | flushF

def ROp.id : ROp → Nat
  | .save m => m.id
  | .delete id => id
  | .flush => 0
  | .saveF m => m.id
  | .flushF => 0

def rstep (s : RS) : ROp → RS
  | .save m => s.save m
  | .delete id => s.delete id
  | .flush => s.flush
  | .saveF m => (s.saveFailed m).1
  | .flushF => s.flushFailed

def runRS (s : RS) (ops : List ROp) : RS := ops.foldl rstep s

/-- the client's expectation: the region saved last under the id, unless deleted since -/
def toKOps : List ROp → List (KOp Meta)
  | [] => []
  | .save m :: ops => .save m.id m :: toKOps ops
  | .delete id :: ops => .delete id :: toKOps ops
  | .flush :: ops => toKOps ops
  | .saveF m :: ops => .save m.id m :: toKOps ops
  | .flushF :: ops => toKOps ops

structure RSInv (s : RS) : Prop where
  bok  : BatchOk s.batch
  bk   : ∀ e ∈ s.batch, e.1 ≤ maxU64
  lk   : ∀ e ∈ s.ldb, e.1 ≤ maxU64
  srt  : Sorted s.ldb

theorem rs_flush_inv (s : RS) (h : RSInv s) : RSInv s.flush ∧ ∀ j, viewGet s.flush j = viewGet s j := by
  have hfold : ∀ (b : List (Nat × Meta)) (kv : KV Meta), (∀ e ∈ b, e.1 ≤ maxU64) → (∀ e ∈ kv, e.1 ≤ maxU64) →
      Sorted kv → (∀ e ∈ b.foldl (fun kv e => kvSave kv e.1 e.2) kv, e.1 ≤ maxU64) ∧
        Sorted (b.foldl (fun kv e => kvSave kv e.1 e.2) kv) := by
    intro b
    induction b with
    | nil => intro kv _ hk hs; exact ⟨hk, hs⟩
    | cons x b ih =>
      intro kv hbk hk hs
      simp only [List.foldl_cons]
      have hx := hbk x (by simp)
      apply ih _ (fun e he => hbk e (by simp [he]))
      · intro e he
        rcases kvSave_mem kv x.1 x.2 e he with h' | h'
        · exact hk e h'
        · rw [h']; exact hx
      · exact sorted_kvSave kv hs hk x.1 hx x.2
  obtain ⟨h1, h2⟩ := hfold s.batch s.ldb h.bk h.lk h.srt
  refine ⟨⟨by simp [RS.flush, BatchOk], by simp [RS.flush], h1, h2⟩, fun j => ?_⟩
  simp only [viewGet, RS.flush, batchGet, List.find?_nil, Option.map_none]
  rw [kvLoad_flush s.batch h.bok h.bk s.ldb h.lk j]
  rfl

theorem rs_put_inv (s : RS) (h : RSInv s) (m : Meta) (hid : m.id ≤ maxU64) :
    RSInv { s with batch := batchPut s.batch m.id m } ∧
    ∀ j, viewGet { s with batch := batchPut s.batch m.id m } j = if j = m.id then some m else viewGet s j := by
  refine ⟨⟨batchOk_put _ h.bok _ _, ?_, h.lk, h.srt⟩, fun j => ?_⟩
  · intro e he
    unfold batchPut at he
    rcases List.mem_append.1 he with h' | h'
    · exact h.bk e (List.mem_filter.1 h').1
    · simp at h'; rw [h']; exact hid
  · simp only [viewGet]
    rw [batchGet_put]
    by_cases hj : j = m.id <;> simp [hj]

theorem rs_step_inv (s : RS) (h : RSInv s) (op : ROp) (hid : op.id ≤ maxU64) (pre : List ROp)
    (hv : ∀ j, viewGet s j = specGet (toKOps pre) j) :
    RSInv (rstep s op) ∧ ∀ j, viewGet (rstep s op) j = specGet (toKOps (pre ++ [op])) j := by
  have htk : ∀ (pre : List ROp) (op : ROp), toKOps (pre ++ [op]) = toKOps pre ++ toKOps [op] := by
    intro pre op
    induction pre with
    | nil => simp [toKOps]
    | cons x pre ih => cases x <;> simp [toKOps, ih]
  cases op with
  | flush =>
    obtain ⟨h1, h2⟩ := rs_flush_inv s h
    refine ⟨h1, fun j => ?_⟩
    simp only [rstep]
    rw [h2, htk]; simp [toKOps, hv]
  | delete id =>
    refine ⟨⟨h.bok.filter _, fun e he => h.bk e (List.mem_filter.1 he).1,
      fun e he => h.lk e (List.mem_filter.1 he).1, sorted_kvRemove _ h.srt id⟩, fun j => ?_⟩
    rw [htk]
    simp only [toKOps, rstep, RS.delete, viewGet]
    rw [specGet_snoc, batchGet_filter, kvLoad_kvRemove]
    by_cases hj : j = id
    · simp [hj]
    · simp only [hj, if_false]
      have := hv j
      simp only [viewGet] at this
      exact this
  | save m =>
    simp only [ROp.id] at hid
    -- the state with the new batch entry
    have hput : RSInv { s with batch := batchPut s.batch m.id m } ∧
        ∀ j, viewGet { s with batch := batchPut s.batch m.id m } j = if j = m.id then some m else viewGet s j := by
      refine ⟨⟨batchOk_put _ h.bok _ _, ?_, h.lk, h.srt⟩, fun j => ?_⟩
      · intro e he
        unfold batchPut at he
        rcases List.mem_append.1 he with h' | h'
        · exact h.bk e (List.mem_filter.1 h').1
        · simp at h'; rw [h']; exact hid
      · simp only [viewGet]
        rw [batchGet_put]
        by_cases hj : j = m.id <;> simp [hj]
    rw [htk]
    simp only [toKOps, rstep, RS.save]
    split
    · refine ⟨⟨hput.1.bok, hput.1.bk, h.lk, h.srt⟩, fun j => ?_⟩
      rw [specGet_snoc]
      have := hput.2 j
      simp only [viewGet] at this ⊢
      rw [this]
      by_cases hj : j = m.id
      · simp [hj]
      · simp only [hj, if_false]; exact hv j
    · obtain ⟨h1, h2⟩ := rs_flush_inv _ hput.1
      refine ⟨h1, fun j => ?_⟩
      rw [h2, hput.2, specGet_snoc]
      by_cases hj : j = m.id
      · simp [hj]
      · simp only [hj, if_false]; exact hv j
  | flushF =>
    refine ⟨h, fun j => ?_⟩
    simp only [rstep, RS.flushFailed]
    rw [htk]; simp [toKOps, hv]
  | saveF m =>
    simp only [ROp.id] at hid
    have hput := rs_put_inv s h m hid
    rw [htk]
    simp only [toKOps, rstep, RS.saveFailed, RS.flushFailed]
    have hview : ∀ j, viewGet { s with batch := batchPut s.batch m.id m } j =
        specGet (toKOps pre ++ [KOp.save m.id m]) j := by
      intro j
      rw [hput.2, specGet_snoc]
      by_cases hj : j = m.id
      · simp [hj]
      · simp only [hj, if_false]; exact hv j
    split
    · refine ⟨⟨hput.1.bok, hput.1.bk, h.lk, h.srt⟩, fun j => ?_⟩
      have := hview j
      simp only [viewGet] at this ⊢
      exact this
    · exact ⟨hput.1, hview⟩

theorem rs_run_inv (ops : List ROp) :
    ∀ (pre : List ROp) (s : RS), (∀ op ∈ ops, op.id ≤ maxU64) → RSInv s →
      (∀ j, viewGet s j = specGet (toKOps pre) j) →
      RSInv (runRS s ops) ∧ ∀ j, viewGet (runRS s ops) j = specGet (toKOps (pre ++ ops)) j := by
  induction ops with
  | nil => intro pre s _ h hv; exact ⟨h, by simpa [runRS] using hv⟩
  | cons op ops ih =>
    intro pre s hid h hv
    obtain ⟨h1, h2⟩ := rs_step_inv s h op (hid op (by simp)) pre hv
    have := ih (pre ++ [op]) (rstep s op) (fun o ho => hid o (by simp [ho])) h1 h2
    simpa [runRS] using this

theorem rsinv_empty (bs : Nat) : RSInv { batchSize := bs } :=
  ⟨List.Pairwise.nil, by simp, by simp, List.Pairwise.nil⟩

/-- **Flush makes saved regions visible.**  Region backend of the repaired tree, any batch size; every
    history of saves, deletes and flushes (the automatic flush on the `batchSize`-th save included).  Once a
    further flush (or close) has returned, the leveldb content is in key order and `LoadRegion(id)` returns,
    for every id, the region saved last under it and not deleted since. -/
theorem flush_makes_saved_visible (batchSize : Nat) (ops : List ROp) (hid : ∀ op ∈ ops, op.id ≤ maxU64) :
    let s := (runRS { batchSize := batchSize } ops).flush
    Sorted s.ldb ∧ s.batch = [] ∧ ∀ j, kvLoad s.ldb j = specGet (toKOps ops) j := by
  intro s
  obtain ⟨h1, h2⟩ := rs_run_inv ops [] { batchSize := batchSize } hid (rsinv_empty _)
    (by intro j; simp [viewGet, batchGet, kvLoad, toKOps, specGet])
  obtain ⟨h3, h4⟩ := rs_flush_inv _ h1
  refine ⟨h3.srt, rfl, fun j => ?_⟩
  have := h4 j
  rw [h2 j] at this
  simp only [List.nil_append] at this
  rw [← this]
  simp [viewGet, s, RS.flush, batchGet]

/-- **Saved and not deleted = loaded, region backend.**  After such a history and a flush, a full load
    (any tolerable error pattern) hands exactly the regions saved and not deleted to the callback, once each,
    in id order – provided no id is 2^64 − 1. -/
theorem saved_not_deleted_exact_region_backend_partial (batchSize : Nat) (ops : List ROp)
    (hid : ∀ op ∈ ops, op.id < maxU64) (errs : List Bool) (h6 : (errs.filter (fun b => b)).length ≤ 6) :
    let s := (runRS { batchSize := batchSize } ops).flush
    loadRegions (fun (_ : Unit) (_ : Nat × Meta) => ((), ([] : List Nat))) (fun _ => false)
      PdModel.Generated.StorageLoad.maxKVRangeLimit PdModel.Generated.StorageLoad.minKVRangeLimit s.ldb () errs =
        some (false, { kv := s.ldb, cb := (), loaded := s.ldb }) ∧
    ∀ e : Nat × Meta, e ∈ s.ldb ↔ specGet (toKOps ops) e.1 = some e.2 := by
  intro s
  obtain ⟨hs, _, hl⟩ := flush_makes_saved_visible batchSize ops (fun op h => Nat.le_of_lt (hid op h))
  have hb : Bounded s.ldb := by
    intro e he
    have h1 := (mem_iff_kvLoad _ hs e).1 he
    rw [hl] at h1
    -- an id that is loaded was saved by some op of the history
    obtain ⟨k, hk, hkj⟩ := specGet_some_id _ _ _ h1
    have : ∀ (ops : List ROp), ∀ k ∈ toKOps ops, ∃ op ∈ ops, op.id = k.id := by
      intro ops
      induction ops with
      | nil => intro k hk; simp [toKOps] at hk
      | cons x ops ih =>
        intro k hk
        cases x with
        | flush =>
          obtain ⟨o, ho, hoi⟩ := ih k (by simpa [toKOps] using hk)
          exact ⟨o, by simp [ho], hoi⟩
        | save m =>
          simp only [toKOps, List.mem_cons] at hk
          rcases hk with rfl | hk
          · exact ⟨.save m, by simp, rfl⟩
          · obtain ⟨o, ho, hoi⟩ := ih k hk
            exact ⟨o, by simp [ho], hoi⟩
        | delete id =>
          simp only [toKOps, List.mem_cons] at hk
          rcases hk with rfl | hk
          · exact ⟨.delete id, by simp, rfl⟩
          · obtain ⟨o, ho, hoi⟩ := ih k hk
            exact ⟨o, by simp [ho], hoi⟩
        | flushF =>
          obtain ⟨o, ho, hoi⟩ := ih k (by simpa [toKOps] using hk)
          exact ⟨o, by simp [ho], hoi⟩
        | saveF m =>
          simp only [toKOps, List.mem_cons] at hk
          rcases hk with rfl | hk
          · exact ⟨.saveF m, by simp, rfl⟩
          · obtain ⟨o, ho, hoi⟩ := ih k hk
            exact ⟨o, by simp [ho], hoi⟩
    obtain ⟨o, ho, hoi⟩ := this ops k hk
    have := hid o ho
    omega
  exact ⟨load_regions_exact_once_partial _ hs hb _ (fun _ _ => rfl) _ _ (by decide) (by decide) errs (tolerable_extracted errs h6),
    fun e => by rw [mem_iff_kvLoad _ hs, hl]⟩

/-- ids an operation touches -/
def ROp.touches (op : ROp) (j : Nat) : Prop :=
  match op with
  | .save m => m.id = j
  | .delete id => id = j
  | .flush => False
  | .saveF m => m.id = j
  | .flushF => False

theorem rs_flush_frame (s : RS) (h : RSInv s) (j : Nat) (hn : batchGet s.batch j = none) :
    batchGet s.flush.batch j = none ∧ kvLoad s.flush.ldb j = kvLoad s.ldb j := by
  refine ⟨by simp [RS.flush, batchGet], ?_⟩
  simp only [RS.flush]
  rw [kvLoad_flush s.batch h.bok h.bk s.ldb h.lk j, hn]

theorem rs_step_frame (s : RS) (h : RSInv s) (op : ROp) (hid : op.id ≤ maxU64) (j : Nat)
    (hnt : ¬ op.touches j) (hn : batchGet s.batch j = none) :
    RSInv (rstep s op) ∧ batchGet (rstep s op).batch j = none ∧ kvLoad (rstep s op).ldb j = kvLoad s.ldb j := by
  cases op with
  | flush =>
    exact ⟨(rs_flush_inv s h).1, rs_flush_frame s h j hn⟩
  | delete id =>
    have hne : ¬ j = id := fun e => hnt e.symm
    refine ⟨⟨h.bok.filter _, fun e he => h.bk e (List.mem_filter.1 he).1,
      fun e he => h.lk e (List.mem_filter.1 he).1, sorted_kvRemove _ h.srt id⟩, ?_, ?_⟩
    · simp only [rstep, RS.delete]; rw [batchGet_filter]; simp [hne, hn]
    · simp only [rstep, RS.delete]; rw [kvLoad_kvRemove]; simp [hne]
  | save m =>
    simp only [ROp.id] at hid
    have hne : ¬ j = m.id := fun e => hnt e.symm
    have hput : RSInv { s with batch := batchPut s.batch m.id m } := by
      refine ⟨batchOk_put _ h.bok _ _, ?_, h.lk, h.srt⟩
      intro e he
      unfold batchPut at he
      rcases List.mem_append.1 he with h' | h'
      · exact h.bk e (List.mem_filter.1 h').1
      · simp at h'; rw [h']; exact hid
    have hn' : batchGet (batchPut s.batch m.id m) j = none := by rw [batchGet_put]; simp [hne, hn]
    simp only [rstep, RS.save]
    split
    · exact ⟨⟨hput.bok, hput.bk, h.lk, h.srt⟩, hn', rfl⟩
    · exact ⟨(rs_flush_inv _ hput).1, rs_flush_frame _ hput j hn'⟩
  | flushF => exact ⟨h, hn, rfl⟩
  | saveF m =>
    simp only [ROp.id] at hid
    have hne : ¬ j = m.id := fun e => hnt e.symm
    have hput := (rs_put_inv s h m hid).1
    have hn' : batchGet (batchPut s.batch m.id m) j = none := by rw [batchGet_put]; simp [hne, hn]
    simp only [rstep, RS.saveFailed, RS.flushFailed]
    split
    · exact ⟨⟨hput.bok, hput.bk, h.lk, h.srt⟩, hn', rfl⟩
    · exact ⟨hput, hn', rfl⟩

/-- **A stop between batches loses nothing that was flushed.**  Region backend in any reachable state with
    an empty batch (i.e. right after a flush or close), then any further operations and a stop of the process
    at any point: every id the further operations did not touch is loaded exactly as it was at the flush. -/
theorem stop_keeps_flushed (s : RS) (hs : RSInv s) (hb : s.batch = []) (ops : List ROp)
    (hid : ∀ op ∈ ops, op.id ≤ maxU64) (j : Nat) (hj : ∀ op ∈ ops, ¬ op.touches j) :
    kvLoad (runRS s ops).crash.ldb j = kvLoad s.ldb j := by
  suffices h : ∀ (s : RS), RSInv s → batchGet s.batch j = none →
      RSInv (runRS s ops) ∧ batchGet (runRS s ops).batch j = none ∧ kvLoad (runRS s ops).ldb j = kvLoad s.ldb j by
    exact (h s hs (by simp [hb, batchGet])).2.2
  induction ops with
  | nil => intro s hs hn; exact ⟨hs, hn, rfl⟩
  | cons op ops ih =>
    intro s hs hn
    obtain ⟨h1, h2, h3⟩ := rs_step_frame s hs op (hid op (by simp)) j (hj op (by simp)) hn
    obtain ⟨h4, h5, h6⟩ := ih (fun o ho => hid o (by simp [ho])) (fun o ho => hj o (by simp [ho])) (rstep s op) h1 h2
    exact ⟨by simpa [runRS] using h4, by simpa [runRS] using h5, by simpa [runRS] using h6.trans h3⟩

/-- the states `stop_keeps_flushed` speaks about are the reachable ones -/
theorem reachable_rsinv (batchSize : Nat) (ops : List ROp) (hid : ∀ op ∈ ops, op.id ≤ maxU64) :
    RSInv (runRS { batchSize := batchSize } ops).flush ∧ (runRS { batchSize := batchSize } ops).flush.batch = [] := by
  obtain ⟨h1, _⟩ := rs_run_inv ops [] { batchSize := batchSize } hid (rsinv_empty _)
    (by intro j; simp [viewGet, batchGet, kvLoad, toKOps, specGet])
  exact ⟨(rs_flush_inv _ h1).1, rfl⟩

/-- **F7b on the pinned tree before the repair** (`DeleteRegion` only touches leveldb): save (pending in the
    batch), delete, flush → the region is back. -/
theorem delete_then_flush_unfixed_counterexample :
    let r : Meta := { id := 2, startKey := 10, endKey := 20, confVer := 1, version := 1, peers := [] }
    let s0 : RS := { batchSize := 100 }
    kvLoad ((s0.save r).deleteUnfixed 2).flush.ldb 2 = some r ∧
    kvLoad ((s0.save r).delete 2).flush.ldb 2 = none := by
  decide

/-- **Weights round trip** (in the model the weights are the float64 bit patterns; see the note at
    `Weights`): what was saved last for a store is what `LoadStores` attaches to it, the default is 1.0 -/
theorem weights_round_trip (w : Weights) (id l r j : Nat) :
    weightOf (weightsSave w id l r) j = if j = id then (l, r) else weightOf w j := by
  unfold weightOf weightsSave
  rw [find_put]
  by_cases h : j = id <;> simp [h]

/-- obligations on the facts regenerated from the Go source on every run: the page sizes are usable
    (min ≥ 1, max ≥ min, six halvings stay above the minimum and the seventh does not), both key builders use
    the 20-digit zero-padded format, `RegionStorage.Remove` (repair of F7b) drops the pending batch entry
    before it deletes from leveldb, under the storage mutex, `FlushRegion` holds that mutex, and `LoadRegionsOnce` sets
    its flag after the call of `loadRegions` (as `loadRegionsOnce` in the model), and `Storage.Flush` / `Storage.Close`
    do not look at the backend selector (the pending batch is flushed whichever backend is selected). -/
theorem limits_sane :
    1 ≤ PdModel.Generated.StorageLoad.minKVRangeLimit ∧
    PdModel.Generated.StorageLoad.minKVRangeLimit ≤ PdModel.Generated.StorageLoad.maxKVRangeLimit ∧
    PdModel.Generated.StorageLoad.minKVRangeLimit * 2 ^ 6 ≤ PdModel.Generated.StorageLoad.maxKVRangeLimit ∧
    PdModel.Generated.StorageLoad.maxKVRangeLimit / 2 ^ 7 < PdModel.Generated.StorageLoad.minKVRangeLimit ∧
    PdModel.Generated.StorageLoad.storeKeyZeroPadded20 = true ∧
    PdModel.Generated.StorageLoad.regionKeyZeroPadded20 = true ∧
    PdModel.Generated.StorageLoad.removeIsOneSection = true ∧
    PdModel.Generated.StorageLoad.removeDropsPendingFirst = true ∧
    PdModel.Generated.StorageLoad.flushIsOneSection = true ∧
    PdModel.Generated.StorageLoad.onceFlagSetAfterLoad = true ∧
    PdModel.Generated.StorageLoad.flushLooksAtSelector = false ∧
    PdModel.Generated.StorageLoad.closeLooksAtSelector = false := by decide

end PdModel.StorageLoad
