import PdModel.Model.Config
import PdModel.Lemmas.Config
import PdModel.Spec.C18
import PdModel.Generated.Config
set_option linter.unusedSimpArgs false
set_option linter.unusedVariables false
/-!
C18 – property theorems.  Quantifiers: every sequence of the eight setters with arbitrary (valid and
invalid, finite and non-finite) values, every failure mask (any subset of the storage writes of every
call fails), every initial configuration, rule-manager and mode-manager state and every set of
registered scheduler types.  No bound on the length of the history.
-/
namespace PdModel.Config
open PdModel.Spec.C18

/-- what an observer sees of a model state: the served configuration and what a fresh options object
    reloads -/
def obsOf (defaults : List String) (s : St) : Obs := { served := s.served, reloaded := reload defaults s }

def stepOf (defaults : List String) (s : St) (op : Op) : Step :=
  { kind := kindOf op, pre := obsOf defaults s, post := obsOf defaults (step s op).st,
    ok := decide ((step s op).res = .ok) }

def steps (defaults : List String) : St → List Op → List Step
  | _, [] => []
  | s, op :: ops => stepOf defaults s op :: steps defaults (step s op).st ops

/-- **rejected_leaves_served_unchanged.** Whatever the setter, the value and the failure mask: a call
    that does not report success leaves the served configuration exactly as it was. -/
theorem rejected_leaves_served_unchanged (s : St) (op : Op) (h : (step s op).res ≠ .ok) :
    (step s op).st.served = s.served := (step_spec s op).rejected h

/-- an accepted change is stored as a whole: the stored value is the served configuration -/
theorem accepted_is_stored (s : St) (op : Op) (hs : op.isSetter = true) (h : (step s op).res = .ok) :
    (step s op).st.stored = some (step s op).st.served := (step_spec s op).stored hs h

/-- **accepted_is_reloaded.** After an accepted change a fresh options object reloads the served
    configuration, up to the reload normalisation (`Spec.C18.normalise`: missing default schedulers
    re-added, deprecated flags migrated). -/
theorem accepted_is_reloaded (defaults : List String) (s : St) (op : Op) (hs : op.isSetter = true)
    (h : (step s op).res = .ok) :
    reload defaults (step s op).st = some (normalise defaults (step s op).st.served) := by
  unfold reload; rw [accepted_is_stored s op hs h]; rfl

/-- **reload_serves_storage.** When the serving options object itself reloads (the member is re-elected
    after another member led and wrote), it serves afterwards, in every section, exactly what a fresh
    object reloads from the storage – nothing of its earlier in-memory configuration survives. -/
theorem reload_serves_storage (s : St) (c : Cfg) (h : s.stored = some c) :
    (step s .reload).res = .ok ∧ (step s .reload).st.stored = s.stored ∧
    reload s.defaults (step s .reload).st = some (step s .reload).st.served := by
  obtain ⟨h1, h2, h3⟩ := (step_spec s .reload).reloadIs rfl
  refine ⟨h1, h2, ?_⟩
  unfold reload; rw [h2, h, h3 c h]; rfl

/-- another member's write changes the storage only: what this member serves stays as it is -/
theorem foreign_write_keeps_served (s : St) (x : Section) : (step s (.foreign x)).st.served = s.served :=
  (step_spec s (.foreign x)).foreignKept x rfl

/-- the default-scheduler list never changes -/
theorem defaults_const (s : St) (op : Op) : (step s op).st.defaults = s.defaults := step_defaults s op

/-- for a scheduling section that passed validation the normalisation only re-adds default schedulers
    (the deprecated flags are all off and stay off) -/
theorem normalise_of_accepted_sched (defaults registered : List String) (c : Sched)
    (h : validateSched registered c = .ok) :
    normSched defaults c = { c with schedulers := addDefaults defaults c.schedulers } :=
  normSched_of_valid defaults registered c h

/-- **accepted_in_domain.** An accepted scheduling section has a finite non-negative tolerant ratio,
    space ratios in [0,1] with high < low and only registered scheduler types; an accepted replication
    section has an isolation level that is empty or one of its location labels; an accepted PD-server
    section has a non-negative flow-round digit. -/
theorem accepted_in_domain (s : St) (op : Op) (h : (step s op).res = .ok) :
    (kindOf op = .sched → schedDomain s.registered (step s op).st.served.sched = true) ∧
    (kindOf op = .repl → replDomain (step s op).st.served.repl = true) ∧
    (kindOf op = .pd → pdDomain (step s op).st.served.pd = true) := (step_spec s op).domain h

/-- values outside the domains are never accepted (contrapositive form, on the request itself) -/
theorem out_of_domain_sched_rejected (s : St) (c : Sched) (mask : Nat)
    (h : schedDomain s.registered c = false) : (step s (.sched c mask)).res ≠ .ok := by
  intro hok
  have := (accepted_in_domain s (.sched c mask) hok).1 rfl
  rw [(step_spec s (.sched c mask)).schedIs hok c mask rfl] at this
  rw [h] at this; cases this

/-- the set of registered scheduler types never changes -/
theorem registered_const (s : St) (op : Op) : (step s op).st.registered = s.registered :=
  (step_spec s op).registered

theorem setter_of_kind (op : Op) (h1 : kindOf op ≠ .reload) (h2 : kindOf op ≠ .foreign) : op.isSetter = true := by
  cases op <;> simp [kindOf, Op.isSetter] at *

/-- one call is observed as the property demands (the normalisation uses the state's default schedulers) -/
theorem C18_step (s : St) (op : Op) : StepOk s.defaults s.registered (stepOf s.defaults s op) := by
  refine ⟨rfl, ?_, ?_, ?_, ?_, ?_⟩
  · intro hok
    have : (step s op).res ≠ .ok := by
      intro h; simp [stepOf, h] at hok
    exact rejected_leaves_served_unchanged s op this
  · intro h1 h2 hok
    have : (step s op).res = .ok := of_decide_eq_true hok
    exact accepted_is_reloaded s.defaults s op (setter_of_kind op h1 h2) this
  · intro hk _
    cases op <;> simp [stepOf, kindOf] at hk
    show reload s.defaults (step s .reload).st = none ∨
      reload s.defaults (step s .reload).st = some (step s .reload).st.served
    cases hst : s.stored with
    | none =>
      left
      obtain ⟨_, h2, _⟩ := (step_spec s .reload).reloadIs rfl
      unfold reload; rw [h2, hst]; rfl
    | some c => right; exact (reload_serves_storage s c hst).2.2
  · intro hk
    cases op <;> simp [stepOf, kindOf] at hk
    next x => exact foreign_write_keeps_served s x
  · intro hok
    have : (step s op).res = .ok := of_decide_eq_true hok
    exact accepted_in_domain s op this

/-- **C18.** Every history of the model (setter calls, other members' writes and reloads of the serving
    object, in any order) is observed as the property demands. -/
theorem C18_holds (s : St) (ops : List Op) : Holds s.defaults s.registered (steps s.defaults s ops) := by
  induction ops generalizing s with
  | nil => intro x hx; simp [steps] at hx
  | cons op ops ih =>
    intro x hx
    simp only [steps, List.mem_cons] at hx
    rcases hx with rfl | hx
    · exact C18_step s op
    · have := ih (step s op).st x (by rw [defaults_const]; exact hx)
      rw [registered_const, defaults_const] at this
      exact this

/-- the three domains hold for the served configuration throughout every history of setter calls that
    starts inside them (a reload serves whatever another member stored) -/
theorem domain_invariant (s : St) (ops : List Op) (hs : ops.all Op.isSetter = true)
    (h : schedDomain s.registered s.served.sched = true ∧ replDomain s.served.repl = true ∧
      pdDomain s.served.pd = true) :
    schedDomain s.registered (run s ops).served.sched = true ∧ replDomain (run s ops).served.repl = true ∧
      pdDomain (run s ops).served.pd = true := by
  induction ops generalizing s with
  | nil => exact h
  | cons op ops ih =>
    simp only [List.all_cons, Bool.and_eq_true] at hs
    simp only [run, List.foldl_cons]
    have := ih (step s op).st hs.2 (by rw [registered_const]; exact (step_spec s op).domainKept hs.1 h)
    rw [registered_const] at this
    exact this

/-! Non-vacuity: a concrete history with an accepted and three rejected scheduling sections (ratios in the
    wrong order, NaN, unregistered type), label properties with failing persists (the F8 shapes), a
    replication section rejected for its isolation level, one whose persist fails (the rule keeps the new
    labels, so the next attempt is refused), a negative digit, an unparsable version and a replication-mode
    switch whose status write and revert both fail (stored = new, served = old). -/
def demoSched : Sched :=
  { tolerant := .fin 0, low := .fin 800000, high := .fin 700000, rate := .fin 0,
    disable := [false, false, false, false, false, false], enable := [true, true, true, true, true], other := "o",
    limits := [], schedulers := [⟨"balance-region", "-", false⟩, ⟨"balance-leader", "-", false⟩] }

def demoCfg : Cfg :=
  { sched := demoSched, repl := ⟨3, [], false, true, ""⟩, pd := ⟨"auto", true, 3, "p"⟩, labels := [],
    version := (4, 0, 0), rmode := ⟨"majority", "", "r"⟩ }

def demoInit : St :=
  { served := demoCfg, stored := some demoCfg, rule := some ⟨3, []⟩,
    registered := ["balance-leader", "balance-region", "hot-region", "label"],
    defaults := ["balance-region", "balance-leader", "hot-region"] }

def demoDefaults : List String := ["balance-region", "balance-leader", "hot-region"]

def demoOps : List Op :=
  [.sched { demoSched with low := .fin 900000 } 0,
   .sched { demoSched with low := .fin 600000 } 0,
   .sched { demoSched with tolerant := .nan } 0,
   .sched { demoSched with schedulers := [⟨"no-such", "-", false⟩] } 0,
   .lpset "reject-leader" "zone" "z1" 0,
   .lpset "reject-leader" "zone" "z1" 1,
   .lpdel "reject-leader" "host" "h1" 1,
   .repl ⟨5, ["zone"], false, true, "rack"⟩ 0,
   .repl ⟨5, ["zone"], false, true, "zone"⟩ 1,
   .repl ⟨5, ["zone"], false, true, "zone"⟩ 0,
   .pd ⟨"selfhost", true, -1, "p"⟩ 0,
   .pd ⟨"selfhost", true, 5, "p"⟩ 0,
   .cver none 0,
   .rmode ⟨"dr-auto-sync", "zone", "r"⟩ 6,
   .rmode ⟨"dr-auto-sync", "zone", "r"⟩ 0]

set_option maxRecDepth 100000 in
example : (steps demoDefaults demoInit demoOps).map (·.ok) =
    [true, false, false, false, true, false, false, false, false, false, false, true, false, false, true] := by decide

set_option maxRecDepth 100000 in
example : (run demoInit demoOps).served.labels = [⟨"reject-leader", [("zone", "z1")]⟩] := by decide

set_option maxRecDepth 100000 in
example : (run demoInit demoOps).rule = some ⟨3, ["zone"]⟩ := by decide

set_option maxRecDepth 100000 in
example : ((run demoInit (demoOps.take 14)).stored.map (·.rmode.mode), (run demoInit (demoOps.take 14)).served.rmode.mode) =
    (some "dr-auto-sync", "majority") := by decide

set_option maxRecDepth 100000 in
example : check demoDefaults demoInit.registered (steps demoDefaults demoInit demoOps) = true := by decide

/-- instantiated with the scheduler types extracted from the source: the reload normalisation keeps an
    in-domain scheduling section in its domain, because every default scheduler is a registered one -/
theorem default_schedulers_registered :
    PdModel.Generated.Config.defaultSchedulers.all
      (fun d => PdModel.Generated.Config.registeredSchedulers.contains d) = true := by decide

theorem C18_holds_extracted (s : St) (ops : List Op)
    (h : s.defaults = PdModel.Generated.Config.defaultSchedulers) :
    Holds PdModel.Generated.Config.defaultSchedulers s.registered
      (steps PdModel.Generated.Config.defaultSchedulers s ops) := by
  rw [← h]; exact C18_holds s ops

/-- structure obligations, re-checked against the facts regenerated from the Go source: every setter
    validates before it swaps the served section in, swaps before it persists, and `Reload` adjusts after
    it has loaded -/
theorem setters_validate_swap_persist_in_this_order :
    PdModel.Generated.Config.schedValidatedBeforeSwap = true ∧
    PdModel.Generated.Config.schedSwappedBeforePersist = true ∧
    PdModel.Generated.Config.replValidatedBeforeSwap = true ∧
    PdModel.Generated.Config.pdValidatedBeforeSwap = true ∧
    PdModel.Generated.Config.rmodeValidatedBeforeSwap = true ∧
    PdModel.Generated.Config.versionParsedBeforeSwap = true ∧
    PdModel.Generated.Config.reloadAdjustsAfterLoad = true := by decide

end PdModel.Config
