import PdModel.Model.Fit
import PdModel.Lemmas.FitRun
import PdModel.Lemmas.FitState
import PdModel.Spec.C12
import PdModel.Generated.Fit
set_option linter.unusedSimpArgs false
set_option linter.unusedVariables false
/-!
C12 – property theorems.  Quantifiers: every store set, every region (any number of peers, learners,
any leader), every rule list (any length, roles, counts, constraints, location labels) – no bounds.
The only hypothesis is `Ctx.WF`: the store a peer was resolved to belongs to the store set (true by
construction for `mkCtx`, theorem `mkCtx_wf`).
-/
namespace PdModel.Fit
open PdModel.Spec.C12

/-! ### the worker context built by newFitWorker -/

theorem mem_insertPeer (p q : PeerInfo) (l : List PeerInfo) : q ∈ insertPeer p l ↔ q = p ∨ q ∈ l := by
  induction l with
  | nil => simp [insertPeer]
  | cons x xs ih =>
    simp only [insertPeer]
    split
    · simp
    · simp only [List.mem_cons, ih]
      constructor
      · rintro (h | h | h) <;> simp [h]
      · rintro (h | h | h) <;> simp [h]

theorem insertPeer_perm (p : PeerInfo) (l : List PeerInfo) : (insertPeer p l).Perm (p :: l) := by
  induction l with
  | nil => exact List.Perm.refl _
  | cons x xs ih =>
    simp only [insertPeer]
    split
    · exact List.Perm.refl _
    · exact (List.Perm.cons x ih).trans (List.Perm.swap p x xs)

/-- sorting only reorders the region's peers -/
theorem sortPeers_perm (l : List PeerInfo) : (sortPeers l).Perm l := by
  induction l with
  | nil => exact List.Perm.refl _
  | cons p ps ih => exact (insertPeer_perm p _).trans (List.Perm.cons p ih)

theorem mkCtx_wf (stores : List Store) (peers : List RawPeer) (leader : Nat) :
    (mkCtx stores peers leader).WF := by
  intro p hp s hs
  have hp' := (sortPeers_perm _).mem_iff.1 hp
  simp only [mkCtx, List.mem_map] at hp'
  obtain ⟨raw, _, rfl⟩ := hp'
  exact List.mem_of_find?_eq_some hs

/-! ### the result of FitRegion -/

/-- the search ends with a rule fit for every rule (no nil entry), realised by a valid assignment -/
theorem run_real (c : Ctx) (hwf : c.WF) (r : Rule) (rs : List Rule) :
    ∃ A, Valid c.peers (r :: rs) A ∧ (run c (r :: rs)).1 = (fitsM c (r :: rs) A).map some ∧
      (run c (r :: rs)).2 = orphansOf c.peers A ∧
      ∀ A', Valid c.peers (r :: rs) A' →
        LexLE (keysOf c.peers (r :: rs) A') (keysOf c.peers (r :: rs) A) := by
  have hlen : ((r :: rs).map (fun _ => (none : Option RuleFit))).length = (r :: rs).length := by simp
  have h := fitRule_spec c hwf (r :: rs) [] ((r :: rs).map (fun _ => none)) [] hlen
  have hb : (fitRule c (r :: rs) [] ((r :: rs).map (fun _ => none)) []).better = true := by
    simp only [List.map_cons]; exact fitRule_better_none _ _ _ _ _ _
  obtain ⟨A, v, e1, e2⟩ := h.real hb
  refine ⟨A, v, by simp only [run]; exact e1, ?_, ?_⟩
  · simp only [run, List.isEmpty_cons, Bool.false_eq_true, ↓reduceIte, e2, List.nil_append]
    rfl
  · intro A' hA'
    have := h.dom A' hA'
    rw [e1, bkeys_some, fitsM_keys, ckeys, LexLE_up] at this
    exact this

theorem run_all_some (c : Ctx) (hwf : c.WF) (rules : List Rule) : ∀ x ∈ (run c rules).1, x ≠ none := by
  cases rules with
  | nil => simp [run, fitRule]
  | cons r rs =>
    obtain ⟨A, _, e, _⟩ := run_real c hwf r rs
    rw [e]; simp

theorem countsOK_eq : ∀ (rules : List Rule) (fits : List RuleFit), fits.length = rules.length →
    allSatisfied rules fits = countsOK rules fits := by
  intro rules
  induction rules with
  | nil => intro fits h; cases fits <;> simp_all [allSatisfied, countsOK]
  | cons r rs ih =>
    intro fits h
    cases fits with
    | nil => simp at h
    | cons f fs =>
      simp only [allSatisfied, countsOK, ruleSatisfied, ih fs (by simpa using h)]
      cases (f.peers.length == r.count) <;> cases hm : f.mismatch <;> simp [hm]

/-- **C12 (all clauses).**  For every store set, region and rule list the result of the fitting
    satisfies the property `Spec.C12.Holds`. -/
theorem fit_holds (c : Ctx) (hwf : c.WF) (rules : List Rule) : Holds c.peers rules (fitCtx c rules) := by
  cases rules with
  | nil =>
    refine ⟨?_, ?_, ?_, ?_, ?_⟩
    · simp [fitCtx, run, fitRule, Valid, ValidFrom]
    · simp [fitCtx, run, fitRule, orphansOf, orphanPeers]
    · simp [fitCtx, run, fitRule, fitsExact]
    · intro A hA
      cases A with
      | nil => simp [fitCtx, run, fitRule, keysOf, fitCmp, lexCmp, orphansOf, orphanPeers]
      | cons a as => simp [Valid, ValidFrom] at hA
    · simp [fitCtx, run, fitRule, isSatisfied]
  | cons r rs =>
    obtain ⟨A, v, e1, e2, hopt⟩ := run_real c hwf r rs
    have hA : A.length = (r :: rs).length := validFrom_length _ _ _ _ v
    have hfits : (fitCtx c (r :: rs)).fits = fitsM c (r :: rs) A := by
      simp only [fitCtx, e1, List.filterMap_map, Function.comp_def, id, List.filterMap_some]
    have horph : (fitCtx c (r :: rs)).orphans = orphansOf c.peers A := by simp only [fitCtx, e2]
    have hpeers : (fitCtx c (r :: rs)).fits.map (·.peers) = A := by rw [hfits, fitsM_peers c _ _ hA]
    refine ⟨by rw [hpeers]; exact v, by rw [hpeers, horph], by rw [hfits]; exact fitsM_exact c _ _ hA, ?_, ?_⟩
    · intro A' hA'
      have hle := hopt A' hA'
      have hA'l : A'.length = (r :: rs).length := validFrom_length _ _ _ _ hA'
      rw [hfits, fitsM_keys, horph]
      unfold fitCmp
      simp only
      split
      · exact (lexCmp_ne_one _ _).2 hle
      · next h0 =>
        have h0' : lexCmp (keysOf c.peers (r :: rs) A') (keysOf c.peers (r :: rs) A) = 0 := by
          simpa using h0
        have heq := lexEq_total c.peers (r :: rs) A' A hA'l hA ((lexCmp_eq_zero _ _).1 h0')
        have l1 := orphans_length c.peers _ A' hA'
        have l2 := orphans_length c.peers _ A v
        have : ¬ (orphansOf c.peers A').length < (orphansOf c.peers A).length := by omega
        simp only [this, ↓reduceIte]
        split <;> simp
    · have hl : (fitCtx c (r :: rs)).fits.length = (r :: rs).length := by
        rw [hfits]; have := congrArg List.length (fitsM_peers c (r :: rs) A hA); simpa [hA] using this
      have := countsOK_eq (r :: rs) _ hl
      simp only [fitCtx] at this hl ⊢
      simp only [isSatisfied, this]
      generalize (List.filterMap id (run c (r :: rs)).1) = fits at hl ⊢
      cases fits with
      | nil => simp at hl
      | cons f fs =>
        simp only [List.length_cons, List.isEmpty_cons, Bool.not_false, Bool.true_and]
        cases countsOK (r :: rs) (f :: fs) <;> cases hr : (run c (r :: rs)).2 <;> simp [hr]

/-- **fit_partition** – every rule holds distinct eligible peers (label constraints satisfied, role still
    convertible), no peer is shared between rules, never more than `count`; the orphan list is exactly the
    rest; role mismatches and isolation scores are listed exactly. -/
theorem fit_partition (c : Ctx) (hwf : c.WF) (rules : List Rule) :
    Valid c.peers rules ((fitCtx c rules).fits.map (·.peers)) ∧
    (fitCtx c rules).orphans = orphansOf c.peers ((fitCtx c rules).fits.map (·.peers)) ∧
    fitsExact c.peers rules (fitCtx c rules).fits :=
  let h := fit_holds c hwf rules; ⟨h.valid, h.orphans, h.exact⟩

/-- every peer of the region is in exactly one rule or in the orphan list -/
theorem fit_partition_perm (c : Ctx) (hwf : c.WF) (rules : List Rule) :
    (((fitCtx c rules).fits.map (·.peers)).flatten ++ (fitCtx c rules).orphans).Perm
      (List.range c.peers.length) := by
  have h := fit_holds c hwf rules
  rw [h.orphans]
  exact partition_perm c.peers rules _ h.valid

/-- **fit_optimal** – no valid assignment is better under the documented order (rule by rule: more peers,
    then fewer role mismatches, then higher isolation score; finally fewer orphans). -/
theorem fit_optimal (c : Ctx) (hwf : c.WF) (rules : List Rule) (A : List (List Nat))
    (hA : Valid c.peers rules A) :
    fitCmp (keysOf c.peers rules A, (orphansOf c.peers A).length)
      ((fitCtx c rules).fits.map (·.key), (fitCtx c rules).orphans.length) ≠ 1 :=
  (fit_holds c hwf rules).optimal A hA

/-- the same for the worker context that `FitRegion` builds from a store set and a region -/
theorem fitRegion_holds (stores : List Store) (peers : List RawPeer) (leader : Nat) (rules : List Rule) :
    Holds (mkCtx stores peers leader).peers rules (fitCtx (mkCtx stores peers leader) rules) :=
  fit_holds _ (mkCtx_wf stores peers leader) rules

theorem countsOK_iff : ∀ (rules : List Rule) (fits : List RuleFit), countsOK rules fits = true ↔
    fits.length = rules.length ∧ ∀ (k : Nat) (r : Rule) (f : RuleFit), rules[k]? = some r → fits[k]? = some f →
      f.peers.length = r.count ∧ f.mismatch = [] := by
  intro rules
  induction rules with
  | nil => intro fits; cases fits <;> simp [countsOK]
  | cons r rs ih =>
    intro fits
    cases fits with
    | nil => simp [countsOK]
    | cons f fs =>
      simp only [countsOK, Bool.and_eq_true, beq_iff_eq, List.isEmpty_iff, ih fs, List.length_cons,
        Nat.add_right_cancel_iff]
      constructor
      · rintro ⟨⟨h1, h2⟩, h3, h4⟩
        refine ⟨h3, ?_⟩
        intro k r' f' hr hf
        cases k with
        | zero => simp at hr hf; subst hr hf; exact ⟨h1, h2⟩
        | succ k => simp at hr hf; exact h4 k r' f' hr hf
      · rintro ⟨h3, h4⟩
        refine ⟨h4 0 r f (by simp) (by simp), h3, ?_⟩
        intro k r' f' hr hf
        exact h4 (k + 1) r' f' (by simpa using hr) (by simpa using hf)

/-- **satisfied_iff** – the region is reported satisfied exactly when there is at least one rule, every
    rule holds exactly `count` peers all with matching roles, and no orphan remains. -/
theorem satisfied_iff (c : Ctx) (hwf : c.WF) (rules : List Rule) :
    (fitCtx c rules).satisfied = true ↔
      rules ≠ [] ∧
      (∀ (k : Nat) (r : Rule) (f : RuleFit), rules[k]? = some r → (fitCtx c rules).fits[k]? = some f →
        f.peers.length = r.count ∧ f.mismatch = []) ∧
      (fitCtx c rules).orphans = [] := by
  have h := fit_holds c hwf rules
  have hlen : (fitCtx c rules).fits.length = rules.length := by
    have := validFrom_length _ _ _ _ h.valid; simpa using this
  rw [h.satisfied]
  simp only [Bool.and_eq_true, Bool.not_eq_true', List.isEmpty_eq_false_iff, countsOK_iff, List.isEmpty_iff, hlen,
    true_and, ne_eq, and_assoc]

/-! ### the `selected` flags as mutable state -/

/-- the search that sets `p.selected` before and clears it after each recursive call (`fitRuleS`, flags threaded
    through every function) leaves the flags as it found them and computes exactly `fitRule`, for every input -/
theorem fit_stateful_eq (c : Ctx) (rules : List Rule) (flags : List Nat) (best : Best) (orph : List Nat) :
    fitRuleS c rules flags best orph = (fitRule c rules flags best orph, flags) ∧
    fitCtxS c rules = fitCtx c rules :=
  ⟨fitRuleS_eq c rules flags best orph, fitCtxS_eq c rules⟩

/-- hence the property for the stateful version (the one the driver runs against the implementation) -/
theorem fitS_holds (c : Ctx) (hwf : c.WF) (rules : List Rule) : Holds c.peers rules (fitCtxS c rules) := by
  rw [fitCtxS_eq]; exact fit_holds c hwf rules

/-! ### CompareRegionFit -/

theorem compareRegionFit_go_eq (a b : List RuleFit) :
    compareRegionFit.go a b = lexCmp (a.map (·.key)) (b.map (·.key)) := by
  induction a generalizing b with
  | nil => simp [compareRegionFit.go, lexCmp]
  | cons x xs ih =>
    cases b with
    | nil => simp [compareRegionFit.go, lexCmp]
    | cons y ys => simp only [compareRegionFit.go, List.map_cons, lexCmp, compareRuleFit_eq, ih]

/-- CompareRegionFit is the documented order on (keys per rule, number of orphans) -/
theorem compareRegionFit_eq (a b : Fit) :
    compareRegionFit a b = fitCmp (a.fits.map (·.key), a.orphans.length) (b.fits.map (·.key), b.orphans.length) := by
  simp only [compareRegionFit, compareRegionFit_go_eq, fitCmp]

/-- "a is not better than b" -/
def FitLE (a b : List Key × Nat) : Prop := fitCmp a b ≠ 1

theorem fitCmp_ne_one (a b : List Key × Nat) :
    fitCmp a b ≠ 1 ↔ (LexLE a.1 b.1 ∧ (LexEq a.1 b.1 → b.2 ≤ a.2)) := by
  unfold fitCmp
  split
  · next h =>
    have hne : ¬ LexEq a.1 b.1 := fun he => h ((lexCmp_eq_zero _ _).2 he)
    rw [lexCmp_ne_one]
    simp [hne]
  · next h =>
    have h0 : lexCmp a.1 b.1 = 0 := by simpa using h
    have he := (lexCmp_eq_zero _ _).1 h0
    have hle : LexLE a.1 b.1 := (lexCmp_ne_one _ _).1 (by omega)
    simp only [hle, he, true_and, forall_const]
    split
    · simp; omega
    · split <;> simp <;> omega

theorem LexEq_of_LE_LE : ∀ (as bs : List Key), LexLE as bs → LexLE bs as → LexEq as bs := by
  intro as
  induction as with
  | nil => intro bs _ _; trivial
  | cons a as ih =>
    intro bs h1 h2
    cases bs with
    | nil => trivial
    | cons b bs =>
      simp only [LexLE] at h1 h2
      simp only [LexEq]
      rcases h1 with h1 | ⟨e1, h1⟩
      · rcases h2 with h2 | ⟨e2, _⟩
        · exact absurd h2 (Key.lt_asymm h1)
        · exact absurd h1 (Key.not_lt_of_eqv (Key.eqv_symm e2))
      · rcases h2 with h2 | ⟨_, h2⟩
        · exact absurd h2 (Key.not_lt_of_eqv (Key.eqv_symm e1))
        · exact ⟨e1, ih bs h1 h2⟩

theorem LexEq.toLE : ∀ (as bs : List Key), LexEq as bs → LexLE as bs := by
  intro as
  induction as with
  | nil => intro bs _; trivial
  | cons a as ih =>
    intro bs h
    cases bs with
    | nil => trivial
    | cons b bs => exact Or.inr ⟨h.1, ih bs h.2⟩

theorem LexEq.symm : ∀ (as bs : List Key), LexEq as bs → LexEq bs as := by
  intro as
  induction as with
  | nil => intro bs _; cases bs <;> trivial
  | cons a as ih =>
    intro bs h
    cases bs with
    | nil => trivial
    | cons b bs => exact ⟨Key.eqv_symm h.1, ih bs h.2⟩

/-- **compare_total_preorder** – on fits for the same rule list (equally many rule fits) the order decided
    by CompareRegionFit is reflexive, total and transitive, and the result is antisymmetric in sign. -/
theorem compare_total_preorder :
    (∀ a : List Key × Nat, FitLE a a) ∧
    (∀ a b : List Key × Nat, FitLE a b ∨ FitLE b a) ∧
    (∀ a b c : List Key × Nat, a.1.length = b.1.length → b.1.length = c.1.length →
        FitLE a b → FitLE b c → FitLE a c) ∧
    (∀ a b : List Key × Nat, fitCmp a b = - fitCmp b a) := by
  refine ⟨?_, ?_, ?_, ?_⟩
  · intro a
    unfold FitLE; rw [fitCmp_ne_one]
    exact ⟨LexLE.refl _, fun _ => Nat.le_refl _⟩
  · intro a b
    unfold FitLE; rw [fitCmp_ne_one, fitCmp_ne_one]
    rcases LexLE.total a.1 b.1 with h | h
    · by_cases h' : LexLE b.1 a.1
      · have he := LexEq_of_LE_LE _ _ h h'
        rcases Nat.le_total a.2 b.2 with hn | hn
        · exact Or.inr ⟨h', fun _ => hn⟩
        · exact Or.inl ⟨h, fun _ => hn⟩
      · exact Or.inl ⟨h, fun he => absurd (LexEq.toLE _ _ (LexEq.symm _ _ he)) h'⟩
    · by_cases h' : LexLE a.1 b.1
      · have he := LexEq_of_LE_LE _ _ h' h
        rcases Nat.le_total a.2 b.2 with hn | hn
        · exact Or.inr ⟨h, fun _ => hn⟩
        · exact Or.inl ⟨h', fun _ => hn⟩
      · exact Or.inr ⟨h, fun he => absurd (LexEq.toLE _ _ (LexEq.symm _ _ he)) h'⟩
  · intro a b c hab hbc
    unfold FitLE; rw [fitCmp_ne_one, fitCmp_ne_one, fitCmp_ne_one]
    rintro ⟨h1, o1⟩ ⟨h2, o2⟩
    refine ⟨LexLE.trans hab hbc h1 h2, ?_⟩
    intro he
    have hca : LexLE c.1 a.1 := LexEq.toLE _ _ (LexEq.symm _ _ he)
    have e1 : LexEq a.1 b.1 := LexEq_of_LE_LE _ _ h1 (LexLE.trans (by omega) (by omega) h2 hca)
    have e2 : LexEq b.1 c.1 := LexEq_of_LE_LE _ _ h2 (LexLE.trans (by omega) (by omega) hca h1)
    have := o1 e1; have := o2 e2; omega
  · intro a b
    unfold fitCmp
    have := lexCmp_antisymm a.1 b.1
    by_cases h : lexCmp a.1 b.1 = 0
    · have h' : lexCmp b.1 a.1 = 0 := by omega
      simp only [h, h', ne_eq, not_true_eq_false, ↓reduceIte]
      repeat' split
      all_goals omega
    · have h' : lexCmp b.1 a.1 ≠ 0 := by omega
      simp [h, h', this]

/-! ### generated facts used by the model -/

/-- the constants the model reads from the source are the ones the documented semantics is stated with -/
theorem fit_facts :
    PdModel.Generated.Fit.replicaBaseScore = 100 ∧
    PdModel.Generated.Fit.legacyExclusiveLabels = ["engine", "exclusive"] := by decide

end PdModel.Fit

namespace PdModel.Fit
open PdModel.Spec.C12
/-! ### non-vacuity: a concrete fitting in which the backtracking matters.
Four stores in zones z1,z1,z2,z3 (store 4 carries the exclusive label `$x`), four peers (a learner on
store 3), leader = peer 11; rules: 2 voters isolated by zone, then 1 learner.  The search must not
take the first two voters (same zone) and must leave the peer on the exclusive store as an orphan. -/
def demoStores : List Store :=
  [⟨1, [⟨"zone", "z1"⟩]⟩, ⟨2, [⟨"zone", "z1"⟩]⟩, ⟨3, [⟨"zone", "z2"⟩]⟩, ⟨4, [⟨"zone", "z3"⟩, ⟨"$x", "1"⟩]⟩]
def demoPeers : List RawPeer := [⟨12, 2, false⟩, ⟨11, 1, false⟩, ⟨13, 3, true⟩, ⟨14, 4, false⟩]
def demoRules : List Rule := [⟨.voter, 2, [], ["zone"]⟩, ⟨.learner, 1, [], []⟩]
def demoRules2 : List Rule := [⟨.voter, 2, [⟨"zone", .notIn, ["z3"]⟩], ["zone"]⟩, ⟨.voter, 1, [], []⟩]

example : fitCtx (mkCtx demoStores demoPeers 11) demoRules =
    { fits := [⟨[0, 1], [], 0⟩, ⟨[2], [], 0⟩], orphans := [3], satisfied := false } := by decide
/-- the learner is promoted into the first rule because that isolates the two replicas (score 1), which
    beats the fewer-mismatches choice only at equal count – here count decides first: both have 2 peers,
    then fewer mismatches wins, so {11,12} with score 0 is kept over {11,13}. -/
example : fitCtx (mkCtx demoStores demoPeers 11) demoRules2 =
    { fits := [⟨[0, 1], [], 0⟩, ⟨[2], [2], 0⟩], orphans := [3], satisfied := false } := by decide
example : check (mkCtx demoStores demoPeers 11).peers demoRules2
    (fitCtx (mkCtx demoStores demoPeers 11) demoRules2) = true := by decide
end PdModel.Fit
