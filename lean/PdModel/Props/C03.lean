import PdModel.Model.Election
import PdModel.Lemmas.Election
import PdModel.Spec.C03
import PdModel.Generated.Election
set_option linter.unusedSimpArgs false
set_option linter.unusedVariables false
/-!
C03 – property theorems.  Quantifiers: every state or every op history (any number of contenders for any
number of leaderships, any interleaving of their calls, any clock readings, any fault flags, failing
Grant / Revoke requests), no bound on the length of the history.
-/
namespace PdModel.Election
open PdModel.Spec


/-- **(a) campaign_iff_absent** – the transaction of a parked campaign -/
theorem campaign_iff_absent (s : St) (i : Nat) (c : Cont) (l : Lease) (extra : List Cmp) (f : Fault) (rv : Bool)
    (hc : s.conts[i]? = some c) (hp : c.pending = some extra) (hl : c.lease = some l) :
    let r := step s (.on i (.finish f rv))
    (r.2 = .ok ↔ f = .none ∧ s.etcd.kv (.leader c.key) = none ∧ extra.all s.etcd.holds = true ∧
        (l.id = 0 ∨ s.etcd.live l.id = true)) ∧
    (r.2 = .ok → r.1.etcd.kv (.leader c.key) = some ⟨c.value, l.id⟩) ∧
    (r.2 ≠ .ok → rv = true → l.id ≠ 0 →
        r.1.etcd.kv (.leader c.key) = s.etcd.kv (.leader c.key) ∨
        (s.etcd.kv (.leader c.key)).map (·.lease) = some l.id) := by
  intro r
  have e : step0 s (.on i (.finish f rv)) = _ := step0_on s i c _ hc
  have e2 : loc ⟨s.etcd, s.stamp, c⟩ (.finish f rv) = campaignTxn ⟨s.etcd, s.stamp, c⟩ l extra f rv := by
    simp [loc, finishStep, hp, hl]
  simp only [r, step_snd, step_etcd, e, e2]
  refine ⟨campaignTxn_ok_iff ⟨s.etcd, s.stamp, c⟩ l extra f rv, ?_, ?_⟩
  · exact campaignTxn_success_record ⟨s.etcd, s.stamp, c⟩ l extra f rv hl
  · intro hno hrv hid
    subst hrv
    exact campaignTxn_failure_record ⟨s.etcd, s.stamp, c⟩ l extra f hl hid hno

/-- **(a) campaign_iff_absent**, whole `Campaign` call (Grant succeeds: the lease is fresh and live) -/
theorem campaign_whole_iff_absent (s : St) (i : Nat) (c : Cont) (ttl : Nat) (extra : List Cmp) (f : Fault) (rv : Bool)
    (hc : s.conts[i]? = some c) (hp : c.pending = none) (hcl : c.closing = none) (httl : ttl ≤ maxLeaseTTL) :
    let r := step s (.on i (.campaign ttl extra f rv))
    (r.2 = .ok ↔ f = .none ∧ s.etcd.kv (.leader c.key) = none ∧ extra.all s.etcd.holds = true) ∧
    (r.2 = .ok → r.1.etcd.kv (.leader c.key) = some ⟨c.member, s.etcd.granted + 1⟩) := by
  intro r
  have e : step0 s (.on i (.campaign ttl extra f rv)) = _ := step0_on s i c _ hc
  let x1 : Loc := (grantStep ⟨s.etcd, s.stamp, c⟩ ttl extra).1
  have hx1 : grantStep ⟨s.etcd, s.stamp, c⟩ ttl extra =
      ({ etcd := s.etcd.grant.1, stamp := s.stamp,
         c := { c with value := c.member, won := false,
                       lease := some { id := s.etcd.granted + 1, ttl := ttl, expire := .at (c.clock + ttl) },
                       pending := some extra } }, .parked) := by
    simp [grantStep, Nat.not_lt.2 httl, Etcd.grant]
  have e2 : loc ⟨s.etcd, s.stamp, c⟩ (.campaign ttl extra f rv) =
      campaignTxn (grantStep ⟨s.etcd, s.stamp, c⟩ ttl extra).1
        { id := s.etcd.granted + 1, ttl := ttl, expire := .at (c.clock + ttl) } extra f rv := by
    simp [loc, hp, hcl, hx1, finishStep]
  simp only [r, step_snd, step_etcd, e, e2]
  have hall : extra.all (Etcd.holds s.etcd.grant.1) = extra.all s.etcd.holds := by
    congr 1
  constructor
  · rw [campaignTxn_ok_iff, hx1]
    simp only [hall]
    simp [Etcd.grant]
  · intro hok
    have := campaignTxn_success_record _ _ extra f rv (by rw [hx1]) hok
    rw [hx1] at this ⊢
    exact this


/-- **(c) guarded_write_iff_owner** – a guarded write (time window, id window, member priority,
    dc-location, encryption keys) reports success iff no fault was injected, the writer's comparison
    value is the value of the leader record, and the writer attempted it at all -/
theorem guarded_write_iff_owner (s : St) (i : Nat) (c : Cont) (w : WKind) (f : Fault)
    (hc : s.conts[i]? = some c) (hp : c.pending = none) :
    (step s (.on i (.write w f))).2 = .ok ↔
      f = .none ∧ owns ⟨s.etcd, s.stamp, c⟩ w = true ∧ ¬ (w = .encRotate ∧ c.check = false) := by
  have e : step0 s (.on i (.write w f)) = _ := step0_on s i c _ hc
  simp only [step_snd, e, loc, hp, Option.isSome_none, Bool.false_eq_true, if_false, writeStep_eq]
  by_cases h0 : (w = .encRotate ∧ c.check = false)
  · simp [h0]
  · by_cases ho : owns ⟨s.etcd, s.stamp, c⟩ w = true <;> cases f <;> simp [h0, ho]

/-- **(c) rejected_write_unchanged** – a guarded write by a contender whose comparison value is not the
    value of the leader record (for whatever reason: never campaigned, lost the record to expiry,
    deletion or another holder) leaves the whole state unchanged and does not report success, under
    every fault flag -/
theorem rejected_write_unchanged (s : St) (i : Nat) (c : Cont) (w : WKind) (f : Fault)
    (hc : s.conts[i]? = some c) (hown : owns ⟨s.etcd, s.stamp, c⟩ w = false) :
    (step s (.on i (.write w f))).1 = s ∧ (step s (.on i (.write w f))).2 ≠ .ok := by
  have e : step0 s (.on i (.write w f)) = _ := step0_on s i c _ hc
  have key : (loc ⟨s.etcd, s.stamp, c⟩ (.write w f)).1 = ⟨s.etcd, s.stamp, c⟩ ∧
      (loc ⟨s.etcd, s.stamp, c⟩ (.write w f)).2 ≠ .ok := by
    simp only [loc]
    split
    · exact ⟨rfl, by simp⟩
    · rw [writeStep_eq]
      by_cases h0 : (w = .encRotate ∧ c.check = false)
      · simp [h0]
      · cases f <;> simp [h0, hown]
  constructor
  · simp only [step, e, key.1]
    rw [set_self _ _ _ hc]
    exact fireWatchers_self s
  · simp only [step_snd, e]; exact key.2

/-- **cannot_extend_lost_window** – corollary for the two windows: a member that does not own the
    leader record cannot move the stored time window or id window -/
theorem cannot_extend_lost_window (s : St) (i : Nat) (c : Cont) (w : WKind) (f : Fault)
    (hc : s.conts[i]? = some c) (hw : w = .tsSync ∨ w = .idRebase)
    (hown : owns ⟨s.etcd, s.stamp, c⟩ w = false) :
    let s' := (step s (.on i (.write w f))).1
    s'.etcd.kv (.ts c.key) = s.etcd.kv (.ts c.key) ∧ s'.etcd.kv (.allocId c.key) = s.etcd.kv (.allocId c.key) := by
  intro s'
  have := (rejected_write_unchanged s i c w f hc hown).1
  simp only [s', this, and_self]

/-- **idalloc_rejected** – the same for `Alloc`: a member that does not own the leader record and whose in-memory
    id window is used up hands out no id, and nothing changes – neither the stored window nor its memory
    (the memory is published only after the guarded transaction succeeded), under every fault flag -/
theorem idalloc_rejected (s : St) (i : Nat) (c : Cont) (f : Fault)
    (hc : s.conts[i]? = some c) (hmem : c.idBase = c.idEnd)
    (hown : owns ⟨s.etcd, s.stamp, c⟩ .idRebase = false) :
    (step s (.on i (.idalloc f))).1 = s ∧ ∀ n, (step s (.on i (.idalloc f))).2 ≠ .gotId n := by
  have e : step0 s (.on i (.idalloc f)) = _ := step0_on s i c _ hc
  have key : (loc ⟨s.etcd, s.stamp, c⟩ (.idalloc f)).1 = ⟨s.etcd, s.stamp, c⟩ ∧
      ∀ n, (loc ⟨s.etcd, s.stamp, c⟩ (.idalloc f)).2 ≠ .gotId n := by
    simp only [loc]
    split
    · exact ⟨rfl, by simp⟩
    · simp only [hmem, beq_self_eq_true, if_true]
      rw [writeStep_eq]
      cases f <;> simp [hown]
  constructor
  · simp only [step, e, key.1]
    rw [set_self _ _ _ hc]
    exact fireWatchers_self s
  · simp only [step_snd, e]; exact key.2

/-- **resigned_serves_nothing** – after `Reset` (also while it is still waiting inside `lease.Close` for the
    Revoke request or its answer: `gresetl`), a step-down, a successful `DeleteLeaderKey` or a
    `CheckLeader` that deleted the member's own record, `Check()` is false, hence no timestamp is
    granted and `IsLeader` is false; for every state, every clock -/
theorem resigned_serves_nothing (s : St) (i : Nat) (c : Cont) (a : LOp) (hc : s.conts[i]? = some c)
    (hp : c.pending = none)
    (ha : (∃ rv, a = .resetl rv) ∨ (∃ pre leader, a = .gresetl pre leader ∧ c.closing = none) ∨
          (∃ rv, a = .stepdown rv) ∨
          (∃ f rv, a = .delkey f rv ∧ (step s (.on i a)).2 = .ok) ∨
          (a = .observe ∧ (step s (.on i a)).2 = .deleted)) :
    ∀ c', (step0 s (.on i a)).1.conts[i]? = some c' →
      c'.check = false ∧ c'.tsoServes = false ∧ c'.isLeader = false := by
  intro c' hc'
  have e : step0 s (.on i a) = _ := step0_on s i c _ hc
  rw [e] at hc'
  have hi : i < s.conts.length := by
    by_cases h : i < s.conts.length
    · exact h
    · have := List.getElem?_eq_none_iff.2 (Nat.le_of_not_lt h); simp_all
  simp only [List.getElem?_set, hi, if_true] at hc'
  simp at hc'
  subst hc'
  have goal : (loc ⟨s.etcd, s.stamp, c⟩ a).1.c.check = false := by
    rcases ha with ⟨rv, rfl⟩ | ⟨pre, leader, rfl, hcl⟩ | ⟨rv, rfl⟩ | ⟨f, rv, rfl, hok⟩ | ⟨rfl, hok⟩
    · simp [loc, hp, resetStep_check]
    · simp only [loc, hp, hcl, Option.isSome_none, Bool.or_self, Bool.false_eq_true, if_false]
      cases hl : c.lease <;> simp [Cont.check, hl, Expire.expiredAt]
    · simp [loc, hp, resetStep_check]
    · simp only [step_snd, e, loc, hp] at hok ⊢
      simp only [Option.isSome_none, Bool.false_eq_true, if_false] at hok ⊢
      generalize runTxn s.etcd [] [EOp.del (Key.leader c.key)] f = r at hok ⊢
      obtain ⟨e1, o⟩ := r
      cases o <;> simp_all [resetStep_check]
    · simp only [step_snd, e, loc, hp] at hok ⊢
      simp only [Option.isSome_none, Bool.false_eq_true, if_false, Bool.false_or] at hok ⊢
      repeat' split at hok
      all_goals simp_all [resetStep_check]
  simp [Cont.tsoServes, Cont.isLeader, goal]


/-- contender `i` is the holder of its leadership: the record is attached to its lease -/
def Holder (s : St) (i : Nat) : Prop :=
  ∃ c e, s.conts[i]? = some c ∧ lid c ≠ 0 ∧ s.etcd.kv (.leader c.key) = some e ∧ e.lease = lid c

def keyOfCont (s : St) (i : Nat) : Option Nat := (s.conts[i]?).map (·.key)

/-- **single_holder** – in every reachable state (any number of contenders, any op history, any faults,
    any clocks) two holders of the same leadership are the same contender -/
theorem single_holder (ops : List Op) (i j : Nat) :
    let s := run init ops
    Holder s i → Holder s j → keyOfCont s i = keyOfCont s j → i = j := by
  intro s hi hj hk
  have inv : Inv0 s := inv0_run init inv0_init ops
  obtain ⟨ci, ei, hci, hli, hei, hlei⟩ := hi
  obtain ⟨cj, ej, hcj, hlj, hej, hlej⟩ := hj
  simp only [keyOfCont, hci, hcj, Option.map_some, Option.some.injEq] at hk
  by_cases h : i = j
  · exact h
  · exfalso
    rw [hk] at hei
    rw [hei] at hej
    cases hej
    exact inv.uniq i j ci cj h hci hcj hli (by rw [← hlei, ← hlej])

/-- **single_holder**, in the vocabulary of the specification: every reachable state satisfies
    `Spec.C03.Snap.SingleHolder` -/
theorem single_holder_spec (ops : List Op) : (snapOf (run init ops)).SingleHolder := by
  intro l
  generalize hs : run init ops = s
  have inv : Inv0 s := hs ▸ inv0_run init inv0_init ops
  apply filter_length_le_one
  intro i j a b hij ha hb hpa hpb
  simp only [snapOf, List.getElem?_map, Option.map_eq_some_iff] at ha hb
  obtain ⟨ci, hci, rfl⟩ := ha
  obtain ⟨cj, hcj, rfl⟩ := hb
  have hmi : ci ∈ s.conts := List.mem_of_getElem? hci
  have hmj : cj ∈ s.conts := List.mem_of_getElem? hcj
  simp only [Bool.and_eq_true, decide_eq_true_eq, C03.Snap.holder, bne_iff_ne, ne_eq, beq_iff_eq] at hpa hpb
  obtain ⟨hki, hni, hri⟩ := hpa
  obtain ⟨hkj, hnj, hrj⟩ := hpb
  have e1 : (viewOf ci).key = ci.key := rfl
  have e2 : (viewOf cj).key = cj.key := rfl
  rw [e1, snapOf_recOf s ci hmi] at hri
  rw [e2, snapOf_recOf s cj hmj] at hrj
  have hk : ci.key = cj.key := by rw [← e1, ← e2, hki, hkj]
  rw [hk] at hri
  rw [hri] at hrj
  have hl : (viewOf ci).lease = (viewOf cj).lease := by
    have := Option.some.inj hrj
    exact congrArg C03.Rec.lease this
  have hvi : (viewOf ci).lease = lid ci := rfl
  have hvj : (viewOf cj).lease = lid cj := rfl
  exact inv.uniq i j ci cj (by omega) hci hcj (by rw [← hvi]; exact hni) (by rw [← hvi, ← hvj]; exact hl)

/-- **stepdown_clears** – the step-down of the leader loop (ResetLeader ; ResetAllocatorGroup) leaves the
    contender resigned, unannounced and without timestamp memory: `Spec.C03.SteppedDown` -/
theorem stepdown_clears (s : St) (i : Nat) (c : Cont) (rv : Bool) (hc : s.conts[i]? = some c)
    (hp : c.pending = none) (hm : c.member ≠ 0) :
    ∀ c', (step0 s (.on i (.stepdown rv))).1.conts[i]? = some c' → C03.SteppedDown (viewOf c') := by
  intro c' hc'
  have e : step0 s (.on i (.stepdown rv)) = _ := step0_on s i c _ hc
  rw [e] at hc'
  have hi : i < s.conts.length := by
    by_cases h : i < s.conts.length
    · exact h
    · have := List.getElem?_eq_none_iff.2 (Nat.le_of_not_lt h); simp_all
  simp only [List.getElem?_set, hi, if_true] at hc'
  simp at hc'
  subst hc'
  simp only [loc, hp, Option.isSome_none, Bool.false_eq_true, if_false]
  refine ⟨resetStep_check _ _, ?_, ?_⟩
  · simp only [viewOf, resetStep, closeLease]
    repeat' split
    all_goals simp [Ne.symm hm]
  · simp only [viewOf, resetStep, closeLease]
    repeat' split
    all_goals simp

/-- **serving_is_holder** – in every state reached by a faithful history, a contender that grants
    timestamps or answers `IsLeader = true` owns a live lease and the leader record of its leadership
    carries exactly its value and that lease -/
theorem serving_is_holder (ops : List Op) (hf : faithfulRun init ops = true) (i : Nat) (c : Cont)
    (hc : (run init ops).conts[i]? = some c) (hs : c.tsoServes = true ∨ c.isLeader = true) :
    ∃ l, c.lease = some l ∧ l.id ≠ 0 ∧ (run init ops).etcd.live l.id = true ∧
      (run init ops).etcd.kv (.leader c.key) = some ⟨c.member, l.id⟩ := by
  have inv := invF_run init invF_init ops hf
  generalize run init ops = s at *
  have hlf := inv.lf i c hc
  have hck : c.check = true := by
    rcases hs with hs | hs <;> simp [Cont.tsoServes, Cont.isLeader] at hs <;> exact hs.1
  have hw : c.won = true := by
    apply hlf.serve _ hck
    rcases hs with hs | hs <;> simp [Cont.tsoServes, Cont.isLeader] at hs
    · exact Or.inl hs.2
    · exact Or.inr hs.2
  obtain ⟨l, hl, hne, _, hr⟩ := hlf.won hw
  have hlive : s.etcd.live l.id = true := by
    apply hlf.live l hl hne
    simpa [Cont.check, hl] using hck
  exact ⟨l, hl, hne, hlive, hr hlive⟩

/-- **expired_or_resigned_serves_nothing** – in every state reached by a faithful history, a contender
    whose lease is gone on the etcd side (expired, revoked, resigned, lost with a crash) has
    `Check() = false`; and a contender without a live lease – including the one whose `Grant` failed and
    whose `Check()` is therefore true (observation F13) – grants no timestamp and answers `IsLeader = false` -/
theorem expired_or_resigned_serves_nothing (ops : List Op) (hf : faithfulRun init ops = true) (i : Nat)
    (c : Cont) (hc : (run init ops).conts[i]? = some c) :
    (∀ l, c.lease = some l → l.id ≠ 0 → (run init ops).etcd.live l.id = false → c.check = false) ∧
    ((∀ l, c.lease = some l → l.id = 0 ∨ (run init ops).etcd.live l.id = false) →
        c.tsoServes = false ∧ c.isLeader = false) := by
  have inv := invF_run init invF_init ops hf
  constructor
  · intro l hl hne hdead
    have hlf := inv.lf i c hc
    cases hck : c.check with
    | false => rfl
    | true =>
      have := hlf.live l hl hne (by simpa [Cont.check, hl] using hck)
      rw [this] at hdead; cases hdead
  · intro hno
    have key : ¬ (c.tsoServes = true ∨ c.isLeader = true) := by
      intro hs
      obtain ⟨l, hl, hne, hlive, _⟩ := serving_is_holder ops hf i c hc hs
      rcases hno l hl with h | h
      · exact hne h
      · rw [hlive] at h; cases h
    cases h1 : c.tsoServes <;> cases h2 : c.isLeader <;> simp_all

/-- **single_server** – in a faithful history at most one contender per leadership serves at any instant -/
theorem single_server (ops : List Op) (hf : faithfulRun init ops = true) (i j : Nat) (ci cj : Cont)
    (hi : (run init ops).conts[i]? = some ci) (hj : (run init ops).conts[j]? = some cj)
    (hk : ci.key = cj.key)
    (hsi : ci.tsoServes = true ∨ ci.isLeader = true) (hsj : cj.tsoServes = true ∨ cj.isLeader = true) :
    i = j := by
  obtain ⟨li, hli, hni, _, hri⟩ := serving_is_holder ops hf i ci hi hsi
  obtain ⟨lj, hlj, hnj, _, hrj⟩ := serving_is_holder ops hf j cj hj hsj
  apply single_holder ops i j
  · exact ⟨ci, _, hi, by simpa [lid, hli] using hni, hri, by simp [lid, hli]⟩
  · exact ⟨cj, _, hj, by simpa [lid, hlj] using hnj, hrj, by simp [lid, hlj]⟩
  · simp [keyOfCont, hi, hj, hk]

/-- the same in the vocabulary of the specification -/
theorem serving_is_holder_spec (ops : List Op) (hf : faithfulRun init ops = true) :
    (snapOf (run init ops)).ServingIsHolder := by
  have inv := invF_run init invF_init ops hf
  intro v hv
  simp only [snapOf, List.mem_map] at hv
  obtain ⟨c, hc, rfl⟩ := hv
  obtain ⟨i, hi⟩ := List.getElem?_of_mem hc
  constructor
  · intro hs
    have hs' : c.tsoServes = true ∨ c.isLeader = true := by
      simp only [C03.View.serves, C03.View.servesRpc, C03.View.servesTso, viewOf, Bool.or_eq_true,
        Bool.and_eq_true, beq_iff_eq] at hs
      rcases hs with hs | hs
      · right; simp [Cont.isLeader, hs.1, hs.2]
      · left; simp [Cont.tsoServes, hs.1, hs.2]
    obtain ⟨l, hl, hne, _, hr⟩ := serving_is_holder ops hf i c hi hs'
    simp only [C03.Snap.holder, Bool.and_eq_true, bne_iff_ne, ne_eq, beq_iff_eq]
    have e : (viewOf c).key = c.key := rfl
    rw [e, snapOf_recOf _ c hc, hr]
    simp [viewOf, hl, hne]
  · intro hck hne
    have hlf := inv.lf i c hi
    rw [lid_viewOf] at hne ⊢
    cases hl : c.lease with
    | none => simp [lid, hl] at hne
    | some l =>
      have hid : lid c = l.id := by simp [lid, hl]
      rw [hid] at hne ⊢
      have hlive := hlf.live l hl hne (by simpa [viewOf, Cont.check, hl] using hck)
      have hle := inv.inv0.le i c hi
      rw [hid] at hle
      simp only [snapOf, List.mem_filter, List.mem_range]
      exact ⟨by omega, hlive⟩

/-! ### non-vacuity: a concrete faithful history (two contenders, a won and a lost campaign, service,
    a rejected write, local expiry, lease loss, step-down, take-over) and observation F13 -/

def outs : St → List Op → List Out
  | _, [] => []
  | s, op :: ops => (step s op).2 :: outs (step s op).1 ops

def demoOps : List Op :=
  [.new 0 1, .new 0 2,
   .on 0 (.campaign 60 [] .none true), .on 1 (.campaign 60 [] .none true),
   .on 0 .keep, .on 0 (.write .tsSync .none), .on 0 .enable, .on 0 .tso, .on 0 .isleader,
   .on 1 (.write .idRebase .none), .on 1 (.write (.prioPut 1 5) .errAfter), .on 1 .tso,
   .on 0 (.clock 61), .on 0 .tso, .on 0 .isleader, .expire 1, .on 0 (.write .tsSync .none),
   .on 0 (.stepdown true), .on 1 .observe, .on 1 (.gcampaign 60 []), .on 1 (.finish .none true),
   .on 1 (.write .tsSync .none), .on 1 .tso]

example : faithfulRun init demoOps = true := by decide

example : outs init demoOps =
    [.ok, .ok, .ok, .conflict, .ok, .ok, .ok, .served, .bool true, .conflict, .err, .refused,
     .ok, .refused, .bool false, .ok, .conflict, .ok, .noLeader, .parked, .ok, .ok, .served] := by decide

/-- observation F13: after a failed `Grant`, `Check()` is true although there is no lease
    (harmless: see `expired_or_resigned_serves_nothing`) -/
example : ((run init [.new 0 1, .on 0 (.campaign (maxLeaseTTL + 1) [] .none true)]).conts.map (·.check)) = [true] := by
  decide

/-! ### structure obligations: what the model assumes about the shape of the Go code, re-extracted from the
    source by factgen on every run (a dropped comparison, a removed guard or a re-ordered step-down makes
    the corresponding `decide` fail) -/

section
open PdModel.Generated.Election

/-- `Leadership.Campaign` is: remember the value, Grant, one transaction `If extra ∧ CreateRevision(leaderKey) = 0 Then Put(leaderKey, value, lease)`, Close on error or conflict -/
theorem campaign_structure :
    campaignRequiresAbsent = true ∧
    campaignPutsValueWithLease = true ∧
    campaignKeepsExtraCmps = true ∧
    campaignGrantThenTxn = true ∧
    campaignClosesOnError = true ∧
    campaignClosesOnConflict = true ∧
    campaignLeaderUsesMemberValue = true ∧
    allocatorCampaignUsesMemberValue = true := by decide

/-- the lease view: Check, IsExpired (false when never stored: F13), Close (zero time, then Revoke), the clock is read before the Grant / KeepAliveOnce request, Reset closes, DeleteLeaderKey resets after a successful delete -/
theorem lease_structure :
    checkIsLeaseNotExpired = true ∧
    isExpiredFalseWhenUnset = true ∧
    isExpiredIsNowAfter = true ∧
    closeExpiresThenRevokes = true ∧
    grantClockBeforeRequest = true ∧
    keepAliveClockBeforeRequest = true ∧
    keepAliveStoresLaterExpiry = true ∧
    resetClosesLease = true ∧
    deleteThenReset = true := by decide

/-- every leader-guarded write goes through the comparison with the leader record: LeaderTxn adds `Value(leaderKey) = leaderValue`; time window, member priority (set / delete), dc-location, encryption keys use LeaderTxn; the id window compares `Value(<root>/leader)` with the member value; the time window and the in-memory id window are published only after the transaction succeeded -/
theorem guarded_write_structure :
    leaderTxnAddsLeaderCmp = true ∧
    leaderCmpIsValueEq = true ∧
    saveTimestampGuarded = true ∧
    saveTimestampPersistsBeforePublishing = true ∧
    setPriorityGuarded = true ∧
    deletePriorityGuarded = true ∧
    deleteDCLocationGuarded = true ∧
    idRebaseGuarded = true ∧
    idRebaseLeaderPath = true ∧
    idRebasePersistsBeforePublishing = true ∧
    saveKeysGuarded = true := by decide

/-- the service paths refuse when `Check()` / `IsLeader()` is false: GenerateTSO (global and local) checks first, getTS re-checks after generating, resetUserTimestamp checks, rotateKeyIfNeeded checks, validateRequest requires IsLeader, AllocID validates before allocating, the region-heartbeat stream validates every received message (before the stream re-bind block) and the store heartbeat validates before it is handled, IsLeader = Check ∧ cache -/
theorem service_guard_structure :
    isLeaderIsCheckAndCache = true ∧
    getTSRechecksLeadership = true ∧
    resetUserTimestampChecksLeadership = true ∧
    globalGenerateChecksLeadershipFirst = true ∧
    localGenerateChecksLeadershipFirst = true ∧
    rotateChecksLeadershipFirst = true ∧
    validateRequestRequiresLeader = true ∧
    allocIDValidatesFirst = true ∧
    dcLocationInfoRequiresLeader = true ∧
    regionHeartbeatValidatesEveryMessage = true ∧
    storeHeartbeatValidatesFirst = true := by decide

/-- the call order assumed of the leader loop (`Spec.C03.Act`): keep-alive, TSO initialisation and EnableLeader only after a successful CampaignLeader; the step-down cancels the keep-alive, resets the leadership, unsets the leader cache and resets the TSO memory; CheckLeader deletes the record only when it names the member itself; WatchLeader sets, watches, unsets -/
theorem leader_loop_structure :
    leaderLoopOrder = true ∧
    stepDownCancelsThenResets = true ∧
    stepDownResetsTSO = true ∧
    leaderLoopStepsDownOnExpiry = true ∧
    resetLeaderResetsAndUnsets = true ∧
    resetGroupResetsAllocatorAndLeadership = true ∧
    checkLeaderDeletesOnlyOwnRecord = true ∧
    watchLeaderSetsWatchesUnsets = true := by decide

end

/-- the id-window step of the model is the constant of server/id/id.go -/
theorem allocStep_extracted : allocStep = PdModel.Generated.Election.allocStep := by decide

end PdModel.Election
