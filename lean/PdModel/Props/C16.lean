import PdModel.Model.Syncer
import PdModel.Lemmas.HistoryBuf
import PdModel.Lemmas.Syncer
import PdModel.Lemmas.SyncRegion
import PdModel.Spec.C16
import PdModel.Generated.Syncer
set_option linter.unusedSimpArgs false
set_option linter.unusedVariables false
/-!
C16 – property theorems (nothing but the theorems and the definitions needed to state them).

Part 1, the change log: for every capacity, every flush interval and every sequence of
record / reset / restart operations (with arbitrary kv failures where the statement allows them)
* `records_from_exact` – `RecordsFrom` returns exactly what `Spec.C16.expected` demands: inside the window
  the records from the requested index to the newest in order, outside nothing;
* `restart_lag_le_flush` – the next index after a restart is not ahead of, and less than one flush
  interval behind, the index before the restart (no failing `kv.Save` in the history).
-/
namespace PdModel.HistoryBuf
open PdModel.Spec
variable {α : Type}

/-- operations on the change log; `fails` = the `kv.Save` issued by the operation (if any) fails -/
inductive HOp (α : Type) where
  | record (r : α) (fails : Bool)
  | reset (n : Nat) (fails : Bool)
  | restart (cap : Nat)

/-- the buffer together with what a client knows: its capacity, the records it handed over since the
    last reset/restart and the next index -/
structure HState (α : Type) where
  buf : Buf α
  cap : Nat
  log : C16.Log α

def hstep (s : HState α) : HOp α → HState α
  | .record r f =>
    { s with buf := record s.buf r f, log := { log := s.log.log ++ [r], next := s.log.next + 1 } }
  | .reset n f => { s with buf := resetWithIndex s.buf n f, log := { log := [], next := n } }
  | .restart c =>
    let b := restart s.buf c
    { buf := b, cap := c, log := { log := [], next := b.index } }

def hinit (cap : Nat) (kv : Option Nat) (flush : Nat) : HState α :=
  { buf := new cap kv flush, cap := cap, log := { log := [], next := kv.getD 0 } }

def hrun (s : HState α) (ops : List (HOp α)) : HState α := ops.foldl hstep s

/-- refinement invariant of the combined state -/
def HInv (s : HState α) : Prop :=
  ∃ a : Abs α, Rel s.buf a ∧ s.buf.size = max s.cap 1 + 1 ∧ a.next = s.log.next ∧
    a.win = lastN (max s.cap 1) s.log.log

theorem hinv_init (cap : Nat) (kv : Option Nat) (flush : Nat) : HInv (hinit cap kv flush : HState α) :=
  ⟨_, rel_new cap kv flush, new_size cap kv flush, rfl, by simp [hinit, lastN_nil]⟩

theorem hinv_step (s : HState α) (h : HInv s) (op : HOp α) : HInv (hstep s op) := by
  obtain ⟨a, hr, hsz, hn, hw⟩ := h
  cases op with
  | record r f =>
    refine ⟨a.record (capOf s.buf) r, rel_record _ _ hr r f, ?_, ?_, ?_⟩
    · simp only [hstep]; rw [(record_fields s.buf r f).1]; exact hsz
    · simp [hstep, Abs.record, hn]
    · have hc : capOf s.buf = max s.cap 1 := by unfold capOf; omega
      simp only [hstep, Abs.record, hc]
      rw [lastN_snoc _ (by omega), hw]
  | reset n f =>
    refine ⟨Abs.reset n, rel_reset _ _ hr n f, ?_, rfl, by simp [hstep, Abs.reset, lastN_nil]⟩
    simp only [hstep]
    have : (resetWithIndex s.buf n f).size = s.buf.size := by
      unfold resetWithIndex persist; split <;> rfl
    rw [this]; exact hsz
  | restart c =>
    exact ⟨_, rel_new c s.buf.kv s.buf.flush, new_size _ _ _, by simp [hstep, restart, new],
      by simp [hstep, lastN_nil]⟩

theorem hinv_run (s : HState α) (h : HInv s) (ops : List (HOp α)) : HInv (hrun s ops) := by
  induction ops generalizing s with
  | nil => exact h
  | cons op ops ih => exact ih _ (hinv_step s h op)

/-- **C16, change log, part 1.**  For every capacity, flush interval, initial persisted index and every
    sequence of records, resets (to any index) and restarts (to any capacity), with any pattern of failing
    saves, `RecordsFrom(i)` returns – for every `i` – exactly the records the specification demands:
    inside the window the records from `i` to the newest in order, outside nothing. -/
theorem records_from_exact (cap : Nat) (kv : Option Nat) (flush : Nat) (ops : List (HOp α)) (i : Nat) :
    let s := hrun (hinit cap kv flush) ops
    recordsFrom s.buf i = (C16.expected s.cap s.log i).map some := by
  intro s
  obtain ⟨a, hr, hsz, hn, hw⟩ := hinv_run _ (hinv_init cap kv flush) ops
  rw [recordsFrom_rel s.buf a hr i, ← expected_of_window s.cap s.log a hn hw hr.le i]
  split <;> simp

/-- the same, in the words of the specification -/
theorem records_from_ok (cap : Nat) (kv : Option Nat) (flush : Nat) (ops : List (HOp α)) (i : Nat) :
    let s := hrun (hinit cap kv flush) ops
    ∃ answer : List α, recordsFrom s.buf i = answer.map some ∧ C16.RecordsFromOk s.cap s.log i answer := by
  intro s
  refine ⟨C16.expected s.cap s.log i, records_from_exact cap kv flush ops i, ?_⟩
  unfold C16.RecordsFromOk C16.expected
  constructor
  · intro h; rw [if_pos h]
  · intro h; rw [if_neg h]

/-- no `kv.Save` of the operation fails -/
def HOp.noFail : HOp α → Prop
  | .record _ f => f = false
  | .reset _ f => f = false
  | .restart _ => True

theorem pers_run (F : Nat) (hF : 0 < F) (s : HState α) (h : Pers F s.buf) (ops : List (HOp α))
    (hnf : ∀ op ∈ ops, op.noFail) : Pers F (hrun s ops).buf := by
  induction ops generalizing s with
  | nil => exact h
  | cons op ops ih =>
    have h1 : op.noFail := hnf op (by simp)
    refine ih (hstep s op) ?_ (fun o ho => hnf o (by simp [ho]))
    cases op with
    | record r f => simp only [HOp.noFail] at h1; subst h1; exact pers_record F _ h r
    | reset n f => simp only [HOp.noFail] at h1; subst h1; exact pers_reset F _ h n
    | restart c =>
      have := pers_new (α := α) c s.buf.kv s.buf.flush (by rw [h.fl]; exact hF)
      rw [h.fl] at this
      simpa [hstep, restart, h.fl] using this

/-- **C16, change log, part 2.**  After every history without a failing save, a restart (with any
    capacity) continues with an index that is not ahead of the index before the restart and less than one
    flush interval behind it. -/
theorem restart_lag_le_flush (cap : Nat) (kv : Option Nat) (flush : Nat) (hf : 0 < flush)
    (ops : List (HOp α)) (hnf : ∀ op ∈ ops, op.noFail) (c : Nat) :
    let b := (hrun (hinit cap kv flush) ops).buf
    (restart b c).index ≤ b.index ∧ b.index - (restart b c).index < flush := by
  intro b
  have hp : Pers flush b := pers_run flush hf _ (pers_new cap kv flush hf) ops hnf
  rw [restart_index]
  have h0 := hp.fl
  have h1 := hp.fc1
  have h2 := hp.fc2
  have h3 := hp.eq
  omega

/-- instantiated with the flush interval extracted from `history_buffer.go`, which must not exceed the
    100 records the property allows (`Spec.C16.flushInterval`), and phrased with the specification's predicate -/
theorem restart_lag_extracted (cap : Nat) (kv : Option Nat) (ops : List (HOp α))
    (hnf : ∀ op ∈ ops, op.noFail) (c : Nat) :
    let b := (hrun (hinit cap kv PdModel.Generated.Syncer.defaultFlushCount) ops).buf
    C16.RestartLagOk C16.flushInterval b.index (restart b c).index := by
  intro b
  have := restart_lag_le_flush cap kv PdModel.Generated.Syncer.defaultFlushCount (by decide) ops hnf c
  have hle : PdModel.Generated.Syncer.defaultFlushCount ≤ C16.flushInterval := by decide
  refine ⟨this.1, ?_⟩
  have h2 := this.2
  show b.index - (restart b c).index ≤ C16.flushInterval
  generalize b.index - (restart b c).index = d at h2 ⊢
  omega

set_option maxRecDepth 8192 in
/-- F12 on the pinned tree before the repair (`ResetWithIndex` did not persist): reset to 10000, 50
    records, restart → the index is back at 0. -/
theorem restart_lag_unfixed_counterexample :
    let b0 : Buf Nat := new 3 none 100
    let b1 := resetWithIndexUnfixed b0 10000
    let b2 := (List.range 50).foldl (fun b k => record b k false) b1
    b2.index = 10050 ∧ (restart b2 3).index = 0 := by
  decide

/-- non-vacuity: a capacity-3 buffer that wraps, is queried inside and outside its window, reset and
    restarted -/
example :
    let s := hrun (hinit 3 none 2 : HState Nat)
      [.record 10 false, .record 11 false, .record 12 false, .record 13 true, .record 14 false]
    recordsFrom s.buf 3 = [some 13, some 14] ∧ recordsFrom s.buf 1 = [] ∧ recordsFrom s.buf 5 = [] ∧
    recordsFrom s.buf 2 = [some 12, some 13, some 14] ∧ s.buf.kv = some 2 ∧
    (restart s.buf 3).index = 2 := by
  decide

end PdModel.HistoryBuf

namespace PdModel.Syncer
open PdModel.HistoryBuf PdModel.SyncRegion PdModel.Spec

/-!
Part 2, synchronisation.  `WF r`: a present leader has a non-zero peer id (0 is the wire encoding of
"no leader").  `Compat`: different ids, disjoint ranges.
* `full_sync_messages_exact` – whatever the number of regions and the batch size, the batches decoded
  positionally (regions[i] / leaders[i] / stats[i], as the follower does) are exactly the leader's regions
  with their own leaders and flow statistics; start indexes chain; every batch has three arrays of equal
  length ≤ batch size.
* `leader_cache_consistent` – the leader's cache is pairwise compatible after every history of changes.
* `full_sync_follower_eq_leader` – after a full synchronisation an (empty) follower holds, for every
  region sent, exactly the leader's region: range, epoch, peers, leader, flow statistics; for every
  leader history, any order in which the leader enumerates its regions, any number of batches.
* `full_sync_into_follower` – the same for a follower that already holds regions (restart: cache loaded from
  its own storage), provided its cache is consistent and holds nothing newer than what is sent.
* `incremental_sync_follower_eq_leader` – a follower that equals the leader at index `i` and
  synchronises after the leader accepted at most `capacity` further changes equals the leader again
  (cache and next index), for every reachable history buffer and every list of changes.
* `broadcast_messages_exact` – the broadcast messages for any sequence of changes are exactly the accepted
  changes, once each, in order, with chained start indexes.
* `merged_broadcast_exact` – a batch of pending changes sent as one message decodes to the same regions, in order,
  as the changes' own messages (a region reported twice keeps both of its leaders).
* `failed_save_keeps_cache` – failing region saves on the follower never change its cache; the sync theorems that
  speak about the next index assume no failing save (`NoFail`).
* `full_sync_unfixed_counterexample` – F3 on the pinned tree before the repair.
-/

/-- **Batches are exact.** -/
theorem full_sync_messages_exact (batch : Nat) (regions : List Region) (hwf : ∀ r ∈ regions, WF r) :
    (fullSync batch regions).flatMap decode = regions ∧ Chained 0 (fullSync batch regions) ∧
    (0 < batch → ∀ m ∈ fullSync batch regions, Aligned batch m) := by
  refine ⟨?_, fullSyncLoop_chained _ _ _ _ _ _ _, fun hb => fullSyncLoop_aligned batch hb regions [] [] [] 0 rfl rfl hb⟩
  by_cases hne : regions = []
  · subst hne; rfl
  · have := fullSyncLoop_decode batch regions [] 0 (by simpa using hwf) hne
    simpa [fullSync] using this

/-- **The leader's cache is consistent** after every sequence of changed regions, starting empty. -/
theorem leader_cache_consistent (h : Buf Region) (rs : List Region) :
    (leaderPuts { hist := h } rs).cache.Pairwise Compat := by
  suffices hs : ∀ l : Leader, l.cache.Pairwise Compat → (leaderPuts l rs).cache.Pairwise Compat from
    hs _ List.Pairwise.nil
  induction rs with
  | nil => intro l h; exact h
  | cons r rs ih =>
    intro l hl
    simp only [leaderPuts, List.foldl_cons]
    apply ih
    unfold leaderPut
    split
    · exact hl
    · exact consistent_putRegion _ hl r

/-- **Full synchronisation.**  Leader `l` with a consistent cache (see `leader_cache_consistent`) whose
    history no longer reaches back to index 0; `regions` = its cached regions in whatever order
    `GetRegions` enumerates them; a follower with an empty cache and next index 0.  After the follower
    has applied everything `syncHistoryRegion` sends, its cache holds exactly the regions sent, each
    with the leader's range, epoch, peers, leader and flow statistics, and its next index is their
    number.  Any number of regions, any batch size. -/
theorem full_sync_follower_eq_leader (batch : Nat) (l : Leader) (regions : List Region)
    (hperm : regions.Perm l.cache) (hcons : l.cache.Pairwise Compat) (hwf : ∀ r ∈ l.cache, WF r)
    (hold : recordsFrom l.hist 0 = []) (hidx : l.hist.index ≠ 0)
    (f : Follower) (hfc : f.cache = []) (hfi : f.hist.index = 0) (hnf : NoFail f) :
    let f' := (syncHistoryRegion batch l f.hist.index regions).foldl applyMsg f
    f'.cache = regions ∧ f'.hist.index = regions.length ∧
    ∀ r ∈ l.cache, Cache.find f'.cache r.md.id = some r := by
  intro f'
  have hmsgs : syncHistoryRegion batch l f.hist.index regions = fullSync batch regions := by
    unfold syncHistoryRegion
    simp [hfi, hold, hidx]
  have hwf' : ∀ r ∈ regions, WF r := fun r hr => hwf r (hperm.mem_iff.1 hr)
  have hc : regions.Pairwise Compat := (hperm.pairwise_iff (fun h => compat_symm h)).2 hcons
  obtain ⟨hdec, hch, _⟩ := full_sync_messages_exact batch regions hwf'
  have hcache : f'.cache = regions := by
    simp only [f', hmsgs]
    rw [applyMsgs_cache, hdec, hfc, foldl_applyRegion_compat regions [] (by simpa using hc)]
    simp
  refine ⟨hcache, ?_, ?_⟩
  · simp only [f', hmsgs]
    rw [applyMsgs_index _ f hnf 0 hfi hch, hdec]; simp
  · intro r hr
    rw [hcache]
    exact find_of_pairwise regions hc r (hperm.mem_iff.2 hr)

/-- **Full synchronisation into a follower that already holds regions** (e.g. loaded from its own storage
    after a restart).  The follower's cache is consistent and holds nothing newer than what the leader sends
    (`NotNewer`: no overlapping cached region has a higher version, the cached region of the same id has no
    higher version or conf version); next index 0.  After the full synchronisation every region of the leader
    is in the follower's cache exactly as the leader holds it, the cache is consistent again, and the next index
    is the number of regions sent. -/
theorem full_sync_into_follower (batch : Nat) (l : Leader) (regions : List Region)
    (hperm : regions.Perm l.cache) (hcons : l.cache.Pairwise Compat) (hwf : ∀ r ∈ l.cache, WF r)
    (hold : recordsFrom l.hist 0 = []) (hidx : l.hist.index ≠ 0)
    (f : Follower) (hfcons : f.cache.Pairwise Compat) (hnew : ∀ r ∈ l.cache, NotNewer f.cache r)
    (hfi : f.hist.index = 0) (hnf : NoFail f) :
    let f' := (syncHistoryRegion batch l f.hist.index regions).foldl applyMsg f
    (∀ r ∈ l.cache, Cache.find f'.cache r.md.id = some r) ∧ f'.cache.Pairwise Compat ∧
    f'.hist.index = regions.length := by
  intro f'
  have hmsgs : syncHistoryRegion batch l f.hist.index regions = fullSync batch regions := by
    unfold syncHistoryRegion
    simp [hfi, hold, hidx]
  have hwf' : ∀ r ∈ regions, WF r := fun r hr => hwf r (hperm.mem_iff.1 hr)
  have hc : regions.Pairwise Compat := (hperm.pairwise_iff (fun h => compat_symm h)).2 hcons
  obtain ⟨hdec, hch, _⟩ := full_sync_messages_exact batch regions hwf'
  have hcache : f'.cache = regions.foldl applyRegion f.cache := by
    simp only [f', hmsgs]
    rw [applyMsgs_cache, hdec]
  have hcons' : f'.cache.Pairwise Compat := by rw [hcache]; exact foldl_applyRegion_consistent _ _ hfcons
  refine ⟨fun r hr => ?_, hcons', ?_⟩
  · apply find_of_pairwise _ hcons'
    rw [hcache]
    exact foldl_applyRegion_into f.cache regions [] f.cache (fun x hx => Or.inl hx) (by intro d hd; cases hd)
      (by simpa using hc) (fun y hy => hnew y (hperm.mem_iff.1 hy)) r (by simpa using hperm.mem_iff.2 hr)
  · simp only [f', hmsgs]
    rw [applyMsgs_index _ f hnf 0 hfi hch, hdec]; simp


/-- **Incremental synchronisation.**  The leader's history buffer is any reachable one (any capacity,
    any record/reset/restart history); the follower equals the leader (cache and next index); the leader
    then processes any list `rs` of changed regions (stale ones are dropped, accepted ones are recorded)
    of which at most `capacity` are accepted; the follower synchronises.  Afterwards follower cache = leader
    cache and follower next index = leader next index. -/
theorem incremental_sync_follower_eq_leader (batch cap flush : Nat) (kv : Option Nat)
    (ops : List (HOp Region)) (l0 : Leader)
    (hreach : l0.hist = (hrun (hinit cap kv flush) ops).buf)
    (rs : List Region) (hwf : ∀ r ∈ rs, WF r)
    (hcap : (acceptedOf l0.cache rs).length ≤ max (hrun (hinit cap kv flush : HState Region) ops).cap 1)
    (f : Follower) (hfc : f.cache = l0.cache) (hfi : f.hist.index = l0.hist.index) (hnf : NoFail f)
    (regions : List Region) :
    let l1 := leaderPuts l0 rs
    let f1 := (syncHistoryRegion batch l1 f.hist.index regions).foldl applyMsg f
    f1.cache = l1.cache ∧ f1.hist.index = l1.hist.index := by
  intro l1 f1
  generalize hcap'' : (hrun (hinit cap kv flush : HState Region) ops).cap = cap' at hcap
  have hcap' : cap' = (hrun (hinit cap kv flush : HState Region) ops).cap := hcap''.symm
  obtain ⟨a, hr, hsz, hn, hw⟩ := hinv_run _ (hinv_init (α := Region) cap kv flush) ops
  rw [← hreach] at hr hsz
  have hcapOf : capOf l0.hist = max cap' 1 := by unfold capOf; rw [hsz, hcap']; omega
  rw [← hcap', ← hcapOf] at hw
  obtain ⟨hlc, hlh⟩ := leaderPuts_cache rs l0
  generalize hacc : acceptedOf l0.cache rs = acc at *
  have haccwf : ∀ r ∈ acc, WF r := by
    intro r hr'
    apply hwf
    have : ∀ (c : Cache) (rs : List Region), ∀ x ∈ acceptedOf c rs, x ∈ rs := by
      intro c rs
      induction rs generalizing c with
      | nil => intro x hx; cases hx
      | cons y ys ih =>
        intro x hx
        simp only [acceptedOf] at hx
        split at hx
        · exact List.mem_cons_of_mem _ (ih _ x hx)
        · rcases List.mem_cons.1 hx with rfl | hx
          · simp
          · exact List.mem_cons_of_mem _ (ih _ x hx)
    rw [← hacc] at hr'
    exact this _ _ r hr'
  obtain ⟨a', hr', hn', hw'⟩ := rel_records acc l0.hist a _ hr hw
  have hidx1 : l1.hist.index = l0.hist.index + acc.length := by
    simp only [l1]; rw [hlh]; exact (foldl_record_size acc l0.hist).2
  have hrel1 : Rel l1.hist a' := by simp only [l1]; rw [hlh]; exact hr'
  by_cases hempty : acc = []
  · -- nothing was accepted: already in sync
    subst hempty
    have hl1 : l1.hist = l0.hist := by simp only [l1]; rw [hlh]; rfl
    have hrf : recordsFrom l1.hist f.hist.index = [] := by
      rw [recordsFrom_rel _ _ hrel1, if_neg]
      rw [hfi, hr.idx, hn']; simp
    have : syncHistoryRegion batch l1 f.hist.index regions = [] := by
      unfold syncHistoryRegion
      rw [hrf, hl1, hfi]
      simp
    simp only [f1, this, List.foldl_nil]
    exact ⟨by rw [hfc]; simp only [l1]; rw [hlc]; rfl, by rw [hfi, hl1]⟩
  · have hlen : 0 < acc.length := List.length_pos_iff.2 hempty
    have hwl : a'.win.length = min (capOf l0.hist) (a.win.length + acc.length) := by
      rw [hw', lastN_length]
      have : a.win.length ≤ capOf l0.hist := by rw [hw, lastN_length]; omega
      rw [hw] at this ⊢
      rw [lastN_length] at this ⊢
      simp only [List.length_append]
      omega
    have hrf : recordsFrom l1.hist f.hist.index = acc.map some := by
      rw [recordsFrom_rel _ _ hrel1, hfi, hr.idx, hn']
      have hge : acc.length ≤ a'.win.length := by rw [hwl]; rw [hcapOf]; have := hr.le; omega
      have hle' := hrel1.le
      rw [hn'] at hle'
      rw [if_pos ⟨by omega, by omega⟩]
      have : a.next - (a.next + acc.length - a'.win.length) = a'.win.length - acc.length := by omega
      rw [this, hw', lastN_drop_suffix _ _ _ (by rw [hcapOf]; exact hcap)]
    have hmsgs : syncHistoryRegion batch l1 f.hist.index regions = [incrementalMsg f.hist.index (acc.map some)] := by
      unfold syncHistoryRegion
      rw [hrf]
      have : (acc.map some).isEmpty = false := by
        cases acc with
        | nil => exact absurd rfl hempty
        | cons _ _ => rfl
      simp [this]
    have hdec : decode (incrementalMsg f.hist.index (acc.map some)) = acc := by
      unfold incrementalMsg
      simp only [List.map_map]
      have : (fun o : Option Region => o.getD default) ∘ some = id := by funext x; rfl
      simp only [this, List.map_id]
      exact decode_encode _ acc haccwf
    simp only [f1, hmsgs, List.foldl_cons, List.foldl_nil]
    refine ⟨?_, ?_⟩
    · rw [applyMsg_cache, hdec, hfc]; simp only [l1]; rw [hlc]
    · rw [(applyMsg_index f hnf _).1]
      have : (incrementalMsg f.hist.index (acc.map some)).regions.length = acc.length := by
        simp [incrementalMsg]
      rw [this, hidx1, hfi]
      simp [incrementalMsg, hfi]

/-- the messages `RunServer` broadcasts for a sequence of changed regions -/
def leaderPutsMsgs : Leader → List Region → List Msg
  | _, [] => []
  | l, r :: rs =>
    match leaderPut l r with
    | (l', some m) => m :: leaderPutsMsgs l' rs
    | (l', none) => leaderPutsMsgs l' rs

/-- **Broadcasts are exactly the changes.**  For every leader state and every sequence of changed regions the
    broadcast messages, decoded positionally, are the accepted changes – every one once, in order, each region
    with its own leader and flow statistics – and their start indexes continue the leader's index. -/
theorem broadcast_messages_exact (rs : List Region) (hwf : ∀ r ∈ rs, WF r) :
    ∀ l : Leader, (leaderPutsMsgs l rs).flatMap decode = acceptedOf l.cache rs ∧
      Chained l.hist.index (leaderPutsMsgs l rs) := by
  induction rs with
  | nil => intro l; exact ⟨rfl, trivial⟩
  | cons r rs ih =>
    intro l
    have ih' := ih (fun x hx => hwf x (by simp [hx]))
    simp only [leaderPutsMsgs, acceptedOf]
    by_cases hs : isStale l.cache r = true
    · have : leaderPut l r = (l, none) := by simp [leaderPut, hs]
      rw [this]; simp only [hs, if_true]
      exact ih' l
    · have hs' : isStale l.cache r = false := by simpa using hs
      have h1 : leaderPut l r = ({ l with cache := putRegion l.cache r, hist := record l.hist r false },
          some { start := l.hist.index, regions := [r.md], stats := [r.stat], leaders := [wireLeader r] }) := by
        simp [leaderPut, hs']
      rw [h1]; simp only [hs', Bool.false_eq_true, if_false, List.flatMap_cons]
      obtain ⟨h2, h3⟩ := ih' { l with cache := putRegion l.cache r, hist := record l.hist r false }
      have hdec : decode { start := l.hist.index, regions := [r.md], stats := [r.stat], leaders := [wireLeader r] } = [r] := by
        have := decode_encode l.hist.index [r] (by simpa using hwf r (by simp))
        simpa using this
      refine ⟨by rw [hdec, h2]; rfl, rfl, ?_⟩
      simp only [List.length_singleton]
      have : (record l.hist r false).index = l.hist.index + 1 := (record_fields l.hist r false).2.2.2.2.1
      rw [← this]; exact h3

/-- the messages `leaderPutsMsgs` builds are square -/
theorem leaderPutsMsgs_square (rs : List Region) : ∀ l : Leader, ∀ m ∈ leaderPutsMsgs l rs, Square m := by
  induction rs with
  | nil => intro l m hm; cases hm
  | cons r rs ih =>
    intro l m hm
    simp only [leaderPutsMsgs] at hm
    by_cases hs : isStale l.cache r = true
    · have : leaderPut l r = (l, none) := by simp [leaderPut, hs]
      rw [this] at hm
      exact ih _ m hm
    · have hs' : isStale l.cache r = false := by simpa using hs
      have h1 : leaderPut l r = ({ l with cache := putRegion l.cache r, hist := record l.hist r false },
          some { start := l.hist.index, regions := [r.md], stats := [r.stat], leaders := [wireLeader r] }) := by
        simp [leaderPut, hs']
      rw [h1] at hm
      rcases List.mem_cons.1 hm with rfl | hm'
      · exact ⟨rfl, rfl⟩
      · exact ih _ m hm'


/-- **One message for a drained batch.**  When `RunServer` finds several changes pending and sends them as one
    message, the follower decodes from it exactly what it would decode from the changes' own messages, in the same
    order – a region reported twice appears twice, each time with its own leader and flow. -/
theorem merged_broadcast_exact (ms : List Msg) (h : ∀ m ∈ ms, Square m) (m' : Msg) (hm : mergeMsgs ms = some m') :
    decode m' = ms.flatMap decode ∧ m'.start = (ms.head?.map (·.start)).getD 0 := by
  cases ms with
  | nil => simp [mergeMsgs] at hm
  | cons m ms =>
    simp only [mergeMsgs, Option.some.injEq] at hm
    subst hm
    have hsq := flatMap_square (m :: ms) h
    refine ⟨?_, by simp⟩
    rw [decode_square _ ⟨hsq.1, hsq.2⟩]
    exact decodeAux_flatMap (m :: ms) h


/-- a live follower (bound stream) that equals the leader stays equal when a changed region is
    broadcast -/
theorem broadcast_follower_eq_leader (l : Leader) (r : Region) (hwf : WF r) (f : Follower)
    (hfc : f.cache = l.cache) (hfi : f.hist.index = l.hist.index) (hnf : NoFail f) :
    match leaderPut l r with
    | (l', some m) => (applyMsg f m).cache = l'.cache ∧ (applyMsg f m).hist.index = l'.hist.index
    | (l', none) => l' = l := by
  unfold leaderPut
  by_cases hs : isStale l.cache r = true
  · simp [hs]
  · have hs' : isStale l.cache r = false := by simpa using hs
    simp only [hs', Bool.false_eq_true, if_false]
    have hdec : decode { start := l.hist.index, regions := [r.md], stats := [r.stat], leaders := [wireLeader r] } = [r] := by
      have := decode_encode l.hist.index [r] (by simpa using hwf)
      simpa using this
    refine ⟨?_, ?_⟩
    · rw [applyMsg_cache, hdec, hfc]
      simp [applyRegion_accept _ _ hs']
    · rw [(applyMsg_index f hnf _).1]
      simp [(record_fields l.hist r false).2.2.2.2.1]

/-- **A failing follower write does not touch the follower's view.**  Whatever region saves fail on the follower
    (once or persistently), after any sequence of received messages its cache is what it would be without
    failures – every region sent is applied in memory; the next index can only lag behind (a region whose save
    failed is not recorded), it never runs ahead. -/
theorem failed_save_keeps_cache (ms : List Msg) (f : Follower) :
    (ms.foldl applyMsg f).cache = (ms.flatMap decode).foldl applyRegion f.cache ∧
    (ms.foldl applyMsg f).cache =
      (ms.foldl applyMsg { f with failOnce := [], failAlways := [] }).cache :=
  ⟨applyMsgs_cache ms f, by rw [applyMsgs_cache, applyMsgs_cache]⟩

/-- batch size extracted from `server.go`: the theorems above hold for it (they hold for every size) -/
theorem full_sync_messages_exact_extracted (regions : List Region) (hwf : ∀ r ∈ regions, WF r) :
    (fullSync PdModel.Generated.Syncer.maxSyncRegionBatchSize regions).flatMap decode = regions ∧
    ∀ m ∈ fullSync PdModel.Generated.Syncer.maxSyncRegionBatchSize regions,
      Aligned PdModel.Generated.Syncer.maxSyncRegionBatchSize m :=
  let h := full_sync_messages_exact PdModel.Generated.Syncer.maxSyncRegionBatchSize regions hwf
  ⟨h.1, h.2.2 (by decide)⟩

/-- region `i` with leader peer `100+i` -/
def demoRegion (i : Nat) : Region :=
  { md := { id := i + 1, startKey := 10 * i, endKey := 10 * i + 10, confVer := 1, version := 1,
            peers := [{ id := 100 + i, store := 1 }] },
    leader := some { id := 100 + i, store := 1 } }

/-- **F3 on the pinned tree before the repair** (`leaders` is not truncated between batches), with batch
    size 2 and 3 regions: the second batch carries 3 leaders for 1 region and the follower pairs region 3
    with the leader of region 1. -/
theorem full_sync_unfixed_counterexample :
    let regions := [demoRegion 0, demoRegion 1, demoRegion 2]
    let msgs := fullSyncLoop 2 true regions [] [] [] 0
    msgs.map (fun m => (m.regions.length, m.leaders.length)) = [(2, 2), (1, 3)] ∧
    (msgs.flatMap decode).map (fun r => (r.md.id, r.leader.map (·.id))) = [(1, some 100), (2, some 101), (3, some 100)] ∧
    ((fullSync 2 regions).flatMap decode).map (fun r => (r.md.id, r.leader.map (·.id))) = [(1, some 100), (2, some 101), (3, some 102)] := by
  decide

/-- structure obligations, re-checked against the facts regenerated from the Go source on every run:
    the three operations of the change log are one critical section each; `ResetWithIndex` persists the new
    index (repair of F12, `resetWithIndex` in the model); the full-synchronisation loop truncates all three of
    its parallel slices after a batch (repair of F3, `fullSyncLoop … false` in the model); `RunServer` calls
    `broadcast` synchronously (no `go`), so a message is serialised before the loop re-uses its `requests` array
    (`leaderPut` in the model hands over a finished message). -/
theorem history_sections_locked :
    PdModel.Generated.Syncer.recordIsOneSection = true ∧
    PdModel.Generated.Syncer.recordsFromIsOneSection = true ∧
    PdModel.Generated.Syncer.resetIsOneSection = true ∧
    PdModel.Generated.Syncer.resetPersists = true ∧
    PdModel.Generated.Syncer.fullSyncTruncated = ["leaders", "metas", "stats"] ∧
    PdModel.Generated.Syncer.broadcastIsSynchronous = true := by decide

end PdModel.Syncer
