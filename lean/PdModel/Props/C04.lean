import PdModel.Model.IdAlloc
import PdModel.Lemmas.IdAlloc
import PdModel.Spec.C04
import PdModel.Generated.IdAlloc
set_option linter.unusedSimpArgs false
set_option linter.unusedVariables false
/-!
C04 – property theorems (nothing but the theorems and the definitions they need to be stated).
Quantifiers: every number of allocator instances, every interleaving of their reads, transactions
and local allocations, every leader-record history, every transaction fault (error with or without
effect), no bound on the length of the history.
-/
namespace PdModel.IdAlloc
open PdModel.Spec

/-- what a client observes of one step: a successful allocation, with the stored bound
    at the moment of the return -/
def evOf (after : St) (op : Op) (o : Out) : Option C04.Ev :=
  match op, o with
  | .alloc i _, .id n => some ⟨i, n, after.bound⟩
  | .galloc i, .id n => some ⟨i, n, after.bound⟩
  | .finish i _, .id n => some ⟨i, n, after.bound⟩
  | _, _ => none

/-- the observable allocation events of a history, oldest first -/
def events : St → List Op → List C04.Ev
  | _, [] => []
  | s, op :: ops =>
    let r := step s op
    (evOf r.1 op r.2).toList ++ events r.1 ops

def toEv (g : Grant) : C04.Ev := ⟨g.inst, g.id, g.bound⟩

theorem bump_granted (s : St) (i : Nat) :
    (∃ n, (bump s i).2 = .id n ∧ (bump s i).1.granted = ⟨i, n, s.bound, ((s.insts[i]?).map (·.last)).getD 0⟩ :: s.granted
        ∧ (bump s i).1.bound = s.bound)
    ∨ ((bump s i).2 = .bad ∧ (bump s i).1 = s) := by
  unfold bump
  split
  · right; simp
  · next x hx => left; exact ⟨x.base + 1, rfl, by simp [setInst, hx], by simp [setInst, St.bound]⟩

theorem cas_granted (s : St) (i f) : (cas s i f).1.granted = s.granted ∧ ∀ n, (cas s i f).2 ≠ .id n := by
  unfold cas; repeat' split
  all_goals simp [setInst]

theorem finishStep_obs (s : St) (i k f) :
    let r := finishStep s i k f
    (∃ n, r.2 = .id n ∧ k = .alloc ∧ r.1.granted.map toEv = ⟨i, n, r.1.bound⟩ :: s.granted.map toEv)
    ∨ ((∀ n, r.2 ≠ .id n) ∧ r.1.granted = s.granted) := by
  intro r
  simp only [r]
  unfold finishStep
  have hc := cas_granted s i f
  generalize cas s i f = r at hc
  obtain ⟨s1, o⟩ := r
  simp only at hc
  cases o with
  | id n => exact absurd rfl (hc.2 n)
  | ok =>
    cases k with
    | rebase => right; exact ⟨by simp, hc.1⟩
    | alloc =>
      simp only
      rcases bump_granted s1 i with ⟨n, h1, h2, h3⟩ | ⟨h1, h2⟩
      · left; refine ⟨n, h1, by simp, ?_⟩
        rw [h2, h3, ← hc.1]; simp [toEv]
      · right; rw [h1, h2]; exact ⟨by simp, hc.1⟩
  | conflict => right; cases k <;> exact ⟨by simp, hc.1⟩
  | err => right; cases k <;> exact ⟨by simp, hc.1⟩
  | parked => right; cases k <;> exact ⟨by simp, hc.1⟩
  | bad => right; cases k <;> exact ⟨by simp, hc.1⟩

/-- the ghost log is exactly what was observed -/
theorem step_obs (s : St) (op : Op) :
    (step s op).1.granted.map toEv = (evOf (step s op).1 op (step s op).2).toList ++ s.granted.map toEv := by
  cases op with
  | new m => simp [step, evOf]
  | leader m => simp [step, evOf]
  | stored => simp [step, evOf]
  | grebase i => simp only [step]; repeat' split
                 all_goals simp [evOf, (rd_frame _ _ _).2.2.2]
  | rebase i f =>
    simp only [step]; repeat' split
    · simp [evOf]
    · simp [evOf]
    · rcases finishStep_obs (rd s i .rebase) i .rebase f with ⟨n, _, h, _⟩ | ⟨h1, h2⟩
      · cases h
      · simp only [h2, (rd_frame _ _ _).2.2.2]; simp [evOf]
  | alloc i f =>
    simp only [step]; repeat' split
    · simp [evOf]
    · simp [evOf]
    · rcases finishStep_obs (rd s i .alloc) i .alloc f with ⟨n, h1, _, h2⟩ | ⟨h1, h2⟩
      · simp only [h2, h1, evOf, (rd_frame _ _ _).2.2.2]; simp
      · simp only [h2, (rd_frame _ _ _).2.2.2]
        generalize (finishStep (rd s i Kind.alloc) i Kind.alloc f).2 = o at h1
        cases o <;> simp_all [evOf]
    · rcases bump_granted s i with ⟨n, h1, h2, h3⟩ | ⟨h1, h2⟩
      · simp [h1, h2, evOf, toEv, h3]
      · simp [h1, h2, evOf]
  | galloc i =>
    simp only [step]; repeat' split
    · simp [evOf]
    · simp [evOf]
    · simp [evOf, (rd_frame _ _ _).2.2.2]
    · rcases bump_granted s i with ⟨n, h1, h2, h3⟩ | ⟨h1, h2⟩
      · simp [h1, h2, evOf, toEv, h3]
      · simp [h1, h2, evOf]
  | finish i f =>
    simp only [step]; repeat' split
    · simp [evOf]
    · simp [evOf]
    · next k _ =>
      rcases finishStep_obs s i k f with ⟨n, h1, _, h2⟩ | ⟨h1, h2⟩
      · simp only [h2, h1, evOf]; simp
      · simp only [h2]
        generalize (finishStep s i k f).2 = o at h1
        cases o <;> simp_all [evOf]

theorem events_eq_granted (s : St) (ops : List Op) :
    ((run s ops).granted.map toEv).reverse = (s.granted.map toEv).reverse ++ events s ops := by
  induction ops generalizing s with
  | nil => simp [run, events]
  | cons op ops ih =>
    simp only [run, List.foldl_cons, events]
    have := ih (step s op).1
    simp only [run] at this
    rw [this, step_obs s op, List.reverse_append]
    cases (evOf (step s op).1 op (step s op).2) <;> simp

theorem nodup_reverse {α} (l : List α) : l.reverse.Nodup ↔ l.Nodup := by
  simp only [List.Nodup, List.pairwise_reverse]
  constructor <;> intro h <;> exact h.imp (fun hab => Ne.symm hab)

theorem run_step_const (s : St) (ops : List Op) : (run s ops).step = s.step := by
  induction ops generalizing s with
  | nil => rfl
  | cons op ops ih => simp only [run, List.foldl_cons]; rw [← step_step s op]; exact ih _

/-- the invariant holds in every reachable state -/
theorem inv_reachable (k : Nat) (hk : 0 < k) (ops : List Op) : Inv (run (init k) ops) := by
  suffices h : ∀ s, Inv s → 0 < s.step → Inv (run s ops) from h _ (inv_init k) hk
  induction ops with
  | nil => intro s h _; exact h
  | cons op ops ih =>
    intro s h hs
    simp only [run, List.foldl_cons]
    exact ih _ (inv_step s h hs op) (by rw [step_step]; exact hs)

/-- **C04.** For every history of the model, the observed allocations are pairwise distinct,
    increase within each instance, and none exceeds the bound that was durably stored when it
    was returned.  The only hypothesis is `0 < allocStep`. -/
theorem C04_holds (k : Nat) (hk : 0 < k) (ops : List Op) : C04.Holds (events (init k) ops) := by
  have hinv := inv_reachable k hk ops
  have he := events_eq_granted (init k) ops
  have he' : events (init k) ops = ((run (init k) ops).granted.map toEv).reverse := by
    rw [he]; simp [init]
  rw [he']
  generalize run (init k) ops = s at hinv
  refine ⟨?_, ?_, ?_⟩
  · have := hinv.nodup
    rw [← List.map_reverse, List.map_map, List.map_reverse, nodup_reverse]
    simpa [toEv, Function.comp_def] using this
  · intro i
    have := hinv.incr i
    have e : (List.filter (fun x => decide (x.inst = i)) (s.granted.map toEv).reverse).map (·.id)
        = ((s.granted.filter (·.inst = i)).map (·.id)).reverse := by
      rw [List.filter_reverse, List.filter_map, List.map_reverse, List.map_map]
      rfl
    rw [e, List.pairwise_reverse]
    exact this
  · intro e he
    simp only [List.mem_map, List.mem_reverse] at he
    obtain ⟨g, hg, rfl⟩ := he
    exact (hinv.gle g hg).2.1

/-- instantiated with the step extracted from `/repo/server/id/id.go` -/
theorem C04_holds_extracted (ops : List Op) :
    C04.Holds (events (init PdModel.Generated.IdAlloc.allocStep) ops) :=
  C04_holds _ (by decide) ops

/-- If the transaction's condition does not hold – the issuing member is not the value of the leader
    record (**non-leader cannot extend**) or the stored bound is no longer the one that was read
    (**lost race cannot extend**) – the transaction never reports success, the stored bound is
    unchanged and so is every instance's window; this holds for every fault flag. -/
theorem failed_condition_cannot_extend (s : St) (i : Nat) (x : Inst) (v : Option Nat) (k : Kind)
    (f : Fault) (hx : s.insts[i]? = some x) (hp : x.pending = some (v, k))
    (hc : s.leader ≠ x.member ∨ s.stored ≠ v) :
    (cas s i f).2 ≠ .ok ∧ (cas s i f).1.stored = s.stored ∧
    ∀ (j : Nat) (y : Inst), (cas s i f).1.insts[j]? = some y →
      ∃ y0 : Inst, s.insts[j]? = some y0 ∧ y.base = y0.base ∧ y.end_ = y0.end_ := by
  have hnc : casHolds s x v = false := by
    rcases hc with h | h <;> simp [casHolds, h]
  have hwin : ∀ (p : Option (Option Nat × Kind)) (j : Nat) (y : Inst),
      (s.insts.set i { x with pending := p })[j]? = some y →
      ∃ y0 : Inst, s.insts[j]? = some y0 ∧ y.base = y0.base ∧ y.end_ = y0.end_ := by
    intro p j y hy
    rcases set_cases _ _ _ _ _ hy with ⟨rfl, rfl⟩ | ⟨_, h2⟩
    · exact ⟨x, hx, rfl, rfl⟩
    · exact ⟨y, h2, rfl, rfl⟩
  unfold cas
  simp only [hx, hp, hnc]
  cases f <;> simp [setInst] <;> exact hwin _

theorem non_leader_cannot_extend (s : St) (i : Nat) (x : Inst) (v k f)
    (hx : s.insts[i]? = some x) (hp : x.pending = some (v, k)) (hl : s.leader ≠ x.member) :
    (cas s i f).2 ≠ .ok ∧ (cas s i f).1.stored = s.stored :=
  let h := failed_condition_cannot_extend s i x v k f hx hp (Or.inl hl); ⟨h.1, h.2.1⟩

theorem lost_race_cannot_extend (s : St) (i : Nat) (x : Inst) (v k f)
    (hx : s.insts[i]? = some x) (hp : x.pending = some (v, k)) (hl : s.stored ≠ v) :
    (cas s i f).2 ≠ .ok ∧ (cas s i f).1.stored = s.stored :=
  let h := failed_condition_cannot_extend s i x v k f hx hp (Or.inr hl); ⟨h.1, h.2.1⟩

theorem cas_bound_mono (s : St) (i f) : s.bound ≤ (cas s i f).1.bound := by
  unfold cas
  split
  · exact Nat.le_refl _
  · next x hx =>
    split
    · exact Nat.le_refl _
    · next v k hp =>
      split
      · simp [setInst, St.bound]
      · split
        · next hc =>
          have hs := (casHolds_stored s x v hc).1
          split <;> simp [setInst, St.bound, hs]
        · simp [setInst, St.bound]

theorem bump_bound (s : St) (i) : (bump s i).1.bound = s.bound := by
  unfold bump; split <;> simp [setInst, St.bound]

theorem finishStep_bound_mono (s : St) (i k f) : s.bound ≤ (finishStep s i k f).1.bound := by
  unfold finishStep
  have := cas_bound_mono s i f
  generalize cas s i f = r at this
  obtain ⟨s1, o⟩ := r
  cases o <;> cases k <;> simp_all [bump_bound]

theorem rd_bound (s : St) (i k) : (rd s i k).bound = s.bound := by
  simp [St.bound, (rd_frame s i k).1]

/-- the stored bound never decreases, whatever happens -/
theorem stored_monotone (s : St) (op : Op) : s.bound ≤ (step s op).1.bound := by
  cases op <;> simp only [step] <;> repeat' split
  all_goals first
    | exact Nat.le_refl _
    | (rw [bump_bound]; exact Nat.le_refl _)
    | (rw [rd_bound]; exact Nat.le_refl _)
    | exact finishStep_bound_mono _ _ _ _
    | (rw [← rd_bound s _ _]; exact finishStep_bound_mono _ _ _ _)

/-! Non-vacuity: a concrete history with two instances racing for the window, a lost race,
    a leader switch and a faulty transaction. -/
def demoOps : List Op :=
  [.new 1, .new 2, .leader 1, .galloc 0, .leader 2, .alloc 1 .none, .finish 0 .none,
   .leader 1, .alloc 0 .errAfter, .alloc 0 .none, .alloc 1 .none, .alloc 1 .none]

example : events (init 3) demoOps = [⟨1, 1, 3⟩, ⟨0, 7, 9⟩, ⟨1, 2, 9⟩, ⟨1, 3, 9⟩] := by decide

end PdModel.IdAlloc

namespace PdModel.IdAlloc
/-- structure obligation: `Alloc` and `Rebase` each hold the instance mutex for their whole body
    (this is what makes rd ; cas ; bump of one instance sequential in the model).  Re-checked against
    the facts regenerated from the Go source on every run. -/
theorem id_alloc_sections_locked :
    PdModel.Generated.IdAlloc.allocIsOneSection = true ∧
    PdModel.Generated.IdAlloc.rebaseIsOneSection = true := by decide
end PdModel.IdAlloc
