import PdModel.Model.Checkers
import PdModel.Lemmas.Checkers
import PdModel.Lemmas.CheckersSites
import PdModel.Spec.C10
import PdModel.Generated.Checkers
set_option linter.unusedSimpArgs false
set_option linter.unusedVariables false
/-!
C10 – property theorems.  Quantifiers: every cluster (any number of stores with any state, labels,
space, limits), every region (any peers, roles, leader, down / pending lists), every configuration,
every region fit handed to the rule checker, every pick among equally good candidates and every
answer of the operator builder (all members of the outcome lists).  Well-formedness assumed: store ids
of the cluster view are distinct and the region has at most one peer per store.
-/
namespace PdModel.Checkers
open PdModel.Spec.C10 PdModel.Filters

/-- the cluster view is a map keyed by store id; a region has one peer per store -/
structure WF (stores : List Store) (r : Region) : Prop where
  storeIds   : (stores.map (·.id)).Nodup
  peerStores : r.stores.Nodup

/-! ### the extracted tables are the ones the model was written against -/

/-- rows: leaderSource, regionSource, leaderTarget, regionTarget, scatterRegionTarget -/
def expectedCondTable : List (List Nat) :=
  [[0, 1, 3, 4], [5, 6, 8], [0, 2, 1, 3, 4, 5, 10], [0, 2, 1, 4, 5, 7, 8, 9], [0, 2, 1, 4, 5]]

theorem cond_table_as_expected : PdModel.Generated.Checkers.condTable = expectedCondTable := by decide

theorem constants_as_modelled :
    PdModel.Generated.Checkers.replicaBaseScore = 100 ∧
    PdModel.Generated.Checkers.storeDisconnectNs = 20 * 1000000000 := by decide

/-- filters every site of the two checkers that adds a peer must have in front of the chosen store -/
def requiredAddFilters : List String :=
  ["ExcludedFilter(regionStores)", "StorageThresholdFilter", "SpecialUseFilter",
   "StoreState{AllowTemporaryStates,MoveRegion}", "StoreState{MoveRegion}", "IsolationFilter"]

def addingCreators : List String :=
  ["CreateAddPeerOperator", "CreateMovePeerOperator", "CreateReplaceLeaderPeerOperator", "CreateMoveLeaderOperator"]

/-- every call site in server/schedule/checker that creates an adding operator is guarded by the
    filters `selectStoreToAdd` models, the rule checker's also by the label-constraint filter;
    and the sites are exactly the ones the model covers (a new site breaks this) -/
theorem checker_sites_guarded :
    (PdModel.Generated.Checkers.checkerSites.all (fun cs =>
      !(addingCreators.contains cs.2.1) ||
      (requiredAddFilters.all (cs.2.2.contains ·) &&
       (!(cs.1 == "server/schedule/checker/rule_checker.go:RuleChecker.addRulePeer" ||
          cs.1 == "server/schedule/checker/rule_checker.go:RuleChecker.replaceUnexpectRulePeer" ||
          cs.1 == "server/schedule/checker/rule_checker.go:RuleChecker.fixBetterLocation") ||
        cs.2.2.contains "LabelConstaintFilter")))) = true ∧
    PdModel.Generated.Checkers.checkerSites.map (fun cs => (cs.1, cs.2.1)) =
      [("server/schedule/checker/joint_state_checker.go:JointStateChecker.Check", "CreateLeaveJointStateOperator"),
       ("server/schedule/checker/learner_checker.go:LearnerChecker.Check", "CreatePromoteLearnerOperator"),
       ("server/schedule/checker/merge_checker.go:MergeChecker.Check", "CreateMergeRegionOperator"),
       ("server/schedule/checker/replica_checker.go:ReplicaChecker.checkLocationReplacement", "CreateMovePeerOperator"),
       ("server/schedule/checker/replica_checker.go:ReplicaChecker.checkMakeUpReplica", "CreateAddPeerOperator"),
       ("server/schedule/checker/replica_checker.go:ReplicaChecker.checkRemoveExtraReplica", "CreateRemovePeerOperator"),
       ("server/schedule/checker/replica_checker.go:ReplicaChecker.fixPeer", "CreateRemovePeerOperator"),
       ("server/schedule/checker/replica_checker.go:ReplicaChecker.fixPeer", "CreateMovePeerOperator"),
       ("server/schedule/checker/rule_checker.go:RuleChecker.addRulePeer", "CreateAddPeerOperator"),
       ("server/schedule/checker/rule_checker.go:RuleChecker.fixBetterLocation", "CreateMovePeerOperator"),
       ("server/schedule/checker/rule_checker.go:RuleChecker.fixLooseMatchPeer", "CreatePromoteLearnerOperator"),
       ("server/schedule/checker/rule_checker.go:RuleChecker.fixLooseMatchPeer", "CreateTransferLeaderOperator"),
       ("server/schedule/checker/rule_checker.go:RuleChecker.fixLooseMatchPeer", "CreateTransferLeaderOperator"),
       ("server/schedule/checker/rule_checker.go:RuleChecker.fixOrphanPeers", "CreateRemovePeerOperator"),
       ("server/schedule/checker/rule_checker.go:RuleChecker.fixRange", "CreateSplitRegionOperator"),
       ("server/schedule/checker/rule_checker.go:RuleChecker.replaceUnexpectRulePeer", "CreateReplaceLeaderPeerOperator"),
       ("server/schedule/checker/rule_checker.go:RuleChecker.replaceUnexpectRulePeer", "CreateMovePeerOperator")] := by
  decide

/-! ### `add_target_good` -/

/-- **add_target_good.**  Whatever `SelectStoreToAdd` returns – for every pick among the survivors –
    is a store of the cluster that is up, not down, connected, not busy, within its add limit, snapshot
    and pending-peer limits, not low on space, not a special-use store, holds no peer of the region,
    passes the isolation filter, the extra filters and the rule's label constraints. -/
theorem add_target_good (o : Opts) (stores : List Store) (r : Region) (st : Strategy) (co : List Store)
    (extra : Store → Bool) (s : Store) (h : s ∈ selectStoreToAdd o stores r st co extra) :
    s ∈ stores ∧ AddGood o r s ∧
    (st.labels.isEmpty = false → st.level ≠ "" → isolationTarget st.labels st.level co s = true) ∧
    extra s = true ∧ (∀ cs, st.constraints = some cs → matchConstraints cs s = true) :=
  mem_selectStoreToAdd h

/-- the same with an explicit choice: index `i` into the list of survivors -/
theorem add_target_good_choice (o : Opts) (stores : List Store) (r : Region) (st : Strategy) (co : List Store)
    (i : Nat) (s : Store) (h : (selectStoreToAdd o stores r st co)[i]? = some s) :
    s ∈ stores ∧ AddGood o r s :=
  let g := add_target_good o stores r st co _ s (List.mem_of_getElem? h); ⟨g.1, g.2.1⟩

/-! ### outcome lists -/

theorem forall_pickEach {P : Out → Prop} {ts : List Store} {f : Store → List Out} (hn : P none)
    (h : ∀ t ∈ ts, ∀ o ∈ f t, P o) : ∀ o ∈ pickEach ts f, P o := by
  intro o ho
  unfold pickEach at ho
  split at ho
  · simp at ho; subst ho; exact hn
  · obtain ⟨t, ht, hot⟩ := List.mem_flatMap.1 ho
    exact h t ht o hot

/-! ### ReplicaChecker -/

theorem any_storesOf {stores : List Store} {ids : List Nat} {i : Nat} {s : Store} (hi : i ∈ ids)
    (hf : findStore stores i = some s) : (storesOf stores ids).any (·.id == i) = true := by
  simp only [List.any_eq_true]
  exact ⟨s, mem_storesOf.2 ⟨i, hi, hf⟩, by simp [(findStore_id hf).1]⟩

theorem placement_replica (o : Opts) (stores : List Store) (r : Region) (steps : List Step) (co : List Store) (t : Store)
    (hsub : ∀ c ∈ coStores (replicaInput o stores r) r.stores steps, c ∈ co)
    (h : o.conf.locationLabels.isEmpty = false → o.conf.isolationLevel ≠ "" →
          isolationTarget o.conf.locationLabels o.conf.isolationLevel co t = true) :
    placementOK (replicaInput o stores r) steps t = true := by
  simp only [placementOK, replicaInput]
  exact isolationOK_of_target hsub h

theorem fixPeer_sound (o : Opts) (stores : List Store) (r : Region) (wf : WF stores r) (jc : Bool)
    (storeID : Nat) (status : String) (hs : storeID ∈ r.stores)
    (hany : (storesOf stores r.stores).any (·.id == storeID) = true) :
    ∀ out ∈ fixPeer o stores r storeID status, OutSound (replicaInput o stores r) jc out := by
  unfold fixPeer
  split
  · next hv =>
    exact outSound_mayFail (sound_remove _ jc storeID (by simpa [shrinkAllowed, replicaInput] using hv))
  · apply forall_pickEach (outSound_none _ _)
    intro t ht
    obtain ⟨hm, hg, hiso, _, _⟩ := mem_selectStoreToAdd ht
    apply outSound_mayFail
    apply sound_move (replicaInput o stores r) jc o storeID t 0 rfl wf.storeIds wf.peerStores hs hm hg
    intro steps hrm
    apply placement_replica o stores r steps _ t _ hiso
    exact coStores_sub_dropOld (replicaInput o stores r) r.stores steps storeID (by simp [hrm]) hany

theorem checkDownPeer_sound (o : Opts) (stores : List Store) (r : Region) (wf : WF stores r) (jc : Bool) :
    ∀ out ∈ checkDownPeer o stores r, OutSound (replicaInput o stores r) jc out := by
  unfold checkDownPeer
  split
  · intro out h; simp at h; subst h; exact outSound_none _ _
  · generalize r.down = l
    induction l with
    | nil => intro out h; simp [checkDownPeer.go] at h; subst h; exact outSound_none _ _
    | cons a rest ih =>
      obtain ⟨pid, secs⟩ := a
      simp only [checkDownPeer.go]
      split
      · exact ih
      · next p hp =>
        split
        · intro out h; simp at h; subst h; exact outSound_none _ _
        · next s hs =>
          split
          · exact ih
          · split
            · exact ih
            · have hpm : p ∈ r.peers := List.mem_of_find?_eq_some hp
              have hst : p.store ∈ r.stores := List.mem_map.2 ⟨p, hpm, rfl⟩
              exact fixPeer_sound o stores r wf jc p.store "down" hst (any_storesOf hst hs)

theorem checkOfflinePeer_sound (o : Opts) (stores : List Store) (r : Region) (wf : WF stores r) (jc : Bool) :
    ∀ out ∈ checkOfflinePeer o stores r, OutSound (replicaInput o stores r) jc out := by
  unfold checkOfflinePeer
  split
  · intro out h; simp at h; subst h; exact outSound_none _ _
  · split
    · intro out h; simp at h; subst h; exact outSound_none _ _
    · suffices h : ∀ l : List Peer, (∀ p ∈ l, p ∈ r.peers) →
          ∀ out ∈ checkOfflinePeer.go o stores r l, OutSound (replicaInput o stores r) jc out from
        h r.peers (fun _ hp => hp)
      intro l
      induction l with
      | nil => intro _ out h; simp [checkOfflinePeer.go] at h; subst h; exact outSound_none _ _
      | cons p rest ih =>
        intro hsub
        simp only [checkOfflinePeer.go]
        split
        · intro out h; simp at h; subst h; exact outSound_none _ _
        · next s hs =>
          split
          · exact ih (fun q hq => hsub q (List.mem_cons_of_mem _ hq))
          · have hpm : p ∈ r.peers := hsub p (List.mem_cons_self ..)
            have hst : p.store ∈ r.stores := List.mem_map.2 ⟨p, hpm, rfl⟩
            exact fixPeer_sound o stores r wf jc p.store "offline" hst (any_storesOf hst hs)

theorem checkMakeUp_sound (o : Opts) (stores : List Store) (r : Region) (wf : WF stores r) (jc : Bool) :
    ∀ out ∈ checkMakeUpReplica o stores r, OutSound (replicaInput o stores r) jc out := by
  unfold checkMakeUpReplica
  split
  · intro out h; simp at h; subst h; exact outSound_none _ _
  · split
    · intro out h; simp at h; subst h; exact outSound_none _ _
    · apply forall_pickEach (outSound_none _ _)
      intro t ht
      obtain ⟨hm, hg, hiso, _, _⟩ := mem_selectStoreToAdd ht
      apply outSound_addAccepted
      apply sound_add (replicaInput o stores r) jc o t 0 rfl wf.storeIds hm hg
      apply placement_replica o stores r _ _ t _ hiso
      intro c hc
      rw [coStores_no_remove _ _ _ (removed_add t.id 0)] at hc
      exact hc

theorem checkRemoveExtra_sound (o : Opts) (stores : List Store) (r : Region) (jc : Bool) :
    ∀ out ∈ checkRemoveExtraReplica o stores r, OutSound (replicaInput o stores r) jc out := by
  unfold checkRemoveExtraReplica
  split
  · intro out h; simp at h; subst h; exact outSound_none _ _
  · split
    · intro out h; simp at h; subst h; exact outSound_none _ _
    · next hv =>
      apply forall_pickEach (outSound_none _ _)
      intro s _
      exact outSound_mayFail (sound_remove _ jc s.id (by simpa [shrinkAllowed, replicaInput] using hv))

theorem mem_selectStoreToRemove {o : Opts} {st : Strategy} {co : List Store} {s : Store}
    (h : s ∈ selectStoreToRemove o st co) : s ∈ co := by
  unfold selectStoreToRemove at h
  simp only [List.mem_filter] at h
  exact h.1.1

theorem mem_selectStoreToImprove {o : Opts} {stores : List Store} {r : Region} {st : Strategy} {co : List Store}
    {old : Nat} {s : Store} (h : s ∈ selectStoreToImprove o stores r st co old) :
    s ∈ stores ∧ AddGood o r s ∧
    (st.labels.isEmpty = false → st.level ≠ "" → isolationTarget st.labels st.level (dropOld co old) s = true) ∧
    (∀ cs, st.constraints = some cs → matchConstraints cs s = true) := by
  unfold selectStoreToImprove at h
  split at h
  · cases h
  · obtain ⟨a, b, c, _, e⟩ := mem_selectStoreToAdd h
    exact ⟨a, b, c, e⟩

theorem checkLocation_sound (o : Opts) (stores : List Store) (r : Region) (wf : WF stores r) (jc : Bool) :
    ∀ out ∈ checkLocationReplacement o stores r, OutSound (replicaInput o stores r) jc out := by
  unfold checkLocationReplacement
  split
  · intro out h; simp at h; subst h; exact outSound_none _ _
  · apply forall_pickEach (outSound_none _ _)
    intro old hold
    have holdco := mem_selectStoreToRemove hold
    obtain ⟨i, hi, hf⟩ := mem_storesOf.1 holdco
    have hid := (findStore_id hf).1
    apply forall_pickEach (outSound_none _ _)
    intro t ht
    obtain ⟨hm, hg, hiso, _⟩ := mem_selectStoreToImprove ht
    apply outSound_mayFail
    apply sound_move (replicaInput o stores r) jc o old.id t 0 rfl wf.storeIds wf.peerStores (hid ▸ hi) hm hg
    intro steps hrm
    apply placement_replica o stores r steps _ t _ hiso
    exact coStores_sub_dropOld (replicaInput o stores r) r.stores steps old.id (by simp [hrm])
      (any_storesOf (hid ▸ hi) (hid ▸ hf))

/-- every operator the replica checker can propose is sound (all three clauses; the order clause
    for paired replacements) -/
theorem replicaCheck_sound (o : Opts) (stores : List Store) (r : Region) (wf : WF stores r) (jc : Bool) :
    ∀ out ∈ replicaCheck o stores r, OutSound (replicaInput o stores r) jc out := by
  unfold replicaCheck
  exact forall_orElse (checkDownPeer_sound o stores r wf jc) <|
    forall_orElse (checkOfflinePeer_sound o stores r wf jc) <|
    forall_orElse (checkMakeUp_sound o stores r wf jc) <|
    forall_orElse (checkRemoveExtra_sound o stores r jc) (checkLocation_sound o stores r wf jc)

/-! ### RuleChecker -/

/-- the fit only talks about peers of the region (a property of `FitRegion`, C12) -/
def FitWF (r : Region) (fit : Fit) : Prop := ∀ rf ∈ fit.ruleFits, ∀ p ∈ rf.peers, p ∈ r.peers

theorem placement_rule (o : Opts) (stores : List Store) (r : Region) (fit : Fit) (rf : RuleFit)
    (hrf : rf ∈ fit.ruleFits) (steps : List Step) (co : List Store) (t : Store)
    (hsub : ∀ c ∈ coStores (ruleInput o stores r fit) (rf.peers.map (·.store)) steps, c ∈ co)
    (hc : matchConstraints rf.rule.constraints t = true)
    (h : rf.rule.labels.isEmpty = false → rf.rule.level ≠ "" →
          isolationTarget rf.rule.labels rf.rule.level co t = true) :
    placementOK (ruleInput o stores r fit) steps t = true := by
  simp only [placementOK, ruleInput, List.any_map, List.any_eq_true, Function.comp]
  refine ⟨rf, hrf, ?_⟩
  simp only [RuleFit.view, hc, Bool.true_and]
  exact isolationOK_of_target hsub h

theorem ruleStrategy_constraints (rule : Rule) : (ruleStrategy rule).constraints = some rule.constraints := rfl

theorem addRulePeer_sound (o : Opts) (stores : List Store) (r : Region) (fit : Fit) (wf : WF stores r) (jc : Bool)
    (rf : RuleFit) (hrf : rf ∈ fit.ruleFits) :
    ∀ out ∈ addRulePeer o stores r rf, OutSound (ruleInput o stores r fit) jc out := by
  unfold addRulePeer
  apply forall_pickEach (outSound_none _ _)
  intro t ht
  obtain ⟨hm, hg, hiso, _, hcons⟩ := mem_selectStoreToAdd ht
  apply outSound_addAccepted
  apply sound_add (ruleInput o stores r fit) jc o t _ rfl wf.storeIds hm hg
  apply placement_rule o stores r fit rf hrf _ _ t _ (hcons _ (ruleStrategy_constraints _)) hiso
  intro c hc
  rw [coStores_no_remove _ _ _ (removed_add t.id _)] at hc
  exact hc

theorem replaceUnexpect_sound (o : Opts) (stores : List Store) (r : Region) (fit : Fit) (wf : WF stores r)
    (fwf : FitWF r fit) (jc : Bool) (rf : RuleFit) (hrf : rf ∈ fit.ruleFits) (p : Peer) (hp : p ∈ rf.peers)
    (s : Store) (hs : findStore stores p.store = some s) (status : String) :
    ∀ out ∈ replaceUnexpectRulePeer o stores r fit rf p status, OutSound (ruleInput o stores r fit) jc out := by
  unfold replaceUnexpectRulePeer
  have hst : p.store ∈ r.stores := List.mem_map.2 ⟨p, fwf rf hrf p hp, rfl⟩
  have hany : (storesOf stores (rf.peers.map (·.store))).any (·.id == p.store) = true :=
    any_storesOf (List.mem_map.2 ⟨p, hp, rfl⟩) hs
  apply forall_pickEach (outSound_none _ _)
  intro t ht
  obtain ⟨hm, hg, hiso, _, hcons⟩ := mem_selectStoreToAdd ht
  have hpl : ∀ steps, removedStores steps = [p.store] → placementOK (ruleInput o stores r fit) steps t = true := by
    intro steps hrm
    apply placement_rule o stores r fit rf hrf steps _ t _ (hcons _ (ruleStrategy_constraints _)) hiso
    exact coStores_sub_dropOld (ruleInput o stores r fit) _ steps p.store (by simp [hrm]) hany
  have hmove : Sound (ruleInput o stores r fit) jc (.move p.store t.id rf.rule.metaRole) :=
    sound_move (ruleInput o stores r fit) jc o p.store t _ rfl wf.storeIds wf.peerStores hst hm hg hpl
  split
  · next l _ =>
    split
    · exact outSound_mayFail
        (sound_replaceLeader (ruleInput o stores r fit) jc o p.store t _ l.store rfl wf.storeIds wf.peerStores hst hm hg hpl)
    · exact outSound_mayFail hmove
  · exact outSound_mayFail hmove

theorem isDownPeer_store {o : Opts} {stores : List Store} {r : Region} {p : Peer}
    (h : isDownPeer o stores r p = true) : ∃ s, findStore stores p.store = some s := by
  unfold isDownPeer at h
  generalize r.down = l at h
  induction l with
  | nil => simp [isDownPeer.go] at h
  | cons a rest ih =>
    obtain ⟨pid, secs⟩ := a
    simp only [isDownPeer.go] at h
    split at h
    · exact ih h
    · split at h
      · cases h
      · next s hs => exact ⟨s, hs⟩

theorem isOfflinePeer_store {stores : List Store} {p : Peer}
    (h : isOfflinePeer stores p = true) : ∃ s, findStore stores p.store = some s := by
  unfold isOfflinePeer at h
  split at h
  · cases h
  · next s hs => exact ⟨s, hs⟩

theorem fixLoose_sound (o : Opts) (stores : List Store) (r : Region) (fit : Fit) (jc : Bool) (rf : RuleFit) (p : Peer)
    (outs : List Out) (h : fixLooseMatchPeer o stores r fit rf p = some outs) :
    ∀ out ∈ outs, OutSound (ruleInput o stores r fit) jc out := by
  unfold fixLooseMatchPeer at h
  have hn : ∀ out ∈ ([none] : List Out), OutSound (ruleInput o stores r fit) jc out := by
    intro out ho; simp at ho; subst ho; exact outSound_none _ _
  split at h
  · cases h; exact outSound_mayFail (sound_promote _ jc _)
  · split at h
    · split at h
      · split at h
        · cases h
          intro out ho d req he
          simp at ho; subst ho; cases he; exact sound_crash _ jc
        · cases h; exact outSound_mayFail (sound_transfer _ jc _)
      · cases h; exact hn
    · split at h
      · split at h
        · cases h; exact outSound_mayFail (sound_transfer _ jc _)
        · cases h; exact hn
      · cases h

theorem fixBetterLocation_sound (o : Opts) (stores : List Store) (r : Region) (fit : Fit) (wf : WF stores r)
    (fwf : FitWF r fit) (jc : Bool) (rf : RuleFit) (hrf : rf ∈ fit.ruleFits) :
    ∀ out ∈ fixBetterLocation o stores r rf, OutSound (ruleInput o stores r fit) jc out := by
  unfold fixBetterLocation
  split
  · intro out h; simp at h; subst h; exact outSound_none _ _
  · apply forall_pickEach (outSound_none _ _)
    intro old hold
    have holdco := mem_selectStoreToRemove hold
    obtain ⟨i, hi, hf⟩ := mem_storesOf.1 holdco
    have hid := (findStore_id hf).1
    obtain ⟨q, hq, hqi⟩ := List.mem_map.1 hi
    have hst : old.id ∈ r.stores := by
      rw [hid, ← hqi]; exact List.mem_map.2 ⟨q, fwf rf hrf q hq, rfl⟩
    apply forall_pickEach (outSound_none _ _)
    intro t ht
    obtain ⟨hm, hg, hiso, hcons⟩ := mem_selectStoreToImprove ht
    apply outSound_mayFail
    apply sound_move (ruleInput o stores r fit) jc o old.id t _ rfl wf.storeIds wf.peerStores hst hm hg
    intro steps hrm
    apply placement_rule o stores r fit rf hrf steps _ t _ (hcons _ (ruleStrategy_constraints _)) hiso
    exact coStores_sub_dropOld (ruleInput o stores r fit) _ steps old.id (by simp [hrm])
      (any_storesOf (hid ▸ hi) (hid ▸ hf))

theorem fixRulePeer_sound (o : Opts) (stores : List Store) (r : Region) (fit : Fit) (wf : WF stores r)
    (fwf : FitWF r fit) (jc : Bool) (rf : RuleFit) (hrf : rf ∈ fit.ruleFits) :
    ∀ out ∈ fixRulePeer o stores r fit rf, OutSound (ruleInput o stores r fit) jc out := by
  unfold fixRulePeer
  split
  · exact addRulePeer_sound o stores r fit wf jc rf hrf
  · have hun : ∀ l : List Peer, (∀ p ∈ l, p ∈ rf.peers) → ∀ outs, fixRulePeer.unexpected o stores r fit rf l = some outs →
        ∀ out ∈ outs, OutSound (ruleInput o stores r fit) jc out := by
      intro l
      induction l with
      | nil => intro _ outs h; simp [fixRulePeer.unexpected] at h
      | cons p rest ih =>
        intro hsub outs h
        simp only [fixRulePeer.unexpected] at h
        have hp : p ∈ rf.peers := hsub p (List.mem_cons_self ..)
        split at h
        · next hd =>
          obtain ⟨s, hs⟩ := isDownPeer_store hd
          cases h
          exact replaceUnexpect_sound o stores r fit wf fwf jc rf hrf p hp s hs "down"
        · split at h
          · next ho =>
            obtain ⟨s, hs⟩ := isOfflinePeer_store ho
            cases h
            exact replaceUnexpect_sound o stores r fit wf fwf jc rf hrf p hp s hs "offline"
          · exact ih (fun q hq => hsub q (List.mem_cons_of_mem _ hq)) outs h
    have hlo : ∀ l : List Peer, ∀ outs, fixRulePeer.loose o stores r fit rf l = some outs →
        ∀ out ∈ outs, OutSound (ruleInput o stores r fit) jc out := by
      intro l
      induction l with
      | nil => intro outs h; simp [fixRulePeer.loose] at h
      | cons p rest ih =>
        intro outs h
        simp only [fixRulePeer.loose] at h
        split at h
        · next outs' ho => cases h; exact fixLoose_sound o stores r fit jc rf p _ ho
        · exact ih outs h
    split
    · next outs hu => exact hun rf.peers (fun _ h => h) outs hu
    · split
      · next outs hl => exact hlo rf.diffRole outs hl
      · exact fixBetterLocation_sound o stores r fit wf fwf jc rf hrf

theorem fixOrphan_sound (o : Opts) (stores : List Store) (r : Region) (fit : Fit) (jc : Bool) :
    ∀ out ∈ fixOrphanPeers fit, OutSound (ruleInput o stores r fit) jc out := by
  unfold fixOrphanPeers
  split
  · intro out h; simp at h; subst h; exact outSound_none _ _
  · next p rest hp =>
    split
    · next hsat =>
      apply outSound_mayFail
      apply sound_remove
      simp only [shrinkAllowed, ruleInput, List.all_map, removedStores, List.filterMap_cons, List.filterMap_nil,
        List.all_cons, List.all_nil, Bool.and_true, hp, List.map_cons, Bool.and_eq_true]
      refine ⟨?_, by simp⟩
      simpa [RuleFit.view, Function.comp] using hsat
    · intro out h; simp at h; subst h; exact outSound_none _ _

/-- every operator the placement-rule checker can propose is sound -/
theorem ruleCheck_sound (o : Opts) (stores : List Store) (r : Region) (fit : Fit) (wf : WF stores r)
    (fwf : FitWF r fit) (jc : Bool) :
    ∀ out ∈ ruleCheck o stores r fit, OutSound (ruleInput o stores r fit) jc out := by
  unfold ruleCheck
  split
  · exact outSound_mayFail (sound_split _ jc)
  · apply forall_orElse (fixOrphan_sound o stores r fit jc)
    suffices h : ∀ l : List RuleFit, (∀ rf ∈ l, rf ∈ fit.ruleFits) →
        ∀ out ∈ l.foldr (fun rf acc => orElse (fixRulePeer o stores r fit rf) acc) [none],
          OutSound (ruleInput o stores r fit) jc out from h fit.ruleFits (fun _ h => h)
    intro l
    induction l with
    | nil => intro _ out h; simp at h; subst h; exact outSound_none _ _
    | cons rf rest ih =>
      intro hsub
      simp only [List.foldr_cons]
      exact forall_orElse (fixRulePeer_sound o stores r fit wf fwf jc rf (hsub rf (List.mem_cons_self ..)))
        (ih (fun q hq => hsub q (List.mem_cons_of_mem _ hq)))

/-! ### CheckerController -/

theorem learnerCheck_sound (x : Input) (jc : Bool) (r : Region) :
    ∀ out ∈ learnerCheck r, OutSound x jc out := by
  unfold learnerCheck
  generalize r.learners = l
  induction l with
  | nil => intro out h; simp [learnerCheck.go] at h; subst h; exact outSound_none _ _
  | cons p rest ih =>
    simp only [learnerCheck.go]
    split
    · exact ih
    · exact forall_orElse (outSound_mayFail (sound_promote _ jc _)) ih

/-- what `CheckerController.CheckRegion` proposes is sound as well (both modes) -/
theorem controllerCheck_sound (o : Opts) (stores : List Store) (r : Region) (fit : Fit) (wf : WF stores r)
    (fwf : FitWF r fit) (jc : Bool) :
    (∀ out ∈ controllerCheck o false stores r fit, OutSound (replicaInput o stores r) jc out) ∧
    (∀ out ∈ controllerCheck o true stores r fit, OutSound (ruleInput o stores r fit) jc out) := by
  have hj : ∀ x : Input, ∀ out ∈ (if r.peers.any (·.inJoint) then mayFail ("leave-joint-state", Req.split) else [none]),
      OutSound x jc out := by
    intro x
    split
    · exact outSound_mayFail (sound_split _ jc)
    · intro out h; simp at h; subst h; exact outSound_none _ _
  constructor
  · unfold controllerCheck
    apply forall_orElse (hj _)
    simp only [Bool.false_eq_true, if_false]
    exact forall_orElse (learnerCheck_sound _ jc r) (replicaCheck_sound o stores r wf jc)
  · unfold controllerCheck
    apply forall_orElse (hj _)
    simp only [if_true]
    exact ruleCheck_sound o stores r fit wf fwf jc

/-! ### the property theorems -/

/-- **repair_adds_only_good_targets.**  Every operator either checker can propose adds peers only on
    stores that are up, not down, connected, not low on space, hold no peer of the region and are
    allowed by the isolation level and label constraints in force (`Spec.C10.goodTarget`). -/
theorem repair_adds_only_good_targets (o : Opts) (stores : List Store) (r : Region) (wf : WF stores r) (jc : Bool) :
    (∀ out ∈ replicaCheck o stores r, ∀ d req, out = some (d, req) →
      ∀ t ∈ addedStores (req.toSteps jc r), goodTarget (replicaInput o stores r) (req.toSteps jc r) t = true) ∧
    (∀ fit, FitWF r fit → ∀ out ∈ ruleCheck o stores r fit, ∀ d req, out = some (d, req) →
      ∀ t ∈ addedStores (req.toSteps jc r), goodTarget (ruleInput o stores r fit) (req.toSteps jc r) t = true) :=
  ⟨fun out ho d req he => (replicaCheck_sound o stores r wf jc out ho d req he).adds,
   fun fit fwf out ho d req he => (ruleCheck_sound o stores r fit wf fwf jc out ho d req he).adds⟩

/-- **shrink_only_when_allowed.**  A proposed operator leaves the region with fewer peers, or fewer
    healthy peers, only when the region has more voters than max-replicas (replica checker) or every
    matched rule is satisfied and the removed peer is an orphan (rule checker). -/
theorem shrink_only_when_allowed (o : Opts) (stores : List Store) (r : Region) (wf : WF stores r) (jc : Bool) :
    (∀ out ∈ replicaCheck o stores r, ∀ d req, out = some (d, req) →
      ((applySteps r (req.toSteps jc r)).peers.length < r.peers.length ∨
       (applySteps r (req.toSteps jc r)).healthy.length < r.healthy.length) →
      r.voters.length > o.conf.maxReplicas) ∧
    (∀ fit, FitWF r fit → ∀ out ∈ ruleCheck o stores r fit, ∀ d req, out = some (d, req) →
      ((applySteps r (req.toSteps jc r)).peers.length < r.peers.length ∨
       (applySteps r (req.toSteps jc r)).healthy.length < r.healthy.length) →
      fit.ruleFits.all (·.satisfied) = true ∧
      ∀ s ∈ removedStores (req.toSteps jc r), s ∈ fit.orphans.map (·.store)) := by
  constructor
  · intro out ho d req he h
    have := (replicaCheck_sound o stores r wf jc out ho d req he).shrink h
    simpa [shrinkAllowed, replicaInput] using this
  · intro fit fwf out ho d req he h
    have := (ruleCheck_sound o stores r fit wf fwf jc out ho d req he).shrink h
    simp only [shrinkAllowed, ruleInput, List.all_map, Bool.and_eq_true, List.all_eq_true] at this
    refine ⟨?_, ?_⟩
    · simp only [List.all_eq_true]
      intro rf hrf; simpa [RuleFit.view, Function.comp] using this.1 rf hrf
    · intro s hs; simpa using this.2 s hs

/-- **C10 for proposed operators, partial**: all three clauses of `Spec.C10.Holds`, for every operator
    whose replacement the builder can pair (replaced and new peer both learners or both not) or builds
    with joint consensus.  The excluded class is a genuine defect of the pinned code, see
    `replace_order_counterexample`. -/
theorem C10_holds_partial (o : Opts) (stores : List Store) (r : Region) (wf : WF stores r) (jc : Bool) :
    (∀ out ∈ replicaCheck o stores r, ∀ d req, out = some (d, req) → req.paired jc r = true →
      Holds (replicaInput o stores r) (req.toSteps jc r)) ∧
    (∀ fit, FitWF r fit → ∀ out ∈ ruleCheck o stores r fit, ∀ d req, out = some (d, req) →
      req.paired jc r = true → Holds (ruleInput o stores r fit) (req.toSteps jc r)) :=
  ⟨fun out ho d req he hp =>
      let s := replicaCheck_sound o stores r wf jc out ho d req he; ⟨s.adds, s.shrink, s.order hp⟩,
   fun fit fwf out ho d req he hp =>
      let s := ruleCheck_sound o stores r fit wf fwf jc out ho d req he; ⟨s.adds, s.shrink, s.order hp⟩⟩

/-- **replace_is_add_then_remove, partial.**  In a replacement the new peer is added before the old one
    is removed whenever joint consensus is in use or the two peers are of the same kind. -/
theorem replace_is_add_then_remove_partial (jc : Bool) (r : Region) (o n role : Nat)
    (h : (Req.move o n role).paired jc r = true) :
    (Req.move o n role).toSteps jc r = [.add n role, .remove o] := by
  simp only [Req.paired] at h
  simp [Req.toSteps, h]

/-! The defect (finding F19): without joint consensus, a replica-checker replacement of a *learner*
    asks for a *voter* (`newPeer := &metapb.Peer{StoreId: target}`), the builder cannot pair the two
    and emits the removal first.  Witness: stores 1–3 hold the region (3 = learner, worst isolated),
    store 4 is a better place; max-replicas 3, location label `zone`. -/
def f14Store (id : Nat) (zone : String) : Store :=
  { id := id, labels := [("zone", zone)], capacity := 1024, available := 1000 }

def f14Stores : List Store := [f14Store 1 "z1", f14Store 2 "z2", f14Store 3 "z1", f14Store 4 "z3"]

def f14Region : Region :=
  { peers := [{ id := 101, store := 1, role := 0 }, { id := 102, store := 2, role := 0 }, { id := 103, store := 3, role := 1 }], leader := 101 }

def f14Opts : Opts := { conf := { maxReplicas := 3, locationLabels := ["zone"] } }

theorem replace_order_counterexample :
    some ("move-to-better-location", Req.move 3 4 0) ∈ replicaCheck f14Opts f14Stores f14Region ∧
    ¬ Holds (replicaInput f14Opts f14Stores f14Region) ((Req.move 3 4 0).toSteps false f14Region) := by
  constructor
  · decide
  · rw [← check_iff]; decide

/-! ### liveness -/

theorem allSome_orElse_left {a b : List Out} (ha : ∀ x ∈ a, x.isSome = true) :
    ∀ x ∈ orElse a b, x.isSome = true := by
  intro x hx
  rcases mem_orElse hx with h | h
  · exact h.2
  · -- `b` is only reached through a `none` of `a`
    unfold orElse at hx
    obtain ⟨o, ho, _⟩ := List.mem_flatMap.1 hx
    have := ha o ho
    cases o with
    | none => cases this
    | some v => simp at hx; rename_i hx'; simp at hx'; subst hx'; rfl

theorem allSome_orElse_right {a b : List Out} (hb : ∀ x ∈ b, x.isSome = true) :
    ∀ x ∈ orElse a b, x.isSome = true := by
  intro x hx
  rcases mem_orElse hx with h | h
  · exact h.2
  · exact hb x h

theorem le_foldl_max (f : Store → Nat) (l : List Store) (m : Nat) :
    m ≤ l.foldl (fun m s => max m (f s)) m ∧ ∀ s ∈ l, f s ≤ l.foldl (fun m s => max m (f s)) m := by
  induction l generalizing m with
  | nil => simp
  | cons a t ih =>
    simp only [List.foldl_cons]
    obtain ⟨h1, h2⟩ := ih (max m (f a))
    refine ⟨by omega, ?_⟩
    intro s hs
    rcases List.mem_cons.1 hs with rfl | hs'
    · omega
    · exact h2 s hs'

theorem foldl_max_le (f : Store → Nat) (l : List Store) (m b : Nat) (hm : m ≤ b) (h : ∀ s ∈ l, f s ≤ b) :
    l.foldl (fun m s => max m (f s)) m ≤ b := by
  induction l generalizing m with
  | nil => simpa
  | cons a t ih =>
    simp only [List.foldl_cons]
    apply ih
    · have := h a (List.mem_cons_self ..); omega
    · intro s hs; exact h s (List.mem_cons_of_mem _ hs)

/-- a fresh store that nothing outranks in isolation and that passes the first-stage filters is one
    of the stores `SelectStoreToAdd` may return -/
theorem fresh_selected (o : Opts) (stores : List Store) (r : Region) (st : Strategy) (co : List Store) (s : Store)
    (hm : s ∈ stores) (hf : s.fresh o.conf = true) (hex : r.stores.contains s.id = false)
    (hbest : ∀ s' ∈ stores, distinctScore st.labels co s' ≤ distinctScore st.labels co s)
    (hiso : isolationDue st.labels st.level co s = true)
    (hcons : ∀ cs, st.constraints = some cs → matchConstraints cs s = true) :
    s ∈ selectStoreToAdd o stores r st co := by
  simp only [Store.fresh, Bool.and_eq_true, Bool.not_eq_true', beq_iff_eq, List.all_eq_true, bne_iff_ne, ne_eq,
    Store.isUp, Store.notDown, Store.connected, decide_eq_true_eq] at hf
  obtain ⟨⟨⟨⟨⟨⟨⟨⟨⟨⟨h0, h1⟩, h2⟩, h3⟩, h4⟩, h5⟩, h6⟩, h7⟩, _⟩, h9⟩, h10⟩ := hf
  have hsu : specialUseTarget [] s = true := by
    have : s.label "specialUse" = "" := by
      unfold Store.label
      split
      · next kv hkv =>
        have hk : foldEq kv.1 "specialUse" = true :=
          List.find?_some (p := fun kv : String × String => foldEq kv.1 "specialUse") hkv
        have hmem := List.mem_of_find?_eq_some hkv
        have := h10 kv hmem
        simp [hk] at this
      · rfl
    simp [specialUseTarget, specialUseConstraint, Constraint.matches, this]
  have hisoT : (if !st.labels.isEmpty && st.level != "" then isolationTarget st.labels st.level co s else true) = true := by
    unfold isolationDue at hiso
    by_cases hl : st.labels.isEmpty = true
    · simp [hl]
    · by_cases hv : st.level = ""
      · simp [hv]
      · have hl' : st.labels.isEmpty = false := by simpa using hl
        simp only [hl', Bool.false_or, beq_iff_eq, hv, if_false, Bool.false_eq_true] at hiso
        simp only [hl', Bool.not_false, Bool.true_and, bne_iff_ne, ne_eq, hv, not_false_eq_true, decide_true, if_true]
        split at hiso
        · cases hiso
        · next n hn => simpa [isolationTarget, levelIdx_eq hn] using hiso
  have hadd : addFilters o r st co (fun _ => true) s = true := by
    have hex' : ¬ s.id ∈ r.stores := by simpa using hex
    unfold addFilters
    rw [hisoT]
    cases hc : st.constraints with
    | none =>
      simp [excludedTarget, hex', storageTarget, h9, hsu, regionTarget_strict_of o s h0 h1 h2 h3 h4 h5 h6 h7 true]
    | some cs =>
      simp [excludedTarget, hex', storageTarget, h9, hsu, regionTarget_strict_of o s h0 h1 h2 h3 h4 h5 h6 h7 true,
        constraintTarget, hcons cs hc]
  have hc1 : s ∈ stores.filter (addFilters o r st co (fun _ => true)) := List.mem_filter.2 ⟨hm, hadd⟩
  unfold selectStoreToAdd
  simp only [List.mem_filter]
  refine ⟨⟨⟨hm, hadd⟩, ?_⟩, regionTarget_strict_of o s h0 h1 h2 h3 h4 h5 h6 h7 false⟩
  simp only [beq_iff_eq, maxScore]
  apply Nat.le_antisymm
  · exact (le_foldl_max _ _ 0).2 s hc1
  · apply foldl_max_le _ _ _ _ (Nat.zero_le _)
    intro s' hs'
    exact hbest s' (List.mem_filter.1 hs').1

theorem coStores_nil (x : Input) (ids : List Nat) : coStores x ids [] = storesOf x.stores ids :=
  coStores_no_remove x ids [] rfl

theorem operable_accepts {r : Region} (h : r.operable = true) (x : String × Req) :
    addAccepted r x = [some x] := by
  unfold Region.operable at h
  simp only [Bool.and_eq_true, List.all_eq_true, Bool.not_eq_true', decide_eq_true_eq] at h
  unfold addAccepted
  split
  · next hl => simp [hl] at h
  · next l hl =>
    simp only [hl, beq_iff_eq] at h
    have : r.peers.any (·.inJoint) = false := by
      simp only [List.any_eq_false]
      intro p hp; simp [h.1.2 p hp]
    simp [this, h.1.1, h.2]

theorem allSome_pickEach {ts : List Store} {f : Store → List Out} (hne : ts ≠ [])
    (h : ∀ t ∈ ts, ∀ o ∈ f t, o.isSome = true) : ∀ o ∈ pickEach ts f, o.isSome = true := by
  intro o ho
  unfold pickEach at ho
  split at ho
  · next he => simp at he; exact absurd he hne
  · obtain ⟨t, ht, hot⟩ := List.mem_flatMap.1 ho
    exact h t ht o hot

/-- **repair_liveness.**  If the region can be operated on, has fewer peers than required and a fresh,
    empty up store exists that the placement demands allow and no store outranks in isolation, then
    every run of the checker proposes an operator – whatever is picked along the way. -/
theorem repair_liveness (o : Opts) (stores : List Store) (r : Region) :
    (repairDue (replicaInput o stores r) = true → ∀ out ∈ replicaCheck o stores r, out.isSome = true) ∧
    (∀ fit, repairDue (ruleInput o stores r fit) = true → ∀ out ∈ ruleCheck o stores r fit, out.isSome = true) := by
  constructor
  · intro h
    simp only [repairDue, replicaInput, Bool.and_eq_true, decide_eq_true_eq, List.any_eq_true, freshBest,
      List.all_eq_true, Bool.not_eq_true'] at h
    obtain ⟨hop, ⟨hmk, hlt⟩, s, hs, ⟨⟨hf, hex⟩, hbest⟩, hiso⟩ := h
    simp only [coStores_nil] at hbest hiso
    have hlt := of_decide_eq_true hlt
    have hsel := fresh_selected o stores r (replicaStrategy o) (storesOf stores r.stores) s hs hf hex
      (fun s' hs' => of_decide_eq_true (hbest s' hs')) hiso (by intro cs hc; cases hc)
    unfold replicaCheck
    apply allSome_orElse_right; apply allSome_orElse_right; apply allSome_orElse_left
    unfold checkMakeUpReplica
    simp only [hmk, Bool.not_true, Bool.false_eq_true, if_false, ge_iff_le, Nat.not_le.2 hlt]
    apply allSome_pickEach (List.ne_nil_of_mem hsel)
    intro t _ out ho
    rw [operable_accepts hop] at ho
    simp at ho; subst ho; rfl
  · intro fit h
    simp only [repairDue, ruleInput, Bool.and_eq_true, decide_eq_true_eq, List.any_eq_true, freshBest,
      List.all_eq_true, Bool.not_eq_true', List.mem_map] at h
    obtain ⟨hop, rv, ⟨rf, hrf, rfl⟩, hlt, s, hs, ⟨⟨⟨hf, hex⟩, hbest⟩, hcons⟩, hiso⟩ := h
    simp only [RuleFit.view, coStores_nil] at hbest hiso hcons hlt
    have hsel := fresh_selected o stores r (ruleStrategy rf.rule) (ruleStores stores rf) s hs hf hex
      (fun s' hs' => of_decide_eq_true (hbest s' hs')) hiso (by intro cs hc; cases hc; exact hcons)
    have hne : fit.ruleFits.isEmpty = false := by
      cases hfit : fit.ruleFits with
      | nil => rw [hfit] at hrf; cases hrf
      | cons _ _ => rfl
    unfold ruleCheck
    simp only [hne, Bool.false_eq_true, if_false]
    apply allSome_orElse_right
    suffices h : ∀ l : List RuleFit, rf ∈ l →
        ∀ out ∈ l.foldr (fun rf acc => orElse (fixRulePeer o stores r fit rf) acc) [none], out.isSome = true from
      h fit.ruleFits hrf
    intro l
    induction l with
    | nil => intro h; cases h
    | cons a rest ih =>
      intro hmem
      simp only [List.foldr_cons]
      rcases List.mem_cons.1 hmem with rfl | hmem'
      · apply allSome_orElse_left
        unfold fixRulePeer
        simp only [List.length_map] at hlt
        simp only [hlt, if_true]
        unfold addRulePeer
        apply allSome_pickEach (List.ne_nil_of_mem hsel)
        intro t _ out ho
        rw [operable_accepts hop] at ho
        simp at ho; subst ho; rfl
      · exact allSome_orElse_right (ih hmem')

/-- non-vacuity: a cluster on which both checkers have something to do -/
example : replicaCheck f14Opts f14Stores { f14Region with peers := [{ id := 101, store := 1, role := 0 }, { id := 102, store := 2, role := 0 }] }
    = [some ("make-up-replica", Req.add 4 0)] := by decide

end PdModel.Checkers
