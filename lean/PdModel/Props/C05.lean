import PdModel.Model.TsoGlobal
import PdModel.Lemmas.TsoGlobal
import PdModel.Spec.C05
import PdModel.Generated.TsoGlobal
set_option linter.unusedSimpArgs false
set_option linter.unusedVariables false
/-!
C05 – property theorems.
Quantifiers: any number of dcs and any placement of their allocator leaders on servers; any
interleaving of local requests (any counts), forward moves of every memory (window updates, syncs after
an allocator-leader change, SetTSO) and the steps of global requests (any counts, any estimate offset),
including aborted attempts; no bound on the history.
-/
namespace PdModel.TsoGlobal
open PdModel.Spec

/-! ### suffix arithmetic -/

theorem differentiate_lt (a b : TS) (k sa sb : Nat) (h : tsLt a b) (hsa : sa < 2 ^ k) :
    a.1 < b.1 ∨ (a.1 = b.1 ∧ differentiate a.2 k sa < differentiate b.2 k sb) := by
  rcases h with h | ⟨h1, h2⟩
  · exact Or.inl h
  · right; refine ⟨h1, ?_⟩
    unfold differentiate
    have : (a.2 + 1) * 2 ^ k ≤ b.2 * 2 ^ k := Nat.mul_le_mul_right _ h2
    have h3 : (a.2 + 1) * 2 ^ k = a.2 * 2 ^ k + 2 ^ k := by rw [Nat.add_mul, Nat.one_mul]
    omega

theorem differentiate_injective (r r' k s s' : Nat) (hs : s < 2 ^ k) (hs' : s' < 2 ^ k)
    (h : differentiate r k s = differentiate r' k s') : r = r' ∧ s = s' := by
  unfold differentiate at h
  have hpos : 0 < 2 ^ k := Nat.pos_of_ne_zero (by
    intro h0; rw [h0] at hs; omega)
  have h1 : (r * 2 ^ k + s) / 2 ^ k = r := by
    rw [Nat.mul_comm, Nat.mul_add_div hpos, Nat.div_eq_of_lt hs]; rfl
  have h2 : (r' * 2 ^ k + s') / 2 ^ k = r' := by
    rw [Nat.mul_comm, Nat.mul_add_div hpos, Nat.div_eq_of_lt hs']; rfl
  have hr : r = r' := by rw [← h1, ← h2, h]
  subst hr
  exact ⟨rfl, by omega⟩

theorem differentiate_mod (r k s : Nat) (hs : s < 2 ^ k) : differentiate r k s % 2 ^ k = s := by
  unfold differentiate
  rw [Nat.mul_comm, Nat.mul_add_mod, Nat.mod_eq_of_lt hs]

/-- the integer meaning of the width computation: `2^bits ≥ n` -/
theorem clog2_spec (n : Nat) : n ≤ 2 ^ clog2 n := by
  unfold clog2
  split
  · next h => simp; omega
  · next h =>
    have := @Nat.lt_log2_self (n - 1)
    omega

/-- **the reported width fits every suffix in use** -/
theorem width_fits (maxSuffix s : Nat) (h : s ≤ maxSuffix) : s < 2 ^ calSuffixBits maxSuffix := by
  have := clog2_spec (maxSuffix + 1)
  unfold calSuffixBits; omega

/-- the width never exceeds the configured maximum as long as the number of dcs respects the limit
    enforced by `checkDCLocationUpperLimit` -/
theorem width_le_max (maxSuffix : Nat) (h : maxSuffix ≤ 2 ^ PdModel.Generated.TsoGlobal.maxSuffixBits - 1) :
    calSuffixBits maxSuffix ≤ PdModel.Generated.TsoGlobal.maxSuffixBits := by
  have h15 : maxSuffix ≤ 15 := by
    have : (2 : Nat) ^ PdModel.Generated.TsoGlobal.maxSuffixBits - 1 = 15 := by decide
    omega
  have : ∀ m, m ≤ 15 → calSuffixBits m ≤ 4 := by decide
  have h4 : PdModel.Generated.TsoGlobal.maxSuffixBits = 4 := by decide
  rw [h4]; exact this _ h15

/-! ### the protocol -/

theorem inv_of_init (st : St) (hwf : WF st) (he : st.events = []) (hr : st.req = none) : Inv st := by
  refine ⟨hwf, ?_, ?_, ?_, ?_, ?_, ?_, ?_, ?_, ?_, ?_⟩ <;> simp [he, hr]

theorem inv_run (st : St) (h : Inv st) (ops : List Op) : Inv (run st ops) := by
  induction ops generalizing st with
  | nil => exact h
  | cons op ops ih => exact ih _ (inv_step st h op)

theorem step_static (st : St) (op : Op) : (step st op).bits = st.bits := by
  unfold step tick
  cases op <;> simp only <;> repeat' split
  all_goals simp

theorem run_static (st : St) (ops : List Op) : (run st ops).bits = st.bits := by
  induction ops generalizing st with
  | nil => rfl
  | cons op ops ih =>
    have h1 := ih (step st op)
    have h2 := step_static st op
    simp only [run, List.foldl_cons] at h1 ⊢
    exact h1.trans h2

/-- a suffix table as the cluster uses it: 0 for the global allocator, pairwise distinct positive
    suffixes below `2^bits` for the dcs -/
structure SuffixTable (st : St) (sfx : Nat → Nat) : Prop where
  glob0 : sfx 0 = 0
  pos   : ∀ d ∈ st.dcs, 1 ≤ sfx d ∧ sfx d < 2 ^ st.bits
  inj   : ∀ d ∈ st.dcs, ∀ d' ∈ st.dcs, sfx d = sfx d' → d = d'

/-- what a client sees of a model event: the logical part carries the allocator's suffix -/
def toObs (bits : Nat) (sfx : Nat → Nat) (e : Ev) : C05.Ev :=
  ⟨e.alloc, e.ts.1, differentiate e.ts.2 bits (sfx e.alloc), e.start, e.finish⟩

theorem pairwise_mem_cases {α} {R : α → α → Prop} {l : List α} (h : l.Pairwise R) {a b : α}
    (ha : a ∈ l) (hb : b ∈ l) : a = b ∨ R a b ∨ R b a := by
  induction l with
  | nil => cases ha
  | cons x xs ih =>
    simp only [List.pairwise_cons] at h
    simp only [List.mem_cons] at ha hb
    rcases ha with rfl | ha <;> rcases hb with rfl | hb
    · exact Or.inl rfl
    · exact Or.inr (Or.inl (h.1 b hb))
    · exact Or.inr (Or.inr (h.1 a ha))
    · exact ih h.2 ha hb

/-- **C05 (a)–(c).**  For every history of the model and every valid suffix table: timestamps of
    different allocators differ; a global timestamp is larger than every local one whose request
    completed before the global request began; every local timestamp requested after a global one was
    returned is larger than it; global timestamps are pairwise distinct and ordered by real time. -/
theorem C05_holds (st0 : St) (hwf : WF st0) (he : st0.events = []) (hr : st0.req = none)
    (sfx : Nat → Nat) (ops : List Op) (hs : SuffixTable (run st0 ops) sfx) :
    C05.Holds ((run st0 ops).events.map (toObs st0.bits sfx)) := by
  have hinv := inv_run st0 (inv_of_init st0 hwf he hr) ops
  have hbits := run_static st0 ops
  generalize run st0 ops = st at hinv hbits hs
  have hsfx_lt : ∀ e ∈ st.events, sfx e.alloc < 2 ^ st0.bits := by
    intro e hem
    rcases hinv.iA e hem with h0 | hd
    · rw [h0, hs.glob0]; exact Nat.pos_of_ne_zero (by simp)
    · exact hbits ▸ (hs.pos _ hd).2
  refine ⟨?_, ?_, ?_, ?_⟩
  · -- (a)
    intro a ha b hb hne
    simp only [List.mem_map] at ha hb
    obtain ⟨x, hx, rfl⟩ := ha
    obtain ⟨y, hy, rfl⟩ := hb
    simp only [toObs] at hne ⊢
    rintro ⟨_, hlog⟩
    have := (differentiate_injective _ _ _ _ _ (hsfx_lt x hx) (hsfx_lt y hy) hlog).2
    rcases hinv.iA x hx with hx0 | hxd <;> rcases hinv.iA y hy with hy0 | hyd
    · exact hne (hx0.trans hy0.symm)
    · rw [hx0, hs.glob0] at this; have := (hs.pos _ hyd).1; omega
    · rw [hy0, hs.glob0] at this; have := (hs.pos _ hxd).1; omega
    · exact hne (hs.inj _ hxd _ hyd this)
  · -- (b)
    intro g hg hg0 l hl hl0 hlt
    simp only [List.mem_map] at hg hl
    obtain ⟨x, hx, rfl⟩ := hg
    obtain ⟨y, hy, rfl⟩ := hl
    simp only [toObs] at hg0 hl0 hlt ⊢
    have hyd : y.alloc ∈ st.dcs := by
      rcases hinv.iA y hy with h0 | hd
      · exact absurd h0 hl0
      · exact hd
    exact differentiate_lt _ _ _ _ _ (hinv.gl x hx hg0 y hy hyd hlt) (hsfx_lt y hy)
  · -- (c)
    intro g hg hg0 l hl hl0 hlt
    simp only [List.mem_map] at hg hl
    obtain ⟨x, hx, rfl⟩ := hg
    obtain ⟨y, hy, rfl⟩ := hl
    simp only [toObs] at hg0 hl0 hlt ⊢
    have hyd : y.alloc ∈ st.dcs := by
      rcases hinv.iA y hy with h0 | hd
      · exact absurd h0 hl0
      · exact hd
    exact differentiate_lt _ _ _ _ _ (hinv.lg x hx hg0 y hy hyd hlt) (hsfx_lt x hx)
  · -- global timestamps among themselves
    intro g hg hg0 g' hg' hg0' hlt
    simp only [List.mem_map] at hg hg'
    obtain ⟨x, hx, rfl⟩ := hg
    obtain ⟨y, hy, rfl⟩ := hg'
    simp only [toObs] at hg0 hg0' hlt ⊢
    have hfin : x.finish < y.finish := by have := (hinv.iT y hy).2; omega
    have hboth := hinv.ord.and hinv.gg
    have hlt' : tsLt x.ts y.ts := by
      rcases pairwise_mem_cases hboth hx hy with rfl | ⟨h1, _⟩ | ⟨_, h2⟩
      · omega
      · omega
      · exact h2 hg0' hg0
    exact differentiate_lt _ _ _ _ _ hlt' (hsfx_lt x hx)

/-! ### (d) suffix assignment -/

theorem le_maxSfx_foldl (t : List (Nat × Nat)) (a : Nat) :
    a ≤ t.foldl (fun a p => max a p.2) a ∧ ∀ p ∈ t, p.2 ≤ t.foldl (fun a p => max a p.2) a := by
  induction t generalizing a with
  | nil => exact ⟨Nat.le_refl _, fun p hp => (by cases hp)⟩
  | cons x xs ih =>
    simp only [List.foldl_cons]
    obtain ⟨h1, h2⟩ := ih (max a x.2)
    refine ⟨by omega, ?_⟩
    intro p hp
    simp only [List.mem_cons] at hp
    rcases hp with rfl | hp
    · omega
    · exact h2 p hp

theorem le_maxSfx (t : List (Nat × Nat)) : ∀ p ∈ t, p.2 ≤ maxSfx t :=
  (le_maxSfx_foldl t 0).2

structure SfxInv (s : SfxSt) : Prop where
  keys : (s.table.map (·.1)).Nodup
  vals : (s.table.map (·.2)).Nodup
  pos  : ∀ p ∈ s.table, 1 ≤ p.2
  lp   : ∀ m dc v, s.leader = m → s.pend m = some (dc, v) → 1 ≤ v ∧ ∀ p ∈ s.table, p.2 < v

theorem find_none_not_mem (t : List (Nat × Nat)) (dc : Nat)
    (h : (t.find? (·.1 = dc)).isNone = true) : dc ∉ t.map (·.1) := by
  intro hm
  obtain ⟨p, hp, hpe⟩ := List.mem_map.1 hm
  rw [Option.isNone_iff_eq_none, List.find?_eq_none] at h
  have := h p hp
  simp [hpe] at this

theorem sfxInv_step (s : SfxSt) (hg : s.guarded = true) (h : SfxInv s) (op : SfxOp) :
    SfxInv (sfxStep s op) ∧ (sfxStep s op).guarded = true := by
  cases op with
  | lead m =>
    refine ⟨⟨h.keys, h.vals, h.pos, ?_⟩, hg⟩
    intro m' dc v hl hp
    simp only [sfxStep] at hl hp
    subst hl; simp at hp
  | read m dc =>
    simp only [sfxStep]
    split
    · exact ⟨h, hg⟩
    · refine ⟨⟨h.keys, h.vals, h.pos, ?_⟩, hg⟩
      intro m' dc' v hl hp
      simp only at hl hp
      by_cases hm : m' = m
      · subst hm
        simp only [if_pos, Option.some.injEq, Prod.mk.injEq] at hp
        obtain ⟨_, rfl⟩ := hp
        exact ⟨by omega, fun p hpm => by have := le_maxSfx s.table p hpm; omega⟩
      · simp only [if_neg hm] at hp
        exact h.lp m' dc' v hl hp
  | commit m =>
    simp only [sfxStep]
    split
    · exact ⟨h, hg⟩
    · next dc v hpend =>
      split
      · next hc =>
        obtain ⟨hl, hnone⟩ := hc
        have hlm := hl hg
        obtain ⟨hv1, hvlt⟩ := h.lp m dc v hlm hpend
        refine ⟨⟨?_, ?_, ?_, ?_⟩, hg⟩
        · simp only [List.map_cons, List.nodup_cons]
          exact ⟨find_none_not_mem s.table dc hnone, h.keys⟩
        · simp only [List.map_cons, List.nodup_cons]
          refine ⟨?_, h.vals⟩
          intro hm
          obtain ⟨p, hp, hpe⟩ := List.mem_map.1 hm
          have := hvlt p hp; omega
        · intro p hp
          simp only [List.mem_cons] at hp
          rcases hp with rfl | hp
          · exact hv1
          · exact h.pos p hp
        · intro m' dc' v' hl' hp'
          simp only at hl' hp'
          have : m' = m := hl'.symm.trans hlm
          subst this
          simp at hp'
      · refine ⟨⟨h.keys, h.vals, h.pos, ?_⟩, hg⟩
        intro m' dc' v' hl' hp'
        simp only at hl' hp'
        by_cases hm : m' = m
        · subst hm; simp at hp'
        · simp only [if_neg hm] at hp'
          exact h.lp m' dc' v' hl' hp'

/-- **a dc keeps its suffix, no two dcs share one** – for every history of leader changes, reads and
    (leader-guarded) create transactions of any number of members -/
theorem suffix_stable_unique (ops : List SfxOp) :
    let s := sfxRun { guarded := true } ops
    (s.table.map (·.1)).Nodup ∧ (s.table.map (·.2)).Nodup ∧ ∀ p ∈ s.table, 1 ≤ p.2 := by
  intro s
  suffices h : ∀ s0 : SfxSt, s0.guarded = true → SfxInv s0 → SfxInv (sfxRun s0 ops) by
    have := h { guarded := true } rfl ⟨by simp, by simp, by simp, by simp⟩
    exact ⟨this.keys, this.vals, this.pos⟩
  induction ops with
  | nil => intro s0 _ h; exact h
  | cons op ops ih =>
    intro s0 hg h
    obtain ⟨h1, hg1⟩ := sfxInv_step s0 hg h op
    exact ih _ hg1 h1

/-- the table only grows at the front: an assigned suffix is never changed -/
theorem suffix_never_changes (s : SfxSt) (op : SfxOp) : ∃ l, (sfxStep s op).table = l ++ s.table := by
  cases op with
  | lead m => exact ⟨[], rfl⟩
  | read m dc => simp only [sfxStep]; split <;> exact ⟨[], rfl⟩
  | commit m =>
    simp only [sfxStep]
    split
    · exact ⟨[], rfl⟩
    · split
      · exact ⟨[_], rfl⟩
      · exact ⟨[], rfl⟩

/-- without the leader comparison (pinned tree, F17): a deposed leader whose create transaction was
    prepared before the hand-over and the new leader both take `max + 1` for different dcs -/
theorem suffix_counterexample_unguarded :
    (sfxRun { guarded := false } [.lead 1, .read 1 7, .lead 2, .read 2 8, .commit 1, .commit 2]).table
      = [(8, 1), (7, 1)] := by decide

/-- with the comparison the deposed leader's transaction is refused -/
example : (sfxRun { guarded := true } [.lead 1, .read 1 7, .lead 2, .read 2 8, .commit 1, .commit 2, .read 2 7, .commit 2]).table
      = [(7, 2), (8, 1)] := by decide

/-! ### why global requests must be serialised (F11) -/

/-- two global requests whose synchronisations overlap (pinned tree: no sync mutex) both see the same
    larger local maximum and both return `max + count`.  Witness on a variant of the step function
    that admits a second request: we replay the second request's arithmetic by hand. -/
theorem global_duplicate_without_serialisation :
    let est1 : TS := (10, 1)      -- first request's estimate
    let est2 : TS := (10, 2)      -- second request's estimate (distinct, generated under tsoMux)
    let localMax : TS := (50, 7)  -- a local allocator is ahead of both
    bump 262144 1 (tsMax est1 localMax) 1 = bump 262144 1 (tsMax est2 localMax) 1 := by decide

/-- non-vacuity: a history with two dcs on two servers, local grants, a global request that finds a
    local allocator ahead (answer + write phase) and later local grants -/
def demoSt : St :=
  { dcs := [1, 2], servers := [10, 20], srvOf := fun d => if d = 1 then 10 else 20, maxLog := 262144,
    bits := 2, glob := (100, 0), loc := fun d => if d = 1 then (100, 5) else (300, 9) }

def demoOps : List Op :=
  [.localGrant 1 3, .localGrant 2 1, .gStart 2 1, .localGrant 1 1, .gCheck 10, .gCheck 20, .gCollect,
   .gWrite 20, .localGrant 2 4, .gWrite 10, .gPersist, .gReturn, .localGrant 1 1, .localGrant 2 1]

example : ((run demoSt demoOps).events.map (fun e => (e.alloc, e.ts))).reverse
    = [(1, (100, 8)), (2, (300, 10)), (1, (100, 9)), (2, (300, 16)), (0, (300, 12)), (1, (300, 13)), (2, (300, 17))] := by
  decide

/-- non-vacuity of the join: after the demo history a third datacenter joins on server 10; its first local
    timestamp is above the global one returned before, and the join is refused while a request is in flight -/
example : ((run demoSt (demoOps ++ [.dcJoin 3 10, .localGrant 3 1])).events.head?.map (fun e => (e.alloc, e.ts)))
    = some (3, (300, 18)) := by decide

example : (run demoSt [.gStart 1 0, .dcJoin 3 10]).dcs = [1, 2] := by decide

/-- structure obligations re-checked against the facts regenerated from the Go source: global requests
    that synchronise take the sync mutex before estimating (F11), the suffix creation is a leader-guarded
    transaction (F17), and SyncMaxTS runs its collection loop twice (what `gRepeat` models) -/
theorem tsoglobal_structure_facts :
    PdModel.Generated.TsoGlobal.globalSyncSerialised = true ∧
    PdModel.Generated.TsoGlobal.suffixCreateLeaderGuarded = true ∧
    PdModel.Generated.TsoGlobal.suffixCreateUnguardedTxn = false ∧
    -- the width is derived from the largest suffix seen, the returned logical is `raw << bits + suffix`,
    -- generateTSO returns the differentiated value and getTS checks the overflow on what generateTSO returned
    PdModel.Generated.TsoGlobal.suffixBitsFromMaxSuffix = true ∧
    PdModel.Generated.TsoGlobal.differentiateShape = true ∧
    PdModel.Generated.TsoGlobal.generateDifferentiates = true ∧
    PdModel.Generated.TsoGlobal.overflowCheckedOnDifferentiated = true ∧
    -- the unsynchronised path is taken only when no dc-location exists; `skipCheck` is declared inside the retry loop
    PdModel.Generated.TsoGlobal.plainPathOnlyWithoutDCs = true ∧
    PdModel.Generated.TsoGlobal.skipCheckFreshPerAttempt = true ∧
    PdModel.Generated.TsoGlobal.syncMaxRetryCount = 2 := by decide

end PdModel.TsoGlobal
