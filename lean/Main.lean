import PdModel.Driver.Common
import PdModel.Driver.IdAlloc

def main (args : List String) : IO UInt32 := do
  match args with
  | ["idalloc"] => PdModel.Driver.IdAlloc.main
  | _ => do
    IO.eprintln "usage: pdmodel <area>   (trace on stdin)"
    return 2
