#!/usr/bin/env python3
"""Shared orchestration for /verif/bin/check (python3 stdlib only).

A check = proof obligations (lake build + axiom audit, against facts regenerated from the repo)
        + correspondence (Go harness on the real code vs the Lean model, same op lines)
        + monitor (the Lean-verified property checker applied to the implementation's outputs).
See DESIGN.md sections 1-4.
"""
import fcntl
import hashlib
import importlib.util
import json
import os
import re
import shutil
import subprocess
import sys
import time

VERIF = os.path.dirname(os.path.dirname(os.path.abspath(__file__)))
REPO = os.environ.get("VERIF_REPO", "/repo")
BUILD = os.path.join(VERIF, ".build")
LEAN = os.path.join(VERIF, "lean")
HARNESS = os.path.join(VERIF, "harness")
ALLOWED_AXIOMS = {"propext", "Classical.choice", "Quot.sound"}
GOENV = dict(os.environ, GOFLAGS="-mod=mod", GOPROXY="off", GOSUMDB="off", GOTOOLCHAIN="local",
             CGO_ENABLED=os.environ.get("CGO_ENABLED", "1"))
NCPU = os.cpu_count() or 4

TRUSTED_BASE_COMMON = [
    "Lean 4.33.0 kernel; axioms accepted: propext, Classical.choice, Quot.sound (audited per theorem with #print axioms)",
    "Lean compiler for the driver executable (executable semantics of the model definitions)",
    "harness/cmd/factgen (go/ast constant and structure extractor)",
    "the Go harness, its gates/fault injection and the canonicalisation of observations",
    "embedded etcd / goleveldb / Go runtime as they are",
]


def log(*a):
    print(*a, file=sys.stderr, flush=True)


def sh(cmd, cwd=None, env=None, timeout=None, stdin=None):
    """run, return (rc, stdout+stderr)"""
    try:
        p = subprocess.run(cmd, cwd=cwd, env=env, timeout=timeout, stdin=stdin,
                           stdout=subprocess.PIPE, stderr=subprocess.STDOUT, text=True, errors="replace")
        return p.returncode, p.stdout
    except subprocess.TimeoutExpired as e:
        out = e.stdout if isinstance(e.stdout, str) else (e.stdout or b"").decode(errors="replace")
        return 124, out + "\n[timeout]"


class Lock:
    def __init__(self, name):
        os.makedirs(BUILD, exist_ok=True)
        self.path = os.path.join(BUILD, name + ".lock")

    def __enter__(self):
        self.f = open(self.path, "w")
        fcntl.flock(self.f, fcntl.LOCK_EX)
        return self

    def __exit__(self, *a):
        fcntl.flock(self.f, fcntl.LOCK_UN)
        self.f.close()


def load_spec(pid):
    path = os.path.join(VERIF, "checks", pid + ".py")
    spec = importlib.util.spec_from_file_location("check_" + pid, path)
    mod = importlib.util.module_from_spec(spec)
    spec.loader.exec_module(mod)
    return mod.SPEC


# ---------------------------------------------------------------------------------------------
# Go side

def gomod_dir():
    """a go.mod/go.sum pair (outside the harness dir) whose replace points at REPO"""
    tag = hashlib.sha1(REPO.encode()).hexdigest()[:10]
    d = os.path.join(BUILD, "gomod-" + tag)
    os.makedirs(d, exist_ok=True)
    src = open(os.path.join(REPO, "go.mod")).read()
    src = re.sub(r"(?m)^module .*$", "module verifharness", src, count=1)
    src += "\nrequire github.com/tikv/pd v0.0.0-00010101000000-000000000000\n"
    src += "replace github.com/tikv/pd => %s\n" % REPO
    p = os.path.join(d, "go.mod")
    if not os.path.exists(p) or open(p).read() != src:
        open(p, "w").write(src)
    shutil.copyfile(os.path.join(REPO, "go.sum"), os.path.join(d, "go.sum"))
    return d


def go_build(cmd_name, tags="verif", overlay=None, race=False):
    """build harness/cmd/<cmd_name> against REPO's working tree; returns (path, err)"""
    with Lock("gobuild"):
        d = gomod_dir()
        tag = os.path.basename(d)
        out = os.path.join(BUILD, "bin", tag, cmd_name + ("-race" if race else ""))
        os.makedirs(os.path.dirname(out), exist_ok=True)
        cmd = ["go", "build", "-modfile=" + os.path.join(d, "go.mod"), "-tags", tags, "-o", out]
        if overlay:
            cmd += ["-overlay", overlay]
        if race:
            cmd += ["-race"]
        cmd += ["./cmd/" + cmd_name]
        rc, o = sh(cmd, cwd=HARNESS, env=GOENV, timeout=1500)
        if rc != 0:
            return None, o
        return out, ""


def make_overlay(name, clock_files, extra_dir=None):
    """generate a go build -overlay file (injected clock + add-only accessor files) from REPO's current
    files; returns (overlay.json path | None, error text)"""
    exe, err = go_build("clockoverlay", tags="")
    if exe is None:
        return None, "clockoverlay does not build:\n" + err
    tag = hashlib.sha1(REPO.encode()).hexdigest()[:10]
    out = os.path.join(BUILD, "overlay-%s-%s" % (name, tag))
    with Lock("overlay-" + name):
        shutil.rmtree(out, ignore_errors=True)
        os.makedirs(out)
        cmd = [exe, "-repo", REPO, "-out", out]
        if extra_dir:
            cmd += ["-extra", os.path.join(HARNESS, "overlay", extra_dir) if not os.path.isabs(extra_dir) else extra_dir]
        rc, o = sh(cmd + list(clock_files), timeout=120)
    if rc != 0:
        return None, "clockoverlay failed:\n" + o
    return os.path.join(out, "overlay.json"), o


def regen_facts():
    """regenerate PdModel/Generated/<Area>.lean from REPO (facts/<Area>.json); returns (ok, message)"""
    exe, err = go_build("factgen", tags="")
    if exe is None:
        return False, "factgen does not build:\n" + err
    with Lock("lake"):
        rc, out = sh([exe, "-repo", REPO, "-facts", os.path.join(VERIF, "facts"),
                      "-out", os.path.join(LEAN, "PdModel", "Generated")], timeout=300)
    if rc != 0:
        return False, "factgen failed (a modelled constant or structure is gone):\n" + out
    return True, out


# ---------------------------------------------------------------------------------------------
# Lean side

def lake_build(targets):
    with Lock("lake"):
        rc, out = sh(["lake", "build"] + targets, cwd=LEAN, timeout=3000)
    return rc == 0, out


def audit(audit_file):
    """#print axioms over every property theorem. returns (obligations, discharged, details)"""
    rc, out = sh(["lake", "env", "lean", audit_file], cwd=LEAN, timeout=900)
    obligations = []
    # "'Name' depends on axioms: [a, b]" possibly wrapped over lines; or "'Name' does not depend on any axioms"
    flat = re.sub(r"\s+", " ", out)
    for m in re.finditer(r"'([^']+)' depends on axioms: \[([^\]]*)\]", flat):
        axs = [a.strip() for a in m.group(2).split(",") if a.strip()]
        bad = [a for a in axs if a not in ALLOWED_AXIOMS]
        obligations.append({"theorem": m.group(1), "axioms": axs, "ok": not bad})
    for m in re.finditer(r"'([^']+)' does not depend on any axioms", flat):
        obligations.append({"theorem": m.group(1), "axioms": [], "ok": True})
    expected = len(re.findall(r"(?m)^#print axioms ", open(os.path.join(LEAN, audit_file)).read()))
    err = None
    if rc != 0 or len(obligations) != expected:
        err = "audit file did not elaborate completely (%d of %d theorems reported)\n%s" % (
            len(obligations), expected, out[-3000:])
    return expected, sum(1 for o in obligations if o["ok"]), obligations, err


FORBIDDEN = re.compile(r"\b(sorry|admit|native_decide|bv_decide|implemented_by|unsafe)\b|^axiom |maxHeartbeats 0")


def grep_forbidden(files):
    hits = []
    for f in files:
        p = os.path.join(LEAN, f)
        if not os.path.exists(p):
            continue
        in_block = 0
        for n, line in enumerate(open(p), 1):
            code = line
            # strip comments (line and simple block comments)
            if in_block:
                if "-/" in code:
                    code = code.split("-/", 1)[1]
                    in_block = 0
                else:
                    continue
            code = re.sub(r"/-.*?-/", "", code)
            if "/-" in code:
                code = code.split("/-", 1)[0]
                in_block = 1
            code = code.split("--", 1)[0]
            if FORBIDDEN.search(code):
                hits.append("%s:%d: %s" % (f, n, line.strip()))
    return hits


_DRIVER_COPY = {}


def driver_exe(area):
    return _DRIVER_COPY.get(area) or os.path.join(LEAN, ".lake", "build", "bin", "pdmodel-" + area)


def snapshot_driver(area, workdir):
    """copy the driver executable (call this while holding the obligations lock, right after the build): a
    concurrent check's `lake build` re-links the executable in place, and a run must not see it half-written"""
    src = os.path.join(LEAN, ".lake", "build", "bin", "pdmodel-" + area)
    if os.path.exists(src):
        os.makedirs(workdir, exist_ok=True)
        dst = os.path.join(workdir, "pdmodel-" + area)
        shutil.copy2(src, dst)
        _DRIVER_COPY[area] = dst


def exe_targets():
    """driver executables whose root file exists"""
    d = os.path.join(LEAN, "Mains")
    return sorted("pdmodel-" + f[:-5].lower() for f in os.listdir(d) if f.endswith(".lean"))


def run_driver(area, trace_path, timeout=1800):
    with open(trace_path) as f:
        rc, out = sh([driver_exe(area)], stdin=f, timeout=timeout)
    diffs, fails, summary = [], [], None
    for l in out.splitlines():
        if l.startswith("DIFF "):
            diffs.append(l)
        elif l.startswith("MONITOR-FAIL "):
            fails.append(l)
        elif l.startswith("SUMMARY "):
            summary = l
    return rc, diffs, fails, summary, out


# ---------------------------------------------------------------------------------------------
# traces

def read_trace(path):
    """list of (op, obs)"""
    res = []
    for l in open(path, errors="replace"):
        l = l.rstrip("\n")
        if not l or l.startswith("#"):
            continue
        if " => " in l:
            a, b = l.split(" => ", 1)
        else:
            a, b = l, ""
        res.append((a, b))
    return res


def split_sequences(lines, reset_prefix="reset"):
    """split trace lines into sequences, each starting with a reset op; returns [(first_line_no, [(op,obs)])]"""
    seqs = []
    cur, start = [], 1
    for n, (op, obs) in enumerate(lines, 1):
        if op.split(" ")[0] == reset_prefix and cur:
            seqs.append((start, cur))
            cur, start = [], n
        cur.append((op, obs))
    if cur:
        seqs.append((start, cur))
    return seqs


def line_no(msg):
    m = re.search(r"line=(\d+)", msg)
    return int(m.group(1)) if m else 0


def sig_of(msg):
    m = re.search(r"sig=(\S+)", msg)
    return m.group(1) if m else ""


# ---------------------------------------------------------------------------------------------
# known findings

def load_known():
    """known_findings.json (committed, never written at run time) + per-property fragments known/*.json"""
    res = []
    p = os.path.join(VERIF, "known_findings.json")
    if os.path.exists(p):
        res += json.load(open(p)).get("findings", [])
    d = os.path.join(VERIF, "known")
    if os.path.isdir(d):
        for f in sorted(os.listdir(d)):
            if f.endswith(".json"):
                res += json.load(open(os.path.join(d, f)))
    return res


def match_known(pid, msg, known):
    for k in known:
        if k.get("property") == pid and k.get("status") == "open" and re.search(k["match"], msg):
            return k
    return None


# ---------------------------------------------------------------------------------------------
# evidence

def write_evidence(pid, tier, seed, coverage, assumptions, wall, violations, extra=None):
    os.makedirs(os.path.join(VERIF, "evidence"), exist_ok=True)
    ev = {
        "property_id": pid, "tier": tier, "seed": seed, "level": "proof",
        "coverage": coverage, "assumptions": assumptions, "wall_s": round(wall, 2),
        "violations": violations,
    }
    if extra:
        ev.update(extra)
    tmp = os.path.join(VERIF, "evidence", pid + ".json.tmp")
    json.dump(ev, open(tmp, "w"), indent=1, sort_keys=True)
    os.replace(tmp, os.path.join(VERIF, "evidence", pid + ".json"))
