// Command tsoglobal ties the C05 model to the code:
//
//	A. pure functions: CalSuffixBits, differentiateLogical (exhaustive / random inputs)
//	B. suffix assignment: several AllocatorManagers with real members on one embedded etcd; the PD
//	   leadership moves between them; ClusterDCLocationChecker runs whole or parked before its create
//	   transaction
//	C. the synchronisation protocol: one in-process PD server with local TSO enabled, leading the global
//	   allocator and the local allocators of two dc-locations (SyncMaxTS goes over real gRPC to itself),
//	   with a frozen injected clock: sequential local/global requests and SetTSO are compared exactly with
//	   the model, concurrent bursts are judged by the monitor.
//
// Must be built with the clock overlay.
package main

import (
	"context"
	"flag"
	"fmt"
	"github.com/pingcap/kvproto/pkg/pdpb"
	"os"
	"path"
	"sort"
	"strconv"
	"strings"
	"sync"
	"sync/atomic"
	"time"

	"github.com/pingcap/check"
	pdclient "github.com/tikv/pd/client"
	"github.com/tikv/pd/pkg/tsoutil"
	"github.com/tikv/pd/server"
	"github.com/tikv/pd/server/config"
	"github.com/tikv/pd/server/member"
	"github.com/tikv/pd/server/tso"
	"go.etcd.io/etcd/clientv3"
	"google.golang.org/grpc"

	"verifharness/internal/etcdh"
	_ "verifharness/internal/quiet"
	"verifharness/internal/rng"
	"verifharness/internal/trace"
)

// ---------------------------------------------------------------------------------------------
// part B: suffix assignment

type smem struct {
	id      uint64
	client  *clientv3.Client
	gate    *etcdh.GateKV
	m       *member.Member
	am      *tso.AllocatorManager
	pending chan struct{}
}

type sworld struct {
	e    *etcdh.Etcd
	seq  int
	root string
	mems map[int]*smem
	// dc-locations that currently have a server (server id -> dc), as written by dcjoin / dcleave
	present map[string]string
}

func (w *sworld) reset() {
	for _, m := range w.mems {
		if m.pending != nil {
			m.gate.Release(etcdh.ErrBefore)
			<-m.pending
		}
		m.m.GetLeadership().Reset()
		m.client.Close()
	}
	w.mems = map[int]*smem{}
	w.present = map[string]string{}
	w.seq++
	w.root = fmt.Sprintf("/verif/sfx/%d", w.seq)
}

func (w *sworld) member(i int) *smem {
	if m, ok := w.mems[i]; ok {
		return m
	}
	c := etcdh.NewClient(w.e.Cfg)
	g := etcdh.Wrap(c)
	mm := member.NewMember(w.e.Srv, c, uint64(1000+i))
	cfg := config.NewConfig()
	cfg.EnableLocalTSO = true
	cfg.AdvertiseClientUrls = fmt.Sprintf("http://127.0.0.1:%d", 20000+i)
	cfg.AdvertisePeerUrls = fmt.Sprintf("http://127.0.0.1:%d", 30000+i)
	mm.MemberInfo(cfg, fmt.Sprintf("pd%d", i), w.root)
	am := tso.NewAllocatorManager(mm, w.root, cfg, func() time.Duration { return 24 * time.Hour })
	s := &smem{id: uint64(1000 + i), client: c, gate: g, m: mm, am: am}
	w.mems[i] = s
	return s
}

func (w *sworld) table() string {
	resp, err := w.e.Client.Get(context.Background(), path.Join(w.root, "local-tso-suffix")+"/", clientv3.WithPrefix())
	if err != nil {
		panic(err)
	}
	var rows []string
	for _, kv := range resp.Kvs {
		k := strings.Split(string(kv.Key), "/")
		rows = append(rows, fmt.Sprintf("%d=%s", sfxDCNum(k[len(k)-1]), string(kv.Value)))
	}
	sort.Slice(rows, func(i, j int) bool {
		a, _ := strconv.Atoi(strings.Split(rows[i], "=")[0])
		b, _ := strconv.Atoi(strings.Split(rows[j], "=")[0])
		return a < b
	})
	return "[" + strings.Join(rows, ",") + "]"
}

// dc numbers of part B and their names: n < 20 is "dc<n>"; 20+n is "x-dc<n>", a name whose tail is the name of dc n
func sfxDCName(n int) string {
	if n >= 20 {
		return fmt.Sprintf("x-dc%d", n-20)
	}
	return fmt.Sprintf("dc%d", n)
}

func sfxDCNum(name string) int {
	n := 0
	if strings.HasPrefix(name, "x-dc") {
		fmt.Sscanf(name, "x-dc%d", &n)
		return n + 20
	}
	fmt.Sscanf(name, "dc%d", &n)
	return n
}

func (w *sworld) exec(f []string) string {
	atoi := func(s string) int { n, _ := strconv.Atoi(s); return n }
	switch {
	case f[0] == "sreset":
		w.reset()
		return "ok"
	case f[0] == "dcjoin" && len(f) == 3: // server id, dc
		_, err := w.e.Client.Put(context.Background(), path.Join(w.root, "dc-location", f[1]), sfxDCName(atoi(f[2])))
		if err != nil {
			panic(err)
		}
		w.present[f[1]] = f[2]
		return "ok"
	case f[0] == "dcleave" && len(f) == 2:
		delete(w.present, f[1])
		_, err := w.e.Client.Delete(context.Background(), path.Join(w.root, "dc-location", f[1]))
		if err != nil {
			panic(err)
		}
		return "ok"
	case f[0] == "slead" && len(f) == 2:
		for _, x := range w.mems {
			x.m.GetLeadership().Reset()
		}
		m := w.member(atoi(f[1]))
		if err := m.m.CampaignLeader(3600); err != nil {
			panic(err)
		}
		m.m.EnableLeader()
		return "ok"
	case (f[0] == "checker" || f[0] == "gchecker") && len(f) == 3: // member, the dc expected to get a suffix (0: none)
		m := w.member(atoi(f[1]))
		if m.pending != nil {
			return "bad-op"
		}
		if f[0] == "checker" {
			m.am.ClusterDCLocationChecker()
			// the suffix width this member now reports with its timestamps, and the dc-locations in use
			seen := map[string]bool{}
			var dcs []string
			for _, dc := range w.present {
				if !seen[dc] {
					seen[dc] = true
					dcs = append(dcs, dc)
				}
			}
			sort.Strings(dcs)
			return fmt.Sprintf("ok bits=%d;%s", m.am.GetSuffixBits(), strings.Join(dcs, ","))
		}
		parked := m.gate.ArmPark()
		done := make(chan struct{})
		go func() { m.am.ClusterDCLocationChecker(); close(done) }()
		select {
		case <-parked:
			m.pending = done
			return "parked"
		case <-done:
			m.gate.Disarm()
			return "ok"
		case <-time.After(20 * time.Second):
			panic("gchecker stuck")
		}
	case f[0] == "sfinish" && len(f) == 2:
		m := w.member(atoi(f[1]))
		if m.pending == nil {
			return "bad-op"
		}
		m.gate.Release(etcdh.None)
		<-m.pending
		m.pending = nil
		return "ok"
	}
	return "bad-op"
}

// ---------------------------------------------------------------------------------------------
// part C: the protocol on an in-process server

type pworld struct {
	cli    pdclient.Client // the real pd client (batching, stream, fallback detector) against this server
	svr    *server.Server
	cancel context.CancelFunc
	dcs    []string
	now    int64
	ticks  int64
}

func startServer() *pworld {
	cfg := server.NewTestSingleConfig(&check.C{})
	cfg.EnableLocalTSO = true
	cfg.Labels = map[string]string{config.ZoneLabel: "dc1"}
	ctx, cancel := context.WithCancel(context.Background())
	svr, err := server.CreateServer(ctx, cfg)
	if err != nil {
		panic(err)
	}
	if err := svr.Run(); err != nil {
		panic(err)
	}
	w := &pworld{svr: svr, cancel: cancel, dcs: []string{"dc1", "dc2"}}
	deadline := time.Now().Add(60 * time.Second)
	for !(svr.GetMember().IsLeader()) {
		if time.Now().After(deadline) {
			panic("server did not become leader")
		}
		time.Sleep(50 * time.Millisecond)
	}
	// a second dc-location whose only "server" is not running: this server leads its allocator too
	_, err = svr.GetClient().Put(ctx, svr.GetMember().GetDCLocationPath(424242), "dc2")
	if err != nil {
		panic(err)
	}
	am := svr.GetTSOAllocatorManager()
	for {
		am.ClusterDCLocationChecker()
		ok := true
		for _, dc := range w.dcs {
			a, err := am.GetAllocator(dc)
			if err != nil || !a.IsInitialize() {
				ok = false
				continue
			}
			if l, ok2 := a.(*tso.LocalTSOAllocator); !ok2 || !l.IsAllocatorLeader() {
				ok = false
			}
		}
		if ok {
			break
		}
		if time.Now().After(deadline) {
			panic("local allocators not ready")
		}
		time.Sleep(100 * time.Millisecond)
	}
	return w
}

func (w *pworld) freeze() {
	// freeze the injected clock at the largest physical time in use, so that the updater daemon
	// leaves every allocator alone from now on
	am := w.svr.GetTSOAllocatorManager()
	max := int64(0)
	for _, dc := range append([]string{tso.GlobalDCLocation}, w.dcs...) {
		a, _ := am.GetAllocator(dc)
		p, _, _ := tso.VerifView(a)
		if p > max {
			max = p
		}
	}
	_ = max
	// freeze the clock slightly in the future and let the updater daemon move every allocator
	// there; afterwards nothing reads a different time any more (elapsed times and RTTs are 0)
	atomic.StoreInt64(&w.now, time.Now().UnixNano()+2e9)
	deadline := time.Now().Add(10 * time.Second)
	for {
		time.Sleep(120 * time.Millisecond)
		all := true
		for _, dc := range append([]string{tso.GlobalDCLocation}, w.dcs...) {
			a, _ := am.GetAllocator(dc)
			p, _, _ := tso.VerifView(a)
			if p != atomic.LoadInt64(&w.now) {
				all = false
			}
		}
		if all || time.Now().After(deadline) {
			break
		}
	}
}

func (w *pworld) view() string {
	am := w.svr.GetTSOAllocatorManager()
	var parts []string
	for _, dc := range append([]string{tso.GlobalDCLocation}, w.dcs...) {
		a, _ := am.GetAllocator(dc)
		p, l, _ := tso.VerifView(a)
		parts = append(parts, fmt.Sprintf("%d:%d", p/1e6, l))
	}
	return strings.Join(parts, " ")
}

func dcName(s string) string {
	if s == "0" {
		return tso.GlobalDCLocation
	}
	return "dc" + s
}

type grant struct {
	alloc         int
	ms, logical   int64
	bits          uint32
	start, finish int64
	err           string
}

func (w *pworld) request(alloc int, count uint32) grant {
	am := w.svr.GetTSOAllocatorManager()
	g := grant{alloc: alloc}
	g.start = atomic.AddInt64(&w.ticks, 1)
	ts, err := am.HandleTSORequest(dcName(strconv.Itoa(alloc)), count)
	g.finish = atomic.AddInt64(&w.ticks, 1)
	if err != nil {
		g.err = strings.ReplaceAll(err.Error(), " ", "_")
		return g
	}
	g.ms, g.logical, g.bits = ts.Physical, ts.Logical, ts.SuffixBits
	return g
}

// clientRequest asks through the real pd client (gRPC Tso stream, request batching, the client's own
// distribution of a batch); the suffix width is the server's current one.
func (w *pworld) clientRequest(alloc int) grant {
	g := grant{alloc: alloc}
	if w.cli == nil {
		c, err := pdclient.NewClientWithContext(context.Background(), []string{w.svr.GetAddr()}, pdclient.SecurityOption{})
		if err != nil {
			g.err = "client:" + strings.ReplaceAll(err.Error(), " ", "_")
			return g
		}
		w.cli = c
	}
	ctx, cancel := context.WithTimeout(context.Background(), 10*time.Second)
	defer cancel()
	g.start = atomic.AddInt64(&w.ticks, 1)
	var p, l int64
	var err error
	if alloc == 0 {
		p, l, err = w.cli.GetTS(ctx)
	} else {
		p, l, err = w.cli.GetLocalTS(ctx, dcName(strconv.Itoa(alloc)))
	}
	g.finish = atomic.AddInt64(&w.ticks, 1)
	if err != nil {
		g.err = strings.ReplaceAll(err.Error(), " ", "_")
		return g
	}
	g.ms, g.logical, g.bits = p, l, uint32(w.svr.GetTSOAllocatorManager().GetSuffixBits())
	return g
}

func (g grant) String() string {
	if g.err != "" {
		return fmt.Sprintf("%d:err", g.alloc)
	}
	return fmt.Sprintf("%d:%d:%d:%d:%d:%d", g.alloc, g.ms, g.logical, g.bits, g.start, g.finish)
}

func (w *pworld) exec(f []string) string {
	atoi := func(s string) int64 { n, _ := strconv.ParseInt(s, 10, 64); return n }
	am := w.svr.GetTSOAllocatorManager()
	switch {
	case f[0] == "pinit":
		// a logical counter that is too large to serve further requests within this millisecond is
		// normally cleared by the advancing clock; the clock is frozen here, so move it on by hand and
		// wait until the updater daemon has taken every allocator there
		busy := false
		for _, dc := range append([]string{tso.GlobalDCLocation}, w.dcs...) {
			a, _ := am.GetAllocator(dc)
			_, l, _ := tso.VerifView(a)
			if l > 20000 {
				busy = true
			}
		}
		{
			// memories far ahead of the (frozen) clock – after allocators were pushed ahead on purpose – make later
			// synchronisations hit the reset gap: let the clock catch up
			maxP := int64(0)
			for _, dc := range append([]string{tso.GlobalDCLocation}, w.dcs...) {
				a, _ := am.GetAllocator(dc)
				if p, _, _ := tso.VerifView(a); p > maxP {
					maxP = p
				}
			}
			if maxP-atomic.LoadInt64(&w.now) > 3600e9 {
				busy = true
			}
		}
		if busy {
			maxP := int64(0)
			for _, dc := range append([]string{tso.GlobalDCLocation}, w.dcs...) {
				a, _ := am.GetAllocator(dc)
				if p, _, _ := tso.VerifView(a); p > maxP {
					maxP = p
				}
			}
			now := atomic.LoadInt64(&w.now)
			if maxP > now {
				now = maxP
			}
			atomic.StoreInt64(&w.now, now+5e6)
			deadline := time.Now().Add(5 * time.Second)
			for time.Now().Before(deadline) {
				time.Sleep(70 * time.Millisecond)
				all := true
				for _, dc := range append([]string{tso.GlobalDCLocation}, w.dcs...) {
					a, _ := am.GetAllocator(dc)
					if p, _, _ := tso.VerifView(a); p != now+5e6 {
						all = false
					}
				}
				if all {
					break
				}
			}
		}
		return "ok"
	case f[0] == "joinlate" && len(f) == 3: // new dc number, 1: a datacenter joins a cluster whose timestamps are ahead of the clock
		d := f[1]
		var parts []string
		// a local allocator ahead of the wall clock, and a global timestamp above it
		if a, err := am.GetAllocator(w.dcs[0]); err == nil {
			p, _, _ := tso.VerifView(a)
			a.SetTSO(tsoutil.ComposeTS(p/1e6+600000, 7))
		}
		parts = append(parts, w.request(0, 1).String())
		// the new datacenter's only "server" is not running: this server leads its allocator too
		if _, err := w.svr.GetClient().Put(context.Background(), w.svr.GetMember().GetDCLocationPath(uint64(434300+atoi(d))), "dc"+d); err != nil {
			return "err " + err.Error()
		}
		deadline := time.Now().Add(40 * time.Second)
		for {
			am.ClusterDCLocationChecker()
			a, err := am.GetAllocator("dc" + d)
			if err == nil && a.IsInitialize() {
				if l, ok := a.(*tso.LocalTSOAllocator); ok && l.IsAllocatorLeader() {
					break
				}
			}
			if time.Now().After(deadline) {
				return "err-timeout"
			}
			time.Sleep(100 * time.Millisecond)
		}
		w.dcs = append(w.dcs, "dc"+d)
		parts = append(parts, w.request(int(atoi(d)), 1).String())
		parts = append(parts, w.request(0, 1).String())
		parts = append(parts, w.request(int(atoi(d)), 1).String())
		return "grants " + strings.Join(parts, " ")
	case f[0] == "rawtso" && len(f) == 3: // allocator (9 = an unknown dc-location), count: one request on a fresh pdpb Tso stream
		dc := dcName(f[1])
		if f[1] == "9" {
			dc = "dc-nowhere"
		}
		conn, err := grpc.Dial(strings.TrimPrefix(w.svr.GetAddr(), "http://"), grpc.WithInsecure())
		if err != nil {
			return "dial-error"
		}
		defer conn.Close()
		ctx, cancel := context.WithTimeout(context.Background(), 10*time.Second)
		defer cancel()
		stream, err := pdpb.NewPDClient(conn).Tso(ctx)
		if err != nil {
			return "err"
		}
		req := &pdpb.TsoRequest{Header: &pdpb.RequestHeader{ClusterId: w.svr.ClusterID()}, Count: uint32(atoi(f[2])), DcLocation: dc}
		if err := stream.Send(req); err != nil {
			return "err"
		}
		resp, err := stream.Recv()
		if err != nil {
			return "err"
		}
		// an answer without a gRPC error is what the pd client hands out as a timestamp
		return fmt.Sprintf("ts %d %d %d", resp.GetTimestamp().GetPhysical(), resp.GetTimestamp().GetLogical(), resp.GetTimestamp().GetSuffixBits())
	case f[0] == "lrestart":
		// every local allocator steps down at once (ResetAllocatorGroup) and is re-elected on this server: its
		// memory is rebuilt from its persisted window and the cluster's largest local timestamp
		for _, dc := range w.dcs {
			am.ResetAllocatorGroup(dc)
		}
		deadline := time.Now().Add(30 * time.Second)
		for {
			ok := true
			for _, dc := range w.dcs {
				a, err := am.GetAllocator(dc)
				if err != nil || !a.IsInitialize() {
					ok = false
					continue
				}
				if l, ok2 := a.(*tso.LocalTSOAllocator); !ok2 || !l.IsAllocatorLeader() {
					ok = false
				}
			}
			if ok {
				return "ok"
			}
			if time.Now().After(deadline) {
				return "err-timeout"
			}
			time.Sleep(50 * time.Millisecond)
		}
	case f[0] == "reqfail" && len(f) == 3: // like req, for a request that is expected to be refused
		g := w.request(int(atoi(f[1])), uint32(atoi(f[2])))
		if g.err != "" {
			return "err"
		}
		return fmt.Sprintf("ts %d %d %d", g.ms, g.logical, g.bits)
	case f[0] == "req" && len(f) == 3: // allocator (0 global / dc number), count
		g := w.request(int(atoi(f[1])), uint32(atoi(f[2])))
		if g.err != "" {
			return "err " + g.err
		}
		return fmt.Sprintf("ts %d %d %d", g.ms, g.logical, g.bits)
	case f[0] == "bigreq" && len(f) == 3: // allocator, count: three large requests in a row
		var parts []string
		for k := 0; k < 3; k++ {
			g := w.request(int(atoi(f[1])), uint32(atoi(f[2])))
			parts = append(parts, g.String())
		}
		return "grants " + strings.Join(parts, " ")
	case f[0] == "setts" && len(f) == 4: // allocator, ms, logical
		a, err := am.GetAllocator(dcName(f[1]))
		if err != nil {
			return "bad-op"
		}
		if err := a.SetTSO(tsoutil.ComposeTS(atoi(f[2]), atoi(f[3]))); err != nil {
			return "rejected"
		}
		return "ok"
	case f[0] == "burst" && (len(f) == 5 || len(f) == 6): // #global, #local per dc, count, seed (ignored) [, "cli"]
		ng, nl, c := int(atoi(f[1])), int(atoi(f[2])), uint32(atoi(f[3]))
		viaClient := len(f) == 6 && f[5] == "cli" // count is 1 per call; the client batches concurrent calls itself
		var mu sync.Mutex
		var res []grant
		var wg sync.WaitGroup
		run := func(alloc int) {
			defer wg.Done()
			reps := 1
			if viaClient {
				reps = 4
			}
			for k := 0; k < reps; k++ {
				var g grant
				if viaClient {
					g = w.clientRequest(alloc)
				} else {
					g = w.request(alloc, c)
				}
				mu.Lock()
				res = append(res, g)
				mu.Unlock()
			}
		}
		for i := 0; i < ng; i++ {
			wg.Add(1)
			go run(0)
		}
		for d := 1; d <= len(w.dcs); d++ {
			for i := 0; i < nl; i++ {
				wg.Add(1)
				go run(d)
			}
		}
		wg.Wait()
		sort.Slice(res, func(i, j int) bool { return res[i].finish < res[j].finish })
		var parts []string
		for _, g := range res {
			parts = append(parts, g.String())
		}
		return "grants " + strings.Join(parts, " ")
	}
	return "bad-op"
}

// ---------------------------------------------------------------------------------------------

func suffixTable(svr *server.Server) string {
	am := svr.GetTSOAllocatorManager()
	var rows []string
	for dc, info := range am.GetClusterDCLocations() {
		rows = append(rows, fmt.Sprintf("%s=%d", strings.TrimPrefix(dc, "dc"), info.Suffix))
	}
	sort.Strings(rows)
	return strings.Join(rows, ",")
}

func main() {
	out := flag.String("out", "-", "trace file")
	replay := flag.String("replay", "", "ops file to replay instead of generating")
	n := flag.Int("n", 40, "number of generated sequences per part")
	maxOps := flag.Int("len", 40, "max ops per sequence")
	stream := flag.Uint64("stream", 0, "PRNG stream")
	noServer := flag.Bool("noserver", false, "skip part C")
	clusterSecs := flag.Int("cluster", 0, "thorough tier: seconds of three-server load with allocator moves (streams 0 mod 4 only)")
	flag.Parse()

	t := trace.Create(*out)
	defer t.Close()
	e := etcdh.Start()
	defer e.Stop()
	sw := &sworld{e: e, mems: map[int]*smem{}}
	var pw *pworld
	getPW := func() *pworld {
		if pw == nil {
			pw = startServer()
			tso.VerifClock = func() time.Time { return time.Unix(0, atomic.LoadInt64(&pw.now)) }
			tso.VerifSleep = func(time.Duration) { time.Sleep(time.Millisecond) }
			pw.freeze()
		}
		return pw
	}
	run := func(op string) string {
		f := strings.Fields(op)
		var o string
		switch f[0] {
		case "reset":
			o = "ok"
		case "bits":
			v, _ := strconv.Atoi(f[1])
			o = fmt.Sprintf("%d", tso.CalSuffixBits(int32(v)))
		case "diff":
			a, _ := strconv.ParseInt(f[1], 10, 64)
			b, _ := strconv.Atoi(f[2])
			c, _ := strconv.Atoi(f[3])
			o = fmt.Sprintf("%d", tso.VerifDifferentiate(a, b, c))
		case "sreset", "dcjoin", "dcleave", "slead", "checker", "gchecker", "sfinish":
			o = sw.exec(f) + " " + sw.table()
		case "pinit", "req", "reqfail", "setts", "burst", "bigreq", "lrestart", "joinlate", "rawtso":
			p := getPW()
			o = p.exec(f)
			if f[0] != "burst" && f[0] != "bigreq" && f[0] != "joinlate" {
				o += " | " + p.view()
			} else {
				o += " | " + suffixTable(p.svr)
			}
		case "cluster":
			secs, _ := strconv.Atoi(f[1])
			o = runCluster(secs)
		default:
			o = "bad-op"
		}
		t.Line(op, o)
		return o
	}
	defer func() {
		sw.reset()
		if pw != nil {
			if pw.cli != nil {
				pw.cli.Close()
			}
			pw.cancel()
			pw.svr.Close()
		}
	}()
	if *replay != "" {
		for _, op := range trace.ReadOps(*replay) {
			run(op)
		}
		return
	}
	r := rng.FromEnv(*stream)
	if *clusterSecs > 0 && *stream%4 == 0 {
		// D. three servers, real clock, allocator moves under load (before the clock is frozen)
		t.Line("reset", "ok")
		t.Line(fmt.Sprintf("cluster %d", *clusterSecs), runCluster(*clusterSecs))
	}
	// A. pure functions
	run("reset")
	for v := 0; v <= 40; v++ {
		run(fmt.Sprintf("bits %d", v))
	}
	for i := 0; i < 200; i++ {
		run(fmt.Sprintf("bits %d", r.Intn(1<<20)))
	}
	for i := 0; i < 300; i++ {
		b := r.Intn(5)
		run(fmt.Sprintf("diff %d %d %d", r.Intn(1<<17), b, r.Intn(1<<uint(b))))
	}
	// B. suffix assignment
	for s := 0; s < *n; s++ {
		genSuffix(run, r, *maxOps)
	}
	// C. protocol
	if !*noServer {
		p := getPW()
		for s := 0; s < *n; s++ {
			genProtocol(p, run, r, *maxOps)
		}
		// epilogue (monitor only, the model of the exact part has two datacenters): datacenters join late, first
		// one whose suffix does not widen the suffix field (3), then one that does (4)
		run("reset")
		run("pinit")
		run("joinlate 3 1")
		run("joinlate 4 1")
	}
	_ = os.Stderr
}
