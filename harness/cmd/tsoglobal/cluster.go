package main

import (
	"context"
	"fmt"
	"sort"
	"strings"
	"sync"
	"sync/atomic"
	"time"

	"github.com/pingcap/check"
	"github.com/tikv/pd/pkg/testutil"
	"github.com/tikv/pd/server"
	"github.com/tikv/pd/server/config"
	"github.com/tikv/pd/server/tso"
)

// runCluster: three in-process PD servers (dc1, dc2, dc2) with the real clock; concurrent local and
// global requests while the dc2 allocator is moved back and forth between the two dc2 servers.
// Everything that was granted is reported with real-time ticks; judged by the monitor only.
func runCluster(secs int) string {
	tso.PriorityCheck = 2 * time.Second
	ctx, cancel := context.WithCancel(context.Background())
	defer cancel()
	dcs := []string{"dc1", "dc2", "dc2"}
	cfgs := server.NewTestMultiConfig(&check.C{}, len(dcs))
	for i, cfg := range cfgs {
		cfg.EnableLocalTSO = true
		cfg.Labels = map[string]string{config.ZoneLabel: dcs[i]}
	}
	ch := make(chan *server.Server, len(cfgs))
	for _, cfg := range cfgs {
		go func(cfg *config.Config) {
			svr, err := server.CreateServer(ctx, cfg)
			if err == nil {
				err = svr.Run()
			}
			if err != nil {
				ch <- nil
				return
			}
			ch <- svr
		}(cfg)
	}
	var svrs []*server.Server
	for range cfgs {
		s := <-ch
		if s == nil {
			return "cluster-start-failed"
		}
		svrs = append(svrs, s)
	}
	defer func() {
		for _, s := range svrs {
			s.Close()
		}
		for _, cfg := range cfgs {
			testutil.CleanServer(cfg.DataDir)
		}
	}()
	leaderOf := func(dc string) *server.Server {
		for _, s := range svrs {
			a, err := s.GetTSOAllocatorManager().GetAllocator(dc)
			if err != nil {
				continue
			}
			if l, ok := a.(*tso.LocalTSOAllocator); ok && l.IsAllocatorLeader() && a.IsInitialize() {
				return s
			}
		}
		return nil
	}
	pdLeader := func() *server.Server {
		for _, s := range svrs {
			if !s.IsClosed() && s.GetMember().IsLeader() {
				return s
			}
		}
		return nil
	}
	deadline := time.Now().Add(90 * time.Second)
	for time.Now().Before(deadline) {
		if pdLeader() != nil && leaderOf("dc1") != nil && leaderOf("dc2") != nil {
			break
		}
		time.Sleep(200 * time.Millisecond)
	}
	if pdLeader() == nil || leaderOf("dc1") == nil || leaderOf("dc2") == nil {
		return "cluster-not-ready"
	}
	time.Sleep(2 * time.Second)

	var ticks int64
	var mu sync.Mutex
	var res []grant
	stop := make(chan struct{})
	var wg sync.WaitGroup
	ask := func(s *server.Server, alloc int, dc string) {
		st := atomic.AddInt64(&ticks, 1)
		ts, err := s.GetTSOAllocatorManager().HandleTSORequest(dc, 1)
		fi := atomic.AddInt64(&ticks, 1)
		if err != nil {
			return
		}
		mu.Lock()
		res = append(res, grant{alloc: alloc, ms: ts.Physical, logical: ts.Logical, bits: ts.SuffixBits, start: st, finish: fi})
		mu.Unlock()
	}
	for d, dc := range []string{"dc1", "dc2"} {
		wg.Add(1)
		go func(d int, dc string) {
			defer wg.Done()
			for {
				select {
				case <-stop:
					return
				default:
				}
				for _, s := range svrs {
					ask(s, d+1, dc)
				}
				time.Sleep(2 * time.Millisecond)
			}
		}(d, dc)
	}
	wg.Add(1)
	go func() {
		defer wg.Done()
		for {
			select {
			case <-stop:
				return
			default:
			}
			if l := pdLeader(); l != nil {
				ask(l, 0, tso.GlobalDCLocation)
			}
			time.Sleep(3 * time.Millisecond)
		}
	}()
	moves := 0
	end := time.Now().Add(time.Duration(secs) * time.Second)
	for time.Now().Before(end) {
		from := leaderOf("dc2")
		l := pdLeader()
		if from == nil || l == nil {
			time.Sleep(300 * time.Millisecond)
			continue
		}
		var to *server.Server
		for _, s := range svrs[1:] {
			if s != from {
				to = s
			}
		}
		if to != nil && l.GetTSOAllocatorManager().TransferAllocatorForDCLocation("dc2", to.GetMember().ID()) == nil {
			w := time.Now().Add(10 * time.Second)
			for time.Now().Before(w) && leaderOf("dc2") != to {
				time.Sleep(20 * time.Millisecond)
			}
			if leaderOf("dc2") == to {
				moves++
			}
		}
		time.Sleep(250 * time.Millisecond)
	}
	close(stop)
	wg.Wait()
	sort.Slice(res, func(i, j int) bool { return res[i].finish < res[j].finish })
	// the monitor is quadratic (0.4 s for 6000 grants): keep at most 40000 grants, evenly thinned
	if len(res) > 40000 {
		step := float64(len(res)) / 40000
		var thin []grant
		for x := 0.0; int(x) < len(res); x += step {
			thin = append(thin, res[int(x)])
		}
		res = thin
	}
	var parts []string
	for _, g := range res {
		parts = append(parts, g.String())
	}
	table := ""
	if l := pdLeader(); l != nil {
		table = suffixTable(l)
	}
	return fmt.Sprintf("grants %s | %s | moves=%d", strings.Join(parts, " "), table, moves)
}
