package main

import (
	"fmt"
	"sort"
	"strings"

	"verifharness/internal/rng"
)

// genSuffix: dcs join one at a time; the PD leadership moves; checker runs whole or parked.
// At most one dc is unassigned at any checker call, so that the assignment order is determined.
func genSuffix(run func(string) string, r *rng.R, maxOps int) {
	run("reset")
	run("sreset")
	members := r.Range(1, 3)
	fresh := 10               // members that never led so far (their allocator managers have seen nothing)
	assigned := map[int]int{} // dc that has a suffix and still has its server -> server id
	gone := []int{}           // dcs that have a suffix and no server any more
	twin := map[int]bool{}    // dcs whose "x-" twin has joined (before them)
	leader := 1
	run("slead 1")
	nextDC, nextSrv := 1, 1
	unassigned := 0 // dc waiting for a suffix (0 = none)
	unSrv := 0
	parked := map[int]int{} // member -> dc it is parked on
	n := r.Range(4, maxOps/2)
	for i := 0; i < n; i++ {
		switch r.Pick(30, 30, 12, 10, 10, 8, 14, 5, 5) {
		case 6: // every server of a dc that has its suffix leaves (the suffix stays persisted)
			if unassigned == 0 && len(parked) == 0 && len(assigned) > 0 {
				var dcs []int
				for dc := range assigned {
					dcs = append(dcs, dc)
				}
				sort.Ints(dcs)
				dc := dcs[r.Intn(len(dcs))]
				run(fmt.Sprintf("dcleave %d", assigned[dc]))
				delete(assigned, dc)
				gone = append(gone, dc)
				if r.Bool(2, 3) {
					run(fmt.Sprintf("checker %d 0", leader))
				}
			}
		case 7: // a dc that left comes back with a new server: it must find its old suffix
			if unassigned == 0 && len(parked) == 0 && len(gone) > 0 {
				dc := gone[0]
				gone = gone[1:]
				run(fmt.Sprintf("dcjoin %d %d", nextSrv, dc))
				assigned[dc] = nextSrv
				nextSrv++
			}
		case 8: // the leadership moves to a member that has not seen anything yet (a restarted / new PD)
			if len(parked) == 0 && fresh < 16 {
				run(fmt.Sprintf("slead %d", fresh))
				leader = fresh
				fresh++
			}
		case 0: // a new dc joins (only when none is waiting)
			if unassigned == 0 && nextDC <= 12 {
				dc := nextDC
				// sometimes the dc "x-dc<n>" joins before "dc<n>": the later name is then the tail of an existing one
				if !twin[nextDC] && r.Bool(1, 4) {
					dc = 20 + nextDC
					twin[nextDC] = true
				}
				run(fmt.Sprintf("dcjoin %d %d", nextSrv, dc))
				unassigned, unSrv = dc, nextSrv
				if dc == nextDC {
					nextDC++
				}
				nextSrv++
			}
		case 1: // the leader runs the checker
			if _, p := parked[leader]; !p {
				run(fmt.Sprintf("checker %d %d", leader, unassigned))
				if unassigned != 0 {
					assigned[unassigned] = unSrv
				}
				unassigned = 0
			}
		case 2: // the leader's checker parks before its create transaction
			if _, p := parked[leader]; !p && unassigned != 0 {
				if strings.HasPrefix(run(fmt.Sprintf("gchecker %d %d", leader, unassigned)), "parked") {
					parked[leader] = unassigned
				} else {
					unassigned = 0
				}
			}
		case 3: // leadership moves
			nl := r.Range(1, members)
			if _, p := parked[nl]; !p {
				run(fmt.Sprintf("slead %d", nl))
				leader = nl
			}
		case 4: // release a parked checker
			for m, dc := range parked {
				run(fmt.Sprintf("sfinish %d", m))
				if dc == unassigned && m == leader {
					unassigned = 0
				}
				delete(parked, m)
				break
			}
		case 5: // the server of the waiting dc leaves again before it got a suffix (while a deposed
			// leader may still hold a prepared transaction for it)
			if unassigned != 0 && len(parked) > 0 {
				run(fmt.Sprintf("dcleave %d", unSrv))
				unassigned = 0
			}
		}
	}
	for m := range parked {
		run(fmt.Sprintf("sfinish %d", m))
	}
}

// genProtocol: sequential requests and SetTSO (exact), then concurrent bursts (monitor).
func genProtocol(p *pworld, run func(string) string, r *rng.R, maxOps int) {
	run("reset")
	run("pinit")
	n := r.Range(4, maxOps)
	for i := 0; i < n; i++ {
		switch r.Pick(30, 30, 18, 12, 5, 5, 4, 4, 3) {
		case 8:
			// both local allocators further ahead of the global one than the reset gap (24 h) lets it jump, in two
			// accepted steps of 20 h: a global request then fails in every attempt at its persist step – after its
			// collect phase – and has to be refused; the clock is moved on afterwards so that the next sequence
			// starts from a consistent state
			f := strings.Fields(p.view())
			for d := 1; d <= 2; d++ {
				var ms, l int64
				fmt.Sscanf(strings.ReplaceAll(f[d], ":", " "), "%d %d", &ms, &l)
				run(fmt.Sprintf("setts %d %d %d", d, ms+72000000, r.Intn(100)))
				run(fmt.Sprintf("setts %d %d %d", d, ms+144000000, r.Intn(100)))
			}
			run(fmt.Sprintf("req %d 1", r.Range(1, 2)))
			run(fmt.Sprintf("reqfail 0 %d", r.Range(1, 3)))
			// bring the global allocator up in two accepted steps as well
			f = strings.Fields(p.view())
			var gms, gl int64
			fmt.Sscanf(strings.ReplaceAll(f[0], ":", " "), "%d %d", &gms, &gl)
			run(fmt.Sprintf("setts 0 %d 0", gms+72000000))
			run(fmt.Sprintf("setts 0 %d 0", gms+144000000+1))
			run("req 0 1")
			run("pinit")
			return
		case 7:
			// a request the server refuses (unknown dc-location) or serves, on a raw Tso stream: a refusal has to be an
			// error, not a response without a timestamp
			// (a count of 0 is not used: the global allocator in local-TSO mode answers it with a timestamp that owns
			// no value, the plain path refuses it – neither touches the property)
			if r.Bool(2, 3) {
				run(fmt.Sprintf("rawtso 9 %d", r.Range(1, 3)))
			} else {
				run(fmt.Sprintf("rawtso %d %d", r.Range(0, 2), r.Range(1, 3)))
			}
		case 6:
			// the global allocator ahead of everything, a global request (which writes its MaxTS into the local
			// allocators), then every local allocator steps down and comes back: it must resume above that request
			f := strings.Fields(p.view())
			var ms, l int64
			fmt.Sscanf(strings.ReplaceAll(f[0], ":", " "), "%d %d", &ms, &l)
			if r.Bool(2, 3) {
				run(fmt.Sprintf("setts 0 %d %d", ms+int64(r.Range(5000, 600000)), r.Intn(1000)))
			}
			run(fmt.Sprintf("req 0 %d", []int{1, 2, 5}[r.Intn(3)]))
			run("lrestart")
			run(fmt.Sprintf("req %d 1", r.Range(1, 2)))
			run("req 0 1")
			run("pinit")
		case 4:
			// a local allocator close to the logical limit: the global request has to carry into the
			// physical part when it re-adds its count (afterwards every memory is small again)
			f := strings.Fields(p.view())
			d := r.Range(1, 2)
			var ms, l int64
			fmt.Sscanf(strings.ReplaceAll(f[d], ":", " "), "%d %d", &ms, &l)
			c := []int{100, 200}[r.Intn(2)]
			run(fmt.Sprintf("setts %d %d %d", d, ms+int64(r.Range(1, 3)), 65536-r.Range(2, c-10)))
			run(fmt.Sprintf("req 0 %d", c))
			run("pinit")
		case 5:
			// requests that cannot be served within one millisecond (monitor only: the retry loop and the
			// updater daemon interleave freely); the views are re-read afterwards
			run(fmt.Sprintf("bigreq %d %d", r.Range(0, 2), []int{20000, 40000, 65535, 65536, 70000}[r.Intn(5)]))
			run("pinit")
		case 0:
			run(fmt.Sprintf("req %d %d", r.Range(1, 2), []int{1, 1, 2, 5, 50}[r.Intn(5)]))
		case 1:
			run(fmt.Sprintf("req 0 %d", []int{1, 1, 2, 5, 50}[r.Intn(5)]))
		case 2:
			// move one allocator ahead of (or next to) the others
			f := strings.Fields(p.view())
			a := r.Intn(3)
			var ms, l int64
			fmt.Sscanf(strings.ReplaceAll(f[a], ":", " "), "%d %d", &ms, &l)
			switch r.Intn(4) {
			case 0:
				ms += int64(r.Range(1, 5))
			case 1:
				ms += int64(r.Range(100, 100000))
			case 2:
				l += int64(r.Range(1, 200))
			default:
				ms, l = ms+1, int64(r.Intn(1000))
			}
			run(fmt.Sprintf("setts %d %d %d", a, ms, l%100000))
		case 3:
			if r.Bool(7, 10) {
				// a local allocator ahead of the global estimate: concurrent global requests then all
				// receive the same larger local maximum
				f := strings.Fields(p.view())
				d := r.Range(1, 2)
				var ms, l int64
				fmt.Sscanf(strings.ReplaceAll(f[d], ":", " "), "%d %d", &ms, &l)
				run(fmt.Sprintf("setts %d %d %d", d, ms+int64(r.Range(1, 50000)), r.Intn(1000)))
			}
			if r.Bool(1, 3) {
				// through the real pd client: concurrent callers are batched by the client and the batch
				// is split by its own addLogical arithmetic
				run(fmt.Sprintf("burst %d %d 1 %d cli", r.Range(2, 8), r.Range(0, 5), r.Intn(1000)))
			} else {
				run(fmt.Sprintf("burst %d %d %d %d", r.Range(2, 6), r.Range(0, 4), []int{1, 1, 3, 10}[r.Intn(4)], r.Intn(1000)))
			}
			run("pinit")
		}
	}
}
