// Command syncer drives the real region syncer (server/region_syncer) and writes the
// `<op> => <observation>` trace judged by the Lean model (property C16).
//
// Two groups of ops:
//
//	hb …      the unexported historyBuffer through the add-only hook (any capacity, a failing kv)
//	leader / put / follower / connect / check / disconnect / restart
//	          a leader RegionSyncer behind a real gRPC server (RegionSyncer.Sync + RunServer) and follower
//	          RegionSyncers running the real StartSyncWithLeader loop against it, each node with its own
//	          BasicCluster and its own core.Storage + RegionStorage (leveldb under /var/tmp)
package main

import (
	"context"
	"errors"
	"flag"
	"fmt"
	"net"
	"os"
	"sort"
	"strconv"
	"strings"
	"sync"
	"sync/atomic"
	"time"

	"github.com/gogo/protobuf/proto"
	"github.com/pingcap/kvproto/pkg/metapb"
	"github.com/pingcap/kvproto/pkg/pdpb"
	"github.com/tikv/pd/pkg/grpcutil"
	"github.com/tikv/pd/server/core"
	"github.com/tikv/pd/server/kv"
	syncer "github.com/tikv/pd/server/region_syncer"
	"google.golang.org/grpc"
	"google.golang.org/grpc/keepalive"

	_ "verifharness/internal/quiet"
	"verifharness/internal/rng"
	"verifharness/internal/trace"
)

// ---------------------------------------------------------------------------------------------
// a kv.Base whose Save can be made to fail (history index persistence)

type failKV struct {
	kv.Base
	failSave bool
	mu       sync.Mutex
	once     map[string]int  // keys whose next write(s) fail
	always   map[string]bool // keys whose writes fail until told otherwise
}

var errInjected = errors.New("injected kv error")

func (k *failKV) Save(key, value string) error {
	if k.failSave {
		return errInjected
	}
	k.mu.Lock()
	if k.once[key] > 0 {
		k.once[key]--
		k.mu.Unlock()
		return errInjected
	}
	fail := k.always[key]
	k.mu.Unlock()
	if fail {
		return errInjected
	}
	return k.Base.Save(key, value)
}

func regionKey(id uint64) string { return fmt.Sprintf("raft/r/%020d", id) }

// snapshot freezes the failure settings as they are now; every call of the result gives a fresh predicate over them
func (k *failKV) snapshot() func() func(uint64) bool {
	if k == nil {
		return func() func(uint64) bool { return func(uint64) bool { return false } }
	}
	k.mu.Lock()
	once := map[string]int{}
	for a, b := range k.once {
		once[a] = b
	}
	always := map[string]bool{}
	for a, b := range k.always {
		always[a] = b
	}
	k.mu.Unlock()
	frozen := &failKV{once: once, always: always}
	return func() func(uint64) bool { return frozen.failing() }
}

// failing returns a predicate that says, and consumes like the kv will, whether the next save of a region fails;
// it works on a copy of the counters
func (k *failKV) failing() func(id uint64) bool {
	if k == nil {
		return func(uint64) bool { return false }
	}
	k.mu.Lock()
	once := map[string]int{}
	for a, b := range k.once {
		once[a] = b
	}
	always := map[string]bool{}
	for a, b := range k.always {
		always[a] = b
	}
	k.mu.Unlock()
	return func(id uint64) bool {
		key := regionKey(id)
		if once[key] > 0 {
			once[key]--
			return true
		}
		return always[key]
	}
}

// ---------------------------------------------------------------------------------------------
// nodes

type node struct {
	w      *world
	name   string
	dir    string
	ctx    context.Context
	cancel context.CancelFunc
	rs     *core.RegionStorage
	st     *core.Storage
	bc     *core.BasicCluster
	sy     *syncer.RegionSyncer
	hcap   int

	// leader
	gs        *grpc.Server
	addr      string
	notifier  chan *core.RegionInfo
	quit      chan struct{}
	order     string
	everBound bool
	mu        sync.Mutex
	cur       map[string]*recStream
	sent      map[string][]*pdpb.SyncRegionResponse // successfully sent, per follower name
	nstreams  map[string]int                        // streams opened, per follower name
	synced    map[string]int                        // per follower name: streams whose history sync has completed (bindStream done)
	ended     map[string]int                        // per follower name: streams whose server-side handler has returned

	storCalls int64 // calls of GetStorage (see there)
	alive     int64 // keep-alive messages (no regions) RunServer's 10 s ticker has sent since the last op

	// follower
	base      *failKV // plain followers: the default kv the regions are saved to (writes can be made to fail)
	connected bool
	stopped   chan struct{} // closed when the previous StopSyncWithLeader has returned
}

func (n *node) LoopContext() context.Context { return n.ctx }
func (n *node) ClusterID() uint64            { return 7 }
func (n *node) GetMemberInfo() *pdpb.Member {
	return &pdpb.Member{Name: n.name, MemberId: 1, ClientUrls: []string{"http://127.0.0.1:1"}}
}
func (n *node) GetLeader() *pdpb.Member { return &pdpb.Member{Name: "leader"} }

// GetStorage is what the follower's receive loop asks for once per region it applies (right after
// CheckAndPutRegion, right before SaveRegion) and once per StartSyncWithLeader (LoadRegionsOnce): counting the calls
// tells how many regions a follower has taken in, which its next index cannot (a reset can land on the same value)
func (n *node) GetStorage() *core.Storage {
	atomic.AddInt64(&n.storCalls, 1)
	return n.st
}

func (n *node) applied() int64 { return atomic.LoadInt64(&n.storCalls) }

func (n *node) Name() string                        { return n.name }
func (n *node) GetTLSConfig() *grpcutil.TLSConfig   { return &grpcutil.TLSConfig{} }
func (n *node) GetBasicCluster() *core.BasicCluster { return n.bc }

// GetRegions is what the real server answers from its cluster (map order there); the order is an input
// of the `connect` op so that the model can follow it.
func (n *node) GetRegions() []*core.RegionInfo {
	rs := n.bc.GetRegions()
	sort.Slice(rs, func(i, j int) bool { return rs[i].GetID() < rs[j].GetID() })
	return permute(rs, n.order)
}

// permute reorders an id-sorted list: asc | desc | rot<k> (rotate left by k mod n) | evenodd
func permute(rs []*core.RegionInfo, order string) []*core.RegionInfo {
	n := len(rs)
	out := make([]*core.RegionInfo, 0, n)
	switch {
	case order == "desc":
		for i := n - 1; i >= 0; i-- {
			out = append(out, rs[i])
		}
	case strings.HasPrefix(order, "rot") && n > 0:
		k, _ := strconv.Atoi(order[3:])
		k %= n
		out = append(out, rs[k:]...)
		out = append(out, rs[:k]...)
	case order == "evenodd":
		for i := 0; i < n; i += 2 {
			out = append(out, rs[i])
		}
		for i := 1; i < n; i += 2 {
			out = append(out, rs[i])
		}
	default:
		out = append(out, rs...)
	}
	return out
}

func (w *world) openNode(name, dir string, hcap int) *node { return w.openNodeOn(name, dir, hcap, nil) }

// openNodeOn: with a base kv the node saves regions to it (`use-region-storage = false`), else to its region storage
func (w *world) openNodeOn(name, dir string, hcap int, base *failKV) *node {
	n := &node{w: w, name: name, dir: dir, hcap: hcap, base: base}
	n.ctx, n.cancel = context.WithCancel(context.Background())
	rs, err := core.NewRegionStorage(n.ctx, dir, nil)
	if err != nil {
		panic(err)
	}
	n.rs = rs
	if base != nil {
		n.st = core.NewStorage(base, core.WithRegionStorage(rs))
	} else {
		n.st = core.NewStorage(kv.NewMemoryKV(), core.WithRegionStorage(rs))
		n.st.SwitchToRegionStorage()
	}
	n.bc = core.NewBasicCluster()
	n.sy = syncer.NewRegionSyncer(n)
	if hcap > 0 {
		n.sy.VerifSetHistorySize(hcap)
	}
	return n
}

func (n *node) close() {
	if n.gs != nil {
		close(n.quit)
		n.gs.Stop()
	}
	if n.connected {
		n.disconnect()
	}
	n.cancel()
	n.rs.Close()
}

// ---------------------------------------------------------------------------------------------
// the leader's gRPC side: only the SyncRegions stream of service pdpb.PD

type recStream struct {
	grpc.ServerStream
	l     *node
	name  string
	recvs int
	// a slow link: Sends queue up behind sendMu; an armed gate parks the next Send before it serialises
	sendMu  sync.Mutex
	armed   bool
	parked  chan struct{}
	release chan struct{}
}

func (x *recStream) arm() {
	x.l.mu.Lock()
	x.armed, x.parked, x.release = true, make(chan struct{}), make(chan struct{})
	x.l.mu.Unlock()
}

func (x *recStream) Send(m *pdpb.SyncRegionResponse) error {
	x.l.mu.Lock()
	armed, p, r := x.armed, x.parked, x.release
	x.armed = false
	x.l.mu.Unlock()
	if armed {
		close(p)
		<-r
	}
	x.sendMu.Lock()
	defer x.sendMu.Unlock()
	// gRPC serialises inside SendMsg; record what is on the wire at this moment
	b, err := proto.Marshal(m)
	if err != nil {
		panic(err)
	}
	c := &pdpb.SyncRegionResponse{}
	if err := proto.Unmarshal(b, c); err != nil {
		panic(err)
	}
	// Only what was really handed to gRPC counts as sent (a broadcast to a dead stream fails here).  It is noted
	// BEFORE SendMsg - the follower may have applied the message before SendMsg returns - and taken back on failure.
	keepAlive := len(c.GetRegions()) == 0 // RunServer's ticker: a trace line of its own (see world.keepalives)
	x.l.mu.Lock()
	if keepAlive {
		atomic.AddInt64(&x.l.alive, 1)
	} else {
		x.l.sent[x.name] = append(x.l.sent[x.name], c)
	}
	x.l.mu.Unlock()
	if err := x.ServerStream.SendMsg(m); err != nil {
		x.l.mu.Lock()
		if keepAlive {
			atomic.AddInt64(&x.l.alive, -1)
		} else {
			ms := x.l.sent[x.name]
			for i := len(ms) - 1; i >= 0; i-- {
				if ms[i] == c {
					x.l.sent[x.name] = append(ms[:i:i], ms[i+1:]...)
					break
				}
			}
		}
		x.l.mu.Unlock()
		return err
	}
	return nil
}

func (x *recStream) Recv() (*pdpb.SyncRegionRequest, error) {
	// RegionSyncer.Sync comes back for the next request right after syncHistoryRegion + bindStream
	x.recvs++
	if x.recvs == 2 {
		x.l.mu.Lock()
		x.l.synced[x.name]++
		x.l.mu.Unlock()
	}
	m := new(pdpb.SyncRegionRequest)
	if err := x.ServerStream.RecvMsg(m); err != nil {
		return nil, err
	}
	x.name = m.GetMember().GetName()
	x.l.mu.Lock()
	x.l.cur[x.name] = x // the stream of the follower's latest connection
	x.l.nstreams[x.name]++
	x.l.mu.Unlock()
	return m, nil
}

var syncDesc = grpc.ServiceDesc{
	ServiceName: "pdpb.PD",
	HandlerType: (*interface{})(nil),
	Streams: []grpc.StreamDesc{{
		StreamName:    "SyncRegions",
		ServerStreams: true,
		ClientStreams: true,
		Handler: func(srv interface{}, stream grpc.ServerStream) error {
			l := srv.(*node)
			x := &recStream{ServerStream: stream, l: l}
			err := l.sy.Sync(x)
			l.mu.Lock()
			l.ended[x.name]++
			l.mu.Unlock()
			return err
		},
	}},
}

func (n *node) serve() {
	lis, err := net.Listen("tcp", "127.0.0.1:0")
	if err != nil {
		panic(err)
	}
	n.addr = "http://" + lis.Addr().String()
	// PD serves gRPC through the embedded etcd, whose keep-alive enforcement (min time 5 s) admits the
	// follower's 10 s pings; the grpc default (5 min) would answer them with GOAWAY
	n.gs = grpc.NewServer(grpc.MaxRecvMsgSize(64<<20), grpc.MaxSendMsgSize(64<<20),
		grpc.KeepaliveEnforcementPolicy(keepalive.EnforcementPolicy{MinTime: 5 * time.Second, PermitWithoutStream: false}))
	n.gs.RegisterService(&syncDesc, n)
	n.cur = map[string]*recStream{}
	n.sent = map[string][]*pdpb.SyncRegionResponse{}
	n.nstreams = map[string]int{}
	n.synced = map[string]int{}
	n.ended = map[string]int{}
	// buffered like the server's changedRegions channel: several changes can be pending when RunServer wakes up
	n.notifier = make(chan *core.RegionInfo, 16)
	n.quit = make(chan struct{})
	go n.gs.Serve(lis)
	go n.sy.RunServer(n.notifier, n.quit)
}

// takeSent returns (and forgets) what has been sent successfully to the follower of that name
func (n *node) takeSent(name string) []*pdpb.SyncRegionResponse {
	n.mu.Lock()
	defer n.mu.Unlock()
	s := n.sent[name]
	n.sent[name] = nil
	return s
}

func (n *node) peekSent(name string) ([]*pdpb.SyncRegionResponse, int) {
	n.mu.Lock()
	defer n.mu.Unlock()
	return append([]*pdpb.SyncRegionResponse(nil), n.sent[name]...), n.nstreams[name]
}

func (n *node) syncedCount(name string) int {
	n.mu.Lock()
	defer n.mu.Unlock()
	return n.synced[name]
}

func (n *node) endedCount(name string) int {
	n.mu.Lock()
	defer n.mu.Unlock()
	return n.ended[name]
}

// ---------------------------------------------------------------------------------------------
// region text format  id:start:end:confver:version:peers:leader:stats
//   peers  = p/s/r,p/s/r,… or -      leader = p/s/r or -      stats = bw/br/kw/kr
//   keys are numbers; 0 is the empty key (as end key: +inf), n>0 is the 6-digit decimal string

func keyOf(n uint64) []byte {
	if n == 0 {
		return nil
	}
	return []byte(fmt.Sprintf("%06d", n))
}

func keyNum(b []byte) uint64 {
	if len(b) == 0 {
		return 0
	}
	n, err := strconv.ParseUint(string(b), 10, 64)
	if err != nil {
		panic("unexpected key " + string(b))
	}
	return n
}

func u(s string) uint64 {
	n, err := strconv.ParseUint(s, 10, 64)
	if err != nil {
		panic("bad number " + s)
	}
	return n
}

func parseRegion(s string) *core.RegionInfo {
	f := strings.Split(s, ":")
	if len(f) != 8 {
		panic("bad region " + s)
	}
	meta := &metapb.Region{Id: u(f[0]), StartKey: keyOf(u(f[1])), EndKey: keyOf(u(f[2])),
		RegionEpoch: &metapb.RegionEpoch{ConfVer: u(f[3]), Version: u(f[4])}}
	if f[5] != "-" {
		for _, p := range strings.Split(f[5], ",") {
			q := strings.Split(p, "/")
			meta.Peers = append(meta.Peers, &metapb.Peer{Id: u(q[0]), StoreId: u(q[1]), Role: metapb.PeerRole(u(q[2]))})
		}
	}
	var leader *metapb.Peer
	if f[6] != "-" {
		q := strings.Split(f[6], "/")
		leader = &metapb.Peer{Id: u(q[0]), StoreId: u(q[1]), Role: metapb.PeerRole(u(q[2]))}
	}
	q := strings.Split(f[7], "/")
	return core.NewRegionInfo(meta, leader, core.SetWrittenBytes(u(q[0])), core.SetReadBytes(u(q[1])),
		core.SetWrittenKeys(u(q[2])), core.SetReadKeys(u(q[3])))
}

func fmtRegion(r *core.RegionInfo) string {
	var sb strings.Builder
	m := r.GetMeta()
	fmt.Fprintf(&sb, "%d:%d:%d:%d:%d:", m.GetId(), keyNum(m.GetStartKey()), keyNum(m.GetEndKey()),
		m.GetRegionEpoch().GetConfVer(), m.GetRegionEpoch().GetVersion())
	if len(m.Peers) == 0 {
		sb.WriteString("-")
	}
	for i, p := range m.Peers {
		if i > 0 {
			sb.WriteString(",")
		}
		fmt.Fprintf(&sb, "%d/%d/%d", p.GetId(), p.GetStoreId(), int(p.GetRole()))
	}
	if l := r.GetLeader(); l != nil {
		fmt.Fprintf(&sb, ":%d/%d/%d", l.GetId(), l.GetStoreId(), int(l.GetRole()))
	} else {
		sb.WriteString(":-")
	}
	fmt.Fprintf(&sb, ":%d/%d/%d/%d", r.GetBytesWritten(), r.GetBytesRead(), r.GetKeysWritten(), r.GetKeysRead())
	return sb.String()
}

func dump(bc *core.BasicCluster) string {
	rs := bc.GetRegions()
	sort.Slice(rs, func(i, j int) bool { return rs[i].GetID() < rs[j].GetID() })
	parts := make([]string, len(rs))
	for i, r := range rs {
		parts[i] = fmtRegion(r)
	}
	return "[" + strings.Join(parts, ";") + "]"
}

// fmtMsgs: per message  start/nregions/nstats/nleaders{id~leaderPeerId,…}
func fmtMsgs(ms []*pdpb.SyncRegionResponse) string {
	parts := make([]string, len(ms))
	for i, m := range ms {
		var sb strings.Builder
		fmt.Fprintf(&sb, "%d/%d/%d/%d{", m.GetStartIndex(), len(m.GetRegions()), len(m.GetRegionStats()), len(m.GetRegionLeaders()))
		for j, r := range m.GetRegions() {
			if j > 0 {
				sb.WriteString(",")
			}
			l := "x"
			if j < len(m.GetRegionLeaders()) {
				l = strconv.FormatUint(m.GetRegionLeaders()[j].GetId(), 10)
			}
			fmt.Fprintf(&sb, "%d~%s", r.GetId(), l)
		}
		sb.WriteString("}")
		parts[i] = sb.String()
	}
	return "[" + strings.Join(parts, ";") + "]"
}

// ---------------------------------------------------------------------------------------------
// the world

type world struct {
	base      string // scratch directory of this process
	seq       int
	nodeSeq   int
	leader    *node
	followers []*node

	// hb ops
	hkv  *failKV
	hb   *syncer.VerifHistoryBuffer
	hcap int
	held map[int][]*core.RegionInfo // answers of RecordsFrom kept by the caller
}

func (w *world) newDir() string {
	w.nodeSeq++
	d := fmt.Sprintf("%s/n%d", w.base, w.nodeSeq)
	return d
}

func (w *world) reset() {
	for _, f := range w.followers {
		f.close()
	}
	if w.leader != nil {
		w.leader.close()
	}
	for _, f := range w.followers {
		os.RemoveAll(f.dir)
	}
	if w.leader != nil {
		os.RemoveAll(w.leader.dir)
	}
	w.leader, w.followers = nil, nil
	w.hkv, w.hb, w.held = nil, nil, nil
	w.seq++
}

func waitFor(d time.Duration, cond func() bool) bool {
	deadline := time.Now().Add(d)
	for i := 0; ; i++ {
		if cond() {
			return true
		}
		if time.Now().After(deadline) {
			return false
		}
		if i < 200 {
			time.Sleep(20 * time.Microsecond)
		} else {
			time.Sleep(time.Millisecond)
		}
	}
}

const waitLimit = 40 * time.Second

// lagLimit: how long a live follower may take to show a region it was sent before it is reported as lagging (a
// loaded machine has stalled a follower for more than 5 s)
const lagLimit = 20 * time.Second

// expectedNext simulates the follower's index bookkeeping over the messages (ResetWithIndex on a
// mismatch, one Record per region).
func expectedNext(cur uint64, ms []*pdpb.SyncRegionResponse, fails func(uint64) bool) uint64 {
	for _, m := range ms {
		if cur != m.GetStartIndex() {
			cur = m.GetStartIndex()
		}
		for _, r := range m.GetRegions() {
			if !fails(r.GetId()) { // a region whose save fails is not recorded
				cur++
			}
		}
	}
	return cur
}

// disconnect stops the follower's receive loop.  StopSyncWithLeader cancels the stream at once but returns
// only after the loop's one-second sleep, so it runs in the background; the op is complete when the leader's
// handler of this stream has returned (nothing can reach the follower any more).

func (f *node) disconnect() {
	f.connected = false
	done := make(chan struct{})
	f.stopped = done
	l := f.w.leader
	before := 0
	if l != nil {
		before = l.endedCount(f.name)
	}
	go func() {
		f.sy.StopSyncWithLeader()
		close(done)
	}()
	if l != nil {
		waitFor(waitLimit, func() bool { return l.endedCount(f.name) > before })
	}
}

func (w *world) follower(s string) *node {
	i, err := strconv.Atoi(s)
	if err != nil || i < 0 || i >= len(w.followers) {
		return nil
	}
	return w.followers[i]
}

func (w *world) hbObs() string {
	v, _ := w.hkv.Base.Load(syncer.VerifHistoryKey)
	if v == "" {
		v = "-"
	}
	return fmt.Sprintf("next=%d first=%d len=%d kv=%s", w.hb.GetNextIndex(), w.hb.VerifFirstIndex(), w.hb.VerifLen(), v)
}

func ids(rs []*core.RegionInfo) string {
	parts := make([]string, len(rs))
	for i, r := range rs {
		if r == nil {
			parts[i] = "nil"
		} else {
			parts[i] = strconv.FormatUint(r.GetID(), 10)
		}
	}
	return "[" + strings.Join(parts, ",") + "]"
}

func (w *world) exec(op string) string {
	f := strings.Fields(op)
	bad := "bad-op"
	if len(f) == 0 {
		return bad
	}
	switch {
	case f[0] == "reset" && len(f) == 1:
		w.reset()
		return "ok"

	// ---- history buffer through the hook -------------------------------------------------
	case f[0] == "hb" && len(f) >= 2:
		switch {
		case f[1] == "new" && len(f) == 3:
			w.hcap, _ = strconv.Atoi(f[2])
			w.hkv = &failKV{Base: kv.NewMemoryKV()}
			w.hb = syncer.NewVerifHistoryBuffer(w.hcap, w.hkv)
			w.held = map[int][]*core.RegionInfo{}
			return w.hbObs()
		case w.hb == nil:
			return bad
		case f[1] == "rec" && (len(f) == 3 || len(f) == 4):
			w.hkv.failSave = len(f) == 4 && f[3] == "fail"
			w.hb.Record(core.NewRegionInfo(&metapb.Region{Id: u(f[2])}, nil))
			w.hkv.failSave = false
			return w.hbObs()
		case f[1] == "recn" && len(f) == 4: // n records with ids id, id+1, …
			n, id := int(u(f[2])), u(f[3])
			for i := 0; i < n; i++ {
				w.hb.Record(core.NewRegionInfo(&metapb.Region{Id: id + uint64(i)}, nil))
			}
			return w.hbObs()
		case f[1] == "from" && len(f) == 3:
			return ids(w.hb.RecordsFrom(u(f[2])))
		case f[1] == "hold" && len(f) == 4: // keep the answer of RecordsFrom in slot k
			k, _ := strconv.Atoi(f[2])
			if k < 0 || k > 3 {
				return bad
			}
			w.held[k] = w.hb.RecordsFrom(u(f[3]))
			return ids(w.held[k])
		case f[1] == "recheck" && len(f) == 3: // look at the kept answer again
			k, _ := strconv.Atoi(f[2])
			h, ok := w.held[k]
			if !ok {
				return bad
			}
			return ids(h)
		case f[1] == "get" && len(f) == 3:
			r := w.hb.VerifGet(u(f[2]))
			if r == nil {
				return "nil"
			}
			return strconv.FormatUint(r.GetID(), 10)
		case f[1] == "resetidx" && (len(f) == 3 || len(f) == 4):
			w.hkv.failSave = len(f) == 4 && f[3] == "fail"
			w.hb.ResetWithIndex(u(f[2]))
			w.hkv.failSave = false
			return w.hbObs()
		case f[1] == "restart" && (len(f) == 2 || len(f) == 3):
			if len(f) == 3 {
				w.hcap, _ = strconv.Atoi(f[2])
			}
			w.hb = syncer.NewVerifHistoryBuffer(w.hcap, w.hkv)
			return w.hbObs()
		}
		return bad

	// ---- leader / followers -----------------------------------------------------------------
	case f[0] == "leader" && len(f) == 2:
		if w.leader != nil {
			return bad
		}
		c, _ := strconv.Atoi(f[1])
		w.leader = w.openNode("leader", w.newDir(), c)
		w.leader.serve()
		return "ok"
	case (f[0] == "put" && len(f) == 2) || (f[0] == "putn" && len(f) == 3):
		l := w.leader
		if l == nil {
			return bad
		}
		times, spec := 1, f[1]
		if f[0] == "putn" {
			times, spec = int(u(f[1])), f[2]
		}
		if parseRegion(spec).GetLeader() == nil && l.everBound {
			// RunServer marshals a nil leader into the broadcast: the leader process dies (not part of C16)
			return bad
		}
		h := l.sy.VerifHistory()
		accepted := 0
		lagging := ""
		for k := 0; k < times; k++ {
			r := parseRegion(spec)
			res := l.bc.CheckAndPutRegion(r)
			if len(res) == 1 && res[0] == r {
				if f[0] == "put" {
					return "stale"
				}
				continue
			}
			accepted++
			before := h.GetNextIndex()
			// will the write of this region fail on a follower?  (asked before the broadcast consumes a one-shot)
			willFail := make([]bool, len(w.followers))
			taken := make([]int64, len(w.followers))
			for i, fo := range w.followers {
				willFail[i] = fo.base.failing()(r.GetID())
				taken[i] = fo.applied()
			}
			l.notifier <- r
			if !waitFor(waitLimit, func() bool { return h.GetNextIndex() == before+1 }) {
				return "timeout-record"
			}
			// the broadcast itself runs after the record: it is over when every live follower has the record and
			// every stream of a follower that is gone has been dropped (its Send fails) - otherwise the late
			// `delete(streams, name)` of RunServer could hit the stream of that follower's next connection
			for i, fo := range w.followers {
				if !fo.connected {
					name := fo.name
					if !waitFor(waitLimit, func() bool { return !l.sy.VerifHasStream(name) }) {
						return fmt.Sprintf("timeout-drop-%d", i)
					}
					continue
				}
				fh := fo.sy.VerifHistory()
				// complete = the follower has taken in one more region and its index is where that leaves it: the
				// leader's next index, or the message's start index if the follower's write of this region fails
				wantIdx, wantTaken := before+1, taken[i]+1
				if willFail[i] {
					wantIdx = before
				}
				o := fo
				if !waitFor(lagLimit, func() bool { return o.applied() >= wantTaken && fh.GetNextIndex() == wantIdx }) {
					ms, ns := l.peekSent(fo.name)
					lagging += fmt.Sprintf(" lagging-%d=%d bound-%d=%v streams-%d=%d sent-%d=%d", i, fh.GetNextIndex(),
						i, l.sy.VerifHasStream(fo.name), i, ns, i, len(ms))
				}
			}
		}
		if f[0] == "putn" {
			return fmt.Sprintf("ok accepted=%d next=%d%s", accepted, h.GetNextIndex(), lagging)
		}
		return fmt.Sprintf("ok next=%d%s", h.GetNextIndex(), lagging)
	case f[0] == "keepalive" && len(f) == 1:
		// replay of a keep-alive: the same message RunServer's ticker sends, on every live follower's stream
		l := w.leader
		if l == nil {
			return bad
		}
		alive := &pdpb.SyncRegionResponse{Header: &pdpb.ResponseHeader{ClusterId: l.ClusterID()},
			StartIndex: l.sy.VerifHistory().GetNextIndex()}
		for _, fo := range w.followers {
			if !fo.connected {
				continue
			}
			l.mu.Lock()
			x := l.cur[fo.name]
			l.mu.Unlock()
			if x != nil {
				x.sendMu.Lock()
				x.ServerStream.SendMsg(alive)
				x.sendMu.Unlock()
			}
		}
		w.awaitAlive()
		return "ok"
	case f[0] == "lrestart" && len(f) == 1:
		// the leader process restarts (same regions, as reloaded from its storage): the history index comes back
		// from the kv, every stream is gone; the followers have to connect again
		l := w.leader
		if l == nil {
			return bad
		}
		for _, fo := range w.followers {
			if fo.connected {
				fo.disconnect()
			}
		}
		close(l.quit)
		l.gs.Stop()
		l.cancel()
		if err := l.rs.Close(); err != nil {
			return "close-error"
		}
		n := w.openNode("leader", l.dir, l.hcap)
		n.bc = l.bc
		n.serve()
		w.leader = n
		return fmt.Sprintf("ok lnext=%d", n.sy.VerifHistory().GetNextIndex())
	case f[0] == "burst" && len(f) >= 4:
		// changes arriving while follower i's stream is busy: its next Send is parked before it serialises, the
		// first change is notified, then (while that Send is parked) the others; the gate opens 50 ms later
		fo, l := w.follower(f[1]), w.leader
		if fo == nil || l == nil || !fo.connected || len(f) > 7 {
			return bad
		}
		for _, spec := range f[2:] {
			r := parseRegion(spec)
			if r.GetLeader() == nil {
				return bad
			}
			for _, o := range w.followers {
				if o.connected && o.base.failing()(r.GetID()) {
					return bad // bursts and failing follower writes are exercised separately
				}
			}
		}
		l.mu.Lock()
		x := l.cur[fo.name]
		l.mu.Unlock()
		if x == nil {
			return bad
		}
		h, fh := l.sy.VerifHistory(), fo.sy.VerifHistory()
		before := h.GetNextIndex()
		l.takeSent(fo.name)
		var acc strings.Builder
		var rest []*core.RegionInfo
		taken := make([]int64, len(w.followers))
		for i, o := range w.followers {
			taken[i] = o.applied()
		}
		first := true
		for _, spec := range f[2:] {
			r := parseRegion(spec)
			res := l.bc.CheckAndPutRegion(r)
			if len(res) == 1 && res[0] == r {
				acc.WriteByte('0')
				continue
			}
			acc.WriteByte('1')
			if first {
				first = false
				x.arm()
				l.notifier <- r
				select {
				case <-x.parked:
				case <-time.After(waitLimit):
					return "timeout-park"
				}
			} else {
				rest = append(rest, r)
			}
		}
		n := uint64(strings.Count(acc.String(), "1"))
		if n == 0 {
			return fmt.Sprintf("ok acc=%s next=%d msgs=[] fnext=%d", acc.String(), before, fh.GetNextIndex())
		}
		// the others queue up in the notifier channel while the first send is parked (RunServer drains them in
		// one wake-up: one message for all of them)
		queued := make(chan struct{})
		go func() {
			for _, r := range rest {
				l.notifier <- r
			}
			close(queued)
		}()
		select {
		case <-queued:
		case <-time.After(50 * time.Millisecond):
		}
		time.Sleep(20 * time.Millisecond)
		close(x.release)
		tail := ""
		if !waitFor(waitLimit, func() bool { return h.GetNextIndex() == before+n }) {
			return "timeout-record"
		}
		for i, o := range w.followers {
			if !o.connected {
				name := o.name
				waitFor(waitLimit, func() bool { return !l.sy.VerifHasStream(name) })
				continue
			}
			oh := o.sy.VerifHistory()
			oo, wantTaken := o, taken[i]+int64(n)
			if !waitFor(lagLimit, func() bool { return oo.applied() >= wantTaken && oh.GetNextIndex() == before+n }) {
				tail = fmt.Sprintf(" timeout-follower-%d", i)
			}
		}
		if tail == "" {
			// every message must have left the leader before it is looked at
			wantMsgs := 2 // the first change alone, the others in one message
			if n == 1 {
				wantMsgs = 1
			}
			waitFor(5*time.Second, func() bool { ms, _ := l.peekSent(fo.name); return len(ms) >= wantMsgs })
		}
		ms := l.takeSent(fo.name)
		return fmt.Sprintf("ok acc=%s next=%d msgs=%s fnext=%d%s", acc.String(), h.GetNextIndex(), fmtMsgs(ms), fh.GetNextIndex(), tail)
	case f[0] == "follower" && (len(f) == 2 || (len(f) == 3 && f[2] == "plain")):
		if len(w.followers) >= 4 {
			return bad
		}
		c, _ := strconv.Atoi(f[1])
		var base *failKV
		if len(f) == 3 {
			base = &failKV{Base: kv.NewMemoryKV(), once: map[string]int{}, always: map[string]bool{}}
		}
		n := w.openNodeOn(fmt.Sprintf("f%d", len(w.followers)), w.newDir(), c, base)
		w.followers = append(w.followers, n)
		return "ok"
	case f[0] == "failsave" && len(f) == 4:
		// the write of that region's key on the follower's kv fails: once / always / off
		fo := w.follower(f[1])
		if fo == nil || fo.base == nil {
			return bad
		}
		key := regionKey(u(f[2]))
		fo.base.mu.Lock()
		switch f[3] {
		case "once":
			fo.base.once[key]++
		case "always":
			fo.base.always[key] = true
		case "off":
			delete(fo.base.once, key)
			delete(fo.base.always, key)
		default:
			fo.base.mu.Unlock()
			return bad
		}
		fo.base.mu.Unlock()
		return "ok"
	case f[0] == "connect" && len(f) == 3:
		fo, l := w.follower(f[1]), w.leader
		if fo == nil || l == nil || fo.connected {
			return bad
		}
		if fo.stopped != nil {
			<-fo.stopped
			fo.stopped = nil
		}
		l.order = f[2]
		l.everBound = true
		l.takeSent(fo.name)
		fh := fo.sy.VerifHistory()
		start := fh.GetNextIndex()
		before := l.syncedCount(fo.name)
		_, streams0 := l.peekSent(fo.name)
		failsBefore := fo.base.snapshot()
		taken0 := fo.applied()
		fo.sy.StartSyncWithLeader(l.addr)
		fo.connected = true
		if !waitFor(waitLimit, func() bool { return l.syncedCount(fo.name) > before && l.sy.VerifHasStream(fo.name) }) {
			return "timeout-bind"
		}
		tail := ""
		if !waitFor(waitLimit, func() bool {
			// one GetStorage call for LoadRegionsOnce, one per region received
			ms, _ := l.peekSent(fo.name)
			n := int64(1)
			for _, m := range ms {
				n += int64(len(m.GetRegions()))
			}
			return fo.applied() >= taken0+n && fh.GetNextIndex() == expectedNext(start, ms, failsBefore())
		}) {
			_, streams1 := l.peekSent(fo.name)
			tail = fmt.Sprintf(" timeout-apply streams=%d", streams1-streams0)
		}
		ms := l.takeSent(fo.name)
		return fmt.Sprintf("req=%d msgs=%s fnext=%d%s", start, fmtMsgs(ms), fh.GetNextIndex(), tail)
	case f[0] == "raw" && len(f) == 6:
		// a hand-made message on the follower's stream (what an older or a faulty leader could send): the
		// regions of the ;-separated specs, but only the first <nstats> stats and the first <nleaders> leaders
		fo, l := w.follower(f[1]), w.leader
		if fo == nil || l == nil || !fo.connected {
			return bad
		}
		l.mu.Lock()
		x := l.cur[fo.name]
		l.mu.Unlock()
		if x == nil {
			return bad
		}
		msg := &pdpb.SyncRegionResponse{Header: &pdpb.ResponseHeader{ClusterId: l.ClusterID()}, StartIndex: u(f[2])}
		ns, nl := int(u(f[4])), int(u(f[5]))
		for k, spec := range strings.Split(f[3], ";") {
			r := parseRegion(spec)
			msg.Regions = append(msg.Regions, r.GetMeta())
			if k < ns {
				msg.RegionStats = append(msg.RegionStats, r.GetStat())
			}
			if k < nl {
				ld := &metapb.Peer{}
				if r.GetLeader() != nil {
					ld = r.GetLeader()
				}
				msg.RegionLeaders = append(msg.RegionLeaders, ld)
			}
		}
		fh := fo.sy.VerifHistory()
		want := msg.StartIndex + uint64(len(msg.Regions))
		if fh.GetNextIndex() == want {
			return bad // completion could not be observed through the follower's index
		}
		wantTaken := fo.applied() + int64(len(msg.Regions))
		if err := x.ServerStream.SendMsg(msg); err != nil {
			return "send-error"
		}
		tail := ""
		if !waitFor(waitLimit, func() bool { return fo.applied() >= wantTaken && fh.GetNextIndex() == want }) {
			tail = " timeout-apply"
		}
		return fmt.Sprintf("ok fnext=%d%s", fh.GetNextIndex(), tail)
	case f[0] == "disconnect" && len(f) == 2:
		fo := w.follower(f[1])
		if fo == nil || !fo.connected {
			return bad
		}
		fo.disconnect()
		return "ok"
	case f[0] == "check" && len(f) == 2:
		fo, l := w.follower(f[1]), w.leader
		if fo == nil || l == nil {
			return bad
		}
		return fmt.Sprintf("fnext=%d lnext=%d F=%s L=%s", fo.sy.VerifHistory().GetNextIndex(),
			l.sy.VerifHistory().GetNextIndex(), dump(fo.bc), dump(l.bc))
	case f[0] == "restart" && len(f) == 2:
		// clean process restart of a follower: storage flushed and closed, everything volatile dropped
		i, err := strconv.Atoi(f[1])
		fo := w.follower(f[1])
		if err != nil || fo == nil {
			return bad
		}
		if fo.connected {
			fo.disconnect()
		}
		if fo.stopped != nil {
			<-fo.stopped
		}
		fo.cancel()
		if err := fo.rs.Close(); err != nil {
			return "close-error"
		}
		n := w.openNodeOn(fo.name, fo.dir, fo.hcap, fo.base)
		w.followers[i] = n
		return fmt.Sprintf("ok fnext=%d", n.sy.VerifHistory().GetNextIndex())
	}
	return bad
}

// keepalives: RunServer sends `{StartIndex: next index}` every 10 s; a follower whose index differs adopts it.  In a
// slow run that can happen between two ops, so it is written into the trace as a line `keepalive` (the model does the
// same to every connected follower) once its effect is complete.
func (w *world) keepalives(t *trace.W) {
	l := w.leader
	if l == nil || atomic.SwapInt64(&l.alive, 0) <= 0 {
		return
	}
	w.awaitAlive()
	t.Line("keepalive", "ok")
}

func (w *world) awaitAlive() {
	l := w.leader
	next := l.sy.VerifHistory().GetNextIndex()
	for _, fo := range w.followers {
		if fo.connected {
			fh := fo.sy.VerifHistory()
			waitFor(lagLimit, func() bool { return fh.GetNextIndex() == next })
		}
	}
}

func (w *world) run(t *trace.W, op string) {
	if op != "keepalive" {
		w.keepalives(t)
	}
	t.Line(op, w.exec(op))
}

func main() {
	out := flag.String("out", "-", "trace file")
	replay := flag.String("replay", "", "ops file to replay instead of generating")
	n := flag.Int("n", 40, "number of generated sequences")
	maxOps := flag.Int("len", 40, "max ops per sequence")
	stream := flag.Uint64("stream", 0, "PRNG stream")
	reuse := flag.Int("reuse", 8, "how many times a follower may be re-used after a disconnect (each costs ~1 s: the receive loop sleeps before it notices the stop)")
	flag.Parse()

	base, err := os.MkdirTemp("/var/tmp", "verif-syncer-")
	if err != nil {
		panic(err)
	}
	defer os.RemoveAll(base)
	w := &world{base: base}
	t := trace.Create(*out)
	defer t.Close()
	if *replay != "" {
		for _, op := range trace.ReadOps(*replay) {
			w.run(t, op)
		}
		w.reset()
		return
	}
	r := rng.FromEnv(*stream)
	for s := 0; s < *n; s++ {
		gen(w, t, r, *maxOps, reuse)
	}
	w.reset()
}
