package main

import (
	"fmt"
	"os"
	"strconv"
	"strings"
	"time"

	"verifharness/internal/rng"
	"verifharness/internal/trace"
)

// ---------------------------------------------------------------------------------------------
// generator: everything derives from the PRNG; the choices depend on observations only through
// `next=` / `fnext=` fields (index bookkeeping), which the model reproduces.

type gpeer struct{ id, store, role uint64 }

type greg struct {
	id, s, e, cv, v uint64
	peers           []gpeer
	leader          int // index into peers, -1 = none
	st              [4]uint64
}

func (g *greg) spec() string {
	var sb strings.Builder
	fmt.Fprintf(&sb, "%d:%d:%d:%d:%d:", g.id, g.s, g.e, g.cv, g.v)
	if len(g.peers) == 0 {
		sb.WriteString("-")
	}
	for i, p := range g.peers {
		if i > 0 {
			sb.WriteString(",")
		}
		fmt.Fprintf(&sb, "%d/%d/%d", p.id, p.store, p.role)
	}
	if g.leader >= 0 && g.leader < len(g.peers) {
		p := g.peers[g.leader]
		fmt.Fprintf(&sb, ":%d/%d/%d", p.id, p.store, p.role)
	} else {
		sb.WriteString(":-")
	}
	fmt.Fprintf(&sb, ":%d/%d/%d/%d", g.st[0], g.st[1], g.st[2], g.st[3])
	return sb.String()
}

// gstate is the generator's picture of the leader's region set (a partition of the key space when only
// well-formed changes are made).
type gstate struct {
	r        *rng.R
	regs     []*greg // ordered by start key
	nextID   uint64
	nextPeer uint64
	maxV     uint64
}

func (g *gstate) newPeers(n int) []gpeer {
	ps := make([]gpeer, n)
	for i := range ps {
		g.nextPeer++
		role := uint64(0)
		if i == n-1 && g.r.Bool(1, 4) {
			role = 1 // learner
		}
		ps[i] = gpeer{g.nextPeer, uint64(g.r.Range(1, 9)), role}
	}
	return ps
}

func (g *gstate) stats() [4]uint64 {
	var s [4]uint64
	for i := range s {
		switch g.r.Intn(4) {
		case 0:
			s[i] = 0
		case 1:
			s[i] = uint64(g.r.Intn(1000))
		case 2:
			s[i] = g.r.U64() >> 20
		default:
			s[i] = g.r.U64() >> uint(g.r.Intn(40))
		}
	}
	return s
}

func (g *gstate) pickLeader(ps []gpeer, allowNone bool) int {
	if allowNone && g.r.Bool(1, 5) {
		return -1
	}
	if len(ps) == 0 {
		return -1
	}
	return g.r.Intn(len(ps))
}

// populate makes n regions covering [first, +inf) or [first, last)
func (g *gstate) populate(n int, allowNoLeader bool) {
	start := uint64(0)
	if g.r.Bool(1, 4) {
		start = 5
	}
	for i := 0; i < n; i++ {
		g.nextID++
		end := start + uint64(g.r.Range(1, 4))*10
		if i == n-1 && g.r.Bool(2, 3) {
			end = 0
		}
		ps := g.newPeers(g.r.Range(1, 4))
		reg := &greg{id: g.nextID, s: start, e: end, cv: uint64(g.r.Range(1, 3)), v: uint64(g.r.Range(1, 3)),
			peers: ps, leader: g.pickLeader(ps, allowNoLeader), st: g.stats()}
		if reg.v > g.maxV {
			g.maxV = reg.v
		}
		g.regs = append(g.regs, reg)
		start = end
	}
}

// mutate returns the put specs of one well-formed change of the region set
func (g *gstate) mutate(allowNoLeader bool) []string {
	if len(g.regs) == 0 {
		g.populate(1, allowNoLeader)
		return []string{g.regs[0].spec()}
	}
	i := g.r.Intn(len(g.regs))
	x := g.regs[i]
	switch g.r.Pick(30, 20, 15, 15, 12, 8) {
	case 0: // leader change
		x.leader = g.pickLeader(x.peers, allowNoLeader)
		if g.r.Bool(1, 2) {
			x.st = g.stats()
		}
		return []string{x.spec()}
	case 1: // flow only
		x.st = g.stats()
		return []string{x.spec()}
	case 2: // membership change
		x.cv++
		if len(x.peers) > 1 && g.r.Bool(1, 2) {
			k := g.r.Intn(len(x.peers))
			x.peers = append(append([]gpeer{}, x.peers[:k]...), x.peers[k+1:]...)
		} else {
			x.peers = append(x.peers, g.newPeers(1)...)
		}
		x.leader = g.pickLeader(x.peers, allowNoLeader)
		return []string{x.spec()}
	case 3: // split
		if x.e != 0 && x.e-x.s < 2 {
			return g.mutate(allowNoLeader)
		}
		var mid uint64
		if x.e == 0 {
			mid = x.s + uint64(g.r.Range(1, 20))
		} else {
			mid = x.s + 1 + uint64(g.r.Intn(int(x.e-x.s-1)))
		}
		g.maxV++
		g.nextID++
		ps := g.newPeers(len(x.peers))
		right := &greg{id: g.nextID, s: mid, e: x.e, cv: x.cv, v: g.maxV, peers: ps, leader: g.pickLeader(ps, allowNoLeader), st: g.stats()}
		x.e, x.v = mid, g.maxV
		g.regs = append(g.regs[:i+1], append([]*greg{right}, g.regs[i+1:]...)...)
		if g.r.Bool(1, 2) {
			return []string{x.spec(), right.spec()}
		}
		return []string{right.spec(), x.spec()}
	case 4: // merge with the right neighbour
		if i+1 >= len(g.regs) || g.regs[i+1].s != x.e {
			return g.mutate(allowNoLeader)
		}
		y := g.regs[i+1]
		g.maxV++
		if g.r.Bool(1, 2) { // x survives
			x.e, x.v = y.e, g.maxV
			g.regs = append(g.regs[:i+1], g.regs[i+2:]...)
			return []string{x.spec()}
		}
		y.s, y.v = x.s, g.maxV
		g.regs = append(g.regs[:i], g.regs[i+1:]...)
		return []string{y.spec()}
	default: // a stale report (older epoch)
		old := *x
		if old.v > 1 && g.r.Bool(1, 2) {
			old.v--
		} else if old.cv > 1 {
			old.cv--
		} else {
			x.st = g.stats()
			return []string{x.spec()}
		}
		return []string{old.spec()}
	}
}

// wild returns an arbitrary region report (any id, range, epoch)
func (g *gstate) wild() string {
	id := uint64(g.r.Range(1, int(g.nextID)+2))
	s := uint64(g.r.Intn(12)) * 5
	e := s + uint64(g.r.Range(1, 8))*5
	if g.r.Bool(1, 6) {
		e = 0
	}
	ps := g.newPeers(g.r.Range(0, 3))
	l := -1
	if len(ps) > 0 {
		l = g.r.Intn(len(ps))
	}
	reg := &greg{id: id, s: s, e: e, cv: uint64(g.r.Range(1, 4)), v: uint64(g.r.Range(1, int(g.maxV)+1)), peers: ps, leader: l, st: g.stats()}
	if len(ps) == 0 {
		// the broadcast of a region without leader kills the leader process; keep a leader
		reg.peers = g.newPeers(1)
		reg.leader = 0
	}
	return reg.spec()
}

func obsField(obs, key string) (uint64, bool) {
	for _, w := range strings.Fields(obs) {
		if strings.HasPrefix(w, key+"=") {
			n, err := strconv.ParseUint(w[len(key)+1:], 10, 64)
			return n, err == nil
		}
	}
	return 0, false
}

var orders = []string{"asc", "asc", "desc", "evenodd", "rot1", "rot7", "rot50", "rot100", "rot101"}

type gfol struct {
	connected bool
	used      bool // has been disconnected at least once (re-use costs a second of waiting)
	next      uint64
}

func (w *world) do(t *trace.W, op string) string {
	w.keepalives(t)
	t0 := time.Now()
	obs := w.exec(op)
	if d := time.Since(t0); d > 300*time.Millisecond && os.Getenv("VERIF_SLOWOPS") != "" {
		fmt.Fprintf(os.Stderr, "slow op %.1fs: %.60s => %.60s\n", d.Seconds(), op, obs)
	}
	t.Line(op, obs)
	return obs
}

// genSync: one leader, up to 3 followers.  wild = arbitrary region reports (then no follower restarts and no
// reconnection of a follower that has fallen out of the leader's window: such a follower is no longer in a
// past state of the leader and C16 promises nothing about it).
func genSync(w *world, t *trace.W, r *rng.R, maxOps int, wild bool, reuse *int) {
	w.do(t, "reset")
	caps := []int{1, 2, 3, 5, 7, 10, 50, 100, 101, 1000, 0}
	lcap := caps[r.Intn(len(caps))]
	if wild && r.Bool(1, 2) {
		lcap = 0
	}
	w.do(t, fmt.Sprintf("leader %d", lcap))
	effCap := uint64(lcap)
	if lcap == 0 {
		effCap = 10000
	}
	g := &gstate{r: r}
	var n int
	switch r.Pick(40, 35, 25) {
	case 0:
		n = r.Intn(13)
	case 1:
		n = []int{99, 100, 101, 199, 200, 201, 250, 300}[r.Intn(8)]
	default:
		n = r.Range(13, 320)
	}
	noLeaderOK := r.Bool(2, 3)
	g.populate(n, noLeaderOK)
	lnext := uint64(0)
	for _, x := range g.regs {
		if v, ok := obsField(w.do(t, "put "+x.spec()), "next"); ok {
			lnext = v
		}
	}
	if r.Bool(1, 6) { // push the leader's index far ahead with one line
		k := []int{150, 1000, 5000}[r.Intn(3)]
		if len(g.regs) > 0 {
			x := g.regs[r.Intn(len(g.regs))]
			if x.leader < 0 && len(x.peers) > 0 {
				x.leader = 0
			}
			if v, ok := obsField(w.do(t, fmt.Sprintf("putn %d %s", k, x.spec())), "next"); ok {
				lnext = v
			}
		}
	}
	var fols []*gfol
	everBound := false
	ops := r.Range(4, maxOps)
	for k := 0; k < ops; k++ {
		switch r.Pick(8, 22, 30, 10, 8, 6, 16, 4) {
		case 7: // the leader process restarts: its index comes back from the kv (possibly lower), everybody reconnects
			if wild {
				continue
			}
			busy := false
			for _, f := range fols {
				if f.connected || f.used {
					busy = true
				}
			}
			if busy {
				if *reuse <= 0 {
					continue
				}
				*reuse--
			}
			if v, ok := obsField(w.do(t, "lrestart"), "lnext"); ok {
				lnext = v
			}
			everBound = false
			for i, f := range fols {
				was := f.connected
				f.connected, f.used = false, false
				if was || r.Bool(1, 2) {
					obs := w.do(t, fmt.Sprintf("connect %d %s", i, orders[r.Intn(len(orders))]))
					if v, ok := obsField(obs, "fnext"); ok {
						f.next = v
					}
					f.connected = true
					everBound = true
				}
			}
			// a change right after: its start index may lie behind the followers' index
			for _, sp := range g.mutate(false) {
				if v, ok := obsField(w.do(t, "put "+sp), "next"); ok {
					lnext = v
					for _, f := range fols {
						if f.connected {
							f.next = v
						}
					}
				}
			}
			for i, f := range fols {
				if f.connected {
					w.do(t, fmt.Sprintf("check %d", i))
				}
			}
		case 0: // new follower
			if len(fols) < 3 {
				fc := []int{1, 3, 10, 100, 0, 0}[r.Intn(6)]
				w.do(t, fmt.Sprintf("follower %d", fc))
				fols = append(fols, &gfol{})
			}
		case 1: // connect + check
			if len(fols) == 0 {
				w.do(t, fmt.Sprintf("follower %d", []int{1, 3, 10, 100, 0, 0}[r.Intn(6)]))
				fols = append(fols, &gfol{})
			}
			i := r.Intn(len(fols))
			f := fols[i]
			if f.connected {
				w.do(t, fmt.Sprintf("check %d", i))
				continue
			}
			if f.used {
				if *reuse <= 0 {
					continue
				}
				*reuse--
			}
			if wild && f.next != 0 && lnext-f.next > effCap {
				continue
			}
			obs := w.do(t, fmt.Sprintf("connect %d %s", i, orders[r.Intn(len(orders))]))
			if v, ok := obsField(obs, "fnext"); ok {
				f.next = v
			}
			f.connected = true
			everBound = true
			w.do(t, fmt.Sprintf("check %d", i))
		case 2: // a well-formed change (or an arbitrary report)
			var specs []string
			if wild && r.Bool(1, 2) {
				specs = []string{g.wild()}
			} else {
				specs = g.mutate(noLeaderOK && !everBound)
			}
			for _, s := range specs {
				if v, ok := obsField(w.do(t, "put "+s), "next"); ok {
					lnext = v
					for _, f := range fols {
						if f.connected {
							f.next = v
						}
					}
				}
			}
		case 3: // check
			if len(fols) > 0 {
				w.do(t, fmt.Sprintf("check %d", r.Intn(len(fols))))
			}
		case 4: // disconnect
			for i, f := range fols {
				if f.connected && r.Bool(1, 2) {
					w.do(t, fmt.Sprintf("disconnect %d", i))
					f.connected, f.used = false, true
				}
			}
		case 5: // restart of a follower process
			if wild || len(fols) == 0 {
				continue
			}
			i := r.Intn(len(fols))
			f := fols[i]
			if f.connected || f.used {
				if *reuse <= 0 {
					continue
				}
				*reuse--
			}
			obs := w.do(t, fmt.Sprintf("restart %d", i))
			if v, ok := obsField(obs, "fnext"); ok {
				f.next = v
			}
			f.connected, f.used = false, false
		case 6: // a burst of changes
			// now and then while the stream of a live follower is busy (its Send parked before it serialises)
			live := -1
			for i, f := range fols {
				if f.connected {
					live = i
				}
			}
			if live >= 0 && r.Bool(1, 2) {
				var specs []string
				if len(g.regs) > 1 && r.Bool(1, 2) {
					// a busy region reported several times within one drained batch, its leader (and flow) changing
					// in between: [other, x (leader a), other, x (leader b)]
					x := g.regs[r.Intn(len(g.regs))]
					other := func() string {
						y := g.regs[r.Intn(len(g.regs))]
						for y == x {
							y = g.regs[r.Intn(len(g.regs))]
						}
						y.st = g.stats()
						if y.leader < 0 && len(y.peers) > 0 {
							y.leader = 0
						}
						if len(y.peers) == 0 {
							y.peers, y.leader = g.newPeers(1), 0
						}
						return y.spec()
					}
					if len(x.peers) < 2 {
						x.cv++
						x.peers = append(x.peers, g.newPeers(2)...)
					}
					specs = append(specs, other())
					x.leader = r.Intn(len(x.peers))
					specs = append(specs, x.spec())
					if r.Bool(1, 2) {
						specs = append(specs, other())
					}
					x.leader = (x.leader + 1 + r.Intn(len(x.peers)-1)) % len(x.peers)
					x.st = g.stats()
					specs = append(specs, x.spec())
					if r.Bool(1, 3) {
						specs = append(specs, other())
					}
				} else {
					for len(specs) < 2 || (len(specs) < 4 && r.Bool(1, 2)) {
						specs = append(specs, g.mutate(false)...)
					}
				}
				if len(specs) > 5 {
					specs = specs[:5]
				}
				if v, ok := obsField(w.do(t, fmt.Sprintf("burst %d %s", live, strings.Join(specs, " "))), "next"); ok {
					lnext = v
					for _, f := range fols {
						if f.connected {
							f.next = v
						}
					}
				}
				w.do(t, fmt.Sprintf("check %d", live))
				continue
			}
			nb := r.Range(2, 12)
			if r.Bool(1, 8) {
				nb = r.Range(90, 130)
			}
			for b := 0; b < nb; b++ {
				for _, s := range g.mutate(noLeaderOK && !everBound) {
					if v, ok := obsField(w.do(t, "put "+s), "next"); ok {
						lnext = v
						for _, f := range fols {
							if f.connected {
								f.next = v
							}
						}
					}
				}
			}
		}
	}
	for i, f := range fols {
		if !f.connected && (!f.used || *reuse > 0) && !(wild && f.next != 0 && lnext-f.next > effCap) {
			if f.used {
				*reuse--
			}
			w.do(t, fmt.Sprintf("connect %d %s", i, orders[r.Intn(len(orders))]))
			f.connected = true
		}
		w.do(t, fmt.Sprintf("check %d", i))
	}
}

// genHB: the history buffer alone
func genHB(w *world, t *trace.W, r *rng.R, maxOps int) {
	w.do(t, "reset")
	capChoice := func() int {
		switch r.Pick(60, 15, 25) {
		case 0:
			return r.Intn(8)
		case 1:
			return 100
		default:
			return r.Range(8, 130)
		}
	}
	c := capChoice()
	obs := w.do(t, fmt.Sprintf("hb new %d", c))
	id := uint64(r.Range(1, 50))
	next, _ := obsField(obs, "next")
	first, _ := obsField(obs, "first")
	upd := func(o string) {
		if v, ok := obsField(o, "next"); ok {
			next = v
		}
		if v, ok := obsField(o, "first"); ok {
			first = v
		}
	}
	fail := func() string {
		if r.Bool(1, 25) {
			return " fail"
		}
		return ""
	}
	ops := r.Range(5, maxOps*2)
	for k := 0; k < ops; k++ {
		switch r.Pick(30, 14, 34, 6, 8, 8, 10) {
		case 6: // a caller keeps an answer, the buffer moves on (past a wrap-around), the caller looks again
			slot := r.Intn(3)
			var idx uint64
			if next > first {
				idx = first + uint64(r.Intn(int(next-first)))
			}
			if r.Bool(1, 3) {
				idx = first
			}
			w.do(t, fmt.Sprintf("hb hold %d %d", slot, idx))
			n := []int{1, c, c + 1, 2*c + 1, c / 2}[r.Intn(5)]
			if n < 1 {
				n = 1
			}
			upd(w.do(t, fmt.Sprintf("hb recn %d %d", n, id)))
			id += uint64(n)
			w.do(t, fmt.Sprintf("hb recheck %d", slot))
			if r.Bool(1, 3) {
				upd(w.do(t, fmt.Sprintf("hb rec %d", id)))
				id++
				w.do(t, fmt.Sprintf("hb recheck %d", r.Intn(3)))
			}
		case 0:
			upd(w.do(t, fmt.Sprintf("hb rec %d%s", id, fail())))
			id++
		case 1:
			n := []int{1, 2, 3, c - 1, c, c + 1, 2*c + 1, 99, 100, 101, 250}[r.Intn(11)]
			if n < 1 {
				n = 1
			}
			upd(w.do(t, fmt.Sprintf("hb recn %d %d", n, id)))
			id += uint64(n)
		case 2:
			var idx uint64
			switch r.Intn(9) {
			case 0:
				idx = next
			case 1:
				idx = next + 1
			case 2:
				idx = first
			case 3:
				if first > 0 {
					idx = first - 1
				}
			case 4:
				idx = first + 1
			case 5:
				idx = 0
			case 6:
				if next > 0 {
					idx = next - 1
				}
			case 7:
				idx = r.U64() >> uint(r.Intn(64))
			default:
				if next > first {
					idx = first + uint64(r.Intn(int(next-first)))
				}
			}
			if r.Bool(1, 5) {
				w.do(t, fmt.Sprintf("hb get %d", idx))
			} else {
				w.do(t, fmt.Sprintf("hb from %d", idx))
			}
		case 3:
			idx := []uint64{0, 1, 7, 100, 10000, next, next + 1, uint64(r.Intn(100000))}[r.Intn(8)]
			upd(w.do(t, fmt.Sprintf("hb resetidx %d%s", idx, fail())))
		case 4:
			upd(w.do(t, "hb restart"))
		case 5:
			c = capChoice()
			upd(w.do(t, fmt.Sprintf("hb restart %d", c)))
		}
	}
	w.do(t, fmt.Sprintf("hb from %d", first))
	upd(w.do(t, "hb restart"))
}

// genRaw: the malformed stream – hand-made messages with missing stats, fewer leaders than regions, leaders with
// peer id 0, a start index that does not match the follower's.  Only the correspondence with the model is
// checked here (the follower is no longer a copy of this leader).
func genRaw(w *world, t *trace.W, r *rng.R, maxOps int) {
	w.do(t, "reset")
	w.do(t, fmt.Sprintf("leader %d", []int{1, 5, 100, 0}[r.Intn(4)]))
	g := &gstate{r: r}
	g.populate(r.Intn(6), false)
	for _, x := range g.regs {
		w.do(t, "put "+x.spec())
	}
	w.do(t, fmt.Sprintf("follower %d", []int{1, 3, 100, 0}[r.Intn(4)]))
	obs := w.do(t, "connect 0 asc")
	fnext, _ := obsField(obs, "fnext")
	for k := r.Range(2, maxOps/3+2); k > 0; k-- {
		n := r.Range(1, 5)
		specs := make([]string, n)
		for i := range specs {
			if r.Bool(1, 2) && len(g.regs) > 0 {
				specs[i] = strings.Join(g.mutate(true)[:1], "")
			} else {
				specs[i] = g.wild()
			}
			if r.Bool(1, 6) { // a leader whose peer id is 0
				f := strings.Split(specs[i], ":")
				f[6] = fmt.Sprintf("0/%d/0", r.Intn(9))
				specs[i] = strings.Join(f, ":")
			}
		}
		ns, nl := n, n
		switch r.Intn(5) {
		case 0:
			ns = r.Intn(n)
		case 1:
			nl = r.Intn(n)
		case 2:
			ns, nl = 0, 0
		}
		start := fnext
		if r.Bool(1, 4) {
			start = []uint64{0, fnext + 1, fnext + 1000, uint64(r.Intn(50))}[r.Intn(4)]
		}
		obs := w.do(t, fmt.Sprintf("raw 0 %d %s %d %d", start, strings.Join(specs, ";"), ns, nl))
		if v, ok := obsField(obs, "fnext"); ok {
			fnext = v
		}
		if r.Bool(1, 2) {
			w.do(t, "check 0")
		}
	}
	w.do(t, "check 0")
}

// genFollowerFault: a follower that saves regions to its default kv; the write of chosen region keys fails once
// or persistently while regions arrive by full / incremental synchronisation and by broadcast.  The follower's
// in-memory view must still follow the leader (only its storage and its history index stay behind).
func genFollowerFault(w *world, t *trace.W, r *rng.R, maxOps int, reuse *int) {
	w.do(t, "reset")
	w.do(t, fmt.Sprintf("leader %d", []int{2, 10, 100, 0}[r.Intn(4)]))
	g := &gstate{r: r}
	g.populate([]int{1, 3, 8, 40, 120}[r.Intn(5)], false)
	for _, x := range g.regs {
		w.do(t, "put "+x.spec())
	}
	w.do(t, fmt.Sprintf("follower %d plain", []int{3, 100, 0}[r.Intn(3)]))
	anyID := func() uint64 { return g.regs[r.Intn(len(g.regs))].id }
	mode := func() string { return []string{"once", "once", "always"}[r.Intn(3)] }
	for k := r.Intn(3); k > 0; k-- {
		w.do(t, fmt.Sprintf("failsave 0 %d %s", anyID(), mode()))
	}
	w.do(t, "connect 0 "+orders[r.Intn(len(orders))])
	w.do(t, "check 0")
	connected := true
	for k := r.Range(3, maxOps/2+3); k > 0; k-- {
		switch r.Pick(30, 40, 10, 8, 12) {
		case 0:
			w.do(t, fmt.Sprintf("failsave 0 %d %s", anyID(), mode()))
		case 1: // a change of a region (often one whose save is set to fail)
			x := g.regs[r.Intn(len(g.regs))]
			x.leader = g.pickLeader(x.peers, false)
			x.st = g.stats()
			if r.Bool(1, 3) {
				x.cv++
				x.peers = append(x.peers, g.newPeers(1)...)
			}
			if r.Bool(1, 2) {
				w.do(t, fmt.Sprintf("failsave 0 %d %s", x.id, mode()))
			}
			w.do(t, "put "+x.spec())
			if connected {
				w.do(t, "check 0")
			}
		case 2:
			w.do(t, fmt.Sprintf("failsave 0 %d off", anyID()))
		case 3:
			if *reuse > 0 {
				*reuse--
				w.do(t, "restart 0")
				w.do(t, "connect 0 "+orders[r.Intn(len(orders))])
				connected = true
				w.do(t, "check 0")
			}
		case 4:
			if connected {
				w.do(t, "check 0")
			}
		}
	}
	w.do(t, "check 0")
}

func gen(w *world, t *trace.W, r *rng.R, maxOps int, reuse *int) {
	switch r.Pick(41, 36, 12, 6, 5) {
	case 4:
		genFollowerFault(w, t, r, maxOps, reuse)
	case 0:
		genHB(w, t, r, maxOps)
	case 1:
		genSync(w, t, r, maxOps, false, reuse)
	case 2:
		genSync(w, t, r, maxOps, true, reuse)
	default:
		genRaw(w, t, r, maxOps)
	}
}
