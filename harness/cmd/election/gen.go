package main

import (
	"fmt"
	"sort"
	"strings"

	"verifharness/internal/rng"
	"verifharness/internal/trace"
)

type stats struct{ m map[string]int }

func newStats() *stats { return &stats{m: map[string]int{}} }

func (s *stats) add(op, out string) {
	w := strings.Fields(op)[0]
	if w == "write" {
		w += ":" + strings.Split(strings.Fields(op)[2], ":")[0]
	}
	s.m[w+"="+strings.Fields(out)[0]]++
}

func (s *stats) String() string {
	var ks []string
	for k := range s.m {
		ks = append(ks, k)
	}
	sort.Strings(ks)
	var sb strings.Builder
	sb.WriteString("outcomes:")
	for _, k := range ks {
		fmt.Fprintf(&sb, " %s:%d", k, s.m[k])
	}
	return sb.String()
}

var faults = []string{"none", "none", "none", "none", "none", "none", "none", "none", "before", "after"}

func pickFault(r *rng.R) string { return faults[r.Intn(len(faults))] }

func pickRv(r *rng.R) string {
	if r.Bool(1, 10) {
		return "rv0"
	}
	return "rv1"
}

// generator-side bookkeeping (derived from the outputs only)
type gen1 struct {
	w    *world
	t    *trace.W
	r    *rng.R
	st   *stats
	won  []bool
	nkey int
}

func (g *gen1) do(op string) string {
	out := g.w.run(g.t, op)
	g.st.add(op, out)
	f := strings.Fields(op)
	idx := func() int { var i int; fmt.Sscanf(f[1], "%d", &i); return i }
	switch f[0] {
	case "new":
		g.won = append(g.won, false)
	case "campaign", "finish":
		if out != "bad-op" {
			g.won[idx()] = out == "ok"
		}
	case "gcampaign":
		if out != "bad-op" {
			g.won[idx()] = false
		}
	case "resetl", "stepdown", "crash", "gresetl":
		if out != "bad-op" {
			g.won[idx()] = false
		}
	case "delkey":
		if out == "ok" {
			g.won[idx()] = false
		}
	case "observe":
		if out == "deleted" {
			g.won[idx()] = false
		}
	}
	return out
}

func (g *gen1) ttl() int {
	if g.r.Bool(1, 40) {
		return maxLeaseTTL + 1 // Grant fails
	}
	return g.r.Range(30, 90)
}

func (g *gen1) extra(c *cont) string {
	if c.key == 0 || g.r.Bool(1, 2) {
		return "-"
	}
	if g.r.Bool(1, 2) {
		return fmt.Sprintf("A:N%d", c.key)
	}
	return fmt.Sprintf("V:N%d:%d", c.key, c.member)
}

// idAllocs: a few Alloc calls, occasionally enough to use up a whole window
func (g *gen1) idAllocs(i int) {
	n := []int{1, 1, 2, 3, 1001}[g.r.Intn(5)]
	if g.r.Bool(9, 10) && n > 3 {
		n = 2
	}
	for k := 0; k < n; k++ {
		f := "none"
		if k == 0 {
			f = pickFault(g.r)
		}
		if out := g.do(fmt.Sprintf("idalloc %d %s", i, f)); !strings.HasPrefix(out, "ok") && k > 1 {
			break
		}
	}
}

func (g *gen1) writeKind() string {
	switch g.r.Pick(20, 8, 8, 20, 22, 22) {
	case 0:
		return fmt.Sprintf("pp:%d:%d", g.r.Range(1, 3), g.r.Range(0, 9))
	case 1:
		return fmt.Sprintf("pd:%d", g.r.Range(1, 3))
	case 2:
		return fmt.Sprintf("dd:%d", g.r.Range(1, 3))
	case 3:
		return "ts"
	case 4:
		return "id"
	}
	return "enc"
}

// a raw transaction on next-leader / dc-location / scratch keys (never on a leader record)
func (g *gen1) rawTxnSafe() string {
	key := func() string {
		switch g.r.Intn(3) {
		case 0:
			return fmt.Sprintf("N%d", g.r.Intn(g.nkey))
		case 1:
			return fmt.Sprintf("C%d.%d", g.r.Intn(g.nkey), g.r.Range(1, 3))
		}
		return fmt.Sprintf("S%d", g.r.Intn(3))
	}
	return g.rawTxn(key)
}

func (g *gen1) rawTxn(key func() string) string {
	cmp := func() string {
		if g.r.Bool(1, 2) {
			return "A:" + key()
		}
		return fmt.Sprintf("V:%s:%d", key(), g.r.Range(0, 3))
	}
	used := map[string]bool{}
	op := func() string {
		k := key()
		for used[k] {
			k = fmt.Sprintf("S%d", 10+len(used))
		}
		used[k] = true
		if g.r.Bool(1, 4) {
			return "D:" + k
		}
		lease := 0
		if g.r.Bool(1, 2) {
			lease = g.r.Range(1, len(g.w.leases)+1) // may be dead or never granted
		}
		return fmt.Sprintf("P:%s:%d:%d", k, g.r.Range(1, 3), lease)
	}
	list := func(n int, f func() string) string {
		if n == 0 {
			return "-"
		}
		var l []string
		for i := 0; i < n; i++ {
			l = append(l, f())
		}
		return strings.Join(l, ",")
	}
	c := list(g.r.Intn(3), cmp)
	th := list(g.r.Range(0, 2), op)
	used = map[string]bool{}
	el := list(g.r.Intn(2), op)
	return fmt.Sprintf("rawtxn %s %s %s", c, th, el)
}

// locallyExpired: every contender whose lease object carries lease number n reports Check() = false
func (g *gen1) locallyExpired(n int) bool {
	for _, c := range g.w.conts {
		v := c.m.GetLeadership().VerifLease()
		if v.Has && g.w.leaseIdx[leaseID(v.ID)] == n {
			setClock(c)
			if c.m.GetLeadership().Check() {
				return false
			}
		}
	}
	return true
}

func gen(w *world, t *trace.W, r *rng.R, maxOps int, malformed bool, st *stats) {
	g := &gen1{w: w, t: t, r: r, st: st}
	mode := "faithful"
	if malformed {
		mode = "malformed"
	}
	g.do("reset " + mode)
	g.nkey = r.Pick(3, 1) + 1
	n := r.Range(2, 4)
	used := map[[2]int]bool{}
	for i := 0; i < n; i++ {
		k, m := r.Intn(g.nkey), r.Range(1, 4)
		if !malformed {
			for used[[2]int{k, m}] {
				k, m = r.Intn(g.nkey), r.Range(1, 4)
			}
		}
		used[[2]int{k, m}] = true
		g.do(fmt.Sprintf("new %d %d", k, m))
	}
	ops := r.Range(8, maxOps)
	if r.Bool(1, 4) {
		g.takeover(malformed)
		ops /= 2
	}
	for k := 0; k < ops; k++ {
		if malformed {
			g.malformedOp()
		} else {
			g.faithfulOp(used)
		}
	}
	for i, c := range w.conts {
		if c.pending != nil {
			g.do(fmt.Sprintf("finish %d %s %s", i, pickFault(r), pickRv(r)))
		}
		if c.closing != nil {
			g.do(fmt.Sprintf("rfinish %d %s", i, pickRv(r)))
		}
	}
}

func pickClose(r *rng.R, leader bool) string {
	k := "reset"
	if leader {
		k = "leader"
	}
	if r.Bool(1, 3) {
		return "pre " + k
	}
	return "post " + k
}

// closingOp: contender i has a Reset parked inside lease.Close; its other goroutines keep asking
func (g *gen1) closingOp(i int) {
	switch g.r.Pick(30, 20, 20, 15, 15) {
	case 0:
		g.do(fmt.Sprintf("rfinish %d %s", i, pickRv(g.r)))
	case 1:
		g.do(fmt.Sprintf("tso %d", i))
	case 2:
		g.do(fmt.Sprintf("isleader %d", i))
	case 3:
		g.do(fmt.Sprintf("check %d", i))
	case 4:
		g.do(fmt.Sprintf("write %d %s none", i, g.writeKind()))
	}
}

// allRequests lets contender i try every guarded write and every kind of request once, in random order.
func (g *gen1) allRequests(i int, withTS bool) {
	ops := []string{"write %d pp:1:7 none", "write %d pd:2 none", "write %d dd:1 none", "write %d id none",
		"idalloc %d none", "idalloc %d none",
		"write %d enc none", "isleader %d", "check %d"}
	if withTS {
		ops = append(ops, "write %d ts none")
	}
	c := g.w.conts[i]
	setClock(c)
	if !(c.m.GetLeadership().Check() && !c.alloc.IsInitialize()) {
		ops = append(ops, "tso %d")
	}
	for n := len(ops); n > 0; n-- {
		k := g.r.Intn(n)
		g.do(fmt.Sprintf(ops[k], i))
		ops[k] = ops[n-1]
	}
}

// takeover: the scenario the property is about.  A becomes leader and serves; A loses its lease (local
// expiry then server expiry / crash / step-down whose Revoke fails / in the malformed variant a lease
// loss A does not know about); B takes over; the former holder, which may not have stepped down yet,
// tries every guarded write and request; so does B.
func (g *gen1) takeover(malformed bool) {
	r, w := g.r, g.w
	var ids []int
	for i, c := range w.conts {
		if c.key == w.conts[0].key {
			ids = append(ids, i)
		}
	}
	if len(ids) < 2 {
		return
	}
	a, b := ids[0], ids[1]
	if r.Bool(1, 2) {
		a, b = b, a
	}
	ca := w.conts[a]
	if w.conts[a].member == w.conts[b].member {
		return
	}
	ttl := r.Range(30, 90)
	if g.do(fmt.Sprintf("campaign %d %d - none rv1", a, ttl)) != "ok" {
		return
	}
	g.do(fmt.Sprintf("keep %d", a))
	g.do(fmt.Sprintf("write %d ts none", a))
	g.do(fmt.Sprintf("enable %d", a))
	g.allRequests(a, false)
	g.allRequests(b, false)
	lease := len(w.leases)
	steppedDown := false
	switch v := r.Intn(6); {
	case v == 5: // step-down whose Revoke is applied at once but answered late: B may win inside the window
		g.do(fmt.Sprintf("gresetl %d post leader", a))
		steppedDown = true
		g.allRequests(a, false)
		g.do(fmt.Sprintf("observe %d", b))
		g.do(fmt.Sprintf("campaign %d %d - none rv1", b, r.Range(30, 90)))
		g.allRequests(a, false)
		g.do(fmt.Sprintf("rfinish %d rv1", a))
		g.do(fmt.Sprintf("stepdown %d rv1", a))
		if g.won[b] {
			g.do(fmt.Sprintf("write %d ts none", b))
			g.do(fmt.Sprintf("enable %d", b))
		}
		g.allRequests(a, false)
		g.allRequests(b, false)
		return
	case v == 0: // local expiry, then the server side
		g.do(fmt.Sprintf("clock %d %d", a, ca.clock+int64(ttl)+int64(r.Range(1, 50))))
		g.allRequests(a, false)
		g.do(fmt.Sprintf("expire %d", lease))
	case v == 1: // crash: the lease stays until it expires; the new incarnation has a later clock
		g.do(fmt.Sprintf("crash %d", a))
		g.do(fmt.Sprintf("expire %d", lease))
	case v == 2: // orderly step-down
		g.do(fmt.Sprintf("stepdown %d rv1", a))
		steppedDown = true
	case v == 3: // step-down whose Revoke fails: the record outlives the term until the lease expires
		g.do(fmt.Sprintf("stepdown %d rv0", a))
		steppedDown = true
		g.allRequests(a, false)
		if r.Bool(1, 2) {
			g.do(fmt.Sprintf("observe %d", a)) // finds its own record, deletes it
		} else {
			g.do(fmt.Sprintf("expire %d", lease))
		}
	default:
		if malformed {
			// the lease is lost on the etcd side while A still believes in it
			g.do(fmt.Sprintf("expire %d", lease))
		} else {
			g.do(fmt.Sprintf("clock %d %d", a, ca.clock+int64(ttl)+1))
			g.do(fmt.Sprintf("expire %d", lease))
		}
	}
	g.do(fmt.Sprintf("observe %d", b))
	if r.Bool(1, 3) {
		g.do(fmt.Sprintf("gcampaign %d %d -", b, r.Range(30, 90)))
		g.allRequests(a, false)
		g.do(fmt.Sprintf("finish %d none rv1", b))
	} else {
		g.do(fmt.Sprintf("campaign %d %d - none rv1", b, r.Range(30, 90)))
	}
	if g.won[b] {
		g.do(fmt.Sprintf("write %d ts none", b))
		g.do(fmt.Sprintf("enable %d", b))
	}
	// the former holder has not necessarily noticed
	g.allRequests(a, false)
	g.allRequests(b, false)
	if !steppedDown && !malformed {
		g.do(fmt.Sprintf("stepdown %d %s", a, pickRv(r)))
	}
}

// pickActor prefers contenders that are inside a term (they have more to do)
func (g *gen1) pickActor() int {
	var in []int
	for i := range g.w.conts {
		if g.won[i] {
			in = append(in, i)
		}
	}
	if len(in) > 0 && g.r.Bool(3, 5) {
		return in[g.r.Intn(len(in))]
	}
	return g.r.Intn(len(g.w.conts))
}

func (g *gen1) faithfulOp(used map[[2]int]bool) {
	r, w := g.r, g.w
	// environment actions
	switch r.Pick(84, 6, 4, 3, 3) {
	case 1:
		// server-side expiry, only of leases nobody believes in any more
		var cand []int
		for n := 1; n <= len(w.leases); n++ {
			if g.locallyExpired(n) {
				cand = append(cand, n)
			}
		}
		if len(cand) > 0 {
			g.do(fmt.Sprintf("expire %d", cand[r.Intn(len(cand))]))
			return
		}
	case 2:
		g.do(g.rawTxnSafe())
		return
	case 3:
		g.do("rawgrant")
		return
	case 4:
		if len(w.conts) < 5 {
			k, m := r.Intn(g.nkey), r.Range(1, 5)
			if !used[[2]int{k, m}] {
				used[[2]int{k, m}] = true
				g.do(fmt.Sprintf("new %d %d", k, m))
				return
			}
		}
	}
	i := g.pickActor()
	c := w.conts[i]
	setClock(c)
	ls := c.m.GetLeadership()
	if c.pending != nil {
		if r.Bool(2, 3) {
			g.do(fmt.Sprintf("finish %d %s %s", i, pickFault(r), pickRv(r)))
		} else {
			g.do(fmt.Sprintf("clock %d %d", i, c.clock+int64(r.Intn(20))))
		}
		return
	}
	if c.closing != nil {
		g.closingOp(i)
		return
	}
	cacheSelf := c.m.GetLeader().GetMemberId() == uint64(c.member)
	tsoInit := c.alloc.IsInitialize()
	if r.Bool(1, 25) && ls.VerifLease().Has {
		// a resignation whose Revoke is slow: the step-down (ResetLeader) inside a term, a plain Reset outside
		g.do(fmt.Sprintf("gresetl %d %s", i, pickClose(r, g.won[i])))
		return
	}
	if !g.won[i] {
		if cacheSelf || tsoInit {
			// an interrupted step-down is completed before anything else (as the deferred calls do)
			g.do(fmt.Sprintf("stepdown %d %s", i, pickRv(r)))
			return
		}
		pick := r.Pick(30, 10, 8, 18, 8, 8, 10, 3, 3, 2, 12)
		if rec, _, _ := w.leaderRecord(c.key); rec != nil && rec.GetMemberId() == uint64(c.member) && !c.watching && r.Bool(1, 2) {
			pick = []int{2, 10}[r.Intn(2)] // CheckLeader finds the member's own stale record
		}
		if c.watching && pick <= 2 {
			// the leader loop is blocked in WatchLeader
			pick = []int{3, 4, 5, 6, 6, 11}[r.Intn(6)]
		}
		switch pick {
		case 0:
			g.do(fmt.Sprintf("campaign %d %d %s %s %s", i, g.ttl(), g.extra(c), pickFault(r), pickRv(r)))
		case 1:
			g.do(fmt.Sprintf("gcampaign %d %d %s", i, g.ttl(), g.extra(c)))
		case 10:
			// CheckLeader: no leader / somebody else (watch) / my own stale record (delete it)
			if c.watching {
				g.do(fmt.Sprintf("isleader %d", i))
			} else {
				g.do(fmt.Sprintf("observe %d", i))
			}
		case 11:
			g.do(fmt.Sprintf("unwatch %d", i))
		case 2:
			// DeleteLeaderKey directly, with faults (CheckLeader finding the member's own stale record)
			if rec, _, _ := w.leaderRecord(c.key); rec != nil && rec.GetMemberId() == uint64(c.member) {
				g.do(fmt.Sprintf("delkey %d %s %s", i, pickFault(r), pickRv(r)))
			} else {
				g.do(fmt.Sprintf("check %d", i))
			}
		case 3:
			if r.Bool(1, 4) {
				g.idAllocs(i)
				return
			}
			wk := g.writeKind()
			if wk == "ts" { // SyncTimestamp is only called inside a term
				wk = "id"
			}
			g.do(fmt.Sprintf("write %d %s %s", i, wk, pickFault(r)))
		case 4:
			// a timestamp request; with Check() true and no initialised memory the real code
			// retries for two seconds (failed Grant), keep that rare
			if ls.Check() && !tsoInit && !r.Bool(1, 6) {
				g.do(fmt.Sprintf("isleader %d", i))
			} else {
				g.do(fmt.Sprintf("tso %d", i))
			}
		case 5:
			g.do(fmt.Sprintf("isleader %d", i))
		case 6:
			g.do(fmt.Sprintf("clock %d %d", i, c.clock+int64(r.Intn(40))))
		case 7:
			g.do(fmt.Sprintf("resetl %d %s", i, pickRv(r)))
		case 8:
			g.do(fmt.Sprintf("stepdown %d %s", i, pickRv(r)))
		case 9:
			g.do(fmt.Sprintf("crash %d", i))
		}
		return
	}
	switch r.Pick(12, 10, 10, 22, 12, 12, 8, 3, 6, 2, 2) {
	case 0:
		g.do(fmt.Sprintf("keep %d", i))
	case 1:
		g.do(fmt.Sprintf("write %d ts %s", i, pickFault(r)))
	case 2:
		g.do(fmt.Sprintf("enable %d", i))
	case 3:
		if r.Bool(1, 4) {
			g.idAllocs(i)
			return
		}
		g.do(fmt.Sprintf("write %d %s %s", i, g.writeKind(), pickFault(r)))
	case 4:
		if ls.Check() && !tsoInit && !r.Bool(1, 6) {
			g.do(fmt.Sprintf("write %d ts none", i))
		} else {
			g.do(fmt.Sprintf("tso %d", i))
		}
	case 5:
		g.do(fmt.Sprintf("isleader %d", i))
	case 6:
		g.do(fmt.Sprintf("clock %d %d", i, c.clock+int64(r.Intn(30))))
	case 7:
		// the local clock runs past the lease
		g.do(fmt.Sprintf("clock %d %d", i, c.clock+int64(r.Range(60, 200))))
	case 8:
		g.do(fmt.Sprintf("stepdown %d %s", i, pickRv(r)))
	case 9:
		g.do(fmt.Sprintf("resetl %d %s", i, pickRv(r)))
	case 10:
		g.do(fmt.Sprintf("crash %d", i))
	}
}

func (g *gen1) malformedOp() {
	r, w := g.r, g.w
	i := r.Intn(len(w.conts))
	if r.Bool(2, 5) {
		// prefer a contender named by a record
		for j, c := range w.conts {
			if rec, _, _ := w.leaderRecord(c.key); rec != nil && rec.GetMemberId() == uint64(c.member) {
				i = j
				break
			}
		}
	}
	c := w.conts[i]
	setClock(c)
	if c.pending != nil && r.Bool(1, 2) {
		g.do(fmt.Sprintf("finish %d %s %s", i, pickFault(r), pickRv(r)))
		return
	}
	if c.closing != nil && r.Bool(1, 2) {
		g.closingOp(i)
		return
	}
	if r.Bool(1, 20) {
		g.do(fmt.Sprintf("gresetl %d %s", i, pickClose(r, r.Bool(1, 2))))
		return
	}
	anyKey := func() string {
		switch r.Intn(5) {
		case 0, 1:
			return fmt.Sprintf("L%d", r.Intn(g.nkey))
		case 2:
			return fmt.Sprintf("N%d", r.Intn(g.nkey))
		case 3:
			return fmt.Sprintf("P%d.%d", r.Intn(g.nkey), r.Range(1, 3))
		}
		return fmt.Sprintf("S%d", r.Intn(3))
	}
	switch r.Pick(16, 6, 8, 10, 5, 6, 14, 6, 6, 5, 4, 3, 3, 3, 2, 6, 3, 2, 6, 2) {
	case 18:
		g.do(fmt.Sprintf("observe %d", i))
	case 19:
		g.do(fmt.Sprintf("unwatch %d", i))
	case 0:
		g.do(fmt.Sprintf("campaign %d %d %s %s %s", i, g.ttl(), g.extra(c), pickFault(r), pickRv(r)))
	case 1:
		g.do(fmt.Sprintf("gcampaign %d %d %s", i, g.ttl(), g.extra(c)))
	case 2:
		if v := c.m.GetLeadership().VerifLease(); v.Has && v.ID != 0 {
			g.do(fmt.Sprintf("keep %d", i))
		} else {
			g.do(fmt.Sprintf("check %d", i))
		}
	case 3:
		// lease loss at any time
		if len(w.leases) > 0 {
			g.do(fmt.Sprintf("expire %d", r.Range(1, len(w.leases))))
		} else {
			g.do("rawgrant")
		}
	case 4:
		g.do(fmt.Sprintf("resetl %d %s", i, pickRv(r)))
	case 5:
		g.do(fmt.Sprintf("delkey %d %s %s", i, pickFault(r), pickRv(r)))
	case 6:
		if r.Bool(1, 4) {
			g.idAllocs(i)
			return
		}
		g.do(fmt.Sprintf("write %d %s %s", i, g.writeKind(), pickFault(r)))
	case 7:
		if c.m.GetLeadership().Check() && !c.alloc.IsInitialize() && !r.Bool(1, 8) {
			g.do(fmt.Sprintf("check %d", i))
		} else {
			g.do(fmt.Sprintf("tso %d", i))
		}
	case 8:
		g.do(fmt.Sprintf("isleader %d", i))
	case 9:
		g.do(fmt.Sprintf("enable %d", i))
	case 10:
		g.do(fmt.Sprintf("tsoreset %d", i))
	case 11:
		g.do(fmt.Sprintf("stepdown %d %s", i, pickRv(r)))
	case 12:
		g.do(fmt.Sprintf("crash %d", i))
	case 13:
		g.do("rawgrant")
	case 14:
		if len(w.conts) < 5 {
			g.do(fmt.Sprintf("new %d %d", r.Intn(g.nkey), r.Range(1, 4)))
		} else {
			g.do(fmt.Sprintf("check %d", i))
		}
	case 15:
		// clock in any direction
		g.do(fmt.Sprintf("clock %d %d", i, r.Intn(300)))
	case 16:
		g.do(g.rawTxn(anyKey))
	case 17:
		g.do(fmt.Sprintf("check %d", i))
	}
}
