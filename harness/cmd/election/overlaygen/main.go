// Command overlaygen writes the `go build -overlay` file used by the election harness (C03):
// a copy of <repo>/server/election/lease.go in which every token `time.Now()` is replaced by
// `verifNow()` (defined in the add-only hook file verif_hook_election.go), so that the lease
// clock can be injected without editing /repo.
//
// It fails unless (a) exactly -want tokens were replaced and (b) putting the tokens back yields
// the original file byte for byte, i.e. nothing but the replaced tokens differs.
package main

import (
	"bytes"
	"encoding/json"
	"flag"
	"fmt"
	"go/scanner"
	"go/token"
	"os"
	"path/filepath"
)

func fail(f string, a ...interface{}) {
	fmt.Fprintf(os.Stderr, "overlaygen: "+f+"\n", a...)
	os.Exit(1)
}

func main() {
	repo := flag.String("repo", "/repo", "repository root")
	out := flag.String("out", "", "output directory")
	want := flag.Int("want", 0, "expected number of time.Now() tokens in lease.go (0 = any positive number)")
	flag.Parse()
	if *out == "" {
		fail("-out required")
	}
	src := filepath.Join(*repo, "server", "election", "lease.go")
	hook := filepath.Join(*repo, "server", "election", "verif_hook_election.go")
	if _, err := os.Stat(hook); err != nil {
		fail("hook file missing: %v", err)
	}
	orig, err := os.ReadFile(src)
	if err != nil {
		fail("%v", err)
	}
	// token-level scan: `time` `.` `Now` `(` `)`
	fset := token.NewFileSet()
	file := fset.AddFile(src, fset.Base(), len(orig))
	var s scanner.Scanner
	s.Init(file, orig, nil, 0)
	type tk struct {
		off int
		tok token.Token
		lit string
	}
	var toks []tk
	for {
		pos, tok, lit := s.Scan()
		if tok == token.EOF {
			break
		}
		toks = append(toks, tk{file.Offset(pos), tok, lit})
	}
	var gen bytes.Buffer
	last := 0
	n := 0
	for i := 0; i+4 < len(toks); i++ {
		if toks[i].tok == token.IDENT && toks[i].lit == "time" && toks[i+1].tok == token.PERIOD &&
			toks[i+2].tok == token.IDENT && toks[i+2].lit == "Now" && toks[i+3].tok == token.LPAREN &&
			toks[i+4].tok == token.RPAREN {
			end := toks[i+4].off + 1
			if string(orig[toks[i].off:end]) != "time.Now()" {
				fail("unexpected spelling of time.Now() at offset %d", toks[i].off)
			}
			gen.Write(orig[last:toks[i].off])
			gen.WriteString("verifNow()")
			last = end
			n++
		}
	}
	gen.Write(orig[last:])
	if n == 0 || (*want != 0 && n != *want) {
		fail("replaced %d time.Now() tokens in %s, expected %d (the clock readings of lease.go changed)", n, src, *want)
	}
	back := bytes.ReplaceAll(gen.Bytes(), []byte("verifNow()"), []byte("time.Now()"))
	if !bytes.Equal(back, orig) {
		fail("generated copy differs from the original in more than the replaced tokens")
	}
	if err := os.MkdirAll(*out, 0o755); err != nil {
		fail("%v", err)
	}
	cp := filepath.Join(*out, "lease_overlay.go")
	if err := os.WriteFile(cp, gen.Bytes(), 0o644); err != nil {
		fail("%v", err)
	}
	js, _ := json.Marshal(map[string]map[string]string{"Replace": {src: cp}})
	op := filepath.Join(*out, "overlay.json")
	if err := os.WriteFile(op, js, 0o644); err != nil {
		fail("%v", err)
	}
	fmt.Printf("%s replaced=%d\n", op, n)
}
