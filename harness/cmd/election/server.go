package main

import (
	"context"
	"fmt"
	"io"
	"sync"
	"time"

	"github.com/pingcap/kvproto/pkg/metapb"
	"github.com/pingcap/kvproto/pkg/pdpb"
	"google.golang.org/grpc/metadata"

	"verifharness/internal/storecfg"
)

// hbStream is an in-memory pdpb.PD_RegionHeartbeatServer.
type hbStream struct {
	ctx    context.Context
	cancel context.CancelFunc
	reqs   chan *pdpb.RegionHeartbeatRequest
	idle   chan struct{} // one token every time the handler comes back to Recv
	mu     sync.Mutex
	errs   int
}

func (f *hbStream) Send(m *pdpb.RegionHeartbeatResponse) error {
	if m.GetHeader().GetError() != nil {
		f.mu.Lock()
		f.errs++
		f.mu.Unlock()
	}
	return nil
}

func (f *hbStream) Recv() (*pdpb.RegionHeartbeatRequest, error) {
	select {
	case f.idle <- struct{}{}:
	default:
	}
	select {
	case r := <-f.reqs:
		return r, nil
	case <-f.ctx.Done():
		return nil, io.EOF
	}
}

func (f *hbStream) SetHeader(metadata.MD) error  { return nil }
func (f *hbStream) SendHeader(metadata.MD) error { return nil }
func (f *hbStream) SetTrailer(metadata.MD)       {}
func (f *hbStream) Context() context.Context     { return f.ctx }
func (f *hbStream) SendMsg(interface{}) error    { return nil }
func (f *hbStream) RecvMsg(interface{}) error    { return nil }

// serverHeartbeatAfterResign: an in-process PD server that leads a bootstrapped cluster; one region
// heartbeat is applied through Server.RegionHeartbeat; the leadership is resigned (Leadership.Reset, as the
// step-down does); the next heartbeat on the same stream arrives the instant IsLeader() is false – before
// the leader loop's ticker has stopped the raft cluster.  It must not be applied.
//
//	ok                        the second heartbeat changed nothing (refused, or the cluster was already stopped)
//	applied-after-resign      the former leader applied it
//	first-heartbeat-not-applied / still-leader-after-reset    the scenario itself did not work
func serverHeartbeatAfterResign() string {
	srv := storecfg.StartServer(true) // store 1, region 2 = whole key space, peer 3 on store 1
	defer srv.Stop()
	svr := srv.Svr
	rc := svr.GetRaftCluster()
	ctx, cancel := context.WithCancel(context.Background())
	defer cancel()
	st := &hbStream{ctx: ctx, cancel: cancel, reqs: make(chan *pdpb.RegionHeartbeatRequest), idle: make(chan struct{}, 1)}
	ret := make(chan error, 1)
	go func() { ret <- svr.RegionHeartbeat(st) }()
	waitIdle := func() bool {
		select {
		case <-st.idle:
			return true
		case <-ret:
			return false
		case <-time.After(20 * time.Second):
			panic("serverhb: the handler neither came back to Recv nor returned")
		}
	}
	if !waitIdle() {
		return "stream-ended-early"
	}
	hb := func(size uint64) *pdpb.RegionHeartbeatRequest {
		now := uint64(time.Now().Unix())
		return &pdpb.RegionHeartbeatRequest{
			Header: srv.Header(),
			Region: &metapb.Region{Id: 2, Peers: []*metapb.Peer{{Id: 3, StoreId: 1}},
				RegionEpoch: &metapb.RegionEpoch{ConfVer: 1, Version: 1}},
			Leader:          &metapb.Peer{Id: 3, StoreId: 1},
			ApproximateSize: size << 20,
			ApproximateKeys: size * 1000,
			Interval:        &pdpb.TimeInterval{StartTimestamp: now - 10, EndTimestamp: now},
		}
	}
	size := func() int64 {
		r := rc.GetRegion(2)
		if r == nil {
			return -1
		}
		return r.GetApproximateSize()
	}
	st.reqs <- hb(11)
	if !waitIdle() || size() != 11 {
		return fmt.Sprintf("first-heartbeat-not-applied(size=%d)", size())
	}
	// resign; from here on the member answers not-leader
	svr.GetMember().GetLeadership().Reset()
	if svr.GetMember().IsLeader() {
		return "still-leader-after-reset"
	}
	select {
	case st.reqs <- hb(22):
	case <-ret:
		return "ok" // the handler had already gone
	case <-time.After(20 * time.Second):
		panic("serverhb: the handler does not read from the stream")
	}
	waitIdle()
	if size() == 22 {
		return "applied-after-resign"
	}
	return "ok"
}
