// Command election drives the real election / lease / guarded-write code of pd (server/election,
// server/member, server/tso, server/id, server/encryptionkm) on one embedded etcd and writes the
// `<op> => <observation>` trace judged by the Lean model and monitor (property C03).
//
// Every contender is a real member.Member (with its election.Leadership), a real global TSO
// allocator, id allocator and encryption key manager, all on their own etcd client whose KV is
// gated (parked / faulted transactions).  The lease clock is injected through the overlay copy
// of lease.go; the Revoke request of lease.Close can be made to fail through a clientv3.Lease
// wrapper installed with the verif hook.
package main

import (
	"context"
	"errors"
	"flag"
	"fmt"
	"os"
	"sort"
	"strconv"
	"strings"
	"sync"
	"sync/atomic"
	"time"

	"github.com/pingcap/kvproto/pkg/pdpb"
	"github.com/tikv/pd/pkg/encryption"
	"github.com/tikv/pd/pkg/errs"
	"github.com/tikv/pd/pkg/typeutil"
	"github.com/tikv/pd/server/config"
	"github.com/tikv/pd/server/election"
	"github.com/tikv/pd/server/encryptionkm"
	"github.com/tikv/pd/server/id"
	"github.com/tikv/pd/server/member"
	"github.com/tikv/pd/server/tso"
	"go.etcd.io/etcd/clientv3"

	"verifharness/internal/etcdh"
	_ "verifharness/internal/quiet"
	"verifharness/internal/rng"
	"verifharness/internal/trace"
)

const maxLeaseTTL = 9000000000

var (
	baseTime  = time.Date(2030, 1, 1, 0, 0, 0, 0, time.UTC)
	clockSecs int64 // injected lease clock, seconds after baseTime
)

func setClock(c *cont) { atomic.StoreInt64(&clockSecs, c.clock) }

func leaseID(n int64) clientv3.LeaseID { return clientv3.LeaseID(n) }

func injectedNow() time.Time {
	return baseTime.Add(time.Duration(atomic.LoadInt64(&clockSecs)) * time.Second)
}

// gateLease wraps the clientv3.Lease of a lease object: Revoke can be made to fail without reaching the
// server (revokeFail), or to park once – before the request goes out (parkPre) or after etcd has applied it
// but before the answer is handed to the caller (parkPost).
type gateLease struct {
	clientv3.Lease
	c *cont
}

const (
	parkNone = iota
	parkPre
	parkPost
)

func (l *gateLease) Revoke(ctx context.Context, id clientv3.LeaseID) (*clientv3.LeaseRevokeResponse, error) {
	c := l.c
	c.revMu.Lock()
	mode := c.revPark
	c.revPark = parkNone
	parked, rel := c.revParked, c.revRelease
	c.revMu.Unlock()
	switch mode {
	case parkPre:
		close(parked)
		if !<-rel {
			return nil, errors.New("injected revoke failure")
		}
		// the caller's context (revokeLeaseTimeout = 1 s) may be over by now: the request itself is what is delayed
		ctx2, cancel := context.WithTimeout(context.Background(), 10*time.Second)
		defer cancel()
		return l.Lease.Revoke(ctx2, id)
	case parkPost:
		resp, err := l.Lease.Revoke(ctx, id)
		close(parked)
		<-rel
		return resp, err
	}
	if atomic.LoadInt32(&c.revokeFail) != 0 {
		return nil, errors.New("injected revoke failure")
	}
	return l.Lease.Revoke(ctx, id)
}

type cont struct {
	key, member int
	client      *clientv3.Client
	gate        *etcdh.GateKV
	m           *member.Member
	am          *tso.AllocatorManager
	alloc       tso.Allocator
	ida         id.Allocator // used by `write id` (Rebase)
	idb         id.Allocator // used by `idalloc` (Alloc); a second allocator of the same member
	km          *encryptionkm.KeyManager
	clock       int64
	revokeFail  int32
	revMu       sync.Mutex
	revPark     int
	revParked   chan struct{}
	revRelease  chan bool
	closing     chan struct{}    // a Reset / ResetLeader parked inside lease.Close (closed when it has returned)
	wrapped     clientv3.LeaseID // lease object already wrapped (identified by id; 0 = none yet)
	wrappedSet  bool
	pending     chan string // parked campaign
	ctx         context.Context
	cancel      context.CancelFunc
	watching    bool
	watchDone   chan struct{}
	watchCancel context.CancelFunc
	watchCRev   int64
}

type world struct {
	e        *etcdh.Etcd
	seq      int
	root     string
	conts    []*cont
	leaseIdx map[clientv3.LeaseID]int
	leases   []clientv3.LeaseID
	opaque   map[string]int
	cfg      *config.Config
}

func (w *world) rootOf(l int) string { return fmt.Sprintf("%s/k%d", w.root, l) }

func memberValue(idv int) string {
	m := &pdpb.Member{Name: fmt.Sprintf("m%d", idv), MemberId: uint64(idv),
		ClientUrls: []string{"http://127.0.0.1:2379"}, PeerUrls: []string{"http://127.0.0.1:2380"}}
	b, err := m.Marshal()
	if err != nil {
		panic(err)
	}
	return string(b)
}

func (w *world) newCont(key, mem int, clock int64) *cont {
	c := &cont{key: key, member: mem, clock: clock}
	c.client = etcdh.NewClient(w.e.Cfg)
	c.gate = etcdh.Wrap(c.client)
	c.ctx, c.cancel = context.WithCancel(context.Background())
	c.m = member.NewMember(w.e.Srv, c.client, uint64(mem))
	cfg := *w.cfg
	cfg.AdvertiseClientUrls = "http://127.0.0.1:2379"
	cfg.AdvertisePeerUrls = "http://127.0.0.1:2380"
	c.m.MemberInfo(&cfg, fmt.Sprintf("m%d", mem), w.rootOf(key))
	if c.m.MemberValue() != memberValue(mem) {
		panic("member value is not the canonical one")
	}
	c.am = tso.NewAllocatorManager(c.m, w.rootOf(key), &cfg, func() time.Duration { return 24 * time.Hour })
	c.am.SetUpAllocator(c.ctx, tso.GlobalDCLocation, c.m.GetLeadership())
	a, err := c.am.GetAllocator(tso.GlobalDCLocation)
	if err != nil {
		panic(err)
	}
	c.alloc = a
	c.ida = id.NewAllocator(c.client, w.rootOf(key), c.m.MemberValue())
	c.idb = id.NewAllocator(c.client, w.rootOf(key), c.m.MemberValue())
	ecfg := &encryption.Config{DataEncryptionMethod: "aes128-ctr"}
	if err := ecfg.Adjust(); err != nil {
		panic(err)
	}
	km, err := encryptionkm.NewKeyManager(c.client, ecfg)
	if err != nil {
		panic(err)
	}
	c.km = km
	return c
}

func (w *world) stopWatch(c *cont) {
	if c.watching {
		c.watchCancel()
		<-c.watchDone
		c.watching = false
	}
}

func (w *world) dropCont(c *cont) {
	if c.pending != nil {
		c.gate.Release(etcdh.ErrBefore)
		<-c.pending
		c.pending = nil
	}
	w.endClosing(c, false)
	w.stopWatch(c)
	c.cancel()
	c.client.Close()
}

func (w *world) endClosing(c *cont, through bool) {
	if c.closing != nil {
		c.revRelease <- through
		<-c.closing
		c.closing = nil
	}
}

func (w *world) reset() {
	for _, c := range w.conts {
		w.dropCont(c)
	}
	w.conts = nil
	ctx := context.Background()
	for _, l := range w.leases {
		w.e.Client.Revoke(ctx, l)
	}
	if w.root != "" {
		w.e.Client.Delete(ctx, w.root+"/", clientv3.WithPrefix())
	}
	w.e.Client.Delete(ctx, encryptionkm.EncryptionKeysPath)
	w.leases = nil
	w.leaseIdx = map[clientv3.LeaseID]int{}
	w.opaque = map[string]int{}
	w.seq++
	w.root = fmt.Sprintf("/verif/el/%d", w.seq)
	atomic.StoreInt64(&clockSecs, 0)
}

func (w *world) noteLease(l clientv3.LeaseID) int {
	if l == 0 {
		return 0
	}
	if i, ok := w.leaseIdx[l]; ok {
		return i
	}
	w.leases = append(w.leases, l)
	w.leaseIdx[l] = len(w.leases)
	return len(w.leases)
}

// ---------------------------------------------------------------------------------------------
// keys

type keyRef struct {
	kind, a, b int // kind: 0 L 1 N 2 T 3 I 4 P 5 C 6 E 7 S
}

func (k keyRef) String() string {
	switch k.kind {
	case 0:
		return fmt.Sprintf("L%d", k.a)
	case 1:
		return fmt.Sprintf("N%d", k.a)
	case 2:
		return fmt.Sprintf("T%d", k.a)
	case 3:
		return fmt.Sprintf("I%d", k.a)
	case 4:
		return fmt.Sprintf("P%d.%d", k.a, k.b)
	case 5:
		return fmt.Sprintf("C%d.%d", k.a, k.b)
	case 6:
		return "E"
	}
	return fmt.Sprintf("S%d", k.a)
}

func parseKey(s string) (keyRef, bool) {
	if s == "" {
		return keyRef{}, false
	}
	body := s[1:]
	num := func(x string) (int, bool) {
		if x == "" {
			return 0, false
		}
		for _, ch := range x {
			if ch < '0' || ch > '9' {
				return 0, false
			}
		}
		n, err := strconv.Atoi(x)
		return n, err == nil
	}
	two := func() (int, int, bool) {
		p := strings.Split(body, ".")
		if len(p) != 2 {
			return 0, 0, false
		}
		a, ok1 := num(p[0])
		b, ok2 := num(p[1])
		return a, b, ok1 && ok2
	}
	one := func(kind int) (keyRef, bool) {
		a, ok := num(body)
		return keyRef{kind, a, 0}, ok
	}
	switch s[0] {
	case 'L':
		return one(0)
	case 'N':
		return one(1)
	case 'T':
		return one(2)
	case 'I':
		return one(3)
	case 'P':
		a, b, ok := two()
		return keyRef{4, a, b}, ok
	case 'C':
		a, b, ok := two()
		return keyRef{5, a, b}, ok
	case 'E':
		return keyRef{6, 0, 0}, body == ""
	case 'S':
		return one(7)
	}
	return keyRef{}, false
}

func (w *world) pathOf(k keyRef) string {
	switch k.kind {
	case 0:
		return w.rootOf(k.a) + "/leader"
	case 1:
		return w.rootOf(k.a) + "/next-leader"
	case 2:
		return w.rootOf(k.a) + "/timestamp"
	case 3:
		return w.rootOf(k.a) + "/alloc_id"
	case 4:
		return fmt.Sprintf("%s/member/%d/leader_priority", w.rootOf(k.a), k.b)
	case 5:
		return fmt.Sprintf("%s/dc-location/%d", w.rootOf(k.a), k.b)
	case 6:
		return encryptionkm.EncryptionKeysPath
	}
	return fmt.Sprintf("%s/scratch/%d", w.root, k.a)
}

func (w *world) keyOfPath(p string) (keyRef, bool) {
	if p == encryptionkm.EncryptionKeysPath {
		return keyRef{6, 0, 0}, true
	}
	rest := strings.TrimPrefix(p, w.root+"/")
	if rest == p {
		return keyRef{}, false
	}
	parts := strings.Split(rest, "/")
	atoi := func(s string) int { n, _ := strconv.Atoi(s); return n }
	if parts[0] == "scratch" && len(parts) == 2 {
		return keyRef{7, atoi(parts[1]), 0}, true
	}
	if !strings.HasPrefix(parts[0], "k") {
		return keyRef{}, false
	}
	l := atoi(parts[0][1:])
	switch {
	case len(parts) == 2 && parts[1] == "leader":
		return keyRef{0, l, 0}, true
	case len(parts) == 2 && parts[1] == "next-leader":
		return keyRef{1, l, 0}, true
	case len(parts) == 2 && parts[1] == "timestamp":
		return keyRef{2, l, 0}, true
	case len(parts) == 2 && parts[1] == "alloc_id":
		return keyRef{3, l, 0}, true
	case len(parts) == 4 && parts[1] == "member" && parts[3] == "leader_priority":
		return keyRef{4, l, atoi(parts[2])}, true
	case len(parts) == 3 && parts[1] == "dc-location":
		return keyRef{5, l, atoi(parts[2])}, true
	}
	return keyRef{}, false
}

// canonical value of a stored entry
func (w *world) valueOf(k keyRef, v []byte) string {
	switch k.kind {
	case 0:
		m := &pdpb.Member{}
		if err := m.Unmarshal(v); err != nil {
			return "?"
		}
		if string(v) != memberValue(int(m.GetMemberId())) {
			return "?"
		}
		return strconv.FormatUint(m.GetMemberId(), 10)
	case 2, 6:
		s := k.String() + "\x00" + string(v)
		if i, ok := w.opaque[s]; ok {
			return strconv.Itoa(i)
		}
		w.opaque[s] = len(w.opaque) + 1
		return strconv.Itoa(len(w.opaque))
	case 3:
		n, err := typeutil.BytesToUint64(v)
		if err != nil {
			return "?"
		}
		return strconv.FormatUint(n, 10)
	}
	return string(v)
}

// raw value written for a key by rawtxn
func rawValue(k keyRef, v int) string {
	if k.kind == 0 {
		return memberValue(v)
	}
	return strconv.Itoa(v)
}

func rawKeyAllowed(k keyRef) bool {
	return k.kind == 0 || k.kind == 1 || k.kind == 4 || k.kind == 5 || k.kind == 7
}

// ---------------------------------------------------------------------------------------------
// dump

func (w *world) dump() string {
	ctx := context.Background()
	type ent struct {
		k keyRef
		s string
	}
	var ents []ent
	add := func(resp *clientv3.GetResponse) {
		for _, kv := range resp.Kvs {
			k, ok := w.keyOfPath(string(kv.Key))
			if !ok {
				ents = append(ents, ent{keyRef{9, 0, 0}, "?" + string(kv.Key)})
				continue
			}
			ents = append(ents, ent{k, fmt.Sprintf("%s=%s/%d", k, w.valueOf(k, kv.Value), w.leaseIdx[clientv3.LeaseID(kv.Lease)])})
		}
	}
	r1, err := w.e.Client.Get(ctx, w.root+"/", clientv3.WithPrefix())
	if err != nil {
		panic(err)
	}
	add(r1)
	r2, err := w.e.Client.Get(ctx, encryptionkm.EncryptionKeysPath)
	if err != nil {
		panic(err)
	}
	add(r2)
	sort.SliceStable(ents, func(i, j int) bool {
		a, b := ents[i].k, ents[j].k
		if a.kind != b.kind {
			return a.kind < b.kind
		}
		if a.a != b.a {
			return a.a < b.a
		}
		return a.b < b.b
	})
	var kvs []string
	for _, e := range ents {
		kvs = append(kvs, e.s)
	}
	lr, err := w.e.Client.Leases(ctx)
	if err != nil {
		panic(err)
	}
	var live []int
	for _, l := range lr.Leases {
		if i, ok := w.leaseIdx[l.ID]; ok {
			live = append(live, i)
		}
	}
	sort.Ints(live)
	var ls []string
	for _, i := range live {
		ls = append(ls, strconv.Itoa(i))
	}
	var cs []string
	for i, c := range w.conts {
		atomic.StoreInt64(&clockSecs, c.clock)
		ldr := c.m.GetLeadership()
		v := ldr.VerifLease()
		lease := "-"
		if v.Has {
			ex := "u"
			if v.ExpireSet {
				if v.Expire.IsZero() {
					ex = "c"
				} else {
					d := v.Expire.Sub(baseTime)
					if d%time.Second != 0 {
						ex = "t?" + d.String()
					} else {
						ex = fmt.Sprintf("t%d", int64(d/time.Second))
					}
				}
			}
			lease = fmt.Sprintf("%d/%d/%s", w.leaseIdx[clientv3.LeaseID(v.ID)], int64(v.TTL/time.Second), ex)
		}
		val := 0
		if lv := ldr.VerifLeaderValue(); lv != "" {
			m := &pdpb.Member{}
			if err := m.Unmarshal([]byte(lv)); err == nil && lv == memberValue(int(m.GetMemberId())) {
				val = int(m.GetMemberId())
			} else {
				val = -1
			}
		}
		b2i := func(b bool) int {
			if b {
				return 1
			}
			return 0
		}
		cs = append(cs, fmt.Sprintf("c%d=k%d,m%d,v%d,l%s,ca%d,ti%d,chk%d", i, c.key, c.member, val, lease,
			c.m.GetLeader().GetMemberId(), b2i(c.alloc.IsInitialize()), b2i(ldr.Check())))
	}
	orDash := func(l []string, sep string) string {
		if len(l) == 0 {
			return "-"
		}
		return strings.Join(l, sep)
	}
	return fmt.Sprintf("%s | live=%s | %s", orDash(kvs, " "), orDash(ls, ","), orDash(cs, " "))
}

// ---------------------------------------------------------------------------------------------
// ops

func fault(s string) etcdh.Fault {
	switch s {
	case "before":
		return etcdh.ErrBefore
	case "after":
		return etcdh.ErrAfter
	}
	return etcdh.None
}

func txnOut(err error) string {
	if err == nil {
		return "ok"
	}
	if errs.ErrEtcdTxnConflict.Equal(err) || strings.Contains(err.Error(), "maybe not pd leader") ||
		errs.ErrEncryptionSaveDataKeys.Equal(err) {
		return "conflict"
	}
	return "err"
}

type cmpAtom struct {
	absent bool
	k      keyRef
	v      int
}

func parseCmps(s string) ([]cmpAtom, bool) {
	if s == "-" {
		return nil, true
	}
	var out []cmpAtom
	for _, a := range strings.Split(s, ",") {
		p := strings.Split(a, ":")
		switch {
		case len(p) == 2 && p[0] == "A":
			k, ok := parseKey(p[1])
			if !ok {
				return nil, false
			}
			out = append(out, cmpAtom{absent: true, k: k})
		case len(p) == 3 && p[0] == "V":
			k, ok := parseKey(p[1])
			v, err := strconv.Atoi(p[2])
			if !ok || err != nil || v < 0 {
				return nil, false
			}
			out = append(out, cmpAtom{k: k, v: v})
		default:
			return nil, false
		}
	}
	return out, true
}

func (w *world) cmps(as []cmpAtom) []clientv3.Cmp {
	var out []clientv3.Cmp
	for _, a := range as {
		if a.absent {
			out = append(out, clientv3.Compare(clientv3.CreateRevision(w.pathOf(a.k)), "=", 0))
		} else {
			out = append(out, clientv3.Compare(clientv3.Value(w.pathOf(a.k)), "=", rawValue(a.k, a.v)))
		}
	}
	return out
}

func (w *world) parseEOps(s string) ([]clientv3.Op, bool) {
	if s == "-" {
		return nil, true
	}
	var out []clientv3.Op
	for _, a := range strings.Split(s, ",") {
		p := strings.Split(a, ":")
		switch {
		case len(p) == 2 && p[0] == "D":
			k, ok := parseKey(p[1])
			if !ok || !rawKeyAllowed(k) {
				return nil, false
			}
			out = append(out, clientv3.OpDelete(w.pathOf(k)))
		case len(p) == 4 && p[0] == "P":
			k, ok := parseKey(p[1])
			v, err1 := strconv.Atoi(p[2])
			l, err2 := strconv.Atoi(p[3])
			if !ok || !rawKeyAllowed(k) || err1 != nil || err2 != nil || v < 0 || l < 0 {
				return nil, false
			}
			if l == 0 {
				out = append(out, clientv3.OpPut(w.pathOf(k), rawValue(k, v)))
			} else {
				var id clientv3.LeaseID = 0x7fffffffffffff00 // a lease that was never granted
				if l <= len(w.leases) {
					id = w.leases[l-1]
				}
				out = append(out, clientv3.OpPut(w.pathOf(k), rawValue(k, v), clientv3.WithLease(id)))
			}
		default:
			return nil, false
		}
	}
	return out, true
}

// startCampaign runs Campaign in a goroutine with its transaction parked; returns "parked" or the
// result if Campaign ended before reaching the transaction (Grant failed).
func (w *world) startCampaign(c *cont, ttl int64, extra []cmpAtom) string {
	parked := c.gate.ArmPark()
	done := make(chan string, 1)
	cm := w.cmps(extra)
	go func() {
		var err error
		if len(cm) == 0 {
			err = c.m.CampaignLeader(ttl)
		} else {
			// as LocalTSOAllocator.CampaignAllocatorLeader does
			err = c.m.GetLeadership().Campaign(ttl, c.m.MemberValue(), cm...)
		}
		switch {
		case err == nil:
			done <- "ok"
		case errs.ErrEtcdTxnConflict.Equal(err):
			done <- "conflict"
		case errs.ErrEtcdGrantLease.Equal(err) || strings.Contains(err.Error(), "ErrEtcdGrantLease"):
			done <- "grant-err"
		default:
			if os.Getenv("VERIF_DEBUG") != "" {
				fmt.Fprintf(os.Stderr, "campaign error: %T %v\n", err, err)
			}
			done <- "err"
		}
	}()
	select {
	case <-parked:
		c.pending = done
		v := c.m.GetLeadership().VerifLease()
		w.noteLease(clientv3.LeaseID(v.ID))
		// failure injection for the Revoke of this lease object
		c.m.GetLeadership().VerifWrapLease(func(l clientv3.Lease) clientv3.Lease {
			return &gateLease{Lease: l, c: c}
		})
		return "parked"
	case r := <-done:
		c.gate.Disarm()
		return r
	case <-time.After(30 * time.Second):
		panic("campaign: neither parked nor done")
	}
}

func (w *world) finishCampaign(c *cont, f etcdh.Fault, rv bool) string {
	if rv {
		atomic.StoreInt32(&c.revokeFail, 0)
	} else {
		atomic.StoreInt32(&c.revokeFail, 1)
	}
	c.gate.Release(f)
	r := <-c.pending
	c.pending = nil
	atomic.StoreInt32(&c.revokeFail, 0)
	return r
}

func (w *world) withRevoke(c *cont, rv bool, f func()) {
	if !rv {
		atomic.StoreInt32(&c.revokeFail, 1)
	}
	f()
	atomic.StoreInt32(&c.revokeFail, 0)
}

// keep: one KeepAlive call, stopped after its first tick has been processed.
func (w *world) keep(c *cont) {
	ls := c.m.GetLeadership()
	v := ls.VerifLease()
	liveOnServer := false
	if v.ID != 0 {
		r, err := w.e.Client.TimeToLive(context.Background(), clientv3.LeaseID(v.ID))
		liveOnServer = err == nil && r.TTL > 0
	}
	want := injectedNow().Add(v.TTL)
	calls := election.VerifNowCalls()
	already := v.ExpireSet && v.Expire.Equal(want)
	ctx, cancel := context.WithCancel(c.ctx)
	done := make(chan struct{})
	go func() { c.m.KeepLeader(ctx); close(done) }()
	switch {
	case !liveOnServer:
		// the request fails at the server and nothing is stored; give it the time to come back
		time.Sleep(4 * time.Millisecond)
	case already:
		// the tick stores the value that is there already: wait for the clock reading of the request, briefly
		for end := time.Now().Add(50 * time.Millisecond); election.VerifNowCalls() == calls && time.Now().Before(end); {
			time.Sleep(200 * time.Microsecond)
		}
	default:
		for end := time.Now().Add(10 * time.Second); time.Now().Before(end); {
			if x := ls.VerifLease(); x.ExpireSet && x.Expire.Equal(want) {
				break
			}
			time.Sleep(200 * time.Microsecond)
		}
	}
	cancel()
	<-done
}

func (w *world) realExpiry(ttl int64) string {
	election.VerifSetClock(nil)
	defer election.VerifSetClock(injectedNow)
	// The verdict must not depend on how this process is scheduled (a stalled goroutine between "the local view
	// expired" and "look at etcd" would blame the code): the local expiry time lies in [t0+ttl, t1+ttl] (the lease
	// stores `time before the Grant request + ttl`), and every Get is bracketed by its start and return times.
	//   refuted:   the key is absent in an answer that returned before t0+ttl
	//   confirmed: the key is present in an answer to a request that started at or after t1+ttl
	// anything else is inconclusive; the measurement is repeated, and an assumption that was never refuted stands.
	for attempt := 0; attempt < 3; attempt++ {
		c := etcdh.NewClient(w.e.Cfg)
		key := fmt.Sprintf("%s-real%d/leader", w.root, attempt)
		ls := election.NewLeadership(c, key, "assumption check")
		t0 := time.Now()
		if err := ls.Campaign(ttl, "real"); err != nil {
			c.Close()
			return "err"
		}
		t1 := time.Now()
		if !ls.Check() {
			c.Close()
			return "check-false-after-campaign"
		}
		// the lease stores start + the TTL etcd GRANTED (it may exceed the requested one)
		granted := ttl
		if r, err := w.e.Client.Get(context.Background(), key); err == nil && len(r.Kvs) == 1 && r.Kvs[0].Lease != 0 {
			if tl, err := w.e.Client.TimeToLive(context.Background(), clientv3.LeaseID(r.Kvs[0].Lease)); err == nil && tl.GrantedTTL > 0 {
				granted = tl.GrantedTTL
			}
		}
		lo, hi := t0.Add(time.Duration(granted)*time.Second), t1.Add(time.Duration(granted)*time.Second)
		deadline := time.Now().Add(60 * time.Second)
		verdict := ""
		for verdict == "" {
			start := time.Now()
			r, err := w.e.Client.Get(context.Background(), key)
			ret := time.Now()
			if err != nil {
				c.Close()
				return "err"
			}
			present := len(r.Kvs) != 0
			switch {
			case !present && ret.Before(lo):
				verdict = "server-expired-first"
			case present && !start.Before(hi):
				verdict = "ok"
			case !present:
				verdict = "inconclusive"
			case time.Now().After(deadline):
				verdict = "server-never-expired"
			default:
				time.Sleep(2 * time.Millisecond)
			}
		}
		stillValid := ls.Check() // at or after t1+ttl the local view must have expired
		c.Close()
		if verdict == "ok" && stillValid {
			return "local-view-never-expired"
		}
		if verdict != "inconclusive" {
			return verdict
		}
	}
	return "ok"
}

func (w *world) leaderRecord(l int) (*pdpb.Member, int64, int64) {
	resp, err := w.e.Client.Get(context.Background(), w.rootOf(l)+"/leader")
	if err != nil {
		panic(err)
	}
	if len(resp.Kvs) == 0 {
		return nil, 0, 0
	}
	m := &pdpb.Member{}
	if err := m.Unmarshal(resp.Kvs[0].Value); err != nil {
		return &pdpb.Member{}, resp.Kvs[0].CreateRevision, resp.Kvs[0].ModRevision
	}
	return m, resp.Kvs[0].CreateRevision, resp.Kvs[0].ModRevision
}

// settleWatchers waits for every watcher whose record has been deleted to return (Watch delivery).
func (w *world) settleWatchers() {
	for _, c := range w.conts {
		if !c.watching {
			continue
		}
		_, crev, _ := w.leaderRecord(c.key)
		if crev == c.watchCRev {
			continue // the watched record is still there
		}
		select {
		case <-c.watchDone:
			c.watching = false
		case <-time.After(10 * time.Second):
			panic("watcher did not fire after the deletion of its record")
		}
	}
}

func (w *world) exec(op string) string {
	f := strings.Fields(op)
	const bad = "bad-op"
	num := func(s string) (int, bool) {
		if s == "" || len(s) > 12 {
			return 0, false
		}
		for _, ch := range s {
			if ch < '0' || ch > '9' {
				return 0, false
			}
		}
		n, err := strconv.Atoi(s)
		return n, err == nil
	}
	get := func(s string) *cont {
		i, ok := num(s)
		if !ok || i >= len(w.conts) {
			return nil
		}
		c := w.conts[i]
		atomic.StoreInt64(&clockSecs, c.clock)
		return c
	}
	rvOf := func(s string) bool { return s != "rv0" }
	if len(f) == 0 {
		return bad
	}
	switch {
	case f[0] == "reset":
		w.reset()
		return "ok"
	case f[0] == "new" && len(f) == 3:
		k, ok1 := num(f[1])
		m, ok2 := num(f[2])
		if !ok1 || !ok2 {
			return bad
		}
		w.conts = append(w.conts, w.newCont(k, m, 0))
		return "ok"
	case f[0] == "clock" && len(f) == 3:
		c := get(f[1])
		t, ok := num(f[2])
		if c == nil || !ok {
			return bad
		}
		c.clock = int64(t)
		return "ok"
	case f[0] == "campaign" && len(f) == 6:
		c := get(f[1])
		ttl, ok := num(f[2])
		extra, ok2 := parseCmps(f[3])
		if c == nil || !ok || !ok2 || c.pending != nil || c.closing != nil {
			return bad
		}
		r := w.startCampaign(c, int64(ttl), extra)
		if r != "parked" {
			return r
		}
		return w.finishCampaign(c, fault(f[4]), rvOf(f[5]))
	case f[0] == "gcampaign" && len(f) == 4:
		c := get(f[1])
		ttl, ok := num(f[2])
		extra, ok2 := parseCmps(f[3])
		if c == nil || !ok || !ok2 || c.pending != nil || c.closing != nil {
			return bad
		}
		return w.startCampaign(c, int64(ttl), extra)
	case f[0] == "finish" && len(f) == 4:
		c := get(f[1])
		if c == nil || c.pending == nil {
			return bad
		}
		return w.finishCampaign(c, fault(f[2]), rvOf(f[3]))
	case f[0] == "keep" && len(f) == 2:
		c := get(f[1])
		if c == nil {
			return bad
		}
		if v := c.m.GetLeadership().VerifLease(); c.pending != nil || !v.Has || v.ID == 0 {
			return bad // (Keep without a granted lease panics: nil lease / zero ticker interval)
		}
		w.keep(c)
		return "ok"
	case f[0] == "expire" && len(f) == 2:
		n, ok := num(f[1])
		if !ok {
			return bad
		}
		if n >= 1 && n <= len(w.leases) {
			w.e.Client.Revoke(context.Background(), w.leases[n-1])
		}
		return "ok"
	case f[0] == "resetl" && len(f) == 3:
		c := get(f[1])
		if c == nil || c.pending != nil {
			return bad
		}
		w.withRevoke(c, rvOf(f[2]), func() { c.m.GetLeadership().Reset() })
		return "ok"
	case f[0] == "gresetl" && len(f) == 4:
		c := get(f[1])
		if c == nil || c.pending != nil || c.closing != nil || (f[2] != "pre" && f[2] != "post") ||
			(f[3] != "reset" && f[3] != "leader") {
			return bad
		}
		call := func() {
			if f[3] == "leader" {
				c.m.ResetLeader()
			} else {
				c.m.GetLeadership().Reset()
			}
		}
		v := c.m.GetLeadership().VerifLease()
		if !v.Has {
			call() // no lease object: nothing to close
			return "ok"
		}
		if v.ID == 0 {
			// the lease object of a failed Grant never reached its transaction: it is not wrapped yet
			c.m.GetLeadership().VerifWrapLease(func(l clientv3.Lease) clientv3.Lease {
				if _, ok := l.(*gateLease); ok {
					return l
				}
				return &gateLease{Lease: l, c: c}
			})
		}
		c.revMu.Lock()
		c.revPark = parkPost
		if f[2] == "pre" {
			c.revPark = parkPre
		}
		c.revParked = make(chan struct{})
		c.revRelease = make(chan bool, 1)
		parked := c.revParked
		c.revMu.Unlock()
		done := make(chan struct{})
		go func() { call(); close(done) }()
		select {
		case <-parked:
			c.closing = done
			return "parked"
		case <-done:
			panic("gresetl: Reset returned without a Revoke request")
		case <-time.After(20 * time.Second):
			panic("gresetl: neither parked nor done")
		}
	case f[0] == "rfinish" && len(f) == 3:
		c := get(f[1])
		if c == nil || c.closing == nil {
			return bad
		}
		w.endClosing(c, rvOf(f[2]))
		return "ok"
	case f[0] == "serverhb" && len(f) == 1:
		return serverHeartbeatAfterResign()
	case f[0] == "delkey" && len(f) == 4:
		c := get(f[1])
		if c == nil || c.pending != nil {
			return bad
		}
		c.gate.SetFault(fault(f[2]))
		var err error
		w.withRevoke(c, rvOf(f[3]), func() { err = c.m.GetLeadership().DeleteLeaderKey() })
		c.gate.SetFault(etcdh.None)
		return txnOut(err)
	case f[0] == "write" && len(f) == 4:
		c := get(f[1])
		if c == nil || c.pending != nil {
			return bad
		}
		p := strings.Split(f[2], ":")
		var run func() error
		switch {
		case len(p) == 3 && p[0] == "pp":
			m, ok1 := num(p[1])
			v, ok2 := num(p[2])
			if !ok1 || !ok2 {
				return bad
			}
			run = func() error { return c.m.SetMemberLeaderPriority(uint64(m), v) }
		case len(p) == 2 && p[0] == "pd":
			m, ok := num(p[1])
			if !ok {
				return bad
			}
			run = func() error { return c.m.DeleteMemberLeaderPriority(uint64(m)) }
		case len(p) == 2 && p[0] == "dd":
			m, ok := num(p[1])
			if !ok {
				return bad
			}
			run = func() error { return c.m.DeleteMemberDCLocationInfo(uint64(m)) }
		case len(p) == 1 && p[0] == "ts":
			run = func() error { return c.alloc.Initialize(0) }
		case len(p) == 1 && p[0] == "id":
			run = func() error { return c.ida.Rebase() }
		case len(p) == 1 && p[0] == "enc":
			run = func() error { return c.km.SetLeadership(c.m.GetLeadership()) }
		default:
			return bad
		}
		commits := c.gate.Commits
		c.gate.SetFault(fault(f[3]))
		err := run()
		c.gate.SetFault(etcdh.None)
		if p[0] == "enc" && err == nil && c.gate.Commits == commits {
			return "noop" // the key manager did not attempt a transaction
		}
		return txnOut(err)
	case f[0] == "idalloc" && len(f) == 3:
		c := get(f[1])
		if c == nil || c.pending != nil {
			return bad
		}
		c.gate.SetFault(fault(f[2]))
		n, err := c.idb.Alloc()
		c.gate.SetFault(etcdh.None)
		if err == nil {
			return fmt.Sprintf("ok %d", n)
		}
		return txnOut(err)
	case f[0] == "check" && len(f) == 2:
		c := get(f[1])
		if c == nil {
			return bad
		}
		return strconv.FormatBool(c.m.GetLeadership().Check())
	case f[0] == "isleader" && len(f) == 2:
		c := get(f[1])
		if c == nil {
			return bad
		}
		return strconv.FormatBool(c.m.IsLeader())
	case f[0] == "tso" && len(f) == 2:
		c := get(f[1])
		if c == nil {
			return bad
		}
		ts, err := c.am.HandleTSORequest(tso.GlobalDCLocation, 1)
		if err == nil && ts.GetPhysical() != 0 {
			return "served"
		}
		return "refused"
	case f[0] == "enable" && len(f) == 2:
		c := get(f[1])
		if c == nil {
			return bad
		}
		c.m.EnableLeader()
		return "ok"
	case f[0] == "observe" && len(f) == 2:
		c := get(f[1])
		if c == nil || c.pending != nil || c.watching {
			return bad
		}
		rec, crev, _ := w.leaderRecord(c.key)
		leader, rev, again := c.m.CheckLeader()
		if again {
			return "err"
		}
		if leader == nil {
			if rec != nil && rec.GetMemberId() == uint64(c.member) {
				return "deleted"
			}
			return "no-leader"
		}
		ctx, cancel := context.WithCancel(c.ctx)
		done := make(chan struct{})
		go func() { c.m.WatchLeader(ctx, leader, rev); close(done) }()
		for i := 0; c.m.GetLeader().GetMemberId() != leader.GetMemberId(); i++ {
			if i > 50000 {
				panic("WatchLeader did not set the leader")
			}
			time.Sleep(100 * time.Microsecond)
		}
		c.watching, c.watchDone, c.watchCancel, c.watchCRev = true, done, cancel, crev
		return fmt.Sprintf("leader %d", leader.GetMemberId())
	case f[0] == "unwatch" && len(f) == 2:
		c := get(f[1])
		if c == nil || !c.watching {
			return bad
		}
		w.stopWatch(c)
		return "ok"
	case f[0] == "tsoreset" && len(f) == 2:
		c := get(f[1])
		if c == nil {
			return bad
		}
		c.alloc.Reset()
		return "ok"
	case f[0] == "stepdown" && len(f) == 3:
		c := get(f[1])
		if c == nil || c.pending != nil {
			return bad
		}
		w.withRevoke(c, rvOf(f[2]), func() {
			c.m.ResetLeader()
			c.am.ResetAllocatorGroup(tso.GlobalDCLocation)
		})
		return "ok"
	case f[0] == "crash" && len(f) == 2:
		c := get(f[1])
		i, _ := num(f[1])
		if c == nil || c.pending != nil {
			return bad
		}
		// all volatile state is dropped; nothing is told to etcd
		atomic.StoreInt32(&c.revokeFail, 1)
		w.endClosing(c, false)
		w.stopWatch(c)
		c.cancel()
		c.client.Close()
		w.conts[i] = w.newCont(c.key, c.member, c.clock)
		return "ok"
	case f[0] == "realexpiry" && len(f) == 2:
		// assumption check on the real clock and the real lease expiry of etcd: when the local view
		// of a lease that is not kept alive expires, the lease is still there on the etcd side
		ttl, ok := num(f[1])
		if !ok || ttl < 1 || ttl > 10 {
			return bad
		}
		return w.realExpiry(int64(ttl))
	case f[0] == "rawgrant" && len(f) == 1:
		r, err := w.e.Client.Grant(context.Background(), 600)
		if err != nil {
			panic(err)
		}
		return fmt.Sprintf("lease %d", w.noteLease(r.ID))
	case f[0] == "rawtxn" && len(f) == 4:
		cm, ok := parseCmps(f[1])
		th, ok2 := w.parseEOps(f[2])
		el, ok3 := w.parseEOps(f[3])
		if !ok || !ok2 || !ok3 {
			return bad
		}
		resp, err := w.e.Client.Txn(context.Background()).If(w.cmps(cm)...).Then(th...).Else(el...).Commit()
		if err != nil {
			return "err"
		}
		if resp.Succeeded {
			return "ok"
		}
		return "conflict"
	}
	return bad
}

func (w *world) run(t *trace.W, op string) string {
	out := w.exec(op)
	if f := strings.Fields(op); len(f) > 0 && f[0] == "reset" {
		t.Line(op, "ok | - | live=- | -")
		return out
	}
	w.settleWatchers()
	t.Line(op, out+" | "+w.dump())
	return out
}

func main() {
	out := flag.String("out", "-", "trace file")
	replay := flag.String("replay", "", "ops file to replay instead of generating")
	n := flag.Int("n", 60, "number of generated sequences")
	maxOps := flag.Int("len", 50, "max ops per sequence")
	stream := flag.Uint64("stream", 0, "PRNG stream (even: faithful executions, odd: malformed)")
	srvhb := flag.Bool("srv", false, "stream 0 starts with the server-level heartbeat-after-resign check")
	real := flag.Bool("real", false, "stream 0 starts with a real-clock check of the lease timing assumption")
	flag.Parse()

	election.VerifSetClock(injectedNow)
	e := etcdh.Start()
	defer e.Stop()
	cfg := config.NewConfig()
	cfg.TSOSaveInterval = typeutil.NewDuration(3 * time.Second)
	cfg.TSOUpdatePhysicalInterval = typeutil.NewDuration(50 * time.Millisecond)
	w := &world{e: e, cfg: cfg}
	t := trace.Create(*out)
	defer t.Close()
	if *replay != "" {
		for _, op := range trace.ReadOps(*replay) {
			w.run(t, op)
		}
		w.reset()
		if !election.VerifOverlayActive() && election.VerifNowCalls() == 0 && len(w.leases) > 0 {
			fmt.Fprintln(os.Stderr, "election: the lease clock overlay is not compiled in")
			os.Exit(4)
		}
		return
	}
	r := rng.FromEnv(*stream)
	st := newStats()
	if *srvhb && *stream == 0 {
		w.run(t, "reset faithful")
		st.add("serverhb", w.run(t, "serverhb"))
	}
	if *real && *stream == 0 {
		w.run(t, "reset faithful")
		st.add("realexpiry 1", w.run(t, "realexpiry 1"))
	}
	for s := 0; s < *n; s++ {
		gen(w, t, r, *maxOps, *stream%2 == 1, st)
	}
	w.reset()
	t.Comment(st.String())
	if !election.VerifOverlayActive() {
		fmt.Fprintln(os.Stderr, "election: the lease clock overlay is not compiled in")
		os.Exit(4)
	}
}
