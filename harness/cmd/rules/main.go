// Command rules drives the real placement.RuleManager on a memory storage wrapped by a failing kv.Base
// and writes the `<op> => <observation>` trace judged by the Lean model and monitor (property C13).
//
// Names are ranks in sorted universes (see PdModel/Driver/Rules.lean for the op grammar).
package main

import (
	"bytes"
	"encoding/hex"
	"encoding/json"
	"errors"
	"flag"
	"os"
	"runtime/pprof"
	"fmt"
	"math"
	"sort"
	"strconv"
	"strings"
	"sync"

	"github.com/pingcap/kvproto/pkg/metapb"
	"github.com/tikv/pd/server/core"
	"github.com/tikv/pd/server/kv"
	"github.com/tikv/pd/server/schedule/placement"

	_ "verifharness/internal/quiet"
	"verifharness/internal/rng"
	"verifharness/internal/trace"
)

// ---------------------------------------------------------------------------------------------
// universes: rank = index; each list is strictly increasing in Go's string / byte order (checked in main)

var (
	groupNames = []string{"", "g", "ga", "h", "pd"}
	idNames    = bulkIDs([]string{"", "a", "aa", "ab", "b", "c", "default"}) // + e00 … e59 (bulk stream)
	keyNames   = []string{"", "a", "aa", "ab", "b", "ba", "c", "d", "e"} // 8 ("e") is only queried
)

const maxKey = 8

const firstBulkID, nBulkIDs = 7, 60

func bulkIDs(base []string) []string {
	for i := 0; i < nBulkIDs; i++ {
		base = append(base, fmt.Sprintf("e%02d", i))
	}
	return base
}

type payload struct {
	LabelConstraints []placement.LabelConstraint `json:"label_constraints,omitempty"`
	LocationLabels   []string                    `json:"location_labels,omitempty"`
	IsolationLevel   string                      `json:"isolation_level,omitempty"`
}

var payloads = []payload{
	{},
	{LabelConstraints: []placement.LabelConstraint{{Key: "zone", Op: "in", Values: []string{"z1"}}}},
	{LocationLabels: []string{"zone", "host"}},
	{LocationLabels: []string{"zone"}, IsolationLevel: "zone"},
}

func rankOf(l []string, s string) int {
	for i, x := range l {
		if x == s {
			return i
		}
	}
	return -1
}

func name(l []string, r int) string {
	if r < 0 || r >= len(l) {
		return fmt.Sprintf("zz%d", r)
	}
	return l[r]
}

func b01(b bool) string {
	if b {
		return "1"
	}
	return "0"
}

func ruleToken(r *placement.Rule) string {
	sk, _ := hex.DecodeString(r.StartKeyHex)
	ek, _ := hex.DecodeString(r.EndKeyHex)
	pj, _ := json.Marshal(payload{r.LabelConstraints, r.LocationLabels, r.IsolationLevel})
	lbl := -1
	for i, p := range payloads {
		if q, _ := json.Marshal(p); bytes.Equal(q, pj) {
			lbl = i
		}
	}
	role := string(r.Role)
	switch role {
	case "voter", "leader", "follower", "learner":
	default:
		role = "x"
	}
	return fmt.Sprintf("%d:%d:%d:%s:%d:%d:%s:%d:%d", rankOf(groupNames, r.GroupID), rankOf(idNames, r.ID), r.Index,
		b01(r.Override), rankOf(keyNames, string(sk)), rankOf(keyNames, string(ek)), role, r.Count, lbl)
}

func parseRule(tok string) (*placement.Rule, bool) {
	f := strings.Split(tok, ":")
	if len(f) != 9 {
		return nil, false
	}
	n := func(i int) int { v, _ := strconv.Atoi(f[i]); return v }
	p := payloads[0]
	if n(8) >= 0 && n(8) < len(payloads) {
		p = payloads[n(8)]
	}
	return &placement.Rule{
		GroupID: name(groupNames, n(0)), ID: name(idNames, n(1)), Index: n(2), Override: f[3] == "1",
		StartKeyHex: hex.EncodeToString([]byte(name(keyNames, n(4)))), EndKeyHex: hex.EncodeToString([]byte(name(keyNames, n(5)))),
		Role: placement.PeerRoleType(f[6]), Count: n(7),
		LabelConstraints: p.LabelConstraints, LocationLabels: p.LocationLabels, IsolationLevel: p.IsolationLevel,
	}, true
}

func parseRules(s string) ([]*placement.Rule, bool) {
	if s == "-" || s == "" {
		return nil, true
	}
	var out []*placement.Rule
	for _, t := range strings.Split(s, ",") {
		r, ok := parseRule(t)
		if !ok {
			return nil, false
		}
		out = append(out, r)
	}
	return out, true
}

func parseBundle(s string) (placement.GroupBundle, bool) {
	f := strings.Split(s, "|")
	if len(f) != 4 {
		return placement.GroupBundle{}, false
	}
	g, _ := strconv.Atoi(f[0])
	idx, _ := strconv.Atoi(f[1])
	rs, ok := parseRules(f[3])
	return placement.GroupBundle{ID: name(groupNames, g), Index: idx, Override: f[2] == "1", Rules: rs}, ok
}

// ---------------------------------------------------------------------------------------------
// failing kv.Base

var errInjected = errors.New("injected storage failure")

type failKV struct {
	kv.Base
	mu      sync.Mutex
	park    bool          // park the next write (before it takes effect) until release is closed
	parked  chan struct{} // closed when a write is parked
	release chan struct{}
	armed  bool
	failAt int
	n      int
	failed bool
	wrote  []string
}

func (f *failKV) write(key string) error {
	f.mu.Lock()
	park := f.park
	f.park = false
	f.mu.Unlock()
	if park {
		close(f.parked)
		<-f.release
	}
	if !f.armed {
		return nil
	}
	if f.failed || f.n == f.failAt {
		f.failed = true
		return errInjected
	}
	f.n++
	f.wrote = append(f.wrote, key)
	return nil
}

func (f *failKV) Save(key, value string) error {
	if err := f.write(key); err != nil {
		return err
	}
	return f.Base.Save(key, value)
}

func (f *failKV) Remove(key string) error {
	if err := f.write(key); err != nil {
		return err
	}
	return f.Base.Remove(key)
}

// target converts a storage key to the token used in `wrote=`.
func target(key string) string {
	if strings.HasPrefix(key, "rules/") {
		p := strings.SplitN(strings.TrimPrefix(key, "rules/"), "-", 2)
		if len(p) == 2 {
			g, _ := hex.DecodeString(p[0])
			id, _ := hex.DecodeString(p[1])
			return fmt.Sprintf("r%d.%d", rankOf(groupNames, string(g)), rankOf(idNames, string(id)))
		}
	}
	if strings.HasPrefix(key, "rule_group/") {
		return fmt.Sprintf("g%d", rankOf(groupNames, strings.TrimPrefix(key, "rule_group/")))
	}
	return "?" + key
}

// ---------------------------------------------------------------------------------------------

type world struct {
	mem     kv.Base
	fkv     *failKV
	storage *core.Storage
	m       *placement.RuleManager
	// a parked update (its first storage write is held by the gate) and an update issued meanwhile
	pending chan string
	queued  chan string
}

func (w *world) finishPending() string {
	if w.pending == nil {
		return ""
	}
	close(w.fkv.release)
	out := <-w.pending
	if w.queued != nil {
		out += "+" + <-w.queued
	}
	w.pending, w.queued = nil, nil
	return out
}

func newManager(st *core.Storage) (*placement.RuleManager, error) {
	m := placement.NewRuleManager(st, nil)
	return m, m.Initialize(3, []string{"zone", "host"})
}

func (w *world) reset() {
	w.finishPending()
	w.mem = kv.NewMemoryKV()
	w.fkv = &failKV{Base: w.mem}
	w.storage = core.NewStorage(w.fkv)
	m, err := newManager(w.storage)
	if err != nil {
		panic(err)
	}
	w.m = m
}

func dump(base kv.Base, prefix string) ([]string, []string) {
	keys, vals, err := base.LoadRange(prefix, prefix[:len(prefix)-1]+"0", 512) // '/'+1 == '0'
	if err != nil {
		panic(err)
	}
	return keys, vals
}

func (w *world) cloneStorage() *core.Storage {
	c := kv.NewMemoryKV()
	for _, p := range []string{"rules/", "rule_group/"} {
		ks, vs := dump(w.mem, p)
		for i := range ks {
			_ = c.Save(ks[i], vs[i])
		}
	}
	return core.NewStorage(c)
}

func joinOr(d, sep string, l []string) string {
	if len(l) == 0 {
		return d
	}
	return strings.Join(l, sep)
}

func rulesStr(rs []*placement.Rule) string {
	var l []string
	for _, r := range rs {
		l = append(l, ruleToken(r))
	}
	return joinOr("-", ",", l)
}

func groupsStr(gs []*placement.RuleGroup) string {
	var l []string
	for _, g := range gs {
		l = append(l, fmt.Sprintf("%d:%d:%s", rankOf(groupNames, g.ID), g.Index, b01(g.Override)))
	}
	return joinOr("-", ",", l)
}

func keysStr(rs []*placement.Rule) string {
	var l []string
	for _, r := range rs {
		l = append(l, fmt.Sprintf("%d.%d", rankOf(groupNames, r.GroupID), rankOf(idNames, r.ID)))
	}
	return joinOr("nil", "+", l)
}

func mgrStr(m *placement.RuleManager) string {
	return rulesStr(m.GetAllRules()) + "/" + groupsStr(m.GetRuleGroups())
}

type rng2 struct{ s, e int }

func ranges() []rng2 {
	var out []rng2
	for s := 0; s < maxKey; s++ {
		for e := s + 1; e <= maxKey; e++ {
			out = append(out, rng2{s, e})
		}
		out = append(out, rng2{s, 0})
	}
	return out
}

func (w *world) storeStr() string {
	var rs, gs []string
	ks, vs := dump(w.mem, "rules/")
	for i := range ks {
		t := strings.TrimPrefix(target(ks[i]), "r")
		var r placement.Rule
		if err := json.Unmarshal([]byte(vs[i]), &r); err != nil {
			rs = append(rs, t+"=junk")
		} else {
			rs = append(rs, t+"="+ruleToken(&r))
		}
	}
	ks, vs = dump(w.mem, "rule_group/")
	for i := range ks {
		var g placement.RuleGroup
		if err := json.Unmarshal([]byte(vs[i]), &g); err != nil {
			gs = append(gs, "junk")
		} else {
			gs = append(gs, fmt.Sprintf("%d:%d:%s", rankOf(groupNames, g.ID), g.Index, b01(g.Override)))
		}
	}
	return joinOr("-", ",", rs) + "/" + joinOr("-", ",", gs)
}

func (w *world) obs() string {
	m := w.m
	var k, a, s []string
	for i := 0; i <= maxKey; i++ {
		k = append(k, keysStr(m.GetRulesByKey([]byte(keyNames[i]))))
	}
	for _, r := range ranges() {
		region := core.NewRegionInfo(&metapb.Region{Id: 1, StartKey: []byte(keyNames[r.s]), EndKey: []byte(keyNames[r.e])}, nil)
		a = append(a, keysStr(m.GetRulesForApplyRegion(region)))
		var sk []string
		for _, x := range m.GetSplitKeys([]byte(keyNames[r.s]), []byte(keyNames[r.e])) {
			sk = append(sk, strconv.Itoa(rankOf(keyNames, string(x))))
		}
		s = append(s, joinOr("-", "+", sk))
	}
	load := "err"
	if m2, err := newManager(w.cloneStorage()); err == nil {
		load = mgrStr(m2)
	}
	return fmt.Sprintf("R=%s G=%s K=%s A=%s S=%s ST=%s L=%s", rulesStr(m.GetAllRules()), groupsStr(m.GetRuleGroups()),
		strings.Join(k, ","), strings.Join(a, ","), strings.Join(s, ","), w.storeStr(), load)
}

func outOf(err error) string {
	if err == nil {
		return "ok"
	}
	if errors.Is(err, errInjected) || strings.Contains(err.Error(), errInjected.Error()) {
		return "err-storage"
	}
	if strings.Contains(err.Error(), "ErrBuildRuleList") || strings.Contains(err.Error(), "build rule list failed") {
		return "rej-build"
	}
	return "rej-content"
}

// updateCall builds the call of one update op (already stripped of fail=/wrote=).
func (w *world) updateCall(f []string) (func() (error, string), bool) {
	atoi := func(s string) int { n, _ := strconv.Atoi(s); return n }
	var call func() (error, string)
	switch {
	case len(f) == 2 && f[0] == "set":
		r, ok := parseRule(f[1])
		if !ok {
			return nil, false
		}
		call = func() (error, string) { return w.m.SetRule(r), "" }
	case len(f) == 3 && f[0] == "del":
		call = func() (error, string) {
			return w.m.DeleteRule(name(groupNames, atoi(f[1])), name(idNames, atoi(f[2]))), ""
		}
	case len(f) == 2 && f[0] == "setrules":
		rs, ok := parseRules(f[1])
		if !ok {
			return nil, false
		}
		call = func() (error, string) { return w.m.SetRules(rs), "" }
	case len(f) == 4 && f[0] == "getmodset":
		call = func() (error, string) {
			r := w.m.GetRule(name(groupNames, atoi(f[1])), name(idNames, atoi(f[2])))
			if r == nil {
				return nil, "not-found"
			}
			r.Count = atoi(f[3])
			return w.m.SetRule(r), ""
		}
	case len(f) == 2 && f[0] == "batch":
		var todo []placement.RuleOp
		if f[1] != "-" {
			for _, it := range strings.Split(f[1], ",") {
				switch {
				case strings.HasPrefix(it, "+"):
					r, ok := parseRule(it[1:])
					if !ok {
						return nil, false
					}
					todo = append(todo, placement.RuleOp{Rule: r, Action: placement.RuleOpAdd})
				case strings.HasPrefix(it, "-"):
					p := strings.Split(it[1:], ":")
					if len(p) != 2 {
						return nil, false
					}
					todo = append(todo, placement.RuleOp{Rule: &placement.Rule{GroupID: name(groupNames, atoi(p[0])), ID: name(idNames, atoi(p[1]))}, Action: placement.RuleOpDel})
				case strings.HasPrefix(it, "~"):
					p := strings.Split(it[1:], ":")
					if len(p) != 4 {
						return nil, false
					}
					prefix := p[1]
					if prefix == "_" {
						prefix = ""
					}
					// the ids with this prefix must be exactly the ranks [lo, hi) given to the model
					lo, hi := len(idNames), 0
					for i, n := range idNames {
						if i > 0 && strings.HasPrefix(n, prefix) {
							if i < lo {
								lo = i
							}
							if i+1 > hi {
								hi = i + 1
							}
						}
					}
					for i := lo; i < hi; i++ {
						if !strings.HasPrefix(idNames[i], prefix) {
							return nil, false
						}
					}
					if hi == 0 {
						lo = 0
					}
					if lo != atoi(p[2]) || hi != atoi(p[3]) {
						return nil, false
					}
					todo = append(todo, placement.RuleOp{Rule: &placement.Rule{GroupID: name(groupNames, atoi(p[0])), ID: prefix}, Action: placement.RuleOpDel, DeleteByIDPrefix: true})
				default:
					return nil, false
				}
			}
		}
		call = func() (error, string) { return w.m.Batch(todo), "" }
	case len(f) == 4 && f[0] == "setgroup":
		g := &placement.RuleGroup{ID: name(groupNames, atoi(f[1])), Index: atoi(f[2]), Override: f[3] == "1"}
		call = func() (error, string) { return w.m.SetRuleGroup(g), "" }
	case len(f) == 2 && f[0] == "delgroup":
		call = func() (error, string) { return w.m.DeleteRuleGroup(name(groupNames, atoi(f[1]))), "" }
	case len(f) == 2 && f[0] == "setbundle":
		b, ok := parseBundle(f[1])
		if !ok {
			return nil, false
		}
		call = func() (error, string) { return w.m.SetGroupBundle(b), "" }
	case len(f) == 3 && f[0] == "setall":
		var bs []placement.GroupBundle
		if f[2] != "-" {
			for _, s := range strings.Split(f[2], ";") {
				b, ok := parseBundle(s)
				if !ok {
					return nil, false
				}
				bs = append(bs, b)
			}
		}
		call = func() (error, string) { return w.m.SetAllGroupBundles(bs, f[1] == "1"), "" }
	case len(f) == 2 && f[0] == "delbundle":
		call = func() (error, string) { return w.m.DeleteGroupBundle(name(groupNames, atoi(f[1])), false), "" }
	case len(f) == 3 && f[0] == "delbundlere":
		// the groups matched by the pattern must be exactly the ranks given to the model
		var want []string
		for i, n := range groupNames {
			if i > 0 && strings.Contains(n, f[1]) {
				want = append(want, strconv.Itoa(i))
			}
		}
		if joinOr("-", ",", want) != f[2] {
			return nil, false
		}
		call = func() (error, string) { return w.m.DeleteGroupBundle(f[1], true), "" }
	default:
		return nil, false
	}
	return call, true
}

// exec runs one op; it returns the op as it must appear in the trace (with the harness-reported `wrote=`) and the result.
func (w *world) exec(op string) (string, string) {
	var f []string
	failAt := -1
	for _, x := range strings.Fields(op) {
		switch {
		case strings.HasPrefix(x, "fail="):
			failAt, _ = strconv.Atoi(x[5:])
		case strings.HasPrefix(x, "wrote="):
		default:
			f = append(f, x)
		}
	}
	if len(f) == 0 {
		return op, "bad-op"
	}
	atoi := func(s string) int { n, _ := strconv.Atoi(s); return n }
	core0 := strings.Join(f, " ")
	simple := func(out string) (string, string) { return core0, out + " " + w.obs() }
	runCall := func(call func() (error, string)) string {
		err, special := call()
		if special != "" {
			return special
		}
		return outOf(err)
	}
	if w.pending != nil && f[0] != "during" && f[0] != "release" && f[0] != "reset" {
		return op, "bad-op" // the manager is inside an update: nothing but during/release/reset
	}
	switch {
	case f[0] == "park" && len(f) >= 2 && failAt < 0:
		// start the update; its first storage write is parked by the gate (the manager's lock is held meanwhile)
		call, ok := w.updateCall(f[1:])
		if !ok {
			return op, "bad-op"
		}
		w.fkv.mu.Lock()
		w.fkv.park, w.fkv.parked, w.fkv.release = true, make(chan struct{}), make(chan struct{})
		w.fkv.mu.Unlock()
		done := make(chan string, 1)
		go func() { done <- runCall(call) }()
		select {
		case <-w.fkv.parked:
			w.pending = done
			return core0, "parked"
		case out := <-done: // finished without any storage write
			w.fkv.mu.Lock()
			w.fkv.park = false
			w.fkv.mu.Unlock()
			return simple(out)
		}
	case f[0] == "during" && len(f) >= 2 && failAt < 0:
		if w.pending == nil || w.queued != nil {
			return op, "bad-op"
		}
		call, ok := w.updateCall(f[1:])
		if !ok {
			return op, "bad-op"
		}
		if w.m.TryLock() {
			// the update in progress does not hold the manager's lock: this one runs right away
			w.m.Unlock()
			return core0, "not-blocked " + runCall(call)
		}
		done := make(chan string, 1)
		go func() { done <- runCall(call) }()
		w.queued = done
		return core0, "blocked"
	case len(f) == 1 && f[0] == "release":
		if w.pending == nil {
			return op, "bad-op"
		}
		return simple(w.finishPending())
	case len(f) == 1 && f[0] == "reset":
		w.reset()
		return simple("ok")
	case len(f) == 1 && f[0] == "restart":
		// Initialize on the live storage, optionally with its (failAt+1)-th storage write failing
		w.fkv.armed, w.fkv.failAt, w.fkv.n, w.fkv.failed, w.fkv.wrote = failAt >= 0, failAt, 0, false, nil
		m, err := newManager(w.storage)
		w.fkv.armed = false
		opOut := core0
		if failAt >= 0 {
			opOut += fmt.Sprintf(" fail=%d", failAt)
		}
		if err != nil {
			return opOut, "load-failed " + w.obs()
		}
		w.m = m
		return opOut, "ok " + w.obs()
	case len(f) == 4 && f[0] == "rawput":
		r, ok := parseRule(f[3])
		if !ok {
			return op, "bad-op"
		}
		r.Role = placement.PeerRoleType(strings.Split(f[3], ":")[6])
		b, _ := json.Marshal(r)
		_ = w.mem.Save("rules/"+hex.EncodeToString([]byte(name(groupNames, atoi(f[1]))))+"-"+hex.EncodeToString([]byte(name(idNames, atoi(f[2])))), string(b))
		return simple("ok")
	case len(f) == 3 && f[0] == "rawjunk":
		_ = w.mem.Save("rules/"+hex.EncodeToString([]byte(name(groupNames, atoi(f[1]))))+"-"+hex.EncodeToString([]byte(name(idNames, atoi(f[2])))), "{junk")
		return simple("ok")
	case len(f) == 3 && f[0] == "rawdel":
		_ = w.mem.Remove("rules/" + hex.EncodeToString([]byte(name(groupNames, atoi(f[1])))) + "-" + hex.EncodeToString([]byte(name(idNames, atoi(f[2])))))
		return simple("ok")
	}
	call, ok := w.updateCall(f)
	if !ok {
		return op, "bad-op"
	}
	w.fkv.armed, w.fkv.failAt, w.fkv.n, w.fkv.failed, w.fkv.wrote = failAt >= 0, failAt, 0, false, nil
	err, special := call()
	w.fkv.armed = false
	opOut := core0
	if failAt >= 0 {
		opOut += fmt.Sprintf(" fail=%d", failAt)
		if w.fkv.failed && len(w.fkv.wrote) > 0 {
			var ts []string
			for _, k := range w.fkv.wrote {
				ts = append(ts, target(k))
			}
			opOut += " wrote=" + strings.Join(ts, ",")
		}
	}
	out := outOf(err)
	if special != "" {
		out = special
	}
	return opOut, out + " " + w.obs()
}

func (w *world) run(t *trace.W, op string) string {
	o, obs := w.exec(op)
	t.Line(o, obs)
	return strings.SplitN(obs, " ", 2)[0]
}

// ---------------------------------------------------------------------------------------------
// generator

type gen struct {
	r    *rng.R
	w    *world
	t    *trace.W
	bad  bool
	hist map[string]int
}

func (g *gen) rule(group int) string {
	r := g.r
	if group < 0 {
		group = []int{1, 1, 2, 3, 4, 4}[r.Intn(6)]
	}
	id := r.Range(1, 6)
	idx := []int{0, 0, 0, 1, 2, -1, 5}[r.Intn(7)]
	if r.Bool(1, 8) {
		// extreme indexes: comparisons must not be done by subtraction
		idx = []int{math.MaxInt64, math.MinInt64, math.MaxInt64 - 1, math.MinInt64 + 1, -1, 1}[r.Intn(6)]
	}
	ov := r.Bool(1, 5)
	start := []int{0, 0, 0, 1, 2, 3, 4, 5, 6, 7}[r.Intn(10)]
	end := 0
	if r.Bool(2, 3) && start < 7 {
		end = r.Range(start+1, 7)
	}
	role := []string{"voter", "voter", "voter", "leader", "follower", "learner"}[r.Intn(6)]
	count := r.Range(1, 3)
	if role == "leader" && r.Bool(9, 10) {
		count = 1
	}
	if g.bad {
		switch r.Intn(8) {
		case 0:
			group = 0
		case 1:
			id = 0
		case 2:
			role = "x"
		case 3:
			count = []int{0, -1}[r.Intn(2)]
		case 4:
			if start > 0 {
				end = r.Range(1, start)
			}
		}
	}
	return fmt.Sprintf("%d:%d:%d:%s:%d:%d:%s:%d:%d", group, id, idx, b01(ov), start, end, role, count, r.Intn(4))
}

// cover returns rules of one group that partition the whole key space.
func (g *gen) cover(group int) []string {
	r := g.r
	cuts := []int{0}
	for k := 1; k <= 7; k++ {
		if r.Bool(1, 3) {
			cuts = append(cuts, k)
		}
	}
	var out []string
	for i, c := range cuts {
		end := 0
		if i+1 < len(cuts) {
			end = cuts[i+1]
		}
		role := "voter"
		if r.Bool(1, 6) {
			role = "leader"
		}
		cnt := r.Range(1, 3)
		if role == "leader" {
			cnt = 1
		}
		out = append(out, fmt.Sprintf("%d:%d:%d:%s:%d:%d:%s:%d:%d", group, 1+(i%5), []int{0, 1}[r.Intn(2)], b01(r.Bool(1, 8)), c, end, role, cnt, r.Intn(4)))
	}
	return out
}

func (g *gen) bundle() string {
	r := g.r
	grp := []int{1, 2, 3, 4}[r.Intn(4)]
	var rules []string
	if r.Bool(1, 3) {
		rules = g.cover(grp)
	} else {
		for n := r.Range(0, 3); n > 0; n-- {
			gg := grp
			if r.Bool(1, 3) {
				gg = 0 // empty group id is filled from the bundle
			}
			if r.Bool(1, 12) {
				gg = 1 + grp%4 // mismatching group
			}
			rules = append(rules, g.rule(gg))
		}
	}
	return fmt.Sprintf("%d|%d|%s|%s", grp, []int{0, 0, 1, 2, -1}[r.Intn(5)], b01(r.Bool(1, 4)), joinOr("-", ",", rules))
}

func (g *gen) existing() (int, int) {
	rs := g.w.m.GetAllRules()
	if len(rs) == 0 || g.r.Bool(1, 8) {
		return g.r.Range(1, 4), g.r.Range(1, 6)
	}
	x := rs[g.r.Intn(len(rs))]
	return rankOf(groupNames, x.GroupID), rankOf(idNames, x.ID)
}

func (g *gen) update() string {
	r := g.r
	switch r.Pick(30, 12, 6, 14, 8, 4, 8, 5, 5, 2, 8) {
	case 0:
		return "set " + g.rule(-1)
	case 1:
		a, b := g.existing()
		return fmt.Sprintf("del %d %d", a, b)
	case 2:
		var l []string
		if r.Bool(1, 3) {
			l = g.cover([]int{1, 2, 4}[r.Intn(3)])
		} else {
			for n := r.Range(1, 3); n > 0; n-- {
				l = append(l, g.rule(-1))
			}
		}
		return "setrules " + strings.Join(l, ",")
	case 3:
		var l []string
		for n := r.Range(1, 4); n > 0; n-- {
			switch r.Pick(5, 4, 2) {
			case 0:
				l = append(l, "+"+g.rule(-1))
			case 1:
				a, b := g.existing()
				l = append(l, fmt.Sprintf("-%d:%d", a, b))
			case 2:
				p := []string{"a", "_", "b", "d", "aa", "de"}[r.Intn(6)]
				prefix := p
				if p == "_" {
					prefix = ""
				}
				lo, hi := len(idNames), 0
				for i, n := range idNames {
					if i > 0 && strings.HasPrefix(n, prefix) {
						if i < lo {
							lo = i
						}
						hi = i + 1
					}
				}
				if hi == 0 {
					lo = 0
				}
				a, _ := g.existing()
				l = append(l, fmt.Sprintf("~%d:%s:%d:%d", a, p, lo, hi))
			}
		}
		if r.Bool(1, 4) {
			// replace the default rule by a partition in one batch
			l = nil
			for _, c := range g.cover([]int{1, 4}[r.Intn(2)]) {
				l = append(l, "+"+c)
			}
			l = append(l, "-4:6")
		}
		return "batch " + strings.Join(l, ",")
	case 4:
		a, _ := g.existing()
		gi := []int{0, 1, 2, -1, 3}[r.Intn(5)]
		if r.Bool(1, 6) {
			gi = []int{math.MaxInt64, math.MinInt64, math.MaxInt64 - 1, -1}[r.Intn(4)]
		}
		return fmt.Sprintf("setgroup %d %d %s", a, gi, b01(r.Bool(1, 3)))
	case 5:
		a, _ := g.existing()
		return fmt.Sprintf("delgroup %d", a)
	case 6:
		return "setbundle " + g.bundle()
	case 7:
		var l []string
		for n := r.Range(0, 2); n > 0; n-- {
			l = append(l, g.bundle())
		}
		return fmt.Sprintf("setall %s %s", b01(r.Bool(1, 2)), joinOr("-", ";", l))
	case 8:
		a, _ := g.existing()
		return fmt.Sprintf("delbundle %d", a)
	case 9:
		p := []string{"g", "a", "pd", "h", "x"}[r.Intn(5)]
		var want []string
		for i, n := range groupNames {
			if i > 0 && strings.Contains(n, p) {
				want = append(want, strconv.Itoa(i))
			}
		}
		return fmt.Sprintf("delbundlere %s %s", p, joinOr("-", ",", want))
	default:
		a, b := g.existing()
		return fmt.Sprintf("getmodset %d %d %d", a, b, []int{1, 2, 3, 5, 0}[r.Pick(4, 4, 4, 4, 1)])
	}
}

func (g *gen) sequence(maxOps int, corrupt bool) {
	r := g.r
	g.w.run(g.t, "reset")
	retry := ""
	for k := r.Range(8, maxOps); k > 0; k-- {
		if corrupt && r.Bool(1, 6) {
			switch r.Intn(4) {
			case 0: // a rule stored under a key that is not its own
				g.w.run(g.t, fmt.Sprintf("rawput %d %d %s", r.Range(1, 4), r.Range(1, 6), g.rule(-1)))
			case 1:
				g.w.run(g.t, fmt.Sprintf("rawjunk %d %d", r.Range(1, 4), r.Range(1, 6)))
			case 2:
				a, b := g.existing()
				g.w.run(g.t, fmt.Sprintf("rawdel %d %d", a, b))
			case 3: // a stored rule that no longer validates
				old := g.bad
				g.bad = true
				g.w.run(g.t, fmt.Sprintf("rawput %d %d %s", r.Range(1, 4), r.Range(1, 6), g.rule(-1)))
				g.bad = old
			}
			if r.Bool(1, 3) {
				// a served rule whose only stored copy sits under a foreign key
				rs := g.w.m.GetAllRules()
				x := rs[r.Intn(len(rs))]
				xg, xi := rankOf(groupNames, x.GroupID), rankOf(idNames, x.ID)
				g.w.run(g.t, fmt.Sprintf("rawput %d %d %s", r.Range(1, 4), r.Range(1, 6), ruleToken(x)))
				g.w.run(g.t, fmt.Sprintf("rawdel %d %d", xg, xi))
				g.hist["foreign-key-only"]++
			}
			if r.Bool(1, 2) {
				// start-up with a storage failure at one of the writes of the key repair, then a healthy start-up
				g.hist["restart-with-failure:"+g.w.run(g.t, fmt.Sprintf("restart fail=%d", r.Pick(4, 4, 2, 1)))]++
				g.w.run(g.t, "restart")
			} else if r.Bool(2, 3) {
				g.w.run(g.t, "restart")
			}
			continue
		}
		if r.Bool(1, 20) {
			g.w.run(g.t, "restart")
			continue
		}
		g.bad = r.Bool(1, 10)
		if r.Bool(1, 10) {
			// two updates overlapping in time: the first is parked inside its storage write, the second is issued meanwhile
			g.bad = false
			first, second := g.update(), g.update() // chosen before parking: choosing reads the manager
			if g.w.run(g.t, "park "+first) == "parked" {
				if r.Bool(9, 10) {
					g.hist["during:"+g.w.run(g.t, "during "+second)]++
				}
				g.hist["gated-release"]++
				g.w.run(g.t, "release")
			}
			retry = ""
			continue
		}
		op := g.update()
		if retry != "" && r.Bool(3, 5) {
			op = retry
		}
		retry = ""
		if r.Bool(1, 6) {
			full := op + fmt.Sprintf(" fail=%d", r.Pick(4, 4, 2, 1))
			if g.w.run(g.t, full) == "err-storage" {
				retry = op
				g.hist["failed-save"]++
			}
		} else {
			g.hist["out:"+g.w.run(g.t, op)]++
		}
		g.hist["kind:"+strings.Fields(op)[0]]++
	}
}

// bulk brings the number of persisted rules to around each page boundary of Storage.LoadRangeByPrefix (100 keys per
// page) and restarts twice at each: what is loaded, what is served and the stored key set must stay the same.
func (g *gen) bulk() {
	r := g.r
	g.w.run(g.t, "reset")
	free := [][2]int{}
	for grp := 1; grp <= 4; grp++ {
		for id := firstBulkID; id < firstBulkID+nBulkIDs; id++ {
			free = append(free, [2]int{grp, id})
		}
	}
	for i := len(free) - 1; i > 0; i-- {
		j := r.Intn(i + 1)
		free[i], free[j] = free[j], free[i]
	}
	narrow := func(k [2]int) string {
		start := r.Range(0, 6)
		end := start + 1
		if r.Bool(1, 10) {
			end = r.Range(start+1, 7)
		}
		role := []string{"voter", "voter", "follower", "learner"}[r.Intn(4)]
		return fmt.Sprintf("%d:%d:%d:0:%d:%d:%s:1:%d", k[0], k[1], []int{0, 0, 1}[r.Intn(3)], start, end, role, r.Intn(4))
	}
	if r.Bool(1, 2) {
		g.w.run(g.t, fmt.Sprintf("setgroup %d %d 0", r.Range(1, 3), r.Range(1, 3)))
	}
	stored := 1 // pd/default
	targets := []int{99, 100, 101, 199, 200, 201, 225 + r.Intn(12)}
	for _, target := range targets {
		if r.Bool(1, 4) {
			continue
		}
		single := 0
		if r.Bool(1, 2) {
			single = r.Range(1, 3) // reach the boundary with individual SetRule calls
		}
		var items []string
		for stored+len(items) < target-single && len(free) > 0 {
			items = append(items, "+"+narrow(free[0]))
			free = free[1:]
		}
		if len(items) > 0 {
			if g.w.run(g.t, "batch "+strings.Join(items, ",")) == "ok" {
				stored += len(items)
			}
		}
		for ; single > 0 && len(free) > 0; single-- {
			if g.w.run(g.t, "set "+narrow(free[0])) == "ok" {
				stored++
			}
			free = free[1:]
			if r.Bool(1, 2) {
				g.w.run(g.t, "restart")
			}
		}
		g.w.run(g.t, "restart")
		g.w.run(g.t, "restart")
		if r.Bool(1, 3) { // shrink a little and restart again
			rs := g.w.m.GetAllRules()
			x := rs[r.Intn(len(rs))]
			if x.GroupID != "pd" && g.w.run(g.t, fmt.Sprintf("del %d %d", rankOf(groupNames, x.GroupID), rankOf(idNames, x.ID))) == "ok" {
				stored--
			}
			g.w.run(g.t, "restart")
		}
	}
	g.hist["bulk-sequences"]++
	g.hist[fmt.Sprintf("bulk-final-rules:%d", stored/50*50)]++
}

func main() {
	out := flag.String("out", "-", "trace file")
	replay := flag.String("replay", "", "ops file to replay instead of generating")
	n := flag.Int("n", 50, "number of generated sequences")
	maxOps := flag.Int("len", 40, "max ops per sequence")
	stream := flag.Uint64("stream", 0, "PRNG stream")
	nBulk := flag.Int("bulk", 0, "number of bulk sequences (>= 100 persisted rules, restarts at the page boundaries)")
	prof := flag.String("cpuprofile", "", "write a CPU profile")
	flag.Parse()
	if *prof != "" {
		pf, _ := os.Create(*prof)
		_ = pprof.StartCPUProfile(pf)
		defer pprof.StopCPUProfile()
	}

	for _, u := range [][]string{groupNames, idNames, keyNames} {
		if !sort.StringsAreSorted(u) {
			panic("universe not sorted")
		}
		for i := 1; i < len(u); i++ {
			if u[i-1] == u[i] || bytes.Compare([]byte(u[i-1]), []byte(u[i])) >= 0 {
				panic("universe not strictly increasing")
			}
		}
	}
	w := &world{}
	w.reset()
	t := trace.Create(*out)
	defer t.Close()
	if *replay != "" {
		for _, op := range trace.ReadOps(*replay) {
			w.run(t, op)
		}
		w.finishPending()
		return
	}
	g := &gen{r: rng.FromEnv(*stream), w: w, t: t, hist: map[string]int{}}
	for s := 0; s < *nBulk; s++ {
		g.bulk()
	}
	for s := 0; s < *n; s++ {
		g.sequence(*maxOps, s%8 == 7)
	}
	var keys []string
	for k := range g.hist {
		keys = append(keys, k)
	}
	sort.Strings(keys)
	var hs []string
	for _, k := range keys {
		hs = append(hs, fmt.Sprintf("%s=%d", k, g.hist[k]))
	}
	t.Comment("distribution " + strings.Join(hs, " "))
}
