// Command builder drives the real operator.Builder / Create*Operator helpers on a mock cluster and
// writes the `<op> => <observation>` trace judged by the Lean model (property C08).
//
//	reset sj=<0|1> oj=<0|1> loc=<n> stores=<id:state:flags:labels;...>
//	build r=<peers> L=<leader store> uh=<stores> skip=<0|1> nid=<n> calls=<call;call;...>
//	create h=<helper> r=.. L=.. uh=.. nid=.. [s= p= l= ps= roles=]
//	leavejoint r=.. L=.. uh=..
//
// observation: `ok k=<L><R> steps=<step,step,...>` or `err <code>`.
package main

import (
	"context"
	"flag"
	"fmt"
	"sort"
	"strconv"
	"strings"

	"github.com/pingcap/kvproto/pkg/metapb"
	"github.com/tikv/pd/server/core"
	"github.com/tikv/pd/server/schedule/operator"
	"github.com/tikv/pd/server/schedule/placement"

	"verifharness/internal/opsim"
	_ "verifharness/internal/quiet"
	"verifharness/internal/rng"
	"verifharness/internal/trace"
)

type world struct {
	ctx    context.Context
	cancel context.CancelFunc
	cl     *opsim.Cluster
}

var errTable = []struct{ pat, code string }{
	{"cannot build operator for region with nil peer", "nil-peer"},
	{"cannot build operator for region with no leader", "no-leader"},
	{"cannot build operator for region match no placement rule", "no-rule"},
	{"cannot build operator for region which is in joint state", "joint-state"},
	{"cannot add nil peer", "add-nil"},
	{"is in joint state", "add-joint"},
	{"already have peer", "add-exists"},
	{"cannot remove peer from", "rm-"},
	{"cannot promote peer", "promote-"},
	{"cannot demote voter", "demote-"},
	{"cannot transfer leader to", "leader-"},
	{"setPeers with mismatch peers", "setpeers-mismatch"},
	{"region cannot have multiple leaders", "multi-leaders"},
	{"region need at least 1 voter or leader", "need-voter"},
	{"target peers have no voter", "no-voter"},
	{"injected: id allocation failed", "alloc-failed"},
	{"target leader is not allowed", "target-leader-not-allowed"},
	{"plan is empty", "plan-empty"},
	{"no valid leader", "no-valid-leader"},
	{"no operator step is built", "no-step"},
	{"which is not in joint state", "not-joint"},
	{"cannot merge regions which are in joint state", "joint-state"},
}

func errCode(err error) string {
	m := err.Error()
	for _, e := range errTable {
		if strings.Contains(m, e.pat) {
			c := e.code
			if strings.HasSuffix(c, "-") {
				switch {
				case strings.Contains(m, "not found"):
					c += "not-found"
				case strings.Contains(m, "is target leader"):
					c += "target-leader"
				case strings.Contains(m, "is not learner"):
					c += "not-learner"
				case strings.Contains(m, "is already learner"):
					c = "demote-learner"
				case strings.Contains(m, "unhealthy"):
					c += "unhealthy"
				case strings.Contains(m, "not voter"):
					c += "not-voter"
				default:
					c += "other"
				}
			}
			return "err " + c
		}
	}
	return "err other:" + strings.ReplaceAll(m, " ", "_")
}

func atou(s string) uint64 { n, _ := strconv.ParseUint(s, 10, 64); return n }

func (w *world) reset(kv map[string]string) string {
	if w.cancel != nil {
		w.cancel()
	}
	w.ctx, w.cancel = context.WithCancel(context.Background())
	stores, err := opsim.ParseStores(kv["stores"])
	if err != nil {
		return "bad-op"
	}
	w.cl = opsim.NewClusterRules(w.ctx, kv["sj"] == "1", kv["oj"] == "1", int(atou(kv["loc"])), stores, int(atou(kv["rules"])))
	return "ok"
}

func peersMap(ps []*metapb.Peer) map[uint64]*metapb.Peer {
	m := map[uint64]*metapb.Peer{}
	for _, p := range ps {
		m[p.GetStoreId()] = p
	}
	return m
}

// observation of a built operator; allocated ids (nid0 ≤ id < nid0+allocs) are renamed so that they
// increase with the store they were given to (the Go loop that allocates ranges over a map).
func (w *world) obs(op *operator.Operator, err error, nid0 uint64) string {
	if err != nil {
		return errCode(err)
	}
	allocs := uint64(w.cl.Allocs)
	type sa struct{ store, id uint64 }
	var got []sa
	for i := 0; i < op.Len(); i++ {
		var st, id uint64
		switch s := op.Step(i).(type) {
		case operator.AddLearner:
			st, id = s.ToStore, s.PeerID
		case operator.AddLightLearner:
			st, id = s.ToStore, s.PeerID
		default:
			continue
		}
		if nid0 != 0 && id >= nid0 && id < nid0+allocs {
			got = append(got, sa{st, id})
		}
	}
	sort.Slice(got, func(i, j int) bool { return got[i].store < got[j].store })
	ren := map[uint64]uint64{}
	for i, g := range got {
		ren[g.id] = nid0 + uint64(i)
	}
	f := func(x uint64) uint64 {
		if y, ok := ren[x]; ok {
			return y
		}
		return x
	}
	k := ""
	if op.Kind()&operator.OpLeader != 0 {
		k += "L"
	}
	if op.Kind()&operator.OpRegion != 0 {
		k += "R"
	}
	if k == "" {
		k = "-"
	}
	return fmt.Sprintf("ok k=%s steps=%s", k, opsim.StepsText(op, f))
}

func (w *world) region(kv map[string]string) (*core.RegionInfo, bool) {
	peers, err := opsim.ParsePeers(kv["r"], ",")
	if err != nil {
		return nil, false
	}
	return opsim.MakeRegion(1, 5, 5, peers, atou(kv["L"]), opsim.ParseIDs(kv["uh"], ","), "a", "b"), true
}

// ruleInputs appends the placement-rule inputs of allowLeader (`nr=<number of fitted rules> rok=<stores
// matching a leader/voter rule>`) to an op line of a cluster with placement rules, computed with the real
// FitRegion / MatchLabelConstraints; an op line that already has them is checked against them.
func (w *world) ruleInputs(op string, region *core.RegionInfo) (string, bool) {
	if w.cl == nil || !w.cl.GetOpts().IsPlacementRulesEnabled() {
		return op, true
	}
	for _, p := range region.GetPeers() {
		if p.GetStoreId() == 0 {
			return op, true // NewBuilder rejects the region before it looks at rules
		}
	}
	n, okStores := opsim.RuleVerdict(w.cl, region)
	ids := make([]string, len(okStores))
	for i, x := range okStores {
		ids[i] = strconv.FormatUint(x, 10)
	}
	rok := "-"
	if len(ids) > 0 {
		rok = strings.Join(ids, ",")
	}
	want := fmt.Sprintf("nr=%d rok=%s", n, rok)
	if strings.Contains(op, " nr=") {
		return op, strings.Contains(op+" ", " "+want+" ")
	}
	return op + " " + want, true
}

func (w *world) exec(op string) string {
	_, obs := w.exec2(op)
	return obs
}

func (w *world) exec2(op string) (string, string) {
	f := strings.Fields(op)
	if len(f) == 0 {
		return op, "bad-op"
	}
	kv := opsim.KV(f[1:])
	if f[0] == "reset" {
		return op, w.reset(kv)
	}
	if w.cl == nil {
		return op, "bad-op"
	}
	region, ok := w.region(kv)
	if !ok {
		return op, "bad-op"
	}
	op, consistent := w.ruleInputs(op, region)
	if !consistent {
		return op, "bad-op"
	}
	return op, w.execBuild(f, kv, region)
}

func (w *world) execBuild(f []string, kv map[string]string, region *core.RegionInfo) string {
	nid0 := atou(kv["nid"])
	w.cl.Nid, w.cl.Allocs = nid0, 0
	switch f[0] {
	case "build":
		var opts []operator.BuilderOption
		if kv["skip"] == "1" {
			opts = append(opts, operator.SkipOriginJointStateCheck)
		}
		b := operator.NewBuilder("verif", w.cl, region, opts...)
		if kv["calls"] != "" && kv["calls"] != "-" {
			for _, c := range strings.Split(kv["calls"], ";") {
				name, arg := c, ""
				if i := strings.Index(c, ":"); i >= 0 {
					name, arg = c[:i], c[i+1:]
				}
				switch name {
				case "ap":
					p, err := opsim.ParsePeer(arg)
					if err != nil {
						return "bad-op"
					}
					b.AddPeer(p)
				case "rp":
					b.RemovePeer(atou(arg))
				case "pl":
					b.PromoteLearner(atou(arg))
				case "dv":
					b.DemoteVoter(atou(arg))
				case "sl":
					b.SetLeader(atou(arg))
				case "sp":
					ps, err := opsim.ParsePeers(arg, "+")
					if err != nil {
						return "bad-op"
					}
					b.SetPeers(peersMap(ps))
				case "er":
					roles, _, err := opsim.ParseRoles(arg)
					if err != nil {
						return "bad-op"
					}
					b.SetExpectedRoles(roles)
				case "lw":
					b.EnableLightWeight()
				case "fl":
					b.EnableForceTargetLeader()
				default:
					return "bad-op"
				}
			}
		}
		o, err := b.Build(0)
		return w.obs(o, err, nid0)
	case "leavejoint":
		o, err := operator.CreateLeaveJointStateOperator("verif", w.cl, region)
		return w.obs(o, err, nid0)
	case "create":
		var o *operator.Operator
		var err error
		var p *metapb.Peer
		if kv["p"] != "" {
			if p, err = opsim.ParsePeer(kv["p"]); err != nil {
				return "bad-op"
			}
		}
		s := atou(kv["s"])
		switch kv["h"] {
		case "addpeer":
			o, err = operator.CreateAddPeerOperator("verif", w.cl, region, p, 0)
		case "promote":
			o, err = operator.CreatePromoteLearnerOperator("verif", w.cl, region, &metapb.Peer{StoreId: s})
		case "rmpeer":
			o, err = operator.CreateRemovePeerOperator("verif", w.cl, 0, region, s)
		case "transfer":
			o, err = operator.CreateTransferLeaderOperator("verif", w.cl, region, region.GetLeader().GetStoreId(), s, 0)
		case "ftransfer":
			o, err = operator.CreateForceTransferLeaderOperator("verif", w.cl, region, region.GetLeader().GetStoreId(), s, 0)
		case "moveregion":
			roles, _, e := opsim.ParseRoles(kv["roles"])
			if e != nil {
				return "bad-op"
			}
			o, err = operator.CreateMoveRegionOperator("verif", w.cl, region, 0, roles)
		case "movepeer":
			o, err = operator.CreateMovePeerOperator("verif", w.cl, region, 0, s, p)
		case "replaceleaderpeer":
			o, err = operator.CreateReplaceLeaderPeerOperator("verif", w.cl, region, 0, s, p, &metapb.Peer{StoreId: atou(kv["l"])})
		case "moveleader":
			o, err = operator.CreateMoveLeaderOperator("verif", w.cl, region, 0, s, p)
		case "scatter":
			ps, e := opsim.ParsePeers(kv["ps"], "+")
			if e != nil || atou(kv["l"]) == 0 {
				return "bad-op" // leader 0 = random pick in the Go code, not driven
			}
			o, err = operator.CreateScatterRegionOperator("verif", w.cl, region, peersMap(ps), atou(kv["l"]))
		case "merge":
			ps, e := opsim.ParsePeers(kv["ps"], "+")
			if e != nil || len(ps) == 0 {
				return "bad-op"
			}
			target := opsim.MakeRegion(2, 5, 5, ps, ps[0].GetStoreId(), nil, "b", "c")
			var ops []*operator.Operator
			ops, err = operator.CreateMergeRegionOperator("verif", w.cl, region, target, 0)
			if err == nil {
				o = ops[0]
				if ops[1].Len() != 1 || opsim.StepText(ops[1].Step(0), nil) != "mg:1" {
					return "err other:passive-operator-shape"
				}
			}
		default:
			return "bad-op"
		}
		return w.obs(o, err, nid0)
	}
	return "bad-op"
}

func (w *world) run(t *trace.W, op string) {
	line, obs := w.exec2(op)
	t.Line(line, obs)
}

// ---------------------------------------------------------------------------------------------
// generators

const roleChars = "-vl"

func storesUp(k int) string {
	var s []string
	for i := 1; i <= k; i++ {
		s = append(s, fmt.Sprintf("%d:u:-:-", i))
	}
	return strings.Join(s, ";")
}

// exhaustive: every origin (roles in {none, voter, learner}^k, leader among the voters), every target
// (roles^k), target leader unspecified and (leaders=true) every target voter as requested leader.
func exhaustive(w *world, t *trace.W, k int, sj, oj, lw, fl bool, leaders bool, part, parts int) {
	pow := 1
	for i := 0; i < k; i++ {
		pow *= 3
	}
	b2 := func(b bool) int {
		if b {
			return 1
		}
		return 0
	}
	block := 0
	for o := 0; o < pow; o++ {
		var origin []string
		var voters []int
		for i, x := 0, o; i < k; i, x = i+1, x/3 {
			switch x % 3 {
			case 1:
				origin = append(origin, fmt.Sprintf("%dv%d", i+1, 10+i+1))
				voters = append(voters, i+1)
			case 2:
				origin = append(origin, fmt.Sprintf("%dl%d", i+1, 10+i+1))
			}
		}
		for _, leader := range voters {
			block++
			if block%parts != part {
				continue
			}
			w.run(t, fmt.Sprintf("reset sj=%d oj=%d loc=0 stores=%s", b2(sj), b2(oj), storesUp(k)))
			for tg := 0; tg < pow; tg++ {
				var target []string
				tls := []int{0}
				for i, x := 0, tg; i < k; i, x = i+1, x/3 {
					switch x % 3 {
					case 1:
						target = append(target, fmt.Sprintf("%dv0", i+1))
						if leaders {
							tls = append(tls, i+1)
						}
					case 2:
						target = append(target, fmt.Sprintf("%dl0", i+1))
					}
				}
				for _, tl := range tls {
					calls := "sp:" + strings.Join(target, "+")
					if tl != 0 {
						calls += fmt.Sprintf(";sl:%d", tl)
					}
					if lw {
						calls += ";lw"
					}
					if fl {
						calls += ";fl"
					}
					w.run(t, fmt.Sprintf("build r=%s L=%d uh=- skip=0 nid=100 calls=%s",
						strings.Join(origin, ","), leader, calls))
				}
			}
		}
	}
}

var storeFlagChoices = []string{"-", "-", "-", "-", "-", "-", "d", "c", "b", "p", "r", "pr"}

func randStores(r *rng.R, n, nLoc int) (string, []uint64) {
	var s []string
	var ids []uint64
	for i := 1; i <= n; i++ {
		if r.Bool(1, 25) {
			continue // the store does not exist
		}
		state := "u"
		switch r.Pick(16, 2, 1) {
		case 1:
			state = "o"
		case 2:
			state = "t"
		}
		var lab []string
		for j := 0; j < nLoc; j++ {
			lab = append(lab, strconv.Itoa(r.Range(0, 2)))
		}
		l := "-"
		if len(lab) > 0 {
			l = strings.Join(lab, ".")
		}
		s = append(s, fmt.Sprintf("%d:%s:%s:%s", i, state, storeFlagChoices[r.Intn(len(storeFlagChoices))], l))
		ids = append(ids, uint64(i))
	}
	if len(s) == 0 {
		return "-", nil
	}
	return strings.Join(s, ";"), ids
}

func randRole(r *rng.R, joint bool) string {
	if joint {
		return []string{"v", "v", "l", "i", "d"}[r.Intn(5)]
	}
	return []string{"v", "v", "v", "l"}[r.Intn(4)]
}

// random origin: peers on distinct stores (malformed: duplicates / store 0 with small probability)
func randOrigin(r *rng.R, n int, joint, malformed bool) (peers []string, stores []int, leader int) {
	perm := rand.Perm(r, n)
	cnt := r.Range(1, minInt(n, 5))
	var voters []int
	for i := 0; i < cnt; i++ {
		st := perm[i] + 1
		role := randRole(r, joint)
		if i == 0 && !joint {
			role = "v"
		}
		if malformed && r.Bool(1, 6) {
			st = r.Range(0, n)
		}
		peers = append(peers, fmt.Sprintf("%d%s%d", st, role, 10+st+100*b2i(malformed && r.Bool(1, 8))))
		stores = append(stores, st)
		if role != "l" {
			voters = append(voters, st)
		}
	}
	switch {
	case malformed && r.Bool(1, 5):
		leader = r.Range(0, n)
	case len(voters) > 0:
		leader = voters[r.Intn(len(voters))]
	default:
		leader = stores[0]
	}
	return
}

func b2i(b bool) int {
	if b {
		return 1
	}
	return 0
}

func minInt(a, b int) int {
	if a < b {
		return a
	}
	return b
}

type permT struct{}

var rand permT

func (permT) Perm(r *rng.R, n int) []int {
	p := make([]int, n)
	for i := range p {
		p[i] = i
	}
	for i := n - 1; i > 0; i-- {
		j := r.Intn(i + 1)
		p[i], p[j] = p[j], p[i]
	}
	return p
}

func randTargetPeers(r *rng.R, n int, origin []int, malformed bool) []string {
	var t []string
	used := map[int]bool{}
	// keep some origin stores, add some new ones
	for _, st := range origin {
		if r.Bool(2, 3) && !used[st] {
			used[st] = true
			t = append(t, fmt.Sprintf("%d%s%d", st, []string{"v", "v", "l"}[r.Intn(3)], []int{0, 10 + st, 77}[r.Pick(5, 4, 1)]))
		}
	}
	extra := r.Range(0, 3)
	for i := 0; i < extra; i++ {
		st := r.Range(1, n)
		if used[st] && !malformed {
			continue
		}
		used[st] = true
		role := []string{"v", "v", "l"}[r.Intn(3)]
		if malformed && r.Bool(1, 6) {
			role = []string{"i", "d"}[r.Intn(2)]
		}
		if malformed && r.Bool(1, 10) {
			st = 0
		}
		t = append(t, fmt.Sprintf("%d%s%d", st, role, []int{0, 0, 200 + st}[r.Intn(3)]))
	}
	return t
}

func storeOf(peer string) int {
	i := strings.IndexAny(peer, "vlid")
	n, _ := strconv.Atoi(peer[:i])
	return n
}

func randomSeq(w *world, t *trace.W, r *rng.R, builds int, malformed bool) {
	n := r.Range(6, 8)
	if r.Bool(1, 4) {
		n = r.Range(2, 5)
	}
	nLoc := r.Range(0, 3)
	stores, _ := randStores(r, n, nLoc)
	sj, oj := r.Bool(2, 3), r.Bool(3, 4)
	rules := 0
	if r.Bool(1, 4) {
		rules = r.Range(1, 2)
	}
	w.run(t, fmt.Sprintf("reset sj=%d oj=%d loc=%d rules=%d stores=%s", b2i(sj), b2i(oj), nLoc, rules, stores))
	for i := 0; i < builds; i++ {
		joint := r.Bool(1, 8)
		origin, ostores, leader := randOrigin(r, n, joint, malformed)
		uh := "-"
		if r.Bool(1, 6) {
			uh = strconv.Itoa(ostores[r.Intn(len(ostores))])
		}
		nid := 100
		if r.Bool(1, 30) {
			nid = 0
		}
		head := fmt.Sprintf("r=%s L=%d uh=%s", strings.Join(origin, ","), leader, uh)
		anyStore := func() int {
			if r.Bool(2, 3) {
				return ostores[r.Intn(len(ostores))]
			}
			return r.Range(1, n)
		}
		newPeer := func() string {
			return fmt.Sprintf("%d%s%d", r.Range(1, n), []string{"v", "v", "l"}[r.Intn(3)], []int{0, 300}[r.Intn(2)])
		}
		switch r.Pick(40, 25, 8, 12) {
		case 0: // SetPeers (+ leader, flags, expected roles)
			tp := randTargetPeers(r, n, ostores, malformed)
			calls := []string{"sp:" + strings.Join(tp, "+")}
			if r.Bool(1, 2) && len(tp) > 0 {
				calls = append(calls, fmt.Sprintf("sl:%d", storeOf(tp[r.Intn(len(tp))])))
			}
			if r.Bool(1, 5) {
				calls = append(calls, "lw")
			}
			if r.Bool(1, 4) {
				calls = append(calls, "fl")
			}
			if r.Bool(1, 5) && len(tp) > 0 {
				var rs []string
				for _, p := range tp {
					if r.Bool(3, 4) {
						rs = append(rs, fmt.Sprintf("%d%s", storeOf(p), []string{"L", "F", "V", "V", "N"}[r.Intn(5)]))
					}
				}
				if len(rs) > 0 {
					calls = append(calls, "er:"+strings.Join(rs, "+"))
				}
			}
			if r.Bool(1, 6) { // permute the call order
				p := rand.Perm(r, len(calls))
				c2 := make([]string, len(calls))
				for i, j := range p {
					c2[i] = calls[j]
				}
				calls = c2
			}
			w.run(t, fmt.Sprintf("build %s skip=%d nid=%d calls=%s", head, b2i(r.Bool(1, 8)), nid, strings.Join(calls, ";")))
		case 1: // chains of the single recording calls
			var calls []string
			for j, m := 0, r.Range(1, 4); j < m; j++ {
				switch r.Pick(3, 3, 2, 2, 2, 1, 1) {
				case 0:
					calls = append(calls, "ap:"+newPeer())
				case 1:
					calls = append(calls, fmt.Sprintf("rp:%d", anyStore()))
				case 2:
					calls = append(calls, fmt.Sprintf("pl:%d", anyStore()))
				case 3:
					calls = append(calls, fmt.Sprintf("dv:%d", anyStore()))
				case 4:
					calls = append(calls, fmt.Sprintf("sl:%d", anyStore()))
				case 5:
					calls = append(calls, "lw")
				case 6:
					calls = append(calls, "fl")
				}
			}
			w.run(t, fmt.Sprintf("build %s skip=%d nid=%d calls=%s", head, b2i(r.Bool(1, 8)), nid, strings.Join(calls, ";")))
		case 2:
			w.run(t, fmt.Sprintf("leavejoint %s", head))
		case 3:
			h := []string{"addpeer", "promote", "rmpeer", "transfer", "ftransfer", "moveregion", "movepeer",
				"replaceleaderpeer", "moveleader", "scatter", "merge"}[r.Intn(11)]
			args := ""
			switch h {
			case "addpeer":
				args = "p=" + newPeer()
			case "promote", "rmpeer", "transfer", "ftransfer":
				args = fmt.Sprintf("s=%d", anyStore())
			case "moveregion":
				var rs []string
				for j, m := 0, r.Range(1, 4); j < m; j++ {
					rs = append(rs, fmt.Sprintf("%d%s", anyStore(), []string{"L", "F", "V", "V", "N"}[r.Intn(5)]))
				}
				args = "roles=" + strings.Join(rs, "+")
			case "movepeer", "moveleader":
				args = fmt.Sprintf("s=%d p=%s", anyStore(), newPeer())
			case "replaceleaderpeer":
				args = fmt.Sprintf("s=%d p=%s l=%d", anyStore(), newPeer(), anyStore())
			case "scatter":
				tp := randTargetPeers(r, n, ostores, false)
				if len(tp) == 0 {
					tp = []string{newPeer()}
				}
				args = fmt.Sprintf("ps=%s l=%d", strings.Join(tp, "+"), storeOf(tp[r.Intn(len(tp))]))
			case "merge":
				tp := randTargetPeers(r, n, ostores, false)
				if len(tp) == 0 {
					tp = []string{newPeer()}
				}
				if malformed && r.Bool(1, 4) {
					tp = append(tp, fmt.Sprintf("%dd0", r.Range(1, n)))
				}
				args = "ps=" + strings.Join(tp, "+")
			}
			w.run(t, fmt.Sprintf("create h=%s %s nid=%d %s", h, head, nid, args))
		}
	}
}

var _ = placement.Leader

func main() {
	out := flag.String("out", "-", "trace file")
	replay := flag.String("replay", "", "ops file to replay instead of generating")
	stream := flag.Uint64("stream", 0, "PRNG stream / partition")
	k := flag.Int("k", 4, "stores of the exhaustive part (0 = none)")
	parts := flag.Int("parts", 1, "number of streams the exhaustive part is split over")
	n := flag.Int("n", 200, "random sequences")
	builds := flag.Int("len", 40, "builds per random sequence")
	flag.Parse()

	w := &world{}
	t := trace.Create(*out)
	defer t.Close()
	if *replay != "" {
		for _, op := range trace.ReadOps(*replay) {
			w.run(t, op)
		}
		return
	}
	part := int(*stream) % *parts
	if *k > 0 {
		// both feature levels, joint on/off
		for _, cfg := range [][2]bool{{true, true}, {true, false}, {false, false}} {
			exhaustive(w, t, *k, cfg[0], cfg[1], false, false, false, part, *parts)
		}
		// smaller domain: requested leaders, light-weight and forced-leader variants
		ks := *k - 1
		if ks > 3 {
			ks = 3
		}
		for _, cfg := range [][2]bool{{true, true}, {true, false}, {false, false}} {
			exhaustive(w, t, ks, cfg[0], cfg[1], false, false, true, part, *parts)
			exhaustive(w, t, ks, cfg[0], cfg[1], true, true, true, part, *parts)
		}
	}
	r := rng.FromEnv(*stream)
	for s := 0; s < *n; s++ {
		randomSeq(w, t, r, *builds, s%5 == 4)
	}
}
