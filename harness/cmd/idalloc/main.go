// Command idalloc drives the real server/id allocator on an embedded etcd and writes the
// `<op> => <observation>` trace judged by the Lean model (property C04).
package main

import (
	"context"
	"errors"
	"flag"
	"fmt"
	"os"
	"path"
	"runtime"
	"sort"
	"strconv"
	"strings"
	"sync"
	"sync/atomic"
	"time"

	"github.com/pingcap/check"
	"github.com/pingcap/kvproto/pkg/metapb"
	"github.com/pingcap/kvproto/pkg/pdpb"
	"github.com/tikv/pd/pkg/errs"
	"github.com/tikv/pd/pkg/typeutil"
	"github.com/tikv/pd/server"
	"github.com/tikv/pd/server/cluster"
	"github.com/tikv/pd/server/config"
	"github.com/tikv/pd/server/core"
	"github.com/tikv/pd/server/id"
	"github.com/tikv/pd/server/kv"
	"go.etcd.io/etcd/clientv3"

	"verifharness/internal/etcdh"
	_ "verifharness/internal/quiet"
	"verifharness/internal/rng"
	"verifharness/internal/storecfg"
	"verifharness/internal/trace"
)

type inst struct {
	member  int
	alloc   id.Allocator
	client  *clientv3.Client
	gate    *etcdh.GateKV
	pending chan string          // result of a parked call
	queued  chan string          // result of a call issued behind the parked one (it must wait for the allocator's mutex)
	rc      *cluster.RaftCluster // split handling (cluster_worker.go) drawing from this allocator
}

// splitRegion is the region the split requests name: known to every cluster of this harness.
func splitRegion(peers int) *metapb.Region {
	r := &metapb.Region{Id: 900000001, RegionEpoch: &metapb.RegionEpoch{ConfVer: 1, Version: 1}}
	for p := 0; p < peers; p++ {
		r.Peers = append(r.Peers, &metapb.Peer{Id: uint64(900000002 + p), StoreId: uint64(p + 1)})
	}
	return r
}

// newCluster builds a RaftCluster (not started: no coordinator, no background loops) whose id source is `a`.
func newCluster(a id.Allocator) *cluster.RaftCluster {
	rc := cluster.NewRaftCluster(context.Background(), "/verif/cluster", 1, nil, nil, nil)
	bc := core.NewBasicCluster()
	r := splitRegion(3)
	bc.PutRegion(core.NewRegionInfo(r, r.Peers[0]))
	rc.InitCluster(a, config.NewPersistOptions(config.NewConfig()), core.NewStorage(kv.NewMemoryKV()), bc)
	return rc
}

func flatten(ids []*pdpb.SplitID) string {
	var parts []string
	for _, s := range ids {
		parts = append(parts, strconv.FormatUint(s.GetNewRegionId(), 10))
		for _, p := range s.GetNewPeerIds() {
			parts = append(parts, strconv.FormatUint(p, 10))
		}
	}
	return "ok " + strings.Join(parts, " ")
}

type world struct {
	e     *etcdh.Etcd
	root  string
	seq   int
	insts []*inst
}

func (w *world) stored() uint64 {
	resp, err := w.e.Client.Get(context.Background(), path.Join(w.root, "alloc_id"))
	if err != nil {
		panic(err)
	}
	if len(resp.Kvs) == 0 {
		return 0
	}
	v, err := typeutil.BytesToUint64(resp.Kvs[0].Value)
	if err != nil {
		panic(err)
	}
	return v
}

func outOf(idv uint64, err error, isAlloc bool) string {
	if err == nil {
		if isAlloc {
			return fmt.Sprintf("ok %d", idv)
		}
		return "ok"
	}
	if errs.ErrEtcdTxnConflict.Equal(err) {
		return "conflict"
	}
	if errs.ErrEtcdTxnInternal.Equal(err) || errors.Is(err, etcdh.ErrInjected) ||
		strings.Contains(err.Error(), "ErrEtcdTxnInternal") {
		return "err"
	}
	return "err:" + strings.ReplaceAll(err.Error(), " ", "_")
}

func fault(s string) etcdh.Fault {
	switch s {
	case "before":
		return etcdh.ErrBefore
	case "after":
		return etcdh.ErrAfter
	}
	return etcdh.None
}

func (w *world) reset() {
	for _, in := range w.insts {
		if in.pending != nil {
			in.gate.Release(etcdh.ErrBefore)
			<-in.pending
			if in.queued != nil {
				<-in.queued
			}
		}
		in.client.Close()
	}
	w.insts = nil
	w.seq++
	w.root = fmt.Sprintf("/verif/idalloc/%d", w.seq)
}

func (w *world) exec(op string) string {
	f := strings.Fields(op)
	bad := "bad-op"
	atoi := func(s string) int { n, _ := strconv.Atoi(s); return n }
	get := func(s string) *inst {
		i := atoi(s)
		if i < 0 || i >= len(w.insts) {
			return nil
		}
		return w.insts[i]
	}
	switch {
	case len(f) == 1 && f[0] == "reset":
		w.reset()
		return "ok"
	case len(f) == 2 && f[0] == "new":
		c := etcdh.NewClient(w.e.Cfg)
		g := etcdh.Wrap(c)
		m := atoi(f[1])
		a := id.NewAllocator(c, w.root, fmt.Sprintf("m%d", m))
		w.insts = append(w.insts, &inst{member: m, client: c, gate: g, alloc: a, rc: newCluster(a)})
		return "ok"
	case len(f) == 2 && f[0] == "leader":
		k := path.Join(w.root, "leader")
		var err error
		if f[1] == "0" {
			_, err = w.e.Client.Delete(context.Background(), k)
		} else {
			_, err = w.e.Client.Put(context.Background(), k, "m"+f[1])
		}
		if err != nil {
			panic(err)
		}
		return "ok"
	case len(f) == 3 && (f[0] == "alloc" || f[0] == "rebase"):
		in := get(f[1])
		if in == nil || in.queued != nil {
			return bad
		}
		if in.pending != nil {
			// behind a parked Alloc / Rebase: the call has to wait for the allocator's mutex
			if f[2] != "none" {
				return bad
			}
			done := make(chan string, 1)
			go func() {
				if f[0] == "alloc" {
					v, err := in.alloc.Alloc()
					done <- outOf(v, err, true)
				} else {
					done <- outOf(0, in.alloc.Rebase(), false)
				}
			}()
			select {
			case r := <-done:
				return r
			case <-time.After(250 * time.Millisecond):
				in.queued = done
				return "blocked"
			}
		}
		in.gate.SetFault(fault(f[2]))
		defer in.gate.SetFault(etcdh.None)
		if f[0] == "alloc" {
			v, err := in.alloc.Alloc()
			return outOf(v, err, true)
		}
		return outOf(0, in.alloc.Rebase(), false)
	case len(f) == 2 && (f[0] == "galloc" || f[0] == "grebase"):
		in := get(f[1])
		if in == nil || in.pending != nil {
			return bad
		}
		parked := in.gate.ArmPark()
		done := make(chan string, 1)
		go func() {
			if f[0] == "galloc" {
				v, err := in.alloc.Alloc()
				done <- outOf(v, err, true)
			} else {
				done <- outOf(0, in.alloc.Rebase(), false)
			}
		}()
		select {
		case <-parked:
			in.pending = done
			return "parked"
		case r := <-done:
			in.gate.Disarm()
			return r
		case <-time.After(20 * time.Second):
			panic("galloc: neither parked nor done")
		}
	case len(f) == 3 && f[0] == "finish":
		in := get(f[1])
		if in == nil || in.pending == nil {
			return bad
		}
		in.gate.Release(fault(f[2]))
		r := <-in.pending
		in.pending = nil
		if in.queued != nil {
			r = r + " ; " + <-in.queued
			in.queued = nil
		}
		return r
	case len(f) == 3 && f[0] == "split": // instance, peers: pdpb AskSplit
		in := get(f[1])
		if in == nil || in.pending != nil {
			return bad
		}
		resp, err := in.rc.HandleAskSplit(&pdpb.AskSplitRequest{Region: splitRegion(atoi(f[2]))})
		if err != nil {
			return "fail"
		}
		return flatten([]*pdpb.SplitID{{NewRegionId: resp.GetNewRegionId(), NewPeerIds: resp.GetNewPeerIds()}})
	case len(f) == 4 && f[0] == "bsplit": // instance, split count, peers: pdpb AskBatchSplit
		in := get(f[1])
		if in == nil || in.pending != nil {
			return bad
		}
		resp, err := in.rc.HandleAskBatchSplit(&pdpb.AskBatchSplitRequest{Region: splitRegion(atoi(f[3])), SplitCount: uint32(atoi(f[2]))})
		if err != nil {
			return "fail"
		}
		return flatten(resp.GetIds())
	case len(f) == 3 && f[0] == "race": // instance, goroutines: concurrent Alloc calls when exactly one id is left in the window
		in := get(f[1])
		if in == nil || in.pending != nil {
			return bad
		}
		var all []uint64
		g := atoi(f[2])
		// real parallelism for the concurrent calls (bin/check runs harnesses with GOMAXPROCS=4)
		defer runtime.GOMAXPROCS(runtime.GOMAXPROCS(runtime.NumCPU()))
		for round := 0; round < 3; round++ {
			for k := 0; k < 1100; k++ {
				v, err := in.alloc.Alloc()
				if err != nil {
					return "fail"
				}
				all = append(all, v)
				if (v+1)%1000 == 0 {
					break
				}
			}
			res := make([]uint64, g)
			errs := make([]error, g)
			var wg sync.WaitGroup
			var ready int32
			for k := 0; k < g; k++ {
				wg.Add(1)
				go func(k int) {
					defer wg.Done()
					// leave the barrier together
					atomic.AddInt32(&ready, 1)
					for spins := 0; atomic.LoadInt32(&ready) < int32(g); spins++ {
						if spins%100000 == 99999 {
							runtime.Gosched() // more goroutines than processors: let the others arrive
						}
					}
					res[k], errs[k] = in.alloc.Alloc()
				}(k)
			}
			wg.Wait()
			for _, e := range errs {
				if e != nil {
					return "fail"
				}
			}
			sort.Slice(res, func(a, b int) bool { return res[a] < res[b] })
			all = append(all, res...)
		}
		var parts []string
		for _, v := range all {
			parts = append(parts, strconv.FormatUint(v, 10))
		}
		return "ok " + strings.Join(parts, " ")
	case len(f) == 2 && f[0] == "srvterm":
		return serverTerms(atoi(f[1]))
	case len(f) == 1 && f[0] == "stored":
		return fmt.Sprintf("ok %d", w.stored())
	}
	return bad
}

func (w *world) run(t *trace.W, op string) {
	out := w.exec(op)
	t.Line(op, fmt.Sprintf("%s @%d", out, w.stored()))
}

var faults = []string{"none", "none", "none", "none", "none", "none", "before", "after"}

// gen produces one op sequence, executing as it goes (choices depend only on the PRNG and on
// which instances are parked, which the model reproduces).
func gen(w *world, t *trace.W, r *rng.R, maxOps int) {
	w.run(t, "reset")
	n := r.Range(1, 3)
	members := r.Range(1, 3)
	parked := map[int]bool{}
	probed := map[int]bool{}
	for i := 0; i < n; i++ {
		w.run(t, fmt.Sprintf("new %d", r.Range(1, members)))
	}
	if r.Bool(9, 10) {
		w.run(t, fmt.Sprintf("leader %d", r.Range(1, members)))
	}
	ops := r.Range(5, maxOps)
	for k := 0; k < ops; k++ {
		i := r.Intn(len(w.insts))
		f := faults[r.Intn(len(faults))]
		var op string
		if parked[i] && !probed[i] && r.Bool(1, 4) {
			// a second call on the same allocator must wait behind the parked one
			probed[i] = true
			op = []string{"alloc %d none", "alloc %d none", "rebase %d none"}[r.Intn(3)]
			op = fmt.Sprintf(op, i)
		} else if parked[i] {
			if r.Bool(1, 2) {
				op = fmt.Sprintf("finish %d %s", i, f)
				delete(parked, i)
				delete(probed, i)
			} else {
				// do something with another instance / the leader instead
				op = fmt.Sprintf("leader %d", r.Range(0, members))
			}
		} else {
			switch r.Pick(50, 6, 14, 4, 12, 6, 4, 4, 5, 7, 2) {
			case 0:
				op = fmt.Sprintf("alloc %d %s", i, f)
			case 1:
				op = fmt.Sprintf("rebase %d %s", i, f)
			case 2:
				op = fmt.Sprintf("galloc %d", i)
			case 3:
				op = fmt.Sprintf("grebase %d", i)
			case 4:
				op = fmt.Sprintf("leader %d", r.Range(0, members))
			case 5:
				if len(w.insts) < 6 {
					op = fmt.Sprintf("new %d", r.Range(1, members))
				} else {
					op = "stored"
				}
			case 6:
				op = "stored"
			case 8:
				op = fmt.Sprintf("split %d %d", i, r.Range(1, 5))
			case 9:
				if r.Bool(1, 12) {
					// an unusually large batch: more ids than one window holds
					op = fmt.Sprintf("bsplit %d %d 3", i, []int{260, 300, 334}[r.Intn(3)])
				} else {
					op = fmt.Sprintf("bsplit %d %d %d", i, r.Range(1, 6), r.Range(1, 5))
				}
			case 10:
				op = fmt.Sprintf("race %d %d", i, r.Range(2, 12))
			case 7:
				// burst: exhaust most of a window quickly so that rebases happen often
				for b, nb := 0, []int{40, 40, 40, 40, 40, 40, 400, 1001}[r.Intn(8)]; b < nb; b++ {
					w.run(t, fmt.Sprintf("alloc %d none", i))
				}
				op = fmt.Sprintf("alloc %d none", i)
			}
		}
		before := t.N
		w.run(t, op)
		_ = before
		if strings.HasPrefix(op, "galloc") || strings.HasPrefix(op, "grebase") {
			if w.insts[i].pending != nil {
				parked[i] = true
			}
		}
	}
	for i := range w.insts {
		if parked[i] {
			w.run(t, fmt.Sprintf("finish %d %s", i, faults[r.Intn(len(faults))]))
		}
	}
}

func main() {
	out := flag.String("out", "-", "trace file")
	replay := flag.String("replay", "", "ops file to replay instead of generating")
	n := flag.Int("n", 100, "number of generated sequences")
	maxOps := flag.Int("len", 60, "max ops per sequence")
	stream := flag.Uint64("stream", 0, "PRNG stream")
	flag.Parse()

	e := etcdh.Start()
	defer e.Stop()
	w := &world{e: e}
	t := trace.Create(*out)
	defer t.Close()
	if *replay != "" {
		for _, op := range trace.ReadOps(*replay) {
			w.run(t, op)
		}
		w.reset()
		return
	}
	r := rng.FromEnv(*stream)
	for s := 0; s < *n; s++ {
		gen(w, t, r, *maxOps)
	}
	w.reset()
	if *stream == 0 {
		// once per run: the id allocator of a real PD server across leadership terms (monitor only)
		w.run(t, "reset")
		w.run(t, "srvterm 1")
	}
}

// serverTerms: an in-process PD server; ids are drawn through the AllocID handler at the start of every term and,
// all the time, by a goroutine straight from the first server's allocator (an in-flight request that passed the
// leader check).  The server is closed (a step-down with the leader record still present) and a new server is
// started on the same data directory, `terms` times.  Returns every id obtained by anybody.
func serverTerms(terms int) string {
	cfg := server.NewTestSingleConfig(&check.C{})
	cfg.LeaderLease = 60
	cfg.Log.Level = "fatal"
	if err := cfg.SetupLogger(); err != nil {
		return "ok"
	}
	storecfg.Quiet()
	defer os.RemoveAll(cfg.DataDir)
	start := func() (*server.Server, context.CancelFunc) {
		ctx, cancel := context.WithCancel(context.Background())
		ch := make(chan *server.Server, 1)
		go func() {
			svr, err := server.CreateServer(ctx, cfg)
			if err == nil {
				err = svr.Run()
			}
			if err != nil {
				ch <- nil
				return
			}
			ch <- svr
		}()
		var svr *server.Server
		select {
		case svr = <-ch:
		case <-time.After(40 * time.Second):
		}
		if svr == nil {
			cancel()
			return nil, nil
		}
		storecfg.Quiet()
		deadline := time.Now().Add(30 * time.Second)
		for !svr.GetMember().IsLeader() && time.Now().Before(deadline) {
			time.Sleep(20 * time.Millisecond)
		}
		return svr, cancel
	}
	var mu sync.Mutex
	var ids []uint64
	add := func(v uint64) { mu.Lock(); ids = append(ids, v); mu.Unlock() }
	viaHandler := func(svr *server.Server, k int) {
		for i := 0; i < k; i++ {
			resp, err := svr.AllocID(context.Background(), &pdpb.AllocIDRequest{Header: &pdpb.RequestHeader{ClusterId: svr.ClusterID()}})
			if err == nil && resp.GetHeader().GetError() == nil && resp.GetId() != 0 {
				add(resp.GetId())
			}
		}
	}
	svr, cancel := start()
	if svr == nil {
		return "ok"
	}
	viaHandler(svr, 5)
	for t := 0; t < terms; t++ {
		stop := make(chan struct{})
		done := make(chan struct{})
		old := svr.GetAllocator()
		go func() {
			defer close(done)
			for n := 0; n < 400; n++ {
				select {
				case <-stop:
					return
				default:
				}
				if v, err := old.Alloc(); err == nil {
					add(v)
				}
				time.Sleep(500 * time.Microsecond)
			}
		}()
		time.Sleep(20 * time.Millisecond)
		closed := make(chan struct{})
		go func() { svr.Close(); cancel(); close(closed) }()
		select {
		case <-closed:
		case <-time.After(20 * time.Second):
		}
		close(stop)
		<-done
		svr, cancel = start()
		if svr == nil {
			break
		}
		viaHandler(svr, 5)
	}
	if svr != nil {
		go func() { svr.Close(); cancel() }()
		time.Sleep(200 * time.Millisecond)
	}
	var parts []string
	for _, v := range ids {
		parts = append(parts, strconv.FormatUint(v, 10))
	}
	return "ok " + strings.Join(parts, " ")
}
