// Command idalloc drives the real server/id allocator on an embedded etcd and writes the
// `<op> => <observation>` trace judged by the Lean model (property C04).
package main

import (
	"context"
	"errors"
	"flag"
	"fmt"
	"path"
	"strconv"
	"strings"
	"time"

	"github.com/pingcap/kvproto/pkg/metapb"
	"github.com/pingcap/kvproto/pkg/pdpb"
	"github.com/tikv/pd/pkg/errs"
	"github.com/tikv/pd/pkg/typeutil"
	"github.com/tikv/pd/server/cluster"
	"github.com/tikv/pd/server/config"
	"github.com/tikv/pd/server/core"
	"github.com/tikv/pd/server/id"
	"github.com/tikv/pd/server/kv"
	"go.etcd.io/etcd/clientv3"

	"verifharness/internal/etcdh"
	_ "verifharness/internal/quiet"
	"verifharness/internal/rng"
	"verifharness/internal/trace"
)

type inst struct {
	member  int
	alloc   id.Allocator
	client  *clientv3.Client
	gate    *etcdh.GateKV
	pending chan string // result of a parked call
	queued  chan string // result of a call issued behind the parked one (it must wait for the allocator's mutex)
	rc      *cluster.RaftCluster // split handling (cluster_worker.go) drawing from this allocator
}

// splitRegion is the region the split requests name: known to every cluster of this harness.
func splitRegion(peers int) *metapb.Region {
	r := &metapb.Region{Id: 900000001, RegionEpoch: &metapb.RegionEpoch{ConfVer: 1, Version: 1}}
	for p := 0; p < peers; p++ {
		r.Peers = append(r.Peers, &metapb.Peer{Id: uint64(900000002 + p), StoreId: uint64(p + 1)})
	}
	return r
}

// newCluster builds a RaftCluster (not started: no coordinator, no background loops) whose id source is `a`.
func newCluster(a id.Allocator) *cluster.RaftCluster {
	rc := cluster.NewRaftCluster(context.Background(), "/verif/cluster", 1, nil, nil, nil)
	bc := core.NewBasicCluster()
	r := splitRegion(3)
	bc.PutRegion(core.NewRegionInfo(r, r.Peers[0]))
	rc.InitCluster(a, config.NewPersistOptions(config.NewConfig()), core.NewStorage(kv.NewMemoryKV()), bc)
	return rc
}

func flatten(ids []*pdpb.SplitID) string {
	var parts []string
	for _, s := range ids {
		parts = append(parts, strconv.FormatUint(s.GetNewRegionId(), 10))
		for _, p := range s.GetNewPeerIds() {
			parts = append(parts, strconv.FormatUint(p, 10))
		}
	}
	return "ok " + strings.Join(parts, " ")
}

type world struct {
	e     *etcdh.Etcd
	root  string
	seq   int
	insts []*inst
}

func (w *world) stored() uint64 {
	resp, err := w.e.Client.Get(context.Background(), path.Join(w.root, "alloc_id"))
	if err != nil {
		panic(err)
	}
	if len(resp.Kvs) == 0 {
		return 0
	}
	v, err := typeutil.BytesToUint64(resp.Kvs[0].Value)
	if err != nil {
		panic(err)
	}
	return v
}

func outOf(idv uint64, err error, isAlloc bool) string {
	if err == nil {
		if isAlloc {
			return fmt.Sprintf("ok %d", idv)
		}
		return "ok"
	}
	if errs.ErrEtcdTxnConflict.Equal(err) {
		return "conflict"
	}
	if errs.ErrEtcdTxnInternal.Equal(err) || errors.Is(err, etcdh.ErrInjected) ||
		strings.Contains(err.Error(), "ErrEtcdTxnInternal") {
		return "err"
	}
	return "err:" + strings.ReplaceAll(err.Error(), " ", "_")
}

func fault(s string) etcdh.Fault {
	switch s {
	case "before":
		return etcdh.ErrBefore
	case "after":
		return etcdh.ErrAfter
	}
	return etcdh.None
}

func (w *world) reset() {
	for _, in := range w.insts {
		if in.pending != nil {
			in.gate.Release(etcdh.ErrBefore)
			<-in.pending
			if in.queued != nil {
				<-in.queued
			}
		}
		in.client.Close()
	}
	w.insts = nil
	w.seq++
	w.root = fmt.Sprintf("/verif/idalloc/%d", w.seq)
}

func (w *world) exec(op string) string {
	f := strings.Fields(op)
	bad := "bad-op"
	atoi := func(s string) int { n, _ := strconv.Atoi(s); return n }
	get := func(s string) *inst {
		i := atoi(s)
		if i < 0 || i >= len(w.insts) {
			return nil
		}
		return w.insts[i]
	}
	switch {
	case len(f) == 1 && f[0] == "reset":
		w.reset()
		return "ok"
	case len(f) == 2 && f[0] == "new":
		c := etcdh.NewClient(w.e.Cfg)
		g := etcdh.Wrap(c)
		m := atoi(f[1])
		a := id.NewAllocator(c, w.root, fmt.Sprintf("m%d", m))
		w.insts = append(w.insts, &inst{member: m, client: c, gate: g, alloc: a, rc: newCluster(a)})
		return "ok"
	case len(f) == 2 && f[0] == "leader":
		k := path.Join(w.root, "leader")
		var err error
		if f[1] == "0" {
			_, err = w.e.Client.Delete(context.Background(), k)
		} else {
			_, err = w.e.Client.Put(context.Background(), k, "m"+f[1])
		}
		if err != nil {
			panic(err)
		}
		return "ok"
	case len(f) == 3 && (f[0] == "alloc" || f[0] == "rebase"):
		in := get(f[1])
		if in == nil || in.queued != nil {
			return bad
		}
		if in.pending != nil {
			// behind a parked Alloc / Rebase: the call has to wait for the allocator's mutex
			if f[2] != "none" {
				return bad
			}
			done := make(chan string, 1)
			go func() {
				if f[0] == "alloc" {
					v, err := in.alloc.Alloc()
					done <- outOf(v, err, true)
				} else {
					done <- outOf(0, in.alloc.Rebase(), false)
				}
			}()
			select {
			case r := <-done:
				return r
			case <-time.After(250 * time.Millisecond):
				in.queued = done
				return "blocked"
			}
		}
		in.gate.SetFault(fault(f[2]))
		defer in.gate.SetFault(etcdh.None)
		if f[0] == "alloc" {
			v, err := in.alloc.Alloc()
			return outOf(v, err, true)
		}
		return outOf(0, in.alloc.Rebase(), false)
	case len(f) == 2 && (f[0] == "galloc" || f[0] == "grebase"):
		in := get(f[1])
		if in == nil || in.pending != nil {
			return bad
		}
		parked := in.gate.ArmPark()
		done := make(chan string, 1)
		go func() {
			if f[0] == "galloc" {
				v, err := in.alloc.Alloc()
				done <- outOf(v, err, true)
			} else {
				done <- outOf(0, in.alloc.Rebase(), false)
			}
		}()
		select {
		case <-parked:
			in.pending = done
			return "parked"
		case r := <-done:
			in.gate.Disarm()
			return r
		case <-time.After(20 * time.Second):
			panic("galloc: neither parked nor done")
		}
	case len(f) == 3 && f[0] == "finish":
		in := get(f[1])
		if in == nil || in.pending == nil {
			return bad
		}
		in.gate.Release(fault(f[2]))
		r := <-in.pending
		in.pending = nil
		if in.queued != nil {
			r = r + " ; " + <-in.queued
			in.queued = nil
		}
		return r
	case len(f) == 3 && f[0] == "split": // instance, peers: pdpb AskSplit
		in := get(f[1])
		if in == nil || in.pending != nil {
			return bad
		}
		resp, err := in.rc.HandleAskSplit(&pdpb.AskSplitRequest{Region: splitRegion(atoi(f[2]))})
		if err != nil {
			return "fail"
		}
		return flatten([]*pdpb.SplitID{{NewRegionId: resp.GetNewRegionId(), NewPeerIds: resp.GetNewPeerIds()}})
	case len(f) == 4 && f[0] == "bsplit": // instance, split count, peers: pdpb AskBatchSplit
		in := get(f[1])
		if in == nil || in.pending != nil {
			return bad
		}
		resp, err := in.rc.HandleAskBatchSplit(&pdpb.AskBatchSplitRequest{Region: splitRegion(atoi(f[3])), SplitCount: uint32(atoi(f[2]))})
		if err != nil {
			return "fail"
		}
		return flatten(resp.GetIds())
	case len(f) == 1 && f[0] == "stored":
		return fmt.Sprintf("ok %d", w.stored())
	}
	return bad
}

func (w *world) run(t *trace.W, op string) {
	out := w.exec(op)
	t.Line(op, fmt.Sprintf("%s @%d", out, w.stored()))
}

var faults = []string{"none", "none", "none", "none", "none", "none", "before", "after"}

// gen produces one op sequence, executing as it goes (choices depend only on the PRNG and on
// which instances are parked, which the model reproduces).
func gen(w *world, t *trace.W, r *rng.R, maxOps int) {
	w.run(t, "reset")
	n := r.Range(1, 3)
	members := r.Range(1, 3)
	parked := map[int]bool{}
	probed := map[int]bool{}
	for i := 0; i < n; i++ {
		w.run(t, fmt.Sprintf("new %d", r.Range(1, members)))
	}
	if r.Bool(9, 10) {
		w.run(t, fmt.Sprintf("leader %d", r.Range(1, members)))
	}
	ops := r.Range(5, maxOps)
	for k := 0; k < ops; k++ {
		i := r.Intn(len(w.insts))
		f := faults[r.Intn(len(faults))]
		var op string
		if parked[i] && !probed[i] && r.Bool(1, 4) {
			// a second call on the same allocator must wait behind the parked one
			probed[i] = true
			op = []string{"alloc %d none", "alloc %d none", "rebase %d none"}[r.Intn(3)]
			op = fmt.Sprintf(op, i)
		} else if parked[i] {
			if r.Bool(1, 2) {
				op = fmt.Sprintf("finish %d %s", i, f)
				delete(parked, i)
				delete(probed, i)
			} else {
				// do something with another instance / the leader instead
				op = fmt.Sprintf("leader %d", r.Range(0, members))
			}
		} else {
			switch r.Pick(50, 6, 14, 4, 12, 6, 4, 4, 5, 7) {
			case 0:
				op = fmt.Sprintf("alloc %d %s", i, f)
			case 1:
				op = fmt.Sprintf("rebase %d %s", i, f)
			case 2:
				op = fmt.Sprintf("galloc %d", i)
			case 3:
				op = fmt.Sprintf("grebase %d", i)
			case 4:
				op = fmt.Sprintf("leader %d", r.Range(0, members))
			case 5:
				if len(w.insts) < 6 {
					op = fmt.Sprintf("new %d", r.Range(1, members))
				} else {
					op = "stored"
				}
			case 6:
				op = "stored"
			case 8:
				op = fmt.Sprintf("split %d %d", i, r.Range(1, 5))
			case 9:
				op = fmt.Sprintf("bsplit %d %d %d", i, r.Range(1, 6), r.Range(1, 5))
			case 7:
				// burst: exhaust most of a window quickly so that rebases happen often
				for b, nb := 0, []int{40, 40, 40, 40, 40, 40, 400, 1001}[r.Intn(8)]; b < nb; b++ {
					w.run(t, fmt.Sprintf("alloc %d none", i))
				}
				op = fmt.Sprintf("alloc %d none", i)
			}
		}
		before := t.N
		w.run(t, op)
		_ = before
		if strings.HasPrefix(op, "galloc") || strings.HasPrefix(op, "grebase") {
			if w.insts[i].pending != nil {
				parked[i] = true
			}
		}
	}
	for i := range w.insts {
		if parked[i] {
			w.run(t, fmt.Sprintf("finish %d %s", i, faults[r.Intn(len(faults))]))
		}
	}
}

func main() {
	out := flag.String("out", "-", "trace file")
	replay := flag.String("replay", "", "ops file to replay instead of generating")
	n := flag.Int("n", 100, "number of generated sequences")
	maxOps := flag.Int("len", 60, "max ops per sequence")
	stream := flag.Uint64("stream", 0, "PRNG stream")
	flag.Parse()

	e := etcdh.Start()
	defer e.Stop()
	w := &world{e: e}
	t := trace.Create(*out)
	defer t.Close()
	if *replay != "" {
		for _, op := range trace.ReadOps(*replay) {
			w.run(t, op)
		}
		w.reset()
		return
	}
	r := rng.FromEnv(*stream)
	for s := 0; s < *n; s++ {
		gen(w, t, r, *maxOps)
	}
	w.reset()
}
