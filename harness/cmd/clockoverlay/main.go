// Command clockoverlay builds a `go build -overlay` file that injects a controllable clock into chosen
// pd source files WITHOUT editing /repo: in a copy of each named file the tokens `time.Now()`,
// `time.Since(` and `time.Sleep(` are replaced by `verifNow()`, `verifSince(` and `verifSleep(`, a file
// zz_verif_clock.go defining those (default: the real clock) is added to each touched package, and the
// extra add-only files under -extra (same relative layout as the repo) are added too.
// It reports the number of replaced tokens per file and fails if a file has none.
package main

import (
	"encoding/json"
	"flag"
	"fmt"
	"go/parser"
	"go/token"
	"os"
	"path/filepath"
	"strings"
)

const clockSrc = `package %s

import "time"

// VerifClock, when set, replaces the wall clock of this package (verification builds only).
var VerifClock func() time.Time

// VerifSleep, when set, replaces time.Sleep of this package.
var VerifSleep func(time.Duration)

func verifNow() time.Time {
	if VerifClock != nil {
		return VerifClock()
	}
	return time.Now()
}

func verifSince(t time.Time) time.Duration { return verifNow().Sub(t) }

func verifSleep(d time.Duration) {
	if VerifSleep != nil {
		VerifSleep(d)
		return
	}
	time.Sleep(d)
}
`

func main() {
	repo := flag.String("repo", "/repo", "repository root")
	out := flag.String("out", "", "output directory (overlay.json is written there)")
	extra := flag.String("extra", "", "directory of extra add-only files laid out like the repo")
	flag.Parse()
	if *out == "" {
		fmt.Fprintln(os.Stderr, "clockoverlay: -out required")
		os.Exit(2)
	}
	replace := map[string]string{}
	pkgs := map[string]string{} // dir -> package name
	for _, rel := range flag.Args() {
		src := filepath.Join(*repo, rel)
		b, err := os.ReadFile(src)
		if err != nil {
			fmt.Fprintln(os.Stderr, "clockoverlay:", err)
			os.Exit(1)
		}
		f, err := parser.ParseFile(token.NewFileSet(), src, b, parser.PackageClauseOnly)
		if err != nil {
			fmt.Fprintln(os.Stderr, "clockoverlay:", err)
			os.Exit(1)
		}
		s := string(b)
		n := strings.Count(s, "time.Now()") + strings.Count(s, "time.Since(") + strings.Count(s, "time.Sleep(")
		if n == 0 {
			fmt.Fprintf(os.Stderr, "clockoverlay: %s: no clock tokens found\n", rel)
			os.Exit(1)
		}
		s = strings.ReplaceAll(s, "time.Now()", "verifNow()")
		s = strings.ReplaceAll(s, "time.Since(", "verifSince(")
		s = strings.ReplaceAll(s, "time.Sleep(", "verifSleep(")
		dst := filepath.Join(*out, rel)
		os.MkdirAll(filepath.Dir(dst), 0o755)
		if err := os.WriteFile(dst, []byte(s), 0o644); err != nil {
			fmt.Fprintln(os.Stderr, "clockoverlay:", err)
			os.Exit(1)
		}
		replace[src] = dst
		pkgs[filepath.Dir(rel)] = f.Name.Name
		fmt.Printf("clockoverlay: %s: %d tokens replaced\n", rel, n)
	}
	for dir, name := range pkgs {
		dst := filepath.Join(*out, dir, "zz_verif_clock.go")
		os.WriteFile(dst, []byte(fmt.Sprintf(clockSrc, name)), 0o644)
		replace[filepath.Join(*repo, dir, "zz_verif_clock.go")] = dst
	}
	if *extra != "" {
		filepath.Walk(*extra, func(p string, fi os.FileInfo, err error) error {
			if err != nil || fi.IsDir() || !strings.HasSuffix(p, ".go") {
				return nil
			}
			rel, _ := filepath.Rel(*extra, p)
			replace[filepath.Join(*repo, rel)] = p
			return nil
		})
	}
	b, _ := json.MarshalIndent(map[string]interface{}{"Replace": replace}, "", " ")
	if err := os.WriteFile(filepath.Join(*out, "overlay.json"), b, 0o644); err != nil {
		fmt.Fprintln(os.Stderr, "clockoverlay:", err)
		os.Exit(1)
	}
}
