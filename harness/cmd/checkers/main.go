// Command checkers drives the real ReplicaChecker / RuleChecker (and every filter of
// server/schedule/filter) on mockcluster and writes the `<op> => <observation>` trace judged by the
// Lean model and the C10 monitor.
package main

import (
	"flag"
	"fmt"
	"sort"
	"strconv"
	"strings"

	"github.com/tikv/pd/pkg/cache"
	"github.com/tikv/pd/server/core"
	"github.com/tikv/pd/server/schedule"
	"github.com/tikv/pd/server/schedule/checker"
	"github.com/tikv/pd/server/schedule/filter"
	"github.com/tikv/pd/server/schedule/operator"

	"verifharness/internal/pdcluster"
	_ "verifharness/internal/quiet"
	"verifharness/internal/rng"
	"verifharness/internal/trace"
)

type world struct {
	sp *pdcluster.Spec
}

func b2s(b bool) string {
	if b {
		return "1"
	}
	return "0"
}

// filterBits evaluates every filter on every store, see the Lean driver for the same list.
func (w *world) filterBits(rid uint64) string {
	cw, err := w.sp.Build()
	if err != nil {
		return "err:" + strings.ReplaceAll(err.Error(), " ", "_")
	}
	defer cw.Close()
	mc := cw.Cluster
	opts := mc.GetOpts()
	region := cw.Regions[rid]
	var regionStores []*core.StoreInfo
	regionIDs := map[uint64]struct{}{}
	if region != nil {
		regionStores = mc.GetRegionStores(region) // map order: sort, the per-source section below is ordered
		sort.Slice(regionStores, func(i, j int) bool { return regionStores[i].GetID() < regionStores[j].GetID() })
		regionIDs = region.GetStoreIds()
	}
	stores := mc.GetStores()
	sort.Slice(stores, func(i, j int) bool { return stores[i].GetID() < stores[j].GetID() })
	o := w.sp.Opts
	var out []string
	for _, s := range stores {
		var sb strings.Builder
		for m := 0; m < 16; m++ {
			f := &filter.StoreStateFilter{ActionScope: "verif", TransferLeader: m&8 != 0, MoveRegion: m&4 != 0,
				ScatterRegion: m&2 != 0, AllowTemporaryStates: m&1 != 0}
			sb.WriteString(b2s(f.Source(opts, s)))
			sb.WriteString(b2s(f.Target(opts, s)))
		}
		sb.WriteString("|")
		sb.WriteString(b2s(filter.NewStorageThresholdFilter("verif").Target(opts, s)))
		su := filter.NewSpecialUseFilter("verif")
		sb.WriteString(b2s(su.Target(opts, s)))
		sb.WriteString(b2s(su.Source(opts, s)))
		sb.WriteString(b2s(filter.NewSpecialUseFilter("verif", filter.SpecialUseHotRegion).Target(opts, s)))
		sb.WriteString(b2s(filter.NewOrdinaryEngineFilter("verif").Target(opts, s)))
		sb.WriteString(b2s(filter.NewEngineFilter("verif", "tiflash").Target(opts, s)))
		sb.WriteString(b2s(filter.NewExcludedFilter("verif", nil, regionIDs).Target(opts, s)))
		sb.WriteString("|")
		if len(o.Labels) > 0 && o.Level != "" {
			sb.WriteString(b2s(filter.NewIsolationFilter("verif", o.Level, o.Labels, regionStores).Target(opts, s)))
		} else {
			sb.WriteString("-")
		}
		sb.WriteString("|")
		for _, src := range regionStores {
			sb.WriteString(b2s(filter.NewLocationSafeguard("verif", o.Labels, regionStores, src).Target(opts, s)))
			sb.WriteString(b2s(filter.NewLocationImprover("verif", o.Labels, regionStores, src).Target(opts, s)))
		}
		sb.WriteString("|")
		for _, r := range w.sp.Rules {
			sb.WriteString(b2s(filter.NewLabelConstaintFilter("verif", r.Cons).Target(opts, s)))
		}
		out = append(out, fmt.Sprintf("%d:%s", s.GetID(), sb.String()))
	}
	if len(out) == 0 {
		return "-"
	}
	return strings.Join(out, " ")
}

func (w *world) check(kind string, rid uint64) (res string) {
	sp := w.sp
	if kind == "ctlx" {
		// the controller is created in the other placement-rules mode and switched online afterwards:
		// the rule manager (and the rules) must exist either way
		c := *w.sp
		c.Opts.Rules = true
		sp = &c
	}
	cw, err := sp.Build()
	if err != nil {
		return "err:" + strings.ReplaceAll(err.Error(), " ", "_")
	}
	defer cw.Close()
	region := cw.Regions[rid]
	if region == nil {
		return "no-region"
	}
	prefix := ""
	defer func() {
		if r := recover(); r != nil {
			res = prefix + "panic:" + strings.ReplaceAll(fmt.Sprint(r), " ", "_")
		}
	}()
	wl := cache.NewDefaultCache(10)
	var op *operator.Operator
	switch kind {
	case "replica":
		op = checker.NewReplicaChecker(cw.Cluster, wl).Check(region)
	case "rule":
		if cw.Cluster.RuleManager == nil {
			return "no-rules"
		}
		prefix = pdcluster.FormatFit(cw.Cluster.FitRegion(region)) + " | "
		op = checker.NewRuleChecker(cw.Cluster, cw.Cluster.RuleManager, wl).Check(region)
	case "ctl", "ctlx":
		// the real entry point: CheckerController.CheckRegion (joint-state, rule or learner+replica, merge).
		// ctlx: the controller is constructed while placement rules are in the OTHER mode, then the mode
		// is switched online (enable-placement-rules is a dynamic option) and the region is checked.
		if w.sp.Opts.Rules {
			if cw.Cluster.RuleManager == nil {
				return "no-rules"
			}
			prefix = pdcluster.FormatFit(cw.Cluster.FitRegion(region)) + " | "
		}
		if kind == "ctlx" {
			cw.Cluster.SetEnablePlacementRules(!w.sp.Opts.Rules)
		}
		oc := schedule.NewOperatorController(cw.Ctx, cw.Cluster, nil)
		cc := schedule.NewCheckerController(cw.Ctx, cw.Cluster, cw.Cluster.RuleManager, oc)
		if kind == "ctlx" {
			cw.Cluster.SetEnablePlacementRules(w.sp.Opts.Rules)
		}
		ops := cc.CheckRegion(region)
		if len(ops) == 0 {
			return prefix + "none"
		}
		var out []string
		for _, o := range ops {
			out = append(out, pdcluster.FormatOp(o))
		}
		return prefix + strings.Join(out, " ;; ")
	default:
		return "bad-op"
	}
	return prefix + pdcluster.FormatOp(op)
}

func (w *world) exec(op string) string {
	f := strings.Fields(op)
	if len(f) == 0 {
		return "bad-op"
	}
	switch f[0] {
	case "reset":
		w.sp = pdcluster.NewSpec()
		return "ok"
	case "opt", "store", "region", "rule":
		w.sp.Apply(op)
		return "ok"
	case "filters":
		if len(f) < 2 {
			return "bad-op"
		}
		rid, _ := strconv.ParseUint(f[1], 10, 64)
		return w.filterBits(rid)
	case "check":
		if len(f) < 3 {
			return "bad-op"
		}
		rid, _ := strconv.ParseUint(f[2], 10, 64)
		return w.check(f[1], rid)
	}
	return "bad-op"
}

func (w *world) run(t *trace.W, op string) {
	t.Line(op, w.exec(op))
}

// ---------------------------------------------------------------------------------------------
// generator

var zoneVals = []string{"z1", "z2", "z3"}
var rackVals = []string{"r1", "r2"}
var hostVals = []string{"h1", "h2", "h3", "h4"}

func pick(r *rng.R, xs []string) string { return xs[r.Intn(len(xs))] }

func pickInt(r *rng.R, xs ...int) int { return xs[r.Intn(len(xs))] }

type genOpts struct {
	labels  []string
	maxDown int
	maxPend int
	maxSnap int
	maxRep  int
	down    map[int]int // store -> seconds since the last heartbeat
}

// genReject: the reject-leader label property: none, one entry, or several entries – on the same key
// with different values and on different keys (a store may match only the second or third entry)
func genReject(r *rng.R) string {
	switch r.Pick(70, 10, 20) {
	case 0:
		return "-"
	case 1:
		return "zone:" + pick(r, zoneVals)
	}
	var entries []string
	seen := map[string]bool{}
	for k := r.Range(2, 3); k > 0; k-- {
		e := "zone:" + pick(r, zoneVals)
		if r.Bool(1, 3) {
			e = "host:" + pick(r, hostVals)
		}
		if !seen[e] {
			seen[e] = true
			entries = append(entries, e)
		}
	}
	return strings.Join(entries, ",")
}

func genOptLine(r *rng.R, malformed bool) (string, genOpts) {
	var g genOpts
	switch r.Pick(30, 25, 25, 20) {
	case 1:
		g.labels = []string{"zone"}
	case 2:
		g.labels = []string{"zone", "host"}
	case 3:
		g.labels = []string{"zone", "rack", "host"}
	}
	level := "-"
	if len(g.labels) > 0 && r.Bool(1, 2) {
		level = pick(r, g.labels)
	}
	if malformed && r.Bool(1, 4) {
		level = "dc"
	}
	low := []string{"1/2", "3/4", "7/8", "5/8"}[r.Intn(4)]
	g.maxDown = pickInt(r, 1800, 1800, 60, 3600)
	g.maxSnap = pickInt(r, 3, 3, 0, 1)
	g.maxPend = pickInt(r, 16, 16, 0, 2)
	reject := genReject(r)
	flags := "domxl"
	if r.Bool(1, 5) {
		flags = ""
		for _, c := range "domxl" {
			if r.Bool(3, 4) {
				flags += string(c)
			}
		}
		if flags == "" {
			flags = "-"
		}
	}
	labels := "-"
	if len(g.labels) > 0 {
		labels = strings.Join(g.labels, ",")
	}
	g.maxRep = r.Range(1, 5)
	g.down = map[int]int{}
	return fmt.Sprintf("opt maxrep=%d labels=%s level=%s low=%s maxdown=%d maxsnap=%d maxpend=%d reject=%s flags=%s rules=0 jc=%d",
		g.maxRep, labels, level, low, g.maxDown, g.maxSnap, g.maxPend, reject, flags, r.Intn(2)), g
}

// caseKey sometimes changes the case of a store label KEY (Zone / ZONE): PD looks labels up
// case-insensitively (StoreInfo.GetLabelValue), the configured location labels and constraint keys stay lower-case
func caseKey(r *rng.R, key string) string {
	switch r.Pick(88, 7, 5) {
	case 1:
		return strings.ToUpper(key[:1]) + key[1:]
	case 2:
		return strings.ToUpper(key)
	}
	return key
}

func genStoreLine(r *rng.R, id int, g genOpts, healthy bool) string {
	st, down, busy, pause, add, rm, ss, rs, pend := 0, 0, 0, 0, 1, 1, 0, 0, 0
	if !healthy {
		st = r.Pick(82, 12, 6)
		if r.Bool(3, 10) {
			down = pickInt(r, 5, 19, 20, 21, 100, g.maxDown-1, g.maxDown, g.maxDown+1, 1000000)
		}
		busy = r.Pick(92, 8)
		pause = r.Pick(95, 5)
		add = r.Pick(8, 92)
		rm = r.Pick(8, 92)
		if r.Bool(15, 100) {
			ss = r.Intn(6)
		}
		if r.Bool(15, 100) {
			rs = r.Intn(6)
		}
		if r.Bool(15, 100) {
			pend = pickInt(r, 1, g.maxPend, g.maxPend+1, 40)
		}
	}
	var capacity uint64 = 1 << 40
	switch r.Pick(70, 25, 5) {
	case 1:
		capacity = 1 << 36
	case 2:
		if !healthy {
			capacity = 0
		}
	}
	k := uint64(pickInt(r, 0, 1, 10, 15, 16, 17, 31, 32, 33, 47, 48, 49, 63, 64, 65, 100, 128))
	if healthy {
		k = uint64(pickInt(r, 64, 100, 128))
	}
	avail := capacity / 128 * k
	rc := pickInt(r, 0, 5, 29, 30, 31, 100)
	var labels []string
	if r.Bool(9, 10) {
		labels = append(labels, caseKey(r, "zone")+":"+pick(r, zoneVals))
	}
	if r.Bool(7, 10) {
		labels = append(labels, caseKey(r, "rack")+":"+pick(r, rackVals))
	}
	if r.Bool(8, 10) {
		labels = append(labels, caseKey(r, "host")+":"+pick(r, hostVals))
	}
	if !healthy {
		if r.Bool(8, 100) {
			labels = append(labels, caseKey(r, "engine")+":tiflash")
		} else if r.Bool(3, 100) {
			labels = append(labels, "engine:tikv")
		}
		if r.Bool(6, 100) {
			labels = append(labels, caseKey(r, "specialUse")+":"+pick(r, []string{"hotRegion", "reserved", "other"}))
		}
		if r.Bool(3, 100) {
			labels = append(labels, "$dedicated:yes")
		}
		if r.Bool(2, 100) {
			labels = append(labels, "exclusive:a")
		}
	}
	ls := "-"
	if len(labels) > 0 {
		ls = strings.Join(labels, ",")
	}
	g.down[id] = down
	return fmt.Sprintf("store %d st=%d down=%d busy=%d pause=%d add=%d rm=%d ss=%d rs=%d pend=%d cap=%d avail=%d rc=%d labels=%s",
		id, st, down, busy, pause, add, rm, ss, rs, pend, capacity, avail, rc, ls)
}

func genRegionLine(r *rng.R, rid int, storeIDs []int, g genOpts, malformed bool) string {
	// around max-replicas: one short, exact, one or two extra
	n := g.maxRep + []int{-2, -1, -1, 0, 0, 0, 1, 1, 2}[r.Intn(9)]
	if n < 1 {
		n = 1
	}
	if n > 6 {
		n = 6
	}
	if n > len(storeIDs) {
		n = len(storeIDs)
	}
	perm := append([]int{}, storeIDs...)
	for i := len(perm) - 1; i > 0; i-- {
		j := r.Intn(i + 1)
		perm[i], perm[j] = perm[j], perm[i]
	}
	var peers, down, pending []string
	var voters []int
	for i := 0; i < n; i++ {
		role := r.Pick(85, 15)
		if malformed && r.Bool(1, 12) {
			role = 2 + r.Intn(2)
		}
		store := perm[i]
		if malformed && r.Bool(1, 10) {
			store = 90 + r.Intn(3) // a store the cluster does not know
		}
		pid := 101 + i
		peers = append(peers, fmt.Sprintf("%d:%d:%d", pid, store, role))
		if role != 1 {
			voters = append(voters, pid)
		}
		if g.down[store] >= g.maxDown && r.Bool(7, 10) {
			// the peer of a store that is down is usually reported down as well
			down = append(down, fmt.Sprintf("%d:%d", pid, pickInt(r, g.maxDown-1, g.maxDown, g.maxDown+5, 100000)))
		} else if r.Bool(8, 100) {
			down = append(down, fmt.Sprintf("%d:%d", pid, pickInt(r, 10, g.maxDown-1, g.maxDown, 100000)))
		}
		if r.Bool(10, 100) {
			pending = append(pending, fmt.Sprint(pid))
		}
	}
	leader := 0
	switch {
	case len(voters) > 0 && r.Bool(93, 100):
		leader = voters[r.Intn(len(voters))]
	case malformed && n > 0 && r.Bool(1, 2):
		leader = 101 + r.Intn(n)
	}
	join := func(xs []string) string {
		if len(xs) == 0 {
			return "-"
		}
		return strings.Join(xs, ",")
	}
	return fmt.Sprintf("region %d peers=%s leader=%d down=%s pending=%s", rid, join(peers), leader, join(down), join(pending))
}

func genRuleLine(r *rng.R, i int, g genOpts) string {
	role := []string{"voter", "voter", "voter", "leader", "follower", "learner"}[r.Intn(6)]
	var cons []string
	for k := r.Pick(55, 35, 10); k > 0; k-- {
		switch r.Pick(40, 20, 15, 10, 15) {
		case 0:
			vals := pick(r, zoneVals)
			if r.Bool(1, 2) {
				vals += "|" + pick(r, zoneVals)
			}
			cons = append(cons, "zone:"+pick(r, []string{"in", "notIn"})+":"+vals)
		case 1:
			cons = append(cons, "host:"+pick(r, []string{"in", "notIn"})+":"+pick(r, hostVals)+"|"+pick(r, hostVals))
		case 2:
			cons = append(cons, "engine:in:tiflash")
		case 3:
			cons = append(cons, pick(r, []string{"rack", "$dedicated", "exclusive"})+":"+pick(r, []string{"exists", "notExists"}))
		case 4:
			cons = append(cons, "specialUse:notIn:reserved")
		}
	}
	cs := "-"
	if len(cons) > 0 {
		cs = strings.Join(cons, ";")
	}
	var labels []string
	switch r.Pick(35, 25, 25, 15) {
	case 1:
		labels = []string{"zone"}
	case 2:
		labels = []string{"zone", "host"}
	case 3:
		labels = []string{"zone", "rack", "host"}
	}
	level, ls := "-", "-"
	if len(labels) > 0 {
		ls = strings.Join(labels, ",")
		if r.Bool(1, 2) {
			level = pick(r, labels)
		}
	}
	count := r.Range(1, 3)
	if role == "leader" {
		count = 1
	}
	return fmt.Sprintf("rule pd/r%d role=%s count=%d cons=%s labels=%s level=%s", i, role, count, cs, ls, level)
}

func gen(w *world, t *trace.W, r *rng.R, malformed bool) {
	w.run(t, "reset")
	ol, g := genOptLine(r, malformed)
	w.run(t, ol)
	n := r.Range(3, 10)
	if malformed && r.Bool(1, 10) {
		n = r.Intn(3)
	}
	var ids []int
	// some clusters are mostly healthy so that repairs have somewhere to go
	healthyBias := r.Pick(40, 60)
	for i := 1; i <= n; i++ {
		id := i
		if r.Bool(1, 10) {
			id = i + 20
		}
		ids = append(ids, id)
		w.run(t, genStoreLine(r, id, g, healthyBias == 1 && r.Bool(6, 10)))
	}
	w.run(t, genRegionLine(r, 7, ids, g, malformed))
	nr := r.Pick(30, 30, 20, 12, 8)
	for i := 0; i < nr; i++ {
		w.run(t, genRuleLine(r, i+1, g))
	}
	w.run(t, "filters 7")
	w.run(t, "check replica 7")
	w.run(t, "check ctl 7")
	w.run(t, "check ctlx 7") // controller created with placement rules on, switched off before the check
	w.run(t, "opt rules=1")
	w.run(t, "check rule 7")
	w.run(t, "check ctl 7")
	w.run(t, "check ctlx 7") // controller created with placement rules off, switched on before the check
	// a second look after a small change: repairs of the repaired / degraded cluster
	if r.Bool(1, 3) && len(ids) > 0 {
		w.run(t, "opt rules=0")
		w.run(t, genStoreLine(r, ids[r.Intn(len(ids))], g, false))
		w.run(t, "check replica 7")
		w.run(t, "opt rules=1")
		w.run(t, "check rule 7")
	}
}

func main() {
	out := flag.String("out", "-", "trace file")
	replay := flag.String("replay", "", "ops file to replay instead of generating")
	n := flag.Int("n", 100, "number of generated sequences")
	stream := flag.Uint64("stream", 0, "PRNG stream")
	flag.Parse()

	w := &world{sp: pdcluster.NewSpec()}
	t := trace.Create(*out)
	defer t.Close()
	if *replay != "" {
		for _, op := range trace.ReadOps(*replay) {
			w.run(t, op)
		}
		return
	}
	r := rng.FromEnv(*stream)
	for s := 0; s < *n; s++ {
		// every fourth stream is the malformed stream
		gen(w, t, r, *stream%4 == 3)
	}
}
