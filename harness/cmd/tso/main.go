// Command tso drives real GlobalTSOAllocator objects (one per simulated PD member, all on one embedded
// etcd and one leader key) with an injected clock and gated / faulted window-save transactions, and
// writes the `<op> => <observation>` trace judged by the Lean model (properties C01 and C02).
// Must be built with the clock overlay (bin/check does that).
package main

import (
	"context"
	"flag"
	"fmt"
	"path"
	"strconv"
	"strings"
	"sync"
	"sync/atomic"
	"time"

	pdclient "github.com/tikv/pd/client"
	"github.com/tikv/pd/pkg/tsoutil"
	"github.com/tikv/pd/pkg/typeutil"
	"github.com/tikv/pd/server/config"
	"github.com/tikv/pd/server/election"
	"github.com/tikv/pd/server/member"
	"github.com/tikv/pd/server/tso"
	"go.etcd.io/etcd/clientv3"

	"verifharness/internal/etcdh"
	"verifharness/internal/monoclock"
	_ "verifharness/internal/quiet"
	"verifharness/internal/rng"
	"verifharness/internal/trace"
)

type mem struct {
	id      int
	client  *clientv3.Client
	gate    *etcdh.GateKV
	ls      *election.Leadership
	am      *tso.AllocatorManager
	alloc   tso.Allocator
	pending chan string // result of a parked call
	queued  chan string // result of a call blocked behind the parked one
}

type world struct {
	e     *etcdh.Etcd
	seq   int
	root  string
	mems  map[int]*mem
	si    time.Duration
	gapMs int64
	now   int64
	ctx   context.Context
	// local-allocator mode: the members' allocators are LocalTSOAllocators of one dc-location with this
	// suffix, and the manager's max suffix yields `bits` suffix bits (bits = 0: the global allocator)
	bits, suffix int
	sleepHook    func() // runs inside every (injected) sleep of the tso package
}

const localDC = "dc-verif"

const maxMembers = 4

func (w *world) reset(siNs, gapMs int64, bits, suffix int) {
	w.bits, w.suffix = bits, suffix
	for _, m := range w.mems {
		if m.pending != nil {
			m.gate.Release(etcdh.ErrBefore)
			<-m.pending
			if m.queued != nil {
				<-m.queued
			}
		}
		m.ls.Reset()
		m.client.Close()
	}
	w.seq++
	w.root = fmt.Sprintf("/verif/tso/%d", w.seq)
	w.si = time.Duration(siNs)
	w.gapMs = gapMs
	w.mems = map[int]*mem{}
	for i := 1; i <= maxMembers; i++ {
		c := etcdh.NewClient(w.e.Cfg)
		g := etcdh.Wrap(c)
		ls := election.NewLeadership(c, path.Join(w.root, "leader"), "verif")
		cfg := config.NewConfig()
		cfg.TSOSaveInterval = typeutil.NewDuration(w.si)
		cfg.TSOUpdatePhysicalInterval = typeutil.NewDuration(50 * time.Millisecond)
		gap := time.Duration(gapMs) * time.Millisecond
		am := tso.NewAllocatorManager(&member.Member{}, w.root, cfg, func() time.Duration { return gap })
		var a tso.Allocator
		if bits == 0 {
			am.SetUpAllocator(w.ctx, tso.GlobalDCLocation, ls)
			var err error
			if a, err = am.GetAllocator(tso.GlobalDCLocation); err != nil {
				panic(err)
			}
		} else {
			// not through SetUpAllocator: that would start the allocator's own election loop
			a = tso.NewLocalTSOAllocator(am, ls, localDC)
			am.VerifSetMaxSuffix(int32(1<<uint(bits) - 1))
			if am.GetSuffixBits() != bits {
				panic("suffix bits")
			}
		}
		w.mems[i] = &mem{id: i, client: c, gate: g, ls: ls, am: am, alloc: a}
	}
}

func (w *world) stored() int64 {
	key := path.Join(w.root, "timestamp")
	if w.bits != 0 {
		key = path.Join(w.root, "leader", "timestamp") // a local allocator's root is its leader key
	}
	resp, err := w.e.Client.Get(context.Background(), key)
	if err != nil {
		panic(err)
	}
	if len(resp.Kvs) == 0 {
		return 0
	}
	v, err := typeutil.BytesToUint64(resp.Kvs[0].Value)
	if err != nil {
		panic(err)
	}
	return int64(v)
}

func errStr(err error) string {
	if err == nil {
		return "ok"
	}
	s := err.Error()
	switch {
	case strings.Contains(s, "isn't initialized"), strings.Contains(s, "has been reset"):
		return "err-uninit"
	case strings.Contains(s, "not leader"), strings.Contains(s, "leader anymore"):
		return "err-notleader"
	case strings.Contains(s, "retries exceeded"):
		return "err-exceeded"
	case strings.Contains(s, "count should be positive"):
		return "err-zerocount"
	case strings.Contains(s, "lease expired"):
		return "err-lease"
	case strings.Contains(s, "counter is smaller"):
		return "err-smallcounter"
	case strings.Contains(s, "smaller than now"):
		return "err-small"
	case strings.Contains(s, "too larger"):
		return "err-large"
	case strings.Contains(s, "ErrEtcdTxnConflict"):
		return "err-conflict"
	case strings.Contains(s, "ErrEtcdKVPut"), strings.Contains(s, "injected"):
		return "err-save"
	}
	return "err:" + strings.ReplaceAll(s, " ", "_")
}

func fault(s string) etcdh.Fault {
	switch s {
	case "before":
		return etcdh.ErrBefore
	case "after":
		return etcdh.ErrAfter
	}
	return etcdh.None
}

// windowCall runs one of the three window writers the way its production caller does
// (UpdateTSO / Initialize errors make the caller reset the allocator group).
// resetGroup is AllocatorManager.ResetAllocatorGroup (the local allocator of this harness is not registered
// in the manager, so the two resets are done here, in the same order)
func (w *world) resetGroup(m *mem) {
	if w.bits == 0 {
		m.am.ResetAllocatorGroup(tso.GlobalDCLocation)
		return
	}
	m.alloc.Reset()
	m.ls.Reset()
}

func (w *world) windowCall(m *mem, f []string) string {
	switch f[0] {
	case "update", "gupdate":
		// allocatorUpdater / updateAllocator: allocators that are uninitialised or whose
		// leadership check fails are skipped
		if !m.alloc.IsInitialize() || !m.ls.Check() {
			return "ok"
		}
		err := m.alloc.UpdateTSO()
		if err != nil {
			w.resetGroup(m)
		}
		return errStr(err)
	case "sync", "gsync":
		err := m.alloc.Initialize(w.suffix)
		if err != nil {
			w.resetGroup(m)
		}
		return errStr(err)
	case "setts":
		ms, _ := strconv.ParseInt(f[2], 10, 64)
		l, _ := strconv.ParseInt(f[3], 10, 64)
		return errStr(m.alloc.SetTSO(tsoutil.ComposeTS(ms, l)))
	case "writets":
		ms, _ := strconv.ParseInt(f[2], 10, 64)
		l, _ := strconv.ParseInt(f[3], 10, 64)
		return errStr(tso.VerifResetUserTimestamp(m.alloc, m.ls, tsoutil.ComposeTS(ms, l), true))
	}
	return "bad-op"
}

func (w *world) exec(op string) (string, int) {
	f := strings.Fields(op)
	atoi := func(s string) int64 { n, _ := strconv.ParseInt(s, 10, 64); return n }
	if len(f) == 0 {
		return "bad-op", 0
	}
	if f[0] == "reset" && len(f) == 3 {
		w.reset(atoi(f[1]), atoi(f[2]), 0, 0)
		return "ok", 0
	}
	if f[0] == "reset" && len(f) == 5 && atoi(f[3]) >= 1 && atoi(f[3]) <= 8 {
		w.reset(atoi(f[1]), atoi(f[2]), int(atoi(f[3])), int(atoi(f[4])))
		return "ok", 0
	}
	if f[0] == "resign" {
		for _, m := range w.mems {
			m.ls.Reset()
		}
		return "ok", 0
	}
	if f[0] == "extwin" && len(f) == 2 {
		// another allocator under the same root (a dc-location's) persists its window
		if _, err := w.e.Client.Put(context.Background(), path.Join(w.root, "lta", "dc-x", "timestamp"),
			string(typeutil.Uint64ToBytes(uint64(atoi(f[1]))))); err != nil {
			panic(err)
		}
		return "ok", 0
	}
	if f[0] == "dropkey" {
		// the leader record vanishes while its owner's local lease check still answers true
		if _, err := w.e.Client.Delete(context.Background(), path.Join(w.root, "leader")); err != nil {
			panic(err)
		}
		return "ok", 0
	}
	if len(f) < 2 {
		return "bad-op", 0
	}
	id := int(atoi(f[1]))
	m := w.mems[id]
	if m == nil {
		return "bad-op", id
	}
	switch {
	case f[0] == "lead" && len(f) == 2:
		for _, x := range w.mems {
			x.ls.Reset()
		}
		// the member's previous term ends the way campaignLeader ends it: leadership first, then the
		// allocator group (so the production step-down code is what clears the memory before the new term)
		w.resetGroup(m)
		if err := m.ls.Campaign(3600, fmt.Sprintf("m%d", id)); err != nil {
			panic(fmt.Sprintf("campaign failed: %v", err))
		}
		return "ok", id
	case f[0] == "expire" && len(f) == 2:
		m.ls.VerifExpireLocal()
		return "ok", id
	case f[0] == "getts" && len(f) == 3:
		ts, err := m.alloc.GenerateTSO(uint32(atoi(f[2])))
		if err != nil {
			return errStr(err), id
		}
		return fmt.Sprintf("ts %d %d", ts.Physical, ts.Logical), id
	case f[0] == "gettsx" && len(f) >= 5: // member, count, k, hook ops (':' for ' '): run during the k-th sleep of the retry loop
		k, n := int(atoi(f[3])), 0
		w.sleepHook = func() {
			if n++; n == k {
				for _, h := range f[4:] {
					w.exec(strings.ReplaceAll(h, ":", " "))
				}
			}
		}
		ts, err := m.alloc.GenerateTSO(uint32(atoi(f[2])))
		w.sleepHook = nil
		if err != nil {
			return errStr(err), id
		}
		return fmt.Sprintf("ts %d %d", ts.Physical, ts.Logical), id
	case f[0] == "cburst" && len(f) == 5 && f[4] == "cancel": // member, rounds, 1: the pd client with cancelled queued requests
		return w.clientCancel(id, int(atoi(f[2]))), id
	case f[0] == "cburst" && len(f) == 4: // member, goroutines, count: free-running concurrency, monitor only
		n, cnt := int(atoi(f[2])), uint32(atoi(f[3]))
		var ticks int64
		var mu sync.Mutex
		var res []string
		var wg sync.WaitGroup
		stop := make(chan struct{})
		upd := make(chan struct{})
		go func() { // the updater daemon with an advancing clock
			defer close(upd)
			for {
				select {
				case <-stop:
					return
				default:
				}
				atomic.AddInt64(&w.now, 700000)
				if m.alloc.IsInitialize() && m.ls.Check() {
					m.alloc.UpdateTSO()
				}
			}
		}()
		wg.Add(1)
		go func() { // SetTSO into the current millisecond, a little ahead of the counter
			defer wg.Done()
			for k := 0; k < 40; k++ {
				p, l, _ := tso.VerifView(m.alloc)
				if p == 0 {
					continue
				}
				m.alloc.SetTSO(tsoutil.ComposeTS(p/1e6, (l+int64(20+k*7))%262144))
			}
		}()
		for g := 0; g < n; g++ {
			wg.Add(1)
			go func() {
				defer wg.Done()
				for k := 0; k < 25; k++ {
					st := atomic.AddInt64(&ticks, 1)
					ts, err := m.alloc.GenerateTSO(cnt)
					fi := atomic.AddInt64(&ticks, 1)
					if err != nil {
						continue
					}
					mu.Lock()
					raw := ts.Logical >> uint(w.bits)
					res = append(res, fmt.Sprintf("%d:%d:%d:%d:%d", ts.Physical, raw-int64(cnt), raw, st, fi))
					mu.Unlock()
				}
			}()
		}
		wg.Wait()
		close(stop)
		<-upd
		return "grants " + strings.Join(res, " "), id
	case f[0] == "resetmem" && len(f) == 2:
		m.alloc.Reset()
		return "ok", id
	case (f[0] == "update" || f[0] == "sync") && len(f) == 4, (f[0] == "setts" || f[0] == "writets") && len(f) == 5:
		if f[0] != "setts" && f[0] != "writets" {
			atomic.StoreInt64(&w.now, atoi(f[2]))
		}
		m.gate.SetFault(fault(f[len(f)-1]))
		if m.pending != nil {
			// must block on the window mutex until the parked call finishes
			done := make(chan string, 1)
			go func() { done <- w.windowCall(m, f) }()
			select {
			case r := <-done:
				m.gate.SetFault(etcdh.None)
				return r, id
			case <-time.After(250 * time.Millisecond):
				m.queued = done
				return "blocked", id
			}
		}
		r := w.windowCall(m, f)
		m.gate.SetFault(etcdh.None)
		return r, id
	case (f[0] == "gupdate" || f[0] == "gsync") && len(f) == 3:
		if m.pending != nil {
			return "blocked", id // the generator never does this
		}
		atomic.StoreInt64(&w.now, atoi(f[2]))
		parked := m.gate.ArmPark()
		done := make(chan string, 1)
		go func() { done <- w.windowCall(m, f) }()
		select {
		case <-parked:
			m.pending = done
			return "parked", id
		case r := <-done:
			m.gate.Disarm()
			return r, id
		case <-time.After(20 * time.Second):
			panic("gated call neither parked nor done")
		}
	case f[0] == "finish" && len(f) == 3:
		if m.pending == nil {
			return "bad-op", id
		}
		m.gate.Release(fault(f[2]))
		r := <-m.pending
		m.pending = nil
		if m.queued != nil {
			r2 := <-m.queued
			m.queued = nil
			m.gate.SetFault(etcdh.None)
			r = r + " ; " + r2
		}
		return r, id
	}
	return "bad-op", id
}

// pure client-side functions (no allocator state involved)
func pureOp(f []string) (string, bool) {
	atoi := func(s string) int64 { n, _ := strconv.ParseInt(s, 10, 64); return n }
	switch {
	case f[0] == "csplit" && len(f) == 5: // physical, logical (highest), suffix bits, count
		ps, ls := pdclient.VerifSplitBatch(atoi(f[1]), atoi(f[2]), uint32(atoi(f[3])), int(atoi(f[4])))
		var parts []string
		for i := range ls {
			parts = append(parts, fmt.Sprintf("%d:%d", ps[i], ls[i]))
		}
		return strings.Join(parts, " "), true
	case f[0] == "tsle" && len(f) == 5:
		if pdclient.VerifTSLessEqual(atoi(f[1]), atoi(f[2]), atoi(f[3]), atoi(f[4])) {
			return "true", true
		}
		return "false", true
	case f[0] == "compose" && len(f) == 3:
		return fmt.Sprintf("%d", tsoutil.ComposeTS(atoi(f[1]), atoi(f[2]))), true
	}
	return "", false
}

func (w *world) run(t *trace.W, op string) string {
	if o, ok := pureOp(strings.Fields(op)); ok {
		t.Line(op, o)
		return o
	}
	out, id := w.exec(op)
	view := "0:0:0:0"
	if m := w.mems[id]; m != nil {
		p, l, s := tso.VerifView(m.alloc)
		lease := 0
		if m.ls.Check() {
			lease = 1
		}
		view = fmt.Sprintf("%d:%d:%d:%d", p, l, s, lease)
	}
	t.Line(op, fmt.Sprintf("%s @%d %s", out, w.stored(), view))
	return out
}

var faults = []string{"none", "none", "none", "none", "none", "none", "none", "before", "after"}
var settsFaults = []string{"none", "none", "none", "none", "before"} // see Op.faithful: no error-after-effect for SetTSO
var counts = []int{1, 1, 1, 1, 2, 3, 10, 100, 1000, 100000, 131072, 262143, 262144}

const baseNs = int64(1700000000000000000)

func gen(w *world, t *trace.W, r *rng.R, maxOps int) {
	si := []int64{3000000000, 3000000000, 1000000000, 2000000, 50000000}[r.Intn(5)]
	gap := []int64{86400000, 86400000, 3600000}[r.Intn(3)]
	if r.Bool(1, 3) {
		// a local allocator: 1..4 suffix bits, any non-zero suffix that fits
		bits := r.Range(1, 4)
		w.run(t, fmt.Sprintf("reset %d %d %d %d", si, gap, bits, r.Range(1, 1<<uint(bits)-1)))
	} else {
		w.run(t, fmt.Sprintf("reset %d %d", si, gap))
	}
	k := r.Range(1, 3)
	skew := map[int]int64{}
	for i := 1; i <= k; i++ {
		skew[i] = []int64{0, 0, 5e9, -5e9, 3600e9, -3600e9, 1e6, -1e6}[r.Intn(8)]
	}
	elapsed := int64(0)
	clock := func(m int) int64 { return baseNs + skew[m] + elapsed }
	parked := map[int]bool{}
	leader := 1
	extWin := int64(0)
	keyDropped := false // the leader record was deleted out of band and nobody has campaigned since
	w.run(t, "lead 1")
	w.run(t, fmt.Sprintf("sync 1 %d none", clock(1)))
	n := r.Range(8, maxOps)
	for i := 0; i < n; i++ {
		elapsed += []int64{0, 1e5, 1e6, 2e6, 5e7, 5e7, 1e8, 3e9, 7e9}[r.Intn(9)]
		if r.Bool(1, 40) {
			skew[r.Range(1, k)] += []int64{3600e9, -3600e9, 10e9, -10e9}[r.Intn(4)]
		}
		m := leader
		if r.Bool(1, 5) {
			m = r.Range(1, k)
		}
		if parked[m] {
			pick := r.Pick(50, 25, 10, 15)
			if keyDropped && pick == 3 {
				// a parked call that fails makes its caller reset the group outside the window mutex,
				// which races with a queued writer: no queued writers while the record is gone
				pick = 1
			}
			switch pick {
			case 0:
				w.run(t, fmt.Sprintf("finish %d %s", m, faults[r.Intn(len(faults))]))
				delete(parked, m)
			case 1:
				w.run(t, fmt.Sprintf("getts %d %d", m, counts[r.Intn(len(counts))]))
			case 2:
				w.run(t, fmt.Sprintf("resetmem %d", m))
			case 3:
				// a second window writer must block until the parked one is released
				var op string
				switch r.Intn(4) {
				case 0, 1:
					op = fmt.Sprintf("setts %d %d %d none", m, (clock(m)/1e6)+int64(r.Range(1, 40000000)), r.Intn(5))
				case 2:
					op = fmt.Sprintf("update %d %d none", m, clock(m))
				default:
					op = fmt.Sprintf("sync %d %d none", m, clock(m))
				}
				out := w.run(t, op)
				if out == "blocked" {
					// released without a fault: a failing parked call makes its caller reset the
					// allocator group outside the window mutex, which races with the queued call
					w.run(t, fmt.Sprintf("finish %d none", m))
					delete(parked, m)
				}
			}
			continue
		}
		switch r.Pick(34, 22, 7, 5, 3, 10, 7, 2, 1, 3, 2, 6, 3) {
		case 12:
			// a dc-location allocator's window under the same root, ahead of this allocator's (only the global
			// allocator's loadTimestamp sees it: a local allocator's root is its own leader key)
			if w.bits == 0 {
				extWin += []int64{1e9, 10e9, 3600e9, 7200e9}[r.Intn(4)]
				w.run(t, fmt.Sprintf("extwin %d", clock(leader)+extWin))
			}
		case 11:
			// a request that has to retry (counter overflow, or memory not yet synchronised) while, during its
			// sleep, the updater advances the time / the allocator is synchronised / the lease runs out
			if r.Bool(1, 2) {
				w.run(t, fmt.Sprintf("resetmem %d", m))
			} else {
				w.run(t, fmt.Sprintf("getts %d %d", m, []int{131071, 200000, 262143}[r.Intn(3)]>>uint(w.bits)))
			}
			elapsed += 2e6
			hooks := [][]string{
				{fmt.Sprintf("update:%d:%d:none", m, clock(m))},
				{fmt.Sprintf("update:%d:%d:none", m, clock(m)), fmt.Sprintf("expire:%d", m)},
				{fmt.Sprintf("sync:%d:%d:none", m, clock(m))},
				{fmt.Sprintf("sync:%d:%d:none", m, clock(m)), fmt.Sprintf("expire:%d", m)},
				{fmt.Sprintf("expire:%d", m)},
				{fmt.Sprintf("resetmem:%d", m), fmt.Sprintf("sync:%d:%d:none", m, clock(m))},
				{fmt.Sprintf("update:%d:%d:before", m, clock(m))},
			}[r.Intn(7)]
			w.run(t, fmt.Sprintf("gettsx %d %d %d %s", m, counts[r.Intn(len(counts))], r.Range(1, 3), strings.Join(hooks, " ")))
		case 10:
			w.run(t, "dropkey")
			keyDropped = true
			// the owner keeps trying: SetTSO (retried) and the updater run into the failed comparison
			p, l, _ := tso.VerifView(w.mems[m].alloc)
			for k := 0; k < 2; k++ {
				w.run(t, fmt.Sprintf("setts %d %d %d none", m, p/1e6+int64(r.Range(3500, 20000)), l%262144))
			}
		case 0:
			w.run(t, fmt.Sprintf("getts %d %d", m, counts[r.Intn(len(counts))]))
		case 1:
			w.run(t, fmt.Sprintf("update %d %d %s", m, clock(m), faults[r.Intn(len(faults))]))
		case 2:
			if w.run(t, fmt.Sprintf("gupdate %d %d", m, clock(m))) == "parked" {
				parked[m] = true
			}
		case 3:
			w.run(t, fmt.Sprintf("sync %d %d %s", m, clock(m), faults[r.Intn(len(faults))]))
		case 4:
			if w.run(t, fmt.Sprintf("gsync %d %d", m, clock(m))) == "parked" {
				parked[m] = true
			}
		case 5:
			// SetTSO around the member's current time
			p, l, _ := tso.VerifView(w.mems[m].alloc)
			ms := p / 1e6
			var tms, tl int64
			switch r.Intn(8) {
			case 0:
				tms, tl = ms-1, l+5
			case 1:
				tms, tl = ms, l
			case 2:
				tms, tl = ms, l+1+int64(r.Intn(100))
			case 3:
				tms, tl = ms+1, 0
			case 4:
				tms, tl = ms+int64(r.Range(2, 5000)), int64(r.Intn(262144))
			case 5:
				tms, tl = ms+gap-1, 0
			case 6:
				tms, tl = ms+gap, 0
			default:
				tms, tl = ms+int64(r.Range(1, 36000000)), int64(r.Intn(100))
			}
			if tms < 1 {
				tms = 1
			}
			tl %= 262144
			verb := "setts"
			if r.Bool(1, 3) {
				verb = "writets" // the MaxTS path (WriteTSO / global synchronisation): resetUserTimestamp(ignoreSmaller)
			}
			w.run(t, fmt.Sprintf("%s %d %d %d %s", verb, m, tms, tl, settsFaults[r.Intn(len(settsFaults))]))
		case 6:
			nl := r.Range(1, k)
			if !parked[nl] {
				w.run(t, fmt.Sprintf("lead %d", nl))
				leader = nl
				keyDropped = false
				if r.Bool(4, 5) {
					w.run(t, fmt.Sprintf("sync %d %d none", nl, clock(nl)))
				}
			}
		case 7:
			w.run(t, fmt.Sprintf("expire %d", m))
		case 8:
			w.run(t, "resign")
		case 9:
			w.run(t, fmt.Sprintf("resetmem %d", m))
		}
	}
	for m := range parked {
		w.run(t, fmt.Sprintf("finish %d %s", m, faults[r.Intn(len(faults))]))
	}
	if r.Bool(1, 4) {
		// free-running concurrent requests against a concurrently running updater (monitor only; last op)
		w.run(t, fmt.Sprintf("sync %d %d none", leader, clock(leader)))
		w.run(t, fmt.Sprintf("cburst %d %d %d", leader, r.Range(2, 8), []int{1, 1, 3, 50, 2000}[r.Intn(5)]))
	} else if r.Bool(1, 6) {
		// the real pd client in front of this member's allocator; queued requests whose callers give up
		w.run(t, fmt.Sprintf("sync %d %d none", leader, clock(leader)))
		w.run(t, fmt.Sprintf("cburst %d %d 1 cancel", leader, r.Range(1, 3)))
	}
}

func main() {
	out := flag.String("out", "-", "trace file")
	replay := flag.String("replay", "", "ops file to replay instead of generating")
	n := flag.Int("n", 100, "number of generated sequences")
	maxOps := flag.Int("len", 60, "max ops per sequence")
	stream := flag.Uint64("stream", 0, "PRNG stream")
	flag.Parse()

	e := etcdh.Start()
	defer e.Stop()
	ctx, cancel := context.WithCancel(context.Background())
	defer cancel()
	w := &world{e: e, ctx: ctx, mems: map[int]*mem{}}
	monoclock.SelfCheck()
	tso.VerifClock = func() time.Time { return monoclock.At(atomic.LoadInt64(&w.now)) }
	tso.VerifSleep = func(time.Duration) {
		if h := w.sleepHook; h != nil {
			h()
		}
	}
	t := trace.Create(*out)
	defer t.Close()
	if *replay != "" {
		for _, op := range trace.ReadOps(*replay) {
			w.run(t, op)
		}
		w.reset(3000000000, 86400000, 0, 0)
		return
	}
	r := rng.FromEnv(*stream)
	// client-side batch distribution, fallback detector and 64-bit composition
	w.run(t, "reset 3000000000 86400000")
	for i := 0; i < 150; i++ {
		bits := r.Intn(5)
		count := []int{1, 1, 2, 3, 7, 64, 500}[r.Intn(7)]
		raw := count + r.Intn(1<<uint(17-bits))
		suffix := r.Intn(1 << uint(bits))
		w.run(t, fmt.Sprintf("csplit %d %d %d %d", baseNs/1e6+int64(r.Intn(1000)), raw<<uint(bits)+suffix, bits, count))
		a, b := r.Intn(4), r.Intn(4)
		w.run(t, fmt.Sprintf("tsle %d %d %d %d", a, r.Intn(3), b, r.Intn(3)))
		w.run(t, fmt.Sprintf("compose %d %d", baseNs/1e6+int64(r.Intn(1<<20)), r.Intn(1<<18)))
	}
	for s := 0; s < *n; s++ {
		gen(w, t, r, *maxOps)
	}
	w.reset(3000000000, 86400000, 0, 0)
}
