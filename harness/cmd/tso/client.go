package main

// The real pd client (request pool, dispatcher, batching, stream) in front of a member's real allocator: a
// minimal gRPC PD whose Tso handler is `Allocator.GenerateTSO`, with a gate in front of the answer so that
// requests can be held in the client's queue while their callers give up.

import (
	"context"
	"fmt"
	"io"
	"net"
	"strings"
	"sync"
	"sync/atomic"
	"time"

	"github.com/pingcap/kvproto/pkg/pdpb"
	pdclient "github.com/tikv/pd/client"
	"google.golang.org/grpc"
)

type mockPD struct {
	pdpb.PDServer // every other method is never called
	addr          string
	w             *world
	member        int

	mu   sync.Mutex
	gate chan struct{} // non-nil: Tso waits for it before asking the allocator
	got  chan struct{} // signalled when a Tso request arrives
}

func (s *mockPD) GetMembers(context.Context, *pdpb.GetMembersRequest) (*pdpb.GetMembersResponse, error) {
	m := &pdpb.Member{Name: "pd", MemberId: 1, ClientUrls: []string{s.addr}}
	return &pdpb.GetMembersResponse{Header: &pdpb.ResponseHeader{ClusterId: 42}, Members: []*pdpb.Member{m}, Leader: m}, nil
}

func (s *mockPD) Tso(stream pdpb.PD_TsoServer) error {
	for {
		req, err := stream.Recv()
		if err == io.EOF {
			return nil
		}
		if err != nil {
			return err
		}
		select {
		case s.got <- struct{}{}:
		default:
		}
		s.mu.Lock()
		gate := s.gate
		s.mu.Unlock()
		if gate != nil {
			select {
			case <-gate:
			case <-stream.Context().Done():
				return stream.Context().Err()
			}
		}
		ts, err := s.w.mems[s.member].alloc.GenerateTSO(req.GetCount())
		if err != nil {
			return err
		}
		ts.SuffixBits = uint32(s.w.bits)
		if err := stream.Send(&pdpb.TsoResponse{Header: &pdpb.ResponseHeader{ClusterId: 42}, Count: req.GetCount(), Timestamp: &ts}); err != nil {
			return err
		}
	}
}

func (s *mockPD) setGate(g chan struct{}) {
	s.mu.Lock()
	s.gate = g
	s.mu.Unlock()
}

// clientCancel: `rounds` times { the PD stalls; one request occupies the stream, a second one is queued and
// its caller's context is cancelled; more requests are issued; the PD resumes; everything is awaited; a few
// sequential requests follow }.  One caller goroutine.  Returns the grants as ms:lo:hi:start:finish.
func (w *world) clientCancel(member, rounds int) string {
	lis, err := net.Listen("tcp", "127.0.0.1:0")
	if err != nil {
		return "grants"
	}
	srv := &mockPD{addr: "http://" + lis.Addr().String(), w: w, member: member, got: make(chan struct{}, 1)}
	gs := grpc.NewServer()
	pdpb.RegisterPDServer(gs, srv)
	go gs.Serve(lis)
	defer gs.Stop()
	cli, err := pdclient.NewClient([]string{srv.addr}, pdclient.SecurityOption{})
	if err != nil {
		return "grants"
	}
	defer cli.Close()

	var ticks int64
	var res []string
	bg := context.Background()
	type fut struct {
		f     pdclient.TSFuture
		start int64
	}
	issue := func(ctx context.Context) fut {
		st := atomic.AddInt64(&ticks, 1)
		return fut{cli.GetTSAsync(ctx), st}
	}
	wait := func(f fut) {
		done := make(chan struct{})
		var p, l int64
		var err error
		go func() { p, l, err = f.f.Wait(); close(done) }()
		select {
		case <-done:
		case <-time.After(5 * time.Second):
			return // lost request: no grant observed
		}
		fin := atomic.AddInt64(&ticks, 1)
		if err != nil {
			return
		}
		raw := l >> uint(w.bits)
		res = append(res, fmt.Sprintf("%d:%d:%d:%d:%d", p, raw-1, raw, f.start, fin))
	}
	wait(issue(bg)) // the stream is up
	for r := 0; r < rounds; r++ {
		gate := make(chan struct{})
		srv.setGate(gate)
		select {
		case <-srv.got:
		default:
		}
		a := issue(bg)
		select {
		case <-srv.got: // A occupies the stream
		case <-time.After(3 * time.Second):
		}
		ctx, cancel := context.WithCancel(bg)
		b := issue(ctx) // queued behind A
		cancel()
		wait(b) // returns the context error: no grant
		more := []fut{issue(bg), issue(bg)}
		srv.setGate(nil)
		close(gate)
		wait(a)
		for _, f := range more {
			wait(f)
		}
		for k := 0; k < 4; k++ {
			wait(issue(bg))
		}
	}
	return "grants " + strings.Join(res, " ")
}
