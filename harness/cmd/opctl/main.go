// Command opctl drives the real schedule.OperatorController on a mock cluster with real heartbeat
// streams and a faithful store simulator, and writes the `<op> => <observation>` trace judged by
// the Lean model (property C09).
//
//	reset max=<n>
//	region r=<id> p=<peers> L=<store> cv=<n> v=<n>      simulated region, also put into PD's cache
//	mkop id=<n> d=<desc class> r=<id> cv=<n> v=<n> lvl=<0|1|2> kr=<0|1> km=<0|1> steps=<...>
//	add ids=<a,b>                                        AddOperator
//	addw ids=<a,b,..> rs=<..>                            AddWaitingOperator
//	promote rs=<..>                                      PromoteWaitingOperator
//	hb r=<id> rs=<..>                                    region heartbeat: cache the simulated region, Dispatch
//	push rs=<..>                                         PushOperators
//	rm id=<n>                                            RemoveOperator
//	expire id=<n> | timeout id=<n>                       make the operator old (SetOperatorStatusReachTime)
//	delregion r=<id>                                     the region disappears from PD's cache
//	race id=<n> kinds=<c|r|t|k,...>                       Start() an operator that was never offered, then one goroutine
//	                                                     per kind at once: Cancel / Replace / CheckTimeout (made old) /
//	                                                     CheckSuccess (operator without steps)
//	influence                                            GetOpInfluence (lazy CheckTimeout / CheckSuccess on running operators)
//	sleep ms=<n>                                         real time passes (notifier entries become due)
//	exec r=<id>                                          the store executes the last command it received
//	fadd r= p=<peer> | frm r= s= | flead r= s= | caught r= | frange r=     foreign events on the store
//
// rs = the values (in millionths) the next calls of rand.Float64 return (waiting-bucket choice).
package main

import (
	"context"
	"flag"
	"fmt"
	"math/rand"
	"reflect"
	"runtime"
	"sort"
	"strconv"
	"strings"
	"sync"
	"sync/atomic"
	"time"
	"unsafe"

	"github.com/pingcap/kvproto/pkg/metapb"
	"github.com/pingcap/kvproto/pkg/pdpb"
	"github.com/tikv/pd/server/core"
	"github.com/tikv/pd/server/schedule"
	"github.com/tikv/pd/server/schedule/hbstream"
	"github.com/tikv/pd/server/schedule/operator"

	"verifharness/internal/opsim"
	_ "verifharness/internal/quiet"
	"verifharness/internal/rng"
	"verifharness/internal/trace"
)

const nStores = 9
const sentinelRegion = 999999

type stream struct {
	mu   sync.Mutex
	msgs []*pdpb.RegionHeartbeatResponse
	sent chan struct{}
}

func (s *stream) Send(m *pdpb.RegionHeartbeatResponse) error {
	if m.GetRegionId() == sentinelRegion {
		s.sent <- struct{}{}
		return nil
	}
	if m.GetRegionId() == 0 {
		return nil // keep-alive
	}
	s.mu.Lock()
	s.msgs = append(s.msgs, m)
	s.mu.Unlock()
	return nil
}

type world struct {
	ctx     context.Context
	cancel  context.CancelFunc
	cl      *opsim.Cluster
	hbs     *hbstream.HeartbeatStreams
	st      *stream
	oc      *schedule.OperatorController
	sims    map[uint64]*opsim.Sim
	ops     map[uint64]*operator.Operator
	ids     map[*operator.Operator]uint64
	makers  map[uint64]func() *operator.Operator // builds a fresh copy of an operator as it was created
	opOrder []uint64
	lastMsg map[uint64]*pdpb.RegionHeartbeatResponse
	seedCtr int64
}

func atou(s string) uint64 { n, _ := strconv.ParseUint(s, 10, 64); return n }

func (w *world) reset(kv map[string]string) string {
	if w.cancel != nil {
		w.hbs.Close()
		w.cancel()
	}
	w.ctx, w.cancel = context.WithCancel(context.Background())
	var stores []opsim.StoreSpec
	for i := 1; i <= nStores; i++ {
		stores = append(stores, opsim.StoreSpec{ID: uint64(i), State: 'u', Flags: "-"})
	}
	w.cl = opsim.NewCluster(w.ctx, true, true, 0, stores)
	sc := w.cl.GetScheduleConfig().Clone()
	sc.SchedulerMaxWaitingOperator = atou(kv["max"])
	w.cl.SetScheduleConfig(sc)
	w.hbs = hbstream.NewHeartbeatStreams(w.ctx, w.cl.ID, w.cl)
	w.st = &stream{sent: make(chan struct{}, 16)}
	for i := 1; i <= nStores; i++ {
		w.hbs.BindStream(uint64(i), w.st)
		time.Sleep(200 * time.Microsecond) // streamCh has capacity 1; let the run loop take it
	}
	w.oc = schedule.NewOperatorController(w.ctx, w.cl, w.hbs)
	w.sims = map[uint64]*opsim.Sim{}
	w.ops = map[uint64]*operator.Operator{}
	w.ids = map[*operator.Operator]uint64{}
	w.makers = map[uint64]func() *operator.Operator{}
	w.opOrder = nil
	w.lastMsg = map[uint64]*pdpb.RegionHeartbeatResponse{}
	w.flush()
	return "ok"
}

// flush waits until every message sent so far has reached the stream (FIFO sentinel).
func (w *world) flush() []*pdpb.RegionHeartbeatResponse {
	sent := opsim.MakeRegion(sentinelRegion, 1, 1, []*metapb.Peer{{Id: 1, StoreId: 1}}, 1, nil, "", "")
	w.hbs.SendMsg(sent, &pdpb.RegionHeartbeatResponse{})
	select {
	case <-w.st.sent:
	case <-time.After(20 * time.Second):
		panic("heartbeat stream did not deliver the sentinel")
	}
	w.st.mu.Lock()
	m := w.st.msgs
	w.st.msgs = nil
	w.st.mu.Unlock()
	for _, x := range m {
		w.lastMsg[x.GetRegionId()] = x
	}
	return m
}

var statusNames = map[operator.OpStatus]string{
	operator.CREATED: "C", operator.STARTED: "S", operator.SUCCESS: "OK", operator.CANCELED: "X",
	operator.REPLACED: "R", operator.EXPIRED: "E", operator.TIMEOUT: "T",
}

// records reads the controller's remembered end statuses (unexported field `opRecords`, exported type and
// Get method): the record of a region whether or not an operator runs there now.
func (w *world) record(region uint64) *schedule.OperatorWithStatus {
	f := reflect.ValueOf(w.oc).Elem().FieldByName("opRecords")
	recs := (*schedule.OperatorRecords)(unsafe.Pointer(f.Pointer()))
	return recs.Get(region)
}

func curStep(op *operator.Operator) int64 {
	return reflect.ValueOf(op).Elem().FieldByName("currentStep").Int()
}

// digest of everything observable after an event
func (w *world) digest(res string) string {
	msgs := w.flush()
	ms := make([]string, len(msgs))
	for i, m := range msgs {
		ms[i] = opsim.MsgText(m)
	}
	run := w.oc.GetOperators()
	sort.Slice(run, func(i, j int) bool { return run[i].RegionID() < run[j].RegionID() })
	rs := make([]string, len(run))
	running := map[uint64]bool{}
	for i, op := range run {
		rs[i] = fmt.Sprintf("%d:%d:%d", op.RegionID(), w.ids[op], curStep(op))
		running[op.RegionID()] = true
	}
	sts := make([]string, len(w.opOrder))
	for i, id := range w.opOrder {
		sts[i] = fmt.Sprintf("%d:%s", id, statusNames[w.ops[id].Status()])
	}
	var regions []uint64
	seen := map[uint64]bool{}
	for _, id := range w.opOrder {
		r := w.ops[id].RegionID()
		if !seen[r] {
			seen[r] = true
			regions = append(regions, r)
		}
	}
	opsim.SortedU64(regions)
	var recs []string
	for _, r := range regions {
		if !running[r] {
			// what a client sees (GetOperatorStatus) must be the record
			if a, b := w.oc.GetOperatorStatus(r), w.record(r); (a == nil) != (b == nil) || (a != nil && a.Op != b.Op) {
				recs = append(recs, fmt.Sprintf("%d:status-query-differs-from-record", r))
				continue
			}
		}
		if rec := w.record(r); rec != nil {
			recs = append(recs, fmt.Sprintf("%d:%d:%s", r, w.ids[rec.Op], statusNames[rec.Op.Status()]))
		}
	}
	var wait []string
	for _, op := range w.oc.GetWaitingOperators() {
		wait = append(wait, fmt.Sprint(w.ids[op]))
	}
	j := func(a []string) string {
		if len(a) == 0 {
			return "-"
		}
		return strings.Join(a, ";")
	}
	return fmt.Sprintf("%s m=%s run=%s st=%s rec=%s w=%s", res, j(ms), j(rs), j(sts), j(recs), j(wait))
}

// boundaries of RandBuckets.GetOperator: partial sums of weights over totals of non-empty buckets
var bucketBoundaries = func() []float64 {
	var b []float64
	ws := []float64{1, 4, 9}
	for mask := 1; mask < 8; mask++ {
		total, sum := 0.0, 0.0
		for i, x := range ws {
			if mask&(1<<i) != 0 {
				total += x
			}
		}
		for i, x := range ws {
			if mask&(1<<i) != 0 {
				sum += x
				b = append(b, sum/total)
			}
		}
	}
	return b
}()

// seedRand fixes the next values of the global math/rand and returns `seed=<k> rs=<values in
// millionths>`; values too close to a bucket boundary are avoided so that the millionths decide the
// bucket.
func (w *world) seedRand(n int) (string, string) {
	for {
		w.seedCtr++
		rand.Seed(w.seedCtr)
		vals := make([]string, n)
		ok := true
		for i := 0; i < n; i++ {
			f := rand.Float64()
			for _, b := range bucketBoundaries {
				if f > b-2e-6 && f < b+2e-6 {
					ok = false
				}
			}
			vals[i] = strconv.Itoa(int(f * 1e6))
		}
		if ok {
			rand.Seed(w.seedCtr)
			return strconv.FormatInt(w.seedCtr, 10), strings.Join(vals, ",")
		}
	}
}

// forceRand re-seeds the global math/rand as recorded in the op line and checks the values (replay).
func (w *world) forceRand(seed, rs string) bool {
	k, err := strconv.ParseInt(seed, 10, 64)
	if err != nil {
		return false
	}
	rand.Seed(k)
	for _, x := range opsim.ParseIDs(rs, ",") {
		if uint64(rand.Float64()*1e6) != x {
			return false
		}
	}
	rand.Seed(k)
	return true
}

func (w *world) opsOf(s string) []*operator.Operator {
	var res []*operator.Operator
	for _, id := range opsim.ParseIDs(s, ",") {
		if op, ok := w.ops[id]; ok {
			res = append(res, op)
		} else {
			return nil
		}
	}
	return res
}

func (w *world) exec(opLine string, generating bool) (string, string) {
	f := strings.Fields(opLine)
	if len(f) == 0 {
		return opLine, "bad-op"
	}
	kv := opsim.KV(f[1:])
	if f[0] == "reset" {
		return opLine, w.reset(kv)
	}
	if w.oc == nil {
		return opLine, "bad-op"
	}
	// events that may consume random numbers carry rs=; when generating it is filled in here
	needRand := map[string]bool{"addw": true, "promote": true, "hb": true, "push": true}
	if needRand[f[0]] {
		if generating {
			// one value per operator that may be taken from the waiting queue, and some spare
			seed, rs := w.seedRand(len(w.oc.GetWaitingOperators()) + len(opsim.ParseIDs(kv["ids"], ",")) + 3)
			opLine = opLine + " seed=" + seed + " rs=" + rs
			kv["rs"] = rs
		} else if !w.forceRand(kv["seed"], kv["rs"]) {
			return opLine, "bad-op"
		}
	}
	r := atou(kv["r"])
	switch f[0] {
	case "region":
		peers, err := opsim.ParsePeers(kv["p"], ",")
		if err != nil {
			return opLine, "bad-op"
		}
		s := &opsim.Sim{ID: r, Peers: peers, Leader: atou(kv["L"]), ConfVer: atou(kv["cv"]), Version: atou(kv["v"])}
		w.sims[r] = s
		w.cl.PutRegion(s.Region())
		return opLine, "ok"
	case "mkop":
		id := atou(kv["id"])
		if _, dup := w.ops[id]; dup {
			return opLine, "bad-op"
		}
		from := &metapb.Region{Id: r}
		if s, ok := w.sims[r]; ok {
			from = s.Region().GetMeta()
		}
		var steps []operator.OpStep
		if kv["steps"] != "-" && kv["steps"] != "" {
			for _, st := range strings.Split(kv["steps"], ",") {
				step, err := opsim.ParseStep(st, from, from)
				if err != nil {
					return opLine, "bad-op"
				}
				steps = append(steps, step)
			}
		}
		var kind operator.OpKind
		if kv["kr"] == "1" {
			kind |= operator.OpRegion
		}
		if kv["km"] == "1" {
			kind |= operator.OpMerge
		}
		desc, cv, ver, lvl := "d"+kv["d"], atou(kv["cv"]), atou(kv["v"]), atou(kv["lvl"])
		mk := func() *operator.Operator {
			op := operator.NewOperator(desc, "verif", r, &metapb.RegionEpoch{ConfVer: cv, Version: ver}, kind, steps...)
			op.SetPriorityLevel(core.PriorityLevel(lvl))
			// the wall clock must not expire it behind our back
			operator.SetOperatorStatusReachTime(op, operator.CREATED, time.Now().Add(time.Hour))
			return op
		}
		op := mk()
		w.makers[id] = mk
		w.ops[id] = op
		w.ids[op] = id
		w.opOrder = append(w.opOrder, id)
		return opLine, "ok"
	case "add":
		ops := w.opsOf(kv["ids"])
		if len(ops) == 0 {
			return opLine, "bad-op"
		}
		ok := w.oc.AddOperator(ops...)
		w.keepYoung()
		return opLine, w.digest(fmt.Sprint(ok))
	case "addw":
		ops := w.opsOf(kv["ids"])
		if len(ops) == 0 {
			return opLine, "bad-op"
		}
		n := w.oc.AddWaitingOperator(ops...)
		w.keepYoung()
		return opLine, w.digest(fmt.Sprint(n))
	case "promote":
		w.oc.PromoteWaitingOperator()
		w.keepYoung()
		return opLine, w.digest("ok")
	case "hb":
		s, ok := w.sims[r]
		if !ok {
			return opLine, "bad-op"
		}
		region := s.Region()
		w.cl.PutRegion(region)
		w.oc.Dispatch(region, schedule.DispatchFromHeartBeat)
		w.keepYoung()
		return opLine, w.digest("ok")
	case "push":
		w.oc.PushOperators()
		w.keepYoung()
		return opLine, w.digest("ok")
	case "rm":
		op, ok := w.ops[atou(kv["id"])]
		if !ok {
			return opLine, "bad-op"
		}
		return opLine, w.digest(fmt.Sprint(w.oc.RemoveOperator(op)))
	case "expire", "timeout":
		op, ok := w.ops[atou(kv["id"])]
		if !ok {
			return opLine, "bad-op"
		}
		st := operator.CREATED
		if f[0] == "timeout" {
			st = operator.STARTED
			if op.Status() != operator.STARTED {
				return opLine, "ok" // the reach time of STARTED is overwritten when it starts
			}
		}
		operator.SetOperatorStatusReachTime(op, st, time.Now().Add(-24*time.Hour))
		return opLine, "ok"
	case "race":
		op, ok := w.ops[atou(kv["id"])]
		kinds := strings.Split(kv["kinds"], ",")
		if !ok || kv["kinds"] == "" || op.Status() != operator.CREATED {
			return opLine, "bad-op"
		}
		for _, x := range w.oc.GetWaitingOperators() {
			if x == op {
				return opLine, "bad-op"
			}
		}
		nT, nK := 0, 0
		for _, k := range kinds {
			switch k {
			case "t":
				nT++
			case "k":
				nK++
			case "c", "r":
			default:
				return opLine, "bad-op"
			}
		}
		if nT > 1 || nK > 1 || (nT > 0 && op.Len() == 0) || (nK > 0 && op.Len() != 0) {
			return opLine, "bad-op"
		}
		// the race is run on fresh copies of the operator (several trials: a lost race shows only now and
		// then); the first trial that is not "exactly one winner, remembered = final" is reported, otherwise
		// the last one.  The operator itself is then moved the way the reported winner moved its copy.
		var rep raceReport
		for trial := 0; trial < raceTrials; trial++ {
			rep = raceOp(w.makers[atou(kv["id"])](), kinds)
			if rep.wins != 1 || rep.rec != rep.final {
				break
			}
		}
		op.Start()
		operator.SetOperatorStatusReachTime(op, operator.STARTED, time.Now().Add(-24*time.Hour))
		switch rep.final {
		case "X":
			op.Cancel()
		case "R":
			op.Replace()
		case "T":
			op.CheckTimeout()
		case "OK":
			op.CheckSuccess()
		}
		return opLine, rep.String()
	case "influence":
		// GetOpInfluence runs CheckTimeout / CheckSuccess on every running operator (statuses turn lazily)
		w.oc.GetOpInfluence(w.cl)
		return opLine, w.digest("ok")
	case "sleep":
		// real time passes (a little more than the model is told, so that "due" is never a close call)
		time.Sleep(time.Duration(atou(kv["ms"])+100) * time.Millisecond)
		return opLine, "ok"
	case "delregion":
		if s, ok := w.sims[r]; ok {
			w.cl.RemoveRegion(s.Region())
			delete(w.sims, r)
		}
		return opLine, "ok"
	case "exec", "fadd", "frm", "flead", "caught", "frange":
		s, ok := w.sims[r]
		if !ok {
			return opLine, "bad-op"
		}
		switch f[0] {
		case "exec":
			if m := w.lastMsg[r]; m != nil {
				s.Exec(m)
			}
		case "fadd":
			p, err := opsim.ParsePeer(kv["p"])
			if err != nil {
				return opLine, "bad-op"
			}
			dup := false
			for _, q := range s.Peers {
				if q.GetStoreId() == p.GetStoreId() || q.GetId() == p.GetId() {
					dup = true
				}
			}
			if !dup {
				s.Peers = append(s.Peers, p)
				s.ConfVer++
			}
		case "frm":
			var ps []*metapb.Peer
			for _, q := range s.Peers {
				if q.GetStoreId() != atou(kv["s"]) {
					ps = append(ps, q)
				}
			}
			s.Peers = ps
			s.ConfVer++
		case "flead":
			s.Leader = atou(kv["s"])
		case "caught":
			s.Pending = nil
		case "frange":
			s.Range++
			s.Version++
		}
		return opLine, "sim " + s.Text()
	}
	return opLine, "bad-op"
}

// raceOp starts the operator, makes it old, and lets one goroutine per kind attempt its end transition at the
// same moment.  Report: how many said they succeeded, which kind (the first in kind order that succeeded), the
// final status, and the statuses the winners saw right after their success (what buryOperator would remember).
const raceTrials = 10

type raceReport struct {
	wins               int
	winner, final, rec string
}

func (r raceReport) String() string {
	return fmt.Sprintf("wins=%d winner=%s final=%s rec=%s", r.wins, r.winner, r.final, r.rec)
}

func raceOp(op *operator.Operator, kinds []string) raceReport {
	op.Start()
	operator.SetOperatorStatusReachTime(op, operator.STARTED, time.Now().Add(-24*time.Hour))
	var start, arrived int32 // spin barrier: the goroutines leave it within nanoseconds of each other
	type res struct {
		kind string
		ok   bool
		seen operator.OpStatus
	}
	out := make([]res, len(kinds))
	var wg, ready sync.WaitGroup
	for i, k := range kinds {
		wg.Add(1)
		ready.Add(1)
		go func(i int, k string) {
			defer wg.Done()
			ready.Done()
			atomic.AddInt32(&arrived, 1)
			for atomic.LoadInt32(&start) == 0 {
				runtime.Gosched()
			}
			var ok bool
			switch k {
			case "c":
				ok = op.Cancel()
			case "r":
				ok = op.Replace()
			case "t":
				ok = op.CheckTimeout()
			case "k":
				ok = op.CheckSuccess()
			}
			out[i] = res{k, ok, op.Status()}
		}(i, k)
	}
	ready.Wait()
	// wait until as many goroutines as there are processors spin at the barrier (the others queue behind them)
	want := int32(runtime.GOMAXPROCS(0) - 1)
	if want > int32(len(kinds)) {
		want = int32(len(kinds))
	}
	for spins := 0; atomic.LoadInt32(&arrived) < want && spins < 1000000; spins++ {
		runtime.Gosched()
	}
	atomic.StoreInt32(&start, 1)
	wg.Wait()
	wins, winner := 0, "-"
	seen := map[string]bool{}
	for _, r := range out {
		if r.ok {
			wins++
			if winner == "-" {
				winner = r.kind
			}
			seen[statusNames[r.seen]] = true
		}
	}
	final := statusNames[op.Status()]
	// report the winner whose transition is the final status first (it is the one the model replays)
	for _, r := range out {
		if r.ok && statusNames[map[string]operator.OpStatus{"c": operator.CANCELED, "r": operator.REPLACED,
			"t": operator.TIMEOUT, "k": operator.SUCCESS}[r.kind]] == final {
			winner = r.kind
			break
		}
	}
	var recs []string
	for s := range seen {
		recs = append(recs, s)
	}
	sort.Strings(recs)
	rec := "-"
	if len(recs) > 0 {
		rec = strings.Join(recs, "+")
	}
	return raceReport{wins, winner, final, rec}
}

// keepYoung pushes the STARTED reach time of every running operator into the future so that the
// wall clock never times an operator out; `timeout id=` is the only way to make one old.
func (w *world) keepYoung() {
	for _, op := range w.oc.GetOperators() {
		if op.Status() == operator.STARTED && time.Until(op.GetStartTime()) < time.Minute &&
			time.Since(op.GetStartTime()) < time.Hour {
			operator.SetOperatorStatusReachTime(op, operator.STARTED, time.Now().Add(time.Hour))
		}
	}
}

func (w *world) run(t *trace.W, op string, generating bool) string {
	line, obs := w.exec(op, generating)
	t.Line(line, obs)
	return obs
}

// ---------------------------------------------------------------------------------------------
// generator

type genRegion struct {
	id     uint64
	stores []uint64
}

func peersStr(ps []*metapb.Peer) string { return opsim.PeersText(ps, ",") }

// stepsFromBuilder asks the real builder for an operator on the simulated region.
func (w *world) stepsFromBuilder(r *rng.R, s *opsim.Sim, joint bool) (string, bool) {
	return w.stepsFromBuilderOn(r, s, r.Bool(3, 4), joint, false)
}

// stepsFromBuilderOn: support = the cluster supports joint consensus (demotion in place allowed),
// joint = the option is on; inPlace favours targets that change roles on the stores the region already
// uses (voter -> learner on the same store, which without joint-consensus support becomes
// RemovePeer + AddLearner on one store).
func (w *world) stepsFromBuilderOn(r *rng.R, s *opsim.Sim, support, joint, inPlace bool) (string, bool) {
	cl := opsim.NewCluster(w.ctx, support, joint, 0, func() []opsim.StoreSpec {
		var st []opsim.StoreSpec
		for i := 1; i <= nStores; i++ {
			st = append(st, opsim.StoreSpec{ID: uint64(i), State: 'u', Flags: "-"})
		}
		return st
	}())
	cl.Nid = 1000 + uint64(r.Intn(100000))*10
	region := s.Region()
	target := map[uint64]*metapb.Peer{}
	for _, p := range s.Peers {
		keep, flip := 3, 4
		if inPlace {
			keep, flip = 7, 2
		}
		if r.Bool(keep, keep+1) {
			role := metapb.PeerRole_Voter
			if r.Bool(1, flip) {
				role = metapb.PeerRole_Learner
			}
			target[p.GetStoreId()] = &metapb.Peer{StoreId: p.GetStoreId(), Role: role}
		}
	}
	for i, n := 0, r.Range(0, 2); i < n; i++ {
		st := uint64(r.Range(1, nStores))
		role := metapb.PeerRole_Voter
		if r.Bool(1, 4) {
			role = metapb.PeerRole_Learner
		}
		target[st] = &metapb.Peer{StoreId: st, Role: role}
	}
	b := operator.NewBuilder("verif", cl, region).SetPeers(target)
	if r.Bool(1, 3) {
		var voters []uint64
		for st, p := range target {
			if p.GetRole() == metapb.PeerRole_Voter {
				voters = append(voters, st)
			}
		}
		if len(voters) > 0 {
			opsim.SortedU64(voters)
			b.SetLeader(voters[r.Intn(len(voters))])
		}
	}
	op, err := b.Build(0)
	if err != nil {
		return "", false
	}
	return opsim.StepsText(op, nil), op.Kind()&operator.OpRegion != 0
}

func handSteps(r *rng.R, s *opsim.Sim) string {
	if len(s.Peers) == 0 {
		return "split"
	}
	var steps []string
	for i, n := 0, r.Range(1, 3); i < n; i++ {
		st := uint64(r.Range(1, nStores))
		var on []uint64
		for _, p := range s.Peers {
			on = append(on, p.GetStoreId())
		}
		pick := func() *metapb.Peer { return s.Peers[r.Intn(len(s.Peers))] }
		switch r.Pick(3, 2, 2, 2, 2, 2, 1, 1, 1, 1) {
		case 0:
			steps = append(steps, fmt.Sprintf("tl:%d>%d", s.Leader, pick().GetStoreId()))
		case 1:
			steps = append(steps, fmt.Sprintf("al:%d#%d", st, 500+st))
		case 2:
			steps = append(steps, fmt.Sprintf("ap:%d#%d", st, 500+st))
		case 3:
			p := pick()
			steps = append(steps, fmt.Sprintf("rm:%d#%d", p.GetStoreId(), p.GetId()))
		case 4:
			p := pick()
			steps = append(steps, fmt.Sprintf("pl:%d#%d", p.GetStoreId(), p.GetId()))
		case 5:
			p := pick()
			steps = append(steps, fmt.Sprintf("df:%d#%d", p.GetStoreId(), p.GetId()))
		case 6:
			steps = append(steps, fmt.Sprintf("alp:%d#%d", st, 500+st))
		case 7:
			steps = append(steps, fmt.Sprintf("all:%d#%d", st, 500+st))
		case 8:
			steps = append(steps, "split")
		case 9:
			p, q := pick(), pick()
			steps = append(steps, fmt.Sprintf("en:%d#%d/%d#%d", p.GetStoreId(), p.GetId(), q.GetStoreId(), q.GetId()),
				fmt.Sprintf("lv:%d#%d/%d#%d", p.GetStoreId(), p.GetId(), q.GetStoreId(), q.GetId()))
		}
	}
	return strings.Join(steps, ",")
}

// gen produces one event sequence. faithful = the region only changes through exec (own steps);
// otherwise foreign events are mixed in.
func gen(w *world, t *trace.W, r *rng.R, events int, faithful bool, sleeps int) {
	w.run(t, fmt.Sprintf("reset max=%d", []int{5, 5, 5, 1, 2}[r.Intn(5)]), true)
	nRegions := r.Range(1, 4)
	for i := 1; i <= nRegions; i++ {
		n := r.Range(1, 4)
		perm := make([]int, nStores)
		for k := range perm {
			perm[k] = k + 1
		}
		for k := nStores - 1; k > 0; k-- {
			j := r.Intn(k + 1)
			perm[k], perm[j] = perm[j], perm[k]
		}
		var ps []string
		for k := 0; k < n; k++ {
			role := "v"
			if k > 0 && r.Bool(1, 4) {
				role = "l"
			}
			ps = append(ps, fmt.Sprintf("%d%s%d", perm[k], role, 100*i+perm[k]))
		}
		w.run(t, fmt.Sprintf("region r=%d p=%s L=%d cv=%d v=%d", i, strings.Join(ps, ","), perm[0], r.Range(1, 9), r.Range(1, 9)), true)
	}
	nextID := uint64(1)
	var opIDs []uint64
	anyRegion := func() uint64 { return uint64(r.Range(1, nRegions)) }
	anyOp := func() uint64 {
		if len(opIDs) == 0 {
			return 1
		}
		return opIDs[r.Intn(len(opIDs))]
	}
	mk := func(region uint64, merge bool, lvl int) uint64 {
		s := w.sims[region]
		if s == nil {
			return 0
		}
		id := nextID
		nextID++
		steps, kr := "", false
		switch {
		case merge:
			steps = "mg:" + []string{"0", "1"}[r.Intn(2)]
		case r.Bool(3, 5):
			st, k := w.stepsFromBuilder(r, s, r.Bool(2, 3))
			if st == "" {
				st = handSteps(r, s)
			}
			steps, kr = st, k
		default:
			steps = handSteps(r, s)
			kr = strings.Contains(steps, "a") || strings.Contains(steps, "rm")
		}
		cv, v := s.ConfVer, s.Version
		if !faithful && r.Bool(1, 10) {
			cv += uint64(r.Range(0, 1))
			v += uint64(r.Range(0, 1))
		}
		if r.Bool(1, 25) {
			cv-- // stale epoch
		}
		if lvl < 0 {
			lvl = []int{1, 1, 1, 0, 2}[r.Intn(5)]
		}
		w.run(t, fmt.Sprintf("mkop id=%d d=%d r=%d cv=%d v=%d lvl=%d kr=%d km=%d steps=%s", id, r.Intn(3), region, cv, v,
			lvl, map[bool]int{false: 0, true: 1}[kr], map[bool]int{false: 0, true: 1}[merge], steps), true)
		opIDs = append(opIDs, id)
		return id
	}
	raceOne := func() {
		region := anyRegion()
		if w.sims[region] == nil {
			return
		}
		id := nextID
		nextID++
		steps, pool := "-", []string{"c", "r", "c", "r", "k"}
		if r.Bool(1, 2) {
			steps, pool = "rm:99#99,split", []string{"c", "r", "c", "r", "t"}
		}
		w.run(t, fmt.Sprintf("mkop id=%d d=0 r=%d cv=1 v=1 lvl=1 kr=0 km=0 steps=%s", id, region, steps), true)
		opIDs = append(opIDs, id)
		n := r.Range(2, 6)
		perm := []int{0, 1, 2, 3, 4}
		for k := 4; k > 0; k-- {
			j := r.Intn(k + 1)
			perm[k], perm[j] = perm[j], perm[k]
		}
		var kinds []string
		for k := 0; k < n && k < 5; k++ {
			kinds = append(kinds, pool[perm[k]])
		}
		if n == 6 {
			kinds = append(kinds, "c")
		}
		w.run(t, fmt.Sprintf("race id=%d kinds=%s", id, strings.Join(kinds, ",")), true)
	}
	// an operator ends lazily while still registered (already satisfied at admission, or made old and touched by
	// GetOpInfluence), then a higher-priority operator is admitted for the same region before the next dispatch
	lazyThenHigher := func() {
		region := anyRegion()
		s := w.sims[region]
		if s == nil || len(s.Peers) == 0 {
			return
		}
		w.run(t, fmt.Sprintf("hb r=%d", region), true) // PD's cache = the store's state
		a := nextID
		nextID++
		if r.Bool(1, 2) {
			w.run(t, fmt.Sprintf("mkop id=%d d=0 r=%d cv=%d v=%d lvl=%d kr=0 km=0 steps=tl:%d>%d", a, region, s.ConfVer, s.Version,
				r.Range(0, 1), s.Leader, s.Leader), true)
			opIDs = append(opIDs, a)
			w.run(t, fmt.Sprintf("add ids=%d", a), true)
		} else {
			w.run(t, fmt.Sprintf("mkop id=%d d=0 r=%d cv=%d v=%d lvl=%d kr=1 km=0 steps=al:%d#%d", a, region, s.ConfVer, s.Version,
				r.Range(0, 1), 9, 700+a), true)
			opIDs = append(opIDs, a)
			w.run(t, fmt.Sprintf("add ids=%d", a), true)
			w.run(t, fmt.Sprintf("timeout id=%d", a), true)
			w.run(t, "influence", true)
		}
		b := nextID
		nextID++
		w.run(t, fmt.Sprintf("mkop id=%d d=1 r=%d cv=%d v=%d lvl=2 kr=0 km=0 steps=%s", b, region, s.ConfVer, s.Version,
			handSteps(r, s)), true)
		opIDs = append(opIDs, b)
		w.run(t, fmt.Sprintf("add ids=%d", b), true)
	}
	for e := 0; e < events; e++ {
		if e%12 == 3 {
			raceOne()
		}
		if e%25 == 9 {
			lazyThenHigher()
		}
		if e%17 == 5 {
			w.run(t, "influence", true)
		}
		if sleeps > 0 && e > 5 && e%(events/(sleeps+1)+1) == 0 {
			w.run(t, "sleep ms=2000", true)
			w.run(t, "push", true)
		}
		weights := []int{14, 8, 3, 22, 20, 4, 3, 2, 2, 1, 6, 3, 3, 3, 2}
		if faithful {
			weights = []int{14, 8, 3, 24, 26, 4, 2, 1, 1, 0, 0, 0, 0, 3, 0}
		}
		switch r.Pick(weights...) {
		case 0: // make + add
			if r.Bool(1, 8) && nRegions >= 2 {
				a, b := anyRegion(), anyRegion()
				if a != b {
					lvl := []int{1, 1, 0, 2}[r.Intn(4)] // both operators of a merge have the same priority
					x, y := mk(a, true, lvl), mk(b, true, lvl)
					w.run(t, fmt.Sprintf("add ids=%d,%d", x, y), true)
					continue
				}
			}
			id := mk(anyRegion(), false, -1)
			w.run(t, fmt.Sprintf("add ids=%d", id), true)
		case 1: // make + add waiting (1-3 operators, sometimes a merge pair)
			var ids []string
			for k, n := 0, r.Range(1, 3); k < n; k++ {
				if r.Bool(1, 6) && nRegions >= 2 {
					a, b := anyRegion(), anyRegion()
					if a != b {
						lvl := []int{1, 1, 0, 2}[r.Intn(4)]
						x, y := mk(a, true, lvl), mk(b, true, lvl)
						if x != 0 && y != 0 {
							ids = append(ids, fmt.Sprint(x), fmt.Sprint(y))
						}
						continue
					}
				}
				if x := mk(anyRegion(), false, -1); x != 0 {
					ids = append(ids, fmt.Sprint(x))
				}
			}
			if len(ids) > 0 {
				w.run(t, "addw ids="+strings.Join(ids, ","), true)
			}
		case 2:
			w.run(t, "promote", true)
		case 3:
			w.run(t, fmt.Sprintf("exec r=%d", anyRegion()), true)
		case 4:
			w.run(t, fmt.Sprintf("hb r=%d", anyRegion()), true)
		case 5:
			w.run(t, "push", true)
		case 6:
			w.run(t, fmt.Sprintf("rm id=%d", anyOp()), true)
		case 7:
			w.run(t, fmt.Sprintf("expire id=%d", anyOp()), true)
		case 8:
			w.run(t, fmt.Sprintf("timeout id=%d", anyOp()), true)
		case 9:
			w.run(t, fmt.Sprintf("delregion r=%d", anyRegion()), true)
		case 10:
			reg := anyRegion()
			st := r.Range(1, nStores)
			w.run(t, fmt.Sprintf("fadd r=%d p=%d%s%d", reg, st, []string{"v", "l"}[r.Intn(2)], 900+st), true)
		case 11:
			w.run(t, fmt.Sprintf("frm r=%d s=%d", anyRegion(), r.Range(1, nStores)), true)
		case 12:
			w.run(t, fmt.Sprintf("flead r=%d s=%d", anyRegion(), r.Range(1, nStores)), true)
		case 13:
			w.run(t, fmt.Sprintf("caught r=%d", anyRegion()), true)
		case 14:
			w.run(t, fmt.Sprintf("frange r=%d", anyRegion()), true)
		}
	}
}

// walk produces a sequence in which builder-made operators are executed faithfully, step by step:
// after every execution by the store there is a heartbeat while the new peer is still pending, then the
// peer catches up and there is another heartbeat.  Nothing else touches the region, so an operator
// must never be cancelled here.  All feature levels: joint consensus on / off / unsupported (the last
// one yields RemovePeer + AddLearner on one store for a voter -> learner change).
func walk(w *world, t *trace.W, r *rng.R, walks int) {
	w.run(t, "reset max=5", true)
	n := r.Range(2, 4)
	perm := make([]int, nStores)
	for k := range perm {
		perm[k] = k + 1
	}
	for k := nStores - 1; k > 0; k-- {
		j := r.Intn(k + 1)
		perm[k], perm[j] = perm[j], perm[k]
	}
	var ps []string
	for k := 0; k < n; k++ {
		role := "v"
		if k > 1 && r.Bool(1, 4) {
			role = "l"
		}
		ps = append(ps, fmt.Sprintf("%d%s%d", perm[k], role, 100+perm[k]))
	}
	w.run(t, fmt.Sprintf("region r=1 p=%s L=%d cv=%d v=%d", strings.Join(ps, ","), perm[0], r.Range(1, 9), r.Range(1, 9)), true)
	id := uint64(0)
	for k := 0; k < walks; k++ {
		s := w.sims[1]
		if s == nil || len(s.Peers) == 0 {
			return
		}
		support := r.Bool(1, 2)
		steps, kr := w.stepsFromBuilderOn(r, s, support, support && r.Bool(1, 2), r.Bool(2, 3))
		if steps == "" {
			continue
		}
		id++
		w.run(t, fmt.Sprintf("mkop id=%d d=0 r=1 cv=%d v=%d lvl=1 kr=%d km=0 steps=%s", id, s.ConfVer, s.Version,
			map[bool]int{false: 0, true: 1}[kr], steps), true)
		w.run(t, fmt.Sprintf("add ids=%d", id), true)
		for round, rounds := 0, strings.Count(steps, ",")+3; round < rounds; round++ {
			w.run(t, "exec r=1", true)
			if r.Bool(3, 4) {
				w.run(t, "hb r=1", true) // the new peer may still be pending
			}
			w.run(t, "caught r=1", true)
			obs := w.run(t, "hb r=1", true)
			if !strings.Contains(obs, fmt.Sprintf(" run=1:%d:", id)) {
				break // finished (or, with a defect, cancelled)
			}
		}
	}
}

func main() {
	out := flag.String("out", "-", "trace file")
	replay := flag.String("replay", "", "ops file to replay instead of generating")
	n := flag.Int("n", 60, "number of generated sequences")
	events := flag.Int("len", 100, "events per sequence")
	stream := flag.Uint64("stream", 0, "PRNG stream")
	sleepSeqs := flag.Int("sleepseqs", 0, "number of sequences with real sleeps (2.1 s each, 3 per sequence)")
	flag.Parse()

	w := &world{}
	t := trace.Create(*out)
	defer t.Close()
	if *replay != "" {
		for _, op := range trace.ReadOps(*replay) {
			w.run(t, op, false)
		}
		return
	}
	r := rng.FromEnv(*stream)
	for s := 0; s < *n; s++ {
		sl := 0
		if s < *sleepSeqs {
			sl = 3
		}
		if s%4 == 3 {
			walk(w, t, r, r.Range(2, 4))
			continue
		}
		gen(w, t, r, r.Range(20, *events), s%3 != 2, sl)
	}
}
