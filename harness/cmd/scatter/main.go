// Command scatter drives the real RegionScatterer and the real schedulers on mockcluster and
// writes the `<op> => <observation>` trace judged by the Lean model and the C11 monitor.
//
//	scatter <region> <group> seed=<n> [want=<orders>]  => stores=… guard=… order=…/… lorder=… | <result>
//	put <group> <leader store> <stores +>              => ok   (RegionScatterer.Put: an earlier decision)
//	scatter2 <regX> <groupX> <regY> <groupY> seed=<n>  => <Y observation> ;; <X observation>   (X parked
//	                                                      inside selectCandidates while Y runs completely)
//	counters                                           => the scatterer's history counters
//	sched <type> [<store>]                             => <ops proposed by Schedule, `;;`-separated> | none
//
// Go map iteration order inside scatterRegion is observed through a recording cluster wrapper (the
// calls to GetStore reveal it) and reported; on replay the harness restores the counters and retries
// until the recorded order (`want=`) shows up again.
package main

import (
	"context"
	"flag"
	"fmt"
	"sort"
	"strconv"
	"strings"
	"time"

	"github.com/pingcap/kvproto/pkg/metapb"
	"github.com/tikv/pd/pkg/mock/mockcluster"
	"github.com/tikv/pd/server/core"
	"github.com/tikv/pd/server/kv"
	"github.com/tikv/pd/server/schedule"
	"github.com/tikv/pd/server/schedule/filter"
	"github.com/tikv/pd/server/schedule/operator"
	"github.com/tikv/pd/server/schedule/opt"
	"github.com/tikv/pd/server/schedulers"
	"github.com/tikv/pd/server/statistics"
	"github.com/tikv/pd/server/versioninfo"

	"verifharness/internal/pdcluster"
	_ "verifharness/internal/quiet"
	"verifharness/internal/rng"
	"verifharness/internal/trace"
)

// recCluster records the calls scatterRegion makes, and fixes the order of GetStores.
type recCluster struct {
	*mockcluster.Cluster
	log   []string // "G<id>", "S", "F"
	order []uint64 // store order returned by GetStores
	rec   bool
	// gate: the next GetStores call parks its goroutine (selectCandidates calls GetStores right after it
	// has built the filter list of the peer it is placing) until `release` is closed
	armed   bool
	parked  chan struct{}
	release chan struct{}
}

func (c *recCluster) GetStore(id uint64) *core.StoreInfo {
	if c.rec {
		c.log = append(c.log, fmt.Sprintf("G%d", id))
	}
	return c.Cluster.GetStore(id)
}

func (c *recCluster) GetStores() []*core.StoreInfo {
	if c.rec {
		c.log = append(c.log, "S")
	}
	if c.armed {
		c.armed = false
		close(c.parked)
		<-c.release
	}
	if len(c.order) == 0 {
		return c.Cluster.GetStores()
	}
	var out []*core.StoreInfo
	for _, id := range c.order {
		if s := c.Cluster.GetStore(id); s != nil {
			out = append(out, s)
		}
	}
	return out
}

func (c *recCluster) IsFeatureSupported(f versioninfo.Feature) bool {
	if c.rec {
		c.log = append(c.log, "F")
	}
	return c.Cluster.IsFeatureSupported(f)
}

var _ opt.Cluster = &recCluster{}

type world struct {
	flows     []string // `flow <region> <w|r> <KiB/s>` and `sflow <store> <w KiB/s> <r KiB/s>` lines
	sp        *pdcluster.Spec
	rc        *recCluster
	scatterer *schedule.RegionScatterer
	cancel    context.CancelFunc
	cw        *pdcluster.World
	noRebuild bool // the next prep keeps the cluster objects (op scatteraged)
}

func (w *world) reset() {
	if w.cancel != nil {
		w.cancel()
	}
	if w.cw != nil {
		w.cw.Close()
		w.cw = nil
	}
	w.sp = pdcluster.NewSpec()
	w.flows = nil
	ctx, cancel := context.WithCancel(context.Background())
	w.cancel = cancel
	w.rc = &recCluster{}
	w.scatterer = schedule.NewRegionScatterer(ctx, w.rc)
}

// rebuild swaps a freshly built cluster (fresh heartbeats) under the wrapper.
func (w *world) rebuild() error {
	if w.cw != nil {
		w.cw.Close()
		w.cw = nil
	}
	cw, err := w.sp.Build()
	if err != nil {
		return err
	}
	w.cw = cw
	w.rc.Cluster = cw.Cluster
	return nil
}

func joinU(xs []uint64) string {
	if len(xs) == 0 {
		return "-"
	}
	s := make([]string, len(xs))
	for i, x := range xs {
		s[i] = fmt.Sprint(x)
	}
	return strings.Join(s, "+")
}

// parseLog extracts the peer iteration orders (as source store ids) of the ordinary and the special
// phase and the leader-candidate iteration order from the recorded calls.
func parseLog(log []string, nPeers int) (ord, special, lorder []uint64, ok bool) {
	// cut at the builder's first call
	end := len(log)
	for i, e := range log {
		if e == "F" {
			end = i
			break
		}
	}
	log = log[:end]
	if len(log) < nPeers {
		return nil, nil, nil, false
	}
	log = log[nPeers:] // phase A: GetStore per peer in region order
	id := func(e string) uint64 { n, _ := strconv.ParseUint(e[1:], 10, 64); return n }
	i := 0
	group := func() bool {
		return i+2 < len(log) && log[i][0] == 'G' && log[i+1] == "S" && log[i+2] == "S"
	}
	for group() {
		ord = append(ord, id(log[i]))
		i += 3
	}
	for i < len(log) && log[i][0] == 'G' && !group() {
		lorder = append(lorder, id(log[i]))
		i++
	}
	for group() {
		special = append(special, id(log[i]))
		i += 3
	}
	return ord, special, lorder, i == len(log)
}

// fmtResult renders what Scatter returned together with the iteration orders found in the call log.
func fmtResult(op *operator.Operator, err error, log []string, nPeers int) (orders string, res string) {
	if err != nil {
		msg := err.Error()
		switch {
		case strings.Contains(msg, "not fully replicated"):
			return "", "err:not-replicated"
		case strings.Contains(msg, "no leader"):
			return "", "err:no-leader"
		case strings.Contains(msg, "is hot"):
			return "", "err:hot"
		}
		return "", "err:" + strings.ReplaceAll(msg, " ", "_")
	}
	ord, special, lorder, ok := parseLog(log, nPeers)
	if !ok {
		return "order=?", pdcluster.FormatOp(op)
	}
	return fmt.Sprintf("order=%s/%s lorder=%s", joinU(ord), joinU(special), joinU(lorder)), pdcluster.FormatOp(op)
}

func (w *world) scatterOnce(region *core.RegionInfo, group string) (orders string, res string) {
	w.rc.log = nil
	w.rc.rec = true
	op, err := w.scatterer.Scatter(region, group)
	w.rc.rec = false
	return fmtResult(op, err, w.rc.log, len(region.GetPeers()))
}

// prep rebuilds the cluster and computes the inputs of one scatter call: the region, the store order served
// by GetStores and the placement safeguard verdicts; errObs != "" when the call cannot be made.
func (w *world) prep(rid uint64, seed uint64) (region *core.RegionInfo, ids []uint64, gs string, errObs string) {
	if w.noRebuild && w.cw != nil {
		// `scatteraged`: the very same StoreInfo objects as in the call before, only older
	} else if err := w.rebuild(); err != nil {
		return nil, nil, "", "err:" + strings.ReplaceAll(err.Error(), " ", "_")
	}
	region = w.cw.Regions[rid]
	if region == nil {
		return nil, nil, "", "no-region"
	}
	for _, p := range region.GetPeers() {
		if w.rc.Cluster.GetStore(p.GetStoreId()) == nil {
			return nil, nil, "", "unknown-store" // scatterRegion dereferences the store record: not exercised
		}
	}
	// store order of this call
	stores := w.rc.Cluster.GetStores()
	ids = make([]uint64, 0, len(stores))
	for _, s := range stores {
		ids = append(ids, s.GetID())
	}
	sort.Slice(ids, func(i, j int) bool { return ids[i] < ids[j] })
	r := rng.New(seed*0x9E3779B97F4A7C15 + 12345)
	for i := len(ids) - 1; i > 0; i-- {
		j := r.Intn(i + 1)
		ids[i], ids[j] = ids[j], ids[i]
	}
	// the placement safeguard verdicts (an input of the model when placement rules are on)
	var guard []string
	for _, p := range region.GetPeers() {
		src := w.rc.Cluster.GetStore(p.GetStoreId())
		f := filter.NewPlacementSafeguard("verif", w.rc, region, src)
		var ok []uint64
		for _, s := range stores {
			if f.Target(w.rc.GetOpts(), s) {
				ok = append(ok, s.GetID())
			}
		}
		sort.Slice(ok, func(i, j int) bool { return ok[i] < ok[j] })
		guard = append(guard, fmt.Sprintf("%d:%s", p.GetStoreId(), joinU(ok)))
	}
	gs = "-"
	if len(guard) > 0 {
		gs = strings.Join(guard, ";")
	}
	return region, ids, gs, ""
}

func fmtObs(ids []uint64, gs, orders, res string) string {
	pre := fmt.Sprintf("stores=%s guard=%s", joinU(ids), gs)
	if orders != "" {
		pre += " " + orders
	}
	return pre + " | " + res
}

func (w *world) scatter(rid uint64, group string, seed uint64, want string) (obs string, observed string) {
	region, ids, gs, e := w.prep(rid, seed)
	if e != "" {
		return e, ""
	}
	w.rc.order = ids
	defer func() { w.rc.order = nil }()
	snapshot := w.scatterer.VerifScatterCounters()
	var orders, res string
	for try := 0; try < 400; try++ {
		orders, res = w.scatterOnce(region, group)
		if want == "" || orders == "" || strings.ReplaceAll(orders, " ", ",") == want {
			break
		}
		if try < 399 {
			w.scatterer.VerifScatterRestore(snapshot)
		}
	}
	return fmtObs(ids, gs, orders, res), strings.ReplaceAll(orders, " ", ",")
}

// scatter2 overlaps two requests on the one RegionScatterer, as the unlocked gRPC / HTTP handlers can:
// request X is started on its own goroutine and parked inside selectCandidates of the first peer it places
// (at the GetStores call that follows the construction of the filter list), request Y then runs from start to
// end, then X is released.  On the pinned code this is the same as Y followed by X (nothing X did before
// the gate depends on the counters); the observation is `<Y> ;; <X>`.
func (w *world) scatter2(ridX uint64, groupX string, seedX uint64, ridY uint64, groupY string, seedY uint64) string {
	regionX, idsX, gsX, e := w.prep(ridX, seedX)
	if e != "" {
		y, _ := w.scatter(ridY, groupY, seedY, "")
		return y + " ;; " + e
	}
	type result struct {
		op  *operator.Operator
		err error
	}
	done := make(chan result, 1)
	w.rc.order = idsX
	w.rc.log = nil
	w.rc.rec = true
	w.rc.parked = make(chan struct{})
	w.rc.release = make(chan struct{})
	w.rc.armed = true
	go func() {
		op, err := w.scatterer.Scatter(regionX, groupX)
		done <- result{op, err}
	}()
	var rx result
	finished := false
	select {
	case <-w.rc.parked:
	case rx = <-done:
		finished = true // never reached selectCandidates (pre-check failed, no peers)
	case <-time.After(20 * time.Second):
		panic("scatter2: request X neither parked nor finished")
	}
	w.rc.armed = false
	w.rc.rec = false
	xlog := w.rc.log
	y, _ := w.scatter(ridY, groupY, seedY, "")
	if !finished {
		w.rc.log = xlog
		w.rc.order = idsX
		w.rc.rec = true
		close(w.rc.release)
		select {
		case rx = <-done:
		case <-time.After(20 * time.Second):
			panic("scatter2: request X did not finish")
		}
		w.rc.rec = false
		xlog = w.rc.log
	}
	w.rc.order = nil
	orders, res := fmtResult(rx.op, rx.err, xlog, len(regionX.GetPeers()))
	return y + " ;; " + fmtObs(idsX, gsX, orders, res)
}

func schedulerArgs(typ string, store string) schedule.ConfigDecoder {
	switch typ {
	case schedulers.EvictLeaderType, schedulers.GrantLeaderType:
		return schedule.ConfigSliceDecoder(typ, []string{store})
	case schedulers.ScatterRangeType:
		return schedule.ConfigSliceDecoder(typ, []string{"", "", "verif"})
	case schedulers.HotRegionType, schedulers.ShuffleHotRegionType:
		return schedule.ConfigJSONDecoder([]byte("null"))
	}
	return schedule.ConfigSliceDecoder(typ, []string{"", ""})
}

// applyFlows injects the described read/write flow into the hot cache and the store statistics
// (only for the hot-region schedulers: a hot region is skipped by scatter and balance-region).
func (w *world) applyFlows() {
	mc := w.cw.Cluster
	mc.SetHotRegionCacheHitsThreshold(0)
	for _, l := range w.flows {
		f := strings.Fields(l)
		switch {
		case f[0] == "flow" && len(f) == 4:
			rid, _ := strconv.ParseUint(f[1], 10, 64)
			rate, _ := strconv.ParseUint(f[3], 10, 64)
			region := mc.GetRegion(rid)
			if region == nil || region.GetLeader() == nil {
				continue
			}
			const interval = 10
			if f[2] == "w" {
				r := region.Clone(core.SetWrittenBytes(rate*1024*interval), core.SetWrittenKeys(rate*10*interval), core.SetReportInterval(interval))
				for i := 0; i < mc.HotCache.GetFilledPeriod(statistics.WriteFlow); i++ {
					for _, item := range mc.CheckRegionWrite(r) {
						mc.HotCache.Update(item)
					}
				}
				mc.PutRegion(r)
			} else {
				r := region.Clone(core.SetReadBytes(rate*1024*interval), core.SetReadKeys(rate*10*interval), core.SetReportInterval(interval))
				for i := 0; i < mc.HotCache.GetFilledPeriod(statistics.ReadFlow); i++ {
					for _, item := range mc.CheckRegionRead(r) {
						mc.HotCache.Update(item)
					}
				}
				mc.PutRegion(r)
			}
		case f[0] == "sflow" && len(f) == 4:
			sid, _ := strconv.ParseUint(f[1], 10, 64)
			wr, _ := strconv.ParseUint(f[2], 10, 64)
			rd, _ := strconv.ParseUint(f[3], 10, 64)
			if mc.GetStore(sid) == nil {
				continue
			}
			mc.UpdateStorageWrittenStats(sid, wr*1024*statistics.StoreHeartBeatReportInterval, wr*10*statistics.StoreHeartBeatReportInterval)
			mc.UpdateStorageReadStats(sid, rd*1024*statistics.StoreHeartBeatReportInterval, rd*10*statistics.StoreHeartBeatReportInterval)
		}
	}
}

func (w *world) sched(typ string, store string, rounds int) (res string) {
	if err := w.rebuild(); err != nil {
		return "err:" + strings.ReplaceAll(err.Error(), " ", "_")
	}
	if typ == schedulers.HotRegionType || typ == schedulers.ShuffleHotRegionType {
		w.applyFlows()
	}
	defer func() {
		if r := recover(); r != nil {
			res = "panic:" + strings.ReplaceAll(fmt.Sprint(r), " ", "_")
		}
	}()
	mc := w.cw.Cluster
	oc := schedule.NewOperatorController(w.cw.Ctx, mc, nil)
	s, err := schedule.CreateScheduler(typ, oc, core.NewStorage(kv.NewMemoryKV()), schedulerArgs(typ, store))
	if err != nil {
		return "err:" + strings.ReplaceAll(err.Error(), " ", "_")
	}
	if err := s.Prepare(mc); err != nil {
		return "err:" + strings.ReplaceAll(err.Error(), " ", "_")
	}
	seen := map[string]bool{}
	var out []string
	for i := 0; i < rounds; i++ {
		var ops []*operator.Operator
		ops = s.Schedule(mc)
		for _, op := range ops {
			f := pdcluster.FormatOp(op)
			if !seen[f] {
				seen[f] = true
				out = append(out, f)
			}
		}
	}
	s.Cleanup(mc)
	if len(out) == 0 {
		return "none"
	}
	sort.Strings(out)
	return strings.Join(out, " ;; ")
}

func (w *world) exec(op string) (string, string) {
	f := strings.Fields(op)
	if len(f) == 0 {
		return "bad-op", op
	}
	switch f[0] {
	case "reset":
		w.reset()
		return "ok", op
	case "opt", "store", "region", "rule":
		w.sp.Apply(op)
		return "ok", op
	case "flow", "sflow":
		if len(f) == 4 {
			w.flows = append(w.flows, op)
		}
		return "ok", op
	case "counters":
		c := w.scatterer.VerifScatterCounters()
		if len(c) == 0 {
			return "-", op
		}
		return strings.Join(c, " "), op
	case "put":
		// put <group> <leader store> <stores +>: RegionScatterer.Put, an earlier scatter decision of the group
		if len(f) != 4 {
			return "bad-op", op
		}
		if err := w.rebuild(); err != nil {
			return "err:" + strings.ReplaceAll(err.Error(), " ", "_"), op
		}
		group := f[1]
		if group == "-" {
			group = ""
		}
		leader, _ := strconv.ParseUint(f[2], 10, 64)
		peers := map[uint64]*metapb.Peer{}
		for _, x := range strings.Split(f[3], "+") {
			id, err := strconv.ParseUint(x, 10, 64)
			if err != nil || w.rc.Cluster.GetStore(id) == nil {
				return "unknown-store", op
			}
			if !filter.NewOrdinaryEngineFilter("verif").Target(w.rc.GetOpts(), w.rc.Cluster.GetStore(id)) {
				return "special-store", op // Put needs the engine context scatterRegion creates: not exercised
			}
			peers[id] = &metapb.Peer{StoreId: id}
		}
		w.scatterer.Put(peers, leader, group)
		return "ok", op
	case "scatter":
		if len(f) < 3 {
			return "bad-op", op
		}
		rid, _ := strconv.ParseUint(f[1], 10, 64)
		group := f[2]
		if group == "-" {
			group = ""
		}
		var seed uint64
		want := ""
		dry := false
		for _, t := range f[3:] {
			if t == "dry=1" {
				dry = true
			}
			if strings.HasPrefix(t, "seed=") {
				seed, _ = strconv.ParseUint(t[5:], 10, 64)
			}
			if strings.HasPrefix(t, "want=") {
				want = t[5:]
			}
		}
		var before []string
		if dry {
			before = w.scatterer.VerifScatterCounters()
		}
		obs, observed := w.scatter(rid, group, seed, want)
		if dry {
			// a dry scatter leaves the history as it was: the same decision can be taken again with another
			// map iteration order
			w.scatterer.VerifScatterRestore(before)
		}
		if want == "" && observed != "" {
			op = op + " want=" + observed
		}
		return obs, op
	case "scatteraged":
		// scatteraged <region> <group> <store> seed=<n> [want=..]: the store was heard of a little less than the
		// disconnect time ago when the scatterer looked at it (a first scatter of the region whose history is
		// undone), then stays silent; the scatter that is observed runs 0.45 s later on the very same cluster
		// objects, when the store counts as disconnected.  For the model: the store's silence becomes the
		// disconnect time, then `scatter`.
		if len(f) < 5 {
			return "bad-op", op
		}
		rid, _ := strconv.ParseUint(f[1], 10, 64)
		group := f[2]
		if group == "-" {
			group = ""
		}
		sid, _ := strconv.ParseUint(f[3], 10, 64)
		var seed uint64
		want := ""
		for _, t := range f[4:] {
			if strings.HasPrefix(t, "seed=") {
				seed, _ = strconv.ParseUint(t[5:], 10, 64)
			}
			if strings.HasPrefix(t, "want=") {
				want = t[5:]
			}
		}
		idx := -1
		for i := range w.sp.Stores {
			if w.sp.Stores[i].ID == sid {
				idx = i
			}
		}
		if idx < 0 {
			return "unknown-store", op
		}
		w.sp.Stores[idx].Down, w.sp.Stores[idx].EdgeMs = 19, 700
		region, _, _, e := w.prep(rid, seed)
		w.sp.Stores[idx].Down, w.sp.Stores[idx].EdgeMs = 20, 0
		if e != "" {
			return e, op
		}
		before := w.scatterer.VerifScatterCounters()
		w.scatterOnce(region, group)
		w.scatterer.VerifScatterRestore(before)
		time.Sleep(450 * time.Millisecond)
		w.noRebuild = true
		obs, observed := w.scatter(rid, group, seed, want)
		w.noRebuild = false
		if want == "" && observed != "" {
			op = op + " want=" + observed
		}
		return obs, op
	case "scatter2":
		// scatter2 <regionX> <groupX> <regionY> <groupY> seed=<n>
		if len(f) < 5 {
			return "bad-op", op
		}
		ridX, _ := strconv.ParseUint(f[1], 10, 64)
		ridY, _ := strconv.ParseUint(f[3], 10, 64)
		gx, gy := f[2], f[4]
		if gx == "-" {
			gx = ""
		}
		if gy == "-" {
			gy = ""
		}
		var seed uint64
		for _, t := range f[5:] {
			if strings.HasPrefix(t, "seed=") {
				seed, _ = strconv.ParseUint(t[5:], 10, 64)
			}
		}
		return w.scatter2(ridX, gx, seed, ridY, gy, seed+1), op
	case "sched":
		if len(f) < 2 {
			return "bad-op", op
		}
		store := "1"
		if len(f) > 2 {
			store = f[2]
		}
		return w.sched(f[1], store, 6), op
	}
	return "bad-op", op
}

func (w *world) run(t *trace.W, op string) string {
	obs, op2 := w.exec(op)
	t.Line(op2, obs)
	return obs
}

// ---------------------------------------------------------------------------------------------
// generator

var zoneVals = []string{"z1", "z2", "z3"}
var hostVals = []string{"h1", "h2", "h3", "h4"}

func pick(r *rng.R, xs []string) string { return xs[r.Intn(len(xs))] }

func pickInt(r *rng.R, xs ...int) int { return xs[r.Intn(len(xs))] }

type regionState struct {
	id     int
	peers  []pdcluster.Peer
	leader uint64
	nextID uint64
}

func (rs *regionState) line() string {
	var ps []string
	for _, p := range rs.peers {
		ps = append(ps, fmt.Sprintf("%d:%d:%d", p.ID, p.Store, p.Role))
	}
	return fmt.Sprintf("region %d peers=%s leader=%d down=- pending=-", rs.id, strings.Join(ps, ","), rs.leader)
}

// applyOp moves the region description to where the operator takes it.
func (rs *regionState) applyOp(obs string) bool {
	i := strings.Index(obs, "steps=")
	if i < 0 {
		return false
	}
	steps := strings.Split(strings.Fields(obs[i+6:])[0], ";")
	find := func(store uint64) int {
		for k, p := range rs.peers {
			if p.Store == store {
				return k
			}
		}
		return -1
	}
	for _, st := range steps {
		x := strings.Split(st, ":")
		u := func(k int) uint64 { n, _ := strconv.ParseUint(x[k], 10, 64); return n }
		switch x[0] {
		case "al", "all":
			rs.nextID++
			rs.peers = append(rs.peers, pdcluster.Peer{ID: rs.nextID, Store: u(1), Role: 1})
		case "ap", "alp":
			rs.nextID++
			rs.peers = append(rs.peers, pdcluster.Peer{ID: rs.nextID, Store: u(1), Role: 0})
		case "pl":
			if k := find(u(1)); k >= 0 {
				rs.peers[k].Role = 0
			}
		case "df":
			if k := find(u(1)); k >= 0 {
				rs.peers[k].Role = 1
			}
		case "rp":
			if k := find(u(1)); k >= 0 {
				rs.peers = append(rs.peers[:k], rs.peers[k+1:]...)
			}
		case "tl":
			if k := find(u(2)); k >= 0 {
				rs.leader = rs.peers[k].ID
			}
		case "en":
			for _, s := range strings.Split(x[1], "+") {
				if n, err := strconv.ParseUint(s, 10, 64); err == nil {
					if k := find(n); k >= 0 {
						rs.peers[k].Role = 0
					}
				}
			}
			for _, s := range strings.Split(x[2], "+") {
				if n, err := strconv.ParseUint(s, 10, 64); err == nil {
					if k := find(n); k >= 0 {
						rs.peers[k].Role = 1
					}
				}
			}
		}
	}
	return true
}

// genReject: the reject-leader label property: none, one entry, or several entries – on the same key
// with different values and on different keys (a store may match only the second or third entry)
// caseKey sometimes changes the case of a store label KEY (Zone / ZONE): PD looks labels up
// case-insensitively (StoreInfo.GetLabelValue), the configured location labels and constraint keys stay lower-case
func caseKey(r *rng.R, key string) string {
	switch r.Pick(88, 7, 5) {
	case 1:
		return strings.ToUpper(key[:1]) + key[1:]
	case 2:
		return strings.ToUpper(key)
	}
	return key
}

func genReject(r *rng.R) string {
	switch r.Pick(55, 15, 30) {
	case 0:
		return "-"
	case 1:
		return "zone:" + pick(r, zoneVals)
	}
	var entries []string
	seen := map[string]bool{}
	for k := r.Range(2, 3); k > 0; k-- {
		e := "zone:" + pick(r, zoneVals)
		if r.Bool(1, 3) {
			e = "host:" + pick(r, hostVals)
		}
		if !seen[e] {
			seen[e] = true
			entries = append(entries, e)
		}
	}
	return strings.Join(entries, ",")
}

func indexOf(rs []*regionState, x *regionState) int {
	for i, r := range rs {
		if r == x {
			return i
		}
	}
	return 0
}

func gen(w *world, t *trace.W, r *rng.R, malformed bool) {
	w.run(t, "reset")
	maxrep := r.Pick(0, 10, 15, 60, 10, 5)
	var labels []string
	switch r.Pick(35, 30, 35) {
	case 1:
		labels = []string{"zone"}
	case 2:
		labels = []string{"zone", "host"}
	}
	ls := "-"
	if len(labels) > 0 {
		ls = strings.Join(labels, ",")
	}
	rules := r.Pick(60, 40)
	reject := genReject(r)
	w.run(t, fmt.Sprintf("opt maxrep=%d labels=%s level=- low=3/4 maxdown=1800 maxsnap=3 maxpend=16 reject=%s flags=domxl rules=%d jc=%d",
		maxrep, ls, reject, rules, r.Intn(2)))
	n := r.Range(maxrep+1, maxrep+6)
	if n > 10 {
		n = 10
	}
	flash := r.Bool(3, 10)
	unhealthy := r.Pick(35, 65) // clusters with offline / down / busy stores
	var ordinary, tiflash []uint64
	var states = map[uint64]int{}
	for i := 1; i <= n; i++ {
		st, down, busy, pause := 0, 0, 0, 0
		if unhealthy == 1 && r.Bool(35, 100) {
			switch r.Pick(40, 25, 20, 15) {
			case 0:
				st = 1
			case 1:
				down = pickInt(r, 1800, 4000, 1000000)
			case 2:
				down = pickInt(r, 20, 25, 100)
			case 3:
				busy = 1
			}
		}
		if r.Bool(1, 15) {
			pause = 1
		}
		var lb []string
		if len(labels) > 0 || r.Bool(1, 2) {
			lb = append(lb, caseKey(r, "zone")+":"+pick(r, zoneVals))
			if r.Bool(8, 10) {
				lb = append(lb, caseKey(r, "host")+":"+pick(r, hostVals))
			}
		}
		isFlash := flash && i > n-2
		if isFlash {
			lb = append(lb, "engine:tiflash")
			tiflash = append(tiflash, uint64(i))
		} else {
			if r.Bool(1, 25) {
				lb = append(lb, "engine:tikv")
			}
			ordinary = append(ordinary, uint64(i))
		}
		l := "-"
		if len(lb) > 0 {
			l = strings.Join(lb, ",")
		}
		states[uint64(i)] = st
		rc := pickInt(r, 0, 5, 20, 40, 80)
		// temporary throttling states: snapshots in flight, pending peers (idle otherwise)
		extra := ""
		if unhealthy == 1 && r.Bool(12, 100) {
			switch r.Pick(40, 30, 30) {
			case 0:
				extra = fmt.Sprintf(" ss=%d", pickInt(r, 3, 4, 6))
			case 1:
				extra = fmt.Sprintf(" rs=%d", pickInt(r, 3, 4, 6))
			case 2:
				extra = fmt.Sprintf(" pend=%d", pickInt(r, 16, 17, 40))
			}
		}
		w.run(t, fmt.Sprintf("store %d st=%d down=%d busy=%d pause=%d%s cap=1099511627776 avail=%d rc=%d lc=%d rsize=%d lsize=%d labels=%s",
			i, st, down, busy, pause, extra, uint64(1099511627776)/128*uint64(pickInt(r, 40, 64, 100, 120)), rc, rc/3, rc*96, rc*32, l))
	}
	withLearner := false // a learner on a TiFlash store (rule constrained to the engine)
	ordLearner := false  // a learner on an ordinary store (unconstrained learner rule)
	if rules == 1 {
		w.run(t, fmt.Sprintf("rule pd/default role=voter count=%d cons=- labels=%s level=-", maxrep, ls))
		switch {
		case len(tiflash) > 0 && r.Bool(2, 3):
			w.run(t, "rule tiflash/learner role=learner count=1 cons=engine:in:tiflash labels=- level=-")
			withLearner = true
		case len(ordinary) > maxrep && r.Bool(1, 2):
			w.run(t, "rule pd/learner role=learner count=1 cons=- labels=- level=-")
			ordLearner = true
		}
	}
	// regions
	nreg := r.Range(2, 6)
	var regions []*regionState
	for k := 0; k < nreg; k++ {
		rs := &regionState{id: 10 + k, nextID: uint64(1000 * (k + 1))}
		perm := append([]uint64{}, ordinary...)
		for i := len(perm) - 1; i > 0; i-- {
			j := r.Intn(i + 1)
			perm[i], perm[j] = perm[j], perm[i]
		}
		cnt := maxrep
		if malformed && r.Bool(1, 4) {
			cnt = maxrep - 1 + r.Intn(3)
		}
		if cnt > len(perm) {
			cnt = len(perm)
		}
		for i := 0; i < cnt; i++ {
			rs.nextID++
			role := 0
			if malformed && i > 0 && r.Bool(1, 8) {
				role = 1
			}
			rs.peers = append(rs.peers, pdcluster.Peer{ID: rs.nextID, Store: perm[i], Role: role})
		}
		if withLearner {
			rs.nextID++
			rs.peers = append(rs.peers, pdcluster.Peer{ID: rs.nextID, Store: tiflash[r.Intn(len(tiflash))], Role: 1})
		}
		if ordLearner && cnt < len(perm) {
			rs.nextID++
			rs.peers = append(rs.peers, pdcluster.Peer{ID: rs.nextID, Store: perm[cnt], Role: 1})
		}
		// the leader is a voter (a learner cannot lead); none when the region has no voter
		for _, p := range rs.peers {
			if p.Role == 0 {
				rs.leader = p.ID
				break
			}
		}
		if malformed && r.Bool(1, 10) {
			rs.leader = 0
		}
		regions = append(regions, rs)
		w.run(t, rs.line())
	}
	groups := []string{"g1", "g1", "g2", "-"}
	// a history of earlier decisions: sometimes one store of a region (its last peer: the learner when
	// there is one) was left out every time, so that it is the only store below the maximum
	if r.Bool(1, 2) && len(regions) > 0 {
		rs := regions[r.Intn(len(regions))]
		if len(rs.peers) > 0 {
			skip := rs.peers[len(rs.peers)-1].Store
			if r.Bool(1, 3) {
				skip = rs.peers[r.Intn(len(rs.peers))].Store
			}
			var rest []uint64
			for _, i := range ordinary {
				if i != skip {
					rest = append(rest, i)
				}
			}
			g := pick(r, groups)
			for k := r.Range(1, 4); k > 0 && len(rest) > 0; k-- {
				// the store that got no peer often got the leaders (so it is not the least loaded leader store)
				leader := rest[r.Intn(len(rest))]
				if r.Bool(2, 3) {
					leader = skip
				}
				w.run(t, fmt.Sprintf("put %s %d %s", g, leader, joinU(rest)))
			}
			// and the region in question is scattered right away, a few times with the history kept
			for k := r.Range(1, 3); k > 0; k-- {
				w.run(t, fmt.Sprintf("scatter %d %s seed=%d dry=1", rs.id, g, r.Intn(1000000)))
			}
		}
	}
	for k := r.Range(0, 3); k > 0; k-- {
		var some []uint64
		for _, i := range ordinary {
			if r.Bool(1, 2) {
				some = append(some, i)
			}
		}
		if len(some) > 0 {
			w.run(t, fmt.Sprintf("put %s %d %s", pick(r, groups), some[r.Intn(len(some))], joinU(some)))
		}
	}
	ns := r.Range(4, 14)
	for k := 0; k < ns; k++ {
		rs := regions[r.Intn(len(regions))]
		if r.Bool(1, 4) {
			// the same decision under other map iteration orders
			g := pick(r, groups)
			for j := r.Range(1, 3); j > 0; j-- {
				w.run(t, fmt.Sprintf("scatter %d %s seed=%d dry=1", rs.id, g, r.Intn(1000000)))
			}
		}
		if r.Bool(1, 80) && len(ordinary) > 0 {
			// a store that goes silent between two looks of the long-lived scatterer
			w.run(t, fmt.Sprintf("scatteraged %d %s %d seed=%d", rs.id, pick(r, groups), ordinary[r.Intn(len(ordinary))], r.Intn(1000000)))
		}
		obs := w.run(t, fmt.Sprintf("scatter %d %s seed=%d", rs.id, pick(r, groups), r.Intn(1000000)))
		if i := strings.Index(obs, " | op "); i >= 0 && r.Bool(4, 5) {
			if rs.applyOp(obs[i:]) {
				w.run(t, rs.line())
			}
		}
		if r.Bool(1, 3) {
			w.run(t, "counters")
		}
	}
	// overlapping requests on the one scatterer (the handlers take no lock): X is parked inside
	// selectCandidates while Y runs completely
	if len(regions) > 0 {
		for k := r.Range(1, 3); k > 0; k-- {
			x := regions[r.Intn(len(regions))]
			y := regions[r.Intn(len(regions))]
			if y == x && len(regions) > 1 {
				y = regions[(r.Intn(len(regions)-1)+1+indexOf(regions, x))%len(regions)]
			}
			gx := pick(r, groups)
			gy := gx
			if r.Bool(1, 3) {
				gy = pick(r, groups)
			}
			w.run(t, fmt.Sprintf("scatter2 %d %s %d %s seed=%d", x.id, gx, y.id, gy, r.Intn(1000000)))
		}
	}
	w.run(t, "counters")
	// schedulers on the same cluster
	types := []string{schedulers.BalanceRegionType, schedulers.BalanceLeaderType, schedulers.ShuffleRegionType,
		schedulers.ShuffleLeaderType, schedulers.EvictLeaderType, schedulers.GrantLeaderType, schedulers.LabelType,
		schedulers.ScatterRangeType}
	for k := r.Range(2, 5); k > 0; k-- {
		typ := types[r.Intn(len(types))]
		w.run(t, fmt.Sprintf("sched %s %d", typ, r.Range(1, n)))
	}
	// hot-region schedulers with injected flow
	if r.Bool(1, 2) {
		for i := 1; i <= n; i++ {
			w.run(t, fmt.Sprintf("sflow %d %d %d", i, pickInt(r, 0, 10, 100, 2000, 8000), pickInt(r, 0, 10, 100, 2000, 8000)))
		}
		for _, rs := range regions {
			if r.Bool(2, 3) {
				w.run(t, fmt.Sprintf("flow %d %s %d", rs.id, pick(r, []string{"w", "r"}), pickInt(r, 64, 512, 2048)))
			}
		}
		w.run(t, "sched "+schedulers.HotRegionType)
		w.run(t, "sched "+schedulers.ShuffleHotRegionType)
	}
}

func main() {
	out := flag.String("out", "-", "trace file")
	replay := flag.String("replay", "", "ops file to replay instead of generating")
	n := flag.Int("n", 100, "number of generated sequences")
	stream := flag.Uint64("stream", 0, "PRNG stream")
	flag.Parse()

	w := &world{}
	w.reset()
	t := trace.Create(*out)
	defer t.Close()
	if *replay != "" {
		for _, op := range trace.ReadOps(*replay) {
			w.run(t, op)
		}
		return
	}
	r := rng.FromEnv(*stream)
	for s := 0; s < *n; s++ {
		gen(w, t, r, *stream%4 == 3)
	}
}
