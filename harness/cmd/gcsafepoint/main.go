// Command gcsafepoint drives the real gRPC handlers UpdateGCSafePoint / GetGCSafePoint /
// UpdateServiceGCSafePoint of an in-process PD server and writes the `<op> => <observation>` trace
// judged by the Lean model (property C15).
//
// Cluster safe point requests can be *gated*: server.GetStorage().Base is wrapped so that a request
// goroutine parks before its Load and before its Save of `gc/safe_point`; the op sequence then decides
// which request performs its next storage access (deterministic schedules on the real handler).
// A request that is neither parked nor finished is reported `blocked` once its goroutine sits in
// sync.(*Mutex).Lock inside the handler.
//
// Leadership: `reset 2` sequences run on TWO in-process servers sharing one etcd; every request goes to the
// current leader and `lead m` moves the leadership (ResignEtcdLeader), so that what one leader acknowledged
// is checked against what the next one stores and answers.
//
// Every wait of the harness is bounded: a synchronous handler call that ends up in a mutex is reported
// `blocked`, anything that does not settle in a few seconds is reported `stuck`, and a wall-clock budget
// (-maxsec) ends the run with the trace written so far.
//
// Service safe points: the handler takes `now` from the TSO; the harness moves the TSO (forward only)
// to base+<now> with the allocator's own SetTSO, far ahead of the wall clock, so that `now` is an
// input of the op and never a wall-clock value.
package main

import (
	"context"
	"encoding/json"
	"errors"
	"flag"
	"fmt"
	"math"
	"os"
	"path"
	"runtime"
	"strconv"
	"strings"
	"sync"
	"time"

	"github.com/pingcap/kvproto/pkg/metapb"
	"github.com/pingcap/kvproto/pkg/pdpb"
	"github.com/tikv/pd/pkg/tsoutil"
	"github.com/tikv/pd/server"
	"github.com/tikv/pd/server/core"
	"github.com/tikv/pd/server/kv"
	"github.com/tikv/pd/server/tso"
	"go.etcd.io/etcd/clientv3"

	"verifharness/internal/gcbootsrv"
	"verifharness/internal/rng"
	"verifharness/internal/trace"
)

// baseSec is the instant (unix seconds) that op time 0 denotes: far in the future of any wall clock,
// inside the 46-bit millisecond range of a TSO.
const baseSec = int64(4000000000)

const gcKey = "gc/safe_point"
const svcPrefix = "gc/safe_point/service"

var errInjected = errors.New("injected storage error")

type req struct {
	idx     int
	val     uint64
	goid    string
	mu      sync.Mutex
	state   string // "run", "L", "S", "done"
	gen     int    // number of times the request has parked
	parked  chan string
	release chan string
	done    chan string
	result  string
	// service requests: the answer has been handed to an op line already
	reported bool
	// the request's own context (op `cancel`), and a write of this request's value that was handed to
	// another goroutine and is parked at the gate although the handler may already have answered
	ctx        context.Context
	cancel     context.CancelFunc
	child      bool
	childDone  chan struct{}
}

func (r *req) hasChild() bool { r.mu.Lock(); defer r.mu.Unlock(); return r.child }
func (r *req) setChild(b bool) { r.mu.Lock(); r.child = b; r.mu.Unlock() }

func (r *req) get() string { r.mu.Lock(); defer r.mu.Unlock(); return r.state }
func (r *req) set(s string) {
	r.mu.Lock()
	r.state = s
	if s == "L" || s == "S" {
		r.gen++
	}
	r.mu.Unlock()
}
func (r *req) loaded() bool { r.mu.Lock(); defer r.mu.Unlock(); return r.gen >= 1 }
func (r *req) snap() (string, int) { r.mu.Lock(); defer r.mu.Unlock(); return r.state, r.gen }

// shared is the registry of gated request goroutines (one for all servers).
type shared struct {
	mu   sync.Mutex
	reqs map[string]*req // cluster safe point requests, by goroutine id
	svc  map[string]*req // service safe point requests, by goroutine id
	// service-op write fault: fail the n-th write (Save/Remove below svcPrefix) while armed
	svcArmed  bool
	svcWrites int
	svcFailAt int
}

// gateBase wraps one server's kv.Base.
type gateBase struct {
	kv.Base
	sh *shared
}

func (g *gateBase) lookup() *req {
	id := gcbootsrv.GoID()
	g.sh.mu.Lock()
	defer g.sh.mu.Unlock()
	return g.sh.reqs[id]
}

// lookupByVal: a Save of gc/safe_point made by a goroutine that is not a registered request goroutine,
// while a gated request with exactly this value is between its Load and its Save: the handler handed its
// write to another goroutine.  The write is gated as that request's Save.
func (g *gateBase) lookupByVal(value string) *req {
	g.sh.mu.Lock()
	defer g.sh.mu.Unlock()
	for _, r := range g.sh.reqs {
		if r.get() == "run" && r.loaded() && !r.hasChild() && strconv.FormatUint(r.val, 16) == value {
			return r
		}
	}
	return nil
}

func (g *gateBase) lookupSvc() *req {
	id := gcbootsrv.GoID()
	g.sh.mu.Lock()
	defer g.sh.mu.Unlock()
	return g.sh.svc[id]
}

func (g *gateBase) Load(key string) (string, error) {
	if key == gcKey {
		if r := g.lookup(); r != nil {
			r.set("L")
			r.parked <- "L"
			f := <-r.release
			r.set("run")
			if f != "none" {
				return "", errInjected
			}
		}
	}
	return g.Base.Load(key)
}

// ownSave: the Save is the handler's own SaveServiceGCSafePoint call, not one made inside
// LoadMinServiceGCSafePoint (gc_worker repair / initialisation).
func ownSave() bool {
	buf := make([]byte, 16<<10)
	n := runtime.Stack(buf, false)
	st := string(buf[:n])
	return !strings.Contains(st, "LoadMinServiceGCSafePoint") && !strings.Contains(st, "initServiceGCSafePointForGCWorker")
}

func (g *gateBase) Save(key, value string) error {
	if key == gcKey && g.lookup() == nil {
		if r := g.lookupByVal(value); r != nil {
			r.setChild(true)
			r.set("S")
			r.parked <- "S"
			f := <-r.release
			if r.get() != "done" {
				r.set("run")
			}
			var err error
			switch f {
			case "before":
				err = errInjected
			case "after":
				if err = g.Base.Save(key, value); err == nil {
					err = errInjected
				}
			default:
				err = g.Base.Save(key, value)
			}
			r.setChild(false)
			r.childDone <- struct{}{}
			return err
		}
	}
	if key == gcKey {
		if r := g.lookup(); r != nil {
			r.set("S")
			r.parked <- "S"
			f := <-r.release
			r.set("run")
			switch f {
			case "before":
				return errInjected
			case "after":
				if err := g.Base.Save(key, value); err != nil {
					return err
				}
				return errInjected
			}
		}
	}
	if strings.HasPrefix(key, svcPrefix+"/") {
		if r := g.lookupSvc(); r != nil && ownSave() {
			r.set("S")
			r.parked <- "S"
			<-r.release
			r.set("run")
		}
	}
	if g.svcWrite(key) {
		return errInjected
	}
	return g.Base.Save(key, value)
}

func (g *gateBase) Remove(key string) error {
	if g.svcWrite(key) {
		return errInjected
	}
	return g.Base.Remove(key)
}

func (g *gateBase) svcWrite(key string) bool {
	g.sh.mu.Lock()
	defer g.sh.mu.Unlock()
	if !g.sh.svcArmed || !strings.HasPrefix(key, svcPrefix) {
		return false
	}
	g.sh.svcWrites++
	return g.sh.svcWrites == g.sh.svcFailAt
}

type world struct {
	srvs   []*gcbootsrv.Srv
	cl     *gcbootsrv.Cluster // nil: one stand-alone server
	raw    *clientv3.Client
	cur    int // index of the serving leader
	sh     *shared
	root   string
	hdr    *pdpb.RequestHeader
	reqs   []*req  // gated cluster safe point requests of the sequence
	sreqs  []*req  // gated service safe point requests of the sequence
	sargs  []int64 // `now` of the gated service requests
	leaked []chan string
	nowSec int64 // current op time (seconds after baseSec) the TSO has been moved to
	two    bool  // the current sequence is a `reset 2` sequence
	big    uint64
}

func (w *world) ctx() context.Context { return context.Background() }

func (w *world) S() *server.Server { return w.srvs[w.cur].S }

func newWorld(two bool) *world {
	w := &world{nowSec: -1, sh: &shared{reqs: map[string]*req{}, svc: map[string]*req{}}}
	if two {
		w.cl = gcbootsrv.StartCluster(2, nil)
		w.srvs = w.cl.Srvs
		w.raw = w.cl.Raw
		w.cur = w.cl.WaitLeader()
	} else {
		srv := gcbootsrv.Start(nil)
		w.srvs = []*gcbootsrv.Srv{srv}
		w.raw = srv.Raw
	}
	s := w.S()
	w.root = path.Join("/pd", strconv.FormatUint(s.ClusterID(), 10))
	w.hdr = &pdpb.RequestHeader{ClusterId: s.ClusterID()}
	_, err := s.Bootstrap(w.ctx(), &pdpb.BootstrapRequest{
		Header: w.hdr,
		Store:  &metapb.Store{Id: 1, Address: "mock://1"},
		Region: &metapb.Region{Id: 2, Peers: []*metapb.Peer{{Id: 3, StoreId: 1}},
			RegionEpoch: &metapb.RegionEpoch{ConfVer: 1, Version: 1}},
	})
	if err != nil {
		panic(err)
	}
	if s.GetRaftCluster() == nil {
		panic("cluster not running after bootstrap")
	}
	for _, sv := range w.srvs {
		sv.S.GetStorage().Base = &gateBase{Base: sv.S.GetStorage().Base, sh: w.sh}
	}
	return w
}

func (w *world) stop() {
	if w.cl != nil {
		w.cl.Stop()
	} else {
		w.srvs[0].Stop()
	}
}

// leadTo moves the PD leadership to member m and waits until it serves (raft cluster running) and the
// former leader has stepped down.
func (w *world) leadTo(m int) bool {
	deadline := time.Now().Add(20 * time.Second)
	for time.Now().Before(deadline) {
		l := w.cl.Leader()
		if l == m {
			o := w.srvs[1-m].S
			if !o.GetMember().IsLeader() && o.GetRaftCluster() == nil && w.srvs[m].S.GetRaftCluster() != nil {
				w.cur = m
				return true
			}
		} else if l >= 0 {
			s := w.srvs[l].S
			_ = s.GetMember().ResignEtcdLeader(w.ctx(), s.Name(), w.srvs[m].S.Name())
		}
		time.Sleep(5 * time.Millisecond)
	}
	return false
}

// bounded runs a synchronous handler call in a goroutine: its result, or `blocked` once the goroutine sits
// in a mutex of the handler `inFunc`, or `stuck` after 10 s.  A call that is given up is remembered and
// awaited (bounded) at the next reset.
func (w *world) bounded(inFunc string, fn func() string) string {
	done := make(chan string, 1)
	idc := make(chan string, 1)
	go func() {
		idc <- gcbootsrv.GoID()
		done <- fn()
	}()
	id := <-idc
	deadline := time.Now().Add(10 * time.Second)
	blockedSeen := 0
	for spin := 0; ; spin++ {
		select {
		case r := <-done:
			return r
		default:
		}
		if spin > 20 && inFunc != "" {
			if gcbootsrv.BlockedOnMutex(id, inFunc) {
				blockedSeen++
				if blockedSeen >= 3 {
					w.leaked = append(w.leaked, done)
					return "blocked"
				}
			} else {
				blockedSeen = 0
			}
		}
		if time.Now().After(deadline) {
			w.leaked = append(w.leaked, done)
			return "stuck"
		}
		if spin < 100 {
			time.Sleep(50 * time.Microsecond)
		} else {
			time.Sleep(time.Millisecond)
		}
	}
}

// setNow moves the TSO to baseSec+sec (forward only).
func (w *world) setNow(sec int64) bool {
	if sec < w.nowSec {
		return false
	}
	if sec == w.nowSec {
		return true
	}
	a, err := w.S().GetTSOAllocatorManager().GetAllocator(tso.GlobalDCLocation)
	if err != nil {
		panic(err)
	}
	// the jump from the wall clock to base is done in steps below the (configured, large) reset gap
	if err := a.SetTSO(tsoutil.ComposeTS((baseSec+sec)*1000, 0)); err != nil {
		panic(fmt.Sprintf("SetTSO: %v", err))
	}
	w.nowSec = sec
	return true
}

// tsoSec reads the TSO's physical second (through the allocator, as the handler does).
func (w *world) tsoSec() int64 {
	ts, err := w.S().GetTSOAllocatorManager().HandleTSORequest(tso.GlobalDCLocation, 1)
	if err != nil {
		panic(err)
	}
	t, _ := tsoutil.ParseTimestamp(ts)
	return t.Unix() - baseSec
}

func (w *world) stored() string {
	resp, err := w.raw.Get(w.ctx(), path.Join(w.root, gcKey))
	if err != nil {
		panic(err)
	}
	if len(resp.Kvs) == 0 {
		return "0"
	}
	v, err := strconv.ParseUint(string(resp.Kvs[0].Value), 16, 64)
	if err != nil {
		return "unparsable"
	}
	return strconv.FormatUint(v, 10)
}

func expStr(e int64) string {
	if e == math.MaxInt64 {
		return "inf"
	}
	return strconv.FormatInt(e-baseSec, 10)
}

func idStr(s string) string {
	if s == "" {
		return "-"
	}
	return strings.ReplaceAll(s, " ", "_")
}

func idArg(s string) string {
	if s == "-" {
		return ""
	}
	return s
}

// table lists the stored service safe points in key order: `<key>=<id>:<sp>:<exp>` is shortened to
// `<id>:<sp>:<exp>` when key and id agree.
func (w *world) table() string {
	prefix := path.Join(w.root, svcPrefix) + "/"
	resp, err := w.raw.Get(w.ctx(), prefix, clientv3.WithPrefix(),
		clientv3.WithSort(clientv3.SortByKey, clientv3.SortAscend))
	if err != nil {
		panic(err)
	}
	var out []string
	for _, kvp := range resp.Kvs {
		k := strings.TrimPrefix(string(kvp.Key), prefix)
		ssp := &core.ServiceSafePoint{}
		if err := json.Unmarshal(kvp.Value, ssp); err != nil {
			out = append(out, idStr(k)+"=unparsable")
			continue
		}
		e := fmt.Sprintf("%s:%d:%s", idStr(ssp.ServiceID), ssp.SafePoint, expStr(ssp.ExpiredAt))
		if k != ssp.ServiceID {
			e = idStr(k) + "=" + e
		}
		out = append(out, e)
	}
	if len(out) == 0 {
		return "-"
	}
	return strings.Join(out, ",")
}

func (w *world) states() string {
	var out []string
	for _, r := range w.reqs {
		switch st := r.get(); st {
		case "L", "S":
			out = append(out, fmt.Sprintf("%d%s", r.idx, st))
		case "run":
			out = append(out, fmt.Sprintf("%dB", r.idx))
		}
	}
	for _, r := range w.sreqs {
		switch st := r.get(); {
		case st == "S":
			out = append(out, fmt.Sprintf("s%dS", r.idx))
		case st == "run":
			out = append(out, fmt.Sprintf("s%dB", r.idx))
		case st == "done" && !r.reported:
			out = append(out, fmt.Sprintf("s%dD", r.idx))
		}
	}
	if len(out) == 0 {
		return "-"
	}
	return strings.Join(out, ",")
}

func liveOf(l []*req) int {
	n := 0
	for _, r := range l {
		if r.get() != "done" {
			n++
		}
	}
	return n
}

func (w *world) live() int    { return liveOf(w.reqs) }
func (w *world) svcLive() int { return liveOf(w.sreqs) }

// svcOpen: gated service requests that are not finished or whose answer has not been reported yet
func (w *world) svcOpen() int {
	n := 0
	for _, r := range w.sreqs {
		if r.get() != "done" || !r.reported {
			n++
		}
	}
	return n
}

func errKind(err error) string {
	s := err.Error()
	switch {
	case errors.Is(err, errInjected) || strings.Contains(s, errInjected.Error()):
		return "err-storage"
	case strings.Contains(s, "cannot remove service safe point of gc_worker"):
		return "err-remove-gcworker"
	case strings.Contains(s, "TTL of gc_worker"):
		return "err-gcworker-ttl"
	case strings.Contains(s, "service id of service safepoint cannot be empty"):
		return "err-empty-id"
	case strings.Contains(s, "invalid service id"):
		return "err-invalid-id"
	case strings.Contains(s, "mismatch cluster id"):
		return "err-cluster-id"
	}
	return "err:" + strings.ReplaceAll(s, " ", "_")
}

// update runs the real handler once.
func (w *world) update(v uint64) string { return w.updateCtx(w.ctx(), v) }

func (w *world) updateCtx(ctx context.Context, v uint64) string {
	resp, err := w.S().UpdateGCSafePoint(ctx, &pdpb.UpdateGCSafePointRequest{Header: w.hdr, SafePoint: v})
	if err != nil {
		return errKind(err)
	}
	if resp.GetHeader().GetError() != nil {
		return "err-header:" + resp.GetHeader().GetError().GetType().String()
	}
	return fmt.Sprintf("done %d", resp.GetNewSafePoint())
}

// settleGroup: one pass over a group of gated requests of handler `inFunc`; returns (stable, parked, running)
func settleGroup(l []*req, inFunc string) (bool, int, int) {
	parked, running := 0, 0
	stable := true
	for _, r := range l {
		select {
		case <-r.parked:
		default:
		}
		select {
		case res := <-r.done:
			r.result = res
			r.set("done")
		default:
		}
		switch r.get() {
		case "L", "S":
			parked++
		case "run":
			running++
			if !gcbootsrv.BlockedOnMutex(r.goid, inFunc) {
				stable = false
			}
		}
	}
	return stable, parked, running
}

// settle waits until every live request is parked at a gate, finished, or blocked on the handler's
// mutex while some other request of the same handler is parked (i.e. can hold that mutex).  Returns false
// when that does not happen within 5 s.
func (w *world) settle() bool {
	deadline := time.Now().Add(5 * time.Second)
	for spin := 0; ; spin++ {
		s1, p1, r1 := settleGroup(w.reqs, "UpdateGCSafePoint")
		s2, p2, r2 := settleGroup(w.sreqs, "UpdateServiceGCSafePoint")
		if s1 && (r1 == 0 || p1 > 0) && s2 && (r2 == 0 || p2 > 0) {
			return true
		}
		if time.Now().After(deadline) {
			return false
		}
		if spin < 50 {
			time.Sleep(50 * time.Microsecond)
		} else {
			time.Sleep(500 * time.Microsecond)
		}
	}
}

// releaseAndWait lets a parked request continue and waits (bounded) until its goroutine has left the gate.
func (w *world) releaseAndWait(r *req, fault string) bool {
	_, g0 := r.snap()
	r.release <- fault
	deadline := time.Now().Add(5 * time.Second)
	for time.Now().Before(deadline) {
		if st, g := r.snap(); g != g0 || st == "run" {
			return true
		}
		time.Sleep(10 * time.Microsecond)
	}
	return false
}

func (w *world) reset(two bool) string {
	// writes that outlived their handler: let them fail before anything else
	for _, r := range w.reqs {
		if r.get() == "done" && r.hasChild() {
			r.release <- "before"
			select {
			case <-r.childDone:
			case <-time.After(3 * time.Second):
			}
		}
	}
	// finish everything that is still pending (bounded)
	for round := 0; round < 12 && w.live()+w.svcLive() > 0; round++ {
		for _, l := range [][]*req{w.reqs, w.sreqs} {
			for _, r := range l {
				if st := r.get(); st == "L" || st == "S" {
					w.releaseAndWait(r, "before")
				}
			}
		}
		w.settle()
	}
	for _, c := range w.leaked {
		select {
		case <-c:
		case <-time.After(3 * time.Second):
		}
	}
	w.leaked = nil
	out := "ok"
	if w.live()+w.svcLive() > 0 {
		// requests that never come back (a lock that is not released any more): give them up
		out = "stuck"
	}
	w.sh.mu.Lock()
	w.sh.reqs = map[string]*req{}
	w.sh.svc = map[string]*req{}
	w.sh.mu.Unlock()
	w.reqs, w.sreqs, w.sargs = nil, nil, nil
	w.two = two
	if _, err := w.raw.Delete(w.ctx(), path.Join(w.root, "gc")+"/", clientv3.WithPrefix()); err != nil {
		panic(err)
	}
	return out
}

// chainID: ids such that each of a triple extends the one before: k000, k000-1, k000-1x, k001, ...
func chainID(j int) string {
	b := fmt.Sprintf("k%03d", j/3)
	switch j % 3 {
	case 1:
		return b + "-1"
	case 2:
		return b + "-1x"
	}
	return b
}

func (w *world) uspCall(svc string, ttl int64, sp uint64, now int64) string {
	resp, err := w.S().UpdateServiceGCSafePoint(w.ctx(), &pdpb.UpdateServiceGCSafePointRequest{
		Header: w.hdr, ServiceId: []byte(svc), TTL: ttl, SafePoint: sp})
	if err != nil {
		return errKind(err)
	}
	if resp.GetHeader().GetError() != nil {
		return "err-header:" + resp.GetHeader().GetError().GetType().String()
	}
	ttlOut := strconv.FormatInt(resp.GetTTL(), 10)
	if resp.GetTTL() == math.MaxInt64-(baseSec+now) {
		ttlOut = "inf"
	}
	return fmt.Sprintf("ok %s %s %d", idStr(string(resp.GetServiceId())), ttlOut, resp.GetMinSafePoint())
}

func newReq(idx int, v uint64) *req {
	ctx, cancel := context.WithCancel(context.Background())
	return &req{idx: idx, val: v, state: "run", parked: make(chan string, 1), release: make(chan string, 1), done: make(chan string, 1),
		ctx: ctx, cancel: cancel, childDone: make(chan struct{}, 1)}
}

func (w *world) exec(op string) string {
	f := strings.Fields(op)
	bad := "bad-op"
	u64 := func(s string) (uint64, bool) { n, err := strconv.ParseUint(s, 10, 64); return n, err == nil }
	i64 := func(s string) (int64, bool) { n, err := strconv.ParseInt(s, 10, 64); return n, err == nil }
	switch {
	case len(f) == 1 && f[0] == "reset":
		return w.reset(false)
	case len(f) == 2 && f[0] == "reset" && f[1] == "2":
		if len(w.srvs) < 2 {
			return bad
		}
		return w.reset(true)
	case len(f) == 2 && f[0] == "lead":
		m, ok := i64(f[1])
		if !ok || !w.two || m < 0 || int(m) >= len(w.srvs) || w.live() > 0 {
			return bad
		}
		if !w.leadTo(int(m)) {
			return "stuck"
		}
		return "ok"
	case len(f) == 3 && f[0] == "upd":
		// gated request: parks before Load and before Save
		i, ok1 := i64(f[1])
		v, ok2 := u64(f[2])
		if !ok1 || !ok2 || int(i) != len(w.reqs) {
			return bad
		}
		r := newReq(int(i), v)
		w.reqs = append(w.reqs, r)
		ready := make(chan struct{})
		go func() {
			r.goid = gcbootsrv.GoID()
			w.sh.mu.Lock()
			w.sh.reqs[r.goid] = r
			w.sh.mu.Unlock()
			close(ready)
			r.done <- w.updateCtx(r.ctx, v)
		}()
		<-ready
		if !w.settle() {
			return "stuck"
		}
		return w.reqOut(r)
	case (len(f) == 2 || len(f) == 3) && f[0] == "step":
		i, ok := i64(f[1])
		if !ok || i < 0 || int(i) >= len(w.reqs) {
			return bad
		}
		fault := "none"
		if len(f) == 3 {
			fault = f[2]
		}
		r := w.reqs[i]
		switch r.get() {
		case "done":
			if r.hasChild() {
				// the handler has answered, its write is still parked: let it land
				r.release <- fault
				select {
				case <-r.childDone:
				case <-time.After(5 * time.Second):
					return "stuck"
				}
				return "orphan-write"
			}
			return bad
		case "L", "S":
			if !w.releaseAndWait(r, fault) {
				return "stuck"
			}
		}
		if !w.settle() {
			return "stuck"
		}
		return w.reqOut(r)
	case len(f) == 2 && f[0] == "cancel":
		// the caller of a gated request goes away: its context is cancelled.  The handler must not answer
		// or release anything because of that while its storage access is pending.
		i, ok := i64(f[1])
		if !ok || i < 0 || int(i) >= len(w.reqs) || w.reqs[i].get() == "done" {
			return bad
		}
		r := w.reqs[i]
		r.cancel()
		time.Sleep(2 * time.Millisecond)
		if !w.settle() {
			return "stuck"
		}
		return w.reqOut(r)
	case len(f) == 2 && f[0] == "set":
		v, ok := u64(f[1])
		if !ok || w.live() > 0 {
			return bad
		}
		return w.bounded("UpdateGCSafePoint", func() string { return w.update(v) })
	case len(f) == 1 && f[0] == "get":
		return w.bounded("GetGCSafePoint", func() string {
			resp, err := w.S().GetGCSafePoint(w.ctx(), &pdpb.GetGCSafePointRequest{Header: w.hdr})
			if err != nil {
				return errKind(err)
			}
			if resp.GetHeader().GetError() != nil {
				return "err-header:" + resp.GetHeader().GetError().GetType().String()
			}
			return fmt.Sprintf("ok %d", resp.GetSafePoint())
		})
	case len(f) >= 2 && f[0] == "burst":
		if w.live() > 0 {
			return bad
		}
		vals := make([]uint64, 0, len(f)-1)
		for _, s := range f[1:] {
			v, ok := u64(s)
			if !ok {
				return bad
			}
			vals = append(vals, v)
		}
		return w.bounded("", func() string {
			res := make([]string, len(vals))
			var wg sync.WaitGroup
			start := make(chan struct{})
			for k, v := range vals {
				wg.Add(1)
				go func(k int, v uint64) {
					defer wg.Done()
					<-start
					r := w.update(v)
					res[k] = strings.TrimPrefix(r, "done ")
				}(k, v)
			}
			close(start)
			wg.Wait()
			return "acks " + strings.Join(res, " ")
		})
	case (len(f) == 5 || len(f) == 6) && f[0] == "usp":
		// usp <svc> <ttl> <sp> <now> [failing-write]
		ttl, ok1 := i64(f[2])
		sp, ok2 := u64(f[3])
		now, ok3 := i64(f[4])
		failAt := int64(0)
		ok4 := true
		if len(f) == 6 {
			failAt, ok4 = i64(f[5])
		}
		if !ok1 || !ok2 || !ok3 || !ok4 || now < 0 || w.two || w.svcOpen() > 0 || !w.setNow(now) {
			return bad
		}
		w.sh.mu.Lock()
		w.sh.svcArmed, w.sh.svcWrites, w.sh.svcFailAt = true, 0, int(failAt)
		w.sh.mu.Unlock()
		out := w.bounded("UpdateServiceGCSafePoint", func() string { return w.uspCall(idArg(f[1]), ttl, sp, now) })
		w.sh.mu.Lock()
		w.sh.svcArmed = false
		w.sh.mu.Unlock()
		if out == "blocked" || out == "stuck" {
			return out
		}
		if got := w.tsoSec(); got != now {
			return fmt.Sprintf("clock-drift %d", got)
		}
		return out
	case len(f) == 6 && f[0] == "gusp":
		// gusp <r> <svc> <ttl> <sp> <now>: gated request, parks before the handler's own save
		i, ok0 := i64(f[1])
		ttl, ok1 := i64(f[3])
		sp, ok2 := u64(f[4])
		now, ok3 := i64(f[5])
		if !ok0 || !ok1 || !ok2 || !ok3 || now < 0 || w.two || int(i) != len(w.sreqs) ||
			(w.svcOpen() > 0 && now != w.nowSec) || !w.setNow(now) {
			return bad
		}
		r := newReq(int(i), sp)
		w.sreqs = append(w.sreqs, r)
		w.sargs = append(w.sargs, now)
		ready := make(chan struct{})
		svc := idArg(f[2])
		go func() {
			r.goid = gcbootsrv.GoID()
			w.sh.mu.Lock()
			w.sh.svc[r.goid] = r
			w.sh.mu.Unlock()
			close(ready)
			r.done <- w.uspCall(svc, ttl, sp, now)
		}()
		<-ready
		if !w.settle() {
			return "stuck"
		}
		return w.sreqOut(r)
	case len(f) == 2 && f[0] == "sstep":
		i, ok := i64(f[1])
		if !ok || i < 0 || int(i) >= len(w.sreqs) {
			return bad
		}
		r := w.sreqs[i]
		switch r.get() {
		case "done":
			if r.reported {
				return bad
			}
		case "S":
			if !w.releaseAndWait(r, "none") {
				return "stuck"
			}
		}
		if !w.settle() {
			return "stuck"
		}
		return w.sreqOut(r)
	case len(f) == 2 && f[0] == "del":
		// what the HTTP API DELETE /gc/safepoint/{service_id} does
		if w.two || w.svcOpen() > 0 {
			return bad
		}
		if err := w.S().GetStorage().RemoveServiceGCSafePoint(idArg(f[1])); err != nil {
			return errKind(err)
		}
		return "ok"
	case len(f) == 4 && f[0] == "raw":
		// raw <svc> <sp> <exp|inf>: a record written by other means (older version, manual repair)
		sp, ok1 := u64(f[2])
		exp := int64(math.MaxInt64)
		ok2 := true
		if f[3] != "inf" {
			exp, ok2 = i64(f[3])
			exp += baseSec
		}
		if !ok1 || !ok2 || idArg(f[1]) == "" || w.two || w.svcOpen() > 0 ||
			path.Join(svcPrefix, idArg(f[1])) != svcPrefix+"/"+idArg(f[1]) {
			return bad
		}
		w.rawPut(idArg(f[1]), sp, exp)
		return "ok"
	case len(f) == 4 && f[0] == "bulk":
		// bulk <n> <sp0> <exp|inf>: n records with the ids k000, k000-1, k000-1x, k001, ... (each of a
		// triple extends the one before), safe point sp0 + (37 j mod 101), one expiry
		n, ok0 := i64(f[1])
		sp0, ok1 := u64(f[2])
		exp := int64(math.MaxInt64)
		ok2 := true
		if f[3] != "inf" {
			exp, ok2 = i64(f[3])
			exp += baseSec
		}
		if !ok0 || !ok1 || !ok2 || n < 0 || n > 600 || sp0 > 1<<40 || w.two || w.svcOpen() > 0 {
			return bad
		}
		for j := 0; j < int(n); j++ {
			w.rawPut(chainID(j), sp0+uint64(j*37%101), exp)
		}
		return "ok"
	case len(f) == 1 && f[0] == "list":
		// GetAllServiceGCSafePoints, as the HTTP API GET /gc/safepoint uses it
		if w.two || w.svcOpen() > 0 {
			return bad
		}
		l, err := w.S().GetStorage().GetAllServiceGCSafePoints()
		if err != nil {
			return errKind(err)
		}
		return fmt.Sprintf("list %d", len(l))
	}
	return bad
}

func (w *world) rawPut(id string, sp uint64, exp int64) {
	b, _ := json.Marshal(&core.ServiceSafePoint{ServiceID: id, ExpiredAt: exp, SafePoint: sp})
	if _, err := w.raw.Put(w.ctx(), path.Join(w.root, svcPrefix, id), string(b)); err != nil {
		panic(err)
	}
}

func (w *world) sreqOut(r *req) string {
	switch st := r.get(); st {
	case "S":
		return "parked-save"
	case "done":
		r.reported = true
		return r.result
	}
	return "blocked"
}

func (w *world) reqOut(r *req) string {
	switch st := r.get(); st {
	case "L":
		return "parked-load"
	case "S":
		return "parked-save"
	case "done":
		return r.result
	}
	return "blocked"
}

var traceMu sync.Mutex

func (w *world) run(t *trace.W, op string) string {
	out := w.exec(op)
	line := fmt.Sprintf("%s @%s r=%s t=%s", out, w.stored(), w.states(), w.table())
	traceMu.Lock()
	t.Line(op, line)
	traceMu.Unlock()
	return out
}

// ---------------------------------------------------------------------------------------------
// generators

var faults = []string{"none", "none", "none", "none", "none", "none", "none", "before", "after"}

// schedules enumerates all interleavings of n requests with two storage accesses each.
func schedules(n int) [][]int {
	var out [][]int
	left := make([]int, n)
	for i := range left {
		left[i] = 2
	}
	var rec func(cur []int)
	rec = func(cur []int) {
		if len(cur) == 2*n {
			out = append(out, append([]int(nil), cur...))
			return
		}
		for i := 0; i < n; i++ {
			if left[i] > 0 {
				left[i]--
				rec(append(cur, i))
				left[i]++
			}
		}
	}
	rec(nil)
	return out
}

// genSchedule replays one enumerated interleaving: `eager` starts every request first, otherwise a
// request is started right before its first storage access.
func genSchedule(w *world, t *trace.W, sched []int, vals []uint64, eager bool, pre uint64) {
	w.run(t, w.resetOp())
	if pre > 0 {
		w.run(t, fmt.Sprintf("set %d", pre))
	}
	started := map[int]bool{}
	next := 0
	order := []int{} // request index by order of start
	idxOf := map[int]int{}
	start := func(k int) {
		idxOf[k] = next
		order = append(order, k)
		w.run(t, fmt.Sprintf("upd %d %d", next, vals[k]))
		next++
		started[k] = true
	}
	if eager {
		for k := range vals {
			start(k)
		}
	}
	for _, k := range sched {
		if !started[k] {
			start(k)
		}
		if w.reqs[idxOf[k]].get() == "done" {
			continue
		}
		w.run(t, fmt.Sprintf("step %d", idxOf[k]))
	}
	drain(w, t, nil)
	w.run(t, "get")
}

func drain(w *world, t *trace.W, r *rng.R) {
	defer func() {
		// a write that outlived its (cancelled) request lands last
		for _, q := range w.reqs {
			if q.get() == "done" && q.hasChild() {
				w.run(t, fmt.Sprintf("step %d", q.idx))
			}
		}
	}()
	for round := 0; round < 50 && w.live() > 0; round++ {
		for _, q := range w.reqs {
			if q.get() != "done" {
				f := "none"
				if r != nil {
					f = faults[r.Intn(len(faults))]
				}
				if f == "none" {
					w.run(t, fmt.Sprintf("step %d", q.idx))
				} else {
					w.run(t, fmt.Sprintf("step %d %s", q.idx, f))
				}
			}
		}
	}
}

func randVal(r *rng.R) uint64 {
	switch r.Pick(60, 20, 10, 5, 5) {
	case 0:
		return uint64(r.Range(0, 40))
	case 1:
		return uint64(r.Range(0, 5))
	case 2:
		return uint64(1000 + r.Range(0, 3))
	case 3:
		return math.MaxUint64 - uint64(r.Range(0, 2))
	}
	return r.U64()
}

// genCluster: random gated histories of 2-5 requests with faults, sets, gets and bursts.
func genCluster(w *world, t *trace.W, r *rng.R, maxOps int) {
	w.run(t, w.resetOp())
	if r.Bool(1, 2) {
		w.run(t, fmt.Sprintf("set %d", randVal(r)))
	}
	ops := r.Range(4, maxOps)
	for k := 0; k < ops; k++ {
		live := []*req{}
		for _, q := range w.reqs {
			if q.get() != "done" {
				live = append(live, q)
			}
		}
		c := r.Pick(25, 45, 10, 10, 10, 8)
		switch {
		case c == 5 && len(live) > 0:
			w.run(t, fmt.Sprintf("cancel %d", live[r.Intn(len(live))].idx))
		case c == 0 && len(w.reqs) < 6:
			w.run(t, fmt.Sprintf("upd %d %d", len(w.reqs), randVal(r)))
		case c == 1 && len(live) > 0:
			q := live[r.Intn(len(live))]
			f := faults[r.Intn(len(faults))]
			if f == "none" {
				w.run(t, fmt.Sprintf("step %d", q.idx))
			} else {
				w.run(t, fmt.Sprintf("step %d %s", q.idx, f))
			}
		case c == 2:
			w.run(t, "get")
		case c == 3 && len(live) == 0:
			w.run(t, fmt.Sprintf("set %d", randVal(r)))
		case c == 4 && len(live) == 0:
			n := r.Range(2, 8)
			vs := make([]string, n)
			for i := range vs {
				vs[i] = strconv.FormatUint(randVal(r), 10)
			}
			w.run(t, "burst "+strings.Join(vs, " "))
		default:
			w.run(t, "get")
		}
	}
	drain(w, t, r)
	w.run(t, "get")
}

var svcNames = []string{"a", "b", "c", "gc_worker", "gc_worker", "zz", "B", "a/b", "-"}

// ids that path.Join would rewrite (or that are empty): the malformed stream
var badSvcNames = []string{"..", ".", "a/../gc_worker", "a/../b", "a//b", "a/", "/a", "../../safe_point", "a/./b", "-"}

func randTTL(r *rng.R, now int64) int64 {
	switch r.Pick(50, 15, 10, 8, 7, 5, 5) {
	case 0:
		return int64(r.Range(1, 30))
	case 1:
		return int64(-r.Range(0, 3))
	case 2:
		return math.MaxInt64
	case 3:
		return math.MaxInt64 - (baseSec + now) + int64(r.Range(-2, 2))
	case 4:
		return int64(r.Range(100, 100000))
	case 5:
		return math.MinInt64 + int64(r.Range(0, 2))
	}
	return math.MaxInt64 - int64(r.Range(0, 3))
}

// genService: random registration / renewal / removal / expiry histories, raw records of older
// versions, API deletes and storage write failures.
func genService(w *world, t *trace.W, r *rng.R, maxOps int, nowp *int64) {
	w.run(t, "reset")
	ops := r.Range(3, maxOps)
	for k := 0; k < ops; k++ {
		switch r.Pick(20, 30, 30, 10, 10) {
		case 0:
			*nowp += int64(r.Range(0, 3))
		case 1:
			*nowp += int64(r.Range(1, 20))
		case 3:
			*nowp += int64(r.Range(20, 200))
		}
		svc := svcNames[r.Intn(len(svcNames))]
		if r.Bool(1, 8) {
			svc = badSvcNames[r.Intn(len(badSvcNames))]
		}
		switch r.Pick(70, 8, 12, 10) {
		case 0:
			ttl := randTTL(r, *nowp)
			if svc == "gc_worker" && r.Bool(3, 4) {
				ttl = math.MaxInt64
			}
			w.run(t, fmt.Sprintf("usp %s %d %d %d", svc, ttl, randVal(r), *nowp))
		case 1:
			w.run(t, fmt.Sprintf("usp %s %d %d %d %d", svc, randTTL(r, *nowp), randVal(r), *nowp, r.Range(1, 4)))
		case 2:
			if svc == "-" || path.Join(svcPrefix, svc) != svcPrefix+"/"+svc {
				svc = "a"
			}
			exp := "inf"
			if r.Bool(3, 4) {
				exp = strconv.FormatInt(*nowp+int64(r.Range(-10, 30)), 10)
			}
			w.run(t, fmt.Sprintf("raw %s %d %s", svc, randVal(r), exp))
		case 3:
			w.run(t, fmt.Sprintf("del %s", svc))
		}
	}
}

// resetOp: sequences of the two-server world start with `reset 2`
func (w *world) resetOp() string {
	if len(w.srvs) > 1 {
		return "reset 2"
	}
	return "reset"
}

// genLead: the leadership moves back and forth between two servers while the safe point advances; every
// leader is asked to read, to advance and to replay a slightly stale value.  Values grow from sequence to
// sequence (w.big) so that nothing a server may remember from an earlier sequence is ahead of them.
func genLead(w *world, t *trace.W, r *rng.R, maxOps int) {
	w.run(t, "reset 2")
	w.big += 100000
	v := w.big
	hi := v // largest value sent so far
	if r.Bool(1, 3) {
		// the plain scenario: A acks, B acks more, back on A a stale value arrives
		a := w.cur
		w.run(t, fmt.Sprintf("set %d", v+100))
		w.run(t, "get")
		w.run(t, fmt.Sprintf("lead %d", 1-a))
		w.run(t, "get")
		w.run(t, fmt.Sprintf("set %d", v+200))
		w.run(t, "get")
		w.run(t, fmt.Sprintf("lead %d", a))
		w.run(t, "get")
		w.run(t, fmt.Sprintf("set %d", v+150))
		w.run(t, "get")
		w.run(t, fmt.Sprintf("lead %d", 1-a))
		w.run(t, "get")
		return
	}
	ops := r.Range(6, maxOps)
	for k := 0; k < ops; k++ {
		switch r.Pick(30, 30, 12, 12, 16) {
		case 0:
			// advance
			hi += uint64(r.Range(1, 50))
			w.run(t, fmt.Sprintf("set %d", hi))
		case 1:
			w.run(t, "get")
		case 2:
			if w.live() == 0 {
				w.run(t, fmt.Sprintf("lead %d", r.Intn(2)))
			}
		case 3:
			// a stale or repeated value
			w.run(t, fmt.Sprintf("set %d", v+uint64(r.Range(0, int(hi-v)+1))))
		case 4:
			if w.live() == 0 {
				n := r.Range(2, 5)
				vs := make([]string, n)
				for i := range vs {
					vs[i] = strconv.FormatUint(v+uint64(r.Range(0, int(hi-v)+60)), 10)
				}
				w.run(t, "burst "+strings.Join(vs, " "))
			}
		}
	}
	w.run(t, "get")
	w.run(t, fmt.Sprintf("lead %d", 1-w.cur))
	w.run(t, "get")
}

var raceSvcs = []string{"cdc", "br", "gc_worker", "gc_worker", "a"}

// genSvcRace: two or three service requests in flight at once: the first is parked before the handler's own
// save, the others are issued meanwhile (they have to wait for it), then released in a random order.
func genSvcRace(w *world, t *trace.W, r *rng.R, nowp *int64) {
	w.run(t, "reset")
	*nowp += int64(r.Range(1, 5))
	now := *nowp
	base := uint64(r.Range(0, 30))
	if r.Bool(4, 5) {
		w.run(t, fmt.Sprintf("usp gc_worker %d %d %d", int64(math.MaxInt64), base+10, now))
	}
	if r.Bool(1, 3) {
		w.run(t, fmt.Sprintf("usp %s %d %d %d", raceSvcs[r.Intn(len(raceSvcs))], r.Range(5, 50), base+uint64(r.Range(10, 80)), now))
	}
	n := r.Range(2, 3)
	if r.Bool(1, 4) {
		// the directed case: a new service is admitted against the old minimum while gc_worker advances
		w.run(t, fmt.Sprintf("gusp 0 cdc 100 %d %d", base+50, now))
		w.run(t, fmt.Sprintf("gusp 1 gc_worker %d %d %d", int64(math.MaxInt64), base+100, now))
		n = 2
	} else {
		for k := 0; k < n; k++ {
			svc := raceSvcs[r.Intn(len(raceSvcs))]
			ttl := int64(r.Range(5, 100))
			if svc == "gc_worker" {
				ttl = math.MaxInt64
			}
			if r.Bool(1, 10) {
				ttl = 0
			}
			w.run(t, fmt.Sprintf("gusp %d %s %d %d %d", k, svc, ttl, base+uint64(r.Range(0, 120)), now))
		}
	}
	for round := 0; round < 12 && w.svcOpen() > 0; round++ {
		k := r.Intn(n)
		q := w.sreqs[k]
		if q.get() == "done" && q.reported {
			continue
		}
		w.run(t, fmt.Sprintf("sstep %d", k))
	}
	for k, q := range w.sreqs {
		for i := 0; i < 4 && !(q.get() == "done" && q.reported); i++ {
			w.run(t, fmt.Sprintf("sstep %d", k))
		}
	}
	if w.svcOpen() == 0 {
		w.run(t, fmt.Sprintf("usp gc_worker %d %d %d", int64(math.MaxInt64), base+uint64(r.Range(0, 130)), now))
	}
}

// sortedIDs: the ids stored now, in key order
func (w *world) sortedIDs() []string {
	prefix := path.Join(w.root, svcPrefix) + "/"
	resp, err := w.raw.Get(w.ctx(), prefix, clientv3.WithPrefix(), clientv3.WithKeysOnly(),
		clientv3.WithSort(clientv3.SortByKey, clientv3.SortAscend))
	if err != nil {
		panic(err)
	}
	var ids []string
	for _, kvp := range resp.Kvs {
		ids = append(ids, strings.TrimPrefix(string(kvp.Key), prefix))
	}
	return ids
}

// genBulk: 95-205 registrations whose ids extend one another (k017, k017-1, k017-1x), so that wherever a
// scan is cut into pieces some piece ends on an id that the following ids extend; then the minimum, the list
// and the pruning are observed, with the smallest safe points put right behind positions 100 and 200.
func genBulk(w *world, t *trace.W, r *rng.R, nowp *int64) {
	w.run(t, "reset")
	*nowp += int64(r.Range(1, 5))
	now := *nowp
	sp0 := uint64(r.Range(50, 500))
	w.run(t, fmt.Sprintf("usp gc_worker %d %d %d", int64(math.MaxInt64), sp0, now))
	for k, shift := 0, r.Intn(3); k < shift; k++ {
		w.run(t, fmt.Sprintf("raw a%d %d inf", k, sp0+200))
	}
	n := r.Range(95, 205)
	if r.Bool(1, 2) {
		n = []int{98, 99, 100, 101, 102, 198, 199, 200, 201, 202, 205}[r.Intn(11)]
	}
	ttl := int64(r.Range(20, 60))
	exp := strconv.FormatInt(now+ttl, 10)
	if r.Bool(1, 4) {
		exp = "inf"
	}
	w.run(t, fmt.Sprintf("bulk %d %d %s", n, sp0, exp))
	// the records right behind a multiple of 100 get the smallest safe points
	ids := w.sortedIDs()
	low := uint64(1)
	for _, pos := range []int{100, 101, 200, 201} {
		if pos < len(ids) && ids[pos] != "gc_worker" {
			w.run(t, fmt.Sprintf("raw %s %d %s", ids[pos], low, exp))
			low++
		}
	}
	w.run(t, fmt.Sprintf("usp gc_worker %d %d %d", int64(math.MaxInt64), sp0+uint64(r.Range(0, 20)), now))
	w.run(t, "list")
	w.run(t, fmt.Sprintf("usp zz %d %d %d", r.Range(5, 50), sp0+uint64(r.Range(0, 300)), now+int64(r.Range(0, 3))))
	*nowp = now + 3
	if exp != "inf" {
		// everything bulk-registered expires
		*nowp = now + ttl + int64(r.Range(1, 10))
		w.run(t, fmt.Sprintf("usp gc_worker %d %d %d", int64(math.MaxInt64), sp0+30, *nowp))
		w.run(t, "list")
	}
}

func main() {
	out := flag.String("out", "-", "trace file")
	replay := flag.String("replay", "", "ops file to replay instead of generating")
	n := flag.Int("n", 60, "number of random sequences per kind")
	maxOps := flag.Int("len", 30, "max ops per sequence")
	stream := flag.Uint64("stream", 0, "PRNG stream")
	streams := flag.Uint64("streams", 1, "number of streams the enumerated schedules are divided among")
	maxSec := flag.Int("maxsec", 40, "wall-clock budget of the run: the trace written so far is kept")
	flag.Parse()

	var ops []string
	two := false
	if *replay != "" {
		ops = trace.ReadOps(*replay)
		for _, op := range ops {
			if op == "reset 2" {
				two = true
			}
		}
	} else {
		// the last stream works on two servers and moves the leadership
		two = *streams > 1 && *stream%*streams == *streams-1
	}
	t := trace.Create(*out)
	time.AfterFunc(time.Duration(*maxSec)*time.Second, func() {
		traceMu.Lock()
		t.Comment("wall-clock budget used up")
		t.Close()
		os.Exit(0)
	})
	w := newWorld(two)
	finish := func() {
		traceMu.Lock()
		t.Close()
		traceMu.Unlock()
		done := make(chan struct{})
		go func() { w.reset(false); w.stop(); close(done) }()
		select {
		case <-done:
		case <-time.After(10 * time.Second):
		}
		os.Exit(0)
	}
	if *replay != "" {
		for _, op := range ops {
			w.run(t, op)
		}
		finish()
	}
	r := rng.FromEnv(*stream)
	w.big = (uint64(*stream) + 1) * 1000000000
	// 1. every interleaving of <= 3 requests at Load/Save granularity, this stream's share
	cnt := uint64(0)
	// the enumerated schedules are divided among the one-server streams (a two-member etcd is much slower)
	share, mine := *streams, *stream%*streams
	if *streams > 1 {
		share = *streams - 1
		if two {
			mine = share // none
		}
	}
	vals3 := [][]uint64{{10, 20, 30}, {30, 20, 10}, {20, 30, 10}, {20, 10, 20}}
	vals2 := [][]uint64{{10, 20}, {20, 10}, {20, 20}}
	for _, eager := range []bool{true, false} {
		for _, s := range schedules(2) {
			for _, v := range vals2 {
				for _, pre := range []uint64{0, 15} {
					if cnt%share == mine {
						genSchedule(w, t, s, v, eager, pre)
					}
					cnt++
				}
			}
		}
		for _, s := range schedules(3) {
			v := vals3[int(cnt)%len(vals3)]
			if cnt%share == mine {
				genSchedule(w, t, s, v, eager, 0)
			}
			cnt++
		}
	}
	// 2. random histories
	now := int64(0)
	for s := 0; s < *n; s++ {
		if two {
			// leader changes cost ~0.3 s each: a third of the sequences
			if s%3 == 0 {
				genCluster(w, t, r, *maxOps)
				genLead(w, t, r, *maxOps/2+4)
			}
			continue
		}
		genCluster(w, t, r, *maxOps)
		genService(w, t, r, *maxOps, &now)
		genSvcRace(w, t, r, &now)
		if s%12 == 0 {
			genBulk(w, t, r, &now)
		}
	}
	finish()
}
