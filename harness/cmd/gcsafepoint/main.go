// Command gcsafepoint drives the real gRPC handlers UpdateGCSafePoint / GetGCSafePoint /
// UpdateServiceGCSafePoint of an in-process PD server and writes the `<op> => <observation>` trace
// judged by the Lean model (property C15).
//
// Cluster safe point requests can be *gated*: server.GetStorage().Base is wrapped so that a request
// goroutine parks before its Load and before its Save of `gc/safe_point`; the op sequence then decides
// which request performs its next storage access (deterministic schedules on the real handler).
// A request that is neither parked nor finished is reported `blocked` once its goroutine sits in
// sync.(*Mutex).Lock inside the handler.
//
// Service safe points: the handler takes `now` from the TSO; the harness moves the TSO (forward only)
// to base+<now> with the allocator's own SetTSO, far ahead of the wall clock, so that `now` is an
// input of the op and never a wall-clock value.
package main

import (
	"context"
	"encoding/json"
	"errors"
	"flag"
	"fmt"
	"math"
	"path"
	"sort"
	"strconv"
	"strings"
	"sync"
	"time"

	"github.com/pingcap/kvproto/pkg/metapb"
	"github.com/pingcap/kvproto/pkg/pdpb"
	"github.com/tikv/pd/pkg/tsoutil"
	"github.com/tikv/pd/server/core"
	"github.com/tikv/pd/server/kv"
	"github.com/tikv/pd/server/tso"
	"go.etcd.io/etcd/clientv3"

	"verifharness/internal/gcbootsrv"
	"verifharness/internal/rng"
	"verifharness/internal/trace"
)

// baseSec is the instant (unix seconds) that op time 0 denotes: far in the future of any wall clock,
// inside the 46-bit millisecond range of a TSO.
const baseSec = int64(4000000000)

const gcKey = "gc/safe_point"
const svcPrefix = "gc/safe_point/service"

var errInjected = errors.New("injected storage error")

type req struct {
	idx     int
	val     uint64
	goid    string
	mu      sync.Mutex
	state   string // "run", "L", "S", "done"
	gen     int    // number of times the request has parked
	parked  chan string
	release chan string
	done    chan string
	result  string
}

func (r *req) get() string { r.mu.Lock(); defer r.mu.Unlock(); return r.state }
func (r *req) set(s string) {
	r.mu.Lock()
	r.state = s
	if s == "L" || s == "S" {
		r.gen++
	}
	r.mu.Unlock()
}
func (r *req) snap() (string, int) { r.mu.Lock(); defer r.mu.Unlock(); return r.state, r.gen }

// gateBase wraps the server's kv.Base.
type gateBase struct {
	kv.Base
	mu   sync.Mutex
	reqs map[string]*req // by goroutine id
	// service-op write fault: fail the n-th write (Save/Remove below svcPrefix) while armed
	svcArmed  bool
	svcWrites int
	svcFailAt int
}

func (g *gateBase) lookup() *req {
	id := gcbootsrv.GoID()
	g.mu.Lock()
	defer g.mu.Unlock()
	return g.reqs[id]
}

func (g *gateBase) Load(key string) (string, error) {
	if key == gcKey {
		if r := g.lookup(); r != nil {
			r.set("L")
			r.parked <- "L"
			f := <-r.release
			r.set("run")
			if f != "none" {
				return "", errInjected
			}
		}
	}
	return g.Base.Load(key)
}

func (g *gateBase) Save(key, value string) error {
	if key == gcKey {
		if r := g.lookup(); r != nil {
			r.set("S")
			r.parked <- "S"
			f := <-r.release
			r.set("run")
			switch f {
			case "before":
				return errInjected
			case "after":
				if err := g.Base.Save(key, value); err != nil {
					return err
				}
				return errInjected
			}
		}
	}
	if g.svcWrite(key) {
		return errInjected
	}
	return g.Base.Save(key, value)
}

func (g *gateBase) Remove(key string) error {
	if g.svcWrite(key) {
		return errInjected
	}
	return g.Base.Remove(key)
}

func (g *gateBase) svcWrite(key string) bool {
	g.mu.Lock()
	defer g.mu.Unlock()
	if !g.svcArmed || !strings.HasPrefix(key, svcPrefix) {
		return false
	}
	g.svcWrites++
	return g.svcWrites == g.svcFailAt
}

type world struct {
	srv    *gcbootsrv.Srv
	gate   *gateBase
	root   string
	hdr    *pdpb.RequestHeader
	reqs   []*req
	nowSec int64 // current op time (seconds after baseSec) the TSO has been moved to
}

func (w *world) ctx() context.Context { return context.Background() }

func newWorld() *world {
	srv := gcbootsrv.Start(nil)
	s := srv.S
	w := &world{srv: srv, root: path.Join("/pd", strconv.FormatUint(s.ClusterID(), 10)),
		hdr: &pdpb.RequestHeader{ClusterId: s.ClusterID()}, nowSec: -1}
	_, err := s.Bootstrap(w.ctx(), &pdpb.BootstrapRequest{
		Header: w.hdr,
		Store:  &metapb.Store{Id: 1, Address: "mock://1"},
		Region: &metapb.Region{Id: 2, Peers: []*metapb.Peer{{Id: 3, StoreId: 1}},
			RegionEpoch: &metapb.RegionEpoch{ConfVer: 1, Version: 1}},
	})
	if err != nil {
		panic(err)
	}
	if s.GetRaftCluster() == nil {
		panic("cluster not running after bootstrap")
	}
	w.gate = &gateBase{Base: s.GetStorage().Base, reqs: map[string]*req{}}
	s.GetStorage().Base = w.gate
	return w
}

// setNow moves the TSO to baseSec+sec (forward only).
func (w *world) setNow(sec int64) bool {
	if sec < w.nowSec {
		return false
	}
	if sec == w.nowSec {
		return true
	}
	a, err := w.srv.S.GetTSOAllocatorManager().GetAllocator(tso.GlobalDCLocation)
	if err != nil {
		panic(err)
	}
	// the jump from the wall clock to base is done in steps below the (configured, large) reset gap
	if err := a.SetTSO(tsoutil.ComposeTS((baseSec+sec)*1000, 0)); err != nil {
		panic(fmt.Sprintf("SetTSO: %v", err))
	}
	w.nowSec = sec
	return true
}

// tsoSec reads the TSO's physical second (through the allocator, as the handler does).
func (w *world) tsoSec() int64 {
	ts, err := w.srv.S.GetTSOAllocatorManager().HandleTSORequest(tso.GlobalDCLocation, 1)
	if err != nil {
		panic(err)
	}
	t, _ := tsoutil.ParseTimestamp(ts)
	return t.Unix() - baseSec
}

func (w *world) stored() string {
	resp, err := w.srv.Raw.Get(w.ctx(), path.Join(w.root, gcKey))
	if err != nil {
		panic(err)
	}
	if len(resp.Kvs) == 0 {
		return "0"
	}
	v, err := strconv.ParseUint(string(resp.Kvs[0].Value), 16, 64)
	if err != nil {
		return "unparsable"
	}
	return strconv.FormatUint(v, 10)
}

func expStr(e int64) string {
	if e == math.MaxInt64 {
		return "inf"
	}
	return strconv.FormatInt(e-baseSec, 10)
}

func idStr(s string) string {
	if s == "" {
		return "-"
	}
	return strings.ReplaceAll(s, " ", "_")
}

func idArg(s string) string {
	if s == "-" {
		return ""
	}
	return s
}

// table lists the stored service safe points in key order: `<key>=<id>:<sp>:<exp>` is shortened to
// `<id>:<sp>:<exp>` when key and id agree.
func (w *world) table() string {
	prefix := path.Join(w.root, svcPrefix) + "/"
	resp, err := w.srv.Raw.Get(w.ctx(), prefix, clientv3.WithPrefix(),
		clientv3.WithSort(clientv3.SortByKey, clientv3.SortAscend))
	if err != nil {
		panic(err)
	}
	var out []string
	for _, kvp := range resp.Kvs {
		k := strings.TrimPrefix(string(kvp.Key), prefix)
		ssp := &core.ServiceSafePoint{}
		if err := json.Unmarshal(kvp.Value, ssp); err != nil {
			out = append(out, idStr(k)+"=unparsable")
			continue
		}
		e := fmt.Sprintf("%s:%d:%s", idStr(ssp.ServiceID), ssp.SafePoint, expStr(ssp.ExpiredAt))
		if k != ssp.ServiceID {
			e = idStr(k) + "=" + e
		}
		out = append(out, e)
	}
	if len(out) == 0 {
		return "-"
	}
	return strings.Join(out, ",")
}

func (w *world) states() string {
	var out []string
	for _, r := range w.reqs {
		switch st := r.get(); st {
		case "L", "S":
			out = append(out, fmt.Sprintf("%d%s", r.idx, st))
		case "run":
			out = append(out, fmt.Sprintf("%dB", r.idx))
		}
	}
	if len(out) == 0 {
		return "-"
	}
	return strings.Join(out, ",")
}

func (w *world) live() int {
	n := 0
	for _, r := range w.reqs {
		if r.get() != "done" {
			n++
		}
	}
	return n
}

func errKind(err error) string {
	s := err.Error()
	switch {
	case errors.Is(err, errInjected) || strings.Contains(s, errInjected.Error()):
		return "err-storage"
	case strings.Contains(s, "cannot remove service safe point of gc_worker"):
		return "err-remove-gcworker"
	case strings.Contains(s, "TTL of gc_worker"):
		return "err-gcworker-ttl"
	case strings.Contains(s, "service id of service safepoint cannot be empty"):
		return "err-empty-id"
	case strings.Contains(s, "invalid service id"):
		return "err-invalid-id"
	case strings.Contains(s, "mismatch cluster id"):
		return "err-cluster-id"
	}
	return "err:" + strings.ReplaceAll(s, " ", "_")
}

// update runs the real handler once.
func (w *world) update(v uint64) string {
	resp, err := w.srv.S.UpdateGCSafePoint(w.ctx(), &pdpb.UpdateGCSafePointRequest{Header: w.hdr, SafePoint: v})
	if err != nil {
		return errKind(err)
	}
	if resp.GetHeader().GetError() != nil {
		return "err-header:" + resp.GetHeader().GetError().GetType().String()
	}
	return fmt.Sprintf("done %d", resp.GetNewSafePoint())
}

// settle waits until every live request is parked at a gate, finished, or blocked on the handler's
// mutex while some other request is parked (i.e. can hold that mutex).  Returns false on timeout.
func (w *world) settle() bool {
	deadline := time.Now().Add(20 * time.Second)
	for spin := 0; ; spin++ {
		parked, running := 0, 0
		stable := true
		for _, r := range w.reqs {
			// drain events
			select {
			case <-r.parked:
			default:
			}
			select {
			case res := <-r.done:
				r.result = res
				r.set("done")
			default:
			}
			switch r.get() {
			case "L", "S":
				parked++
			case "run":
				running++
				if !gcbootsrv.BlockedOnMutex(r.goid, "UpdateGCSafePoint") {
					stable = false
				}
			}
		}
		if stable && (running == 0 || parked > 0) {
			return true
		}
		if time.Now().After(deadline) {
			return false
		}
		if spin < 50 {
			time.Sleep(50 * time.Microsecond)
		} else {
			time.Sleep(500 * time.Microsecond)
		}
	}
}

// releaseAndWait lets a parked request continue and waits until its goroutine has left the gate.
func (w *world) releaseAndWait(r *req, fault string) {
	_, g0 := r.snap()
	r.release <- fault
	for k := 0; k < 2000000; k++ {
		if st, g := r.snap(); g != g0 || st == "run" {
			return
		}
		time.Sleep(10 * time.Microsecond)
	}
	panic("released request did not leave its gate")
}

func (w *world) reset() {
	// finish everything that is still pending
	for round := 0; round < 100 && w.live() > 0; round++ {
		for _, r := range w.reqs {
			if st := r.get(); st == "L" || st == "S" {
				w.releaseAndWait(r, "before")
			}
		}
		w.settle()
	}
	if w.live() > 0 {
		panic("reset: requests still pending")
	}
	w.gate.mu.Lock()
	w.gate.reqs = map[string]*req{}
	w.gate.mu.Unlock()
	w.reqs = nil
	if _, err := w.srv.Raw.Delete(w.ctx(), path.Join(w.root, "gc")+"/", clientv3.WithPrefix()); err != nil {
		panic(err)
	}
}

func (w *world) exec(op string) string {
	f := strings.Fields(op)
	bad := "bad-op"
	u64 := func(s string) (uint64, bool) { n, err := strconv.ParseUint(s, 10, 64); return n, err == nil }
	i64 := func(s string) (int64, bool) { n, err := strconv.ParseInt(s, 10, 64); return n, err == nil }
	switch {
	case len(f) == 1 && f[0] == "reset":
		w.reset()
		return "ok"
	case len(f) == 3 && f[0] == "upd":
		// gated request: parks before Load and before Save
		i, ok1 := i64(f[1])
		v, ok2 := u64(f[2])
		if !ok1 || !ok2 || int(i) != len(w.reqs) {
			return bad
		}
		r := &req{idx: int(i), val: v, state: "run", parked: make(chan string, 1), release: make(chan string, 1), done: make(chan string, 1)}
		w.reqs = append(w.reqs, r)
		ready := make(chan struct{})
		go func() {
			r.goid = gcbootsrv.GoID()
			w.gate.mu.Lock()
			w.gate.reqs[r.goid] = r
			w.gate.mu.Unlock()
			close(ready)
			r.done <- w.update(v)
		}()
		<-ready
		if !w.settle() {
			return "stuck"
		}
		return w.reqOut(r)
	case (len(f) == 2 || len(f) == 3) && f[0] == "step":
		i, ok := i64(f[1])
		if !ok || i < 0 || int(i) >= len(w.reqs) {
			return bad
		}
		fault := "none"
		if len(f) == 3 {
			fault = f[2]
		}
		r := w.reqs[i]
		switch r.get() {
		case "done":
			return bad
		case "L", "S":
			w.releaseAndWait(r, fault)
		}
		if !w.settle() {
			return "stuck"
		}
		return w.reqOut(r)
	case len(f) == 2 && f[0] == "set":
		v, ok := u64(f[1])
		if !ok || w.live() > 0 {
			return bad
		}
		return w.update(v)
	case len(f) == 1 && f[0] == "get":
		resp, err := w.srv.S.GetGCSafePoint(w.ctx(), &pdpb.GetGCSafePointRequest{Header: w.hdr})
		if err != nil {
			return errKind(err)
		}
		return fmt.Sprintf("ok %d", resp.GetSafePoint())
	case len(f) >= 2 && f[0] == "burst":
		if w.live() > 0 {
			return bad
		}
		vals := make([]uint64, 0, len(f)-1)
		for _, s := range f[1:] {
			v, ok := u64(s)
			if !ok {
				return bad
			}
			vals = append(vals, v)
		}
		res := make([]string, len(vals))
		var wg sync.WaitGroup
		start := make(chan struct{})
		for k, v := range vals {
			wg.Add(1)
			go func(k int, v uint64) {
				defer wg.Done()
				<-start
				r := w.update(v)
				res[k] = strings.TrimPrefix(r, "done ")
			}(k, v)
		}
		close(start)
		wg.Wait()
		return "acks " + strings.Join(res, " ")
	case (len(f) == 5 || len(f) == 6) && f[0] == "usp":
		// usp <svc> <ttl> <sp> <now> [failing-write]
		ttl, ok1 := i64(f[2])
		sp, ok2 := u64(f[3])
		now, ok3 := i64(f[4])
		failAt := int64(0)
		ok4 := true
		if len(f) == 6 {
			failAt, ok4 = i64(f[5])
		}
		if !ok1 || !ok2 || !ok3 || !ok4 || now < 0 || !w.setNow(now) {
			return bad
		}
		w.gate.mu.Lock()
		w.gate.svcArmed, w.gate.svcWrites, w.gate.svcFailAt = true, 0, int(failAt)
		w.gate.mu.Unlock()
		resp, err := w.srv.S.UpdateServiceGCSafePoint(w.ctx(), &pdpb.UpdateServiceGCSafePointRequest{
			Header: w.hdr, ServiceId: []byte(idArg(f[1])), TTL: ttl, SafePoint: sp})
		w.gate.mu.Lock()
		w.gate.svcArmed = false
		w.gate.mu.Unlock()
		if got := w.tsoSec(); got != now {
			return fmt.Sprintf("clock-drift %d", got)
		}
		if err != nil {
			return errKind(err)
		}
		if resp.GetHeader().GetError() != nil {
			return "err-header:" + resp.GetHeader().GetError().GetType().String()
		}
		ttlOut := strconv.FormatInt(resp.GetTTL(), 10)
		if resp.GetTTL() == math.MaxInt64-(baseSec+now) {
			ttlOut = "inf"
		}
		return fmt.Sprintf("ok %s %s %d", idStr(string(resp.GetServiceId())), ttlOut, resp.GetMinSafePoint())
	case len(f) == 2 && f[0] == "del":
		// what the HTTP API DELETE /gc/safepoint/{service_id} does
		if err := w.srv.S.GetStorage().RemoveServiceGCSafePoint(idArg(f[1])); err != nil {
			return errKind(err)
		}
		return "ok"
	case len(f) == 4 && f[0] == "raw":
		// raw <svc> <sp> <exp|inf>: a record written by other means (older version, manual repair)
		sp, ok1 := u64(f[2])
		exp := int64(math.MaxInt64)
		ok2 := true
		if f[3] != "inf" {
			exp, ok2 = i64(f[3])
			exp += baseSec
		}
		if !ok1 || !ok2 || idArg(f[1]) == "" ||
			path.Join(svcPrefix, idArg(f[1])) != svcPrefix+"/"+idArg(f[1]) {
			return bad
		}
		b, _ := json.Marshal(&core.ServiceSafePoint{ServiceID: idArg(f[1]), ExpiredAt: exp, SafePoint: sp})
		if _, err := w.srv.Raw.Put(w.ctx(), path.Join(w.root, svcPrefix, idArg(f[1])), string(b)); err != nil {
			panic(err)
		}
		return "ok"
	}
	return bad
}

func (w *world) reqOut(r *req) string {
	switch st := r.get(); st {
	case "L":
		return "parked-load"
	case "S":
		return "parked-save"
	case "done":
		return r.result
	}
	return "blocked"
}

func (w *world) run(t *trace.W, op string) string {
	out := w.exec(op)
	t.Line(op, fmt.Sprintf("%s @%s r=%s t=%s", out, w.stored(), w.states(), w.table()))
	return out
}

// ---------------------------------------------------------------------------------------------
// generators

var faults = []string{"none", "none", "none", "none", "none", "none", "none", "before", "after"}

// schedules enumerates all interleavings of n requests with two storage accesses each.
func schedules(n int) [][]int {
	var out [][]int
	left := make([]int, n)
	for i := range left {
		left[i] = 2
	}
	var rec func(cur []int)
	rec = func(cur []int) {
		if len(cur) == 2*n {
			out = append(out, append([]int(nil), cur...))
			return
		}
		for i := 0; i < n; i++ {
			if left[i] > 0 {
				left[i]--
				rec(append(cur, i))
				left[i]++
			}
		}
	}
	rec(nil)
	return out
}

// genSchedule replays one enumerated interleaving: `eager` starts every request first, otherwise a
// request is started right before its first storage access.
func genSchedule(w *world, t *trace.W, sched []int, vals []uint64, eager bool, pre uint64) {
	w.run(t, "reset")
	if pre > 0 {
		w.run(t, fmt.Sprintf("set %d", pre))
	}
	started := map[int]bool{}
	next := 0
	order := []int{} // request index by order of start
	idxOf := map[int]int{}
	start := func(k int) {
		idxOf[k] = next
		order = append(order, k)
		w.run(t, fmt.Sprintf("upd %d %d", next, vals[k]))
		next++
		started[k] = true
	}
	if eager {
		for k := range vals {
			start(k)
		}
	}
	for _, k := range sched {
		if !started[k] {
			start(k)
		}
		if w.reqs[idxOf[k]].get() == "done" {
			continue
		}
		w.run(t, fmt.Sprintf("step %d", idxOf[k]))
	}
	drain(w, t, nil)
	w.run(t, "get")
}

func drain(w *world, t *trace.W, r *rng.R) {
	for round := 0; round < 50 && w.live() > 0; round++ {
		for _, q := range w.reqs {
			if q.get() != "done" {
				f := "none"
				if r != nil {
					f = faults[r.Intn(len(faults))]
				}
				if f == "none" {
					w.run(t, fmt.Sprintf("step %d", q.idx))
				} else {
					w.run(t, fmt.Sprintf("step %d %s", q.idx, f))
				}
			}
		}
	}
}

func randVal(r *rng.R) uint64 {
	switch r.Pick(60, 20, 10, 5, 5) {
	case 0:
		return uint64(r.Range(0, 40))
	case 1:
		return uint64(r.Range(0, 5))
	case 2:
		return uint64(1000 + r.Range(0, 3))
	case 3:
		return math.MaxUint64 - uint64(r.Range(0, 2))
	}
	return r.U64()
}

// genCluster: random gated histories of 2-5 requests with faults, sets, gets and bursts.
func genCluster(w *world, t *trace.W, r *rng.R, maxOps int) {
	w.run(t, "reset")
	if r.Bool(1, 2) {
		w.run(t, fmt.Sprintf("set %d", randVal(r)))
	}
	ops := r.Range(4, maxOps)
	for k := 0; k < ops; k++ {
		live := []*req{}
		for _, q := range w.reqs {
			if q.get() != "done" {
				live = append(live, q)
			}
		}
		c := r.Pick(25, 45, 10, 10, 10)
		switch {
		case c == 0 && len(w.reqs) < 6:
			w.run(t, fmt.Sprintf("upd %d %d", len(w.reqs), randVal(r)))
		case c == 1 && len(live) > 0:
			q := live[r.Intn(len(live))]
			f := faults[r.Intn(len(faults))]
			if f == "none" {
				w.run(t, fmt.Sprintf("step %d", q.idx))
			} else {
				w.run(t, fmt.Sprintf("step %d %s", q.idx, f))
			}
		case c == 2:
			w.run(t, "get")
		case c == 3 && len(live) == 0:
			w.run(t, fmt.Sprintf("set %d", randVal(r)))
		case c == 4 && len(live) == 0:
			n := r.Range(2, 8)
			vs := make([]string, n)
			for i := range vs {
				vs[i] = strconv.FormatUint(randVal(r), 10)
			}
			w.run(t, "burst "+strings.Join(vs, " "))
		default:
			w.run(t, "get")
		}
	}
	drain(w, t, r)
	w.run(t, "get")
}

var svcNames = []string{"a", "b", "c", "gc_worker", "gc_worker", "zz", "B", "a/b", "-"}

// ids that path.Join would rewrite (or that are empty): the malformed stream
var badSvcNames = []string{"..", ".", "a/../gc_worker", "a/../b", "a//b", "a/", "/a", "../../safe_point", "a/./b", "-"}

func randTTL(r *rng.R, now int64) int64 {
	switch r.Pick(50, 15, 10, 8, 7, 5, 5) {
	case 0:
		return int64(r.Range(1, 30))
	case 1:
		return int64(-r.Range(0, 3))
	case 2:
		return math.MaxInt64
	case 3:
		return math.MaxInt64 - (baseSec + now) + int64(r.Range(-2, 2))
	case 4:
		return int64(r.Range(100, 100000))
	case 5:
		return math.MinInt64 + int64(r.Range(0, 2))
	}
	return math.MaxInt64 - int64(r.Range(0, 3))
}

// genService: random registration / renewal / removal / expiry histories, raw records of older
// versions, API deletes and storage write failures.
func genService(w *world, t *trace.W, r *rng.R, maxOps int, nowp *int64) {
	w.run(t, "reset")
	ops := r.Range(3, maxOps)
	for k := 0; k < ops; k++ {
		switch r.Pick(20, 30, 30, 10, 10) {
		case 0:
			*nowp += int64(r.Range(0, 3))
		case 1:
			*nowp += int64(r.Range(1, 20))
		case 3:
			*nowp += int64(r.Range(20, 200))
		}
		svc := svcNames[r.Intn(len(svcNames))]
		if r.Bool(1, 8) {
			svc = badSvcNames[r.Intn(len(badSvcNames))]
		}
		switch r.Pick(70, 8, 12, 10) {
		case 0:
			ttl := randTTL(r, *nowp)
			if svc == "gc_worker" && r.Bool(3, 4) {
				ttl = math.MaxInt64
			}
			w.run(t, fmt.Sprintf("usp %s %d %d %d", svc, ttl, randVal(r), *nowp))
		case 1:
			w.run(t, fmt.Sprintf("usp %s %d %d %d %d", svc, randTTL(r, *nowp), randVal(r), *nowp, r.Range(1, 4)))
		case 2:
			if svc == "-" || path.Join(svcPrefix, svc) != svcPrefix+"/"+svc {
				svc = "a"
			}
			exp := "inf"
			if r.Bool(3, 4) {
				exp = strconv.FormatInt(*nowp+int64(r.Range(-10, 30)), 10)
			}
			w.run(t, fmt.Sprintf("raw %s %d %s", svc, randVal(r), exp))
		case 3:
			w.run(t, fmt.Sprintf("del %s", svc))
		}
	}
}

func main() {
	out := flag.String("out", "-", "trace file")
	replay := flag.String("replay", "", "ops file to replay instead of generating")
	n := flag.Int("n", 60, "number of random sequences per kind")
	maxOps := flag.Int("len", 30, "max ops per sequence")
	stream := flag.Uint64("stream", 0, "PRNG stream")
	streams := flag.Uint64("streams", 1, "number of streams the enumerated schedules are divided among")
	flag.Parse()

	w := newWorld()
	defer w.srv.Stop()
	t := trace.Create(*out)
	defer t.Close()
	if *replay != "" {
		for _, op := range trace.ReadOps(*replay) {
			w.run(t, op)
		}
		w.reset()
		return
	}
	r := rng.FromEnv(*stream)
	// 1. every interleaving of <= 3 requests at Load/Save granularity, this stream's share
	cnt := uint64(0)
	vals3 := [][]uint64{{10, 20, 30}, {30, 20, 10}, {20, 30, 10}, {20, 10, 20}}
	vals2 := [][]uint64{{10, 20}, {20, 10}, {20, 20}}
	for _, eager := range []bool{true, false} {
		for _, s := range schedules(2) {
			for _, v := range vals2 {
				for _, pre := range []uint64{0, 15} {
					if cnt%*streams == *stream%*streams {
						genSchedule(w, t, s, v, eager, pre)
					}
					cnt++
				}
			}
		}
		for _, s := range schedules(3) {
			v := vals3[int(cnt)%len(vals3)]
			if cnt%*streams == *stream%*streams {
				genSchedule(w, t, s, v, eager, 0)
			}
			cnt++
		}
	}
	// 2. random histories
	now := int64(0)
	for s := 0; s < *n; s++ {
		genCluster(w, t, r, *maxOps)
		genService(w, t, r, *maxOps, &now)
	}
	w.reset()
	_ = sort.Strings
}
