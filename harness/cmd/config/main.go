// Command config drives the dynamic-configuration setters of an in-process PD server
// (Server.SetScheduleConfig, SetReplicationConfig, SetPDServerConfig, SetLabelProperty, DeleteLabelProperty,
// SetLabelPropertyConfig, SetClusterVersion, SetReplicationModeConfig) with valid and invalid values and with
// storage failures, and after every call observes the served sections and what a fresh
// PersistOptions.Reload reads back from the same storage (property C18).
//
// Line: `<op> => <res> ; served: <cfg> ; reloaded: <cfg> ; writes: <c+|c!|r+|r!>*`
// where <cfg> = sch=… rep=… pd=… lp=… cv=… rm=… rule=… mm=…  (see dump).
package main

import (
	"flag"
	"fmt"
	"math"
	"sort"
	"strconv"
	"strings"
	"time"

	"github.com/coreos/go-semver/semver"
	"github.com/tikv/pd/pkg/typeutil"
	"github.com/tikv/pd/server/config"
	"github.com/tikv/pd/server/core"
	"github.com/tikv/pd/server/schedule/placement"
	"github.com/tikv/pd/server/versioninfo"

	_ "verifharness/internal/quiet"
	"verifharness/internal/rng"
	"verifharness/internal/storecfg"
	"verifharness/internal/trace"
)

type world struct {
	srv     *storecfg.Server
	started time.Time
	fkv     *storecfg.FailKV
	self    string // the server's client url
	def     struct {
		sch config.ScheduleConfig
		rep config.ReplicationConfig
		pd  config.PDServerConfig
		rm  config.ReplicationModeConfig
	}
}

func relevant(key string) bool {
	return key == "config" || strings.HasPrefix(key, "replication_mode")
}

// ---- fixed-point floats -----------------------------------------------------------------------

func fixStr(f float64) string {
	switch {
	case math.IsNaN(f):
		return "nan"
	case math.IsInf(f, 1):
		return "+inf"
	case math.IsInf(f, -1):
		return "-inf"
	}
	return strconv.FormatInt(int64(math.Round(f*1e6)), 10)
}

func fixVal(s string) float64 {
	switch s {
	case "nan":
		return math.NaN()
	case "+inf":
		return math.Inf(1)
	case "-inf":
		return math.Inf(-1)
	}
	n, _ := strconv.ParseInt(s, 10, 64)
	return float64(n) / 1e6
}

func b01(b bool) string {
	if b {
		return "1"
	}
	return "0"
}

func bits(bs ...bool) string {
	var sb strings.Builder
	for _, b := range bs {
		sb.WriteString(b01(b))
	}
	return sb.String()
}

func dash(s string) string {
	if s == "" {
		return "-"
	}
	return s
}

func undash(s string) string {
	if s == "-" {
		return ""
	}
	return s
}

func u64(s string) uint64 { n, _ := strconv.ParseUint(s, 10, 64); return n }
func dur(s string) typeutil.Duration {
	n, _ := strconv.ParseInt(s, 10, 64)
	return typeutil.Duration{Duration: time.Duration(n)}
}

// ---- schedule section ---------------------------------------------------------------------------
// sch = tol/low/high/rate/dis/en/opq/sl/schd
//   dis = DisableLearner,RemoveDown,ReplaceOffline,MakeUp,RemoveExtra,LocationReplacement (bits)
//   en  = EnableRemoveDown,ReplaceOffline,MakeUp,RemoveExtra,LocationReplacement (bits)
//   opq = the remaining scalar fields, comma separated, in the order of opqOf
//   sl  = id:add:remove,…   schd = type:args(+ separated):disable,…

func opqOf(c *config.ScheduleConfig) string {
	return strings.Join([]string{
		fmt.Sprint(c.MaxSnapshotCount), fmt.Sprint(c.MaxPendingPeerCount), fmt.Sprint(c.MaxMergeRegionSize),
		fmt.Sprint(c.MaxMergeRegionKeys), fmt.Sprint(int64(c.SplitMergeInterval.Duration)), b01(c.EnableOneWayMerge),
		b01(c.EnableCrossTableMerge), fmt.Sprint(int64(c.PatrolRegionInterval.Duration)),
		fmt.Sprint(int64(c.MaxStoreDownTime.Duration)), fmt.Sprint(c.LeaderScheduleLimit), dash(c.LeaderSchedulePolicy),
		fmt.Sprint(c.RegionScheduleLimit), fmt.Sprint(c.ReplicaScheduleLimit), fmt.Sprint(c.MergeScheduleLimit),
		fmt.Sprint(c.HotRegionScheduleLimit), fmt.Sprint(c.HotRegionCacheHitsThreshold), dash(c.RegionScoreFormulaVersion),
		fmt.Sprint(c.SchedulerMaxWaitingOperator), b01(c.EnableDebugMetrics), b01(c.EnableJointConsensus),
		dash(c.StoreLimitMode)}, ",")
}

func setOpq(c *config.ScheduleConfig, s string) bool {
	f := strings.Split(s, ",")
	if len(f) != 21 {
		return false
	}
	c.MaxSnapshotCount, c.MaxPendingPeerCount, c.MaxMergeRegionSize, c.MaxMergeRegionKeys = u64(f[0]), u64(f[1]), u64(f[2]), u64(f[3])
	c.SplitMergeInterval, c.EnableOneWayMerge, c.EnableCrossTableMerge = dur(f[4]), f[5] == "1", f[6] == "1"
	c.PatrolRegionInterval, c.MaxStoreDownTime, c.LeaderScheduleLimit = dur(f[7]), dur(f[8]), u64(f[9])
	c.LeaderSchedulePolicy, c.RegionScheduleLimit, c.ReplicaScheduleLimit = undash(f[10]), u64(f[11]), u64(f[12])
	c.MergeScheduleLimit, c.HotRegionScheduleLimit, c.HotRegionCacheHitsThreshold = u64(f[13]), u64(f[14]), u64(f[15])
	c.RegionScoreFormulaVersion, c.SchedulerMaxWaitingOperator = undash(f[16]), u64(f[17])
	c.EnableDebugMetrics, c.EnableJointConsensus, c.StoreLimitMode = f[18] == "1", f[19] == "1", undash(f[20])
	return true
}

func schStr(c *config.ScheduleConfig) string {
	var ids []uint64
	for id := range c.StoreLimit {
		ids = append(ids, id)
	}
	sort.Slice(ids, func(i, j int) bool { return ids[i] < ids[j] })
	var sl []string
	for _, id := range ids {
		sl = append(sl, fmt.Sprintf("%d:%s:%s", id, fixStr(c.StoreLimit[id].AddPeer), fixStr(c.StoreLimit[id].RemovePeer)))
	}
	var sd []string
	for _, s := range c.Schedulers {
		sd = append(sd, fmt.Sprintf("%s:%s:%s", dash(s.Type), dash(strings.Join(s.Args, "+")), b01(s.Disable)))
	}
	return strings.Join([]string{fixStr(c.TolerantSizeRatio), fixStr(c.LowSpaceRatio), fixStr(c.HighSpaceRatio),
		fixStr(c.StoreBalanceRate),
		bits(c.DisableLearner, c.DisableRemoveDownReplica, c.DisableReplaceOfflineReplica, c.DisableMakeUpReplica,
			c.DisableRemoveExtraReplica, c.DisableLocationReplacement),
		bits(c.EnableRemoveDownReplica, c.EnableReplaceOfflineReplica, c.EnableMakeUpReplica, c.EnableRemoveExtraReplica,
			c.EnableLocationReplacement),
		opqOf(c), dash(strings.Join(sl, ",")), dash(strings.Join(sd, ","))}, "/")
}

func parseSch(s string) (*config.ScheduleConfig, bool) {
	f := strings.Split(s, "/")
	if len(f) != 9 || len(f[4]) != 6 || len(f[5]) != 5 {
		return nil, false
	}
	c := &config.ScheduleConfig{}
	c.TolerantSizeRatio, c.LowSpaceRatio, c.HighSpaceRatio, c.StoreBalanceRate = fixVal(f[0]), fixVal(f[1]), fixVal(f[2]), fixVal(f[3])
	d := f[4]
	c.DisableLearner, c.DisableRemoveDownReplica, c.DisableReplaceOfflineReplica = d[0] == '1', d[1] == '1', d[2] == '1'
	c.DisableMakeUpReplica, c.DisableRemoveExtraReplica, c.DisableLocationReplacement = d[3] == '1', d[4] == '1', d[5] == '1'
	e := f[5]
	c.EnableRemoveDownReplica, c.EnableReplaceOfflineReplica, c.EnableMakeUpReplica = e[0] == '1', e[1] == '1', e[2] == '1'
	c.EnableRemoveExtraReplica, c.EnableLocationReplacement = e[3] == '1', e[4] == '1'
	if !setOpq(c, f[6]) {
		return nil, false
	}
	c.StoreLimit = map[uint64]config.StoreLimitConfig{}
	if f[7] != "-" {
		for _, e := range strings.Split(f[7], ",") {
			p := strings.Split(e, ":")
			if len(p) != 3 {
				return nil, false
			}
			c.StoreLimit[u64(p[0])] = config.StoreLimitConfig{AddPeer: fixVal(p[1]), RemovePeer: fixVal(p[2])}
		}
	}
	if f[8] != "-" {
		for _, e := range strings.Split(f[8], ",") {
			p := strings.Split(e, ":")
			if len(p) != 3 {
				return nil, false
			}
			var args []string
			if p[1] != "-" {
				args = strings.Split(p[1], "+")
			}
			c.Schedulers = append(c.Schedulers, config.SchedulerConfig{Type: undash(p[0]), Args: args, Disable: p[2] == "1"})
		}
	}
	return c, true
}

// ---- the other sections -------------------------------------------------------------------------

// rep = max/loc(+)/strict/pr/iso
func repStr(c *config.ReplicationConfig) string {
	return fmt.Sprintf("%d/%s/%s/%s/%s", c.MaxReplicas, dash(strings.Join(c.LocationLabels, "+")), b01(c.StrictlyMatchLabel),
		b01(c.EnablePlacementRules), dash(c.IsolationLevel))
}

func parseRep(s string) (*config.ReplicationConfig, bool) {
	f := strings.Split(s, "/")
	if len(f) != 5 {
		return nil, false
	}
	c := &config.ReplicationConfig{MaxReplicas: u64(f[0]), StrictlyMatchLabel: f[2] == "1", EnablePlacementRules: f[3] == "1",
		IsolationLevel: undash(f[4])}
	// an empty list is never nil here (nor in reset), as when it arrives through the HTTP API
	// (StringSlice.UnmarshalJSON): SetReplicationConfig compares label lists with reflect.DeepEqual, which
	// tells nil from empty; that distinction is not explored
	c.LocationLabels = typeutil.StringSlice{}
	if f[1] != "-" {
		c.LocationLabels = strings.Split(f[1], "+")
	}
	return c, true
}

// pd = dash/trace/digit/opq    opq = useRegionStorage,maxResetTSGap,keyType,runtimeServices(+),metricStorage
func (w *world) dashTok(a string) string {
	switch {
	case a == w.self:
		return "self"
	case a == strings.TrimPrefix(w.self, "http://"):
		return "selfhost"
	case a == "http://127.0.0.1:1":
		return "otherurl"
	case a == "127.0.0.1:1":
		return "otherhost"
	}
	return dash(a)
}

func (w *world) dashVal(t string) string {
	switch t {
	case "self":
		return w.self
	case "selfhost":
		return strings.TrimPrefix(w.self, "http://")
	case "otherurl":
		return "http://127.0.0.1:1"
	case "otherhost":
		return "127.0.0.1:1"
	}
	return undash(t)
}

func (w *world) pdStr(c *config.PDServerConfig) string {
	opq := strings.Join([]string{b01(c.UseRegionStorage), fmt.Sprint(int64(c.MaxResetTSGap.Duration)), dash(c.KeyType),
		dash(strings.Join(c.RuntimeServices, "+")), dash(c.MetricStorage)}, ",")
	return fmt.Sprintf("%s/%s/%d/%s", w.dashTok(c.DashboardAddress), b01(c.TraceRegionFlow), c.FlowRoundByDigit, opq)
}

func (w *world) parsePD(s string) (*config.PDServerConfig, bool) {
	f := strings.Split(s, "/")
	if len(f) != 4 {
		return nil, false
	}
	o := strings.Split(f[3], ",")
	if len(o) != 5 {
		return nil, false
	}
	digit, _ := strconv.Atoi(f[2])
	c := &config.PDServerConfig{DashboardAddress: w.dashVal(f[0]), TraceRegionFlow: f[1] == "1", FlowRoundByDigit: digit,
		UseRegionStorage: o[0] == "1", MaxResetTSGap: dur(o[1]), KeyType: undash(o[2]), MetricStorage: undash(o[4])}
	if o[3] != "-" {
		c.RuntimeServices = strings.Split(o[3], "+")
	}
	return c, true
}

// lp = typ:k=v+k=v,typ:…  (types sorted; entries in list order)
func lpStr(c config.LabelPropertyConfig) string {
	var typs []string
	for t := range c {
		typs = append(typs, t)
	}
	sort.Strings(typs)
	var parts []string
	for _, t := range typs {
		var es []string
		for _, l := range c[t] {
			es = append(es, l.Key+"="+l.Value)
		}
		parts = append(parts, t+":"+dash(strings.Join(es, "+")))
	}
	return dash(strings.Join(parts, ","))
}

func parseLP(s string) config.LabelPropertyConfig {
	c := config.LabelPropertyConfig{}
	if s == "-" {
		return c
	}
	for _, p := range strings.Split(s, ",") {
		tv := strings.SplitN(p, ":", 2)
		c[tv[0]] = []config.StoreLabel{}
		if len(tv) == 2 && tv[1] != "-" {
			for _, e := range strings.Split(tv[1], "+") {
				kv := strings.SplitN(e, "=", 2)
				if len(kv) == 1 {
					kv = append(kv, "")
				}
				c[tv[0]] = append(c[tv[0]], config.StoreLabel{Key: kv[0], Value: kv[1]})
			}
		}
	}
	return c
}

// rm = mode/labelKey/opq   opq = primary,dr,primaryReplicas,drReplicas,waitStore,waitSync,waitAsync
func rmStr(c *config.ReplicationModeConfig) string {
	d := c.DRAutoSync
	opq := strings.Join([]string{dash(d.Primary), dash(d.DR), fmt.Sprint(d.PrimaryReplicas), fmt.Sprint(d.DRReplicas),
		fmt.Sprint(int64(d.WaitStoreTimeout.Duration)), fmt.Sprint(int64(d.WaitSyncTimeout.Duration)),
		fmt.Sprint(int64(d.WaitAsyncTimeout.Duration))}, ",")
	return fmt.Sprintf("%s/%s/%s", dash(c.ReplicationMode), dash(d.LabelKey), opq)
}

func parseRM(s string) (*config.ReplicationModeConfig, bool) {
	f := strings.Split(s, "/")
	if len(f) != 3 {
		return nil, false
	}
	o := strings.Split(f[2], ",")
	if len(o) != 7 {
		return nil, false
	}
	pr, _ := strconv.Atoi(o[2])
	dr, _ := strconv.Atoi(o[3])
	return &config.ReplicationModeConfig{ReplicationMode: undash(f[0]), DRAutoSync: config.DRAutoSyncReplicationConfig{
		LabelKey: undash(f[1]), Primary: undash(o[0]), DR: undash(o[1]), PrimaryReplicas: pr, DRReplicas: dr,
		WaitStoreTimeout: dur(o[4]), WaitSyncTimeout: dur(o[5]), WaitAsyncTimeout: dur(o[6])}}, true
}

func verStr(v *semver.Version) string { return fmt.Sprintf("%d.%d.%d", v.Major, v.Minor, v.Patch) }

func (w *world) optStr(o *config.PersistOptions) string {
	return fmt.Sprintf("sch=%s rep=%s pd=%s lp=%s cv=%s rm=%s", schStr(o.GetScheduleConfig()), repStr(o.GetReplicationConfig()),
		w.pdStr(o.GetPDServerConfig()), lpStr(o.GetLabelPropertyConfig()), verStr(o.GetClusterVersion()),
		rmStr(o.GetReplicationModeConfig()))
}

func (w *world) dump() string {
	svr := w.srv.Svr
	served := w.optStr(svr.GetPersistOptions())
	// the default placement rule and the mode manager's view take part in later decisions
	rule := "-"
	if r := svr.GetRaftCluster().GetRuleManager().GetRule("pd", "default"); r != nil {
		rule = fmt.Sprintf("%d/%s", r.Count, dash(strings.Join(r.LocationLabels, "+")))
	}
	cfg := config.NewConfig()
	if err := cfg.Adjust(nil, false); err != nil {
		panic(err)
	}
	fresh := config.NewPersistOptions(cfg)
	reloaded := "reload-error"
	// a newly elected leader has its own core.Storage over the same kv: never read back through the object
	// the setters write with (whatever it caches or remembers must not take part in the observation)
	if err := fresh.Reload(core.NewStorage(w.fkv.Base)); err == nil {
		reloaded = w.optStr(fresh)
	}
	var ws []string
	for _, x := range w.fkv.Log() {
		k := "c"
		if x.Key != "config" {
			k = "r"
		}
		if x.Failed {
			k += "!"
		} else {
			k += "+"
		}
		ws = append(ws, k)
	}
	wl := "-"
	if len(ws) > 0 {
		wl = strings.Join(ws, " ")
	}
	return fmt.Sprintf("served: %s rule=%s ; reloaded: %s ; writes: %s", served, rule, reloaded, wl)
}

func classify(err error) string {
	if err == nil {
		return "ok"
	}
	m := err.Error()
	switch {
	case storecfg.IsInjected(err):
		return "kverr"
	case strings.Contains(m, "ErrJSONMarshal"), strings.Contains(m, "json: unsupported value"):
		return "json"
	case strings.Contains(m, "tolerant-size-ratio should be nonnegative"):
		return "tolerant"
	case strings.Contains(m, "low-space-ratio should between"):
		return "lowrange"
	case strings.Contains(m, "high-space-ratio should between"):
		return "highrange"
	case strings.Contains(m, "low-space-ratio should be larger"):
		return "lowhigh"
	case strings.Contains(m, "is not registered"):
		return "scheduler"
	case strings.Contains(m, "has already been deprecated"):
		return "deprecated"
	case strings.Contains(m, "does not match format"):
		return "label"
	case strings.Contains(m, "isolation-level must be"):
		return "isolation"
	case strings.Contains(m, "not only default rule exists"), strings.Contains(m, "do not consistent with replication config"):
		return "rule"
	case strings.Contains(m, "invalid count"), strings.Contains(m, "ErrRuleContent"), strings.Contains(m, "ErrBuildRuleList"):
		return "rulecontent"
	case strings.Contains(m, "is not the client url of any member"):
		return "dashboard"
	case strings.Contains(m, "flow round by digit cannot be negative"):
		return "digit"
	case strings.Contains(m, "has no scheme"), strings.Contains(m, "invalid URI"), strings.Contains(m, "parse "):
		return "dashboard"
	case strings.Contains(m, "invalid replication mode"):
		return "mode"
	case strings.Contains(m, "ErrSemverNewVersion"), strings.Contains(m, "is not in dotted-tri format"), strings.Contains(m, "semver"):
		return "version"
	}
	return "err:" + strings.ReplaceAll(m, " ", "_")
}

// ---- server life cycle ------------------------------------------------------------------------------

func (w *world) ensureServer() {
	// a fresh server every 40 s: the replication-mode manager starts its own periodic storage writes one
	// minute after the cluster started, which would be counted into an operation's write numbering
	if w.srv != nil && time.Since(w.started) < 40*time.Second {
		return
	}
	if w.srv != nil {
		w.srv.Stop()
	}
	w.srv = storecfg.StartServer(true)
	w.started = time.Now()
	st := w.srv.Svr.GetStorage()
	w.fkv = &storecfg.FailKV{Base: st.Base, Relevant: relevant}
	st.Base = w.fkv
	w.self = w.srv.Svr.GetConfig().AdvertiseClientUrls
	o := w.srv.Svr.GetPersistOptions()
	w.def.sch = *o.GetScheduleConfig().Clone()
	w.def.rep = *o.GetReplicationConfig().Clone()
	if len(w.def.rep.LocationLabels) == 0 {
		w.def.rep.LocationLabels = typeutil.StringSlice{}
	}
	w.def.pd = *o.GetPDServerConfig().Clone()
	w.def.rm = *o.GetReplicationModeConfig().Clone()
}

func (w *world) reset(f []string) string {
	cv := "4.0.0"
	for _, a := range f[1:] {
		if strings.HasPrefix(a, "cv=") {
			cv = a[3:]
		}
	}
	v, err := semver.NewVersion(cv)
	if err != nil {
		return "bad-op"
	}
	w.ensureServer()
	w.fkv.Arm(0)
	svr := w.srv.Svr
	o := svr.GetPersistOptions()
	o.SetScheduleConfig(w.def.sch.Clone())
	o.SetReplicationConfig(w.def.rep.Clone())
	o.SetPDServerConfig(w.def.pd.Clone())
	o.SetReplicationModeConfig(w.def.rm.Clone())
	o.SetLabelPropertyConfig(config.LabelPropertyConfig{})
	o.SetClusterVersion(v)
	if err := o.Persist(svr.GetStorage()); err != nil {
		panic(err)
	}
	rc := svr.GetRaftCluster()
	if err := rc.GetRuleManager().SetRule(&placement.Rule{GroupID: "pd", ID: "default", Role: placement.Voter,
		Count: int(w.def.rep.MaxReplicas), LocationLabels: append([]string{}, w.def.rep.LocationLabels...)}); err != nil {
		panic(err)
	}
	if err := rc.GetReplicationMode().UpdateConfig(*w.def.rm.Clone()); err != nil {
		panic(err)
	}
	w.fkv.Arm(0)
	return "ok"
}

func (w *world) exec(op string) (res string) {
	defer func() {
		if r := recover(); r != nil {
			res = "panic"
		}
	}()
	f := strings.Fields(op)
	bad := "bad-op"
	if len(f) == 0 {
		return bad
	}
	if f[0] == "reset" {
		return w.reset(f)
	}
	if w.srv == nil {
		return bad
	}
	svr := w.srv.Svr
	mask := func(s string) { w.fkv.Arm(u64(s)) }
	w.fkv.Arm(0)
	switch {
	case f[0] == "sched" && len(f) == 3:
		c, ok := parseSch(f[1])
		if !ok {
			return bad
		}
		mask(f[2])
		return classify(svr.SetScheduleConfig(*c))
	case f[0] == "repl" && len(f) == 3:
		c, ok := parseRep(f[1])
		if !ok {
			return bad
		}
		mask(f[2])
		return classify(svr.SetReplicationConfig(*c))
	case f[0] == "pdsrv" && len(f) == 3:
		c, ok := w.parsePD(f[1])
		if !ok {
			return bad
		}
		mask(f[2])
		return classify(svr.SetPDServerConfig(*c))
	case f[0] == "lpset" && len(f) == 5:
		mask(f[4])
		return classify(svr.SetLabelProperty(f[1], f[2], undash(f[3])))
	case f[0] == "lpdel" && len(f) == 5:
		mask(f[4])
		return classify(svr.DeleteLabelProperty(f[1], f[2], undash(f[3])))
	case f[0] == "lpcfg" && len(f) == 3:
		mask(f[2])
		return classify(svr.SetLabelPropertyConfig(parseLP(f[1])))
	case f[0] == "cver" && len(f) == 3:
		mask(f[2])
		return classify(svr.SetClusterVersion(undash(f[1])))
	case f[0] == "foreign" && len(f) == 3:
		// another member was leader meanwhile: its own options object (reloaded from the same kv through its own
		// Storage), one section replaced, persisted; its writes by-pass the failure wrapper
		cfg := config.NewConfig()
		if err := cfg.Adjust(nil, false); err != nil {
			panic(err)
		}
		other := config.NewPersistOptions(cfg)
		st := core.NewStorage(w.fkv.Base)
		if err := other.Reload(st); err != nil {
			return classify(err)
		}
		switch f[1] {
		case "sched":
			c, ok := parseSch(f[2])
			if !ok {
				return bad
			}
			other.SetScheduleConfig(c)
		case "repl":
			c, ok := parseRep(f[2])
			if !ok {
				return bad
			}
			other.SetReplicationConfig(c)
		case "pdsrv":
			c, ok := w.parsePD(f[2])
			if !ok {
				return bad
			}
			other.SetPDServerConfig(c)
		case "lpcfg":
			other.SetLabelPropertyConfig(parseLP(f[2]))
		case "cver":
			v, err := versioninfo.ParseVersion(undash(f[2]))
			if err != nil {
				return bad
			}
			other.SetClusterVersion(v)
		case "rmode":
			c, ok := parseRM(f[2])
			if !ok {
				return bad
			}
			other.SetReplicationModeConfig(c)
		default:
			return bad
		}
		return classify(other.Persist(st))
	case f[0] == "reload" && len(f) == 1:
		// this member is re-elected: server.reloadConfigFromKV = Reload on the options object that serves
		return classify(svr.GetPersistOptions().Reload(svr.GetStorage()))
	case f[0] == "rmode" && len(f) == 3:
		c, ok := parseRM(f[1])
		if !ok {
			return bad
		}
		mask(f[2])
		return classify(svr.SetReplicationModeConfig(*c))
	}
	return bad
}

func (w *world) run(t *trace.W, op string) string {
	if w.srv != nil {
		w.srv.MustLead(true)
	}
	res := w.exec(op)
	if w.srv != nil {
		w.srv.MustLead(true)
	}
	if res == "bad-op" || w.srv == nil {
		t.Line(op, res)
		return res
	}
	t.Line(op, res+" ; "+w.dump())
	return res
}

func main() {
	out := flag.String("out", "-", "trace file")
	replay := flag.String("replay", "", "ops file to replay instead of generating")
	n := flag.Int("n", 60, "number of generated sequences")
	maxOps := flag.Int("len", 40, "max ops per sequence")
	stream := flag.Uint64("stream", 0, "PRNG stream")
	flag.Parse()

	w := &world{}
	t := trace.Create(*out)
	defer func() { // after the trace has been flushed
		if w.srv != nil {
			w.srv.Abandon()
		}
	}()
	defer t.Close()
	if *replay != "" {
		for _, op := range trace.ReadOps(*replay) {
			w.run(t, op)
		}
		return
	}
	r := rng.FromEnv(*stream)
	for s := 0; s < *n; s++ {
		gen(w, t, r, *maxOps)
	}
}
