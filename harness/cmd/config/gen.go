package main

import (
	"fmt"
	"math"
	"strings"
	"time"

	"github.com/tikv/pd/pkg/typeutil"
	"github.com/tikv/pd/server/config"

	"verifharness/internal/rng"
	"verifharness/internal/trace"
)

var (
	// domain edges of the three ratios (x 10^-6) and the non-finite values
	genRatio = []string{"0", "0", "1", "100000", "500000", "699999", "700000", "700001", "799999", "800000", "800001",
		"900000", "999999", "1000000", "1000001", "2000000", "-1", "-100000", "nan", "+inf", "-inf"}
	genTol       = []string{"0", "0", "0", "1", "2500000", "5000000", "-1", "-2500000", "nan", "+inf", "-inf"}
	genLimits    = []string{"0", "1000000", "15000000", "30000000", "200000000", "-1000000", "nan", "+inf"}
	genSchedType = []string{"balance-region", "balance-leader", "hot-region", "label", "evict-leader", "grant-leader",
		"shuffle-region", "random-merge", "balance-regoin", "no-such-scheduler", "-"}
	genLabelKeys = []string{"zone", "rack", "host", "dc", "$region", "a.b_c-d", "-bad", "bad-", "b@d", "x"}
	genVersions  = []string{"4.0.0", "4.0.9", "5.0.0", "5.1.0-alpha", "v5.0.0", "3.1.2", "-", "5.0", "five", "1.2.3.4"}
	genModes     = []string{"majority", "majority", "majority", "dr-auto-sync", "dr-auto-sync", "dr-auto-sync", "dr-auto-sync",
		"dr_auto_sync", "DR-AUTO-SYNC", "Majority", "sync", "-"}
	genLPTypes   = []string{"reject-leader", "reject-leader", "custom"}
	genLPKeys    = []string{"zone", "host"}
	genLPVals    = []string{"z1", "z2", "-"}
	genDash      = []string{"auto", "none", "self", "selfhost", "otherurl", "otherhost", "junk", "-"}
)

func pick(r *rng.R, l []string) string { return l[r.Intn(len(l))] }

func genMask(r *rng.R) int {
	if r.Bool(2, 3) {
		return 0
	}
	return r.Range(1, 7)
}

func genSched(w *world, r *rng.R) string {
	c := w.srv.Svr.GetPersistOptions().GetScheduleConfig().Clone()
	if r.Bool(1, 6) {
		c = w.def.sch.Clone()
	}
	for k, n := 0, r.Range(1, 4); k < n; k++ {
		switch r.Pick(20, 25, 25, 5, 10, 10, 25, 20, 15) {
		case 0:
			c.TolerantSizeRatio = fixVal(pick(r, genTol))
		case 1:
			c.LowSpaceRatio = fixVal(pick(r, genRatio))
		case 2:
			c.HighSpaceRatio = fixVal(pick(r, genRatio))
		case 3:
			c.StoreBalanceRate = fixVal(pick(r, []string{"0", "0", "15000000", "nan"}))
		case 4:
			// one deprecated flag
			fl := []*bool{&c.DisableLearner, &c.DisableRemoveDownReplica, &c.DisableReplaceOfflineReplica,
				&c.DisableMakeUpReplica, &c.DisableRemoveExtraReplica, &c.DisableLocationReplacement}
			p := fl[r.Intn(len(fl))]
			*p = !*p
		case 5:
			fl := []*bool{&c.EnableRemoveDownReplica, &c.EnableReplaceOfflineReplica, &c.EnableMakeUpReplica,
				&c.EnableRemoveExtraReplica, &c.EnableLocationReplacement, &c.EnableOneWayMerge, &c.EnableCrossTableMerge,
				&c.EnableDebugMetrics, &c.EnableJointConsensus}
			p := fl[r.Intn(len(fl))]
			*p = !*p
		case 6:
			// opaque scalars
			switch r.Intn(8) {
			case 0:
				c.MaxSnapshotCount = uint64(r.Intn(5))
			case 1:
				c.LeaderScheduleLimit = uint64(r.Intn(9))
			case 2:
				c.RegionScheduleLimit = uint64(r.Pick(1, 1, 1)) * 1024
			case 3:
				c.MaxStoreDownTime = typeutil.Duration{Duration: time.Duration(r.Intn(4)) * 10 * time.Minute}
			case 4:
				c.PatrolRegionInterval = typeutil.Duration{Duration: time.Duration(r.Intn(3)) * 50 * time.Millisecond}
			case 5:
				// only the two valid policies: any other string is accepted by SetScheduleConfig as well, and
				// later makes core.StringToSchedulePolicy panic in a background goroutine (docs/C18.md, note)
				c.LeaderSchedulePolicy = pick(r, []string{"count", "size"})
			case 6:
				c.StoreLimitMode = pick(r, []string{"manual", "auto", ""})
			case 7:
				c.RegionScoreFormulaVersion = pick(r, []string{"v1", "v2", ""})
			}
		case 7:
			// store limits
			if c.StoreLimit == nil || r.Bool(1, 5) {
				c.StoreLimit = map[uint64]config.StoreLimitConfig{}
			}
			c.StoreLimit[uint64(r.Range(1, 4))] = config.StoreLimitConfig{AddPeer: fixVal(pick(r, genLimits)),
				RemovePeer: fixVal(pick(r, genLimits))}
		case 8:
			// schedulers: drop one / add one / toggle one
			switch r.Intn(4) {
			case 0:
				if len(c.Schedulers) > 0 {
					i := r.Intn(len(c.Schedulers))
					c.Schedulers = append(c.Schedulers[:i:i], c.Schedulers[i+1:]...)
				}
			case 1, 2:
				var args []string
				if r.Bool(1, 3) {
					args = []string{fmt.Sprint(r.Range(1, 3))}
				}
				c.Schedulers = append(c.Schedulers, config.SchedulerConfig{Type: undash(pick(r, genSchedType)), Args: args,
					Disable: r.Bool(1, 4)})
			case 3:
				if len(c.Schedulers) > 0 {
					i := r.Intn(len(c.Schedulers))
					c.Schedulers[i].Disable = !c.Schedulers[i].Disable
				}
			}
		}
	}
	_ = math.NaN
	return schStr(c)
}

func genRepl(w *world, r *rng.R) string {
	c := w.srv.Svr.GetPersistOptions().GetReplicationConfig().Clone()
	for k, n := 0, r.Range(1, 3); k < n; k++ {
		switch r.Pick(25, 30, 10, 20, 25) {
		case 0:
			c.MaxReplicas = uint64(r.Pick(5, 10, 5, 30, 5, 20))
		case 1:
			nl := r.Pick(20, 40, 30, 10)
			c.LocationLabels = nil
			for i := 0; i < nl; i++ {
				k := genLabelKeys[r.Pick(20, 20, 20, 10, 4, 4, 3, 3, 3, 3)]
				c.LocationLabels = append(c.LocationLabels, k)
			}
		case 2:
			c.StrictlyMatchLabel = !c.StrictlyMatchLabel
		case 3:
			c.EnablePlacementRules = !c.EnablePlacementRules
		case 4:
			c.IsolationLevel = undash(pick(r, []string{"-", "-", "zone", "rack", "host", "nope"}))
			if len(c.LocationLabels) > 0 && r.Bool(1, 2) {
				c.IsolationLevel = c.LocationLabels[r.Intn(len(c.LocationLabels))]
			}
		}
	}
	if len(c.LocationLabels) == 0 {
		c.LocationLabels = typeutil.StringSlice{} // see parseRep
	}
	return repStr(c)
}

func genPD(w *world, r *rng.R) string {
	c := w.srv.Svr.GetPersistOptions().GetPDServerConfig().Clone()
	for k, n := 0, r.Range(1, 3); k < n; k++ {
		switch r.Pick(30, 15, 30, 25) {
		case 0:
			c.DashboardAddress = w.dashVal(pick(r, genDash))
		case 1:
			c.TraceRegionFlow = !c.TraceRegionFlow
		case 2:
			c.FlowRoundByDigit = []int{0, 1, 3, 5, 127, -1, -3}[r.Intn(7)]
		case 3:
			switch r.Intn(4) {
			case 0:
				c.KeyType = pick(r, []string{"table", "raw", "txn", "", "odd"})
			case 1:
				c.UseRegionStorage = !c.UseRegionStorage
			case 2:
				c.MetricStorage = pick(r, []string{"", "prom:9090"})
			case 3:
				c.RuntimeServices = [][]string{nil, {"tidb"}, {"a", "b"}}[r.Intn(3)]
			}
		}
	}
	return w.pdStr(c)
}

func genRM(w *world, r *rng.R) string {
	c := w.srv.Svr.GetPersistOptions().GetReplicationModeConfig().Clone()
	for k, n := 0, r.Range(1, 2); k < n; k++ {
		switch r.Pick(50, 30, 20) {
		case 0:
			c.ReplicationMode = undash(pick(r, genModes))
		case 1:
			c.DRAutoSync.LabelKey = undash(pick(r, []string{"zone", "dc", "-"}))
		case 2:
			c.DRAutoSync.Primary, c.DRAutoSync.DR = pick(r, []string{"east", "west"}), pick(r, []string{"west", "north"})
			c.DRAutoSync.PrimaryReplicas, c.DRAutoSync.DRReplicas = r.Range(0, 3), r.Range(0, 2)
			c.DRAutoSync.WaitStoreTimeout = typeutil.Duration{Duration: time.Duration(r.Range(0, 3)) * time.Minute}
		}
	}
	return rmStr(c)
}

func genLP(r *rng.R) string {
	var parts []string
	seen := map[string]bool{}
	for i, n := 0, r.Range(0, 2); i < n; i++ {
		t := pick(r, genLPTypes)
		if seen[t] {
			continue
		}
		seen[t] = true
		var es []string
		for j, m := 0, r.Range(0, 2); j < m; j++ {
			es = append(es, pick(r, genLPKeys)+"="+undash(pick(r, genLPVals)))
		}
		parts = append(parts, t+":"+dash(strings.Join(es, "+")))
	}
	return lpStr(parseLP(dash(strings.Join(parts, ","))))
}

// gen produces one op sequence and executes it as it goes.
func gen(w *world, t *trace.W, r *rng.R, maxOps int) {
	w.run(t, fmt.Sprintf("reset cv=%s", []string{"4.0.0", "5.0.0"}[r.Intn(2)]))
	ops := r.Range(4, maxOps)
	for k := 0; k < ops; k++ {
		var op string
		switch r.Pick(28, 20, 12, 10, 8, 5, 7, 10, 9, 7) {
		case 8:
			// another member led meanwhile and changed one section (values below and above the served ones)
			switch r.Intn(6) {
			case 0:
				op = "foreign sched " + genSched(w, r)
			case 1:
				op = "foreign repl " + genRepl(w, r)
			case 2:
				op = "foreign pdsrv " + genPD(w, r)
			case 3:
				op = "foreign lpcfg " + genLP(r)
			case 4:
				op = "foreign cver " + pick(r, []string{"3.1.2", "4.0.0", "4.0.9", "5.0.0", "5.1.0", "6.0.0"})
			case 5:
				op = "foreign rmode " + genRM(w, r)
			}
		case 9:
			// this member is re-elected and reloads into the options object it serves from
			op = "reload"
		case 0:
			op = fmt.Sprintf("sched %s %d", genSched(w, r), genMask(r))
		case 1:
			op = fmt.Sprintf("repl %s %d", genRepl(w, r), genMask(r))
		case 2:
			op = fmt.Sprintf("pdsrv %s %d", genPD(w, r), genMask(r))
		case 3:
			op = fmt.Sprintf("lpset %s %s %s %d", pick(r, genLPTypes), pick(r, genLPKeys), pick(r, genLPVals), genMask(r))
		case 4:
			op = fmt.Sprintf("lpdel %s %s %s %d", pick(r, genLPTypes), pick(r, genLPKeys), pick(r, genLPVals), genMask(r))
		case 5:
			op = fmt.Sprintf("lpcfg %s %d", genLP(r), genMask(r))
		case 6:
			op = fmt.Sprintf("cver %s %d", pick(r, genVersions), genMask(r))
		case 7:
			op = fmt.Sprintf("rmode %s %d", genRM(w, r), []int{0, 0, 0, 1, 2, 2, 6, 6, 4, 3}[r.Intn(10)])
		}
		res := w.run(t, op)
		// a call rejected by the storage is retried unchanged with healthy storage half of the time (an
		// operator's natural reaction); every line is followed by a reload on a fresh Storage + options object
		if (res == "kverr" || res == "json") && !strings.HasPrefix(op, "foreign") && r.Bool(1, 2) {
			f := strings.Fields(op)
			f[len(f)-1] = "0"
			w.run(t, strings.Join(f, " "))
		}
	}
}
