package main

import (
	"fmt"
	"strings"

	"verifharness/internal/rng"
	"verifharness/internal/trace"
)

var (
	genAddrs    = []string{"a1", "a2", "a3", "a4"}
	genVersions = []string{"4.0.0", "4.0.0", "4.0.0", "4.0.1", "4.0.5", "4.1.0", "4.1.0", "5.0.0", "3.0.5", "3.0.0", "-", "bad"}
	genCVs      = []string{"1.0.0", "2.0.0", "3.0.0", "4.0.0", "4.0.0"}
	genLocs     = []string{"-", "-", "zone", "zone,host"}
	genKeys     = []string{"zone", "zone", "host", "host", "Zone", "engine", "disk"}
	genVals     = map[string][]string{
		"zone": {"z1", "z2", "Z1", ""}, "Zone": {"z1", "z3", ""}, "host": {"h1", "h2", ""},
		"engine": {"tiflash", "tikv", ""}, "disk": {"ssd", ""},
	}
	genWeights = []string{"0", "500000", "1000000", "2000000", "2500000"}
)

func genLabels(r *rng.R) string {
	n := r.Pick(30, 40, 25, 5)
	if n == 0 {
		return "-"
	}
	var parts []string
	for i := 0; i < n; i++ {
		k := genKeys[r.Intn(len(genKeys))]
		vs := genVals[k]
		parts = append(parts, k+"="+vs[r.Intn(len(vs))])
	}
	return strings.Join(parts, ",")
}

func genMask(r *rng.R) int {
	if r.Bool(3, 4) {
		return 0
	}
	return r.Range(1, 7)
}

func genID(r *rng.R) int {
	switch r.Pick(94, 2, 4) {
	case 1:
		return 0
	case 2:
		return 9
	}
	return r.Pick(30, 30, 20, 12, 8) + 1
}

// gen produces one op sequence and executes it as it goes.  All choices derive from the PRNG only.
func gen(w *world, t *trace.W, r *rng.R, maxOps int, srv bool) {
	mode := "rc"
	if srv {
		mode = "srv"
	}
	strict := 0
	if r.Bool(1, 4) {
		strict = 1
	}
	w.run(t, fmt.Sprintf("reset %s strict=%d loc=%s pr=%d cv=%s", mode, strict, genLocs[r.Intn(len(genLocs))],
		r.Intn(2), genCVs[r.Intn(len(genCVs))]))
	// a malformed sequence may register stores that are born offline/tombstone/destroyed
	malformed := r.Bool(1, 8)
	// populate: a few stores with distinct addresses and mutually compatible versions
	for id, n := 1, r.Range(0, 4); id <= n; id++ {
		name := "put"
		if srv && r.Bool(1, 2) {
			name = "gput"
		}
		w.run(t, fmt.Sprintf("%s %d %s %s %d %s U 0 0", name, id, genAddrs[id-1],
			[]string{"4.0.0", "4.0.1", "4.0.5", "4.1.0"}[r.Intn(4)], r.Intn(3), genLabels(r)))
	}
	ops := r.Range(5, maxOps)
	cleaned := false
	for k := 0; k < ops; k++ {
		var op string
		weights := []int{22, 10, 14, 9, 12, 3, 7, 5, 12, 0, 0, 4}
		if srv {
			weights[9], weights[10], weights[11] = 12, 14, 0
		}
		switch r.Pick(weights...) {
		case 0, 9:
			name := "put"
			if srv && r.Bool(2, 3) {
				name = "gput"
			}
			st, d := "U", 0
			if malformed && r.Bool(1, 3) {
				st = []string{"U", "O", "T"}[r.Intn(3)]
				d = r.Intn(2)
			}
			addr := genAddrs[r.Intn(len(genAddrs))]
			if r.Bool(1, 40) {
				addr = "-"
			}
			op = fmt.Sprintf("%s %d %s %s %d %s %s %d %d", name, genID(r), addr, genVersions[r.Intn(len(genVersions))],
				r.Intn(3), genLabels(r), st, d, genMask(r))
		case 1:
			op = fmt.Sprintf("labels %d %s %d %d", genID(r), genLabels(r), r.Intn(2), genMask(r))
		case 2:
			op = fmt.Sprintf("remove %d %d %d", genID(r), r.Pick(3, 1), genMask(r))
		case 3:
			op = fmt.Sprintf("up %d %d", genID(r), genMask(r))
		case 4:
			op = fmt.Sprintf("check %d", genMask(r))
		case 5:
			op = fmt.Sprintf("bury %d %d", genID(r), genMask(r))
		case 6:
			op = fmt.Sprintf("weight %d %s %s %d", genID(r), genWeights[r.Intn(len(genWeights))],
				genWeights[r.Intn(len(genWeights))], genMask(r))
		case 7:
			op = fmt.Sprintf("rmtomb %d", genMask(r))
			cleaned = true
		case 8:
			// a region with 1-3 peers on distinct stores (7 = a store id that is never registered)
			cand := []int{1, 2, 3, 4, 5, 7}
			np := r.Range(1, 3)
			var ss []string
			for i := 0; i < np; i++ {
				j := r.Intn(len(cand))
				role := ""
				if i > 0 && r.Bool(2, 5) {
					role = "L" // a learner peer (TiFlash replica, in-flight add-learner): it counts as a region peer
				}
				ss = append(ss, fmt.Sprint(cand[j])+role)
				cand = append(cand[:j], cand[j+1:]...)
			}
			op = fmt.Sprintf("region %d %s", r.Range(1, 3), strings.Join(ss, " "))
		case 11:
			// a new leader takes over: fresh cache, LoadClusterInfo from the same storage (bare cluster only)
			op = "restart"
		case 10:
			op = fmt.Sprintf("ghb %d %d", genID(r), genMask(r))
			if cleaned {
				// Not generated: a store heartbeat after RemoveTombStoneRecords.  On the pinned tree the handler
				// panics (nil store in statistics.FilterUnhealthyStore) when a deleted record still has rolling
				// statistics; that defect violates no clause of C14 and is only noted (docs/C14.md).
				op = fmt.Sprintf("check %d", genMask(r))
			}
		}
		w.run(t, op)
	}
}

// genGated produces a sequence with gated two-operation schedules: an operation is parked at its first
// store write (it holds the cluster lock there), a second operation - mostly on the same store - is started
// from another goroutine and must block on that lock, then the write is released.  Masks are 0.
func genGated(w *world, t *trace.W, r *rng.R, srv bool) {
	mode := "rc"
	if srv {
		mode = "srv"
	}
	w.run(t, fmt.Sprintf("reset %s strict=0 loc=%s pr=%d cv=%s", mode, genLocs[r.Intn(len(genLocs))], r.Intn(2),
		[]string{"2.0.0", "4.0.0"}[r.Intn(2)]))
	n := r.Range(2, 4)
	for id := 1; id <= n; id++ {
		// one version throughout: the cluster-version bump of PutStore/buryStore happens in a later lock section
		// of its own, whose order relative to the second operation is not controlled
		w.run(t, fmt.Sprintf("put %d %s 4.0.0 %d %s U 0 0", id, genAddrs[id-1], r.Intn(3), genLabels(r)))
	}
	cleaned := false
	// checkStores takes the lock once per store it buries: as the parked operation it is only used when at
	// most one store can be buried, so that it has a single locked section like the other operations
	buriable := func() int {
		k := 0
		for _, s := range w.rc.GetStores() {
			if s.IsOffline() && w.rc.GetStoreRegionCount(s.GetID()) == 0 {
				k++
			}
		}
		return k
	}
	storeOp := func(id int, first bool) string {
		switch r.Pick(22, 12, 18, 16, 8, 8, 8, 8) {
		case 0:
			if first && buriable() > 1 {
				return fmt.Sprintf("up %d 0", id)
			}
			return "check 0"
		case 1:
			return fmt.Sprintf("put %d %s 4.0.0 %d %s U 0 0", id, genAddrs[r.Intn(len(genAddrs))], r.Intn(3), genLabels(r))
		case 2:
			return fmt.Sprintf("remove %d %d 0", id, r.Pick(3, 1))
		case 3:
			return fmt.Sprintf("up %d 0", id)
		case 4:
			return fmt.Sprintf("labels %d %s %d 0", id, genLabels(r), r.Intn(2))
		case 5:
			return fmt.Sprintf("weight %d %s %s 0", id, genWeights[r.Intn(len(genWeights))], genWeights[r.Intn(len(genWeights))])
		case 6:
			if srv && !cleaned {
				return fmt.Sprintf("ghb %d 0", id)
			}
			return fmt.Sprintf("bury %d 0", id)
		}
		if srv {
			return fmt.Sprintf("gput %d %s 4.0.0 %d %s U 0 0", id, genAddrs[r.Intn(len(genAddrs))], r.Intn(3), genLabels(r))
		}
		cleaned = true
		return "rmtomb 0"
	}
	for k, pairs := 0, r.Range(3, 6); k < pairs; k++ {
		id := r.Range(1, n)
		// bring the cluster into an interesting state first
		for j, m := 0, r.Range(0, 2); j < m; j++ {
			switch r.Pick(40, 15, 25, 20) {
			case 0:
				w.run(t, fmt.Sprintf("remove %d %d 0", id, r.Pick(4, 1)))
			case 1:
				w.run(t, fmt.Sprintf("up %d 0", r.Range(1, n)))
			case 2:
				w.run(t, fmt.Sprintf("region %d %d", r.Range(1, 2), r.Range(1, n)))
			case 3:
				w.run(t, fmt.Sprintf("region %d 7", r.Range(1, 2)))
			}
		}
		op1 := storeOp(id, true)
		id2 := id
		if r.Bool(1, 4) {
			id2 = r.Range(1, n)
		}
		op2 := storeOp(id2, false)
		if strings.HasPrefix(op2, "ghb") && cleaned {
			op2 = fmt.Sprintf("up %d 0", id2)
		}
		parked := false
		for try := 0; try < 4 && !parked; try++ {
			// an operation that issues no store write (rejected, nothing to do) simply completes: try another
			if try > 0 {
				op1 = storeOp(id, true)
			}
			parked = w.run(t, "park "+op1) == "parked"
		}
		if !parked {
			continue
		}
		w.run(t, op2)
		if res := w.run(t, "release"); res == "parked" {
			w.run(t, "release")
		}
	}
}
