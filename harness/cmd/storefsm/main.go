// Command storefsm drives the real store life-cycle code of pd (server/cluster: PutStore, RemoveStore,
// UpStore, buryStore/checkStores, SetStoreWeight, UpdateStoreLabels, RemoveTombStoneRecords; server:
// the gRPC handlers PutStore and StoreHeartbeat) and writes the `<op> => <observation>` trace judged by
// the Lean model (property C14).
//
// Two back ends, chosen by the reset line: `reset rc …` builds a bare RaftCluster on a memory kv with the
// exported constructors (fast); `reset srv …` uses one in-process PD server (real gRPC handlers, etcd-backed
// storage) whose store/region state is wiped between sequences.  In both, core.Storage.Base is wrapped by a
// kv.Base that fails the i-th store write of an op iff bit i of the op's mask is set.
package main

import (
	"context"
	"flag"
	"fmt"
	"sort"
	"strconv"
	"strings"
	"time"

	"github.com/coreos/go-semver/semver"
	"github.com/pingcap/kvproto/pkg/metapb"
	"github.com/pingcap/kvproto/pkg/pdpb"
	"github.com/tikv/pd/pkg/mock/mockid"
	"github.com/tikv/pd/server/cluster"
	"github.com/tikv/pd/server/config"
	"github.com/tikv/pd/server/core"
	"github.com/tikv/pd/server/kv"
	"github.com/tikv/pd/server/versioninfo"

	_ "verifharness/internal/quiet"
	"verifharness/internal/rng"
	"verifharness/internal/storecfg"
	"verifharness/internal/trace"
)

type world struct {
	rc      *cluster.RaftCluster
	storage *core.Storage
	fkv     *storecfg.FailKV
	opt     *config.PersistOptions

	srv    *storecfg.Server // lazily started, reused
	useSrv bool
	cancel context.CancelFunc // of the bare cluster
	conf   uint64             // region conf-version counter

	// gated schedule: op 1 parked at its first store write, op 2 possibly blocked behind it
	gated    bool
	pend1    chan string
	pend2    chan string
	gid1     int64
	release  func()
	parked2  <-chan struct{}
	release2 func()
}

func relevant(key string) bool {
	return strings.HasPrefix(key, "raft/s/") || strings.HasPrefix(key, "schedule/store_weight/")
}

func leaderWeightKey(id uint64) string {
	return fmt.Sprintf("schedule/store_weight/%020d/leader", id)
}
func regionWeightKey(id uint64) string {
	return fmt.Sprintf("schedule/store_weight/%020d/region", id)
}

// ---- canonical encodings ---------------------------------------------------------------------

func verString(v string) string {
	sv, err := versioninfo.ParseVersion(v)
	if err != nil {
		return "bad"
	}
	return fmt.Sprintf("%d.%d.%d", sv.Major, sv.Minor, sv.Patch)
}

func labelsString(ls []*metapb.StoreLabel) string {
	if len(ls) == 0 {
		return "-"
	}
	parts := make([]string, len(ls))
	for i, l := range ls {
		parts[i] = l.GetKey() + "=" + l.GetValue()
	}
	return strings.Join(parts, ",")
}

func parseLabels(s string) []*metapb.StoreLabel {
	if s == "-" || s == "" {
		return nil
	}
	var res []*metapb.StoreLabel
	for _, p := range strings.Split(s, ",") {
		kv := strings.SplitN(p, "=", 2)
		if len(kv) == 1 {
			kv = append(kv, "")
		}
		res = append(res, &metapb.StoreLabel{Key: kv[0], Value: kv[1]})
	}
	return res
}

func stateChar(s metapb.StoreState) string {
	switch s {
	case metapb.StoreState_Up:
		return "U"
	case metapb.StoreState_Offline:
		return "O"
	case metapb.StoreState_Tombstone:
		return "T"
	}
	return "?"
}

func parseState(s string) metapb.StoreState {
	switch s {
	case "O":
		return metapb.StoreState_Offline
	case "T":
		return metapb.StoreState_Tombstone
	}
	return metapb.StoreState_Up
}

func b01(b bool) string {
	if b {
		return "1"
	}
	return "0"
}

// metaString: id/addr/state/destroyed/version/start/labels  (LastHeartbeat is wall-clock: left out)
func metaString(m *metapb.Store) string {
	addr := m.GetAddress()
	if addr == "" {
		addr = "-"
	}
	return fmt.Sprintf("%d/%s/%s/%s/%s/%d/%s", m.GetId(), addr, stateChar(m.GetState()), b01(m.GetPhysicallyDestroyed()),
		verString(m.GetVersion()), m.GetStartTimestamp(), labelsString(m.GetLabels()))
}

// weights are fixed-point (x 10^6); the generator only produces values that convert exactly
func fix(f float64) string {
	return strconv.FormatInt(int64(f*1e6+0.5), 10)
}

func (w *world) dump() string {
	stores := w.rc.GetStores()
	sort.Slice(stores, func(i, j int) bool { return stores[i].GetID() < stores[j].GetID() })
	var sv []string
	for _, s := range stores {
		sv = append(sv, fmt.Sprintf("%s/%s/%s/%d/%d", metaString(s.GetMeta()), fix(s.GetLeaderWeight()), fix(s.GetRegionWeight()),
			s.GetRegionCount(), w.rc.GetStoreRegionCount(s.GetID())))
	}
	var st []string
	err := w.storage.LoadStores(func(s *core.StoreInfo) {
		lw, rw := "-", "-"
		if v, _ := w.fkv.Base.Load(leaderWeightKey(s.GetID())); v != "" {
			f, _ := strconv.ParseFloat(v, 64)
			lw = fix(f)
		}
		if v, _ := w.fkv.Base.Load(regionWeightKey(s.GetID())); v != "" {
			f, _ := strconv.ParseFloat(v, 64)
			rw = fix(f)
		}
		st = append(st, fmt.Sprintf("%s/%s/%s", metaString(s.GetMeta()), lw, rw))
	})
	if err != nil {
		st = append(st, "load-error")
	}
	var ws []string
	for _, x := range w.fkv.Log() {
		k := "m"
		switch {
		case x.Remove:
			k = "d"
		case strings.HasSuffix(x.Key, "/leader"):
			k = "l"
		case strings.HasSuffix(x.Key, "/region"):
			k = "r"
		}
		key := strings.TrimSuffix(strings.TrimSuffix(x.Key, "/leader"), "/region")
		id, _ := strconv.ParseUint(key[strings.LastIndex(key, "/")+1:], 10, 64)
		ok := "+"
		if x.Failed {
			ok = "!"
		}
		ws = append(ws, fmt.Sprintf("%s%d%s", k, id, ok))
	}
	cv := w.opt.GetClusterVersion()
	j := func(l []string) string {
		if len(l) == 0 {
			return "-"
		}
		return strings.Join(l, " ")
	}
	return fmt.Sprintf("served: %s ; stored: %s ; writes: %s ; cv: %d.%d.%d", j(sv), j(st), j(ws), cv.Major, cv.Minor, cv.Patch)
}

func classify(err error) string {
	if err == nil {
		return "ok"
	}
	m := err.Error()
	switch {
	case storecfg.IsInjected(err):
		return "kverr"
	case strings.Contains(m, "has been physically destroyed"):
		return "destroyed"
	case strings.Contains(m, "has been removed"):
		return "tombstone"
	case strings.Contains(m, "store is still up"):
		return "isup"
	case strings.Contains(m, "duplicated store address"):
		return "dupaddr"
	case strings.Contains(m, "invalid put store") && strings.Contains(m, ", error:"):
		return "badver"
	case strings.Contains(m, "invalid put store"):
		return "badid"
	case strings.Contains(m, "version should compatible"):
		return "incompat"
	case strings.Contains(m, "label configuration is incorrect"), strings.Contains(m, "key matching the label was not found"):
		return "label"
	case strings.Contains(m, "placement rules is disabled"):
		return "tiflash"
	case strings.Contains(m, "not found"):
		return "notfound"
	}
	return "err:" + strings.ReplaceAll(m, " ", "_")
}

// ---- back ends -------------------------------------------------------------------------------

func kvArgs(f []string) map[string]string {
	m := map[string]string{}
	for _, a := range f {
		if i := strings.Index(a, "="); i > 0 {
			m[a[:i]] = a[i+1:]
		}
	}
	return m
}

func (w *world) reset(f []string) string {
	if len(f) < 2 {
		return "bad-op"
	}
	a := kvArgs(f[2:])
	cv, err := semver.NewVersion(a["cv"])
	if err != nil {
		return "bad-op"
	}
	var loc []string
	if a["loc"] != "" && a["loc"] != "-" {
		loc = strings.Split(a["loc"], ",")
	}
	if w.cancel != nil {
		w.cancel()
		w.cancel = nil
	}
	switch f[1] {
	case "rc":
		w.useSrv = false
		cfg := config.NewConfig()
		if err := cfg.Adjust(nil, false); err != nil {
			panic(err)
		}
		w.opt = config.NewPersistOptions(cfg)
		w.fkv = &storecfg.FailKV{Base: kv.NewMemoryKV(), Relevant: relevant}
		w.storage = core.NewStorage(w.fkv)
		ctx, cancel := context.WithCancel(context.Background())
		w.cancel = cancel
		w.rc = cluster.NewRaftCluster(ctx, "", 1, nil, nil, nil)
		w.rc.InitCluster(mockid.NewIDAllocator(), w.opt, w.storage, core.NewBasicCluster())
		if err := w.storage.SaveMeta(&metapb.Cluster{Id: 1}); err != nil { // LoadClusterInfo wants it
			panic(err)
		}
	case "srv":
		w.useSrv = true
		if w.srv == nil {
			cluster.VerifStoreFsmSetBackgroundJobInterval(24 * time.Hour)
			w.srv = storecfg.StartServer(true)
			st := w.srv.Svr.GetStorage()
			w.srv.Svr.GetRaftCluster() // running
			w.fkv = &storecfg.FailKV{Base: st.Base, Relevant: relevant}
			st.Base = w.fkv
		}
		w.rc = w.srv.Svr.GetRaftCluster()
		w.storage = w.srv.Svr.GetStorage()
		w.fkv = w.storage.Base.(*storecfg.FailKV)
		w.opt = w.srv.Svr.GetPersistOptions()
		w.fkv.Arm(0)
		// wipe stores and regions through exported entry points
		bc := w.rc.GetCacheCluster()
		for _, r := range w.rc.GetRegions() {
			bc.RemoveRegion(r)
			_ = w.storage.DeleteRegion(r.GetMeta())
		}
		var ids []uint64
		for _, s := range w.rc.GetStores() {
			ids = append(ids, s.GetID())
			bc.DeleteStore(s)
			w.rc.GetStoresStats().RemoveRollingStoreStats(s.GetID())
		}
		_ = w.storage.LoadStores(func(s *core.StoreInfo) { ids = append(ids, s.GetID()) })
		// rolling statistics outlive deleted store records (see docs/C14.md, note on heartbeats)
		for id := uint64(0); id < 32; id++ {
			w.rc.GetStoresStats().RemoveRollingStoreStats(id)
		}
		for _, id := range ids {
			_ = w.storage.DeleteStore(&metapb.Store{Id: id})
		}
		// weight keys outlive their store record (RemoveTombStoneRecords does not delete them)
		if keys, _, err := w.fkv.Base.LoadRange("schedule/store_weight/", "schedule/store_weight0", 0); err == nil {
			for _, k := range keys {
				_ = w.fkv.Base.Remove(k)
			}
		}
	default:
		return "bad-op"
	}
	w.opt.SetClusterVersion(cv)
	rep := w.opt.GetReplicationConfig().Clone()
	rep.StrictlyMatchLabel = a["strict"] == "1"
	rep.LocationLabels = loc
	rep.EnablePlacementRules = a["pr"] == "1"
	w.opt.SetReplicationConfig(rep)
	w.fkv.Arm(0)
	return "ok"
}

const blockedAfter = 200 * time.Millisecond

// drain ends a gated schedule (used by reset).
func (w *world) drain() {
	if w.release != nil {
		w.release()
	}
	if w.release2 != nil {
		w.release2()
	}
	w.fkv.Disarm()
	for _, ch := range []chan string{w.pend2, w.pend1} {
		if ch != nil {
			select {
			case <-ch:
			case <-time.After(30 * time.Second):
				panic("drain: an operation did not return")
			}
		}
	}
	w.gated, w.pend1, w.pend2, w.release, w.release2, w.parked2 = false, nil, nil, nil, nil, nil
}

// sched runs the lines of a gated schedule:
//   park <op>   start <op>; its first store write parks (after it is logged, before it takes effect) -> "parked";
//               an op that issues no store write simply completes
//   <op>        while an op is parked: started in a second goroutine; "blocked" if it has not returned after
//               200 ms (it waits for the cluster lock), otherwise its result
//   release     lets the parked write go on; answers "<res1>" (no second op), "<res1> <res2>", or - when the second op
//               reaches a store write of its own, which is held too - "parked"; a further release then answers
//               "<res1> <res2>"
// During a schedule the write log is cumulative and masks are ignored (must be 0).
func (w *world) sched(op string) (string, bool) {
	f := strings.Fields(op)
	switch {
	case len(f) > 1 && f[0] == "park":
		if w.gated || w.rc == nil {
			return "bad-op", true
		}
		w.fkv.Arm(0)
		parked, rel := w.fkv.ArmPark(0)
		done := make(chan string, 1)
		gid := make(chan int64, 1)
		w.gated = true
		go func() {
			gid <- storecfg.GoID()
			done <- w.exec(strings.Join(f[1:], " "))
		}()
		w.gid1 = <-gid
		select {
		case <-parked:
			w.pend1, w.release = done, rel
			return "parked", true
		case r := <-done:
			w.fkv.Disarm()
			w.gated = false
			return r, true
		case <-time.After(30 * time.Second):
			panic("park: neither parked nor done")
		}
	case len(f) == 1 && f[0] == "release":
		wait := func(ch chan string) string {
			select {
			case r := <-ch:
				return r
			case <-time.After(30 * time.Second):
				panic("release: an operation did not return")
			}
		}
		switch {
		case w.pend1 != nil && w.release != nil:
			// first release: let the parked write of op 1 go on
			if w.pend2 != nil {
				w.parked2, w.release2 = w.fkv.ArmPark(w.gid1)
			}
			w.release()
			w.release = nil
			if w.pend2 == nil {
				r1 := wait(w.pend1)
				w.pend1, w.gated = nil, false
				return r1, true
			}
			select {
			case r2 := <-w.pend2:
				// op 2 finished without a store write of its own
				w.fkv.Disarm()
				r1 := wait(w.pend1)
				w.pend1, w.pend2, w.release2, w.parked2, w.gated = nil, nil, nil, nil, false
				return r1 + " " + r2, true
			case <-w.parked2:
				// op 2 holds the lock at its own write; op 1 may still be in an unlocked or read-locked tail
				// (cluster-version bump, store limit, replication status), so its result is collected later
				return "parked", true
			case <-time.After(30 * time.Second):
				panic("release: second op neither parked nor done")
			}
		case w.pend2 != nil && w.release2 != nil && w.release == nil:
			w.release2()
			r2 := wait(w.pend2)
			r1 := wait(w.pend1)
			w.pend1, w.pend2, w.release2, w.parked2, w.gated = nil, nil, nil, nil, false
			return r1 + " " + r2, true
		}
		return "bad-op", true
	case w.gated && len(f) > 0 && f[0] != "reset":
		if w.pend2 != nil || w.pend1 == nil {
			return "bad-op", true
		}
		done := make(chan string, 1)
		go func() { done <- w.exec(op) }()
		select {
		case r := <-done:
			return r, true
		case <-time.After(blockedAfter):
			w.pend2 = done
			return "blocked", true
		}
	}
	return "", false
}

// exec runs one op; a panic of the code under test is an observation ("panic"), not a harness crash.
func (w *world) exec(op string) (res string) {
	defer func() {
		if r := recover(); r != nil {
			res = "panic"
		}
	}()
	return w.exec1(op)
}

func (w *world) exec1(op string) string {
	f := strings.Fields(op)
	bad := "bad-op"
	u64 := func(s string) uint64 { n, _ := strconv.ParseUint(s, 10, 64); return n }
	if len(f) == 0 {
		return bad
	}
	if f[0] == "reset" {
		return w.reset(f)
	}
	if w.rc == nil {
		return bad
	}
	arm := func(s string) {
		if !w.gated {
			w.fkv.Arm(u64(s))
		}
	}
	if !w.gated {
		w.fkv.Arm(0)
	}
	switch {
	case (f[0] == "put" || f[0] == "gput") && len(f) == 9:
		// put id addr ver start labels state destroyed mask
		ver := f[3]
		if ver == "-" {
			ver = ""
		}
		addr := f[2]
		if addr == "-" {
			addr = ""
		}
		st := &metapb.Store{Id: u64(f[1]), Address: addr, Version: ver, StartTimestamp: int64(u64(f[4])),
			Labels: parseLabels(f[5]), State: parseState(f[6]), PhysicallyDestroyed: f[7] == "1",
			StatusAddress: "status-" + addr, PeerAddress: "peer-" + addr, DeployPath: "/deploy/" + addr}
		arm(f[8])
		if f[0] == "put" {
			return classify(w.rc.PutStore(st))
		}
		if !w.useSrv {
			return bad
		}
		resp, err := w.srv.Svr.PutStore(context.Background(), &pdpb.PutStoreRequest{Header: w.srv.Header(), Store: st})
		if err != nil {
			return classify(err)
		}
		if e := resp.GetHeader().GetError(); e != nil {
			if e.GetType() == pdpb.ErrorType_STORE_TOMBSTONE {
				return "tombstone"
			}
			return "err:" + e.GetType().String()
		}
		return "ok"
	case f[0] == "ghb" && len(f) == 3:
		if !w.useSrv {
			return bad
		}
		arm(f[2])
		resp, err := w.srv.Svr.StoreHeartbeat(context.Background(), &pdpb.StoreHeartbeatRequest{Header: w.srv.Header(),
			Stats: &pdpb.StoreStats{StoreId: u64(f[1]), Capacity: 100 << 30, Available: 50 << 30}})
		if err != nil {
			return classify(err)
		}
		if e := resp.GetHeader().GetError(); e != nil {
			if e.GetType() == pdpb.ErrorType_STORE_TOMBSTONE {
				return "tombstone"
			}
			return "err:" + e.GetType().String()
		}
		return "ok"
	case f[0] == "labels" && len(f) == 5:
		arm(f[4])
		return classify(w.rc.UpdateStoreLabels(u64(f[1]), parseLabels(f[2]), f[3] == "1"))
	case f[0] == "remove" && len(f) == 4:
		arm(f[3])
		return classify(w.rc.RemoveStore(u64(f[1]), f[2] == "1"))
	case f[0] == "up" && len(f) == 3:
		arm(f[2])
		return classify(w.rc.UpStore(u64(f[1])))
	case f[0] == "bury" && len(f) == 3:
		arm(f[2])
		return classify(w.rc.VerifStoreFsmBuryStore(u64(f[1])))
	case f[0] == "check" && len(f) == 2:
		arm(f[1])
		w.rc.VerifStoreFsmCheckStores()
		return "ok"
	case f[0] == "weight" && len(f) == 5:
		lw, _ := strconv.ParseFloat(f[2], 64)
		rw, _ := strconv.ParseFloat(f[3], 64)
		arm(f[4])
		return classify(w.rc.SetStoreWeight(u64(f[1]), lw/1e6, rw/1e6))
	case f[0] == "rmtomb" && len(f) == 2:
		arm(f[1])
		return classify(w.rc.RemoveTombStoneRecords())
	case f[0] == "restart" && len(f) == 1:
		// a new leader: a fresh RaftCluster and cache on the same storage and options, filled by LoadClusterInfo
		if w.useSrv || w.gated {
			return bad
		}
		if w.cancel != nil {
			w.cancel()
		}
		ctx, cancel := context.WithCancel(context.Background())
		w.cancel = cancel
		rc := cluster.NewRaftCluster(ctx, "", 1, nil, nil, nil)
		rc.InitCluster(mockid.NewIDAllocator(), w.opt, w.storage, core.NewBasicCluster())
		c, err := rc.LoadClusterInfo()
		if err != nil || c == nil {
			return "err:load-cluster-info"
		}
		w.rc = rc
		return "ok"
	case f[0] == "region" && len(f) >= 3:
		rid := u64(f[1])
		var peers []*metapb.Peer
		for i, s := range f[2:] {
			// a trailing L: learner peer (never the first peer, which is the leader)
			p := &metapb.Peer{Id: rid*100 + uint64(i) + 1, StoreId: u64(strings.TrimSuffix(s, "L"))}
			if strings.HasSuffix(s, "L") && i > 0 {
				p.Role = metapb.PeerRole_Learner
			}
			peers = append(peers, p)
		}
		w.conf++
		r := &metapb.Region{Id: rid, StartKey: []byte(fmt.Sprintf("%06d", rid)), EndKey: []byte(fmt.Sprintf("%06d", rid+1)),
			Peers: peers, RegionEpoch: &metapb.RegionEpoch{ConfVer: w.conf + 1, Version: 1}}
		if err := w.rc.VerifStoreFsmProcessRegionHeartbeat(core.NewRegionInfo(r, peers[0])); err != nil {
			return "err:" + strings.ReplaceAll(err.Error(), " ", "_")
		}
		return "ok"
	}
	return bad
}

func (w *world) run(t *trace.W, op string) string {
	if w.useSrv && w.srv != nil {
		w.srv.MustLead(!w.gated)
	}
	if strings.HasPrefix(op, "reset") && w.gated {
		w.drain()
	}
	res, handled := w.sched(op)
	if !handled {
		res = w.exec(op)
	}
	if w.useSrv && w.srv != nil {
		w.srv.MustLead(!w.gated)
	}
	if res == "bad-op" || w.rc == nil {
		t.Line(op, res)
		return res
	}
	t.Line(op, res+" ; "+w.dump())
	return res
}

func (w *world) close() {
	if w.gated {
		w.drain()
	}
	if w.cancel != nil {
		w.cancel()
	}
	if w.srv != nil {
		w.srv.Abandon()
	}
}

func main() {
	out := flag.String("out", "-", "trace file")
	replay := flag.String("replay", "", "ops file to replay instead of generating")
	n := flag.Int("n", 100, "number of generated sequences on the bare cluster")
	nsrv := flag.Int("nsrv", 10, "number of generated sequences on the in-process server")
	ngate := flag.Int("ngate", 0, "number of generated sequences with gated two-operation schedules")
	maxOps := flag.Int("len", 60, "max ops per sequence")
	stream := flag.Uint64("stream", 0, "PRNG stream")
	flag.Parse()

	w := &world{}
	t := trace.Create(*out)
	defer w.close() // after the trace has been flushed
	defer t.Close()
	if *replay != "" {
		for _, op := range trace.ReadOps(*replay) {
			w.run(t, op)
		}
		return
	}
	r := rng.FromEnv(*stream)
	for s := 0; s < *n; s++ {
		gen(w, t, r, *maxOps, false)
	}
	for s := 0; s < *ngate; s++ {
		genGated(w, t, r, s%6 == 5)
	}
	for s := 0; s < *nsrv; s++ {
		gen(w, t, r, *maxOps, true)
	}
}
