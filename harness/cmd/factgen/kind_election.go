package main

import (
	"fmt"
	"strings"
)

// Fact kinds used by area Election (property C03).  Both work on the printed source of one function
// with all white space removed, so they are insensitive to formatting but sensitive to every token.
//
//	{"kind":"has_text",   "file":…, "func":"T.f", "args":{"text":"…"}, "lean":"name"}
//	    the function contains the text
//	{"kind":"text_order", "file":…, "func":"T.f", "args":{"t1":"…","t2":"…"[,"t3":"…","t4":"…"]}, "lean":"name"}
//	    the first occurrences of t1, t2, … exist and appear in this order
func squeeze(s string) string {
	return strings.Join(strings.Fields(s), "")
}

func funcText(repo string, f Fact) (string, error) {
	fset, fd, err := findFunc(repo, f.File, f.Func)
	if err != nil {
		return "", err
	}
	return squeeze(exprString(fset, fd)), nil
}

func init() {
	Register("has_text", func(repo string, f Fact) (string, error) {
		src, err := funcText(repo, f)
		if err != nil {
			return "", err
		}
		t := squeeze(f.Args["text"])
		if t == "" {
			return "", fmt.Errorf("has_text: empty text")
		}
		return fmt.Sprintf("def %s : Bool := %v", f.Lean, strings.Contains(src, t)), nil
	})
	Register("text_order", func(repo string, f Fact) (string, error) {
		src, err := funcText(repo, f)
		if err != nil {
			return "", err
		}
		ok := true
		pos := -1
		for _, k := range []string{"t1", "t2", "t3", "t4", "t5"} {
			t := squeeze(f.Args[k])
			if t == "" {
				continue
			}
			i := strings.Index(src, t)
			if i < 0 || i <= pos {
				ok = false
				break
			}
			pos = i
		}
		return fmt.Sprintf("def %s : Bool := %v", f.Lean, ok), nil
	})
}
