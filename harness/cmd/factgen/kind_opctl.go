package main

import (
	"fmt"
	"go/ast"
	"go/parser"
	"go/token"
	"path/filepath"
	"strings"
)

// opctlIotaNames returns the names of the const block that starts with `first` (an iota block), up to
// but excluding `stop`.
func opctlIotaNames(repo, file, first, stop string) ([]string, error) {
	fset := token.NewFileSet()
	f, err := parser.ParseFile(fset, filepath.Join(repo, file), nil, 0)
	if err != nil {
		return nil, err
	}
	for _, d := range f.Decls {
		gd, ok := d.(*ast.GenDecl)
		if !ok || gd.Tok != token.CONST {
			continue
		}
		var names []string
		for _, s := range gd.Specs {
			for _, n := range s.(*ast.ValueSpec).Names {
				names = append(names, n.Name)
			}
		}
		if len(names) == 0 || names[0] != first {
			continue
		}
		var res []string
		for _, n := range names {
			if n == stop {
				return res, nil
			}
			res = append(res, n)
		}
		return nil, fmt.Errorf("%s not found in the const block of %s", stop, first)
	}
	return nil, fmt.Errorf("const block starting with %s not found", first)
}

func init() {
	// assigners: the functions of a file that assign to the expression args.target (e.g. "trk.current"),
	// in source order: {"kind":"assigners","file":..,"args":{"target":"trk.current"},"lean":"statusAssigners"}
	Register("assigners", func(repo string, f Fact) (string, error) {
		fset := token.NewFileSet()
		file, err := parser.ParseFile(fset, filepath.Join(repo, f.File), nil, 0)
		if err != nil {
			return "", err
		}
		var names []string
		for _, d := range file.Decls {
			fd, ok := d.(*ast.FuncDecl)
			if !ok || fd.Body == nil {
				continue
			}
			found := false
			ast.Inspect(fd.Body, func(n ast.Node) bool {
				switch st := n.(type) {
				case *ast.AssignStmt:
					for _, l := range st.Lhs {
						if exprString(fset, l) == f.Args["target"] {
							found = true
						}
					}
				case *ast.IncDecStmt:
					if exprString(fset, st.X) == f.Args["target"] {
						found = true
					}
				}
				return true
			})
			if found {
				names = append(names, fmt.Sprintf("%q", fd.Name.Name))
			}
		}
		return fmt.Sprintf("def %s : List String := [%s]", f.Lean, strings.Join(names, ", ")), nil
	})
	// iota_names: {"kind":"iota_names","file":..,"args":{"first":"CREATED","stop":"statusCount"},"lean":"statusNames"}
	Register("iota_names", func(repo string, f Fact) (string, error) {
		names, err := opctlIotaNames(repo, f.File, f.Args["first"], f.Args["stop"])
		if err != nil {
			return "", err
		}
		q := make([]string, len(names))
		for i, n := range names {
			q[i] = fmt.Sprintf("%q", n)
		}
		return fmt.Sprintf("def %s : List String := [%s]", f.Lean, strings.Join(q, ", ")), nil
	})
	// bool_matrix: a package-level `var <name> = T{ ROW: {COL: true, ...}, ... }` indexed by the iota
	// names; every entry that is not the literal `true` makes the extraction fail.
	Register("bool_matrix", func(repo string, f Fact) (string, error) {
		names, err := opctlIotaNames(repo, f.File, f.Args["first"], f.Args["stop"])
		if err != nil {
			return "", err
		}
		idx := map[string]int{}
		for i, n := range names {
			idx[n] = i
		}
		fset := token.NewFileSet()
		file, err := parser.ParseFile(fset, filepath.Join(repo, f.File), nil, 0)
		if err != nil {
			return "", err
		}
		var lit *ast.CompositeLit
		for _, d := range file.Decls {
			gd, ok := d.(*ast.GenDecl)
			if !ok || gd.Tok != token.VAR {
				continue
			}
			for _, s := range gd.Specs {
				vs := s.(*ast.ValueSpec)
				for i, n := range vs.Names {
					if n.Name == f.Name && i < len(vs.Values) {
						lit, _ = vs.Values[i].(*ast.CompositeLit)
					}
				}
			}
		}
		if lit == nil {
			return "", fmt.Errorf("var %s is not a composite literal", f.Name)
		}
		m := make([][]bool, len(names))
		for i := range m {
			m[i] = make([]bool, len(names))
		}
		for _, e := range lit.Elts {
			kv, ok := e.(*ast.KeyValueExpr)
			if !ok {
				return "", fmt.Errorf("%s: unkeyed row", f.Name)
			}
			rk, ok := kv.Key.(*ast.Ident)
			if !ok {
				return "", fmt.Errorf("%s: row key is not an identifier", f.Name)
			}
			r, ok := idx[rk.Name]
			if !ok {
				return "", fmt.Errorf("%s: unknown row %s", f.Name, rk.Name)
			}
			row, ok := kv.Value.(*ast.CompositeLit)
			if !ok {
				return "", fmt.Errorf("%s: row %s is not a literal", f.Name, rk.Name)
			}
			for _, ce := range row.Elts {
				ckv, ok := ce.(*ast.KeyValueExpr)
				if !ok {
					return "", fmt.Errorf("%s: unkeyed entry in row %s", f.Name, rk.Name)
				}
				ck, ok1 := ckv.Key.(*ast.Ident)
				cv, ok2 := ckv.Value.(*ast.Ident)
				if !ok1 || !ok2 || (cv.Name != "true" && cv.Name != "false") {
					return "", fmt.Errorf("%s: entry of row %s is not `NAME: true|false`", f.Name, rk.Name)
				}
				c, ok := idx[ck.Name]
				if !ok {
					return "", fmt.Errorf("%s: unknown column %s", f.Name, ck.Name)
				}
				m[r][c] = cv.Name == "true"
			}
		}
		rows := make([]string, len(m))
		for i, r := range m {
			cs := make([]string, len(r))
			for j, b := range r {
				cs[j] = fmt.Sprintf("%v", b)
			}
			rows[i] = "[" + strings.Join(cs, ", ") + "]"
		}
		return fmt.Sprintf("def %s : List (List Bool) := [\n  %s]", f.Lean, strings.Join(rows, ",\n  ")), nil
	})
}
