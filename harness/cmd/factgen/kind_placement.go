package main

import (
	"fmt"
	"go/ast"
	"go/token"
	"path/filepath"
	"strconv"
	"strings"
)

// Fact kinds used by the placement areas (Fit, Rules).
func init() {
	// local_const: an integer constant declared inside function Func.
	Register("local_const", func(repo string, f Fact) (string, error) {
		_, fd, err := findFunc(repo, f.File, f.Func)
		if err != nil {
			return "", err
		}
		var found ast.Expr
		ast.Inspect(fd, func(n ast.Node) bool {
			gd, ok := n.(*ast.GenDecl)
			if !ok || gd.Tok != token.CONST {
				return true
			}
			for _, s := range gd.Specs {
				vs := s.(*ast.ValueSpec)
				for i, nm := range vs.Names {
					if nm.Name == f.Name && i < len(vs.Values) {
						found = vs.Values[i]
					}
				}
			}
			return true
		})
		if found == nil {
			return "", fmt.Errorf("local constant %s not found in %s", f.Name, f.Func)
		}
		v, err := eval(found, pkgConsts{}, 0)
		if err != nil {
			return "", err
		}
		return fmt.Sprintf("def %s : Nat := %s", f.Lean, v.String()), nil
	})
	// string_const: a package-level string constant (possibly with a type conversion / typed const).
	// string_list: a package-level `[]string{...}` variable.
	str := func(e ast.Expr) (string, bool) {
		if c, ok := e.(*ast.CallExpr); ok && len(c.Args) == 1 {
			e = c.Args[0]
		}
		b, ok := e.(*ast.BasicLit)
		if !ok || b.Kind != token.STRING {
			return "", false
		}
		s, err := strconv.Unquote(b.Value)
		return s, err == nil
	}
	Register("string_const", func(repo string, f Fact) (string, error) {
		env, err := collect(filepath.Join(repo, f.File))
		if err != nil {
			return "", err
		}
		e, ok := env[f.Name]
		if !ok {
			return "", fmt.Errorf("constant %s not found", f.Name)
		}
		s, ok := str(e)
		if !ok {
			return "", fmt.Errorf("constant %s is not a string literal", f.Name)
		}
		return fmt.Sprintf("def %s : String := %s", f.Lean, strconv.Quote(s)), nil
	})
	Register("string_list", func(repo string, f Fact) (string, error) {
		env, err := collect(filepath.Join(repo, f.File))
		if err != nil {
			return "", err
		}
		e, ok := env[f.Name]
		if !ok {
			return "", fmt.Errorf("variable %s not found", f.Name)
		}
		cl, ok := e.(*ast.CompositeLit)
		if !ok {
			return "", fmt.Errorf("variable %s is not a composite literal", f.Name)
		}
		var items []string
		for _, el := range cl.Elts {
			s, ok := str(el)
			if !ok {
				return "", fmt.Errorf("variable %s: element is not a string literal", f.Name)
			}
			items = append(items, strconv.Quote(s))
		}
		return fmt.Sprintf("def %s : List String := [%s]", f.Lean, strings.Join(items, ", ")), nil
	})
	// returns_err_before: in function Func, every `return err`-style early return that follows the first call
	// containing First is preceded (in the same block, directly) by a call containing Then.  Used for
	// "the served configuration is re-adjusted on every error path of tryCommitPatch".
	Register("error_paths_call", func(repo string, f Fact) (string, error) {
		fset, fd, err := findFunc(repo, f.File, f.Func)
		if err != nil {
			return "", err
		}
		total, good := 0, 0
		ast.Inspect(fd, func(n ast.Node) bool {
			is, ok := n.(*ast.IfStmt)
			if !ok || !strings.Contains(exprString(fset, is.Cond), "err != nil") {
				return true
			}
			l := is.Body.List
			if len(l) == 0 {
				return true
			}
			if _, ok := l[len(l)-1].(*ast.ReturnStmt); !ok {
				return true
			}
			total++
			for _, s := range l[:len(l)-1] {
				if strings.Contains(exprString(fset, s), f.Then) {
					good++
					break
				}
			}
			return true
		})
		return fmt.Sprintf("def %s : Bool := %v", f.Lean, total > 0 && total == good), nil
	})
	// lockOps counts the calls <mutex>.Lock/Unlock/RLock/RUnlock anywhere inside the function.
	lockOps := func(fset *token.FileSet, fd *ast.FuncDecl, mutex string) int {
		n := 0
		ast.Inspect(fd, func(nd ast.Node) bool {
			c, ok := nd.(*ast.CallExpr)
			if !ok {
				return true
			}
			switch exprString(fset, c.Fun) {
			case mutex + ".Lock", mutex + ".Unlock", mutex + ".RLock", mutex + ".RUnlock":
				n++
			}
			return true
		})
		return n
	}
	// no_lock_ops: the function never locks or unlocks <mutex> itself (it runs entirely under its caller's lock).
	Register("no_lock_ops", func(repo string, f Fact) (string, error) {
		fset, fd, err := findFunc(repo, f.File, f.Func)
		if err != nil {
			return "", err
		}
		return fmt.Sprintf("def %s : Bool := %v", f.Lean, lockOps(fset, fd, f.Mutex) == 0), nil
	})
	// lock_to_end: somewhere at the top level of the body stands `<mutex>.Lock()` directly followed by
	// `defer <mutex>.Unlock()`; these are the only lock operations of the function; and none of the texts in
	// args.guarded (comma separated) occurs in the statements before the Lock.  I.e. everything that touches the
	// guarded state runs in one critical section that lasts until the function returns.
	Register("lock_to_end", func(repo string, f Fact) (string, error) {
		fset, fd, err := findFunc(repo, f.File, f.Func)
		if err != nil {
			return "", err
		}
		ok := false
		if fd.Body != nil {
			for i := 0; i+1 < len(fd.Body.List); i++ {
				s0, ok0 := fd.Body.List[i].(*ast.ExprStmt)
				s1, ok1 := fd.Body.List[i+1].(*ast.DeferStmt)
				if !ok0 || !ok1 || exprString(fset, s0.X) != f.Mutex+".Lock()" || exprString(fset, s1.Call) != f.Mutex+".Unlock()" {
					continue
				}
				ok = lockOps(fset, fd, f.Mutex) == 2
				for _, st := range fd.Body.List[:i] {
					txt := exprString(fset, st)
					for _, g := range strings.Split(f.Args["guarded"], ",") {
						if g != "" && strings.Contains(txt, g) {
							ok = false
						}
					}
				}
				break
			}
		}
		return fmt.Sprintf("def %s : Bool := %v", f.Lean, ok), nil
	})
}
