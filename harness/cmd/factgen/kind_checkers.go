package main

// Fact kinds of the areas Checkers / Scatter (properties C10, C11):
//
//	ssf_cond_table   – the condition table of filter.StoreStateFilter.anyConditionMatch
//	func_has_text    – a function body contains a given piece of source text
//	create_op_sites  – every operator.Create*Operator call site of some directories, with the filter
//	                   constructors that appear in the enclosing function and in the functions named
//	                   as its guards

import (
	"fmt"
	"go/ast"
	"go/parser"
	"go/token"
	"os"
	"path/filepath"
	"sort"
	"strings"
)

var ssfCondCodes = map[string]int{
	"isTombstone": 0, "isDown": 1, "isOffline": 2, "pauseLeaderTransfer": 3, "isDisconnected": 4,
	"isBusy": 5, "exceedRemoveLimit": 6, "exceedAddLimit": 7, "tooManySnapshots": 8,
	"tooManyPendingPeers": 9, "hasRejectLeaderProperty": 10,
}

var ssfTypeOrder = []string{"leaderSource", "regionSource", "leaderTarget", "regionTarget", "scatterRegionTarget"}

func leanStr(s string) string {
	return "\"" + strings.ReplaceAll(strings.ReplaceAll(s, "\\", "\\\\"), "\"", "\\\"") + "\""
}

func init() {
	Register("ssf_cond_table", func(repo string, f Fact) (string, error) {
		fset, fd, err := findFunc(repo, f.File, f.Func)
		if err != nil {
			return "", err
		}
		// the const block must declare the five types in the modelled order (iota)
		pf, err := parser.ParseFile(token.NewFileSet(), filepath.Join(repo, f.File), nil, 0)
		if err != nil {
			return "", err
		}
		orderOK := false
		for _, d := range pf.Decls {
			gd, ok := d.(*ast.GenDecl)
			if !ok || gd.Tok != token.CONST {
				continue
			}
			var names []string
			for _, s := range gd.Specs {
				for _, n := range s.(*ast.ValueSpec).Names {
					names = append(names, n.Name)
				}
			}
			if strings.Join(names, ",") == strings.Join(ssfTypeOrder, ",") {
				orderOK = true
			}
		}
		if !orderOK {
			return "", fmt.Errorf("const block %v not found", ssfTypeOrder)
		}
		table := map[string][]string{}
		var sw *ast.SwitchStmt
		ast.Inspect(fd, func(n ast.Node) bool {
			if s, ok := n.(*ast.SwitchStmt); ok && sw == nil {
				sw = s
			}
			return true
		})
		if sw == nil {
			return "", fmt.Errorf("no switch in %s", f.Func)
		}
		for _, st := range sw.Body.List {
			cc := st.(*ast.CaseClause)
			if len(cc.List) != 1 {
				return "", fmt.Errorf("unexpected case clause")
			}
			typ := exprString(fset, cc.List[0])
			var conds []string
			for _, b := range cc.Body {
				ast.Inspect(b, func(n ast.Node) bool {
					if cl, ok := n.(*ast.CompositeLit); ok {
						for _, e := range cl.Elts {
							s := exprString(fset, e)
							conds = append(conds, strings.TrimPrefix(s, "f."))
						}
						return false
					}
					return true
				})
			}
			table[typ] = conds
		}
		if len(table) != len(ssfTypeOrder) {
			return "", fmt.Errorf("switch has %d cases, expected %d", len(table), len(ssfTypeOrder))
		}
		// the loop after the switch must be the plain "any condition matches"
		body := exprString(fset, fd.Body)
		if !strings.Contains(body, "if cf(opt, store) {\n\t\t\treturn true") {
			return "", fmt.Errorf("the any-match loop of %s changed", f.Func)
		}
		var rows, names []string
		for _, t := range ssfTypeOrder {
			conds, ok := table[t]
			if !ok {
				return "", fmt.Errorf("no case for %s", t)
			}
			var codes []string
			for _, c := range conds {
				code, ok := ssfCondCodes[c]
				if !ok {
					code = 99
				}
				codes = append(codes, fmt.Sprint(code))
			}
			rows = append(rows, "["+strings.Join(codes, ", ")+"]")
			names = append(names, t+": "+strings.Join(conds, " "))
		}
		return fmt.Sprintf("-- %s\ndef %s : List (List Nat) := [%s]",
			strings.Join(names, "\n-- "), f.Lean, strings.Join(rows, ", ")), nil
	})

	// func_has_text: the (gofmt-printed) body of the function contains args.text
	Register("func_has_text", func(repo string, f Fact) (string, error) {
		fset, fd, err := findFunc(repo, f.File, f.Func)
		if err != nil {
			return "", err
		}
		if f.Args["text"] == "" {
			return "", fmt.Errorf("func_has_text needs args.text")
		}
		return fmt.Sprintf("def %s : Bool := %v", f.Lean, strings.Contains(exprString(fset, fd.Body), f.Args["text"])), nil
	})

	Register("create_op_sites", func(repo string, f Fact) (string, error) {
		dirs := strings.Split(f.Args["dirs"], ",")
		guards := map[string][]string{} // "file:func" -> extra functions "file:func"
		for _, g := range strings.Split(f.Args["guards"], ";") {
			g = strings.TrimSpace(g)
			if g == "" {
				continue
			}
			kv := strings.SplitN(g, "=", 2)
			if len(kv) != 2 {
				return "", fmt.Errorf("bad guards entry %q", g)
			}
			guards[kv[0]] = strings.Split(kv[1], "+")
		}
		type fn struct {
			key     string
			filters []string
			sites   []string // creators called, in source order
		}
		funcs := map[string]*fn{}
		var order []string
		for _, dir := range dirs {
			dir = strings.TrimSpace(dir)
			entries, err := os.ReadDir(filepath.Join(repo, dir))
			if err != nil {
				return "", err
			}
			for _, e := range entries {
				name := e.Name()
				if e.IsDir() || !strings.HasSuffix(name, ".go") || strings.HasSuffix(name, "_test.go") ||
					strings.HasPrefix(name, "verif_hook_") {
					continue
				}
				fset := token.NewFileSet()
				pf, err := parser.ParseFile(fset, filepath.Join(repo, dir, name), nil, 0)
				if err != nil {
					return "", err
				}
				for _, d := range pf.Decls {
					fd, ok := d.(*ast.FuncDecl)
					if !ok || fd.Body == nil {
						continue
					}
					recv := ""
					if fd.Recv != nil && len(fd.Recv.List) == 1 {
						t := fd.Recv.List[0].Type
						if st, ok := t.(*ast.StarExpr); ok {
							t = st.X
						}
						if id, ok := t.(*ast.Ident); ok {
							recv = id.Name + "."
						}
					}
					x := &fn{key: dir + "/" + name + ":" + recv + fd.Name.Name}
					ast.Inspect(fd.Body, func(n ast.Node) bool {
						switch v := n.(type) {
						case *ast.CallExpr:
							sel, ok := v.Fun.(*ast.SelectorExpr)
							if !ok {
								return true
							}
							pkg, _ := sel.X.(*ast.Ident)
							if pkg == nil {
								return true
							}
							if pkg.Name == "operator" && strings.HasPrefix(sel.Sel.Name, "Create") &&
								strings.HasSuffix(sel.Sel.Name, "Operator") {
								x.sites = append(x.sites, sel.Sel.Name)
							}
							if pkg.Name == "filter" && strings.HasPrefix(sel.Sel.Name, "New") &&
								sel.Sel.Name != "NewCandidates" {
								s := strings.TrimPrefix(sel.Sel.Name, "New")
								if sel.Sel.Name == "NewExcludedFilter" && len(v.Args) == 3 {
									a := exprString(fset, v.Args[2])
									switch {
									case a == "nil":
										a = "nil"
									case strings.HasSuffix(a, ".GetStoreIds()"):
										a = "regionStores"
									}
									s += "(" + a + ")"
								}
								if sel.Sel.Name == "NewSpecialUseFilter" && len(v.Args) > 1 {
									s += "(+allow)"
								}
								x.filters = append(x.filters, s)
							}
						case *ast.CompositeLit:
							if exprString(fset, v.Type) == "filter.StoreStateFilter" {
								var flags []string
								for _, e := range v.Elts {
									kv, ok := e.(*ast.KeyValueExpr)
									if !ok {
										continue
									}
									k := exprString(fset, kv.Key)
									if k == "ActionScope" || k == "Reason" {
										continue
									}
									if exprString(fset, kv.Value) == "true" {
										flags = append(flags, k)
									} else {
										flags = append(flags, k+"=?")
									}
								}
								sort.Strings(flags)
								x.filters = append(x.filters, "StoreState{"+strings.Join(flags, ",")+"}")
							}
						}
						return true
					})
					funcs[x.key] = x
					order = append(order, x.key)
				}
			}
		}
		sort.Strings(order)
		var rows []string
		used := map[string]bool{}
		for _, k := range order {
			x := funcs[k]
			if len(x.sites) == 0 {
				continue
			}
			fl := append([]string{}, x.filters...)
			for _, g := range guards[k] {
				used[k] = true
				gf, ok := funcs[g]
				if !ok {
					return "", fmt.Errorf("guard function %s of %s not found", g, k)
				}
				fl = append(fl, gf.filters...)
			}
			sort.Strings(fl)
			var uniq []string
			for i, s := range fl {
				if i == 0 || fl[i-1] != s {
					uniq = append(uniq, leanStr(s))
				}
			}
			for _, c := range x.sites {
				rows = append(rows, fmt.Sprintf("  (%s, %s, [%s])", leanStr(k), leanStr(c), strings.Join(uniq, ", ")))
			}
		}
		for k := range guards {
			if !used[k] {
				return "", fmt.Errorf("guards entry for %s, which creates no operator", k)
			}
		}
		return fmt.Sprintf("def %s : List (String × String × List String) := [\n%s]", f.Lean, strings.Join(rows, ",\n")), nil
	})
}
