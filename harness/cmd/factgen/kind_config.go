package main

import (
	"fmt"
	"go/ast"
	"go/parser"
	"go/token"
	"os"
	"path/filepath"
	"sort"
	"strconv"
	"strings"
)

// string constants (and vars initialised with a string literal) of the package in dir
func stringConsts(dir string) (map[string]string, []*ast.File, error) {
	fset := token.NewFileSet()
	pkgs, err := parser.ParseDir(fset, dir, func(fi os.FileInfo) bool {
		return !strings.HasSuffix(fi.Name(), "_test.go")
	}, 0)
	if err != nil {
		return nil, nil, err
	}
	consts := map[string]string{}
	var files []*ast.File
	for _, p := range pkgs {
		for _, f := range p.Files {
			files = append(files, f)
			for _, d := range f.Decls {
				gd, ok := d.(*ast.GenDecl)
				if !ok || (gd.Tok != token.CONST && gd.Tok != token.VAR) {
					continue
				}
				for _, s := range gd.Specs {
					vs := s.(*ast.ValueSpec)
					for i, n := range vs.Names {
						if i < len(vs.Values) {
							if bl, ok := vs.Values[i].(*ast.BasicLit); ok && bl.Kind == token.STRING {
								if v, err := strconv.Unquote(bl.Value); err == nil {
									consts[n.Name] = v
								}
							}
						}
					}
				}
			}
		}
	}
	return consts, files, nil
}

func leanStringList(name string, l []string) string {
	q := make([]string, len(l))
	for i, s := range l {
		q[i] = strconv.Quote(s)
	}
	return fmt.Sprintf("def %s : List String := [%s]", name, strings.Join(q, ", "))
}

func init() {
	// registered_schedulers: the first argument of every `schedule.RegisterScheduler(…)` call in the
	// package directory of File (resolved through the package's string constants), sorted.
	Register("registered_schedulers", func(repo string, f Fact) (string, error) {
		consts, files, err := stringConsts(filepath.Join(repo, filepath.Dir(f.File)))
		if err != nil {
			return "", err
		}
		var out []string
		var bad error
		for _, file := range files {
			ast.Inspect(file, func(n ast.Node) bool {
				c, ok := n.(*ast.CallExpr)
				if !ok || len(c.Args) == 0 {
					return true
				}
				sel, ok := c.Fun.(*ast.SelectorExpr)
				if !ok || sel.Sel.Name != "RegisterScheduler" {
					return true
				}
				switch a := c.Args[0].(type) {
				case *ast.BasicLit:
					if v, err := strconv.Unquote(a.Value); err == nil {
						out = append(out, v)
					}
				case *ast.Ident:
					if v, ok := consts[a.Name]; ok {
						out = append(out, v)
					} else {
						bad = fmt.Errorf("cannot resolve scheduler type %s", a.Name)
					}
				default:
					bad = fmt.Errorf("unsupported RegisterScheduler argument")
				}
				return true
			})
		}
		if bad != nil {
			return "", bad
		}
		if len(out) == 0 {
			return "", fmt.Errorf("no RegisterScheduler call found")
		}
		sort.Strings(out)
		return leanStringList(f.Lean, out), nil
	})
	// composite_types: the `Type: "<string>"` fields of the elements of the composite literal that
	// initialises the package variable Name (e.g. config.DefaultSchedulers), in order.
	Register("composite_types", func(repo string, f Fact) (string, error) {
		fset := token.NewFileSet()
		file, err := parser.ParseFile(fset, filepath.Join(repo, f.File), nil, 0)
		if err != nil {
			return "", err
		}
		var out []string
		found := false
		for _, d := range file.Decls {
			gd, ok := d.(*ast.GenDecl)
			if !ok || gd.Tok != token.VAR {
				continue
			}
			for _, s := range gd.Specs {
				vs := s.(*ast.ValueSpec)
				for i, n := range vs.Names {
					if n.Name != f.Name || i >= len(vs.Values) {
						continue
					}
					cl, ok := vs.Values[i].(*ast.CompositeLit)
					if !ok {
						return "", fmt.Errorf("%s is not a composite literal", f.Name)
					}
					found = true
					for _, el := range cl.Elts {
						ecl, ok := el.(*ast.CompositeLit)
						if !ok {
							return "", fmt.Errorf("unexpected element in %s", f.Name)
						}
						for _, kv := range ecl.Elts {
							kve, ok := kv.(*ast.KeyValueExpr)
							if !ok {
								continue
							}
							if k, ok := kve.Key.(*ast.Ident); ok && k.Name == "Type" {
								if bl, ok := kve.Value.(*ast.BasicLit); ok {
									if v, err := strconv.Unquote(bl.Value); err == nil {
										out = append(out, v)
									}
								}
							}
						}
					}
				}
			}
		}
		if !found {
			return "", fmt.Errorf("variable %s not found", f.Name)
		}
		return leanStringList(f.Lean, out), nil
	})
}
