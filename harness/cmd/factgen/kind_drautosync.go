package main

import (
	"fmt"
	"go/ast"
	"strings"
)

func init() {
	// ordered_then_assign: at the top level of the function body, statements containing calls to
	// Args["calls"] (comma separated callee substrings) occur in that order, the statement with the
	// last call is an `if … { …; return … }` (its failure leaves the function), and the first
	// assignment to Args["assign"] anywhere in the function is a top-level statement behind all of
	// them.  This is the "allocate ; offer ; persist ; publish" shape of the state switches.
	Register("ordered_then_assign", func(repo string, f Fact) (string, error) {
		fset, fd, err := findFunc(repo, f.File, f.Func)
		if err != nil {
			return "", err
		}
		calls := strings.Split(f.Args["calls"], ",")
		target := f.Args["assign"]
		if fd.Body == nil || len(calls) == 0 || target == "" {
			return "", fmt.Errorf("ordered_then_assign: needs a body, calls and assign")
		}
		hasCall := func(n ast.Node, sub string) bool {
			found := false
			ast.Inspect(n, func(x ast.Node) bool {
				if c, ok := x.(*ast.CallExpr); ok && strings.Contains(exprString(fset, c.Fun), sub) {
					found = true
				}
				return !found
			})
			return found
		}
		assigns := func(n ast.Node) bool {
			found := false
			ast.Inspect(n, func(x ast.Node) bool {
				if a, ok := x.(*ast.AssignStmt); ok {
					for _, l := range a.Lhs {
						if exprString(fset, l) == target {
							found = true
						}
					}
				}
				return !found
			})
			return found
		}
		ok := true
		prev := -1
		for _, c := range calls {
			idx := -1
			for i, st := range fd.Body.List {
				if hasCall(st, strings.TrimSpace(c)) {
					idx = i
					break
				}
			}
			if idx <= prev {
				ok = false
				break
			}
			prev = idx
		}
		if ok {
			// the last call's statement must leave the function on failure
			is, isIf := fd.Body.List[prev].(*ast.IfStmt)
			if !isIf || len(is.Body.List) == 0 {
				ok = false
			} else if _, isRet := is.Body.List[len(is.Body.List)-1].(*ast.ReturnStmt); !isRet {
				ok = false
			}
		}
		if ok {
			first := -1
			for i, st := range fd.Body.List {
				if assigns(st) {
					first = i
					break
				}
			}
			if first <= prev {
				ok = false
			} else if _, top := fd.Body.List[first].(*ast.AssignStmt); !top {
				ok = false
			}
		}
		return fmt.Sprintf("def %s : Bool := %v", f.Lean, ok), nil
	})
}
