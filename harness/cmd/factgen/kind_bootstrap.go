package main

import (
	"fmt"
	"go/ast"
	"go/parser"
	"go/token"
	"path/filepath"
	"sort"
	"strconv"
	"strings"
)

func init() {
	// boot_txn_guard: Func contains a comparison `clientv3.Compare(clientv3.CreateRevision(<key>), "=", 0)`
	// and a transaction whose If(...) uses it (directly or through the variable it is assigned to);
	// Args["key"] optionally names the expected key expression.
	Register("boot_txn_guard", func(repo string, f Fact) (string, error) {
		fset, fd, err := findFunc(repo, f.File, f.Func)
		if err != nil {
			return "", err
		}
		cmpVar, cmpInline := "", false
		isGuard := func(e ast.Expr) bool {
			s := strings.ReplaceAll(exprString(fset, e), " ", "")
			if !strings.HasPrefix(s, "clientv3.Compare(clientv3.CreateRevision(") || !strings.HasSuffix(s, `),"=",0)`) {
				return false
			}
			if k := f.Args["key"]; k != "" {
				return strings.Contains(s, "CreateRevision("+k+")")
			}
			return true
		}
		ast.Inspect(fd, func(n ast.Node) bool {
			if as, ok := n.(*ast.AssignStmt); ok && len(as.Lhs) == 1 && len(as.Rhs) == 1 && isGuard(as.Rhs[0]) {
				if id, ok := as.Lhs[0].(*ast.Ident); ok {
					cmpVar = id.Name
				}
			}
			return true
		})
		used := false
		ast.Inspect(fd, func(n ast.Node) bool {
			c, ok := n.(*ast.CallExpr)
			if !ok {
				return true
			}
			sel, ok := c.Fun.(*ast.SelectorExpr)
			if !ok || sel.Sel.Name != "If" || len(c.Args) != 1 {
				return true
			}
			if id, ok := c.Args[0].(*ast.Ident); ok && cmpVar != "" && id.Name == cmpVar {
				used = true
			}
			if isGuard(c.Args[0]) {
				used, cmpInline = true, true
			}
			return true
		})
		_ = cmpInline
		return fmt.Sprintf("def %s : Bool := %v", f.Lean, used), nil
	})

	// boot_handlers_without_validate: the exported methods of *Server in File that never call
	// s.validateRequest, sorted.
	Register("boot_handlers_without_validate", func(repo string, f Fact) (string, error) {
		fset := token.NewFileSet()
		file, err := parser.ParseFile(fset, filepath.Join(repo, f.File), nil, 0)
		if err != nil {
			return "", err
		}
		var out []string
		for _, d := range file.Decls {
			fd, ok := d.(*ast.FuncDecl)
			if !ok || fd.Recv == nil || !fd.Name.IsExported() || fd.Body == nil || len(fd.Recv.List) != 1 {
				continue
			}
			rt := fd.Recv.List[0].Type
			if st, ok := rt.(*ast.StarExpr); ok {
				rt = st.X
			}
			if id, ok := rt.(*ast.Ident); !ok || id.Name != "Server" {
				continue
			}
			has := false
			ast.Inspect(fd, func(n ast.Node) bool {
				if c, ok := n.(*ast.CallExpr); ok && strings.HasSuffix(exprString(fset, c.Fun), ".validateRequest") {
					has = true
				}
				return true
			})
			if !has {
				out = append(out, strconv.Quote(fd.Name.Name))
			}
		}
		sort.Strings(out)
		return fmt.Sprintf("def %s : List String := [%s]", f.Lean, strings.Join(out, ", ")), nil
	})
}
