package main

import (
	"fmt"
	"go/ast"
	"go/token"
	"sort"
	"strings"
)

func init() {
	// truncated_slices: the names X for which the function contains an assignment `X = X[:0]`
	// (sorted).  Lean: `def <lean> : List String`.
	Register("truncated_slices", func(repo string, f Fact) (string, error) {
		_, fd, err := findFunc(repo, f.File, f.Func)
		if err != nil {
			return "", err
		}
		seen := map[string]bool{}
		ast.Inspect(fd, func(n ast.Node) bool {
			as, ok := n.(*ast.AssignStmt)
			if !ok || as.Tok != token.ASSIGN || len(as.Lhs) != 1 || len(as.Rhs) != 1 {
				return true
			}
			l, ok1 := as.Lhs[0].(*ast.Ident)
			sl, ok2 := as.Rhs[0].(*ast.SliceExpr)
			if !ok1 || !ok2 || sl.Low != nil || sl.High == nil {
				return true
			}
			x, ok3 := sl.X.(*ast.Ident)
			hi, ok4 := sl.High.(*ast.BasicLit)
			if ok3 && ok4 && x.Name == l.Name && hi.Value == "0" {
				seen[l.Name] = true
			}
			return true
		})
		names := make([]string, 0, len(seen))
		for n := range seen {
			names = append(names, fmt.Sprintf("%q", n))
		}
		sort.Strings(names)
		return fmt.Sprintf("def %s : List String := [%s]", f.Lean, strings.Join(names, ", ")), nil
	})
	// has_string: the function contains the string literal Name.  Lean: `def <lean> : Bool`.
	Register("has_string", func(repo string, f Fact) (string, error) {
		_, fd, err := findFunc(repo, f.File, f.Func)
		if err != nil {
			return "", err
		}
		found := false
		ast.Inspect(fd, func(n ast.Node) bool {
			if bl, ok := n.(*ast.BasicLit); ok && bl.Kind == token.STRING && strings.Trim(bl.Value, "\"`") == f.Name {
				found = true
			}
			return true
		})
		return fmt.Sprintf("def %s : Bool := %v", f.Lean, found), nil
	})
}

func init() {
	// assign_after_call: in the function, the first assignment whose left side prints as Name comes textually
	// after the first call whose callee contains First (both exist).  Lean: `def <lean> : Bool`.
	Register("assign_after_call", func(repo string, f Fact) (string, error) {
		fset, fd, err := findFunc(repo, f.File, f.Func)
		if err != nil {
			return "", err
		}
		var pCall, pAssign token.Pos
		ast.Inspect(fd, func(n ast.Node) bool {
			switch x := n.(type) {
			case *ast.CallExpr:
				if pCall == 0 && strings.Contains(exprString(fset, x.Fun), f.First) {
					pCall = x.Pos()
				}
			case *ast.AssignStmt:
				for _, l := range x.Lhs {
					if pAssign == 0 && exprString(fset, l) == f.Name {
						pAssign = x.Pos()
					}
				}
			}
			return true
		})
		return fmt.Sprintf("def %s : Bool := %v", f.Lean, pCall != 0 && pAssign != 0 && pCall < pAssign), nil
	})
}

func init() {
	// sync_call: the function calls Name at least once and none of these calls is the call of a `go` (or
	// `defer`) statement.  Lean: `def <lean> : Bool`.
	Register("sync_call", func(repo string, f Fact) (string, error) {
		fset, fd, err := findFunc(repo, f.File, f.Func)
		if err != nil {
			return "", err
		}
		calls, detached := 0, 0
		ast.Inspect(fd, func(n ast.Node) bool {
			switch x := n.(type) {
			case *ast.GoStmt:
				if exprString(fset, x.Call.Fun) == f.Name {
					detached++
				}
			case *ast.DeferStmt:
				if exprString(fset, x.Call.Fun) == f.Name {
					detached++
				}
			case *ast.CallExpr:
				if exprString(fset, x.Fun) == f.Name {
					calls++
				}
			}
			return true
		})
		return fmt.Sprintf("def %s : Bool := %v", f.Lean, calls > 0 && detached == 0), nil
	})
}

func init() {
	// mentions: the identifier or field name Name occurs somewhere in the function.  Lean: `def <lean> : Bool`.
	Register("mentions", func(repo string, f Fact) (string, error) {
		_, fd, err := findFunc(repo, f.File, f.Func)
		if err != nil {
			return "", err
		}
		found := false
		ast.Inspect(fd, func(n ast.Node) bool {
			if id, ok := n.(*ast.Ident); ok && id.Name == f.Name {
				found = true
			}
			return true
		})
		return fmt.Sprintf("def %s : Bool := %v", f.Lean, found), nil
	})
}
