package main

import (
	"fmt"
	"go/ast"
	"go/parser"
	"go/printer"
	"go/token"
	"path/filepath"
	"strings"
)

// findFunc returns the declaration of "Recv.Name" or "Name" in file.
func findFunc(repo, file, fn string) (*token.FileSet, *ast.FuncDecl, error) {
	fset := token.NewFileSet()
	f, err := parser.ParseFile(fset, filepath.Join(repo, file), nil, 0)
	if err != nil {
		return nil, nil, err
	}
	recv, name := "", fn
	if i := strings.Index(fn, "."); i >= 0 {
		recv, name = fn[:i], fn[i+1:]
	}
	for _, d := range f.Decls {
		fd, ok := d.(*ast.FuncDecl)
		if !ok || fd.Name.Name != name {
			continue
		}
		r := ""
		if fd.Recv != nil && len(fd.Recv.List) == 1 {
			t := fd.Recv.List[0].Type
			if st, ok := t.(*ast.StarExpr); ok {
				t = st.X
			}
			if id, ok := t.(*ast.Ident); ok {
				r = id.Name
			}
		}
		if r == recv {
			return fset, fd, nil
		}
	}
	return nil, nil, fmt.Errorf("func %s not found in %s", fn, file)
}

func exprString(fset *token.FileSet, e ast.Node) string {
	var sb strings.Builder
	printer.Fprint(&sb, fset, e)
	return sb.String()
}

func init() {
	// locked_func: the body starts with `<mutex>.Lock()` (or RLock) immediately followed by
	// `defer <mutex>.Unlock()` (or RUnlock): the whole function is one atomic section.
	Register("locked_func", func(repo string, f Fact) (string, error) {
		fset, fd, err := findFunc(repo, f.File, f.Func)
		if err != nil {
			return "", err
		}
		ok := false
		// args.index: the Lock/defer-Unlock pair starts at this statement of the body (default 0);
		// the statements before it may only be other Lock/defer-Unlock pairs
		idx := 0
		if v, has := f.Args["index"]; has {
			fmt.Sscanf(v, "%d", &idx)
		}
		if fd.Body != nil && len(fd.Body.List) >= idx+2 {
			s0, ok0 := fd.Body.List[idx].(*ast.ExprStmt)
			s1, ok1 := fd.Body.List[idx+1].(*ast.DeferStmt)
			if ok0 && ok1 {
				a := exprString(fset, s0.X)
				b := exprString(fset, s1.Call)
				if (a == f.Mutex+".Lock()" && b == f.Mutex+".Unlock()") ||
					(a == f.Mutex+".RLock()" && b == f.Mutex+".RUnlock()") {
					ok = true
				}
			}
		}
		return fmt.Sprintf("def %s : Bool := %v", f.Lean, ok), nil
	})
	// call_order: inside the function, the first call whose printed callee contains First
	// textually precedes the first (args.then = "last": the last) call whose callee contains Then, and both exist.
	Register("call_order", func(repo string, f Fact) (string, error) {
		fset, fd, err := findFunc(repo, f.File, f.Func)
		if err != nil {
			return "", err
		}
		var p1, p2 token.Pos
		ast.Inspect(fd, func(n ast.Node) bool {
			c, ok := n.(*ast.CallExpr)
			if !ok {
				return true
			}
			s := exprString(fset, c.Fun)
			if p1 == 0 && strings.Contains(s, f.First) {
				p1 = c.Pos()
			}
			// args.then = "last": compare with the last call whose callee contains Then
			if (p2 == 0 || f.Args["then"] == "last") && strings.Contains(s, f.Then) {
				p2 = c.Pos()
			}
			return true
		})
		return fmt.Sprintf("def %s : Bool := %v", f.Lean, p1 != 0 && p2 != 0 && p1 < p2), nil
	})
	// calls_method: the function contains a call whose selector name (or plain function name) is
	// exactly Name.
	Register("calls_method", func(repo string, f Fact) (string, error) {
		_, fd, err := findFunc(repo, f.File, f.Func)
		if err != nil {
			return "", err
		}
		found := false
		ast.Inspect(fd, func(n ast.Node) bool {
			c, ok := n.(*ast.CallExpr)
			if !ok {
				return true
			}
			switch x := c.Fun.(type) {
			case *ast.SelectorExpr:
				if x.Sel.Name == f.Name {
					found = true
				}
			case *ast.Ident:
				if x.Name == f.Name {
					found = true
				}
			}
			return true
		})
		return fmt.Sprintf("def %s : Bool := %v", f.Lean, found), nil
	})
}
