package main

import (
	"fmt"
	"go/ast"
	"strings"
)

// sel_list: the selector names `<recv>.<name>` with a given name prefix that occur in a function, in
// source order (first occurrence only).  With args.case the search is restricted to the body of the
// `case <label>:` clause of the first switch that has it.
//
//	{"kind":"sel_list","file":"server/schedule/operator/builder.go","func":"Builder.peerPlan",
//	 "args":{"prefix":"plan"},"lean":"peerPlanOrder"}
func init() {
	Register("sel_list", func(repo string, f Fact) (string, error) {
		fset, fd, err := findFunc(repo, f.File, f.Func)
		if err != nil {
			return "", err
		}
		_ = fset
		var root ast.Node = fd.Body
		if label := f.Args["case"]; label != "" {
			var found ast.Node
			ast.Inspect(fd.Body, func(n ast.Node) bool {
				cc, ok := n.(*ast.CaseClause)
				if !ok || found != nil {
					return true
				}
				for _, e := range cc.List {
					if id, ok := e.(*ast.Ident); ok && id.Name == label {
						found = &ast.BlockStmt{List: cc.Body}
					}
				}
				return true
			})
			if found == nil {
				return "", fmt.Errorf("case %s not found in %s", label, f.Func)
			}
			root = found
		}
		prefix := f.Args["prefix"]
		seen := map[string]bool{}
		var names []string
		ast.Inspect(root, func(n ast.Node) bool {
			se, ok := n.(*ast.SelectorExpr)
			if !ok {
				return true
			}
			if _, isIdent := se.X.(*ast.Ident); !isIdent {
				return true
			}
			name := se.Sel.Name
			if strings.HasPrefix(name, prefix) && !seen[name] {
				seen[name] = true
				names = append(names, name)
			}
			return true
		})
		if len(names) == 0 {
			return "", fmt.Errorf("no selector with prefix %q in %s", prefix, f.Func)
		}
		q := make([]string, len(names))
		for i, n := range names {
			q[i] = fmt.Sprintf("%q", n)
		}
		return fmt.Sprintf("def %s : List String := [%s]", f.Lean, strings.Join(q, ", ")), nil
	})
}
